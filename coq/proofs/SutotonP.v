(* C17: the sutoton converter - width map, the length-sorted vocabulary, first match = longest match,
   verbatim strings/comments, definitions, ASCII identity, homomorphism, totality. *)
From Sakura.Model Require Import Base Cursor Cursor2 Zen2han Sutoton.
From Sakura.Gen Require Import SutotonTable.
From Sakura.Spec Require Import RewriteSpec.
From Coq Require Import Lia Permutation Sorted.
Open Scope Z_scope.

(* ------------------------------------------------------------------------------------------ *)
(* 1. zen2han                                                                                   *)
(* ------------------------------------------------------------------------------------------ *)
Lemma zen2han_spec c : zen2han c = width_map c.
Proof.
  unfold zen2han, width_map, is_fullwidth, is_wide_space, char_from_u32, is_scalar.
  destruct ((32 <=? c) && (c <=? 126)) eqn:A.
  - replace ((65281 <=? c) && (c <=? 65374)) with false by lia.
    replace ((8194 <=? c) && (c <=? 8203) || (c =? 12288) || (c =? 65279)) with false by lia.
    reflexivity.
  - destruct ((65281 <=? c) && (c <=? 65374)) eqn:B.
    + replace ((0 <=? c - 65281 + 33) && (c - 65281 + 33 <? 55296) ||
               (57344 <=? c - 65281 + 33) && (c - 65281 + 33 <=? 1114111)) with true by lia.
      lia.
    + destruct ((8194 <=? c) && (c <=? 8203)) eqn:C; cbn [orb]; [reflexivity|].
      destruct ((c =? 12288) || (c =? 65279)) eqn:D.
      * replace ((c =? 12288) || (c =? 65279)) with true by lia. reflexivity.
      * replace ((c =? 12288) || (c =? 65279)) with false by lia. reflexivity.
Qed.

Lemma zen2han_cases c :
  (65281 <= c <= 65374 -> zen2han c = c - 65248) /\
  ((8194 <= c <= 8203 \/ c = 12288 \/ c = 65279) -> zen2han c = 32) /\
  (~ (65281 <= c <= 65374) -> ~ (8194 <= c <= 8203 \/ c = 12288 \/ c = 65279) -> zen2han c = c).
Proof.
  rewrite zen2han_spec. unfold width_map, is_fullwidth, is_wide_space.
  repeat split; intros.
  - replace ((65281 <=? c) && (c <=? 65374)) with true by lia. reflexivity.
  - replace ((65281 <=? c) && (c <=? 65374)) with false by lia.
    replace ((8194 <=? c) && (c <=? 8203) || (c =? 12288) || (c =? 65279)) with true by lia. reflexivity.
  - replace ((65281 <=? c) && (c <=? 65374)) with false by lia.
    replace ((8194 <=? c) && (c <=? 8203) || (c =? 12288) || (c =? 65279)) with false by lia. reflexivity.
Qed.

Lemma zen2han_ascii c : 0 <= c < 128 -> zen2han c = c.
Proof. intros H. apply (zen2han_cases c); lia. Qed.

(* ------------------------------------------------------------------------------------------ *)
(* 2. the stable sort by descending byte length                                                 *)
(* ------------------------------------------------------------------------------------------ *)
Definition key (it : item) : Z := utf8_bytes (it_name it).
Definition key_ge (a b : item) : Prop := key a >= key b.

Lemma insert_item_perm x l : Permutation (insert_item x l) (x :: l).
Proof.
  induction l as [|y r IH]; cbn [insert_item]; [apply Permutation_refl|].
  destruct (utf8_bytes (it_name y) <=? utf8_bytes (it_name x)); [apply Permutation_refl|].
  eapply perm_trans; [apply perm_skip, IH | apply perm_swap].
Qed.

Lemma sort_desc_perm l : Permutation (sort_desc l) l.
Proof.
  induction l as [|e r IH]; cbn; [constructor|].
  eapply perm_trans; [apply insert_item_perm|]. apply perm_skip. exact IH.
Qed.

Lemma insert_item_hd e l x : HdRel key_ge x l -> key_ge x e -> HdRel key_ge x (insert_item e l).
Proof.
  intros H He. destruct l as [|y r]; cbn [insert_item]; [constructor; assumption|].
  destruct (utf8_bytes (it_name y) <=? utf8_bytes (it_name e)); constructor; [assumption|].
  inversion H; assumption.
Qed.

Lemma insert_item_sorted e l : Sorted key_ge l -> Sorted key_ge (insert_item e l).
Proof.
  induction l as [|x r IH]; intros H; cbn [insert_item]; [repeat constructor|].
  inversion H as [|a b Hs Hh]; subst.
  destruct (utf8_bytes (it_name x) <=? utf8_bytes (it_name e)) eqn:E.
  - constructor; [assumption|]. constructor. unfold key_ge, key. lia.
  - constructor; [apply IH; assumption|]. apply insert_item_hd; [assumption|]. unfold key_ge, key. lia.
Qed.

Lemma sort_desc_sorted l : Sorted key_ge (sort_desc l).
Proof. induction l as [|e r IH]; cbn; [constructor|]. apply insert_item_sorted, IH. Qed.

(* stability: entries of one byte length keep their order *)
Definition with_key (k : Z) (l : list item) : list item := filter (fun e => key e =? k) l.

Lemma insert_item_with_key e l k :
  with_key k (insert_item e l) = if key e =? k then e :: with_key k l else with_key k l.
Proof.
  induction l as [|x r IH]; cbn [insert_item].
  - unfold with_key. cbn [filter]. destruct (key e =? k); reflexivity.
  - destruct (utf8_bytes (it_name x) <=? utf8_bytes (it_name e)) eqn:E.
    + unfold with_key. cbn [filter]. destruct (key e =? k); reflexivity.
    + unfold with_key in *. cbn [filter]. rewrite IH.
      destruct (key e =? k) eqn:Et; [|reflexivity].
      destruct (key x =? k) eqn:Ex; [exfalso; unfold key in *; lia | reflexivity].
Qed.

Lemma sort_desc_stable l k : with_key k (sort_desc l) = with_key k l.
Proof.
  induction l as [|e r IH]; [reflexivity|].
  cbn [sort_desc fold_right]. fold (sort_desc r). rewrite insert_item_with_key, IH.
  unfold with_key. cbn [filter]. destruct (key e =? k); reflexivity.
Qed.

Lemma sorted_with_key_cons x l : Sorted key_ge (x :: l) ->
  forall k, k > key x -> with_key k (x :: l) = [].
Proof.
  intros Hs k Hk. apply Sorted_StronglySorted in Hs; [|intros a b c; unfold key_ge; lia].
  inversion Hs as [|a b Hss Hall]; subst.
  unfold with_key. cbn [filter]. replace (key x =? k) with false by lia.
  clear Hs Hss. induction Hall as [|y r Hy Hr IH]; [reflexivity|].
  unfold key_ge in Hy. cbn [filter]. replace (key y =? k) with false by lia.
  exact IH.
Qed.

(* sorted + stable determine the result: the model does not depend on the algorithm behind sort_by *)
Lemma stable_sort_desc_unique l1 l2 :
  Sorted key_ge l1 -> Sorted key_ge l2 -> (forall k, with_key k l1 = with_key k l2) -> l1 = l2.
Proof.
  revert l2. induction l1 as [|x r1 IH]; intros l2 S1 S2 H.
  - destruct l2 as [|y r2]; [reflexivity|].
    specialize (H (key y)). unfold with_key in H. cbn [filter] in H.
    rewrite Z.eqb_refl in H. discriminate.
  - destruct l2 as [|y r2].
    + specialize (H (key x)). unfold with_key in H. cbn [filter] in H.
      rewrite Z.eqb_refl in H. discriminate.
    + assert (Ht : key x = key y).
      { destruct (Z.lt_total (key x) (key y)) as [Hlt|[Heq|Hgt]]; [|assumption|].
        - pose proof (H (key y)) as Hy. rewrite (sorted_with_key_cons x r1 S1 (key y)) in Hy by lia.
          unfold with_key in Hy. cbn [filter] in Hy. rewrite Z.eqb_refl in Hy. discriminate.
        - pose proof (H (key x)) as Hx. rewrite (sorted_with_key_cons y r2 S2 (key x)) in Hx by lia.
          unfold with_key in Hx. cbn [filter] in Hx. rewrite Z.eqb_refl in Hx. discriminate. }
      pose proof (H (key x)) as Hx. unfold with_key in Hx. cbn [filter] in Hx.
      rewrite Z.eqb_refl in Hx. rewrite <- Ht, Z.eqb_refl in Hx. injection Hx as Hxy Hrest. subst y.
      f_equal. apply IH.
      * inversion S1; assumption.
      * inversion S2; assumption.
      * intros k. specialize (H k). unfold with_key in H. cbn [filter] in H.
        destruct (key x =? k); [injection H as H; exact H | exact H].
Qed.

Theorem sort_desc_is_the_stable_sort l l' :
  Sorted key_ge l' -> (forall k, with_key k l' = with_key k l) -> l' = sort_desc l.
Proof.
  intros S H. apply stable_sort_desc_unique; [assumption | apply sort_desc_sorted|].
  intros k. rewrite sort_desc_stable. apply H.
Qed.

(* ------------------------------------------------------------------------------------------ *)
(* 3. the vocabulary invariant: sorted longest-first (in bytes), unique non-empty names         *)
(* ------------------------------------------------------------------------------------------ *)
Definition names (l : list item) : list (list ch) := map it_name l.
Definition names_ne (l : list item) : Prop := Forall (fun it => it_name it <> []) l.
Definition wf_items (l : list item) : Prop := Sorted key_ge l /\ NoDup (names l) /\ names_ne l.
Definition sl_ok (sl : slist) : Prop := sl_sorted sl = true /\ wf_items (sl_items sl).

Lemma list_eqb_eq a : forall b, list_eqb a b = true <-> a = b.
Proof.
  induction a as [|x a IH]; intros [|y b]; cbn [list_eqb]; split; intros H; try reflexivity; try discriminate.
  - apply andb_prop in H. destruct H as [H1 H2]. apply Z.eqb_eq in H1. apply IH in H2. subst. reflexivity.
  - injection H as -> ->. rewrite Z.eqb_refl. cbn [andb]. apply IH. reflexivity.
Qed.

Lemma list_eqb_neq a b : list_eqb a b = false <-> a <> b.
Proof.
  split; intros H.
  - intros E. apply list_eqb_eq in E. congruence.
  - destruct (list_eqb a b) eqn:E; [|reflexivity]. apply list_eqb_eq in E. contradiction.
Qed.

Lemma starts_prefixb p s : starts p s = prefixb p s.
Proof. revert s. induction p as [|x p IH]; intros [|y s]; cbn; try reflexivity; rewrite IH; reflexivity. Qed.

Lemma prefixb_app p t : prefixb p (p ++ t) = true.
Proof. induction p as [|x p IH]; cbn; [reflexivity|]. rewrite Z.eqb_refl, IH. reflexivity. Qed.

Lemma prefixb_true p : forall s, prefixb p s = true -> s = p ++ skipn (length p) s.
Proof.
  induction p as [|x p IH]; intros s H; [reflexivity|].
  destruct s as [|y s]; cbn in H; [discriminate|].
  apply andb_prop in H. destruct H as [H1 H2]. apply Z.eqb_eq in H1. subst y.
  cbn [length skipn app]. f_equal. apply IH. exact H2.
Qed.

Lemma prefixb_iff p s : prefixb p s = true <-> is_prefix p s.
Proof.
  split.
  - intros H. exists (skipn (length p) s). apply prefixb_true. exact H.
  - intros [t ->]. apply prefixb_app.
Qed.

Lemma starts_both a b : starts a b && starts b a = true <-> a = b.
Proof.
  change (prefixb a b && prefixb b a = true <-> a = b). split.
  - intros H. apply andb_prop in H. destruct H as [H1 H2].
    apply prefixb_true in H1. apply prefixb_true in H2.
    assert (L : length (skipn (length a) b) = 0%nat).
    { apply (f_equal (@length Z)) in H1. apply (f_equal (@length Z)) in H2.
      rewrite app_length in H1, H2. lia. }
    destruct (skipn (length a) b); [|discriminate]. rewrite app_nil_r in H1. congruence.
  - intros ->. assert (R : prefixb b b = true) by (induction b as [|x b IH]; cbn; [reflexivity | rewrite Z.eqb_refl, IH; reflexivity]).
    rewrite R. reflexivity.
Qed.

Lemma starts_both_false a b : starts a b && starts b a = false <-> a <> b.
Proof.
  split; intros H.
  - intros E. apply starts_both in E. congruence.
  - destruct (starts a b && starts b a) eqn:E; [|reflexivity]. apply starts_both in E. contradiction.
Qed.

(* set_item is the specification's `define` on the item list *)
Lemma replace_item_define name value l :
  match replace_item name value l with
  | Some l' => l' = define name value l /\ names l' = names l /\ In name (names l)
  | None => define name value l = l ++ [(name, value)] /\ ~ In name (names l)
  end.
Proof.
  induction l as [|[n v] r IH]; cbn [replace_item define].
  - split; [reflexivity | intros []].
  - cbn [it_name fst].
    assert (Hne : n <> name ->
      match match replace_item name value r with Some r' => Some ((n, v) :: r') | None => None end with
      | Some l' => l' = (if starts name n && starts n name then (n, value) :: r else (n, v) :: define name value r)
                   /\ names l' = names ((n, v) :: r) /\ In name (names ((n, v) :: r))
      | None => (if starts name n && starts n name then (n, value) :: r else (n, v) :: define name value r)
                = ((n, v) :: r) ++ [(name, value)] /\ ~ In name (names ((n, v) :: r))
      end).
    { intros Hn. replace (starts name n && starts n name) with false
        by (symmetry; apply starts_both_false; congruence).
      destruct (replace_item name value r) as [r'|].
      - destruct IH as (A & B & C). subst r'. cbn [names map it_name fst] in *. repeat split.
        + f_equal. exact B.
        + right. exact C.
      - destruct IH as (A & B). rewrite A. cbn [names map it_name fst app] in *. split; [reflexivity|].
        intros [E|E]; [congruence | contradiction]. }
    destruct (negb (zlen n =? zlen name)) eqn:Elen.
    + apply Hne. intros ->. rewrite Z.eqb_refl in Elen. discriminate.
    + destruct (list_eqb n name) eqn:Eeq.
      * apply list_eqb_eq in Eeq. subst n.
        replace (starts name name && starts name name) with true by (symmetry; apply starts_both; reflexivity).
        cbn [names map it_name fst]. repeat split. left. reflexivity.
      * apply list_eqb_neq in Eeq. apply Hne. exact Eeq.
Qed.

Lemma set_item_items name value sl : sl_items (set_item name value sl) = define name value (sl_items sl).
Proof.
  unfold set_item. pose proof (replace_item_define name value (sl_items sl)) as H.
  destruct (replace_item name value (sl_items sl)) as [l'|]; cbn [sl_items].
  - destruct H as (A & _). exact A.
  - destruct H as (A & _). symmetry. exact A.
Qed.

(* sortedness, uniqueness and non-emptiness depend on the names only *)
Lemma sorted_names l : forall l', names l = names l' -> Sorted key_ge l -> Sorted key_ge l'.
Proof.
  induction l as [|a r IH]; intros [|a' r'] H S; try discriminate; [constructor|].
  cbn [names map] in H. injection H as Ha Hr. inversion S as [|x y Ss Hh]; subst.
  constructor; [apply IH; assumption|].
  destruct r as [|b r2]; destruct r' as [|b' r2']; try discriminate; constructor.
  inversion Hh; subst. cbn [names map] in Hr. injection Hr as Hb _.
  unfold key_ge, key in *. rewrite <- Ha, <- Hb. assumption.
Qed.

Lemma names_ne_names l l' : names l = names l' -> names_ne l -> names_ne l'.
Proof.
  revert l'. induction l as [|a r IH]; intros [|a' r'] H S; try discriminate; [constructor|].
  cbn [names map] in H. injection H as Ha Hr. inversion S; subst.
  constructor; [rewrite <- Ha; assumption | apply IH; assumption].
Qed.

Lemma wf_items_names l l' : names l = names l' -> wf_items l -> wf_items l'.
Proof.
  intros H (A & B & C). repeat split.
  - eapply sorted_names; eassumption.
  - rewrite <- H. exact B.
  - eapply names_ne_names; eassumption.
Qed.

Lemma names_ne_perm l l' : Permutation l l' -> names_ne l -> names_ne l'.
Proof. intros P H. unfold names_ne in *. eapply Permutation_Forall; eassumption. Qed.

Theorem set_item_ok name value sl :
  sl_ok sl -> name <> [] -> sl_ok (sort_items (set_item name value sl)).
Proof.
  intros (Hs & Hwf) Hne. unfold set_item.
  pose proof (replace_item_define name value (sl_items sl)) as H.
  destruct (replace_item name value (sl_items sl)) as [l'|].
  - destruct H as (_ & Hn & _). unfold sort_items. cbn [sl_sorted]. rewrite Hs. split; [reflexivity|].
    cbn [sl_items]. eapply wf_items_names; [symmetry; exact Hn | exact Hwf].
  - destruct H as (_ & Hnot). unfold sort_items. cbn [sl_sorted sl_items]. split; [reflexivity|].
    destruct Hwf as (A & B & C).
    assert (P : Permutation (sort_desc (sl_items sl ++ [(name, value)])) ((name, value) :: sl_items sl)).
    { eapply perm_trans; [apply sort_desc_perm|]. apply Permutation_sym, Permutation_cons_append. }
    repeat split.
    + apply sort_desc_sorted.
    + eapply Permutation_NoDup; [apply Permutation_map, Permutation_sym, P|].
      cbn [map it_name fst]. constructor; assumption.
    + eapply names_ne_perm; [apply Permutation_sym, P|]. constructor; [exact Hne | exact C].
Qed.

(* a boolean check of the invariant, for the regenerated table *)
Fixpoint sortedb (l : list item) : bool :=
  match l with
  | a :: ((b :: _) as r) => (key b <=? key a) && sortedb r
  | _ => true
  end.
Fixpoint nodupb (l : list (list ch)) : bool :=
  match l with
  | [] => true
  | a :: r => negb (existsb (list_eqb a) r) && nodupb r
  end.
Definition wfb (l : list item) : bool :=
  sortedb l && nodupb (names l) && forallb (fun it => negb (is_nil (it_name it))) l.

Lemma sortedb_ok l : sortedb l = true -> Sorted key_ge l.
Proof.
  induction l as [|a r IH]; intros H; [constructor|].
  destruct r as [|b r2]; [repeat constructor|].
  cbn [sortedb] in H. apply andb_prop in H. destruct H as [H1 H2].
  constructor; [apply IH; exact H2|]. constructor. unfold key_ge. lia.
Qed.

Lemma nodupb_ok l : nodupb l = true -> NoDup l.
Proof.
  induction l as [|a r IH]; intros H; [constructor|].
  cbn [nodupb] in H. apply andb_prop in H. destruct H as [H1 H2].
  constructor; [|apply IH; exact H2].
  intros Hin. apply negb_true_iff in H1.
  assert (existsb (list_eqb a) r = true); [|congruence].
  apply existsb_exists. exists a. split; [exact Hin | apply list_eqb_eq; reflexivity].
Qed.

Lemma wfb_ok l : wfb l = true -> wf_items l.
Proof.
  unfold wfb. intros H. apply andb_prop in H. destruct H as [H H3]. apply andb_prop in H. destruct H as [H1 H2].
  repeat split; [apply sortedb_ok, H1 | apply nodupb_ok, H2|].
  unfold names_ne. apply Forall_forall. intros it Hin.
  rewrite forallb_forall in H3. specialize (H3 it Hin). destruct (it_name it); [discriminate | discriminate].
Qed.

Theorem init_items_ok : sl_ok init_items.
Proof. split; [vm_compute; reflexivity | apply wfb_ok; vm_compute; reflexivity]. Qed.

(* the initial list is the stable sort of the table rows (no row is overridden) *)
Lemma init_items_sorted_table : sl_items init_items = sort_desc sutoton_table.
Proof. vm_compute. reflexivity. Qed.

(* ------------------------------------------------------------------------------------------ *)
(* 4. first match of the scan = longest vocabulary prefix                                       *)
(* ------------------------------------------------------------------------------------------ *)
Lemma utf8_len_pos c : 1 <= utf8_len c.
Proof. unfold utf8_len. destruct (c <? 128), (c <? 2048), (c <? 65536); lia. Qed.

Lemma utf8_bytes_app a b : utf8_bytes (a ++ b) = utf8_bytes a + utf8_bytes b.
Proof. induction a as [|x a IH]; cbn [app utf8_bytes]; [reflexivity|]. rewrite IH. lia. Qed.

Lemma utf8_bytes_len a : Z.of_nat (length a) <= utf8_bytes a.
Proof.
  induction a as [|x a IH]; cbn [length utf8_bytes]; [lia|]. pose proof (utf8_len_pos x). lia.
Qed.

(* a proper prefix has strictly fewer bytes *)
Lemma proper_prefix_bytes a b : is_prefix a b -> (length a < length b)%nat -> utf8_bytes a < utf8_bytes b.
Proof.
  intros [t ->] H. rewrite utf8_bytes_app. rewrite app_length in H.
  pose proof (utf8_bytes_len t). lia.
Qed.

(* two prefixes of one text are comparable *)
Lemma prefixes_comparable a b s : is_prefix a s -> is_prefix b s -> (length a <= length b)%nat -> is_prefix a b.
Proof.
  revert b s. induction a as [|x a IH]; intros b s Ha Hb Hl; [exists b; reflexivity|].
  destruct Ha as [ta ->]. destruct b as [|y b]; [cbn in Hl; lia|].
  destruct Hb as [tb Hb]. cbn [app] in Hb. injection Hb as -> Hb.
  destruct (IH b (a ++ ta)) as [t Ht]; [exists ta; reflexivity | exists tb; exact Hb | cbn in Hl; lia|].
  exists t. cbn [app]. f_equal. exact Ht.
Qed.

Lemma prefixes_same_length a b s : is_prefix a s -> is_prefix b s -> length a = length b -> a = b.
Proof.
  intros Ha Hb Hl. destruct (prefixes_comparable a b s Ha Hb) as [t Ht]; [lia|].
  apply (f_equal (@length Z)) in Ht as Hlen. rewrite app_length in Hlen.
  destruct t; [rewrite app_nil_r in Ht; congruence | cbn in Hlen; lia].
Qed.

Lemma scan_some_in L s e : scan L s = Some e -> In e L /\ prefixb (it_name e) s = true.
Proof.
  induction L as [|it r IH]; cbn [scan]; [discriminate|].
  destruct (prefixb (it_name it) s) eqn:E.
  - intros H. injection H as <-. split; [left; reflexivity | exact E].
  - intros H. destruct (IH H). split; [right|]; assumption.
Qed.

Lemma scan_none L s : scan L s = None <-> forall e, In e L -> prefixb (it_name e) s = false.
Proof.
  induction L as [|it r IH]; cbn [scan]; [split; [intros _ e [] | reflexivity]|].
  destruct (prefixb (it_name it) s) eqn:E.
  - split; [discriminate|]. intros H. rewrite (H it (or_introl eq_refl)) in E. discriminate.
  - rewrite IH. split; [intros H e [<-|He]; [exact E | apply H; exact He] | intros H e He; apply H; right; exact He].
Qed.

(* the first match of the scan over a list sorted by descending byte length is a longest prefix *)
Theorem scan_longest L s e :
  wf_items L -> scan L s = Some e -> is_longest L s e.
Proof.
  intros (HS & _ & Hne) H.
  apply Sorted_StronglySorted in HS; [|intros a b c; unfold key_ge; lia].
  induction L as [|it r IH]; cbn [scan] in H; [discriminate|].
  inversion HS as [|a b HSr Hall]; subst. inversion Hne as [|a b Hit Hner]; subst.
  destruct (prefixb (it_name it) s) eqn:E.
  - injection H as <-. unfold is_longest. repeat split; [left; reflexivity | exact Hit | apply prefixb_iff; exact E|].
    intros e' [<-|He'] Hne' Hp'; [lia|].
    destruct (Nat.le_gt_cases (length (fst e')) (length (fst it))) as [Hle|Hgt]; [exact Hle|exfalso].
    rewrite Forall_forall in Hall. specialize (Hall e' He'). unfold key_ge, key in Hall.
    apply prefixb_iff in E.
    assert (Hpp : is_prefix (it_name it) (it_name e')).
    { eapply prefixes_comparable; [exact E | exact Hp' | unfold it_name; lia]. }
    pose proof (proper_prefix_bytes _ _ Hpp Hgt). unfold it_name in *. lia.
  - destruct (IH HSr Hner H) as (A & B & C & D). unfold is_longest. repeat split; [right; exact A | exact B | exact C|].
    intros e' [<-|He'] Hne' Hp'; [|apply D; assumption].
    apply prefixb_iff in Hp'. unfold it_name in E. congruence.
Qed.

Lemma nodup_names_value L e e' : NoDup (names L) -> In e L -> In e' L -> it_name e = it_name e' -> e = e'.
Proof.
  induction L as [|it r IH]; intros Hnd He He' Hn; [destruct He|].
  cbn [names map] in Hnd. inversion Hnd as [|a b Hnot Hnd']; subst.
  destruct He as [<-|He]; destruct He' as [<-|He'].
  - reflexivity.
  - exfalso. apply Hnot. rewrite Hn. apply in_map. exact He'.
  - exfalso. apply Hnot. rewrite <- Hn. apply in_map. exact He.
  - apply IH; assumption.
Qed.

(* ... and the only one: longest prefixes are unique when names are unique *)
Lemma is_longest_unique L s e e' : NoDup (names L) -> is_longest L s e -> is_longest L s e' -> e = e'.
Proof.
  intros Hnd (A & B & C & D) (A' & B' & C' & D').
  apply (nodup_names_value L); try assumption.
  apply (prefixes_same_length _ _ s C C').
  specialize (D e' A' B' C'). specialize (D' e A B C). lia.
Qed.

Theorem scan_iff_longest L s e : wf_items L -> (scan L s = Some e <-> is_longest L s e).
Proof.
  intros Hwf. split; [apply scan_longest; exact Hwf|].
  intros Hl. destruct (scan L s) as [e0|] eqn:E.
  - f_equal. apply scan_longest in E; [|exact Hwf]. destruct Hwf as (_ & Hnd & _).
    eapply is_longest_unique; eassumption.
  - exfalso. rewrite scan_none in E. destruct Hl as (A & _ & C & _).
    apply prefixb_iff in C. pose proof (E e A) as F. unfold it_name in F. congruence.
Qed.

(* the specification's longest_match satisfies its declarative reading *)
Lemma longest_match_none T s : longest_match T s = None ->
  forall e, In e T -> fst e <> [] -> ~ is_prefix (fst e) s.
Proof.
  induction T as [|[n v] T' IH]; intros H e He Hne Hp; [destruct He|].
  cbn [longest_match] in H.
  destruct (negb (is_nil n) && starts n s) eqn:E.
  - destruct (longest_match T' s) as [[n' v']|]; [destruct (length n' <? length n)%nat|]; discriminate.
  - destruct He as [<-|He]; [|eapply IH; eassumption].
    cbn [fst] in *. apply prefixb_iff in Hp. change (starts n s) with (prefixb n s) in E. rewrite Hp in E.
    destruct n; [congruence | discriminate].
Qed.

Lemma longest_match_some T s e : longest_match T s = Some e -> is_longest T s e.
Proof.
  revert e. induction T as [|[n v] T' IH]; intros e H; [discriminate|].
  cbn [longest_match] in H.
  destruct (negb (is_nil n) && starts n s) eqn:E.
  - apply andb_prop in E. destruct E as [E1 E2]. change (starts n s) with (prefixb n s) in E2.
    apply prefixb_iff in E2. assert (Hn : n <> []) by (destruct n; [discriminate | congruence]).
    destruct (longest_match T' s) as [[n' v']|] eqn:Eb.
    + destruct (IH _ eq_refl) as (A & B & C & D). cbn [fst] in *.
      destruct (length n' <? length n)%nat eqn:El.
      * injection H as <-. apply Nat.ltb_lt in El. repeat split; [left; reflexivity | exact Hn | exact E2|].
        intros e' [<-|He'] Hne' Hp'; [cbn [fst]; lia|]. specialize (D e' He' Hne' Hp'). cbn [fst]. lia.
      * injection H as <-. apply Nat.ltb_ge in El. repeat split; [right; exact A | exact B | exact C|].
        intros e' [<-|He'] Hne' Hp'; [cbn [fst]; lia | apply D; assumption].
    + injection H as <-. repeat split; [left; reflexivity | exact Hn | exact E2|].
      intros e' [<-|He'] Hne' Hp'; [lia|]. exfalso. eapply longest_match_none; eassumption.
  - destruct (IH _ H) as (A & B & C & D). repeat split; [right; exact A | exact B | exact C|].
    intros e' [<-|He'] Hne' Hp'; [|apply D; assumption].
    exfalso. cbn [fst] in *. apply prefixb_iff in Hp'. change (starts n s) with (prefixb n s) in E. rewrite Hp' in E.
    destruct n; [congruence | discriminate].
Qed.

(* the scan over the converter's list and the specification over any table with the same rows agree *)
Theorem scan_is_longest_match L T s :
  wf_items L -> (forall e, In e L <-> In e T) -> scan L s = longest_match T s.
Proof.
  intros Hwf Hin. destruct (longest_match T s) as [e|] eqn:E.
  - apply scan_iff_longest; [exact Hwf|]. apply longest_match_some in E.
    destruct E as (A & B & C & D). repeat split; [apply Hin; exact A | exact B | exact C|].
    intros e' He'. apply D. apply Hin. exact He'.
  - apply scan_none. intros e He. destruct (prefixb (it_name e) s) eqn:Ep; [exfalso|reflexivity].
    apply prefixb_iff in Ep. destruct Hwf as (_ & _ & Hne). unfold names_ne in Hne. rewrite Forall_forall in Hne.
    eapply (longest_match_none T s E e); [apply Hin; exact He | apply Hne; exact He | exact Ep].
Qed.

Corollary scan_is_longest_match_self L s : wf_items L -> scan L s = longest_match L s.
Proof. intros H. apply scan_is_longest_match; [exact H | intros e; reflexivity]. Qed.

Lemma init_items_rows e : In e (sl_items init_items) <-> In e sutoton_table.
Proof.
  rewrite init_items_sorted_table. split; apply Permutation_in; [|apply Permutation_sym]; apply sort_desc_perm.
Qed.

(* ------------------------------------------------------------------------------------------ *)
(* 5. the readers consume, the loop terminates, fuel is irrelevant                              *)
(* ------------------------------------------------------------------------------------------ *)
Lemma skipn_len {A} n (l : list A) : (length (skipn n l) <= length l)%nat.
Proof. rewrite skipn_length. lia. Qed.

Lemma get_token_s_len sp s ln : (length (snd (fst (get_token_s sp s ln))) <= length s)%nat.
Proof.
  revert ln. induction s as [|c r IH]; intros ln; cbn [get_token_s]; [cbn; lia|].
  destruct (prefixb sp (c :: r)); [cbn [fst snd]; apply skipn_len|].
  specialize (IH (if c =? c_NL then ln + 1 else ln)).
  destruct (get_token_s sp r (if c =? c_NL then ln + 1 else ln)) as [[t r'] l']. cbn [fst snd length] in *. lia.
Qed.

(* when the splitter is not at the very start, at least one character is consumed *)
Lemma get_token_s_len_strict sp c r ln : prefixb sp (c :: r) = false ->
  (length (snd (fst (get_token_s sp (c :: r) ln))) <= length r)%nat.
Proof.
  intros H. cbn [get_token_s]. rewrite H.
  pose proof (get_token_s_len sp r (if c =? c_NL then ln + 1 else ln)) as L.
  destruct (get_token_s sp r (if c =? c_NL then ln + 1 else ln)) as [[t r'] l']. cbn [fst snd] in *. exact L.
Qed.

Lemma skip_space_f_len fuel : forall s ln, (length (fst (skip_space_f fuel s ln)) <= length s)%nat.
Proof.
  induction fuel as [|f IH]; intros s ln; cbn [skip_space_f]; [cbn; lia|].
  destruct s as [|c r]; [cbn; lia|].
  destruct ((c =? c_TAB) || (c =? c_SP)).
  - specialize (IH r ln). cbn [length]. lia.
  - destruct (c =? c_SLASH); [|cbn; lia].
    destruct (prefixb [c_SLASH; c_STAR] (c :: r)); [|cbn; lia].
    pose proof (get_token_s_len [c_STAR; c_SLASH] (c :: r) ln) as L.
    destruct (get_token_s [c_STAR; c_SLASH] (c :: r) ln) as [[t r'] l']. cbn [fst snd] in L.
    specialize (IH r' l'). lia.
Qed.

Lemma skip_space_len s ln : (length (fst (skip_space s ln)) <= length s)%nat.
Proof. apply skip_space_f_len. Qed.

Lemma nest_loop_len o c s : forall lv ln, (length (snd (fst (nest_loop o c lv s ln))) <= length s)%nat.
Proof.
  induction s as [|x r IH]; intros lv ln; cbn [nest_loop]; [cbn; lia|].
  set (ln' := if x =? c_NL then ln + 1 else ln).
  destruct (x =? o).
  - specialize (IH (lv + 1) ln'). destruct (nest_loop o c (lv + 1) r ln') as [[t r'] l']. cbn [fst snd length] in *. lia.
  - destruct (x =? c).
    + destruct ((if lv >? 0 then lv - 1 else lv) =? 0); [cbn; lia|].
      specialize (IH (if lv >? 0 then lv - 1 else lv) ln').
      destruct (nest_loop o c (if lv >? 0 then lv - 1 else lv) r ln') as [[t r'] l']. cbn [fst snd length] in *. lia.
    + specialize (IH lv ln'). destruct (nest_loop o c lv r ln') as [[t r'] l']. cbn [fst snd length] in *. lia.
Qed.

Lemma get_token_nest_len o c s ln : (length (snd (fst (get_token_nest o c s ln))) <= length s)%nat.
Proof.
  unfold get_token_nest. destruct (peek0 s =? o).
  - pose proof (nest_loop_len o c (tl s) 1 ln). destruct s; cbn [tl length] in *; lia.
  - apply nest_loop_len.
Qed.

(* the readers count the line breaks they step over: `adv s s' ln ln'` = the reader went from s to s', the text
   it stepped over is k, and its line counter went up by the number of line breaks (LF) of k *)
Definition adv (s s' : list ch) (ln ln' : Z) : Prop :=
  exists k, s = k ++ s' /\ ln' = ln + Z.of_nat (line_breaks k).

Lemma line_breaks_app a b : line_breaks (a ++ b) = (line_breaks a + line_breaks b)%nat.
Proof. apply count_occ_app. Qed.

Lemma line_breaks_cons c r : Z.of_nat (line_breaks (c :: r)) = (if c =? c_NL then 1 else 0) + Z.of_nat (line_breaks r).
Proof.
  unfold line_breaks, c_NL. cbn [count_occ]. destruct (Z.eq_dec c 10) as [E|E].
  - subst c. rewrite Z.eqb_refl. lia.
  - replace (c =? 10) with false by lia. lia.
Qed.

Lemma line_breaks_none s : ~ In 10 s -> line_breaks s = O.
Proof. intros H. apply count_occ_not_In. exact H. Qed.

Lemma line_breaks_repeat n : line_breaks (repeat 10 n) = n.
Proof. apply count_occ_repeat_eq. reflexivity. Qed.

Lemma adv_refl s ln : adv s s ln ln.
Proof. exists []. split; [reflexivity | change (line_breaks []) with O; lia]. Qed.

Lemma adv_trans a b c l1 l2 l3 : adv a b l1 l2 -> adv b c l2 l3 -> adv a c l1 l3.
Proof.
  intros (k1 & E1 & L1) (k2 & E2 & L2). exists (k1 ++ k2). split; [subst a b; apply app_assoc|].
  rewrite line_breaks_app. lia.
Qed.

Lemma adv_cons c r s' ln ln' : adv r s' (if c =? c_NL then ln + 1 else ln) ln' -> adv (c :: r) s' ln ln'.
Proof.
  intros (k & E & L). exists (c :: k). split; [subst r; reflexivity|].
  rewrite line_breaks_cons. destruct (c =? c_NL); lia.
Qed.

(* a character that is not a line break, stepped over without counting *)
Lemma adv_skip c r ln : c <> 10 -> adv (c :: r) r ln ln.
Proof.
  intros H. apply adv_cons. replace (c =? c_NL) with false by (unfold c_NL; lia). apply adv_refl.
Qed.

Lemma get_token_s_adv sp : ~ In 10 sp -> forall s ln,
  adv s (snd (fst (get_token_s sp s ln))) ln (snd (get_token_s sp s ln)).
Proof.
  intros Hsp. induction s as [|c r IH]; intros ln; cbn [get_token_s]; [apply adv_refl|].
  destruct (prefixb sp (c :: r)) eqn:P.
  - cbn [fst snd]. exists sp. split; [apply prefixb_true; exact P|].
    rewrite (line_breaks_none sp Hsp). lia.
  - specialize (IH (if c =? c_NL then ln + 1 else ln)).
    destruct (get_token_s sp r (if c =? c_NL then ln + 1 else ln)) as [[t r'] l']. cbn [fst snd] in *.
    apply adv_cons. exact IH.
Qed.

Lemma skip_space_f_adv fuel : forall s ln,
  adv s (fst (skip_space_f fuel s ln)) ln (snd (skip_space_f fuel s ln)).
Proof.
  induction fuel as [|f IH]; intros s ln; cbn [skip_space_f]; [apply adv_refl|].
  destruct s as [|c r]; [apply adv_refl|].
  destruct ((c =? c_TAB) || (c =? c_SP)) eqn:B.
  - apply (adv_trans _ r _ ln ln); [|apply IH]. apply adv_skip. unfold c_TAB, c_SP in B. lia.
  - destruct (c =? c_SLASH); [|apply adv_refl].
    destruct (prefixb [c_SLASH; c_STAR] (c :: r)); [|apply adv_refl].
    assert (Hsp : ~ In 10 [c_STAR; c_SLASH]) by (unfold c_STAR, c_SLASH; cbn [In]; lia).
    pose proof (get_token_s_adv [c_STAR; c_SLASH] Hsp (c :: r) ln) as A.
    destruct (get_token_s [c_STAR; c_SLASH] (c :: r) ln) as [[t r'] l']. cbn [fst snd] in A.
    apply (adv_trans _ r' _ ln l'); [exact A | apply IH].
Qed.

Lemma skip_space_adv s ln : adv s (fst (skip_space s ln)) ln (snd (skip_space s ln)).
Proof. apply skip_space_f_adv. Qed.

Lemma nest_loop_adv o c s : forall lv ln,
  adv s (snd (fst (nest_loop o c lv s ln))) ln (snd (nest_loop o c lv s ln)).
Proof.
  induction s as [|x r IH]; intros lv ln; cbn [nest_loop]; [apply adv_refl|].
  destruct (x =? o).
  - specialize (IH (lv + 1) (if x =? c_NL then ln + 1 else ln)).
    destruct (nest_loop o c (lv + 1) r (if x =? c_NL then ln + 1 else ln)) as [[t r'] l']. cbn [fst snd] in *.
    apply adv_cons. exact IH.
  - destruct (x =? c).
    + destruct ((if lv >? 0 then lv - 1 else lv) =? 0); [cbn [fst snd]; apply adv_cons; apply adv_refl|].
      specialize (IH (if lv >? 0 then lv - 1 else lv) (if x =? c_NL then ln + 1 else ln)).
      destruct (nest_loop o c (if lv >? 0 then lv - 1 else lv) r (if x =? c_NL then ln + 1 else ln)) as [[t r'] l'].
      cbn [fst snd] in *. apply adv_cons. exact IH.
    + specialize (IH lv (if x =? c_NL then ln + 1 else ln)).
      destruct (nest_loop o c lv r (if x =? c_NL then ln + 1 else ln)) as [[t r'] l']. cbn [fst snd] in *.
      apply adv_cons. exact IH.
Qed.

(* the opening character is stepped over by next(), which does not count: it must not be a line break *)
Lemma get_token_nest_adv o c s ln : o <> 10 ->
  adv s (snd (fst (get_token_nest o c s ln))) ln (snd (get_token_nest o c s ln)).
Proof.
  intros Ho. unfold get_token_nest. destruct (peek0 s =? o) eqn:E; [|apply nest_loop_adv].
  destruct s as [|x r]; [apply nest_loop_adv|]. cbn [peek0 tl] in *.
  apply (adv_trans _ r _ ln ln); [apply adv_skip; lia | apply nest_loop_adv].
Qed.

(* the '~' arm: the list stays valid, the reading never goes backwards, and the third component is the number of
   line breaks of the text it stepped over *)
Lemma read_definition_props sl r : sl_ok sl ->
  sl_ok (fst (fst (read_definition sl r))) /\ (length (snd (fst (read_definition sl r))) <= length r)%nat.
Proof.
  intros Hok. unfold read_definition.
  pose proof (skip_space_len r 0) as L1. destruct (skip_space r 0) as [s1 l1]. cbn [fst] in L1.
  destruct (negb (peek0 s1 =? c_LBRACE)); [cbn [fst snd]; split; [exact Hok | lia]|].
  pose proof (get_token_nest_len c_LBRACE c_RBRACE s1 l1) as L2.
  destruct (get_token_nest c_LBRACE c_RBRACE s1 l1) as [[name s2] l2]. cbn [fst snd] in L2.
  pose proof (skip_space_len s2 l2) as L3. destruct (skip_space s2 l2) as [s3 l3]. cbn [fst] in L3.
  assert (L4 : (length (if eq_char s3 c_EQ then tl s3 else s3) <= length s3)%nat).
  { destruct (eq_char s3 c_EQ); [destruct s3; cbn; lia | lia]. }
  set (s4 := if eq_char s3 c_EQ then tl s3 else s3) in *.
  pose proof (skip_space_len s4 l3) as L5. destruct (skip_space s4 l3) as [s5 l5]. cbn [fst] in L5.
  destruct (negb (peek0 s5 =? c_LBRACE)); [cbn [fst snd]; split; [exact Hok | lia]|].
  pose proof (get_token_nest_len c_LBRACE c_RBRACE s5 l5) as L6.
  destruct (get_token_nest c_LBRACE c_RBRACE s5 l5) as [[value s6] l6]. cbn [fst snd] in L6.
  destruct name as [|n0 name]; cbn [fst snd]; (split; [|lia]); [exact Hok|].
  apply set_item_ok; [exact Hok | discriminate].
Qed.

Lemma read_definition_adv sl r :
  adv r (snd (fst (read_definition sl r))) 0 (snd (read_definition sl r)).
Proof.
  unfold read_definition.
  pose proof (skip_space_adv r 0) as A1. destruct (skip_space r 0) as [s1 l1]. cbn [fst snd] in A1.
  destruct (negb (peek0 s1 =? c_LBRACE)); [cbn [fst snd]; exact A1|].
  assert (Hb : c_LBRACE <> 10) by (unfold c_LBRACE; lia).
  pose proof (get_token_nest_adv c_LBRACE c_RBRACE s1 l1 Hb) as A2.
  destruct (get_token_nest c_LBRACE c_RBRACE s1 l1) as [[name s2] l2]. cbn [fst snd] in A2.
  pose proof (skip_space_adv s2 l2) as A3. destruct (skip_space s2 l2) as [s3 l3]. cbn [fst snd] in A3.
  assert (A4 : adv s3 (if eq_char s3 c_EQ then tl s3 else s3) l3 l3).
  { destruct s3 as [|x s3]; cbn [eq_char]; [apply adv_refl|].
    destruct (x =? c_EQ) eqn:E; [|apply adv_refl]. cbn [tl]. apply adv_skip. unfold c_EQ in E. lia. }
  set (s4 := if eq_char s3 c_EQ then tl s3 else s3) in *.
  pose proof (skip_space_adv s4 l3) as A5. destruct (skip_space s4 l3) as [s5 l5]. cbn [fst snd] in A5.
  assert (A15 : adv r s5 0 l5).
  { apply (adv_trans _ s1 _ 0 l1); [exact A1|]. apply (adv_trans _ s2 _ l1 l2); [exact A2|].
    apply (adv_trans _ s3 _ l2 l3); [exact A3|]. apply (adv_trans _ s4 _ l3 l3); [exact A4 | exact A5]. }
  destruct (negb (peek0 s5 =? c_LBRACE)); [cbn [fst snd]; exact A15|].
  pose proof (get_token_nest_adv c_LBRACE c_RBRACE s5 l5 Hb) as A6.
  destruct (get_token_nest c_LBRACE c_RBRACE s5 l5) as [[value s6] l6]. cbn [fst snd] in A6.
  assert (A16 : adv r s6 0 l6) by (apply (adv_trans _ s5 _ 0 l5); assumption).
  destruct name; cbn [fst snd]; exact A16.
Qed.

(* ... stated without `adv`: the text read is `removed`, and the count is the number of its line breaks *)
Theorem read_definition_lines sl r :
  exists removed, r = removed ++ snd (fst (read_definition sl r)) /\
    snd (read_definition sl r) = Z.of_nat (line_breaks removed).
Proof. destruct (read_definition_adv sl r) as (k & E & L). exists k. split; [exact E | lia]. Qed.

(* one iteration of the loop, with the recursive call abstracted *)
Definition conv_body (rec : slist -> list ch -> res (list ch)) (sl : slist) (c : ch) (r : list ch) : res (list ch) :=
  let s := c :: r in
  let chz := zen2han c in
  if chz =? c_LBRACE then
    if prefixb [c_LBRACE; c_DQ] s then
      let '(t, s', _) := get_token_s [c_DQ; c_RBRACE] s 0 in
      do o <- rec sl s'; Ok (t ++ [c_DQ; c_RBRACE] ++ o)
    else do o <- rec sl r; Ok (chz :: o)
  else if chz =? c_SLASH then
    if prefixb [c_SLASH; c_SLASH] s then
      let '(t, s', _) := get_token_s [c_NL] s 0 in
      do o <- rec sl s'; Ok (t ++ [c_NL] ++ o)
    else if prefixb [c_SLASH; c_STAR] s then
      let '(t, s', _) := get_token_s [c_STAR; c_SLASH] s 0 in
      do o <- rec sl s'; Ok (t ++ [c_STAR; c_SLASH] ++ o)
    else do o <- rec sl r; Ok (chz :: o)
  else if (chz =? c_TILDE) || (chz =? c_OVERLINE) then
    let '(sl', s', nl) := read_definition sl r in
    do o <- rec sl' s'; Ok (repeat c_NL (Z.to_nat nl) ++ o)
  else
    match scan (sl_items sl) s with
    | Some it => do o <- rec sl (skipn (length (it_name it)) s); Ok (it_value it ++ o)
    | None => do o <- rec sl r; Ok (chz :: o)
    end.

Lemma conv_loop_S f sl c r : conv_loop (S f) sl (c :: r) = conv_body (conv_loop f) sl c r.
Proof. reflexivity. Qed.

Lemma bind_id {A} (x : res (list A)) : x = bind x (fun o => Ok ([] ++ o)).
Proof. destruct x; reflexivity. Qed.

(* every iteration is: one recursive call on a strictly shorter text with a valid list, then a prefix *)
Lemma conv_body_shape sl c r : sl_ok sl ->
  exists sl' s' pre, sl_ok sl' /\ (length s' <= length r)%nat /\
    forall rec, conv_body rec sl c r = bind (rec sl' s') (fun o => Ok (pre ++ o)).
Proof.
  intros Hok. unfold conv_body.
  destruct (zen2han c =? c_LBRACE) eqn:E1.
  { destruct (prefixb [c_LBRACE; c_DQ] (c :: r)) eqn:P.
    - assert (Q : prefixb [c_DQ; c_RBRACE] (c :: r) = false).
      { cbn [prefixb] in P |- *. apply andb_prop in P. destruct P as [P _]. apply Z.eqb_eq in P.
        replace (c_DQ =? c) with false by (unfold c_DQ, c_LBRACE in *; lia). reflexivity. }
      pose proof (get_token_s_len_strict _ c r 0 Q) as L.
      destruct (get_token_s [c_DQ; c_RBRACE] (c :: r) 0) as [[t s'] l']. cbn [fst snd] in L.
      exists sl, s', (t ++ [c_DQ; c_RBRACE]). split; [exact Hok|]. split; [exact L|].
      intros rec. destruct (rec sl s'); cbn [bind]; [rewrite <- app_assoc|..]; reflexivity.
    - exists sl, r, [zen2han c]. split; [exact Hok|]. split; [lia | reflexivity]. }
  destruct (zen2han c =? c_SLASH) eqn:E2.
  { destruct (prefixb [c_SLASH; c_SLASH] (c :: r)) eqn:P.
    - assert (Q : prefixb [c_NL] (c :: r) = false).
      { cbn [prefixb] in P |- *. apply andb_prop in P. destruct P as [P _]. apply Z.eqb_eq in P.
        replace (c_NL =? c) with false by (unfold c_NL, c_SLASH in *; lia). reflexivity. }
      pose proof (get_token_s_len_strict _ c r 0 Q) as L.
      destruct (get_token_s [c_NL] (c :: r) 0) as [[t s'] l']. cbn [fst snd] in L.
      exists sl, s', (t ++ [c_NL]). split; [exact Hok|]. split; [exact L|].
      intros rec. destruct (rec sl s'); cbn [bind]; [rewrite <- app_assoc|..]; reflexivity.
    - destruct (prefixb [c_SLASH; c_STAR] (c :: r)) eqn:P2.
      + assert (Q : prefixb [c_STAR; c_SLASH] (c :: r) = false).
        { cbn [prefixb] in P2 |- *. apply andb_prop in P2. destruct P2 as [P2 _]. apply Z.eqb_eq in P2.
          replace (c_STAR =? c) with false by (unfold c_STAR, c_SLASH in *; lia). reflexivity. }
        pose proof (get_token_s_len_strict _ c r 0 Q) as L.
        destruct (get_token_s [c_STAR; c_SLASH] (c :: r) 0) as [[t s'] l']. cbn [fst snd] in L.
        exists sl, s', (t ++ [c_STAR; c_SLASH]). split; [exact Hok|]. split; [exact L|].
        intros rec. destruct (rec sl s'); cbn [bind]; [rewrite <- app_assoc|..]; reflexivity.
      + exists sl, r, [zen2han c]. split; [exact Hok|]. split; [lia | reflexivity]. }
  destruct ((zen2han c =? c_TILDE) || (zen2han c =? c_OVERLINE)) eqn:E3.
  { destruct (read_definition_props sl r Hok) as [A B].
    destruct (read_definition sl r) as [[sl' s'] nl]. cbn [fst snd] in A, B.
    exists sl', s', (repeat c_NL (Z.to_nat nl)). split; [exact A|]. split; [exact B|]. intros rec. reflexivity. }
  destruct (scan (sl_items sl) (c :: r)) as [it|] eqn:Es.
  - exists sl, (skipn (length (it_name it)) (c :: r)), (it_value it). split; [exact Hok|]. split; [|reflexivity].
    apply scan_some_in in Es. destruct Es as [Hin _].
    destruct Hok as (_ & _ & _ & Hne). unfold names_ne in Hne. rewrite Forall_forall in Hne. specialize (Hne it Hin).
    destruct (it_name it) as [|x n]; [congruence|]. cbn [length skipn]. apply skipn_len.
  - exists sl, r, [zen2han c]. split; [exact Hok|]. split; [lia | reflexivity].
Qed.

Theorem conv_fuel_irrelevant f1 : forall f2 sl s, sl_ok sl -> (length s < f1)%nat -> (length s < f2)%nat ->
  conv_loop f1 sl s = conv_loop f2 sl s.
Proof.
  induction f1 as [|a IH]; intros f2 sl s Hok H1 H2; [lia|].
  destruct f2 as [|b]; [lia|]. destruct s as [|c r]; [reflexivity|].
  rewrite !conv_loop_S. destruct (conv_body_shape sl c r Hok) as (sl' & s' & pre & Hok' & L & Hb).
  rewrite !Hb. rewrite (IH b sl' s' Hok'); [reflexivity | cbn [length] in *; lia | cbn [length] in *; lia].
Qed.

Theorem conv_total f : forall sl s, sl_ok sl -> (length s < f)%nat -> exists o, conv_loop f sl s = Ok o.
Proof.
  induction f as [|a IH]; intros sl s Hok H; [lia|].
  destruct s as [|c r]; [exists []; reflexivity|].
  rewrite conv_loop_S. destruct (conv_body_shape sl c r Hok) as (sl' & s' & pre & Hok' & L & Hb).
  rewrite Hb. destruct (IH sl' s' Hok') as [o Ho]; [cbn [length] in *; lia|].
  rewrite Ho. exists (pre ++ o). reflexivity.
Qed.

(* the loop equation with the SAME fuel on both sides: fuel never matters above the text length *)
Theorem conv_unfold f sl c r : sl_ok sl -> (length (c :: r) < f)%nat ->
  conv_loop f sl (c :: r) = conv_body (conv_loop f) sl c r.
Proof.
  intros Hok H. destruct f as [|a]; [lia|]. rewrite conv_loop_S.
  destruct (conv_body_shape sl c r Hok) as (sl' & s' & pre & Hok' & L & Hb).
  rewrite !Hb. rewrite (conv_fuel_irrelevant a (S a) sl' s' Hok'); [reflexivity | cbn [length] in *; lia | cbn [length] in *; lia].
Qed.

Theorem convert_total s : exists o, convert s = Ok o.
Proof.
  unfold convert. destruct (conv_total (S (length s)) init_items s init_items_ok) as [o Ho]; [lia|].
  rewrite Ho. exists (trim_end o). reflexivity.
Qed.

(* ------------------------------------------------------------------------------------------ *)
(* 6. closed strings and comments are copied verbatim                                           *)
(* ------------------------------------------------------------------------------------------ *)
Lemma skipn_app_exact {A} (p r : list A) : skipn (length p) (p ++ r) = r.
Proof. induction p as [|x p IH]; [reflexivity | exact IH]. Qed.

(* the splitter first occurs right after x *)
Definition first_at (sp x r : list ch) : Prop :=
  forall a b, x = a ++ b -> b <> [] -> prefixb sp (b ++ sp ++ r) = false.

Lemma get_token_s_split sp x r : sp <> [] -> first_at sp x r ->
  forall ln, exists ln', get_token_s sp (x ++ sp ++ r) ln = (x, r, ln').
Proof.
  intros Hsp. induction x as [|c x IH]; intros Hf ln.
  - cbn [app]. destruct sp as [|p sp]; [congruence|]. cbn [app get_token_s].
    change (p :: sp ++ r) with ((p :: sp) ++ r). rewrite prefixb_app, skipn_app_exact. eexists. reflexivity.
  - cbn [app get_token_s]. change (c :: x ++ sp ++ r) with ((c :: x) ++ sp ++ r).
    rewrite (Hf [] (c :: x) eq_refl) by discriminate.
    destruct (IH (fun a b E Hb => Hf (c :: a) b (f_equal (cons c) E) Hb) (if c =? c_NL then ln + 1 else ln)) as [ln' E].
    rewrite E. eexists. reflexivity.
Qed.

Lemma occursb_app_false sp a b : occursb sp (a ++ b) = false -> prefixb sp b = false.
Proof.
  induction a as [|x a IH]; cbn [app].
  - destruct b; cbn [occursb]; intros H; apply orb_false_iff in H; destruct H as [H _]; exact H.
  - cbn [occursb]. intros H. apply orb_false_iff in H. destruct H as [_ H]. apply IH. exact H.
Qed.

(* two-character splitters with distinct characters: "does not occur in x" is enough *)
Lemma first_at_2 p q x r : p <> q -> occursb [p; q] x = false -> first_at [p; q] x r.
Proof.
  intros Hpq Ho a b -> Hb. apply occursb_app_false in Ho.
  destruct b as [|b0 [|b1 b']]; [congruence| |].
  - cbn [app prefixb]. destruct (p =? b0) eqn:E; [|reflexivity].
    replace (q =? p) with false by lia. reflexivity.
  - cbn [app prefixb] in *. exact Ho.
Qed.

Lemma first_at_1 p x r : ~ In p x -> first_at [p] x r.
Proof.
  intros Hn a b -> Hb. destruct b as [|b0 b']; [congruence|].
  cbn [app prefixb]. replace (p =? b0) with false; [reflexivity|].
  symmetry. apply Z.eqb_neq. intros ->. apply Hn. apply in_or_app. right. left. reflexivity.
Qed.

Lemma bind_prefix (x : res (list ch)) a b :
  bind x (fun o => Ok (a ++ b ++ o)) = bind x (fun o => Ok ((a ++ b) ++ o)).
Proof. destruct x; cbn [bind]; [rewrite app_assoc|..]; reflexivity. Qed.

Theorem conv_string_verbatim f sl body r :
  sl_ok sl -> occursb [34; 125] ([123; 34] ++ body) = false ->
  (length ([123; 34] ++ body ++ [34; 125] ++ r)%Z < f)%nat ->
  conv_loop f sl ([123; 34] ++ body ++ [34; 125] ++ r)
  = bind (conv_loop f sl r) (fun o => Ok ([123; 34] ++ body ++ [34; 125] ++ o)).
Proof.
  intros Hok Ho Hf.
  destruct (get_token_s_split [34; 125] ([123; 34] ++ body) r ltac:(discriminate)
              (first_at_2 34 125 _ r ltac:(lia) Ho) 0) as [ln' E].
  cbn [app] in *. rewrite conv_unfold by assumption. unfold conv_body.
  change (zen2han 123) with 123. change (123 =? c_LBRACE) with true. cbn match.
  change (prefixb [c_LBRACE; c_DQ] (123 :: 34 :: body ++ 34 :: 125 :: r)) with
    ((123 =? 123) && ((34 =? 34) && true)). cbn match.
  change [c_DQ; c_RBRACE] with [34; 125].
  rewrite E.
  destruct (conv_loop f sl r); reflexivity.
Qed.

Theorem conv_line_comment_verbatim f sl body r :
  sl_ok sl -> ~ In 10 body ->
  (length ([47; 47] ++ body ++ [10] ++ r)%Z < f)%nat ->
  conv_loop f sl ([47; 47] ++ body ++ [10] ++ r)
  = bind (conv_loop f sl r) (fun o => Ok ([47; 47] ++ body ++ [10] ++ o)).
Proof.
  intros Hok Ho Hf.
  assert (Hn : ~ In 10 ([47; 47] ++ body)).
  { cbn [app]. intros [H|[H|H]]; [discriminate | discriminate | contradiction]. }
  destruct (get_token_s_split [10] ([47; 47] ++ body) r ltac:(discriminate) (first_at_1 10 _ r Hn) 0) as [ln' E].
  cbn [app] in *. rewrite conv_unfold by assumption. unfold conv_body.
  change (zen2han 47) with 47. change (47 =? c_LBRACE) with false. change (47 =? c_SLASH) with true. cbn match.
  change (prefixb [c_SLASH; c_SLASH] (47 :: 47 :: body ++ 10 :: r)) with
    ((47 =? 47) && ((47 =? 47) && true)). cbn match.
  change [c_NL] with [10].
  rewrite E.
  destruct (conv_loop f sl r); reflexivity.
Qed.

Theorem conv_block_comment_verbatim f sl body r :
  sl_ok sl -> occursb [42; 47] ([47; 42] ++ body) = false ->
  (length ([47; 42] ++ body ++ [42; 47] ++ r)%Z < f)%nat ->
  conv_loop f sl ([47; 42] ++ body ++ [42; 47] ++ r)
  = bind (conv_loop f sl r) (fun o => Ok ([47; 42] ++ body ++ [42; 47] ++ o)).
Proof.
  intros Hok Ho Hf.
  destruct (get_token_s_split [42; 47] ([47; 42] ++ body) r ltac:(discriminate)
              (first_at_2 42 47 _ r ltac:(lia) Ho) 0) as [ln' E].
  cbn [app] in *. rewrite conv_unfold by assumption. unfold conv_body.
  change (zen2han 47) with 47. change (47 =? c_LBRACE) with false. change (47 =? c_SLASH) with true. cbn match.
  change (prefixb [c_SLASH; c_SLASH] (47 :: 42 :: body ++ 42 :: 47 :: r)) with
    ((47 =? 47) && ((47 =? 42) && true)).
  change (prefixb [c_SLASH; c_STAR] (47 :: 42 :: body ++ 42 :: 47 :: r)) with
    ((47 =? 47) && ((42 =? 42) && true)). cbn match.
  change [c_STAR; c_SLASH] with [42; 47].
  rewrite E.
  destruct (conv_loop f sl r); reflexivity.
Qed.

(* unterminated strings and comments: everything to the end is copied and the terminator is appended *)
Lemma get_token_s_none sp x : occursb sp x = false ->
  forall ln, exists ln', get_token_s sp x ln = (x, [], ln').
Proof.
  induction x as [|c x IH]; intros Ho ln; [eexists; reflexivity|].
  cbn [occursb] in Ho. apply orb_false_iff in Ho. destruct Ho as [H1 H2].
  cbn [get_token_s]. change (prefixb sp (c :: x)) with (starts sp (c :: x)). rewrite H1.
  destruct (IH H2 (if c =? c_NL then ln + 1 else ln)) as [ln' E]. rewrite E. eexists. reflexivity.
Qed.

Lemma not_in_occursb1 p x : ~ In p x -> occursb [p] x = false.
Proof.
  induction x as [|c x IH]; intros H; [reflexivity|]. cbn [occursb starts].
  replace (p =? c) with false by (symmetry; apply Z.eqb_neq; intros ->; apply H; left; reflexivity).
  cbn [andb orb]. apply IH. intros Hin. apply H. right. exact Hin.
Qed.

Theorem conv_unterminated f sl body : sl_ok sl ->
  (occursb [34; 125] ([123; 34] ++ body) = false -> (length ([123; 34] ++ body)%Z < f)%nat ->
     conv_loop f sl ([123; 34] ++ body) = Ok ([123; 34] ++ body ++ [34; 125])) /\
  (~ In 10 body -> (length ([47; 47] ++ body)%Z < f)%nat ->
     conv_loop f sl ([47; 47] ++ body) = Ok ([47; 47] ++ body ++ [10])) /\
  (occursb [42; 47] ([47; 42] ++ body) = false -> (length ([47; 42] ++ body)%Z < f)%nat ->
     conv_loop f sl ([47; 42] ++ body) = Ok ([47; 42] ++ body ++ [42; 47])).
Proof.
  intros Hok. assert (Hnil : forall g, (0 < g)%nat -> conv_loop g sl [] = Ok []) by (intros [|g] Hg; [lia | reflexivity]).
  split; [|split].
  - intros Ho Hf. destruct (get_token_s_none _ _ Ho 0) as [ln' E].
    cbn [app] in *. rewrite conv_unfold by assumption. unfold conv_body.
    change (zen2han 123) with 123. change (123 =? c_LBRACE) with true. cbn match.
    change (prefixb [c_LBRACE; c_DQ] (123 :: 34 :: body)) with ((123 =? 123) && ((34 =? 34) && true)). cbn match.
    change [c_DQ; c_RBRACE] with [34; 125]. rewrite E. rewrite Hnil by lia. reflexivity.
  - intros Hn Hf.
    assert (Ho : occursb [10] ([47; 47] ++ body) = false).
    { apply not_in_occursb1. cbn [app]. intros [H|[H|H]]; [discriminate | discriminate | contradiction]. }
    destruct (get_token_s_none _ _ Ho 0) as [ln' E].
    cbn [app] in *. rewrite conv_unfold by assumption. unfold conv_body.
    change (zen2han 47) with 47. change (47 =? c_LBRACE) with false. change (47 =? c_SLASH) with true. cbn match.
    change (prefixb [c_SLASH; c_SLASH] (47 :: 47 :: body)) with ((47 =? 47) && ((47 =? 47) && true)). cbn match.
    change [c_NL] with [10]. rewrite E. rewrite Hnil by lia. reflexivity.
  - intros Ho Hf. destruct (get_token_s_none _ _ Ho 0) as [ln' E].
    cbn [app] in *. rewrite conv_unfold by assumption. unfold conv_body.
    change (zen2han 47) with 47. change (47 =? c_LBRACE) with false. change (47 =? c_SLASH) with true. cbn match.
    change (prefixb [c_SLASH; c_SLASH] (47 :: 42 :: body)) with ((47 =? 47) && ((47 =? 42) && true)).
    change (prefixb [c_SLASH; c_STAR] (47 :: 42 :: body)) with ((47 =? 47) && ((42 =? 42) && true)). cbn match.
    change [c_STAR; c_SLASH] with [42; 47]. rewrite E. rewrite Hnil by lia. reflexivity.
Qed.

(* ------------------------------------------------------------------------------------------ *)
(* 7. facts of the regenerated table                                                            *)
(* ------------------------------------------------------------------------------------------ *)
Definition plain_value_char (c : Z) : bool :=
  (0 <=? c) && (c <? 128) && negb (c =? 126) && negb (c =? 123) && negb (c =? 47).
Definition row_ok (e : entry) : bool :=
  negb (is_nil (fst e)) && forallb (fun c => 128 <=? c) (fst e) && negb (is_special (hd 0 (fst e)))
  && forallb plain_value_char (snd e).

Lemma table_rows_ok : forallb row_ok sutoton_table = true.
Proof. vm_compute. reflexivity. Qed.

Lemma table_names_unique : NoDup (map fst sutoton_table).
Proof. apply nodupb_ok. vm_compute. reflexivity. Qed.

(* no vocabulary word is empty or contains an ASCII character, none starts with a character the
   converter treats specially, and every MML value is ASCII without '~', '{' and '/' *)
Theorem table_no_ascii n v : In (n, v) sutoton_table ->
  n <> [] /\ (forall c, In c n -> 128 <= c) /\ is_special (hd 0 n) = false /\
  (forall c, In c v -> 0 <= c < 128 /\ c <> 126 /\ c <> 123 /\ c <> 47).
Proof.
  intros Hin. pose proof table_rows_ok as H. rewrite forallb_forall in H. specialize (H _ Hin).
  unfold row_ok in H. cbn [fst snd] in H.
  apply andb_prop in H. destruct H as [H H4]. apply andb_prop in H. destruct H as [H H3].
  apply andb_prop in H. destruct H as [H1 H2].
  repeat split.
  - destruct n; [discriminate | congruence].
  - intros c Hc. rewrite forallb_forall in H2. specialize (H2 c Hc). lia.
  - apply negb_true_iff. exact H3.
  - rewrite forallb_forall in H4. specialize (H4 c H). unfold plain_value_char in H4. lia.
  - rewrite forallb_forall in H4. specialize (H4 c H). unfold plain_value_char in H4. lia.
  - rewrite forallb_forall in H4. specialize (H4 c H). unfold plain_value_char in H4. lia.
  - rewrite forallb_forall in H4. specialize (H4 c H). unfold plain_value_char in H4. lia.
  - rewrite forallb_forall in H4. specialize (H4 c H). unfold plain_value_char in H4. lia.
Qed.

(* ------------------------------------------------------------------------------------------ *)
(* 8. ASCII identity                                                                            *)
(* ------------------------------------------------------------------------------------------ *)
Definition first_nonascii (it : item) : bool := match it_name it with h :: _ => 128 <=? h | [] => false end.

Lemma scan_none_ascii L c r : forallb first_nonascii L = true -> 0 <= c < 128 -> scan L (c :: r) = None.
Proof.
  intros H Hc. apply scan_none. intros e He. rewrite forallb_forall in H. specialize (H e He).
  unfold first_nonascii in H. destruct (it_name e) as [|h t]; [discriminate|].
  cbn [prefixb]. replace (h =? c) with false by lia. reflexivity.
Qed.

Lemma prefixb2 a b c r : prefixb [a; b] (c :: r) = true -> c = a /\ hd 0 r = b.
Proof.
  cbn [prefixb]. intros H. apply andb_prop in H. destruct H as [H1 H2]. apply Z.eqb_eq in H1.
  destruct r as [|y r]; [discriminate|]. apply andb_prop in H2. destruct H2 as [H2 _]. apply Z.eqb_eq in H2.
  cbn [hd]. split; congruence.
Qed.

Theorem conv_passthru f sl s :
  sl_ok sl -> forallb first_nonascii (sl_items sl) = true ->
  passthru is_ascii s -> (length s < f)%nat -> conv_loop f sl s = Ok s.
Proof.
  intros Hok Hna Hp. induction Hp as [|c r Hc Ht Hb Hs Hp IH|body r Ho Hp IH|body r Ho Hp IH|body r Ho Hp IH]; intros Hf.
  - destruct f; [inversion Hf | reflexivity].
  - rewrite conv_unfold by assumption. unfold conv_body. unfold is_ascii in Hc.
    rewrite (zen2han_ascii c Hc). rewrite IH by (cbn [length] in Hf; lia).
    destruct (c =? c_LBRACE) eqn:E1.
    { destruct (prefixb [c_LBRACE; c_DQ] (c :: r)) eqn:P; [|reflexivity].
      exfalso. apply Hb. apply prefixb2 in P. exact P. }
    destruct (c =? c_SLASH) eqn:E2.
    { destruct (prefixb [c_SLASH; c_SLASH] (c :: r)) eqn:P.
      { exfalso. apply Hs. apply prefixb2 in P. destruct P as [-> P]. split; [reflexivity | left; exact P]. }
      destruct (prefixb [c_SLASH; c_STAR] (c :: r)) eqn:P2; [|reflexivity].
      exfalso. apply Hs. apply prefixb2 in P2. destruct P2 as [-> P2]. split; [reflexivity | right; exact P2]. }
    replace ((c =? c_TILDE) || (c =? c_OVERLINE)) with false by (unfold c_TILDE, c_OVERLINE; lia).
    rewrite (scan_none_ascii _ c r Hna Hc). reflexivity.
  - rewrite conv_string_verbatim by assumption. rewrite IH; [reflexivity|].
    rewrite !app_length in Hf. cbn [length] in Hf. lia.
  - rewrite conv_line_comment_verbatim by assumption. rewrite IH; [reflexivity|].
    rewrite !app_length in Hf. cbn [length] in Hf. lia.
  - rewrite conv_block_comment_verbatim by assumption. rewrite IH; [reflexivity|].
    rewrite !app_length in Hf. cbn [length] in Hf. lia.
Qed.

Lemma init_first_nonascii : forallb first_nonascii (sl_items init_items) = true.
Proof. vm_compute. reflexivity. Qed.

Theorem convert_ascii_identity s : passthru is_ascii s -> convert s = Ok (trim_end s).
Proof.
  intros Hp. unfold convert.
  rewrite (conv_passthru _ init_items s init_items_ok init_first_nonascii Hp) by lia. reflexivity.
Qed.

(* ------------------------------------------------------------------------------------------ *)
(* 9. homomorphism: an unambiguous reading converts to the concatenation of its MML             *)
(* ------------------------------------------------------------------------------------------ *)
Lemma entry_eqb_eq a b : entry_eqb a b = true -> a = b.
Proof.
  unfold entry_eqb. intros H. apply andb_prop in H. destruct H as [H H4]. apply andb_prop in H. destruct H as [H H3].
  destruct a as [a1 a2], b as [b1 b2]. cbn [fst snd] in *.
  f_equal; apply starts_both; [exact H | rewrite H3, H4; reflexivity].
Qed.

Lemma not_special_tests c : is_special c = false ->
  (zen2han c =? c_LBRACE) = false /\ (zen2han c =? c_SLASH) = false /\
  ((zen2han c =? c_TILDE) || (zen2han c =? c_OVERLINE)) = false.
Proof.
  unfold is_special. rewrite zen2han_spec. unfold c_LBRACE, c_SLASH, c_TILDE, c_OVERLINE.
  intros H. repeat (apply orb_false_iff in H; destruct H as [H ?]).
  repeat split; try assumption. apply orb_false_iff. split; assumption.
Qed.

Theorem conv_homomorphism f sl ps : forall tail,
  sl_ok sl -> segmented (sl_items sl) ps tail = true ->
  (length (src_of ps ++ tail) < f)%nat ->
  conv_loop f sl (src_of ps ++ tail) = bind (conv_loop f sl tail) (fun o => Ok (translit ps ++ o)).
Proof.
  intros tail Hok. induction ps as [|p ps IH]; intros Hseg Hf.
  - cbn [src_of translit flat_map app]. apply bind_id.
  - cbn [segmented] in Hseg. apply andb_prop in Hseg. destruct Hseg as [Hseg H3].
    apply andb_prop in Hseg. destruct Hseg as [H1 H2]. apply negb_true_iff in H1.
    change (src_of (p :: ps)) with (piece_src p ++ src_of ps) in *.
    change (translit (p :: ps)) with (piece_out p ++ translit ps).
    rewrite <- app_assoc in *.
    rewrite <- (scan_is_longest_match_self (sl_items sl)) in H2 by apply Hok.
    destruct p as [n v|c]; cbn [piece_src piece_out] in *.
    + destruct (scan (sl_items sl) (n ++ src_of ps ++ tail)) as [e|] eqn:Es; [|discriminate].
      apply andb_prop in H2. destruct H2 as [Hn He]. apply entry_eqb_eq in He. subst e.
      destruct n as [|x n]; [discriminate|]. cbn [app hd] in *.
      destruct (not_special_tests x H1) as (T1 & T2 & T3).
      rewrite conv_unfold by assumption. unfold conv_body. rewrite T1, T2, T3, Es.
      cbn [it_name it_value fst snd length]. change (x :: n ++ src_of ps ++ tail) with ((x :: n) ++ src_of ps ++ tail).
      change (S (length n)) with (length (x :: n)). rewrite skipn_app_exact.
      rewrite IH; [|exact H3|cbn [length] in Hf; rewrite app_length in Hf; lia].
      destruct (conv_loop f sl tail); cbn [bind]; [rewrite <- app_assoc|..]; reflexivity.
    + cbn [app hd] in *.
      destruct (scan (sl_items sl) (c :: src_of ps ++ tail)) as [e|] eqn:Es; [discriminate|].
      destruct (not_special_tests c H1) as (T1 & T2 & T3).
      rewrite conv_unfold by assumption. unfold conv_body. rewrite T1, T2, T3, Es.
      rewrite IH; [|exact H3|cbn [length] in Hf; lia].
      rewrite zen2han_spec. destruct (conv_loop f sl tail); reflexivity.
Qed.

Lemma segmented_ext T T' ps tail : (forall s, longest_match T s = longest_match T' s) ->
  segmented T ps tail = segmented T' ps tail.
Proof.
  intros H. induction ps as [|p ps IH]; [reflexivity|]. cbn [segmented]. rewrite H, IH. reflexivity.
Qed.

Lemma init_longest_match s : longest_match (sl_items init_items) s = longest_match sutoton_table s.
Proof.
  rewrite <- (scan_is_longest_match_self (sl_items init_items)) by apply init_items_ok.
  apply scan_is_longest_match; [apply init_items_ok | apply init_items_rows].
Qed.

Theorem convert_homomorphism ps :
  segmented sutoton_table ps [] = true -> convert (src_of ps) = Ok (trim_end (translit ps)).
Proof.
  intros Hseg. unfold convert.
  rewrite <- (app_nil_r (src_of ps)) at 2.
  rewrite conv_homomorphism; [| apply init_items_ok | | rewrite app_nil_r; lia].
  - cbn [conv_loop bind]. rewrite app_nil_r. reflexivity.
  - rewrite (segmented_ext _ sutoton_table); [exact Hseg | apply init_longest_match].
Qed.

(* Japanese and transliterated source give the same MML *)
Definition ascii_out (ps : list piece) : bool :=
  forallb (fun p => match p with PChar c => (0 <=? width_map c) && (width_map c <? 128) | PWord _ _ => true end) ps.

Definition plain_char (c : Z) : Prop := 0 <= c < 128 /\ c <> 126 /\ c <> 123 /\ c <> 47.

Lemma plain_passthru s : Forall plain_char s -> passthru is_ascii s.
Proof.
  induction 1 as [|c r (A & B & C & D) H IH]; [constructor|].
  apply pt_char; [exact A | exact B | intros [E _]; contradiction | intros [E _]; contradiction | exact IH].
Qed.

Lemma segmented_translit_plain T ps tail :
  (forall n v, In (n, v) T -> Forall plain_char v) ->
  segmented T ps tail = true -> ascii_out ps = true -> Forall plain_char (translit ps).
Proof.
  intros HT. induction ps as [|p ps IH]; intros Hseg Ha; [constructor|].
  cbn [segmented] in Hseg. apply andb_prop in Hseg. destruct Hseg as [Hseg H3].
  apply andb_prop in Hseg. destruct Hseg as [H1 H2]. apply negb_true_iff in H1.
  cbn [ascii_out forallb] in Ha. apply andb_prop in Ha. destruct Ha as [Ha1 Ha2].
  change (translit (p :: ps)) with (piece_out p ++ translit ps). apply Forall_app. split; [|apply IH; assumption].
  destruct p as [n v|c]; cbn [piece_src piece_out] in *.
  - destruct (longest_match T (n ++ src_of ps ++ tail)) as [e|] eqn:El; [|discriminate].
    apply andb_prop in H2. destruct H2 as [_ He]. apply entry_eqb_eq in He. subst e.
    apply longest_match_some in El. destruct El as (Hin & _). eapply HT. exact Hin.
  - constructor; [|constructor]. cbn [app hd] in H1. unfold is_special in H1.
    repeat (apply orb_false_iff in H1; destruct H1 as [H1 ?]). unfold plain_char. lia.
Qed.

Theorem convert_same_mml ps :
  segmented sutoton_table ps [] = true -> ascii_out ps = true ->
  convert (src_of ps) = convert (translit ps).
Proof.
  intros Hseg Ha. rewrite (convert_homomorphism ps Hseg). symmetry. apply convert_ascii_identity.
  apply plain_passthru. eapply segmented_translit_plain; [|exact Hseg|exact Ha].
  intros n v Hin. apply Forall_forall. intros c Hc. destruct (table_no_ascii n v Hin) as (_ & _ & _ & H).
  unfold plain_char. specialize (H c Hc). lia.
Qed.

(* ------------------------------------------------------------------------------------------ *)
(* 10. definitions                                                                              *)
(* ------------------------------------------------------------------------------------------ *)
Definition brace_free (s : list ch) : bool := forallb (fun c => negb (c =? 123) && negb (c =? 125)) s.
Definition def_text (name value : list ch) : list ch :=
  [126; 123] ++ name ++ [125; 61; 123] ++ value ++ [125].

Lemma nest_loop_flat x rest : brace_free x = true ->
  forall ln, nest_loop 123 125 1 (x ++ 125 :: rest) ln = (x, rest, ln + Z.of_nat (line_breaks x)).
Proof.
  induction x as [|c x IH]; intros Hb ln.
  - cbn [app nest_loop]. change (125 =? 123) with false. change (125 =? 125) with true. cbn match.
    change (125 =? c_NL) with false. cbn match.
    change ((if 1 >? 0 then 1 - 1 else 1) =? 0) with true. cbn match. f_equal. change (line_breaks []) with O. lia.
  - cbn [brace_free forallb] in Hb. apply andb_prop in Hb. destruct Hb as [Hc Hb].
    cbn [app nest_loop]. replace (c =? 123) with false by lia. replace (c =? 125) with false by lia.
    rewrite (IH Hb (if c =? c_NL then ln + 1 else ln)). f_equal.
    rewrite line_breaks_cons. destruct (c =? c_NL); lia.
Qed.

Lemma get_token_nest_flat x rest ln : brace_free x = true ->
  get_token_nest c_LBRACE c_RBRACE (123 :: x ++ 125 :: rest) ln = (x, rest, ln + Z.of_nat (line_breaks x)).
Proof.
  intros Hb. unfold get_token_nest. cbn [peek0 tl]. change (123 =? c_LBRACE) with true. cbn match.
  apply nest_loop_flat. exact Hb.
Qed.

Lemma skip_space_stop c s ln : c <> 9 -> c <> 32 -> c <> 47 -> skip_space (c :: s) ln = (c :: s, ln).
Proof.
  intros A B C. unfold skip_space. cbn [length skip_space_f].
  replace ((c =? c_TAB) || (c =? c_SP)) with false by (unfold c_TAB, c_SP; lia).
  replace (c =? c_SLASH) with false by (unfold c_SLASH; lia). reflexivity.
Qed.

(* the canonical form ~{name}={value}: the text read is the whole definition, the count is the number of line
   breaks inside name and value *)
Lemma read_definition_canonical sl name value r :
  name <> [] -> brace_free name = true -> brace_free value = true ->
  read_definition sl ((123 :: name ++ 125 :: 61 :: 123 :: value ++ 125 :: r))
  = (sort_items (set_item name value sl), r, Z.of_nat (line_breaks (name ++ value))).
Proof.
  intros Hne Hn Hv. unfold read_definition.
  rewrite skip_space_stop by lia. cbn [peek0]. change (negb (123 =? c_LBRACE)) with false. cbn match.
  rewrite (get_token_nest_flat name (61 :: 123 :: value ++ 125 :: r) 0 Hn).
  rewrite skip_space_stop by lia. cbn [eq_char tl]. change (61 =? c_EQ) with true. cbn match.
  rewrite skip_space_stop by lia. cbn [peek0]. change (negb (123 =? c_LBRACE)) with false. cbn match.
  rewrite (get_token_nest_flat value r _ Hv).
  rewrite line_breaks_app.
  replace (0 + Z.of_nat (line_breaks name) + Z.of_nat (line_breaks value))
    with (Z.of_nat (line_breaks name + line_breaks value)) by lia.
  destruct name; [congruence | reflexivity].
Qed.

Lemma sort_items_in sl e : In e (sl_items (sort_items sl)) <-> In e (sl_items sl).
Proof.
  unfold sort_items. destruct (sl_sorted sl); [reflexivity|]. cbn [sl_items].
  split; apply Permutation_in; [|apply Permutation_sym]; apply sort_desc_perm.
Qed.

Lemma tilde_arm f sl c r : sl_ok sl -> zen2han c = 126 \/ zen2han c = 8254 -> (length (c :: r) < f)%nat ->
  conv_loop f sl (c :: r) =
  bind (conv_loop f (fst (fst (read_definition sl r))) (snd (fst (read_definition sl r))))
       (fun o => Ok (repeat 10 (Z.to_nat (snd (read_definition sl r))) ++ o)).
Proof.
  intros Hok Hc Hf. rewrite conv_unfold by assumption. unfold conv_body.
  replace (zen2han c =? c_LBRACE) with false by (unfold c_LBRACE; lia).
  replace (zen2han c =? c_SLASH) with false by (unfold c_SLASH; lia).
  replace ((zen2han c =? c_TILDE) || (zen2han c =? c_OVERLINE)) with true by (unfold c_TILDE, c_OVERLINE; lia).
  destruct (read_definition sl r) as [[sl' s'] nl]. reflexivity.
Qed.

Theorem conv_user_def f sl name value r :
  sl_ok sl -> name <> [] -> brace_free name = true -> brace_free value = true ->
  (length (def_text name value ++ r) < f)%nat ->
  let sl' := sort_items (set_item name value sl) in
  conv_loop f sl (def_text name value ++ r)
  = bind (conv_loop f sl' r) (fun o => Ok (repeat 10 (line_breaks (name ++ value)) ++ o)) /\ sl_ok sl' /\
  forall s, scan (sl_items sl') s = longest_match (define name value (sl_items sl)) s.
Proof.
  intros Hok Hne Hn Hv Hf sl'. split; [|split].
  - unfold def_text in *. rewrite <- !app_assoc in *. cbn [app] in *.
    rewrite tilde_arm; [|exact Hok | left; reflexivity | exact Hf].
    rewrite read_definition_canonical by assumption. cbn [fst snd]. rewrite Nat2Z.id. reflexivity.
  - apply set_item_ok; assumption.
  - intros s. apply scan_is_longest_match; [apply (set_item_ok name value sl Hok Hne)|].
    intros e. unfold sl'. rewrite sort_items_in, set_item_items. reflexivity.
Qed.

(* a definition written on one line emits nothing (what was true of every definition before the repair) *)
Corollary conv_user_def_one_line f sl name value r :
  sl_ok sl -> name <> [] -> brace_free name = true -> brace_free value = true ->
  ~ In 10 name -> ~ In 10 value ->
  (length (def_text name value ++ r) < f)%nat ->
  conv_loop f sl (def_text name value ++ r) = conv_loop f (sort_items (set_item name value sl)) r.
Proof.
  intros Hok Hne Hn Hv N1 N2 Hf.
  destruct (conv_user_def f sl name value r Hok Hne Hn Hv Hf) as [E _]. rewrite E.
  rewrite line_breaks_none; [|intros H; apply in_app_or in H; tauto].
  cbn [repeat]. symmetry. apply bind_id.
Qed.

(* the '~' arm, however it ends: what it writes is exactly the line breaks of the text it removes *)
Theorem definition_keeps_line_count f sl c r :
  sl_ok sl -> zen2han c = 126 \/ zen2han c = 8254 -> (length (c :: r) < f)%nat ->
  exists sl' removed rest out,
    c :: r = removed ++ rest /\ sl' = fst (fst (read_definition sl r)) /\ rest = snd (fst (read_definition sl r)) /\
    sl_ok sl' /\
    conv_loop f sl (c :: r) = bind (conv_loop f sl' rest) (fun o => Ok (out ++ o)) /\
    out = definition_residue removed /\ line_breaks out = line_breaks removed.
Proof.
  intros Hok Hc Hf. destruct (read_definition_lines sl r) as (k & E & L).
  assert (Hc10 : c <> 10).
  { intros ->. change (zen2han 10) with 10 in Hc. lia. }
  assert (Hk : line_breaks (c :: k) = line_breaks k).
  { apply Nat2Z.inj. rewrite line_breaks_cons. replace (c =? c_NL) with false by (unfold c_NL; lia). lia. }
  exists (fst (fst (read_definition sl r))), (c :: k), (snd (fst (read_definition sl r))), (repeat 10 (line_breaks k)).
  split; [cbn [app]; f_equal; exact E|]. split; [reflexivity|]. split; [reflexivity|].
  split; [apply read_definition_props; exact Hok|].
  split; [rewrite tilde_arm by assumption; rewrite L, Nat2Z.id; reflexivity|].
  split; [unfold definition_residue; rewrite Hk; reflexivity|].
  rewrite line_breaks_repeat. symmetry. exact Hk.
Qed.

(* ------------------------------------------------------------------------------------------ *)
(* 11. trim_end = the specification's strip_right; the '#' comment forms are not protected                *)
(* ------------------------------------------------------------------------------------------ *)
Lemma is_whitespace_white c : is_whitespace c = white c.
Proof. reflexivity. Qed.

Lemma trim_start_strip_left s : trim_start s = strip_left s.
Proof. induction s as [|c r IH]; [reflexivity|]. cbn [trim_start strip_left]. change (white c) with (is_whitespace c). rewrite IH. reflexivity. Qed.

Lemma trim_end_snoc l c : trim_end (l ++ [c]) = if is_whitespace c then trim_end l else l ++ [c].
Proof.
  induction l as [|x l IH]; cbn [app trim_end]; [destruct (is_whitespace c); reflexivity|].
  rewrite IH. destruct (is_whitespace c); [reflexivity|].
  destruct l; reflexivity.
Qed.

Lemma trim_end_rev l : trim_end l = rev (strip_left (rev l)).
Proof.
  induction l as [|c l IH] using rev_ind; [reflexivity|].
  rewrite trim_end_snoc, rev_app_distr. cbn [rev app strip_left]. change (white c) with (is_whitespace c).
  destruct (is_whitespace c); [exact IH|]. cbn [rev]. rewrite rev_involutive. reflexivity.
Qed.

Theorem trim_is_strip s : trim s = strip s.
Proof. unfold trim, strip. rewrite trim_end_rev. reflexivity. Qed.

Theorem trim_end_is_strip_right s : trim_end s = strip_right s.
Proof. apply trim_end_rev. Qed.

(* "c # ド" -> "c # c": text inside a '#' line comment is rewritten *)
Lemma hash_comment_rewritten : convert [99; 32; 35; 32; 12489] = Ok [99; 32; 35; 32; 99].
Proof. vm_compute. reflexivity. Qed.

(* ------------------------------------------------------------------------------------------ *)
(* 12. the statements as they appear in props/C17.v                                             *)
(* ------------------------------------------------------------------------------------------ *)
Theorem sorted_invariant :
  sl_ok init_items /\
  (forall sl name value, sl_ok sl -> name <> [] -> sl_ok (sort_items (set_item name value sl))) /\
  (forall sl r, sl_ok sl -> sl_ok (fst (fst (read_definition sl r)))) /\
  (forall l l', Sorted key_ge l' -> (forall k, with_key k l' = with_key k l) -> l' = sort_desc l).
Proof.
  split; [exact init_items_ok|]. split; [intros; apply set_item_ok; assumption|].
  split; [intros sl r H; apply (read_definition_props sl r H)|]. intros l l'. apply sort_desc_is_the_stable_sort.
Qed.

Theorem longest_all L rest : wf_items L ->
  (forall e, scan L rest = Some e <-> is_longest L rest e) /\
  (scan L rest = None <-> forall e, In e L -> ~ is_prefix (fst e) rest) /\
  scan L rest = longest_match L rest.
Proof.
  intros H. split; [intros e; apply scan_iff_longest; exact H|]. split; [|apply scan_is_longest_match_self; exact H].
  rewrite scan_none. split; intros A e He.
  - intros P. apply prefixb_iff in P. specialize (A e He). unfold it_name in A. congruence.
  - destruct (prefixb (it_name e) rest) eqn:E; [|reflexivity]. exfalso. apply (A e He). apply prefixb_iff. exact E.
Qed.

Theorem table_facts :
  NoDup (map fst sutoton_table) /\
  forall n v, In (n, v) sutoton_table ->
    n <> [] /\ (forall c, In c n -> 128 <= c) /\ is_special (hd 0 n) = false /\
    (forall c, In c v -> 0 <= c < 128 /\ c <> 126 /\ c <> 123 /\ c <> 47).
Proof. split; [exact table_names_unique | exact table_no_ascii]. Qed.

Theorem ascii_identity s : passthru is_ascii s -> convert s = Ok (strip_right s).
Proof. intros H. rewrite <- trim_end_is_strip_right. apply convert_ascii_identity. exact H. Qed.

Theorem verbatim_all f sl r : sl_ok sl ->
  (forall body, occursb [34; 125] ([123; 34] ++ body) = false ->
     (length ([123; 34] ++ body ++ [34; 125] ++ r)%Z < f)%nat ->
     conv_loop f sl ([123; 34] ++ body ++ [34; 125] ++ r)
     = bind (conv_loop f sl r) (fun o => Ok ([123; 34] ++ body ++ [34; 125] ++ o))) /\
  (forall body, ~ In 10 body ->
     (length ([47; 47] ++ body ++ [10] ++ r)%Z < f)%nat ->
     conv_loop f sl ([47; 47] ++ body ++ [10] ++ r)
     = bind (conv_loop f sl r) (fun o => Ok ([47; 47] ++ body ++ [10] ++ o))) /\
  (forall body, occursb [42; 47] ([47; 42] ++ body) = false ->
     (length ([47; 42] ++ body ++ [42; 47] ++ r)%Z < f)%nat ->
     conv_loop f sl ([47; 42] ++ body ++ [42; 47] ++ r)
     = bind (conv_loop f sl r) (fun o => Ok ([47; 42] ++ body ++ [42; 47] ++ o))).
Proof.
  intros H. split; [|split]; intros body A B;
    [apply conv_string_verbatim | apply conv_line_comment_verbatim | apply conv_block_comment_verbatim]; assumption.
Qed.

Theorem hash_comment_refuted :
  convert [99; 32; 35; 32; 12489] = Ok [99; 32; 35; 32; 99] /\ [99; 32; 35; 32; 99] <> strip_right [99; 32; 35; 32; 12489].
Proof. split; [exact hash_comment_rewritten | vm_compute; discriminate]. Qed.

Theorem homomorphism ps :
  segmented sutoton_table ps [] = true -> convert (src_of ps) = Ok (strip_right (translit ps)).
Proof. intros H. rewrite <- trim_end_is_strip_right. apply convert_homomorphism. exact H. Qed.

Theorem total_all :
  (forall s, exists o, convert s = Ok o) /\
  (forall f sl s, sl_ok sl -> (length s < f)%nat -> exists o, conv_loop f sl s = Ok o) /\
  (forall f1 f2 sl s, sl_ok sl -> (length s < f1)%nat -> (length s < f2)%nat -> conv_loop f1 sl s = conv_loop f2 sl s).
Proof.
  split; [exact convert_total|]. split; [intros f; apply conv_total | intros f1; apply conv_fuel_irrelevant].
Qed.
