(* C05 - the flat pos/loop_stack machine of model/LoopMachine.v executes a flattened structured program
   exactly as spec/LoopSpec.v prescribes.  Everything is generic in the non-loop tokens (D, St, step,
   halted, count_of), for all nesting depths, counts and bodies; no bounds.

   Layout
     1. list helpers
     2. facts about the structured semantics alone (any count function)
     3. the machine: counted closure `starn`, `reaches`, one-step lemmas, scan lemma,
        the two inner inductions on the remaining passes, the segment lemma, fuel
     4. the theorems used by props/C05.v

   One observation makes the core hypothesis-free: a loop whose count evaluates to 0 is executed ONCE by the
   machine (LoopEnd tests `index + 1 < count` after the body, LoopBreak tests `index + 1 >= count`), i.e. the
   machine implements the structured semantics for the count function `count1 = max 1 . count_of`.  The
   documented statement (counts >= 1) is the special case where `max 1` disappears. *)
From Coq Require Import List ZArith Bool Lia.
From Sakura.Model Require Import LoopMachine.
From Sakura.Spec Require Import LoopSpec.
Import ListNotations.

(* ------------------------------------------------------------------------------------------------ *)
(* 1. list helpers                                                                                    *)

Lemma nth_error_mid {A : Type} (l1 : list A) (t : A) (l2 : list A) (p : nat) :
  p = length l1 -> nth_error (l1 ++ t :: l2) p = Some t.
Proof.
  intros ->. rewrite nth_error_app2 by lia. rewrite Nat.sub_diag. reflexivity.
Qed.

Lemma skipn_mid {A : Type} (l1 l2 : list A) (p : nat) :
  p = length l1 -> skipn p (l1 ++ l2) = l2.
Proof.
  intros ->. induction l1 as [|x l1 IH]; [reflexivity|].
  cbn [length app skipn]. exact IH.
Qed.

Lemma iter_S {A : Type} (f : A -> A) (k : nat) (x : A) :
  Nat.iter (S k) f x = f (Nat.iter k f x).
Proof. reflexivity. Qed.

Lemma iter_succ_r {A : Type} (f : A -> A) (k : nat) (x : A) :
  Nat.iter (S k) f x = Nat.iter k f (f x).
Proof.
  induction k as [|k IH]; [reflexivity|].
  rewrite (iter_S f (S k) x), IH. reflexivity.
Qed.

(* both sides of a list equation to the right-nested cons/app normal form *)
Ltac norm_list :=
  repeat first [ rewrite <- app_assoc | rewrite <- app_comm_cons | rewrite app_nil_l ].
Ltac list_eq := subst; norm_list; reflexivity.

Definition count1 {St : Type} (cnt : Z -> St -> nat) : Z -> St -> nat :=
  fun n s => Nat.max 1 (cnt n s).

(* ------------------------------------------------------------------------------------------------ *)
(* 2. the structured semantics alone                                                                  *)

Section SemFacts.
  Variable D : Type.
  Variable St : Type.
  Variable step : D -> St -> St.
  Variable halted : St -> bool.
  Variable cnt : Z -> St -> nat.

  Notation sem_item' := (sem_item D St step halted cnt).
  Notation sem' := (sem D St step halted cnt).
  Notation sem_opt' := (sem_opt D St step halted cnt).
  Notation cost_item' := (cost_item D St step halted cnt).
  Notation cost' := (cost D St step halted cnt).
  Notation cost_opt' := (cost_opt D St step halted cnt).

  (* unfolding equations (so that proofs never depend on how cbn refolds the mutual fixpoints) *)
  Lemma sem_item_leaf d s : sem_item' (Leaf d) s = if halted s then s else step d s.
  Proof. reflexivity. Qed.
  Lemma sem_item_loop n a b s :
    sem_item' (Loop n a b) s = passes (sem' a) (sem_opt' b) (cnt n s) s.
  Proof. destruct b; reflexivity. Qed.
  Lemma sem_nil s : sem' PNil s = s.
  Proof. reflexivity. Qed.
  Lemma sem_cons i p s : sem' (PCons i p) s = sem' p (sem_item' i s).
  Proof. reflexivity. Qed.
  Lemma cost_item_leaf d s : cost_item' (Leaf d) s = 1.
  Proof. reflexivity. Qed.
  Lemma cost_item_loop n a b s :
    cost_item' (Loop n a b) s
    = 1 + cpasses (cost' a) (cost_opt' b) (sem' a) (sem_opt' b) (cnt n s) s.
  Proof. destruct b; reflexivity. Qed.
  Lemma cost_cons i p s : cost' (PCons i p) s = cost_item' i s + cost' p (sem_item' i s).
  Proof. reflexivity. Qed.
  Lemma flat_item_none (n : Z) (a : prog D) :
    flat_item (Loop n a None) = LBegin n :: flatten a ++ [LEnd].
  Proof. reflexivity. Qed.
  Lemma flat_item_some (n : Z) (a b : prog D) :
    flat_item (Loop n a (Some b)) = LBegin n :: flatten a ++ [LBreak] ++ flatten b ++ [LEnd].
  Proof. reflexivity. Qed.
  Lemma flatten_cons (i : item D) (p : prog D) : flatten (PCons i p) = flat_item i ++ flatten p.
  Proof. reflexivity. Qed.
  Lemma flat_item_none_len (n : Z) (a : prog D) :
    length (flat_item (Loop n a None)) = S (S (length (flatten a))).
  Proof. rewrite flat_item_none. cbn [length]. rewrite app_length. cbn [length]. lia. Qed.
  Lemma flat_item_some_len (n : Z) (a b : prog D) :
    length (flat_item (Loop n a (Some b))) = S (S (S (length (flatten a) + length (flatten b)))).
  Proof.
    rewrite flat_item_some. cbn [length]. rewrite !app_length. cbn [length]. lia.
  Qed.

  Lemma passes_1 (fa fb : St -> St) s : passes fa fb 1 s = fa s.
  Proof. reflexivity. Qed.
  Lemma passes_SS (fa fb : St -> St) k s :
    passes fa fb (S (S k)) s = passes fa fb (S k) (fb (fa s)).
  Proof. reflexivity. Qed.

  Section Halt.
    Variables fa fb : St -> St.
    Hypothesis Hfa : forall x, halted x = true -> fa x = x.
    Hypothesis Hfb : forall x, halted x = true -> fb x = x.

    Lemma passes_halted k s : halted s = true -> passes fa fb k s = s.
    Proof.
      revert s. induction k as [|k IH]; intros s Hs; [reflexivity|].
      destruct k as [|k].
      - rewrite passes_1. apply Hfa. exact Hs.
      - rewrite passes_SS. rewrite (Hfa s Hs), (Hfb s Hs). apply IH. exact Hs.
    Qed.

    (* the first part of a pass raises the flag: nothing more happens *)
    Lemma passes_halt_a k s : halted (fa s) = true -> passes fa fb (S k) s = fa s.
    Proof.
      revert s. induction k as [|k IH]; intros s Hs; [reflexivity|].
      rewrite passes_SS. rewrite (Hfb (fa s) Hs). rewrite IH.
      - apply Hfa. exact Hs.
      - rewrite (Hfa (fa s) Hs). exact Hs.
    Qed.
  End Halt.

  (* a halted state is left unchanged by every program *)
  Lemma sem_halted :
    (forall i s, halted s = true -> sem_item' i s = s) /\
    (forall p s, halted s = true -> sem' p s = s).
  Proof.
    apply item_prog_mutind.
    - intros d s Hs. rewrite sem_item_leaf, Hs. reflexivity.
    - intros n a IHa s Hs. rewrite sem_item_loop. apply passes_halted; auto.
    - intros n a b IHa IHb s Hs. rewrite sem_item_loop. apply passes_halted; auto.
    - intros s _. reflexivity.
    - intros i p IHi IHp s Hs. rewrite sem_cons. rewrite (IHi s Hs). apply IHp. exact Hs.
  Qed.

  (* concatenation of programs is composition, and flattening is a homomorphism *)
  Lemma sem_app p q s : sem' (papp p q) s = sem' q (sem' p s).
  Proof.
    revert s. induction p as [|i p IH]; intros s; [reflexivity|].
    cbn [papp]. rewrite !sem_cons. apply IH.
  Qed.

  Lemma flatten_app (p q : prog D) : flatten (papp p q) = flatten p ++ flatten q.
  Proof.
    induction p as [|i p IH]; [reflexivity|].
    cbn [papp]. rewrite !flatten_cons, IH, app_assoc. reflexivity.
  Qed.

  Lemma sem_prepeat k p s : sem' (prepeat k p) s = Nat.iter k (sem' p) s.
  Proof.
    revert s. induction k as [|k IH]; intros s; [reflexivity|].
    cbn [prepeat]. rewrite sem_app, IH, iter_succ_r. reflexivity.
  Qed.

  Lemma passes_none_iter (fa : St -> St) k s : passes fa (fun x => x) k s = Nat.iter k fa s.
  Proof.
    revert s. induction k as [|k IH]; intros s; [reflexivity|].
    destruct k as [|k]; [reflexivity|].
    rewrite passes_SS, IH. rewrite (iter_succ_r fa (S k) s). reflexivity.
  Qed.

  Lemma passes_break_iter (fa fb : St -> St) k s :
    passes fa fb (S k) s = fa (Nat.iter k (fun x => fb (fa x)) s).
  Proof.
    revert s. induction k as [|k IH]; intros s; [reflexivity|].
    rewrite passes_SS, IH. rewrite (iter_succ_r (fun x => fb (fa x)) k s). reflexivity.
  Qed.

  (* [n body] = body, n times (as a state transformer and as a program text) *)
  Lemma loop_repeat_iter n body s :
    sem_item' (Loop n body None) s = Nat.iter (cnt n s) (sem' body) s.
  Proof. rewrite sem_item_loop. cbn [sem_opt]. apply passes_none_iter. Qed.

  Lemma loop_repeat n body s k :
    cnt n s = k -> sem' (PCons (Loop n body None) PNil) s = sem' (prepeat k body) s.
  Proof.
    intros <-. rewrite sem_cons, sem_nil, loop_repeat_iter, sem_prepeat. reflexivity.
  Qed.

  (* [n a : b] = (a b) n-1 times, then a *)
  Lemma loop_break_iter n a b s k :
    cnt n s = S k ->
    sem_item' (Loop n a (Some b)) s = sem' a (Nat.iter k (fun x => sem' b (sem' a x)) s).
  Proof.
    intros Hk. rewrite sem_item_loop, Hk. cbn [sem_opt]. apply passes_break_iter.
  Qed.

  Lemma loop_break n a b s k :
    cnt n s = S k ->
    sem' (PCons (Loop n a (Some b)) PNil) s = sem' (papp (prepeat k (papp a b)) a) s.
  Proof.
    intros Hk. rewrite sem_cons, sem_nil, (loop_break_iter n a b s k Hk).
    rewrite sem_app, sem_prepeat. f_equal.
    clear Hk. induction k as [|k IH]; [reflexivity|].
    rewrite !iter_S, IH, sem_app. reflexivity.
  Qed.
End SemFacts.

(* two count functions that agree on every count occurring in p give the same semantics and cost *)
Section Ext.
  Variable D : Type.
  Variable St : Type.
  Variable step : D -> St -> St.
  Variable halted : St -> bool.
  Variables c1 c2 : Z -> St -> nat.

  Lemma passes_ext (fa fb fa' fb' : St -> St) :
    (forall x, fa x = fa' x) -> (forall x, fb x = fb' x) ->
    forall k s, passes fa fb k s = passes fa' fb' k s.
  Proof.
    intros Ha Hb. induction k as [|k IH]; intros s; [reflexivity|].
    destruct k as [|k].
    - rewrite !passes_1. apply Ha.
    - rewrite !passes_SS. rewrite Ha, Hb. apply IH.
  Qed.

  Lemma cpasses_ext (ca cb ca' cb' : St -> nat) (fa fb fa' fb' : St -> St) :
    (forall x, ca x = ca' x) -> (forall x, cb x = cb' x) ->
    (forall x, fa x = fa' x) -> (forall x, fb x = fb' x) ->
    forall k s, cpasses ca cb fa fb k s = cpasses ca' cb' fa' fb' k s.
  Proof.
    intros Hca Hcb Ha Hb. induction k as [|k IH]; intros s; [reflexivity|].
    cbn [cpasses]. rewrite Hca, Ha, Hcb, Hb, IH. reflexivity.
  Qed.

  Let R : Z -> Prop := fun n => forall s, c1 n s = c2 n s.

  Lemma sem_cost_ext :
    (forall i, counts_item R i -> forall s,
        sem_item D St step halted c1 i s = sem_item D St step halted c2 i s /\
        cost_item D St step halted c1 i s = cost_item D St step halted c2 i s) /\
    (forall p, counts R p -> forall s,
        sem D St step halted c1 p s = sem D St step halted c2 p s /\
        cost D St step halted c1 p s = cost D St step halted c2 p s).
  Proof.
    apply item_prog_mutind.
    - intros d _ s. split; reflexivity.
    - intros n a IHa [Hn [Ha _]] s.
      rewrite !sem_item_loop, !cost_item_loop. rewrite (Hn s). cbn [sem_opt cost_opt]. split.
      + apply passes_ext; [intros x; apply (IHa Ha x) | reflexivity].
      + f_equal. apply cpasses_ext;
          [intros x; apply (IHa Ha x) | reflexivity | intros x; apply (IHa Ha x) | reflexivity].
    - intros n a b IHa IHb [Hn [Ha Hb]] s.
      rewrite !sem_item_loop, !cost_item_loop. rewrite (Hn s). cbn [sem_opt cost_opt]. split.
      + apply passes_ext; [intros x; apply (IHa Ha x) | intros x; apply (IHb Hb x)].
      + f_equal. apply cpasses_ext;
          [intros x; apply (IHa Ha x) | intros x; apply (IHb Hb x)
           | intros x; apply (IHa Ha x) | intros x; apply (IHb Hb x)].
    - intros _ s. split; reflexivity.
    - intros i p IHi IHp [Hi Hp] s.
      rewrite !sem_cons, !cost_cons.
      destruct (IHi Hi s) as [E1 E2]. rewrite E1, E2.
      destruct (IHp Hp (sem_item D St step halted c2 i s)) as [E3 E4]. rewrite E3, E4.
      split; reflexivity.
  Qed.
End Ext.

Lemma counts_impl (D : Type) (R R' : Z -> Prop) :
  (forall n, R n -> R' n) ->
  (forall i : item D, counts_item R i -> counts_item R' i) /\
  (forall p : prog D, counts R p -> counts R' p).
Proof.
  intros HR. apply item_prog_mutind.
  - intros d _. exact I.
  - intros n a IHa [Hn [Ha _]]. split; [apply HR; exact Hn | split; [apply IHa; exact Ha | exact I]].
  - intros n a b IHa IHb [Hn [Ha Hb]].
    split; [apply HR; exact Hn | split; [apply IHa; exact Ha | apply IHb; exact Hb]].
  - intros _. exact I.
  - intros i p IHi IHp [Hi Hp]. split; [apply IHi; exact Hi | apply IHp; exact Hp].
Qed.

(* when every loop repeats at least once, `max 1` is invisible *)
Lemma count1_invisible (D St : Type) (step : D -> St -> St) (halted : St -> bool)
      (cnt : Z -> St -> nat) (p : prog D) :
  loops_pos D St cnt p ->
  forall s, sem D St step halted (count1 cnt) p s = sem D St step halted cnt p s /\
            cost D St step halted (count1 cnt) p s = cost D St step halted cnt p s.
Proof.
  intros Hp. apply (proj2 (sem_cost_ext D St step halted (count1 cnt) cnt)).
  unfold loops_pos in Hp. revert Hp.
  apply (proj2 (counts_impl D (fun n => forall s, 1 <= cnt n s)
                            (fun n => forall s, count1 cnt n s = cnt n s)
                            (fun n Hn s => Nat.max_r 1 (cnt n s) (Hn s)))).
Qed.

(* ------------------------------------------------------------------------------------------------ *)
(* 3. the machine                                                                                     *)

Section MachineFacts.
  Variable D : Type.
  Variable St : Type.
  Variable step : D -> St -> St.
  Variable halted : St -> bool.
  Variable cnt : Z -> St -> nat.

  Notation tok := (ltok D).
  Notation cfg := (config St).
  Notation Cfg := (mkCfg St).
  Notation mstepM := (mstep D St step halted cnt).
  Notation mrunM := (mrun D St step halted cnt).
  Notation runM := (run D St step halted cnt).
  Notation semM := (sem D St step halted (count1 cnt)).
  Notation sem_itemM := (sem_item D St step halted (count1 cnt)).
  Notation costM := (cost D St step halted (count1 cnt)).
  Notation cost_itemM := (cost_item D St step halted (count1 cnt)).

  Lemma semM_halted p x : halted x = true -> semM p x = x.
  Proof. apply (proj2 (sem_halted D St step halted (count1 cnt))). Qed.
  Lemma sem_itemM_halted i x : halted x = true -> sem_itemM i x = x.
  Proof. apply (proj1 (sem_halted D St step halted (count1 cnt))). Qed.

  (* exactly m iterations of the while loop lead from c to c' *)
  Inductive starn (toks : list tok) : nat -> cfg -> cfg -> Prop :=
  | starn_refl : forall c, starn toks 0 c c
  | starn_step : forall m c c1 c2,
      mstepM toks c = Some c1 -> starn toks m c1 c2 -> starn toks (S m) c c2.

  (* reflexive-transitive closure of mstep *)
  Definition star (toks : list tok) (c c' : cfg) : Prop := exists m, starn toks m c c'.

  Lemma starn_trans toks m1 m2 c c1 c2 :
    starn toks m1 c c1 -> starn toks m2 c1 c2 -> starn toks (m1 + m2) c c2.
  Proof.
    intros H1 H2. induction H1 as [c|m c c' c1 Hs _ IH]; [exact H2|].
    cbn [Nat.add]. eapply starn_step; [exact Hs | apply IH; exact H2].
  Qed.

  (* more fuel gives the same answer *)
  Lemma mrun_mono toks f c r :
    mrunM f toks c = Some r -> forall f', f <= f' -> mrunM f' toks c = Some r.
  Proof.
    revert c. induction f as [|f IH]; intros c Hr f' Hle; [discriminate Hr|].
    destruct f' as [|f']; [lia|].
    cbn [mrun] in Hr |- *. destruct (mstepM toks c) as [c1|]; [|exact Hr].
    apply (IH c1 Hr). lia.
  Qed.

  Lemma run_mono toks f s r :
    runM f toks s = Some r -> forall f', f <= f' -> runM f' toks s = Some r.
  Proof.
    unfold run. intros Hr f' Hle.
    destruct (mrunM f toks (Cfg 0 [] s)) as [c|] eqn:Hc; [|discriminate Hr].
    rewrite (mrun_mono toks f _ c Hc f' Hle). exact Hr.
  Qed.

  (* the closure versus the fuelled loop *)
  Lemma mrun_starn toks m c c' :
    starn toks m c c' -> mstepM toks c' = None ->
    forall fuel, m < fuel -> mrunM fuel toks c = Some c'.
  Proof.
    intros Hs Hn. induction Hs as [c|m c c1 c2 Hstep _ IH]; intros fuel Hf.
    - destruct fuel as [|f]; [lia|]. cbn [mrun]. rewrite Hn. reflexivity.
    - destruct fuel as [|f]; [lia|]. cbn [mrun]. rewrite Hstep. apply (IH Hn). lia.
  Qed.

  Lemma star_mrun toks c c' :
    star toks c c' -> mstepM toks c' = None -> exists fuel, mrunM fuel toks c = Some c'.
  Proof.
    intros [m Hs] Hn. exists (S m). apply (mrun_starn toks m c c' Hs Hn). lia.
  Qed.

  Lemma mstep_none_halted toks c : halted (st St c) = true -> mstepM toks c = None.
  Proof.
    intros Hh. unfold mstep. destruct (nth_error toks (pos St c)); [rewrite Hh|]; reflexivity.
  Qed.

  Lemma mstep_none_end toks c : length toks <= pos St c -> mstepM toks c = None.
  Proof.
    intros Hle. unfold mstep. rewrite (proj2 (nth_error_None toks (pos St c)) Hle). reflexivity.
  Qed.

  (* --- one step per kind of token --- *)
  Lemma mstep_other toks p sg s d :
    nth_error toks p = Some (LOther d) -> halted s = false ->
    mstepM toks (Cfg p sg s) = Some (Cfg (S p) sg (step d s)).
  Proof. intros Hn Hh. unfold mstep. cbn [pos st stack]. rewrite Hn, Hh. reflexivity. Qed.

  Lemma mstep_begin toks p sg s n :
    nth_error toks p = Some (LBegin n) -> halted s = false ->
    mstepM toks (Cfg p sg s) = Some (Cfg (S p) (mkItem (S p) 0 0 (cnt n s) :: sg) s).
  Proof. intros Hn Hh. unfold mstep. cbn [pos st stack]. rewrite Hn, Hh. reflexivity. Qed.

  Lemma mstep_end_again toks p it sg s :
    nth_error toks p = Some LEnd -> halted s = false -> S (index it) < count it ->
    mstepM toks (Cfg p (it :: sg) s)
    = Some (Cfg (start_pos it) (mkItem (start_pos it) (S p) (S (index it)) (count it) :: sg) s).
  Proof.
    intros Hn Hh Hlt. unfold mstep. cbn [pos st stack]. rewrite Hn, Hh.
    cbn [index count start_pos].
    destruct (Nat.ltb_spec (S (index it)) (count it)); [reflexivity | lia].
  Qed.

  Lemma mstep_end_done toks p it sg s :
    nth_error toks p = Some LEnd -> halted s = false -> count it <= S (index it) ->
    mstepM toks (Cfg p (it :: sg) s) = Some (Cfg (S p) sg s).
  Proof.
    intros Hn Hh Hle. unfold mstep. cbn [pos st stack]. rewrite Hn, Hh.
    cbn [index count start_pos].
    destruct (Nat.ltb_spec (S (index it)) (count it)); [lia | reflexivity].
  Qed.

  Lemma mstep_break_cont toks p it sg s :
    nth_error toks p = Some LBreak -> halted s = false -> S (index it) < count it ->
    mstepM toks (Cfg p (it :: sg) s) = Some (Cfg (S p) (it :: sg) s).
  Proof.
    intros Hn Hh Hlt. unfold mstep. cbn [pos st stack]. rewrite Hn, Hh.
    destruct (Nat.leb_spec (count it) (S (index it))); [lia | reflexivity].
  Qed.

  Lemma mstep_break_last toks p it sg s e :
    nth_error toks p = Some LBreak -> halted s = false -> count it <= S (index it) ->
    (if Nat.eqb (end_pos it) 0 then scan_end D (skipn p toks) p 0 else end_pos it) = e ->
    0 < e ->
    mstepM toks (Cfg p (it :: sg) s) = Some (Cfg e sg s).
  Proof.
    intros Hn Hh Hle He Hpos. unfold mstep. cbn [pos st stack]. rewrite Hn, Hh.
    destruct (Nat.leb_spec (count it) (S (index it))); [|lia].
    rewrite He. destruct (Nat.ltb_spec 0 e); [reflexivity | lia].
  Qed.

  (* --- the forward scan of ':' skips a balanced segment --- *)
  Lemma scan_balanced :
    (forall (i : item D) r j d,
        scan_end D (flat_item i ++ r) j d = scan_end D r (j + length (flat_item i)) d) /\
    (forall (p : prog D) r j d,
        scan_end D (flatten p ++ r) j d = scan_end D r (j + length (flatten p)) d).
  Proof.
    apply item_prog_mutind.
    - intros x r j d. cbn [flat_item app scan_end length]. f_equal. lia.
    - intros n a IHa r j d. rewrite flat_item_none_len, flat_item_none.
      norm_list. cbn [scan_end]. rewrite IHa. cbn [scan_end]. f_equal. lia.
    - intros n a b IHa IHb r j d. rewrite flat_item_some_len, flat_item_some.
      norm_list. cbn [scan_end]. rewrite IHa. cbn [scan_end]. rewrite IHb. cbn [scan_end].
      f_equal. lia.
    - intros r j d. cbn [flatten app length]. f_equal. lia.
    - intros i p IHi IHp r j d. rewrite flatten_cons, app_length. norm_list.
      rewrite IHi, IHp. f_equal. lia.
  Qed.

  (* --- "from c the machine reaches, in at most `bound` steps, a configuration whose state is s' and which
         either stands at position E with stack sigma, or is halted" --- *)
  Definition reaches (toks : list tok) (c : cfg) (bound : nat) (s' : St) (E : nat)
             (sigma : list loop_item) : Prop :=
    exists m c', starn toks m c c' /\ m <= bound /\ st St c' = s' /\
                 ((pos St c' = E /\ stack St c' = sigma) \/ halted s' = true).

  Lemma reaches_here toks p sg s b E : p = E -> reaches toks (Cfg p sg s) b s E sg.
  Proof.
    intros <-. exists 0, (Cfg p sg s). split; [apply starn_refl|].
    split; [lia|]. split; [reflexivity|]. left. split; reflexivity.
  Qed.

  Lemma reaches_halted toks p sg s b E sigma :
    halted s = true -> reaches toks (Cfg p sg s) b s E sigma.
  Proof.
    intros Hh. exists 0, (Cfg p sg s). split; [apply starn_refl|].
    split; [lia|]. split; [reflexivity|]. right. exact Hh.
  Qed.

  Lemma reaches_eq toks c b b' s1 s2 E E' sigma :
    reaches toks c b s1 E sigma -> b <= b' -> s1 = s2 -> E = E' -> reaches toks c b' s2 E' sigma.
  Proof.
    intros (m & c' & Hs & Hm & Hst & Hd) Hb <- <-.
    exists m, c'. split; [exact Hs|]. split; [lia|]. split; [exact Hst | exact Hd].
  Qed.

  Lemma reaches_step toks c c1 b b' s' E sigma :
    mstepM toks c = Some c1 -> reaches toks c1 b s' E sigma -> S b <= b' ->
    reaches toks c b' s' E sigma.
  Proof.
    intros Hstep (m & c' & Hs & Hm & Hst & Hd) Hb.
    exists (S m), c'. split; [eapply starn_step; [exact Hstep | exact Hs]|].
    split; [lia|]. split; [exact Hst | exact Hd].
  Qed.

  Lemma reaches_step' toks c c1 b s' E sigma :
    mstepM toks c = Some c1 -> reaches toks c1 b s' E sigma -> reaches toks c (S b) s' E sigma.
  Proof. intros H1 H2. exact (reaches_step toks c c1 b (S b) s' E sigma H1 H2 (le_n _)). Qed.

  Lemma reaches_seq toks c b1 b2 b s1 s2 E1 E2 sg1 sg2 :
    reaches toks c b1 s1 E1 sg1 ->
    (halted s1 = false -> reaches toks (Cfg E1 sg1 s1) b2 s2 E2 sg2) ->
    (halted s1 = true -> s2 = s1) ->
    b1 + b2 <= b ->
    reaches toks c b s2 E2 sg2.
  Proof.
    intros (m & c1 & Hs & Hm & Hst & Hd) Hnext Hstop Hb.
    destruct (halted s1) eqn:Hh.
    - exists m, c1. rewrite (Hstop eq_refl). split; [exact Hs|]. split; [lia|].
      split; [exact Hst|]. right. exact Hh.
    - destruct Hd as [[Hp Hk]|Hd]; [|discriminate Hd].
      destruct (Hnext eq_refl) as (m2 & c2 & Hs2 & Hm2 & Hst2 & Hd2).
      assert (Hc1 : c1 = Cfg E1 sg1 s1).
      { destruct c1 as [p1 k1 t1]. cbn [pos stack st] in Hp, Hk, Hst. subst. reflexivity. }
      subst c1. exists (m + m2), c2.
      split; [eapply starn_trans; [exact Hs | exact Hs2]|].
      split; [lia|]. split; [exact Hst2 | exact Hd2].
  Qed.

  (* --- the segment property --- *)
  Definition seg_prog (p : prog D) : Prop :=
    forall toks pre post P sigma s,
      toks = pre ++ flatten p ++ post -> P = length pre ->
      reaches toks (Cfg P sigma s) (costM p s) (semM p s) (P + length (flatten p)) sigma.

  Definition seg_item (i : item D) : Prop :=
    forall toks pre post P sigma s,
      toks = pre ++ flat_item i ++ post -> P = length pre ->
      reaches toks (Cfg P sigma s) (cost_itemM i s) (sem_itemM i s) (P + length (flat_item i)) sigma.

  (* the remaining m = max 1 count - index passes of `[n a]`, the machine standing at the start of the body *)
  Lemma loop_none_passes (a : prog D) :
    seg_prog a ->
    forall toks pre post n P sigma,
      toks = pre ++ (LBegin n :: flatten a ++ [LEnd]) ++ post -> P = length pre ->
      forall m it s,
        start_pos it = S P ->
        m = Nat.max 1 (count it) - index it -> 1 <= m ->
        reaches toks (Cfg (S P) (it :: sigma) s)
                (cpasses (costM a) (fun _ => 0) (semM a) (fun x => x) m s)
                (passes (semM a) (fun x => x) m s)
                (P + S (S (length (flatten a)))) sigma.
  Proof.
    intros IHa toks pre post n P sigma Htoks HP.
    induction m as [|m IHm]; intros it s Hst Hm H1; [lia|].
    assert (Ha : reaches toks (Cfg (S P) (it :: sigma) s) (costM a s) (semM a s)
                         (S P + length (flatten a)) (it :: sigma)).
    { apply (IHa toks (pre ++ [LBegin n]) ([LEnd] ++ post)); [list_eq|].
      rewrite app_length. cbn [length]. lia. }
    apply (reaches_seq toks _ (costM a s)
                       (1 + cpasses (costM a) (fun _ => 0) (semM a) (fun x => x) m (semM a s))
                       _ (semM a s) _ (S P + length (flatten a)) _ (it :: sigma) _ Ha).
    - intros Hh.
      assert (Hnth : nth_error toks (S P + length (flatten a)) = Some LEnd).
      { replace toks with ((pre ++ LBegin n :: flatten a) ++ LEnd :: post) by list_eq.
        apply nth_error_mid. rewrite app_length. cbn [length]. lia. }
      destruct (le_lt_dec (count it) (S (index it))) as [Hlast|Hmore].
      + (* last pass: the item is dropped *)
        assert (m = 0) by lia. subst m.
        eapply reaches_step'; [apply (mstep_end_done toks _ it sigma _ Hnth Hh Hlast) | ].
        eapply reaches_eq; [apply (reaches_here toks _ _ _ 0); reflexivity | lia | reflexivity | lia].
      + (* another pass *)
        eapply reaches_step'; [apply (mstep_end_again toks _ it sigma _ Hnth Hh Hmore) | ].
        rewrite Hst.
        destruct m as [|m']; [lia|].
        eapply reaches_eq;
          [apply IHm; [reflexivity | cbn [count index]; lia | lia] | lia | | reflexivity].
        rewrite passes_SS. reflexivity.
    - intros Hh. apply (passes_halt_a St halted); [apply semM_halted | reflexivity | exact Hh].
    - cbn [cpasses]. lia.
  Qed.

  (* the remaining passes of `[n a : b]`; E = position just after the loop's own `]` *)
  Lemma loop_some_passes (a b : prog D) :
    seg_prog a -> seg_prog b ->
    forall toks pre post n P sigma E,
      toks = pre ++ (LBegin n :: flatten a ++ [LBreak] ++ flatten b ++ [LEnd]) ++ post ->
      P = length pre ->
      E = P + S (S (S (length (flatten a) + length (flatten b)))) ->
      forall m it s,
        start_pos it = S P ->
        (end_pos it = 0 \/ end_pos it = E) ->
        m = Nat.max 1 (count it) - index it -> 1 <= m ->
        reaches toks (Cfg (S P) (it :: sigma) s)
                (cpasses (costM a) (costM b) (semM a) (semM b) m s)
                (passes (semM a) (semM b) m s)
                E sigma.
  Proof.
    intros IHa IHb toks pre post n P sigma E Htoks HP HE.
    induction m as [|m IHm]; intros it s Hst Hend Hm H1; [lia|].
    assert (Ha : reaches toks (Cfg (S P) (it :: sigma) s) (costM a s) (semM a s)
                         (S P + length (flatten a)) (it :: sigma)).
    { apply (IHa toks (pre ++ [LBegin n]) ([LBreak] ++ flatten b ++ [LEnd] ++ post)); [list_eq|].
      rewrite app_length. cbn [length]. lia. }
    apply (reaches_seq toks _ (costM a s)
                       (1 + (costM b (semM a s)
                             + (1 + cpasses (costM a) (costM b) (semM a) (semM b) m
                                            (semM b (semM a s)))))
                       _ (semM a s) _ (S P + length (flatten a)) _ (it :: sigma) _ Ha).
    - intros Hh.
      assert (Hnth : nth_error toks (S P + length (flatten a)) = Some LBreak).
      { replace toks with ((pre ++ LBegin n :: flatten a) ++ LBreak :: flatten b ++ LEnd :: post)
          by list_eq.
        apply nth_error_mid. rewrite app_length. cbn [length]. lia. }
      destruct (le_lt_dec (count it) (S (index it))) as [Hlast|Hmore].
      + (* last pass: ':' leaves the loop, the item stays popped *)
        assert (m = 0) by lia. subst m.
        assert (He : (if Nat.eqb (end_pos it) 0
                      then scan_end D (skipn (S P + length (flatten a)) toks)
                                    (S P + length (flatten a)) 0
                      else end_pos it) = E).
        { destruct Hend as [H0|HEnd].
          - rewrite H0. cbn [Nat.eqb].
            replace toks with ((pre ++ LBegin n :: flatten a) ++ LBreak :: flatten b ++ LEnd :: post)
              by list_eq.
            rewrite skipn_mid by (rewrite app_length; cbn [length]; lia).
            cbn [scan_end]. rewrite (proj2 scan_balanced). cbn [scan_end]. lia.
          - rewrite HEnd. destruct (Nat.eqb_spec E 0); [lia | reflexivity]. }
        eapply reaches_step';
          [apply (mstep_break_last toks _ it sigma _ E Hnth Hh Hlast He); lia | ].
        eapply reaches_eq; [apply (reaches_here toks _ _ _ 0); reflexivity | lia | reflexivity | reflexivity].
      + (* not the last pass: go on with b, then `]` jumps back *)
        eapply reaches_step'; [apply (mstep_break_cont toks _ it sigma _ Hnth Hh Hmore) | ].
        destruct m as [|m']; [lia|].
        assert (Hb : reaches toks (Cfg (S (S P + length (flatten a))) (it :: sigma) (semM a s))
                             (costM b (semM a s)) (semM b (semM a s))
                             (S (S P + length (flatten a)) + length (flatten b)) (it :: sigma)).
        { apply (IHb toks (pre ++ LBegin n :: flatten a ++ [LBreak]) ([LEnd] ++ post)); [list_eq|].
          rewrite app_length. cbn [length]. rewrite app_length. cbn [length]. lia. }
        apply (reaches_seq toks _ (costM b (semM a s))
                           (1 + cpasses (costM a) (costM b) (semM a) (semM b) (S m')
                                        (semM b (semM a s)))
                           _ (semM b (semM a s)) _ (S (S P + length (flatten a)) + length (flatten b))
                           _ (it :: sigma) _ Hb).
        * intros Hh2.
          assert (Hnth2 : nth_error toks (S (S P + length (flatten a)) + length (flatten b))
                          = Some LEnd).
          { replace toks with ((pre ++ LBegin n :: flatten a ++ LBreak :: flatten b) ++ LEnd :: post)
              by list_eq.
            apply nth_error_mid. rewrite app_length. cbn [length]. rewrite app_length.
            cbn [length]. lia. }
          eapply reaches_step';
            [apply (mstep_end_again toks _ it sigma _ Hnth2 Hh2 Hmore) | ].
          rewrite Hst.
          eapply reaches_eq;
            [apply IHm; [reflexivity | right; cbn [end_pos]; lia | cbn [count index]; lia | lia]
            | lia | | reflexivity].
          rewrite passes_SS. reflexivity.
        * intros Hh2. rewrite passes_SS.
          apply (passes_halted St halted); [apply semM_halted | apply semM_halted | exact Hh2].
        * lia.
    - intros Hh. apply (passes_halt_a St halted); [apply semM_halted | apply semM_halted | exact Hh].
    - cbn [cpasses]. lia.
  Qed.

  (* THE SEGMENT LEMMA *)
  Lemma segment : (forall i, seg_item i) /\ (forall p, seg_prog p).
  Proof.
    apply item_prog_mutind.
    - (* a non-loop token *)
      intros d toks pre post P sigma s Htoks HP.
      rewrite sem_item_leaf, cost_item_leaf.
      destruct (halted s) eqn:Hs; [apply reaches_halted; exact Hs|].
      assert (Hnth : nth_error toks P = Some (LOther d)).
      { subst toks. apply nth_error_mid. exact HP. }
      eapply reaches_step'; [apply (mstep_other toks P sigma s d Hnth Hs) | ].
      apply reaches_here. cbn [flat_item length]. lia.
    - (* [n a] *)
      intros n a IHa toks pre post P sigma s Htoks HP.
      rewrite sem_item_loop, cost_item_loop, flat_item_none_len. cbn [sem_opt cost_opt].
      rewrite flat_item_none in Htoks.
      destruct (halted s) eqn:Hs.
      { eapply reaches_eq; [apply (reaches_halted toks _ _ _ 0); exact Hs | lia | | reflexivity].
        symmetry. apply (passes_halted St halted); [apply semM_halted | reflexivity | exact Hs]. }
      assert (Hnth : nth_error toks P = Some (LBegin n)).
      { replace toks with (pre ++ LBegin n :: (flatten a ++ [LEnd]) ++ post) by list_eq.
        apply nth_error_mid. exact HP. }
      eapply reaches_step'; [apply (mstep_begin toks P sigma s n Hnth Hs) | ].
      apply (loop_none_passes a IHa toks pre post n P sigma Htoks HP);
        [reflexivity | cbn [count index]; unfold count1; lia | unfold count1; lia].
    - (* [n a : b] *)
      intros n a b IHa IHb toks pre post P sigma s Htoks HP.
      rewrite sem_item_loop, cost_item_loop, flat_item_some_len. cbn [sem_opt cost_opt].
      rewrite flat_item_some in Htoks.
      destruct (halted s) eqn:Hs.
      { eapply reaches_eq; [apply (reaches_halted toks _ _ _ 0); exact Hs | lia | | reflexivity].
        symmetry. apply (passes_halted St halted); [apply semM_halted | apply semM_halted | exact Hs]. }
      assert (Hnth : nth_error toks P = Some (LBegin n)).
      { replace toks with (pre ++ LBegin n :: (flatten a ++ [LBreak] ++ flatten b ++ [LEnd]) ++ post)
          by list_eq.
        apply nth_error_mid. exact HP. }
      eapply reaches_step'; [apply (mstep_begin toks P sigma s n Hnth Hs) | ].
      apply (loop_some_passes a b IHa IHb toks pre post n P sigma _ Htoks HP eq_refl);
        [reflexivity | left; reflexivity | cbn [count index]; unfold count1; lia | unfold count1; lia].
    - (* empty program *)
      intros toks pre post P sigma s _ _. apply reaches_here. cbn [flatten length]. lia.
    - (* item ; program *)
      intros i p IHi IHp toks pre post P sigma s Htoks HP.
      rewrite sem_cons, cost_cons, flatten_cons.
      rewrite flatten_cons in Htoks.
      assert (Hi : reaches toks (Cfg P sigma s) (cost_itemM i s) (sem_itemM i s)
                           (P + length (flat_item i)) sigma).
      { apply (IHi toks pre (flatten p ++ post)); [list_eq | exact HP]. }
      apply (reaches_seq toks _ (cost_itemM i s) (costM p (sem_itemM i s))
                         _ (sem_itemM i s) _ (P + length (flat_item i)) _ sigma _ Hi).
      + intros _.
        eapply reaches_eq;
          [apply (IHp toks (pre ++ flat_item i) post); [list_eq | rewrite app_length; lia]
          | lia | reflexivity | rewrite app_length; lia].
      + intros Hh. apply semM_halted. exact Hh.
      + lia.
  Qed.

  (* the machine on a whole flattened program, with an explicit sufficient fuel *)
  Theorem run_flat_total (p : prog D) (s : St) (fuel : nat) :
    costM p s < fuel -> runM fuel (flatten p) s = Some (semM p s).
  Proof.
    intros Hf.
    destruct (proj2 segment p (flatten p) [] [] 0 [] s) as (m & c' & Hs & Hm & Hst & Hd).
    { rewrite app_nil_r. reflexivity. }
    { reflexivity. }
    assert (Hnone : mstepM (flatten p) c' = None).
    { destruct Hd as [[Hp _]|Hh].
      - apply mstep_none_end. lia.
      - apply mstep_none_halted. rewrite Hst. exact Hh. }
    unfold run. rewrite (mrun_starn (flatten p) m _ c' Hs Hnone fuel) by lia.
    rewrite Hst. reflexivity.
  Qed.
End MachineFacts.

(* ------------------------------------------------------------------------------------------------ *)
(* 4. the theorems stated in props/C05.v                                                              *)

Section Theorems.
  Variable D : Type.
  Variable St : Type.
  Variable step : D -> St -> St.
  Variable halted : St -> bool.
  Variable count_of : Z -> St -> nat.

  (* segment form, hypothesis-free (a count of 0 is executed once: count1), for reuse by the block
     properties: a flattened program embedded anywhere in a token array, under any loop stack *)
  Theorem segment_total (p : prog D) (pre post : list (ltok D)) (sigma : list loop_item) (s : St) :
    exists m c',
      starn D St step halted count_of (pre ++ flatten p ++ post) m (mkCfg St (length pre) sigma s) c' /\
      m <= cost D St step halted (count1 count_of) p s /\
      st St c' = sem D St step halted (count1 count_of) p s /\
      ((pos St c' = length pre + length (flatten p) /\ stack St c' = sigma) \/
       halted (sem D St step halted (count1 count_of) p s) = true).
  Proof.
    exact (proj2 (segment D St step halted count_of) p _ pre post (length pre) sigma s eq_refl eq_refl).
  Qed.

  Theorem segment_pos (p : prog D) (pre post : list (ltok D)) (sigma : list loop_item) (s : St) :
    loops_pos D St count_of p ->
    exists m c',
      starn D St step halted count_of (pre ++ flatten p ++ post) m (mkCfg St (length pre) sigma s) c' /\
      m <= cost D St step halted count_of p s /\
      st St c' = sem D St step halted count_of p s /\
      ((pos St c' = length pre + length (flatten p) /\ stack St c' = sigma) \/
       halted (sem D St step halted count_of p s) = true).
  Proof.
    intros Hp. destruct (count1_invisible D St step halted count_of p Hp s) as [E1 E2].
    rewrite <- E1, <- E2. apply segment_total.
  Qed.

  Theorem flat_vs_structured_fuel (p : prog D) :
    loops_pos D St count_of p ->
    forall s fuel, cost D St step halted count_of p s < fuel ->
      run D St step halted count_of fuel (flatten p) s = Some (sem D St step halted count_of p s).
  Proof.
    intros Hp s fuel Hf.
    destruct (count1_invisible D St step halted count_of p Hp s) as [E1 E2].
    rewrite <- E1. apply run_flat_total. rewrite E2. exact Hf.
  Qed.

  Theorem flat_vs_structured (p : prog D) :
    loops_pos D St count_of p ->
    forall s, exists fuel,
      run D St step halted count_of fuel (flatten p) s = Some (sem D St step halted count_of p s).
  Proof.
    intros Hp s. exists (S (cost D St step halted count_of p s)).
    apply (flat_vs_structured_fuel p Hp). lia.
  Qed.

  (* the version with the hypothesis on the count function instead of on the program *)
  Lemma loops_pos_all : (forall n s, 1 <= count_of n s) -> forall p : prog D, loops_pos D St count_of p.
  Proof.
    intros Hall. unfold loops_pos.
    apply (item_prog_mutind D (fun i => counts_item (fun n => forall s, 1 <= count_of n s) i)
                            (fun p => counts (fun n => forall s, 1 <= count_of n s) p)).
    - intros d. exact I.
    - intros n a Ha. split; [intros s; apply Hall | split; [exact Ha | exact I]].
    - intros n a b Ha Hb. split; [intros s; apply Hall | split; [exact Ha | exact Hb]].
    - exact I.
    - intros i p Hi Hp. split; [exact Hi | exact Hp].
  Qed.
End Theorems.
