(* The dump reader against the writer: delta-time reader, TIME arithmetic, one line per item. *)
From Sakura.Model Require Import Base Event Writer Dump.
From Sakura.Spec Require Import SmfSpec TrackSpec DumpSpec.
From Sakura.Proofs Require Import VlqP WriterP.
From Coq Require Import Lia ZifyBool.
Open Scope Z_scope.
Ltac Zify.zify_post_hook ::= Z.div_mod_to_equations.

(* ---- bit operations of the reader as arithmetic ---- *)
Lemma land_shiftl_low v k c : 0 <= k -> 0 <= c < 2 ^ k -> Z.land (Z.shiftl v k) c = 0.
Proof.
  intros Hk Hc. apply Z.bits_inj'. intros m Hm. rewrite Z.land_spec, Z.bits_0.
  destruct (Z.lt_ge_cases m k) as [L|G].
  - rewrite Z.shiftl_spec_low by assumption. reflexivity.
  - destruct (Z.eq_dec c 0) as [->|Hn]; [rewrite Z.bits_0; apply andb_false_r|].
    rewrite (Z.bits_above_log2 c m); [apply andb_false_r | lia |].
    apply Z.log2_lt_pow2; [lia|]. eapply Z.lt_le_trans; [apply Hc|]. apply Z.pow_le_mono_r; lia.
Qed.

Lemma lor_shiftl_add v k c : 0 <= k -> 0 <= c < 2 ^ k -> Z.lor (Z.shiftl v k) c = v * 2 ^ k + c.
Proof.
  intros Hk Hc. pose proof (land_shiftl_low v k c Hk Hc) as H0.
  rewrite <- (Z.lxor_lor _ _ H0), <- (Z.add_nocarry_lxor _ _ H0).
  rewrite Z.shiftl_mul_pow2 by assumption. reflexivity.
Qed.

Lemma shl7_small v : 0 <= v < 2 ^ 57 -> shl7 v = Z.shiftl v 7.
Proof.
  intros H. unfold shl7. rewrite Z.shiftl_mul_pow2 by lia. apply Z.mod_small.
  change (2 ^ 7) with 128. change (2 ^ 64) with (2 ^ 57 * 128). lia.
Qed.

Lemma lor_shl7 v c : 0 <= v < 2 ^ 57 -> 0 <= c < 128 -> Z.lor (shl7 v) c = v * 128 + c.
Proof.
  intros Hv Hc. rewrite shl7_small by assumption.
  rewrite lor_shiftl_add by (change (2 ^ 7) with 128; lia). reflexivity.
Qed.

(* ---- array_readl_delta_time inverts array_push_delta ---- *)
Lemma read_delta_hi f : forall v acc t, 0 <= v < 128 ^ Z.of_nat f -> 0 <= acc ->
  acc * 128 ^ Z.of_nat (length (delta_hi f v)) + v < 2 ^ 57 ->
  read_delta_acc acc (delta_hi f v ++ t)
  = read_delta_acc (acc * 128 ^ Z.of_nat (length (delta_hi f v)) + v) t.
Proof.
  induction f as [|f IH]; intros v acc t H Ha Hb.
  - cbn in H. assert (v = 0) by lia. subst. cbn. f_equal. lia.
  - rewrite delta_hi_S in *. destruct (v >? 0) eqn:E.
    + assert (Hq : 0 <= v / 128 < 128 ^ Z.of_nat f).
      { rewrite Nat2Z.inj_succ, Z.pow_succ_r in H by lia. split.
        - apply Z.div_pos; lia.
        - apply Z.div_lt_upper_bound; lia. }
      rewrite app_length in Hb. cbn [length] in Hb.
      rewrite Nat2Z.inj_add in Hb. change (Z.of_nat 1) with 1 in Hb. rewrite Z.pow_add_r in Hb by lia.
      change (128 ^ 1) with 128 in Hb.
      set (P := 128 ^ Z.of_nat (length (delta_hi f (v / 128)))) in *.
      assert (HP : 0 <= acc * P) by (apply Z.mul_nonneg_nonneg; [lia | unfold P; apply Z.pow_nonneg; lia]).
      pose proof (Z.mod_pos_bound v 128 ltac:(lia)) as Hm.
      pose proof (Z.div_mod v 128 ltac:(lia)) as Hdm.
      assert (Hb' : acc * P + v / 128 < 2 ^ 57).
      { change (2 ^ 57) with 144115188075855872 in *. nia. }
      rewrite <- app_assoc. rewrite (IH (v / 128) acc _ Hq Ha Hb'). fold P.
      cbn [app read_delta_acc].
      replace (128 + v mod 128 <? 128) with false by lia.
      f_equal. rewrite land_127.
      replace ((128 + v mod 128) mod 128) with (v mod 128) by lia.
      rewrite lor_shl7 by lia.
      rewrite app_length. cbn [length]. rewrite Nat2Z.inj_add. change (Z.of_nat 1) with 1.
      rewrite Z.pow_add_r by lia. change (128 ^ 1) with 128. fold P.
      set (q := v / 128) in *. set (m := v mod 128) in *. clearbody P q m. subst v. ring.
    + assert (v = 0) by lia. subst. cbn. f_equal. lia.
Qed.

Theorem read_delta_push_wide n r : 0 <= n < 2 ^ 56 -> read_delta (push_delta n ++ r) = (n, r).
Proof.
  intros H. rewrite push_delta_eq by lia. unfold read_delta.
  assert (Hq : 0 <= n / 128 < 128 ^ Z.of_nat 7).
  { split; [apply Z.div_pos; lia | apply Z.div_lt_upper_bound; cbn; lia]. }
  assert (Hq10 : 0 <= n / 128 < 128 ^ Z.of_nat 10).
  { split; [lia|]. eapply Z.lt_le_trans; [apply Hq|]. cbn. lia. }
  rewrite <- app_assoc.
  rewrite (read_delta_hi 10 (n / 128) 0 _ Hq10) by (cbn in Hq; lia).
  cbn [app read_delta_acc]. rewrite Z.mul_0_l, Z.add_0_l.
  pose proof (Z.mod_pos_bound n 128 ltac:(lia)) as Hm.
  replace (n mod 128 <? 128) with true by lia.
  rewrite lor_shl7 by (cbn in Hq; lia).
  f_equal. pose proof (Z.div_mod n 128 ltac:(lia)). lia.
Qed.

Theorem read_delta_push n r : 0 <= n < 2 ^ 28 -> read_delta (push_delta n ++ r) = (n, r).
Proof. intros H. apply read_delta_push_wide. lia. Qed.

(* ---- the TIME(m:b:t) arithmetic ---- *)
Theorem position_sound beat num t : 0 < beat -> 0 < num -> 0 <= t ->
  let '(m, b, k) := position beat num t in
  ((m - 1) * num + (b - 1)) * beat + k = t /\ 0 <= k < beat /\ 1 <= b <= num /\ 1 <= m.
Proof.
  intros Hb Hn Ht. unfold position.
  pose proof (Z.div_mod t beat ltac:(lia)) as E1.
  pose proof (Z.mod_pos_bound t beat Hb) as B1.
  pose proof (Z.div_mod (t / beat) num ltac:(lia)) as E2.
  pose proof (Z.mod_pos_bound (t / beat) num Hn) as B2.
  assert (0 <= t / beat) by (apply Z.div_pos; lia).
  assert (0 <= t / beat / num) by (apply Z.div_pos; lia).
  repeat split; lia.
Qed.

(* with the beat length of the dump: 4*timebase/deno (falling back to timebase when that is 0) *)
Theorem position_dump tb den num t : 0 < 4 * tb / den -> 0 < num -> 0 <= t ->
  let beat := 4 * tb / den in
  let '(m, b, k) := position (beat_base tb den) num t in
  ((m - 1) * num + (b - 1)) * beat + k = t /\ 0 <= k < beat /\ 1 <= b <= num.
Proof.
  intros Hb Hn Ht beat. unfold beat_base. fold beat.
  replace (beat =? 0) with false by (unfold beat; lia).
  pose proof (position_sound beat num t Hb Hn Ht) as P.
  destruct (position beat num t) as [[m b] k]. tauto.
Qed.

(* a position is determined by its tick: TIME(m:b:t) is listed as m:b:t *)
Theorem position_time_of beat num m b t : 0 < beat -> 0 < num -> 1 <= m -> 1 <= b <= num -> 0 <= t < beat ->
  position beat num (time_of beat num m b t) = (m, b, t).
Proof.
  intros Hb Hn Hm Hbb Ht. unfold position, time_of.
  replace ((m - 1) * (beat * num) + (b - 1) * beat + t) with (t + ((m - 1) * num + (b - 1)) * beat) by ring.
  rewrite Z.mod_add, Z.div_add by lia.
  rewrite (Z.mod_small t beat), (Z.div_small t beat) by lia.
  rewrite Z.add_0_l.
  replace ((m - 1) * num + (b - 1)) with ((b - 1) + (m - 1) * num) by ring.
  rewrite Z.mod_add, Z.div_add by lia.
  rewrite (Z.mod_small (b - 1) num), (Z.div_small (b - 1) num) by lia.
  f_equal. f_equal; lia.
Qed.

(* ================= one line per item ================= *)
Definition MP : printers := mkPrinters dec dec3 hex2 HEX2 decode_text.
Definition inf_of (s : Z * Z) (e : bool) : info := mkInfo (fst s) (snd s) e.
Definition eot_after (e : bool) (m : msg) : bool := if is_eot m then true else e.

Lemma land_240 b : 0 <= b < 256 -> Z.land b 240 = 16 * (b / 16).
Proof.
  intros H.
  assert (F : forallb (fun n => Z.land (Z.of_nat n) 240 =? 16 * (Z.of_nat n / 16)) (seq 0 256) = true)
    by (vm_compute; reflexivity).
  rewrite forallb_forall in F.
  specialize (F (Z.to_nat b)). rewrite Z2Nat.id in F by lia.
  apply Z.eqb_eq. apply F. apply in_seq. lia.
Qed.

Lemma note_eq k : 0 <= k -> note_no_dec k = note_label MP k.
Proof.
  intros H. unfold note_no_dec, note_label, note_name. cbn [p_dec MP].
  rewrite Z.quot_div_nonneg, Z.rem_mod_nonneg by lia. reflexivity.
Qed.

Ltac ifs :=
  repeat match goal with
  | |- context [if ?b then _ else _] =>
      first [ replace b with true by lia | replace b with false by lia ]
  end.

Lemma shiftr_7_land h l : 0 <= h <= 127 -> 0 <= l <= 127 ->
  Z.lor (Z.shiftl h 7) l = h * 128 + l.
Proof. intros. rewrite lor_shiftl_add by (change (2 ^ 7) with 128; lia). reflexivity. Qed.

(* channel messages *)
Lemma dump_event_chan tb m r s e :
  match m with MMeta _ _ | MSysEx _ | MEscape _ => False | _ => True end -> dump_msg_ok tb m ->
  dump_event (enc_msg m ++ r) (inf_of s e) = Ok (show_msg MP m, length (enc_msg m), inf_of s e).
Proof.
  intros Hk Hok. destruct m; try contradiction; cbn [dump_msg_ok] in Hok; unfold chan_ok, seven in Hok;
    unfold dump_event; cbn [enc_msg app byte_at nth_error bind length];
    rewrite land_240 by lia.
  - replace ((128 + ch) / 16) with 8 by lia. ifs. cbn [show_msg p_hex p_dec MP]. rewrite note_eq by lia. reflexivity.
  - replace ((144 + ch) / 16) with 9 by lia. ifs. cbn [show_msg p_hex p_dec MP]. rewrite note_eq by lia. reflexivity.
  - replace ((160 + ch) / 16) with 10 by lia. ifs. reflexivity.
  - replace ((176 + ch) / 16) with 11 by lia. ifs. reflexivity.
  - replace ((192 + ch) / 16) with 12 by lia. ifs. reflexivity.
  - replace ((208 + ch) / 16) with 13 by lia. ifs. reflexivity.
  - replace ((224 + ch) / 16) with 14 by lia. ifs.
    rewrite shiftr_7_land by lia.
    replace (msb * 128 + lsb - 8192 + 8192) with (msb * 128 + lsb) by lia.
    rewrite shiftr_7, land_127. replace (((msb * 128 + lsb) / 128) mod 128) with msb by lia.
    reflexivity.
Qed.

(* meta events: FF type len payload, one length byte *)
Lemma firstn_app_exact {A} (p r : list A) : firstn (length p) (p ++ r) = p.
Proof. rewrite firstn_app, Nat.sub_diag, firstn_all. cbn. apply app_nil_r. Qed.
Lemma skipn_app_exact {A} (p r : list A) : skipn (length p) (p ++ r) = r.
Proof. rewrite skipn_app, Nat.sub_diag, skipn_all. reflexivity. Qed.

Lemma read_str_app p r : read_str (p ++ r) (zlen p) = Ok (decode_text p).
Proof.
  unfold read_str, zlen. rewrite app_length, Nat2Z.inj_add.
  replace (Z.of_nat (length p) + Z.of_nat (length r) <? Z.of_nat (length p)) with false by lia.
  rewrite Nat2Z.id, firstn_app_exact. reflexivity.
Qed.

Lemma mpq_eq a b c : is_byte a -> is_byte b -> is_byte c ->
  Z.lor (Z.lor (Z.shiftl a 16) (Z.shiftl b 8)) c = (a * 256 + b) * 256 + c.
Proof.
  unfold is_byte. intros Ha Hb Hc.
  replace (Z.shiftl a 16) with (Z.shiftl (Z.shiftl a 8) 8) by (rewrite Z.shiftl_shiftl by lia; reflexivity).
  rewrite <- Z.shiftl_lor.
  rewrite (lor_shiftl_add a 8 b) by (change (2 ^ 8) with 256; lia).
  rewrite lor_shiftl_add by (change (2 ^ 8) with 256; lia).
  reflexivity.
Qed.

Lemma enc_meta_small ty p : zlen p < 128 -> enc_msg (MMeta ty p) = 255 :: ty :: zlen p :: p.
Proof. intros H. cbn [enc_msg]. rewrite push_delta_small by (unfold zlen in *; lia). reflexivity. Qed.

Lemma dump_event_meta_ok tb ty p r s e : dump_msg_ok tb (MMeta ty p) ->
  dump_event (enc_msg (MMeta ty p) ++ r) (inf_of s e)
  = Ok (show_msg MP (MMeta ty p), length (enc_msg (MMeta ty p)), inf_of (sig_after s (MMeta ty p)) e).
Proof.
  cbn [dump_msg_ok]. unfold seven. intros (Hty & H47 & Hlen & Hb & H81 & H88).
  fold (zlen p) in Hlen. rewrite enc_meta_small by assumption.
  assert (Hadv : Z.to_nat (3 + zlen p) = length (255 :: ty :: zlen p :: p))
    by (unfold zlen; cbn [length]; lia).
  unfold dump_event. cbn [app byte_at nth_error bind].
  change (Z.land 255 240) with 240. cbn [Z.eqb Pos.eqb].
  unfold dump_event_meta. cbn [byte_at nth_error bind]. cbn [Z.eqb Pos.eqb].
  cbn [show_msg sig_after].
  replace (ty =? 47) with false by lia.
  destruct (ty =? 81) eqn:E81.
  - destruct (H81 ltac:(lia)) as (a & b & c & ->).
    inversion Hb as [|? ? Ha Hb1]; subst. inversion Hb1 as [|? ? Hb' Hb2]; subst. inversion Hb2 as [|? ? Hc _]; subst.
    cbn [app byte_at nth_error bind]. rewrite mpq_eq by assumption.
    replace (ty =? 88) with false by lia.
    rewrite Hadv. unfold is_byte in *.
    destruct ((a * 256 + b) * 256 + c =? 0) eqn:E0.
    + reflexivity.
    + rewrite Z.quot_div_nonneg by lia. reflexivity.
  - destruct (ty =? 88) eqn:E88.
    + destruct (H88 ltac:(lia)) as (nn & dd & r' & -> & Hnn & Hdd & _).
      inversion Hb as [|? ? Ha Hb1]; subst. inversion Hb1 as [|? ? Hb' Hb2]; subst.
      cbn [app byte_at nth_error bind]. unfold is_byte in *.
      replace (dd >=? 64) with false by lia.
      rewrite Hadv. reflexivity.
    + cbn [skipn app]. rewrite read_str_app. cbn [bind]. rewrite Hadv. reflexivity.
Qed.

(* End-of-Track *)
Lemma dump_event_eot r s e :
  dump_event (enc_msg (MMeta 47 []) ++ r) (inf_of s e) = Ok (show_msg MP (MMeta 47 []), 3%nat, inf_of s true).
Proof. reflexivity. Qed.

(* SysEx: F0 len payload, payload 7-bit and closed by F7 *)
Lemma sysex_scan_body body : forall i r, Forall seven body ->
  sysex_scan (body ++ 247 :: r) (S (S i)) = (sysex_bytes MP (body ++ [247]), S (length body)).
Proof.
  induction body as [|b body IH]; intros i r H.
  - reflexivity.
  - inversion H as [|? ? Hb Hr]; subst. unfold seven in Hb.
    cbn [app sysex_scan]. replace (b =? 247) with false by lia.
    rewrite (IH (S i) r Hr). cbn [length]. f_equal.
    unfold sysex_bytes. cbn [flat_map p_HEX MP]. replace (b =? 247) with false by lia. reflexivity.
Qed.

Lemma dump_event_sysex tb p r s e : dump_msg_ok tb (MSysEx p) ->
  dump_event (enc_msg (MSysEx p) ++ r) (inf_of s e)
  = Ok (show_msg MP (MSysEx p), length (enc_msg (MSysEx p)), inf_of s e).
Proof.
  cbn [dump_msg_ok]. intros (Hlen & body & -> & Hbody).
  fold (zlen (body ++ [247])) in *.
  cbn [enc_msg]. rewrite push_delta_small by (unfold zlen in *; lia).
  destruct body as [|b0 body].
  - reflexivity.
  - inversion Hbody as [|? ? Hb0 Hr]; subst. unfold seven in Hb0.
    unfold dump_event. cbn [app byte_at nth_error bind].
    change (Z.land 240 240) with 240. cbn [Z.eqb Pos.eqb].
    unfold dump_event_meta. cbn [byte_at nth_error bind]. cbn [Z.eqb Pos.eqb].
    cbn [sysex_scan]. change (240 =? 247) with false. cbv iota.
    replace (b0 =? 247) with false by lia.
    rewrite <- app_assoc. cbn [app] in *.
    assert (HL : (zlen (b0 :: body ++ [247]) =? 247) = false) by lia.
    rewrite HL. rewrite (sysex_scan_body body 1%nat r Hr). cbv beta iota zeta.
    cbn [show_msg p_HEX MP]. unfold sysex_bytes at 2. cbn [app flat_map p_HEX MP].
    replace (b0 =? 247) with false by lia.
    f_equal. apply f_equal2; [apply f_equal2|reflexivity].
    + rewrite <- !app_assoc. reflexivity.
    + unfold zlen. cbn [length]. rewrite !app_length. cbn [length]. lia.
Qed.

Definition loop_msg_ok (tb : Z) (m : msg) : Prop := dump_msg_ok tb m \/ m = MMeta 47 [].

Lemma dump_event_enc tb m r s e : loop_msg_ok tb m ->
  dump_event (enc_msg m ++ r) (inf_of s e)
  = Ok (show_msg MP m, length (enc_msg m), inf_of (sig_after s m) (eot_after e m)).
Proof.
  intros [H| ->].
  - destruct m.
    1-7: rewrite (dump_event_chan tb) by (exact I || exact H); reflexivity.
    + rewrite (dump_event_meta_ok tb) by exact H. unfold eot_after. rewrite is_eot_meta.
      cbn [dump_msg_ok] in H. replace (ty =? 47) with false by lia. reflexivity.
    + rewrite (dump_event_sysex tb) by exact H. reflexivity.
    + destruct H.
  - apply dump_event_eot.
Qed.

(* the dump's position (tick, then beats, then measures) is the specification's (measure first) *)
Lemma position_eq tb num den t : 0 < num -> 0 < beat_ticks tb den -> 0 <= t ->
  position (beat_base tb den) num t = position_of tb num den t.
Proof.
  unfold beat_ticks. intros Hn Hb Ht. unfold position, position_of, beat_base, beat_ticks.
  set (beat := 4 * tb / den) in *. replace (beat =? 0) with false by lia.
  apply f_equal2; [apply f_equal2|reflexivity].
  - rewrite Z.div_div by lia. reflexivity.
  - rewrite Z.rem_mul_r by lia.
    rewrite (Z.mul_comm beat), Z.div_add by lia.
    rewrite (Z.div_small (t mod beat) beat) by (apply Z.mod_pos_bound; lia). reflexivity.
Qed.

Lemma time_prefix_eq m b k : time_prefix m b k = time_field MP (m, b, k).
Proof. reflexivity. Qed.

Lemma enc_item_length_pos it : (1 <= length (enc_item it))%nat.
Proof. unfold enc_item. rewrite app_length. pose proof (push_delta_nonempty (fst it)). lia. Qed.

(* one pass of the track loop over one encoded item *)
Lemma loop_step fuel tb s e pos end_pos t0 dt m rest :
  0 <= dt < 2 ^ 28 -> loop_msg_ok tb m -> sig_ok tb s -> 0 <= t0 -> t0 + dt < 2 ^ 64 ->
  (pos <? end_pos) || negb e = true ->
  track_loop (S fuel) tb (inf_of s e) pos end_pos t0 (enc_item (dt, m) ++ rest)
  = do more <- track_loop fuel tb (inf_of (sig_after s m) (eot_after e m))
                 (pos + zlen (enc_item (dt, m))) end_pos (t0 + dt) rest;
    let '(lines, inf2, pos2, rest2) := more in
    Ok ((time_field MP (position_of tb (fst s) (snd s) (t0 + dt)) ++ show_msg MP m) :: lines, inf2, pos2, rest2).
Proof.
  intros Hdt Hm (Hn & Hd & Hb) Ht0 Hov Hc.
  cbn [track_loop]. cbn [inf_of i_eot i_frac i_deno] in *. rewrite Hc.
  unfold enc_item. cbn [fst snd]. rewrite <- app_assoc.
  rewrite (read_delta_push dt _ Hdt).
  replace (t0 + dt >=? 2 ^ 64) with false by lia.
  assert (Hbb : beat_base tb (snd s) = beat_ticks tb (snd s)).
  { unfold beat_base, beat_ticks in *. replace (4 * tb / snd s =? 0) with false by lia. reflexivity. }
  replace (beat_base tb (snd s) =? 0) with false by lia.
  replace (fst s =? 0) with false by lia.
  rewrite position_eq by lia.
  destruct (position_of tb (fst s) (snd s) (t0 + dt)) as [[mm bb] kk].
  rewrite (dump_event_enc tb m rest s e Hm). cbn [bind].
  rewrite skipn_app_exact.
  replace (pos + (zlen (push_delta dt ++ enc_msg m ++ rest) - zlen (enc_msg m ++ rest)) + Z.of_nat (length (enc_msg m)))
    with (pos + zlen (push_delta dt ++ enc_msg m))
    by (unfold zlen; rewrite !app_length; lia).
  rewrite time_prefix_eq. reflexivity.
Qed.

Lemma total_delta_app a b : total_delta (a ++ b) = total_delta a + total_delta b.
Proof. induction a as [|[d m] a IH]; cbn [app total_delta]; lia. Qed.

Lemma sig_after_ok tb s m : sig_ok tb s -> loop_msg_ok tb m -> sig_ok tb (sig_after s m).
Proof.
  intros Hs [H| ->]; [|exact Hs].
  destruct m; try exact Hs. cbn [sig_after]. destruct (ty =? 88) eqn:E; [|exact Hs].
  cbn [dump_msg_ok] in H. destruct H as (_ & _ & _ & Hb & _ & H88).
  destruct (H88 ltac:(lia)) as (nn & dd & r' & -> & Hnn & Hdd & Hbeat).
  inversion Hb as [|? ? _ Hb1]; subst. inversion Hb1 as [|? ? Hdd0 _]; subst. unfold is_byte in Hdd0.
  unfold sig_ok. cbn [fst snd]. repeat split; try lia; try (apply Z.pow_pos_nonneg; lia).
Qed.

Lemma eot_after_item e m tb : dump_msg_ok tb m -> eot_after e m = e.
Proof.
  intros H. unfold eot_after. destruct m; try reflexivity.
  rewrite is_eot_meta. cbn [dump_msg_ok] in H. replace (ty =? 47) with false by lia. reflexivity.
Qed.

(* the whole track: items, then End-of-Track; anything may follow the chunk *)
Lemma track_loop_items tb : forall l fuel s e pos t0 after,
  Forall (dump_item_ok tb) l -> sig_ok tb s -> (length l + 2 <= fuel)%nat ->
  0 <= t0 -> t0 + total_delta l < 2 ^ 64 ->
  track_loop fuel tb (inf_of s e) pos (pos + zlen (enc_track l ++ EOT)) t0 (enc_track l ++ EOT ++ after)
  = let '(lines, s') := track_lines MP tb s t0 (l ++ [EOTmsg]) in
    Ok (lines, inf_of s' true, pos + zlen (enc_track l ++ EOT), after).
Proof.
  induction l as [|[dt m] l IH]; intros fuel s e pos t0 after Hok Hs Hf Ht0 Hov.
  - destruct fuel as [|[|f]]; [cbn in Hf; lia | cbn in Hf; lia|].
    change (enc_track [] ++ EOT ++ after) with (enc_item EOTmsg ++ after).
    change (enc_track [] ++ EOT) with (enc_item EOTmsg).
    unfold EOTmsg at 2.
    rewrite (loop_step (S f) tb s e pos _ t0 0 (MMeta 47 []) after); try lia; try assumption.
    + cbn [track_loop]. cbn [inf_of i_eot eot_after is_eot].
      replace (pos + zlen (enc_item (0, MMeta 47 [])) <? pos + zlen (enc_item EOTmsg)) with false
        by (unfold EOTmsg; lia).
      cbn [orb negb bind app track_lines sig_after]. cbn [Z.eqb Pos.eqb]. reflexivity.
    + right. reflexivity.
    + change (zlen (enc_item EOTmsg)) with 4. replace (pos <? pos + 4) with true by lia. reflexivity.
  - destruct fuel as [|f]; [cbn in Hf; lia|].
    inversion Hok as [|? ? [Hdt Hm] Hl]; subst. cbn [fst snd] in Hdt, Hm.
    cbn [total_delta] in Hov.
    assert (Htd : 0 <= total_delta l).
    { clear - Hl. induction Hl as [|[d x] l [Hd _] _ IHl]; cbn [total_delta fst] in *; lia. }
    cbn [enc_track flat_map]. fold (enc_track l). rewrite <- !app_assoc.
    rewrite (loop_step f tb s e pos _ t0 dt m); try lia; try assumption.
    + rewrite (eot_after_item e m tb Hm).
      replace (pos + zlen (enc_item (dt, m) ++ enc_track l ++ EOT))
        with ((pos + zlen (enc_item (dt, m))) + zlen (enc_track l ++ EOT))
        by (unfold zlen; rewrite !app_length; lia).
      rewrite IH; try assumption; try lia.
      * cbn [app track_lines].
        destruct (track_lines MP tb (sig_after s m) (t0 + dt) (l ++ [EOTmsg])) as [ls s'].
        cbn [bind]. reflexivity.
      * apply (sig_after_ok tb); [assumption | left; assumption].
      * cbn [length] in Hf. lia.
    + left. assumption.
    + pose proof (enc_item_length_pos (dt, m)).
      replace (pos <? pos + zlen (enc_item (dt, m) ++ enc_track l ++ EOT)) with true
        by (unfold zlen; rewrite app_length; lia).
      reflexivity.
Qed.

(* ================= the whole file ================= *)
Definition chunk (l : list (Z * msg)) : list Z :=
  MTrk ++ push_u32 (zlen (enc_track l ++ EOT)) ++ (enc_track l ++ EOT).
Definition smf_file (tb : Z) (tracks : list (list (Z * msg))) : list Z :=
  MThd ++ push_u32 6 ++ push_u16 1 ++ push_u16 (zlen tracks) ++ push_u16 tb ++ flat_map chunk tracks.
Definition track_ok (tb : Z) (l : list (Z * msg)) : Prop :=
  Forall (dump_item_ok tb) l /\ total_delta l < 2 ^ 64 /\ zlen (enc_track l ++ EOT) < 2 ^ 32.

Lemma lor_shiftl_8 v b : 0 <= b < 256 -> Z.lor (Z.shiftl v 8) b = v * 256 + b.
Proof. intros. rewrite lor_shiftl_add by (change (2 ^ 8) with 256; lia). reflexivity. Qed.

Lemma read_u32_push v r : 0 <= v < 2 ^ 32 -> read_u32 (push_u32 v ++ r) = v.
Proof.
  intros H. destruct (push_u32_be v H) as (a & b & c & d & -> & Ha & Hb & Hc & Hd & E).
  unfold read_u32, read_be. cbn [app firstn fold_left].
  rewrite !lor_shiftl_8 by lia. unfold be32 in E. lia.
Qed.

Lemma read_u16_push v r : 0 <= v < 65536 -> read_u16 (push_u16 v ++ r) = v.
Proof.
  intros H. destruct (push_u16_be v H) as (a & b & -> & Ha & Hb & E).
  unfold read_u16, read_be. cbn [app firstn fold_left].
  rewrite !lor_shiftl_8 by lia. unfold be16 in E. lia.
Qed.

Lemma push_u32_length v : length (push_u32 v) = 4%nat.
Proof. reflexivity. Qed.
Lemma push_u16_length v : length (push_u16 v) = 2%nat.
Proof. reflexivity. Qed.

Lemma read_str_tag tag r : length tag = 4%nat -> read_str (tag ++ r) 4 = Ok (decode_text tag).
Proof.
  intros H. change 4 with (Z.of_nat 4). rewrite <- H. apply read_str_app.
Qed.

Lemma chunk_length l : (length l + 12 <= length (chunk l))%nat.
Proof.
  unfold chunk. rewrite !app_length, push_u32_length. pose proof (enc_track_length l). cbn [length MTrk EOT]. lia.
Qed.

Lemma track_lines_sig_ok tb l : forall t0 s, Forall (dump_item_ok tb) l -> sig_ok tb s ->
  sig_ok tb (snd (track_lines MP tb s t0 (l ++ [EOTmsg]))).
Proof.
  induction l as [|[d m] l IH]; intros t0 s Hl Hs.
  - exact Hs.
  - inversion Hl as [|? ? [_ Hm] Hl']; subst. cbn [snd] in Hm.
    cbn [app track_lines].
    pose proof (IH (t0 + d) (sig_after s m) Hl' (sig_after_ok tb s m Hs (or_introl Hm))) as Q.
    destruct (track_lines MP tb (sig_after s m) (t0 + d) (l ++ [EOTmsg])) as [ls2 s2].
    exact Q.
Qed.

Lemma chunk_split l x :
  chunk l ++ x = MTrk ++ push_u32 (zlen (enc_track l ++ EOT)) ++ enc_track l ++ EOT ++ x.
Proof. unfold chunk. rewrite <- !app_assoc. reflexivity. Qed.

Lemma tracks_loop_chunks tb : forall tracks no s pos fuel,
  Forall (track_ok tb) tracks -> sig_ok tb s -> (length (flat_map chunk tracks) <= fuel)%nat ->
  tracks_loop (length tracks) no fuel tb (inf_of s false) pos (flat_map chunk tracks)
  = Ok (file_lines MP tb s no (map (fun l => l ++ [EOTmsg]) tracks)).
Proof.
  induction tracks as [|l tracks IH]; intros no s pos fuel Hok Hs Hf; [reflexivity|].
  inversion Hok as [|? ? (Hit & Hov & Hsz) Hrest]; subst.
  cbn [length tracks_loop flat_map map file_lines].
  cbn [flat_map] in Hf. rewrite app_length in Hf. pose proof (chunk_length l) as HL.
  rewrite (chunk_split l (flat_map chunk tracks)).
  rewrite (read_str_tag MTrk) by reflexivity. cbn [bind].
  change (list_eqb (decode_text MTrk) s_mtrk) with true. cbn [negb].
  change (skipn 4 (MTrk ++ ?x)) with x.
  assert (Hz : 0 <= zlen (enc_track l ++ EOT)) by (unfold zlen; lia).
  rewrite read_u32_push by lia.
  replace (skipn 8 (MTrk ++ push_u32 (zlen (enc_track l ++ EOT)) ++ enc_track l ++ EOT ++ flat_map chunk tracks))
    with (enc_track l ++ EOT ++ flat_map chunk tracks) by reflexivity.
  rewrite (track_loop_items tb l fuel s false (pos + 8) 0 (flat_map chunk tracks)); try assumption; try lia.
  destruct (track_lines MP tb s 0 (l ++ [EOTmsg])) as [ls s'] eqn:ETL.
  cbn [bind inf_of i_frac i_deno].
  assert (Hs' : sig_ok tb s').
  { pose proof (track_lines_sig_ok tb l 0 s Hit Hs) as Q. rewrite ETL in Q. exact Q. }
  change (mkInfo (fst s') (snd s') false) with (inf_of s' false).
  rewrite (IH (no + 1) s' _ fuel Hrest Hs') by lia.
  cbn [bind]. reflexivity.
Qed.

Theorem dump_smf_file tb tracks : 0 < tb < 65536 -> zlen tracks < 65536 -> Forall (track_ok tb) tracks ->
  dump_midi (smf_file tb tracks)
  = Ok (file_header MP (zlen tracks) tb ++ file_lines MP tb (4, 4) 0 (map (fun l => l ++ [EOTmsg]) tracks)).
Proof.
  intros Htb Hn Hok. unfold dump_midi, smf_file.
  rewrite (read_str_tag MThd) by reflexivity. cbn [bind].
  change (list_eqb (decode_text MThd) s_mthd) with true. cbn [negb].
  change (skipn 4 (MThd ++ ?x)) with x.
  rewrite read_u32_push by lia. cbn [Z.eqb Pos.eqb negb].
  assert (Hz : 0 <= zlen tracks) by (unfold zlen; lia).
  change (skipn 8 (MThd ++ push_u32 6 ++ ?x)) with x.
  rewrite read_u16_push by lia. change (1 >? 3) with false. cbv iota.
  change (skipn 10 (MThd ++ push_u32 6 ++ push_u16 1 ++ ?x)) with x.
  rewrite read_u16_push by lia.
  change (skipn 12 (MThd ++ push_u32 6 ++ push_u16 1 ++ push_u16 (zlen tracks) ++ ?x)) with x.
  rewrite read_u16_push by lia.
  change (skipn 14 (MThd ++ push_u32 6 ++ push_u16 1 ++ push_u16 (zlen tracks) ++ push_u16 tb ++ ?x)) with x.
  unfold zlen at 1. rewrite Nat2Z.id.
  change info_new with (inf_of (4, 4) false).
  rewrite (tracks_loop_chunks tb tracks 0 (4, 4) 14).
  - cbn [bind]. reflexivity.
  - assumption.
  - unfold sig_ok, beat_ticks. cbn [fst snd]. lia.
  - rewrite !app_length. lia.
Qed.

(* ---- the writer's output has this shape (C02: write_events_wire) ---- *)
Lemma write_tracks_wire tracks : Forall (fun evs => forallb event_ok evs = true) tracks ->
  write_tracks tracks = Ok (flat_map chunk (map (wire 0) tracks)).
Proof.
  induction tracks as [|evs tracks IH]; intros H; [reflexivity|].
  inversion H as [|? ? He Hr]; subst.
  cbn [write_tracks map flat_map]. unfold generate_track. rewrite (write_events_wire evs 0 He).
  cbn [bind]. rewrite (IH Hr). cbn [bind]. unfold chunk. rewrite <- !app_assoc. reflexivity.
Qed.

Lemma generate_sorted_shape tb tracks : Forall (fun evs => forallb event_ok evs = true) tracks ->
  generate_sorted tb tracks = Ok (smf_file tb (map (wire 0) tracks)).
Proof.
  intros H. unfold generate_sorted. rewrite (write_tracks_wire tracks H). cbn [bind].
  unfold smf_file, zlen. rewrite map_length. reflexivity.
Qed.

Lemma chunk_le_file tb tracks l : In l tracks -> (length (chunk l) <= length (smf_file tb tracks))%nat.
Proof.
  intros Hin. unfold smf_file. rewrite !app_length.
  assert (length (chunk l) <= length (flat_map chunk tracks))%nat; [|lia].
  induction tracks as [|x tracks IH]; [destruct Hin|].
  cbn [flat_map]. rewrite app_length. destruct Hin as [->|Hin]; [lia|]. specialize (IH Hin). lia.
Qed.

Theorem dump_generate tb tracks bin : 0 < tb < 65536 -> zlen tracks < 65536 ->
  Forall (fun evs => forallb event_ok evs = true) tracks ->
  Forall (fun evs => Forall (dump_item_ok tb) (wire 0 evs) /\ total_delta (wire 0 evs) < 2 ^ 64) tracks ->
  generate_sorted tb tracks = Ok bin -> zlen bin < 2 ^ 32 ->
  dump_midi bin
  = Ok (file_header MP (zlen tracks) tb
        ++ file_lines MP tb (4, 4) 0 (map (fun evs => wire 0 evs ++ [EOTmsg]) tracks)).
Proof.
  intros Htb Hn Hev Hit Hgen Hsz.
  rewrite (generate_sorted_shape tb tracks Hev) in Hgen. inversion Hgen; subst bin. clear Hgen.
  rewrite dump_smf_file.
  - unfold zlen. rewrite map_length, map_map. reflexivity.
  - assumption.
  - unfold zlen in *. rewrite map_length. assumption.
  - apply Forall_forall. intros l Hin.
    pose proof (chunk_le_file tb _ l Hin) as HL.
    apply in_map_iff in Hin. destruct Hin as (evs & <- & Hin).
    rewrite Forall_forall in Hit. destruct (Hit evs Hin) as [H1 H2].
    split; [assumption|]. split; [assumption|].
    unfold chunk in HL. rewrite !app_length in HL. unfold zlen in *. rewrite app_length. lia.
Qed.

(* the statement of the track theorem with the fuel bound of dump_midi (the length of the file) *)
Theorem track_loop_lines tb l fuel s e pos t0 after :
  Forall (dump_item_ok tb) l -> sig_ok tb s -> (length (enc_track l ++ EOT) <= fuel)%nat ->
  0 <= t0 -> t0 + total_delta l < 2 ^ 64 ->
  track_loop fuel tb (mkInfo (fst s) (snd s) e) pos (pos + zlen (enc_track l ++ EOT)) t0 (enc_track l ++ EOT ++ after)
  = let '(lines, s') := track_lines (mkPrinters dec dec3 hex2 HEX2 decode_text) tb s t0 (l ++ [EOTmsg]) in
    Ok (lines, mkInfo (fst s') (snd s') true, pos + zlen (enc_track l ++ EOT), after).
Proof.
  intros Hl Hs Hf Ht Hov. apply (track_loop_items tb l fuel s e pos t0 after); try assumption.
  rewrite app_length in Hf. pose proof (enc_track_length l). cbn [length EOT] in Hf. lia.
Qed.

(* ---- the number printers mean what `{}`, `{:03}`, `{:02x}`, `{:02X}` mean ---- *)
Definition digits_value (base : Z) (digit_of : Z -> Z) (ds : list Z) : Z :=
  fold_left (fun acc c => acc * base + digit_of c) ds 0.
Definition dec_digit (c : Z) : Z := c - 48.

Lemma fold_digits_app base (f : Z -> Z) a b acc :
  fold_left (fun acc c => acc * base + f c) (a ++ b) acc
  = fold_left (fun acc c => acc * base + f c) b (fold_left (fun acc c => acc * base + f c) a acc).
Proof. apply fold_left_app. Qed.

Lemma dec_fuel_value f : forall n, 0 <= n < 10 ^ (Z.of_nat f + 1) ->
  digits_value 10 dec_digit (dec_fuel f n) = n /\ Forall (fun c => 48 <= c <= 57) (dec_fuel f n).
Proof.
  unfold digits_value, dec_digit.
  induction f as [|f IH]; intros n H.
  - cbn in H. cbn [dec_fuel fold_left]. split; [lia | repeat constructor; lia].
  - cbn [dec_fuel]. destruct (n <? 10) eqn:E.
    + cbn [fold_left]. split; [lia | repeat constructor; lia].
    + assert (Hq : 0 <= n / 10 < 10 ^ (Z.of_nat f + 1)).
      { rewrite Nat2Z.inj_succ in H. replace (Z.succ (Z.of_nat f) + 1) with (Z.succ (Z.of_nat f + 1)) in H by lia.
        rewrite Z.pow_succ_r in H by lia. split; [apply Z.div_pos; lia | apply Z.div_lt_upper_bound; lia]. }
      destruct (IH (n / 10) Hq) as [V D]. rewrite fold_digits_app, V. cbn [fold_left].
      split; [lia|]. apply Forall_app. split; [assumption | repeat constructor; lia].
Qed.

Theorem dec_nat_value n : 0 <= n ->
  digits_value 10 dec_digit (dec_nat n) = n /\ Forall (fun c => 48 <= c <= 57) (dec_nat n).
Proof.
  intros H. unfold dec_nat. apply dec_fuel_value. rewrite Z2Nat.id by apply Z.log2_nonneg.
  destruct (Z.eq_dec n 0) as [->|Hn]; [cbn; lia|].
  destruct (Z.log2_spec n ltac:(lia)) as [_ Hlt]. split; [lia|].
  eapply Z.lt_le_trans; [exact Hlt|]. unfold Z.succ.
  apply Z.pow_le_mono_l. pose proof (Z.log2_nonneg n). lia.
Qed.

Definition hex_digit_value (c : Z) : Z := if c <? 58 then c - 48 else if c <? 71 then c - 55 else c - 87.
Theorem hex2_value b : 0 <= b <= 255 ->
  digits_value 16 hex_digit_value (hex2 b) = b /\ digits_value 16 hex_digit_value (HEX2 b) = b /\
  length (hex2 b) = 2%nat /\ length (HEX2 b) = 2%nat.
Proof.
  intros H.
  assert (F : forallb (fun n => (digits_value 16 hex_digit_value (hex2 (Z.of_nat n)) =? Z.of_nat n)
                                && (digits_value 16 hex_digit_value (HEX2 (Z.of_nat n)) =? Z.of_nat n)) (seq 0 256) = true)
    by (vm_compute; reflexivity).
  rewrite forallb_forall in F.
  specialize (F (Z.to_nat b)). rewrite Z2Nat.id in F by lia.
  assert (In (Z.to_nat b) (seq 0 256)) as Hin by (apply in_seq; lia).
  specialize (F Hin). apply andb_prop in F. destruct F as [F1 F2].
  repeat split; try reflexivity; apply Z.eqb_eq; assumption.
Qed.

Theorem dec3_spec n : 0 <= n ->
  digits_value 10 dec_digit (dec3 n) = n /\ (3 <= length (dec3 n))%nat /\ (1000 <= n -> dec3 n = dec_nat n).
Proof.
  intros H. destruct (dec_nat_value n H) as [V D]. unfold dec3, pad3.
  split; [|split].
  - unfold digits_value in *. rewrite fold_digits_app.
    assert (Z0 : forall k, fold_left (fun acc c => acc * 10 + dec_digit c) (repeat 48 k) 0 = 0).
    { induction k as [|k IHk]; [reflexivity|]. cbn [repeat fold_left]. exact IHk. }
    rewrite Z0. exact V.
  - rewrite app_length, repeat_length. lia.
  - intros Hn.
    assert (3 < length (dec_nat n))%nat; [|replace (3 - length (dec_nat n))%nat with O by lia; reflexivity].
    (* four digits at least: the value of at most three digits is below 1000 *)
    destruct (dec_nat n) as [|a [|b [|c [|d r]]]] eqn:E; cbn [length]; try lia; exfalso;
      unfold digits_value, dec_digit in V; cbn [fold_left] in V;
      repeat match goal with H : Forall _ (_ :: _) |- _ => inversion H; clear H; subst end; lia.
Qed.
