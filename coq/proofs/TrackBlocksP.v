(* C12 - blocks of different tracks commute, for blocks that are balanced token lists with loops, Sub and tuplet blocks whose
   leaves are track-local.  The run of such a block is a transformer of `res song` with four properties (localT): it passes
   errors on, changes no track but the current one (frame), does the same whatever the other tracks are (indep), and cannot
   tell apart two states that differ only in the dead registers - the start tick of the last chord while no chord is open,
   and the line number (norm).  These are closed under composition, loops (LoopSpec.passes) and the Sub / tuplet arms, so they
   hold of exec_f on every such block (by induction on the nesting); the commutation follows as for C12_commute_partial. *)
From Coq Require Import String.
From Sakura.Model Require Import Base Cursor Length Event Song Token LoopMachine LexCore RunCore RunRsv.
From Sakura.Spec Require Import LoopSpec.
From Sakura.Proofs Require Import LoopP BlockP ExtP TrackIndepP LoopParseP LoopExecP.
From Coq Require Import Lia.
Open Scope list_scope.
Open Scope Z_scope.

(* ---- the dead registers: harmony_time while no chord is open (hnorm), and the line number ---- *)
Definition lnorm (s : song) : song := s_set_lineno s 0.
Definition gnorm (s : song) : song := lnorm (hnorm s).
Definition gnorm_res (r : res song) : res song :=
  match r with Ok s => Ok (gnorm s) | Panic x => Panic x | OutOfFuel => OutOfFuel | Unsupported w => Unsupported w end.
Definition lnorm_res (r : res song) : res song :=
  match r with Ok s => Ok (lnorm s) | Panic x => Panic x | OutOfFuel => OutOfFuel | Unsupported w => Unsupported w end.

Lemma gnorm_res_eq r : gnorm_res r = lnorm_res (hnorm_res r).
Proof. destruct r; reflexivity. Qed.
Lemma lnorm_hnorm s : lnorm (hnorm s) = hnorm (lnorm s).
Proof. unfold hnorm, lnorm. cbn [s_harmony_flag s_set_lineno]. destruct (s_harmony_flag s); reflexivity. Qed.
Lemma lnorm_hnorm_res r : lnorm_res (hnorm_res r) = hnorm_res (lnorm_res r).
Proof. destruct r; cbn [lnorm_res hnorm_res]; try reflexivity. rewrite lnorm_hnorm. reflexivity. Qed.
Lemma gnorm_tracks s : s_tracks (gnorm s) = s_tracks s.
Proof. unfold gnorm, lnorm. cbn [s_tracks s_set_lineno]. apply hnorm_tracks. Qed.
Lemma gnorm_cur s : s_cur (gnorm s) = s_cur s.
Proof. unfold gnorm, lnorm. cbn [s_cur s_set_lineno]. apply hnorm_cur. Qed.
Lemma gnorm_octave_once s : s_octave_once (gnorm s) = s_octave_once s.
Proof. unfold gnorm, lnorm. cbn [s_octave_once s_set_lineno]. apply hnorm_octave_once. Qed.
Lemma gnorm_idem s : gnorm (gnorm s) = gnorm s.
Proof. unfold gnorm. rewrite <- (lnorm_hnorm (hnorm s)), hnorm_idem. reflexivity. Qed.

(* the tokens at the leaves of a block: track-local ones and the line-number token that opens every lexed block *)
Definition leaf_local (t : tok) : bool := track_local t || match t with TLineNo _ => true | _ => false end.

(* no such token reads the line number *)
Ltac song_cbn :=
  cbv beta iota delta [lnorm s_tracks s_cur s_timebase s_key_flag s_key_shift s_use_key_shift s_v_add s_q_add s_harmony_flag s_harmony_time
       s_harmony_events s_octave_once s_break_flag s_tempo s_timesig_frac s_timesig_deno s_measure_shift s_play_from s_lineno
       s_logs s_vars s_rhythm s_rand_seed s_device s_set_device
       s_set_adds s_set_break_flag s_set_cur s_set_harmony s_set_harmony_events s_set_harmony_flag s_set_harmony_time
       s_set_key_flag s_set_key_shift s_set_lineno s_set_logs s_set_measure_shift s_set_octave_once s_set_play_from s_set_q_add
       s_set_rand_seed s_set_rhythm s_set_tempo s_set_time s_set_timebase s_set_timesig_deno s_set_timesig_frac s_set_tracks
       s_set_use_key_shift s_set_v_add s_set_vars upd_cur cur_track] in *.
Ltac same_ifs := repeat match goal with |- context [if ?c then _ else _] => destruct c end; try reflexivity.

Lemma emit_note_lnorm s ev nl b slur : lnorm_res (emit_note (lnorm s) ev nl b slur) = lnorm_res (emit_note s ev nl b slur).
Proof. unfold emit_note, lnorm_res, lnorm. destruct s as [a1 a2 a3 a4 a5 a6 a7 a8 a9 a10 a11 a12 a13 a14 a15 a16 a17 a18 a19 a20 a21 a22 a23]. song_cbn. destruct b; [|reflexivity]. destruct (a12 =? 0), a9, (slur >=? 1); song_cbn; same_ifs. Qed.
Lemma exec_note_lnorm s base flag natural len qlen vel timing oct slur :
  lnorm_res (exec_note (lnorm s) base flag natural len qlen vel timing oct slur) = lnorm_res (exec_note s base flag natural len qlen vel timing oct slur).
Proof.
  unfold exec_note, note_number, key_flag_at. change (cur_track (lnorm s)) with (cur_track s).
  change (s_use_key_shift (lnorm s)) with (s_use_key_shift s). change (s_key_flag (lnorm s)) with (s_key_flag s).
  change (s_key_shift (lnorm s)) with (s_key_shift s). change (s_rand_seed (lnorm s)) with (s_rand_seed s).
  change (s_timebase (lnorm s)) with (s_timebase s).
  destr_pairs.
  match goal with |- lnorm_res (emit_note (s_set_rand_seed (upd_cur (lnorm s) ?F) ?sd) _ _ _ _) = _ =>
    change (s_set_rand_seed (upd_cur (lnorm s) F) sd) with (lnorm (s_set_rand_seed (upd_cur s F) sd)) end.
  apply emit_note_lnorm.
Qed.
Lemma exec_note_n_lnorm s no len qlen vel timing slur :
  lnorm_res (exec_note_n (lnorm s) no len qlen vel timing slur) = lnorm_res (exec_note_n s no len qlen vel timing slur).
Proof.
  unfold exec_note_n. change (cur_track (lnorm s)) with (cur_track s).
  change (s_key_shift (lnorm s)) with (s_key_shift s). change (s_rand_seed (lnorm s)) with (s_rand_seed s).
  change (s_timebase (lnorm s)) with (s_timebase s).
  destr_pairs.
  match goal with |- lnorm_res (emit_note (s_set_rand_seed (upd_cur (lnorm s) ?F) ?sd) _ _ _ _) = _ =>
    change (s_set_rand_seed (upd_cur (lnorm s) F) sd) with (lnorm (s_set_rand_seed (upd_cur s F) sd)) end.
  apply emit_note_lnorm.
Qed.

Theorem step_lnorm ec t s : leaf_local t = true ->
  lnorm_res (step_song ec t (lnorm s)) = lnorm_res (step_song ec t s).
Proof.
  intros Ht. destruct t; cbn [leaf_local track_local orb] in Ht; try discriminate; cbn [step_song];
  first
  [ solve [apply exec_note_lnorm]
  | solve [apply exec_note_n_lnorm]
  | solve [unfold lnorm, lnorm_res, add_events, exec_rest, exec_harmony_end, exec_voice; destruct s as [a1 a2 a3 a4 a5 a6 a7 a8 a9 a10 a11 a12 a13 a14 a15 a16 a17 a18 a19 a20 a21 a22 a23]; song_cbn;
           repeat match goal with
                  | |- context [if ?b then _ else _] => destruct b
                  | |- context [match ?a with [] => _ | _ => _ end] => destruct a as [|a0 [|a1 ar]]
                  end; reflexivity]
  | solve [unfold lnorm_res, exec_voice; destruct args as [|x [|y r]]; destruct s as [a1 a2 a3 a4 a5 a6 a7 a8 a9 a10 a11 a12 a13 a14 a15 a16 a17 a18 a19 a20 a21 a22 a23]; song_cbn; reflexivity]
  | solve [unfold lnorm, lnorm_res, exec_gs_effect, add_events; destruct s as [a1 a2 a3 a4 a5 a6 a7 a8 a9 a10 a11 a12 a13 a14 a15 a16 a17 a18 a19 a20 a21 a22 a23 a24]; song_cbn;
           match goal with |- context [Cmd.cmd_gs_effect ?a ?b ?c ?d ?e] => destruct (Cmd.cmd_gs_effect a b c d e) end; reflexivity] ].
Qed.

(* the three facts of TrackIndepP for the leaves of a block (a line-number token touches no track and no register but the
   line number) *)
Lemma leaf_frame ec t s s' : leaf_local t = true -> step_song ec t s = Ok s' -> frame_rel s s'.
Proof.
  unfold leaf_local. destruct (track_local t) eqn:L; [intros _; apply step_frame; exact L|].
  destruct t; try discriminate. intros _ E. cbn [step_song] in E. injection E as <-. repeat split; reflexivity.
Qed.
Lemma leaf_indep ec t s l2 : leaf_local t = true -> same_cur s l2 ->
  step_song ec t (s_set_tracks s l2) = lift s l2 (step_song ec t s).
Proof.
  unfold leaf_local. destruct (track_local t) eqn:L; [intros _; apply step_indep; exact L|].
  destruct t; try discriminate. intros _ [Hc [Hc2 Hn]]. cbn [step_song lift]. f_equal. apply song_eq; [reflexivity|].
  cbn [s_tracks s_set_tracks s_set_lineno s_cur]. symmetry. apply (upd_nth_id _ dtrk). symmetry. exact Hn.
Qed.
Lemma leaf_hnorm ec t s : leaf_local t = true -> hnorm_res (step_song ec t (hnorm s)) = hnorm_res (step_song ec t s).
Proof.
  unfold leaf_local. destruct (track_local t) eqn:L; [intros _; apply step_hnorm; exact L|].
  destruct t; try discriminate. intros _. cbn [step_song hnorm_res]. unfold hnorm. cbn [s_harmony_flag s_set_lineno].
  destruct (s_harmony_flag s) eqn:F; cbn [s_harmony_flag s_set_lineno s_set_harmony]; rewrite ?F; reflexivity.
Qed.
Lemma leaf_gnorm ec t s : leaf_local t = true -> gnorm_res (step_song ec t (gnorm s)) = gnorm_res (step_song ec t s).
Proof.
  intros L. rewrite !gnorm_res_eq. unfold gnorm.
  rewrite lnorm_hnorm_res, (step_lnorm ec t (hnorm s) L), <- lnorm_hnorm_res, (leaf_hnorm ec t s L). reflexivity.
Qed.

(* ---- transformers of `res song` that behave like a block of one track ---- *)
Definition RT := res song -> res song.
Record localT (T : RT) : Prop := {
  lt_err : forall r, (forall s, r <> Ok s) -> T r = r;
  lt_frame : forall s s', T (Ok s) = Ok s' -> frame_rel s s';
  lt_indep : forall s l2, same_cur s l2 -> T (Ok (s_set_tracks s l2)) = lift s l2 (T (Ok s));
  lt_norm : forall r1 r2, gnorm_res r1 = gnorm_res r2 -> gnorm_res (T r1) = gnorm_res (T r2)
}.

Lemma local_id : localT (fun r => r).
Proof.
  split; [reflexivity|intros s s' E; injection E as <-; apply frame_rel_refl| |exact (fun _ _ H => H)].
  intros s l2 [Hc [Hc2 Hn]]. cbn [lift]. f_equal. apply song_eq; [reflexivity|]. cbn [s_tracks s_set_tracks].
  symmetry. apply (upd_nth_id _ dtrk). symmetry. exact Hn.
Qed.

Lemma local_comp T1 T2 : localT T1 -> localT T2 -> localT (fun r => T2 (T1 r)).
Proof.
  intros L1 L2. split.
  - intros r H. rewrite (lt_err _ L1 r H). apply (lt_err _ L2 r H).
  - intros s s' E. destruct (T1 (Ok s)) as [s1| | |] eqn:E1;
      try (rewrite (lt_err _ L2) in E by (intros; discriminate); discriminate).
    apply (frame_rel_trans s s1 s'); [apply (lt_frame _ L1 _ _ E1)|apply (lt_frame _ L2 _ _ E)].
  - intros s l2 Hs. rewrite (lt_indep _ L1 s l2 Hs).
    destruct (T1 (Ok s)) as [s1| | |] eqn:E1; cbn [lift];
      try (rewrite !(lt_err _ L2) by (intros; discriminate); reflexivity).
    destruct (lt_frame _ L1 _ _ E1) as [F1 [F2 [F3 F4]]]. destruct Hs as [Hc [Hc2 Hn]].
    assert (Hs1 : same_cur s1 (upd_nth (s_cur s) (fun _ => cur_track s1) l2)).
    { split; [unfold cur_ok in *; lia|]. rewrite F1, upd_nth_length. split; [exact Hc2|]. apply nth_upd_nth_eq. exact Hc2. }
    rewrite (lt_indep _ L2 s1 _ Hs1). destruct (T2 (Ok s1)) as [s2| | |]; cbn [lift]; try reflexivity.
    rewrite F1, upd_nth_upd_nth. reflexivity.
  - intros r1 r2 E. apply (lt_norm _ L2). apply (lt_norm _ L1). exact E.
Qed.

Lemma local_passes fa fb : localT fa -> localT fb -> forall k, localT (passes fa fb k).
Proof.
  intros La Lb. induction k as [|k IH]; [exact local_id|].
  destruct k as [|k]; [exact La|].
  assert (E : forall r, passes fa fb (S (S k)) r = passes fa fb (S k) (fb (fa r))) by (intros r; apply passes_SS).
  pose proof (local_comp _ _ (local_comp _ _ La Lb) IH) as L. cbv beta in L.
  split.
  - intros r H. rewrite E. apply (lt_err _ L r H).
  - intros s s' H. rewrite E in H. apply (lt_frame _ L _ _ H).
  - intros s l2 H. rewrite !E. apply (lt_indep _ L _ _ H).
  - intros r1 r2 H. rewrite !E. apply (lt_norm _ L _ _ H).
Qed.

(* ---- one token as a transformer (LoopSpec.sem_item of a leaf: nothing happens in a halted state) ---- *)
Definition leafT (g : song -> res song) : RT := fun r => if halted r then r else bind r g.
Lemma gnorm_break s : s_break_flag (gnorm s) = s_break_flag s.
Proof. unfold gnorm, lnorm, hnorm. destruct (s_harmony_flag s); reflexivity. Qed.
Lemma gnorm_res_ok_inv a r : gnorm_res r = Ok a -> exists b, r = Ok b /\ gnorm b = a.
Proof. destruct r; cbn [gnorm_res]; try discriminate. intros E; injection E as <-. eexists; split; reflexivity. Qed.

Lemma local_of_step g :
  (forall s s', g s = Ok s' -> frame_rel s s') ->
  (forall s l2, same_cur s l2 -> g (s_set_tracks s l2) = lift s l2 (g s)) ->
  (forall s, gnorm_res (g (gnorm s)) = gnorm_res (g s)) ->
  localT (leafT g).
Proof.
  intros Gf Gi Gn. unfold leafT. split.
  - intros r H. destruct r as [s| | |]; [exfalso; apply (H s); reflexivity| | |]; reflexivity.
  - intros s s' E. cbn [halted bind] in E. destruct (negb (s_break_flag s =? 0)).
    + injection E as <-. apply frame_rel_refl.
    + apply Gf, E.
  - intros s l2 Hs. cbn [halted bind]. change (s_break_flag (s_set_tracks s l2)) with (s_break_flag s).
    destruct (negb (s_break_flag s =? 0)); [|apply Gi, Hs].
    destruct Hs as [Hc [Hc2 Hn]]. cbn [lift]. f_equal. apply song_eq; [reflexivity|]. cbn [s_tracks s_set_tracks].
    symmetry. apply (upd_nth_id _ dtrk). symmetry. exact Hn.
  - intros r1 r2 E. destruct r1 as [a| | |]; cbn [gnorm_res] in E.
    + symmetry in E. apply gnorm_res_ok_inv in E. destruct E as [b [-> E]].
      cbn [halted bind]. rewrite <- (gnorm_break a), <- (gnorm_break b), E.
      destruct (negb (s_break_flag (gnorm a) =? 0)); [cbn [gnorm_res]; rewrite E; reflexivity|].
      rewrite <- (Gn a), <- (Gn b), E. reflexivity.
    + destruct r2; try discriminate E. exact E.
    + destruct r2; try discriminate E. exact E.
    + destruct r2; try discriminate E. exact E.
Qed.

Lemma local_leaf ec t : leaf_local t = true -> localT (leafT (step_song ec t)).
Proof.
  intros L. apply local_of_step.
  - intros s s'. apply leaf_frame, L.
  - intros s l2. apply leaf_indep, L.
  - intros s. apply leaf_gnorm, L.
Qed.

(* ---- the Sub and tuplet arms: the children are run by a transformer E, between two updates of the current track whose
        parameters are read from the current track and the time base on entry ---- *)
Definition wrapT (E : RT) (P Q : track -> Z -> track -> track) (s : song) : res song :=
  do s2 <- E (Ok (upd_cur s (P (cur_track s) (s_timebase s))));
  Ok (upd_cur s2 (Q (cur_track s) (s_timebase s))).

Lemma frame_upd_cur s f : frame_rel s (upd_cur s f).
Proof.
  split; [reflexivity|]. split; [cbn [s_tracks upd_cur s_set_tracks]; apply upd_nth_length|]. split; [|reflexivity].
  intros i Hi. cbn [s_tracks upd_cur s_set_tracks]. apply nth_upd_nth_neq. exact Hi.
Qed.
Lemma gnorm_upd_cur s f : gnorm (upd_cur s f) = upd_cur (gnorm s) f.
Proof. unfold gnorm, lnorm, hnorm. cbn [s_harmony_flag upd_cur s_set_tracks]. destruct (s_harmony_flag s); reflexivity. Qed.
Lemma gnorm_cur_track s : cur_track (gnorm s) = cur_track s.
Proof. unfold cur_track. rewrite gnorm_tracks, gnorm_cur. reflexivity. Qed.
Lemma gnorm_timebase s : s_timebase (gnorm s) = s_timebase s.
Proof. unfold gnorm, lnorm, hnorm. destruct (s_harmony_flag s); reflexivity. Qed.

Lemma wrap_frame E P Q : localT E -> forall s s', wrapT E P Q s = Ok s' -> frame_rel s s'.
Proof.
  intros L s s' H. unfold wrapT in H.
  destruct (E (Ok (upd_cur s (P (cur_track s) (s_timebase s))))) as [s2| | |] eqn:E2; cbn [bind] in H; try discriminate H.
  injection H as <-. eapply frame_rel_trans; [apply frame_upd_cur|].
  eapply frame_rel_trans; [apply (lt_frame _ L _ _ E2)|]. apply frame_upd_cur.
Qed.

Lemma wrap_indep E P Q : localT E -> forall s l2, same_cur s l2 ->
  wrapT E P Q (s_set_tracks s l2) = lift s l2 (wrapT E P Q s).
Proof.
  intros L s l2 Hs. pose proof (cur_track_swap s l2 Hs) as Hct. destruct Hs as [Hc [Hc2 Hn]]. unfold wrapT.
  rewrite Hct. change (s_timebase (s_set_tracks s l2)) with (s_timebase s).
  set (p := P (cur_track s) (s_timebase s)). set (q := Q (cur_track s) (s_timebase s)).
  assert (E0 : upd_cur (s_set_tracks s l2) p = s_set_tracks (upd_cur s p) (upd_nth (s_cur s) p l2)).
  { apply song_eq; reflexivity. }
  assert (Hs0 : same_cur (upd_cur s p) (upd_nth (s_cur s) p l2)).
  { split; [apply cur_ok_upd_cur, Hc|]. cbn [s_cur upd_cur s_set_tracks]. rewrite upd_nth_length. split; [exact Hc2|].
    rewrite (cur_track_upd_cur s p Hc), nth_upd_nth_eq by exact Hc2. rewrite Hn. reflexivity. }
  rewrite E0, (lt_indep _ L _ _ Hs0).
  destruct (E (Ok (upd_cur s p))) as [s2| | |] eqn:E2; cbn [lift bind]; try reflexivity.
  destruct (lt_frame _ L _ _ E2) as [F1 [F2 _]]. cbn [s_cur s_tracks upd_cur s_set_tracks] in F1, F2. rewrite upd_nth_length in F2.
  assert (Hc3 : cur_ok s2) by (unfold cur_ok in *; lia).
  f_equal. apply song_eq; [reflexivity|].
  cbn [s_tracks upd_cur s_set_tracks s_cur]. rewrite F1. rewrite !upd_nth_upd_nth.
  rewrite (cur_track_upd_cur s2 q Hc3). reflexivity.
Qed.

Lemma wrap_norm E P Q : localT E -> forall s, gnorm_res (wrapT E P Q (gnorm s)) = gnorm_res (wrapT E P Q s).
Proof.
  intros L s. unfold wrapT. rewrite gnorm_cur_track, gnorm_timebase.
  set (p := P (cur_track s) (s_timebase s)). set (q := Q (cur_track s) (s_timebase s)).
  assert (E0 : gnorm_res (E (Ok (upd_cur (gnorm s) p))) = gnorm_res (E (Ok (upd_cur s p)))).
  { apply (lt_norm _ L). cbn [gnorm_res]. rewrite <- gnorm_upd_cur, gnorm_idem. reflexivity. }
  destruct (E (Ok (upd_cur (gnorm s) p))) as [a| | |]; destruct (E (Ok (upd_cur s p))) as [b| | |];
    cbn [gnorm_res] in E0; try discriminate E0; cbn [bind gnorm_res]; try exact E0.
  assert (E1 : gnorm a = gnorm b) by (apply (f_equal (fun r => match r with Ok x => x | _ => gnorm a end)) in E0; exact E0).
  rewrite !gnorm_upd_cur, E1. reflexivity.
Qed.

Lemma local_wrap E P Q : localT E -> localT (leafT (wrapT E P Q)).
Proof. intros L. apply local_of_step; [apply wrap_frame|apply wrap_indep|apply wrap_norm]; exact L. Qed.

(* the two arms are of this form *)
Lemma upd_cur_id s : upd_cur s (fun t => t) = s.
Proof.
  unfold upd_cur. assert (E : forall (l : list track) n, upd_nth n (fun t => t) l = l).
  { induction l as [|x r IH]; intros [|n]; cbn [upd_nth]; try reflexivity. rewrite IH. reflexivity. }
  rewrite E. apply s_set_tracks_same.
Qed.
Lemma step_sub_wrap ec ch s :
  step_song ec (TSub ch) s = wrapT (ec ch) (fun _ _ t => t) (fun ct _ t => tr_set_timepos t (tr_timepos ct)) s.
Proof. unfold wrapT. cbn [step_song]. rewrite upd_cur_id. reflexivity. Qed.
Lemma step_div_wrap ec cnt len ch s :
  step_song ec (TDiv cnt len ch) s
  = wrapT (ec ch)
      (fun ct tb t => tr_set_length t (if cnt >? 0 then Z.quot (calc_length len tb (tr_length ct)) cnt else 0))
      (fun ct tb t => tr_set_length (tr_set_timepos t (tr_timepos ct + calc_length len tb (tr_length ct))) (tr_length ct)) s.
Proof. reflexivity. Qed.

(* ---- blocks: balanced brackets at every level, leaves local, Sub / tuplet children blocks again ---- *)
Definition lbound (n : Z) : nat := Nat.max 1 (Z.to_nat n).
Definition tok_block_ok (rec : list tok -> bool) (t : tok) : bool :=
  leaf_local t || match t with TSub ch => rec ch | TDiv _ _ ch => rec ch | TLoopBegin _ | TLoopBreak | TLoopEnd => true | _ => false end.
Fixpoint block_ok (d steps : nat) (toks : list tok) : bool :=
  match d with
  | O => false
  | S d' =>
      match parse_toks toks with
      | Some p => (scost lbound p <? steps)%nat && forallb (tok_block_ok (block_ok d' steps)) toks
      | None => false
      end
  end.

Lemma localT_ext T T' : (forall r, T r = T' r) -> localT T' -> localT T.
Proof.
  intros E L. split.
  - intros r H. rewrite E. apply (lt_err _ L r H).
  - intros s s' H. rewrite E in H. apply (lt_frame _ L _ _ H).
  - intros s l2 H. rewrite !E. apply (lt_indep _ L _ _ H).
  - intros r1 r2 H. rewrite !E. apply (lt_norm _ L _ _ H).
Qed.

Notation SEMB ec := (LoopSpec.sem tok (res song) (step_tok ec) halted (count1 count_of)).
Notation SEMBi ec := (LoopSpec.sem_item tok (res song) (step_tok ec) halted (count1 count_of)).

Lemma sem_local ec :
  (forall i, (forall t, In (LOther t) (flat_item i) -> localT (leafT (step_song ec t))) -> localT (SEMBi ec i)) /\
  (forall p, (forall t, In (LOther t) (flatten p) -> localT (leafT (step_song ec t))) -> localT (SEMB ec p)).
Proof.
  apply item_prog_mutind.
  - intros t H. apply (localT_ext _ (leafT (step_song ec t))); [intros r; reflexivity|]. apply H. left. reflexivity.
  - intros n a Ha H.
    apply (localT_ext _ (passes (SEMB ec a) (fun x => x) (lbound n))); [intros r; rewrite sem_item_loop; reflexivity|].
    apply local_passes; [|exact local_id]. apply Ha. intros t Ht. apply H. rewrite flat_item_none. right. apply in_or_app. left. exact Ht.
  - intros n a b Ha Hb H.
    apply (localT_ext _ (passes (SEMB ec a) (SEMB ec b) (lbound n))); [intros r; rewrite sem_item_loop; reflexivity|].
    apply local_passes.
    + apply Ha. intros t Ht. apply H. rewrite flat_item_some. right. apply in_or_app. left. exact Ht.
    + apply Hb. intros t Ht. apply H. rewrite flat_item_some. right. apply in_or_app. right. apply in_or_app. right.
      apply in_or_app. left. exact Ht.
  - intros _. exact local_id.
  - intros i p Hi Hp H. apply (localT_ext _ (fun r => SEMB ec p (SEMBi ec i r))); [intros r; reflexivity|].
    apply local_comp.
    + apply Hi. intros t Ht. apply H. rewrite flatten_cons. apply in_or_app. left. exact Ht.
    + apply Hp. intros t Ht. apply H. rewrite flatten_cons. apply in_or_app. right. exact Ht.
Qed.

Lemma to_ltok_other' t' t : to_ltok t' = LOther t -> t' = t.
Proof. destruct t'; cbn [to_ltok]; intros H; try discriminate H; injection H as <-; reflexivity. Qed.

Lemma cost_bound ec p r : (LoopSpec.cost tok (res song) (step_tok ec) halted (count1 count_of) p r <= scost lbound p)%nat.
Proof. apply (proj2 (cost_le_scost tok (res song) (step_tok ec) halted count_of lbound (fun n s0 => le_n _))). Qed.

Theorem block_local steps : forall d toks, block_ok d steps toks = true -> localT (exec_f d steps toks).
Proof.
  induction d as [|d IH]; intros toks H; [discriminate H|].
  cbn [block_ok] in H. destruct (parse_toks toks) as [p|] eqn:E; [|discriminate H].
  apply andb_prop in H. destruct H as [H1 H2]. apply Nat.ltb_lt in H1.
  apply (localT_ext _ (SEMB (exec_f d steps) p)).
  { intros r. apply (exec_f_parsed d steps toks p r E). pose proof (cost_bound (exec_f d steps) p r). lia. }
  apply (proj2 (sem_local (exec_f d steps))). intros t Ht.
  rewrite (parse_toks_sound toks p E) in Ht. apply in_map_iff in Ht. destruct Ht as (t' & Et & Hin).
  pose proof Et as Et'. apply to_ltok_other' in Et'. subst t'. rewrite forallb_forall in H2. specialize (H2 t Hin).
  unfold tok_block_ok in H2. destruct (leaf_local t) eqn:L; [apply local_leaf, L|]. cbn [orb] in H2.
  destruct t; try discriminate H2; try discriminate Et.
  - eapply localT_ext; [|apply (local_wrap (exec_f d steps children)), IH, H2].
    intros r. unfold leafT. destruct (halted r); [reflexivity|]. destruct r; cbn [bind]; try reflexivity. apply step_div_wrap.
  - eapply localT_ext; [|apply (local_wrap (exec_f d steps children)), IH, H2].
    intros r. unfold leafT. destruct (halted r); [reflexivity|]. destruct r; cbn [bind]; try reflexivity. apply step_sub_wrap.
Qed.

(* ---- two blocks on different tracks ---- *)
Lemma gnorm_set_cur s k : gnorm (s_set_cur s k) = s_set_cur (gnorm s) k.
Proof. unfold gnorm, lnorm, hnorm. cbn [s_harmony_flag s_set_cur]. destruct (s_harmony_flag s); reflexivity. Qed.
Lemma gnorm_set_tracks s l : gnorm (s_set_tracks s l) = s_set_tracks (gnorm s) l.
Proof. unfold gnorm, lnorm, hnorm. cbn [s_harmony_flag s_set_tracks]. destruct (s_harmony_flag s); reflexivity. Qed.
Lemma lift_gnorm s l2 r : gnorm_res (lift s l2 r) = lift s l2 (gnorm_res r).
Proof.
  destruct r as [a| | |]; cbn [lift gnorm_res]; try reflexivity.
  rewrite gnorm_set_tracks. unfold cur_track. rewrite gnorm_tracks, gnorm_cur. reflexivity.
Qed.
Lemma gnorm_T T s : localT T -> gnorm_res (T (Ok (gnorm s))) = gnorm_res (T (Ok s)).
Proof. intros L. apply (lt_norm _ L). cbn [gnorm_res]. rewrite gnorm_idem. reflexivity. Qed.

Lemma two_blocks_T ec (TA TB : RT) s i j sA sB :
  localT TA -> localT TB -> i <> j ->
  (i < length (s_tracks s))%nat -> (j < length (s_tracks s))%nat -> (i <= 999)%nat -> (j <= 999)%nat ->
  s_octave_once s = 0 -> s_break_flag s = 0 ->
  TA (Ok (s_set_cur s i)) = Ok sA -> globals_eq (gnorm sA) (gnorm s) ->
  TB (Ok (s_set_cur s j)) = Ok sB ->
  exists r, TB (leafT (step_song ec (TTrack (Z.of_nat j))) (TA (leafT (step_song ec (TTrack (Z.of_nat i))) (Ok s)))) = Ok r /\
    gnorm r = s_set_tracks (gnorm sB) (upd_nth j (fun _ => nth j (s_tracks sB) dtrk)
                                         (upd_nth i (fun _ => nth i (s_tracks sA) dtrk) (s_tracks s))).
Proof.
  intros LA LB Hij Hi Hj Hi9 Hj9 Ho Hb EA GA EB.
  pose proof (lt_frame _ LA _ _ EA) as FA. pose proof (lt_frame _ LB _ _ EB) as FB.
  destruct FA as [A1 [A2 [A3 A4]]]. cbn [s_cur s_tracks s_set_cur] in A1, A2, A3.
  assert (HoA : s_octave_once sA = 0)
    by (rewrite <- (gnorm_octave_once sA), (globals_octave_once _ _ GA), gnorm_octave_once; exact Ho).
  assert (HbA : s_break_flag sA = 0).
  { rewrite <- (gnorm_break sA). unfold globals_eq in GA. apply (f_equal s_break_flag) in GA. cbn [s_break_flag s_set_cur s_set_tracks] in GA.
    rewrite GA, gnorm_break. exact Hb. }
  unfold leafT at 2. cbn [halted bind]. rewrite Hb. cbn [Z.eqb negb]. rewrite (step_track ec s i Hi Hi9 Ho), EA.
  unfold leafT. cbn [halted bind]. rewrite HbA. cbn [Z.eqb negb]. rewrite (step_track ec sA j) by (try rewrite A2; assumption).
  assert (Hs : same_cur (gnorm (s_set_cur s j)) (s_tracks sA)).
  { unfold same_cur, cur_ok, cur_track. rewrite gnorm_tracks, gnorm_cur. cbn [s_cur s_tracks s_set_cur].
    split; [exact Hj|]. split; [rewrite A2; exact Hj|]. apply A3. congruence. }
  assert (E1 : gnorm (s_set_cur sA j) = s_set_tracks (gnorm (s_set_cur s j)) (s_tracks sA)).
  { rewrite !gnorm_set_cur. rewrite (globals_swap (gnorm sA) (gnorm s) j GA). rewrite gnorm_tracks. reflexivity. }
  assert (E2 : gnorm_res (TB (Ok (s_set_cur sA j))) = lift (gnorm (s_set_cur s j)) (s_tracks sA) (Ok (gnorm sB))).
  { rewrite <- (gnorm_T TB (s_set_cur sA j) LB), E1, (lt_indep _ LB _ _ Hs), lift_gnorm.
    rewrite (gnorm_T TB (s_set_cur s j) LB), EB. reflexivity. }
  cbn [lift] in E2. apply gnorm_res_ok_inv in E2. destruct E2 as [r [Er Hr]]. exists r. split; [exact Er|].
  rewrite Hr. f_equal. rewrite gnorm_cur. cbn [s_cur s_set_cur]. unfold cur_track. rewrite gnorm_tracks, gnorm_cur.
  destruct FB as [B1 _]. cbn [s_cur s_set_cur] in B1. rewrite B1.
  rewrite (frame_tracks (s_set_cur s i) sA) at 1 by (repeat split; assumption).
  reflexivity.
Qed.

(* ---- exec() on "TR(x) A TR(y) B" is the composition ---- *)
Lemma scost_papp (a b : prog tok) : scost lbound (papp a b) = (scost lbound a + scost lbound b)%nat.
Proof. induction a as [|i a IH]; [reflexivity|]. cbn [papp scost]. rewrite IH. lia. Qed.

Definition pair_fuel_ok (steps : nat) (A B : list tok) : bool :=
  match parse_toks A, parse_toks B with
  | Some pA, Some pB => (scost lbound pA + scost lbound pB + 2 <? steps)%nat
  | _, _ => false
  end.

Lemma exec_concat d steps x A y B r :
  pair_fuel_ok steps A B = true ->
  exec_f (S d) steps (TTrack x :: A ++ TTrack y :: B) r
  = exec_f (S d) steps B (leafT (step_song (exec_f d steps) (TTrack y))
      (exec_f (S d) steps A (leafT (step_song (exec_f d steps) (TTrack x)) r))).
Proof.
  unfold pair_fuel_ok. destruct (parse_toks A) as [pA|] eqn:EA; [|discriminate]. destruct (parse_toks B) as [pB|] eqn:EB; [|discriminate].
  intros H. apply Nat.ltb_lt in H.
  set (P := PCons (Leaf (TTrack x)) (papp pA (PCons (Leaf (TTrack y)) pB))).
  assert (EP : parse_toks (TTrack x :: A ++ TTrack y :: B) = Some P).
  { unfold parse_toks. cbn [map to_ltok]. rewrite map_app. cbn [map to_ltok].
    rewrite <- (parse_toks_sound A pA EA), <- (parse_toks_sound B pB EB).
    replace (LOther (TTrack x) :: flatten pA ++ LOther (TTrack y) :: flatten pB) with (flatten P); [apply parse_loops_complete|].
    unfold P. rewrite flatten_cons, (flatten_app tok), flatten_cons. reflexivity. }
  assert (SP : scost lbound P = (scost lbound pA + scost lbound pB + 2)%nat).
  { unfold P. cbn [scost scost_item]. rewrite scost_papp. cbn [scost scost_item]. lia. }
  rewrite (exec_f_parsed d steps _ P r EP) by (pose proof (cost_bound (exec_f d steps) P r); lia).
  unfold P. rewrite sem_cons, sem_app, sem_cons.
  rewrite (exec_f_parsed d steps A pA _ EA) by (match goal with |- (LoopSpec.cost _ _ _ _ _ _ ?r0 < _)%nat => pose proof (cost_bound (exec_f d steps) pA r0) end; lia).
  rewrite (exec_f_parsed d steps B pB _ EB) by (match goal with |- (LoopSpec.cost _ _ _ _ _ _ ?r0 < _)%nat => pose proof (cost_bound (exec_f d steps) pB r0) end; lia).
  reflexivity.
Qed.

(* blocks addressed to different existing tracks commute: the same tracks, the same global registers up to the dead ones *)
Theorem blocks_commute_exec d steps A B s i j sA sB :
  block_ok (S d) steps A = true -> block_ok (S d) steps B = true -> pair_fuel_ok steps A B = true -> i <> j ->
  (i < length (s_tracks s))%nat -> (j < length (s_tracks s))%nat -> (i <= 999)%nat -> (j <= 999)%nat ->
  s_octave_once s = 0 -> s_break_flag s = 0 ->
  exec_f (S d) steps A (Ok (s_set_cur s i)) = Ok sA -> globals_eq (gnorm sA) (gnorm s) ->
  exec_f (S d) steps B (Ok (s_set_cur s j)) = Ok sB -> globals_eq (gnorm sB) (gnorm s) ->
  exists r1 r2,
    exec_f (S d) steps (TTrack (Z.of_nat i) :: A ++ TTrack (Z.of_nat j) :: B) (Ok s) = Ok r1 /\
    exec_f (S d) steps (TTrack (Z.of_nat j) :: B ++ TTrack (Z.of_nat i) :: A) (Ok s) = Ok r2 /\
    s_tracks r1 = s_tracks r2 /\ globals_eq (gnorm r1) (gnorm r2) /\ s_cur r1 = j /\ s_cur r2 = i /\
    s_tracks r1 = upd_nth j (fun _ => nth j (s_tracks sB) dtrk) (upd_nth i (fun _ => nth i (s_tracks sA) dtrk) (s_tracks s)).
Proof.
  intros HA HB HF Hij Hi Hj Hi9 Hj9 Ho Hb EA GA EB GB.
  pose proof (block_local steps (S d) A HA) as LA. pose proof (block_local steps (S d) B HB) as LB.
  assert (HF' : pair_fuel_ok steps B A = true).
  { unfold pair_fuel_ok in *. destruct (parse_toks A), (parse_toks B); try discriminate HF. rewrite (Nat.add_comm (scost lbound p0)). exact HF. }
  destruct (two_blocks_T (exec_f d steps) _ _ s i j sA sB LA LB Hij Hi Hj Hi9 Hj9 Ho Hb EA GA EB) as [r1 [E1 H1]].
  destruct (two_blocks_T (exec_f d steps) _ _ s j i sB sA LB LA (not_eq_sym Hij) Hj Hi Hj9 Hi9 Ho Hb EB GB EA) as [r2 [E2 H2]].
  exists r1, r2. rewrite (exec_concat d steps _ A _ B (Ok s) HF), (exec_concat d steps _ B _ A (Ok s) HF').
  split; [exact E1|]. split; [exact E2|].
  destruct (lt_frame _ LA _ _ EA) as [A1 _]. destruct (lt_frame _ LB _ _ EB) as [B1 _]. cbn [s_cur s_set_cur] in A1, B1.
  assert (T1 : s_tracks r1 = upd_nth j (fun _ => nth j (s_tracks sB) dtrk) (upd_nth i (fun _ => nth i (s_tracks sA) dtrk) (s_tracks s)))
    by (rewrite <- (gnorm_tracks r1), H1; reflexivity).
  assert (T2 : s_tracks r2 = upd_nth i (fun _ => nth i (s_tracks sA) dtrk) (upd_nth j (fun _ => nth j (s_tracks sB) dtrk) (s_tracks s)))
    by (rewrite <- (gnorm_tracks r2), H2; reflexivity).
  split; [rewrite T1, T2; apply upd_nth_comm; exact Hij|].
  split; [|split; [rewrite <- (gnorm_cur r1), H1; cbn [s_cur s_set_tracks]; rewrite gnorm_cur; exact B1|
                   split; [rewrite <- (gnorm_cur r2), H2; cbn [s_cur s_set_tracks]; rewrite gnorm_cur; exact A1|exact T1]]].
  rewrite H1, H2. unfold globals_eq in *. cbn [s_set_tracks s_set_cur] in *.
  transitivity (s_set_cur (s_set_tracks (gnorm s) []) 0); [|symmetry]; assumption.
Qed.

(* ---- non-vacuity: a block with a loop and a Sub block, a block with a tuplet and a loop with ':' ---- *)
Definition xb_c := TNote 0 0 0 [] 0 (-1) ISIZE_MIN (-1) 0.
Definition xb_e := TNote 4 0 0 [56] 0 (-1) ISIZE_MIN (-1) 0.
Definition xb_s : song := change_cur_track (change_cur_track song_new 5) 2.
Definition xb_A : list tok := [TLoopBegin 2; xb_c; TSub [TLineNo 7; xb_e; TOctaveRel 1]; TLoopEnd; TVelocity 90 (-1)].
Definition xb_B : list tok := [TDiv 2 [52] [TLineNo 3; xb_c; xb_e]; TOctave 6; TLoopBegin 3; xb_e; TLoopBreak; TRest 1 [56]; TLoopEnd].
Example blocks_example :
  block_ok 2 100 xb_A = true /\ block_ok 2 100 xb_B = true /\ pair_fuel_ok 100 xb_A xb_B = true /\
  exists sA sB,
    exec_f 2 100 xb_A (Ok (s_set_cur xb_s 1)) = Ok sA /\ globals_eq (gnorm sA) (gnorm xb_s) /\
    exec_f 2 100 xb_B (Ok (s_set_cur xb_s 4)) = Ok sB /\ globals_eq (gnorm sB) (gnorm xb_s) /\
    s_lineno sA = 7 /\ s_lineno xb_s = 0 /\
    length (tr_events (nth 1 (s_tracks sA) dtrk)) = 4%nat /\ length (tr_events (nth 4 (s_tracks sB) dtrk)) = 5%nat.
Proof.
  split; [vm_compute; reflexivity|]. split; [vm_compute; reflexivity|]. split; [vm_compute; reflexivity|].
  eexists. eexists. split; [vm_compute; reflexivity|]. split; [vm_compute; reflexivity|].
  split; [vm_compute; reflexivity|]. split; [vm_compute; reflexivity|]. repeat split; vm_compute; reflexivity.
Qed.
