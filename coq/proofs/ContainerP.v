(* generate(): header + MTrk chunks, against the specification chunk parser *)
From Sakura.Model Require Import Base Event Writer.
From Sakura.Spec Require Import SmfSpec TrackSpec.
From Sakura.Proofs Require Import VlqP WriterP.
From Coq Require Import Lia ZifyBool.
Open Scope Z_scope.

Fixpoint bodies_of (tracks : list (list event)) : res (list (list byte)) :=
  match tracks with
  | [] => Ok []
  | t :: r => do b <- generate_track t; do bs <- bodies_of r; Ok (b :: bs)
  end.

Definition chunk (body : list byte) : list byte := MTrk ++ push_u32 (zlen body) ++ body.

Lemma write_tracks_chunks tracks : forall bodies, bodies_of tracks = Ok bodies ->
  write_tracks tracks = Ok (flat_map chunk bodies).
Proof.
  induction tracks as [|t r IH]; intros bodies H; cbn in H.
  - injection H as <-. reflexivity.
  - cbn [write_tracks]. destruct (generate_track t) as [b| | |]; cbn [bind] in *; try discriminate.
    destruct (bodies_of r) as [bs| | |]; cbn [bind] in *; try discriminate.
    injection H as <-. rewrite (IH bs eq_refl). cbn [bind flat_map]. unfold chunk.
    rewrite <- !app_assoc. reflexivity.
Qed.

Lemma take_raw_app p : forall r, take_raw (length p) (p ++ r) = Some (p, r).
Proof. induction p as [|b p IH]; intros r; [reflexivity|]. cbn [length app take_raw]. rewrite IH. reflexivity. Qed.

Lemma parse_chunks_ok bodies : forall fuel, Forall (fun b => zlen b < 2 ^ 32) bodies ->
  (length bodies < fuel)%nat -> parse_chunks_f fuel (flat_map chunk bodies) = Some bodies.
Proof.
  induction bodies as [|b bs IH]; intros fuel Hl Hf.
  - destruct fuel; [cbn in Hf; lia | reflexivity].
  - destruct fuel as [|f]; [cbn in Hf; lia|].
    inversion Hl as [|x y Hb Hbs]; subst.
    cbn [flat_map]. unfold chunk at 1.
    destruct (push_u32_be (zlen b)) as (a1 & a2 & a3 & a4 & E & R1 & R2 & R3 & R4 & Ebe).
    { unfold zlen in *. lia. }
    rewrite E. unfold MTrk. cbn [app parse_chunks_f].
    unfold byte_ok. replace ((0 <=? a1) && (a1 <? 256)) with true by lia.
    replace ((0 <=? a2) && (a2 <? 256)) with true by lia.
    replace ((0 <=? a3) && (a3 <? 256)) with true by lia.
    replace ((0 <=? a4) && (a4 <? 256)) with true by lia. cbn [andb].
    rewrite Ebe. unfold zlen. rewrite Nat2Z.id, take_raw_app.
    rewrite (IH f Hbs) by (cbn in Hf; lia). reflexivity.
Qed.

Lemma chunk_length b : (8 <= length (chunk b))%nat.
Proof. unfold chunk, MTrk, push_u32. rewrite !app_length. cbn [length]. lia. Qed.

Lemma chunks_length bodies : (length bodies <= length (flat_map chunk bodies))%nat.
Proof.
  induction bodies as [|b bs IH]; cbn [flat_map length]; [lia|].
  rewrite app_length. pose proof (chunk_length b). lia.
Qed.

Lemma generate_track_eot t b : generate_track t = Ok b -> ends_with_eot b = true.
Proof.
  unfold generate_track. destruct (write_events 0 t) as [body| | |]; cbn [bind]; try discriminate.
  intros H. injection H as <-. unfold ends_with_eot, EOT.
  replace (body ++ [0; 255; 47; 0]) with ((body ++ [0]) ++ [255; 47; 0]) by (rewrite <- app_assoc; reflexivity).
  rewrite app_length. cbn [length].
  replace (length (body ++ [0%Z]) + 3 - 3)%nat with (length (body ++ [0%Z])) by lia.
  rewrite skipn_app, skipn_all, Nat.sub_diag. reflexivity.
Qed.

Lemma bodies_eot tracks : forall bodies, bodies_of tracks = Ok bodies -> forallb ends_with_eot bodies = true.
Proof.
  induction tracks as [|t r IH]; intros bodies H; cbn in H.
  - injection H as <-. reflexivity.
  - destruct (generate_track t) as [b| | |] eqn:G; cbn [bind] in *; try discriminate.
    destruct (bodies_of r) as [bs| | |]; cbn [bind] in *; try discriminate.
    injection H as <-. cbn [forallb]. rewrite (generate_track_eot t b G), (IH bs eq_refl). reflexivity.
Qed.

Lemma bodies_length tracks : forall bodies, bodies_of tracks = Ok bodies -> length bodies = length tracks.
Proof.
  induction tracks as [|t r IH]; intros bodies H; cbn in H.
  - injection H as <-. reflexivity.
  - destruct (generate_track t) as [b| | |]; cbn [bind] in *; try discriminate.
    destruct (bodies_of r) as [bs| | |]; cbn [bind] in *; try discriminate.
    injection H as <-. cbn [length]. rewrite (IH bs eq_refl). reflexivity.
Qed.

(* dimensions under which the SMF fields can hold the song *)
Definition dims_ok (tb : Z) (bodies : list (list byte)) : Prop :=
  0 < tb < 32768 /\ zlen bodies < 65536 /\ Forall (fun b => zlen b < 2 ^ 32) bodies.

Theorem generate_container tb tracks bodies :
  bodies_of tracks = Ok bodies -> dims_ok tb bodies ->
  exists bs, generate_sorted tb tracks = Ok bs
    /\ parse_file bs = Some (mkHeader 1 (zlen tracks) tb, bodies)
    /\ container_ok bs = true.
Proof.
  intros Hb (Htb & Hn & Hl).
  unfold generate_sorted. rewrite (write_tracks_chunks tracks bodies Hb). cbn [bind].
  eexists. split; [reflexivity|].
  assert (Ht : zlen tracks = zlen bodies) by (unfold zlen; rewrite (bodies_length _ _ Hb); reflexivity).
  destruct (push_u16_be (zlen tracks)) as (n1 & n2 & En & Rn1 & Rn2 & Ben). { unfold zlen in *. lia. }
  destruct (push_u16_be tb) as (d1 & d2 & Ed & Rd1 & Rd2 & Bed). { lia. }
  assert (P : parse_file (MThd ++ push_u32 6 ++ push_u16 1 ++ push_u16 (zlen tracks) ++ push_u16 tb ++
                          flat_map chunk bodies) = Some (mkHeader 1 (zlen tracks) tb, bodies)).
  { rewrite En, Ed. unfold MThd.
    assert (E6 : push_u32 6 = [0; 0; 0; 6]) by (vm_compute; reflexivity).
    assert (E1 : push_u16 1 = [0; 1]) by (vm_compute; reflexivity). rewrite E6, E1.
    cbn [app parse_file]. unfold byte_ok.
    replace ((0 <=? n1) && (n1 <? 256)) with true by lia. replace ((0 <=? n2) && (n2 <? 256)) with true by lia.
    replace ((0 <=? d1) && (d1 <? 256)) with true by lia. replace ((0 <=? d2) && (d2 <? 256)) with true by lia.
    cbn [andb Z.leb Z.ltb Z.compare].
    rewrite (parse_chunks_ok bodies _ Hl) by (pose proof (chunks_length bodies); lia).
    rewrite Ben, Bed. reflexivity. }
  split; [exact P|].
  unfold container_ok. rewrite P. cbn [h_format h_ntrks h_division].
  rewrite (bodies_eot _ _ Hb). unfold zlen in *.
  replace (1 =? 1) with true by reflexivity.
  replace (Z.of_nat (length tracks) =? Z.of_nat (length bodies)) with true by lia.
  replace (0 <? tb) with true by lia. replace (tb <? 32768) with true by lia. reflexivity.
Qed.
