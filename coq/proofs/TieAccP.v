(* C13: accuracy of the f32 expressions of tie_mode_bend / tie_mode_port (runner.rs) against the exact rational
   values, from the rounding-error bounds of F32RoundP / F32ErrP:
     mode 1   (d as f32 * 8192f32 / R as f32) as isize              = the truncated quotient, exactly
     mode 0   (d as f32 * (8192f32 / R as f32)) as isize            within 1 of 8192 d / R, between 0 and it
              (bf as f32 * (i as f32 / tv as f32)) as isize         within 1 of bf i / tv, between 0 and it
   Besides the half-ulp bound, the results of the operations lie on the grid of their exponent (section 1):
   a representable exact result is returned as it is, and rounding never crosses an integer from above. *)
From Coq Require Import ZArith QArith Qabs Qpower Lia Lqa Bool List Morphisms.
From Sakura.Model Require Import Base Event Song F32 Tie.
From Sakura.Proofs Require Import F32RoundP F32ErrP TieP.
Open Scope Q_scope.

Local Notation fexp32 := (fexp 24 128).

(* ------------------------------------------------------------------------------------------------ *)
(* 1. the grid of a rounded result                                                                    *)

(* binary_round_aux: the result is m1 * 2^e1 with e1 no larger than the exponent of the binade of the exact
   value, and within half a unit 2^e1 of it *)
Theorem bra_grid s n d ex (x : Q) B : (0 <= n)%Z -> (0 < d)%Z -> x * inject_Z d == inject_Z n ->
  x * pow2 ex < pow2 B -> (ex <= 103)%Z -> (fexp32 B <= 103)%Z ->
  exists m1 e1, (0 <= m1)%Z /\ (ex <= e1 <= Z.max ex (fexp32 B))%Z /\
    is_fin (binary_round_aux 24 128 s (n / d) ex (loc_of n d)) /\
    SFv (binary_round_aux 24 128 s (n / d) ex (loc_of n d)) == sgn s (inject_Z m1 * pow2 e1) /\
    near (inject_Z m1 * pow2 e1) (x * pow2 ex) (pow2 (e1 - 1)).
Proof.
  intros Hn Hd Hx Hlt Hex HB.
  destruct (bra_spec s n d ex Hn Hd) as [m1 [Hm1 [Herr Heq]]].
  set (e1 := Z.max ex (fexp32 (Zdigits2 (n / d) + ex))) in *.
  assert (HD : 0 < inject_Z d) by (apply inject_Z_pos_lt; assumption).
  assert (Hq : (0 <= n / d)%Z) by (apply Z.div_pos; lia).
  assert (Hqx : inject_Z (n / d) <= x).
  { assert (Hle : (d * (n / d) <= n)%Z) by (apply Z.mul_div_le; lia).
    rewrite Zle_Qle in Hle. rewrite inject_Z_mult in Hle. rewrite <- Hx in Hle. nra. }
  assert (He1 : (e1 <= Z.max ex (fexp32 B))%Z).
  { assert (Hlt' : inject_Z (n / d) * pow2 ex < pow2 B) by (pose proof (pow2_pos ex); nra).
    pose proof (fexp_dg (n / d) ex B Hq Hlt'). unfold e1. lia. }
  destruct (pack_val s m1 e1 Hm1 ltac:(lia)) as [Hfin Hval].
  exists m1, e1. rewrite Heq. split; [lia|]. split; [unfold e1 in *; lia|]. split; [exact Hfin|]. split; [exact Hval|].
  assert (HK : (0 <= e1 - ex)%Z) by (unfold e1; lia).
  pose proof (err_Q n d (e1 - ex) m1 ex x Hd HK Hx Herr) as Hnear.
  replace (ex + (e1 - ex))%Z with e1 in Hnear by lia. exact Hnear.
Qed.

(* a value on the grid is returned exactly *)
Lemma grid_snap m1 K e1 : near (inject_Z m1 * pow2 e1) (inject_Z K * pow2 e1) (pow2 (e1 - 1)) -> m1 = K.
Proof.
  unfold near. intros [H1 H2]. pose proof (pow2_pos e1) as HP. pose proof (pow2_half e1) as Hh.
  set (P := pow2 e1) in *. set (h := pow2 (e1 - 1)) in *. set (M := inject_Z m1) in *. set (Kq := inject_Z K) in *.
  assert (G1 : - 1 <= 2 * M - 2 * Kq) by nra.
  assert (G2 : 2 * M - 2 * Kq <= 1) by nra.
  assert (E1 : inject_Z (-1) <= inject_Z (2 * m1 - 2 * K)).
  { unfold Z.sub. rewrite inject_Z_plus, inject_Z_opp, !inject_Z_mult. fold M Kq. change (inject_Z (-1)) with (-1). change (inject_Z 2) with 2. lra. }
  assert (E2 : inject_Z (2 * m1 - 2 * K) <= inject_Z 1).
  { unfold Z.sub. rewrite inject_Z_plus, inject_Z_opp, !inject_Z_mult. fold M Kq. change (inject_Z 1) with 1. change (inject_Z 2) with 2. lra. }
  rewrite <- Zle_Qle in E1, E2. lia.
Qed.

(* an integer is on every grid of exponent <= 0 *)
Lemma int_on_grid A e1 : (e1 <= 0)%Z -> inject_Z A == inject_Z (A * 2 ^ (- e1)) * pow2 e1.
Proof.
  intros He. rewrite inject_Z_mult. rewrite <- (pow2_Z (- e1)) by lia. rewrite <- Qmult_assoc, <- pow2_add.
  replace (- e1 + e1)%Z with 0%Z by lia. rewrite pow2_0. ring.
Qed.

(* rounding does not cross an integer below / above the exact value *)
Lemma grid_floor m1 e1 x A : (e1 <= 0)%Z -> near (inject_Z m1 * pow2 e1) x (pow2 (e1 - 1)) -> inject_Z A <= x ->
  inject_Z A <= inject_Z m1 * pow2 e1.
Proof.
  intros He [H1 H2] HA. rewrite (int_on_grid A e1 He) in *.
  pose proof (pow2_pos e1) as HP. pose proof (pow2_half e1) as Hh.
  set (K := (A * 2 ^ (- e1))%Z) in *.
  set (P := pow2 e1) in *. set (h := pow2 (e1 - 1)) in *.
  assert (G : inject_Z (-1) <= inject_Z (2 * m1 - 2 * K)).
  { unfold Z.sub. rewrite inject_Z_plus, inject_Z_opp, !inject_Z_mult. change (inject_Z (-1)) with (-1). change (inject_Z 2) with 2. nra. }
  rewrite <- Zle_Qle in G. assert (GK : (K <= m1)%Z) by lia. rewrite Zle_Qle in GK. nra.
Qed.
Lemma grid_ceil m1 e1 x A : (e1 <= 0)%Z -> near (inject_Z m1 * pow2 e1) x (pow2 (e1 - 1)) -> x <= inject_Z A ->
  inject_Z m1 * pow2 e1 <= inject_Z A.
Proof.
  intros He [H1 H2] HA. rewrite (int_on_grid A e1 He) in *.
  pose proof (pow2_pos e1) as HP. pose proof (pow2_half e1) as Hh.
  set (K := (A * 2 ^ (- e1))%Z) in *.
  set (P := pow2 e1) in *. set (h := pow2 (e1 - 1)) in *.
  assert (G : inject_Z (2 * m1 - 2 * K) <= inject_Z 1).
  { unfold Z.sub. rewrite inject_Z_plus, inject_Z_opp, !inject_Z_mult. change (inject_Z 1) with 1. change (inject_Z 2) with 2. nra. }
  rewrite <- Zle_Qle in G. assert (GK : (m1 <= K)%Z) by lia. rewrite Zle_Qle in GK. nra.
Qed.

Lemma near_eq v x x' e : near v x e -> x == x' -> near v x' e.
Proof. unfold near. intros [H1 H2] E. rewrite <- E. split; assumption. Qed.

Global Instance sgn_comp : Proper (eq ==> Qeq ==> Qeq) sgn.
Proof. intros s s' <- a b E. destruct s; cbn [sgn]; rewrite E; reflexivity. Qed.

Lemma sgn_sgn s v : sgn s (sgn s v) == v.
Proof. destruct s; cbn [sgn]; ring. Qed.

(* a product that is an integer below 2^24 is exact *)
Theorem mul_exact_int a b k Ba Bb : is_fin a -> is_fin b ->
  - pow2 Ba < SFv a < pow2 Ba -> - pow2 Bb < SFv b < pow2 Bb -> (Ba + Bb <= 105)%Z ->
  SFv a * SFv b == inject_Z k -> (Z.abs k < 2 ^ 24)%Z ->
  is_fin (f32_mul a b) /\ SFv (f32_mul a b) == inject_Z k.
Proof.
  intros Ha Hb Hba Hbb HB2 Hk Hk24.
  destruct a as [sa|sa| |sa ma ea]; try contradiction; destruct b as [sb|sb| |sb mb eb]; try contradiction;
    unfold f32_mul; cbn [SFmul].
  1-3: split; [exact I|]; cbn [SFv] in *; rewrite <- Hk; ring.
  pose proof (fin_exp _ _ _ _ Hba). pose proof (fin_exp _ _ _ _ Hbb).
  assert (HX : inject_Z (Z.pos (ma * mb)) * pow2 (ea + eb) == (inject_Z (Z.pos ma) * pow2 ea) * (inject_Z (Z.pos mb) * pow2 eb)).
  { rewrite Pos2Z.inj_mul, inject_Z_mult, pow2_add. ring. }
  cbn [SFv] in Hk |- *.
  pose proof (pos_ge1 ma). pose proof (pos_ge1 mb). pose proof (pow2_pos ea). pose proof (pow2_pos eb).
  set (A := inject_Z (Z.pos ma) * pow2 ea) in *. set (Bv := inject_Z (Z.pos mb) * pow2 eb) in *.
  assert (HA : 0 < A) by (unfold A; nra). assert (HBv : 0 < Bv) by (unfold Bv; nra).
  set (mx := Z.pos (ma * mb)) in *. set (ex := (ea + eb)%Z) in *.
  (* the magnitude of the product is the integer |k| *)
  assert (Hak : inject_Z mx * pow2 ex == inject_Z (Z.abs k)).
  { rewrite HX. destruct sa, sb; cbn [sgn] in Hk.
    - assert (E : inject_Z k == A * Bv) by (rewrite <- Hk; ring).
      assert (0 <= k)%Z by (rewrite Zle_Qle; rewrite E; change (inject_Z 0) with 0; nra). rewrite Z.abs_eq by assumption. rewrite E. reflexivity.
    - assert (E : inject_Z k == - (A * Bv)) by (rewrite <- Hk; ring).
      assert (k <= 0)%Z by (rewrite Zle_Qle; rewrite E; change (inject_Z 0) with 0; nra). rewrite Z.abs_neq by assumption. rewrite inject_Z_opp, E. ring.
    - assert (E : inject_Z k == - (A * Bv)) by (rewrite <- Hk; ring).
      assert (k <= 0)%Z by (rewrite Zle_Qle; rewrite E; change (inject_Z 0) with 0; nra). rewrite Z.abs_neq by assumption. rewrite inject_Z_opp, E. ring.
    - assert (E : inject_Z k == A * Bv) by (rewrite <- Hk; ring).
      assert (0 <= k)%Z by (rewrite Zle_Qle; rewrite E; change (inject_Z 0) with 0; nra). rewrite Z.abs_eq by assumption. rewrite E. reflexivity. }
  assert (Hlt : inject_Z mx * pow2 ex < pow2 24).
  { rewrite Hak. rewrite (pow2_Z 24) by lia. rewrite <- Zlt_Qlt. assumption. }
  assert (Hx1 : inject_Z mx * inject_Z 1 == inject_Z mx) by (change (inject_Z 1) with 1; ring).
  pose proof (bra_grid (xorb sa sb) mx 1 ex (inject_Z mx) 24 ltac:(unfold mx; lia) ltac:(lia) Hx1 Hlt ltac:(unfold ex; lia)
                ltac:(rewrite fexp32_eq; lia)) as Hg.
  rewrite Z.div_1_r in Hg.
  assert (Eloc : loc_of mx 1 = loc_Exact) by (unfold loc_of; rewrite Z.mod_1_r; reflexivity).
  rewrite Eloc in Hg. destruct Hg as [m1 [e1 [Hm1 [He1 [Hfin [Hval Hnear]]]]]].
  replace (fexp32 24) with 0%Z in He1 by (rewrite fexp32_eq; lia).
  split; [exact Hfin|]. rewrite Hval.
  assert (Hexact : inject_Z m1 * pow2 e1 == inject_Z (Z.abs k)).
  { destruct (Z_le_gt_dec e1 0) as [Hle|Hgt].
    - rewrite (int_on_grid (Z.abs k) e1 Hle).
      rewrite (grid_snap m1 (Z.abs k * 2 ^ (- e1)) e1); [reflexivity|].
      apply (near_eq _ _ _ _ Hnear). rewrite Hak. apply int_on_grid. exact Hle.
    - assert (E : e1 = ex) by lia. rewrite E in *.
      rewrite (grid_snap m1 mx ex Hnear). exact Hak. }
  destruct sa, sb; cbn [sgn xorb] in Hk |- *; rewrite Hexact; rewrite <- Hak, HX; rewrite <- Hk; ring.
Qed.

(* division of a float of either sign by a positive one: the magnitude of the result lies on the grid of an
   exponent e1 <= fexp32 B and within half a unit 2^e1 of the exact magnitude xq < 2^B *)
Theorem div_grid a b xq B sg : is_fin a -> is_fin b -> 0 < SFv b -> 0 <= xq ->
  xq * SFv b == sgn sg (SFv a) -> xq < pow2 B -> (fexp32 B <= 103)%Z ->
  exists m1 e1, (0 <= m1)%Z /\ (e1 <= fexp32 B)%Z /\ is_fin (f32_div a b) /\
    SFv (f32_div a b) == sgn sg (inject_Z m1 * pow2 e1) /\ near (inject_Z m1 * pow2 e1) xq (pow2 (e1 - 1)).
Proof.
  intros Ha Hb Hb0 Hxq0 Hxq Hlt HB.
  destruct b as [sb|sb| |sb mb eb]; try contradiction; [cbn [SFv] in Hb0; lra|].
  pose proof (pos_ge1 mb) as Hmb1. pose proof (pow2_pos eb) as Hpeb.
  destruct sb; [cbn [SFv sgn] in Hb0; nra|]. cbn [SFv sgn] in Hxq, Hb0.
  destruct a as [sa|sa| |sa ma ea]; try contradiction; unfold f32_div; cbn [SFdiv].
  - exists 0%Z, (fexp32 B). split; [lia|]. split; [lia|]. split; [exact I|]. cbn [SFv] in *.
    assert (Hz : xq == 0) by (destruct sg; cbn [sgn] in Hxq; nra).
    split; [destruct sg; cbn [sgn]; change (inject_Z 0) with 0; ring|].
    unfold near. change (inject_Z 0) with 0. pose proof (pow2_pos (fexp32 B - 1)). lra.
  - pose proof (pos_ge1 ma) as Hma1. pose proof (pow2_pos ea) as Hpea.
    assert (Esg : sa = sg).
    { cbn [SFv] in Hxq. destruct sa, sg; cbn [sgn] in Hxq; try reflexivity; exfalso; nra. }
    subst sa. cbn [SFv] in Hxq. rewrite sgn_sgn in Hxq.
    replace (xorb sg false) with sg by (destruct sg; reflexivity).
    rewrite div_core_spec.
    set (d1 := Zdigits2 (Z.pos ma)) in *. set (d2 := Zdigits2 (Z.pos mb)) in *.
    set (e' := Z.min (fexp32 (d1 + ea - (d2 + eb))) (ea - eb)).
    set (s := (ea - eb - e')%Z). assert (Hs : (0 <= s)%Z) by (unfold s, e'; lia).
    set (n := (Z.pos ma * 2 ^ s)%Z).
    assert (Hn : (0 <= n)%Z) by (unfold n; assert (0 < 2 ^ s)%Z by (apply Z.pow_pos_nonneg; lia); lia).
    set (x := inject_Z n / inject_Z (Z.pos mb)).
    assert (Hmbne : ~ inject_Z (Z.pos mb) == 0) by lra.
    assert (Hx : x * inject_Z (Z.pos mb) == inject_Z n) by (unfold x; field; assumption).
    assert (Hxe : x * pow2 e' == xq).
    { apply (Qmult_inj_r _ _ (inject_Z (Z.pos mb) * pow2 eb)); [nra|]. rewrite Hxq.
      transitivity (x * inject_Z (Z.pos mb) * (pow2 e' * pow2 eb)); [ring|]. rewrite Hx. unfold n.
      rewrite inject_Z_mult. rewrite <- (pow2_Z s Hs). rewrite <- pow2_add.
      rewrite <- Qmult_assoc. rewrite <- pow2_add. replace (s + (e' + eb))%Z with ea by (unfold s; lia). reflexivity. }
    assert (He' : (e' <= fexp32 B)%Z).
    { assert (Hdel : (d1 + ea - (d2 + eb) <= B)%Z).
      { destruct (dg_Q ma) as [Hlo1 _]. destruct (dg_Q mb) as [_ Hhi2]. fold d1 in Hlo1. fold d2 in Hhi2.
        assert (G : pow2 (d1 - 1 + ea) < pow2 (B + d2 + eb)).
        { rewrite !pow2_add. pose proof (pow2_pos d2). pose proof (pow2_pos B).
          set (P1 := pow2 (d1 - 1)) in *. set (P2 := pow2 d2) in *. set (MA := inject_Z (Z.pos ma)) in *.
          set (MB := inject_Z (Z.pos mb)) in *. set (pa := pow2 ea) in *. set (pb := pow2 eb) in *. set (PB := pow2 B) in *.
          assert (S1 : P1 * pa <= MA * pa) by nra.
          assert (S2 : xq * MB <= xq * P2) by nra.
          assert (S3 : xq * P2 < PB * P2) by nra.
          assert (S4 : xq * MB * pb < PB * P2 * pb) by nra.
          nra. }
        apply pow2_lt_inv in G. lia. }
      pose proof (fexp32_mono _ _ Hdel). unfold e'. lia. }
    destruct (bra_grid sg n (Z.pos mb) e' x B Hn ltac:(lia) Hx ltac:(rewrite Hxe; assumption) ltac:(lia) HB)
      as [m1 [e1 [Hm1 [He1 [Hfin [Hval Hnear]]]]]].
    exists m1, e1. split; [exact Hm1|]. split; [lia|]. split; [exact Hfin|]. split; [exact Hval|].
    apply (near_eq _ _ _ _ Hnear). exact Hxe.
Qed.

(* ------------------------------------------------------------------------------------------------ *)
(* 2. mode 1: the quotient of two integers below 2^24, truncated, is exact                           *)

Lemma trunc_unique (V A : Z) (M : Q) : inject_Z A <= M < inject_Z A + 1 -> inject_Z V <= M < inject_Z V + 1 -> V = A.
Proof.
  intros [A1 A2] [V1 V2].
  assert (H1 : inject_Z V < inject_Z (A + 1)) by (rewrite inject_Z_plus; change (inject_Z 1) with 1; lra).
  assert (H2 : inject_Z A < inject_Z (V + 1)) by (rewrite inject_Z_plus; change (inject_Z 1) with 1; lra).
  rewrite <- Zlt_Qlt in H1, H2. lia.
Qed.

(* the binade of an integer *)
Lemma binade (A : Z) : (1 <= A)%Z -> exists B, (1 <= B)%Z /\ (2 ^ (B - 1) <= A < 2 ^ B)%Z.
Proof.
  intros HA. exists (Z.log2 A + 1)%Z. pose proof (Z.log2_nonneg A). split; [lia|].
  replace (Z.log2 A + 1 - 1)%Z with (Z.log2 A) by lia.
  pose proof (Z.log2_spec A ltac:(lia)) as Hs. unfold Z.succ in Hs. exact Hs.
Qed.

Theorem div_int_trunc a b n r : is_fin a -> is_fin b -> SFv a == inject_Z n -> SFv b == inject_Z r ->
  (Z.abs n < 2 ^ 24)%Z -> (0 < r < 2 ^ 24)%Z -> f32_to_Z (f32_div a b) = Z.quot n r.
Proof.
  intros Ha Hb Va Vb Hn Hr. change (2 ^ 24)%Z with 16777216%Z in *.
  set (sg := (n <? 0)%Z). set (N := Z.abs n).
  assert (HN0 : (0 <= N)%Z) by (unfold N; lia).
  set (Rq := inject_Z r). assert (HR0 : 0 < Rq) by (apply inject_Z_pos_lt; lia).
  assert (HR1 : 1 <= Rq) by (unfold Rq; change 1 with (inject_Z 1); rewrite <- Zle_Qle; lia).
  assert (HR24 : Rq < 16777216 # 1) by (unfold Rq; change (16777216 # 1) with (inject_Z 16777216); rewrite <- Zlt_Qlt; lia).
  set (Nq := inject_Z N). assert (HNq0 : 0 <= Nq) by (apply inject_Z_nonneg; assumption).
  assert (HNq24 : Nq < 16777216 # 1) by (unfold Nq; change (16777216 # 1) with (inject_Z 16777216); rewrite <- Zlt_Qlt; unfold N; lia).
  set (xq := Nq / Rq).
  assert (Hxr : xq * Rq == Nq) by (unfold xq; field; lra).
  assert (Hxq0 : 0 <= xq) by nra.
  assert (HsgN : sgn sg (SFv a) == Nq).
  { rewrite Va. unfold sg, Nq, N. destruct (Z.ltb_spec n 0) as [L|L]; cbn [sgn].
    - rewrite Z.abs_neq by lia. rewrite inject_Z_opp. reflexivity.
    - rewrite Z.abs_eq by lia. reflexivity. }
  assert (Hxq : xq * SFv b == sgn sg (SFv a)) by (rewrite HsgN, Vb; exact Hxr).
  assert (Hb0 : 0 < SFv b) by (rewrite Vb; exact HR0).
  set (A := (N / r)%Z).
  pose proof (Z.div_mod N r ltac:(lia)) as Hdm. pose proof (Z.mod_pos_bound N r ltac:(lia)) as Hrem. fold A in Hdm.
  assert (HA0 : (0 <= A)%Z) by (apply Z.div_pos; lia).
  set (Aq := inject_Z A). assert (HAq0 : 0 <= Aq) by (apply inject_Z_nonneg; assumption).
  assert (HArN : Aq * Rq <= Nq) by (unfold Aq, Rq, Nq; rewrite <- inject_Z_mult, <- Zle_Qle; nia).
  assert (HNAr : Nq + 1 <= Aq * Rq + Rq).
  { unfold Aq, Rq, Nq. change 1 with (inject_Z 1). rewrite <- inject_Z_mult, <- !inject_Z_plus, <- Zle_Qle. nia. }
  assert (HAx : Aq <= xq) by nra.
  (* A <= M < A + 1 for the magnitude M of the rounded quotient *)
  assert (G : exists M, 0 <= M /\ is_fin (f32_div a b) /\ SFv (f32_div a b) == sgn sg M /\ Aq <= M < Aq + 1).
  { destruct (Z.eq_dec A 0) as [EA|NA].
    - assert (Hx1 : xq < pow2 0) by (rewrite pow2_0; unfold Aq in *; rewrite EA in *; change (inject_Z 0) with 0 in *; nra).
      destruct (div_grid a b xq 0 sg Ha Hb Hb0 Hxq0 Hxq Hx1 ltac:(rewrite fexp32_eq; lia))
        as [m1 [e1 [Hm1 [He1 [Hfin [Hval Hnear]]]]]].
      replace (fexp32 0) with (-24)%Z in He1 by (rewrite fexp32_eq; lia).
      exists (inject_Z m1 * pow2 e1). pose proof (pow2_pos e1). pose proof (inject_Z_nonneg m1 Hm1).
      split; [nra|]. split; [exact Hfin|]. split; [exact Hval|]. split.
      + apply (grid_floor m1 e1 xq A ltac:(lia) Hnear). exact HAx.
      + pose proof (pow2_le (e1 - 1) (-25) ltac:(lia)) as Hple. assert (E25 : pow2 (-25) == 1 # 33554432) by reflexivity.
        unfold near in Hnear. unfold Aq in *. rewrite EA in *. change (inject_Z 0) with 0 in *.
        set (M := inject_Z m1 * pow2 e1) in *. set (h := pow2 (e1 - 1)) in *.
        assert (M * Rq < Rq); [|nra]. nra.
    - destruct (binade A ltac:(lia)) as [B [HB1 [HBlo HBhi]]].
      assert (HB24 : (B <= 24)%Z).
      { assert (A < 16777216)%Z by nia. destruct (Z_le_gt_dec B 24) as [|Hgt]; [assumption|exfalso].
        assert (2 ^ 24 <= 2 ^ (B - 1))%Z by (apply Z.pow_le_mono_r; lia). change (2 ^ 24)%Z with 16777216%Z in *. lia. }
      assert (HPlo : pow2 (B - 1) <= Aq) by (rewrite pow2_Z by lia; unfold Aq; rewrite <- Zle_Qle; exact HBlo).
      assert (HPhi : Aq + 1 <= pow2 B).
      { rewrite pow2_Z by lia. unfold Aq. change 1 with (inject_Z 1). rewrite <- inject_Z_plus, <- Zle_Qle. lia. }
      assert (Hx1 : xq < pow2 B) by nra.
      destruct (div_grid a b xq B sg Ha Hb Hb0 Hxq0 Hxq Hx1 ltac:(rewrite fexp32_eq; lia))
        as [m1 [e1 [Hm1 [He1 [Hfin [Hval Hnear]]]]]].
      replace (fexp32 B) with (B - 24)%Z in He1 by (rewrite fexp32_eq; lia).
      exists (inject_Z m1 * pow2 e1). pose proof (pow2_pos e1). pose proof (inject_Z_nonneg m1 Hm1).
      split; [nra|]. split; [exact Hfin|]. split; [exact Hval|]. split.
      + apply (grid_floor m1 e1 xq A ltac:(lia) Hnear). exact HAx.
      + pose proof (pow2_le (e1 - 1) (B - 1 + -24) ltac:(lia)) as Hple. rewrite pow2_add in Hple.
        assert (E24 : pow2 (-24) == 1 # 16777216) by reflexivity. rewrite E24 in Hple.
        unfold near in Hnear.
        set (M := inject_Z m1 * pow2 e1) in *. set (h := pow2 (e1 - 1)) in *. set (PB := pow2 (B - 1)) in *.
        assert (Hh : h * (16777216 # 1) <= Aq) by lra.
        assert (Hh2 : h * (16777216 # 1) * Rq <= Nq) by nra.
        assert (Hh3 : h * Rq < 1) by nra.
        assert (M * Rq < Aq * Rq + Rq); [|nra]. nra. }
  destruct G as [M [HM0 [Hfin [Hval [HM1 HM2]]]]].
  assert (H62 : - pow2 62 < SFv (f32_div a b) < pow2 62).
  { assert (E62 : pow2 62 == 4611686018427387904 # 1) by reflexivity. rewrite E62, Hval.
    assert (Aq < 16777216 # 1) by nra. destruct sg; cbn [sgn]; lra. }
  destruct (to_Z_trunc _ Hfin H62) as [Tpos Tneg]. set (V := f32_to_Z (f32_div a b)) in *.
  unfold sg in *. destruct (Z.ltb_spec n 0) as [L|L]; cbn [sgn] in Hval.
  - specialize (Tneg ltac:(lra)). rewrite Hval in Tneg.
    assert (E : (- V)%Z = A).
    { apply (trunc_unique _ _ M); [split; assumption|]. rewrite inject_Z_opp. lra. }
    replace n with (- N)%Z by (unfold N; lia). rewrite Z.quot_opp_l by lia. rewrite Z.quot_div_nonneg by lia. fold A. lia.
  - specialize (Tpos ltac:(lra)). rewrite Hval in Tpos.
    assert (E : V = A) by (apply (trunc_unique _ _ M); [split; assumption|exact Tpos]).
    replace n with N by (unfold N; lia). rewrite Z.quot_div_nonneg by lia. exact E.
Qed.

Lemma int_lt_pow2 z b : (0 <= b)%Z -> (Z.abs z < 2 ^ b)%Z -> - pow2 b < inject_Z z < pow2 b.
Proof.
  intros Hb Hz. rewrite pow2_Z by assumption. rewrite <- inject_Z_opp, <- !Zlt_Qlt. lia.
Qed.

(* (d as f32 * 8192f32 / R as f32) as isize *)
Theorem bend_raw_exact d R : (Z.abs d <= 2047)%Z -> (0 < R < 2 ^ 24)%Z ->
  f32_to_Z (f32_div (f32_mul (f32_of_Z d) (f32_of_Z 8192)) (f32_of_Z R)) = Z.quot (d * 8192) R.
Proof.
  intros Hd HR.
  destruct (of_Z_exact d ltac:(change (2 ^ 24)%Z with 16777216%Z; lia)) as [FD VD].
  destruct (of_Z_exact 8192 ltac:(change (2 ^ 24)%Z with 16777216%Z; lia)) as [FK VK].
  destruct (of_Z_exact R ltac:(lia)) as [FR VR].
  destruct (mul_exact_int (f32_of_Z d) (f32_of_Z 8192) (d * 8192) 24 24 FD FK) as [FM VM].
  - rewrite VD. apply int_lt_pow2; [lia|]. change (2 ^ 24)%Z with 16777216%Z; lia.
  - rewrite VK. apply int_lt_pow2; [lia|]. change (2 ^ 24)%Z with 16777216%Z; lia.
  - lia.
  - rewrite VD, VK, inject_Z_mult. reflexivity.
  - change (2 ^ 24)%Z with 16777216%Z; lia.
  - apply (div_int_trunc _ _ (d * 8192) R FM FR VM VR); [change (2 ^ 24)%Z with 16777216%Z; lia | exact HR].
Qed.

Theorem bend_value_exact d R : (Z.abs d <= 2047)%Z -> (0 < R < 2 ^ 24)%Z ->
  bend_value d R = value_range 0 (Z.quot (d * 8192) R + 8192) 16383.
Proof. intros Hd HR. unfold bend_value. rewrite (bend_raw_exact d R Hd HR). reflexivity. Qed.

(* ------------------------------------------------------------------------------------------------ *)
(* 3. mode 0: the glide (bf as f32 * (i as f32 / tv as f32)) as isize                                 *)

Ltac qzg := unfold Z.sub; repeat (first [rewrite inject_Z_mult | rewrite inject_Z_plus | rewrite inject_Z_opp]).

(* the product before truncation is within 2 * 2^(b-25) of the exact value y = bf * j / tv *)
Lemma port_core (b bf j tv : Z) :
  (0 <= b <= 23)%Z -> (Z.abs bf < 2 ^ b)%Z -> (0 <= j < tv)%Z -> (tv < 2 ^ 24)%Z ->
  exists P y : Q, y * inject_Z tv == inject_Z (bf * j) /\ near P y (2 * pow2 (b - 25)) /\
    (0 <= P -> inject_Z (port_v bf j tv) <= P < inject_Z (port_v bf j tv) + 1) /\
    (P <= 0 -> inject_Z (port_v bf j tv) - 1 < P <= inject_Z (port_v bf j tv)).
Proof.
  intros [Hb Hb23] Hbf Hj Hlen.
  assert (Hpb : (0 < 2 ^ b)%Z) by (apply Z.pow_pos_nonneg; lia).
  assert (Hpb23 : (2 ^ b <= 2 ^ 23)%Z) by (apply Z.pow_le_mono_r; lia).
  change (2 ^ 23)%Z with 8388608%Z in Hpb23. change (2 ^ 24)%Z with 16777216%Z in Hlen.
  destruct (of_Z_exact j ltac:(change (2 ^ 24)%Z with 16777216%Z; lia)) as [FJ VJ].
  destruct (of_Z_exact tv ltac:(change (2 ^ 24)%Z with 16777216%Z; lia)) as [FL VL].
  destruct (of_Z_exact bf ltac:(change (2 ^ 24)%Z with 16777216%Z; lia)) as [FD VD].
  unfold port_v.
  set (fj := f32_of_Z j) in *. set (fl := f32_of_Z tv) in *. set (fd := f32_of_Z bf) in *.
  set (J := inject_Z j) in *. set (L := inject_Z tv) in *. set (Dq := inject_Z bf) in *.
  assert (HJ0 : 0 <= J) by (apply inject_Z_nonneg; lia).
  assert (HJL : J + 1 <= L) by (unfold J, L; change 1 with (inject_Z 1); rewrite <- inject_Z_plus, <- Zle_Qle; lia).
  pose proof (pow2_Z b Hb) as HPb.
  assert (HDb : - pow2 b + 1 <= Dq <= pow2 b - 1).
  { rewrite HPb. unfold Dq. change 1 with (inject_Z 1). rewrite <- inject_Z_opp, <- inject_Z_plus.
    unfold Qminus. rewrite <- inject_Z_opp, <- inject_Z_plus, <- !Zle_Qle. lia. }
  set (u := pow2 (b - 25)).
  assert (Hu : pow2 b == u * (33554432 # 1)).
  { unfold u. replace b with ((b - 25) + 25)%Z at 1 by lia. rewrite pow2_add. reflexivity. }
  assert (Hu0 : 0 < u) by apply pow2_pos.
  assert (Hu1 : u <= 1 # 4).
  { assert (pow2 b <= 8388608 # 1) by (rewrite HPb; change (8388608 # 1) with (inject_Z 8388608); rewrite <- Zle_Qle; lia). lra. }
  (* q = j / tv *)
  set (xq := J / L). assert (HL0 : 0 < L) by lra.
  assert (Hxq : xq * SFv fl == SFv fj) by (rewrite VJ, VL; unfold xq; field; lra).
  assert (Hxq' : xq * L == J) by (unfold xq; field; lra).
  assert (Hxq0 : 0 <= xq) by nra. assert (Hxq1 : xq < 1).
  { destruct (Qlt_le_dec xq 1) as [|Hge]; [assumption|exfalso]. assert (0 <= (xq - 1) * L) by nra. lra. }
  destruct (div_err fj fl xq 0 FJ FL ltac:(rewrite VJ; exact HJ0) ltac:(rewrite VL; exact HL0) Hxq
              ltac:(rewrite pow2_0; exact Hxq1) ltac:(rewrite fexp32_eq; lia)) as [FQ NQ].
  replace (fexp32 0 - 1)%Z with (-25)%Z in NQ by (rewrite fexp32_eq; lia).
  assert (E25 : pow2 (-25) == 1 # 33554432) by reflexivity. unfold near in NQ. rewrite E25 in NQ.
  set (q := f32_div fj fl) in *. set (Q := SFv q) in *.
  (* p = bf * q *)
  assert (HPb1 : 1 <= pow2 b) by (apply pow2_ge1; assumption).
  assert (HQ : - (1 # 33554432) <= Q <= 1 + (1 # 33554432)) by lra.
  assert (HDQ : - pow2 b < Dq * Q < pow2 b).
  { assert (HDQ1 : Dq * Q <= (pow2 b - 1) * (1 + (1 # 33554432))).
    { destruct (Qlt_le_dec Dq 0) as [Dn|Dp]; [|nra].
      assert (Dq * Q <= - Dq * (1 # 33554432)) by nra. nra. }
    assert (HDQ2 : - ((pow2 b - 1) * (1 + (1 # 33554432))) <= Dq * Q).
    { destruct (Qlt_le_dec Dq 0) as [Dn|Dp]; [nra|].
      assert (- (Dq * (1 # 33554432)) <= Dq * Q) by nra. nra. }
    split; nra. }
  destruct (mul_err fd q b 1 b FD FQ ltac:(rewrite VD; lra)
              ltac:(change (pow2 1) with (2 # 1); fold Q; lra) ltac:(lia)
              ltac:(rewrite VD; fold Q; exact HDQ) ltac:(rewrite fexp32_eq; lia)) as [FP NP].
  replace (fexp32 b - 1)%Z with (b - 25)%Z in NP by (rewrite fexp32_eq; lia). fold u in NP.
  unfold near in NP. rewrite VD in NP. fold Q in NP.
  set (p := f32_mul fd q) in *. set (P := SFv p) in *.
  set (y := Dq * xq).
  assert (HDerr : - u <= Dq * Q - Dq * xq <= u).
  { assert (HQx : - (1 # 33554432) <= Q - xq <= 1 # 33554432) by lra.
    destruct (Qlt_le_dec Dq 0) as [Dn|Dp].
    - assert (Dq * (1 # 33554432) <= Dq * (Q - xq) <= - Dq * (1 # 33554432)) by nra. nra.
    - assert (- Dq * (1 # 33554432) <= Dq * (Q - xq) <= Dq * (1 # 33554432)) by nra. nra. }
  assert (HP62 : - pow2 62 < P < pow2 62).
  { assert (pow2 b <= pow2 61) by (apply pow2_le; lia). assert (pow2 61 * 2 == pow2 62) by apply (pow2_half 62).
    pose proof (pow2_ge1 61 ltac:(lia)). lra. }
  destruct (to_Z_trunc p FP HP62) as [Tpos Tneg]. fold P in Tpos, Tneg.
  exists P, y. split; [|split; [|split]].
  - unfold y. rewrite inject_Z_mult. fold Dq J. rewrite <- Hxq'. ring.
  - unfold near, y. lra.
  - exact Tpos.
  - exact Tneg.
Qed.

(* any length below 2^24: v lies between 0 and the line, |y| - 1 - e < |v| <= |y| + e with e = 2^(b-24) *)
Theorem port_accuracy_any (b bf j tv : Z) :
  (0 <= b <= 23)%Z -> (Z.abs bf < 2 ^ b)%Z -> (0 <= j < tv)%Z -> (tv < 2 ^ 24)%Z ->
  ((0 <= bf -> 0 <= port_v bf j tv) /\ (bf <= 0 -> port_v bf j tv <= 0) /\
   (Z.abs (port_v bf j tv) * tv - Z.abs bf * j) * 2 ^ 24 <= 2 ^ b * tv /\
   (Z.abs bf * j - (Z.abs (port_v bf j tv) + 1) * tv) * 2 ^ 24 < 2 ^ b * tv)%Z.
Proof.
  intros Hb Hbf Hj Hlen.
  destruct (port_core b bf j tv Hb Hbf Hj Hlen) as [P [y [HyL [[N1 N2] [Tpos Tneg]]]]].
  set (v := port_v bf j tv) in *. set (V := inject_Z v) in *. set (L := inject_Z tv) in *.
  assert (HL1 : 1 <= L) by (unfold L; change 1 with (inject_Z 1); rewrite <- Zle_Qle; lia).
  set (u := pow2 (b - 25)) in *.
  assert (Hu : pow2 b == u * (33554432 # 1)).
  { unfold u. replace b with ((b - 25) + 25)%Z at 1 by lia. rewrite pow2_add. reflexivity. }
  assert (Hu0 : 0 < u) by apply pow2_pos.
  assert (Hu1 : u <= 1 # 4).
  { assert (pow2 b <= pow2 23) by (apply pow2_le; lia). assert (E : pow2 23 == 8388608 # 1) by reflexivity. lra. }
  pose proof (pow2_Z b ltac:(lia)) as HPb.
  set (Yq := inject_Z (bf * j)) in *.
  destruct (Z_le_gt_dec 0 bf) as [Hpos|Hneg].
  - assert (HY0 : 0 <= Yq) by (apply inject_Z_nonneg; nia).
    assert (G : V * L <= Yq + 2 * u * L /\ Yq - 2 * u * L < (V + 1) * L /\ -1 < V).
    { destruct (Qlt_le_dec P 0) as [Pneg|Ppos].
      - specialize (Tneg ltac:(lra)).
        assert (HV : V == 0).
        { assert (Hv1 : V < 1) by lra. assert (Hv2 : - 1 < V) by nra.
          unfold V in *. change 1 with (inject_Z 1) in Hv1. change (- 1) with (inject_Z (-1)) in Hv2.
          rewrite <- Zlt_Qlt in Hv1, Hv2. assert (E : v = 0%Z) by lia. rewrite E. reflexivity. }
        assert (y * L < 2 * u * L) by nra. rewrite HV. rewrite <- HyL. split; [nra|split; [nra|lra]].
      - specialize (Tpos Ppos). rewrite <- HyL. split; [nra|split; [nra|lra]]. }
    destruct G as [G1 [G2 G3]].
    assert (Hv0 : (0 <= v)%Z).
    { unfold V in G3. change (-1) with (inject_Z (-1)) in G3. rewrite <- Zlt_Qlt in G3. lia. }
    split; [intros _; exact Hv0|]. split.
    { intros Hle. assert (bf = 0)%Z by lia. subst bf.
      assert (Yq == 0) by (unfold Yq; rewrite Z.mul_0_l; reflexivity).
      assert (V < 1) by nra. unfold V in *. change 1 with (inject_Z 1) in *. rewrite <- Zlt_Qlt in *. lia. }
    rewrite (Z.abs_eq v) by assumption. rewrite (Z.abs_eq bf) by assumption. split.
    + rewrite Zle_Qle. qzg. change (inject_Z (2 ^ 24)) with (16777216 # 1). rewrite <- HPb, Hu.
      fold V L. assert (E : inject_Z bf * inject_Z j == Yq) by (unfold Yq; rewrite inject_Z_mult; reflexivity). nra.
    + rewrite Zlt_Qlt. qzg. change (inject_Z (2 ^ 24)) with (16777216 # 1). rewrite <- HPb, Hu.
      fold V L. assert (E : inject_Z bf * inject_Z j == Yq) by (unfold Yq; rewrite inject_Z_mult; reflexivity).
      change (inject_Z 1) with 1. nra.
  - assert (HY0 : Yq <= 0) by (unfold Yq; change 0 with (inject_Z 0); rewrite <- Zle_Qle; nia).
    assert (G : Yq - 2 * u * L <= V * L /\ (V - 1) * L < Yq + 2 * u * L /\ V < 1).
    { destruct (Qlt_le_dec 0 P) as [Ppos|Pneg].
      - specialize (Tpos ltac:(lra)).
        assert (HV : V == 0).
        { assert (Hv1 : V < 1) by nra. assert (Hv2 : - 1 < V) by lra.
          unfold V in *. change 1 with (inject_Z 1) in Hv1. change (- 1) with (inject_Z (-1)) in Hv2.
          rewrite <- Zlt_Qlt in Hv1, Hv2. assert (E : v = 0%Z) by lia. rewrite E. reflexivity. }
        assert (- (2 * u * L) < y * L) by nra. rewrite HV. rewrite <- HyL. split; [nra|split; [nra|lra]].
      - specialize (Tneg Pneg). rewrite <- HyL. split; [nra|split; [nra|lra]]. }
    destruct G as [G1 [G2 G3]].
    assert (Hv0 : (v <= 0)%Z).
    { unfold V in G3. change 1 with (inject_Z 1) in G3. rewrite <- Zlt_Qlt in G3. lia. }
    split; [intros; lia|]. split; [intros _; exact Hv0|].
    rewrite (Z.abs_neq v) by assumption. rewrite (Z.abs_neq bf) by lia. split.
    + rewrite Zle_Qle. qzg. change (inject_Z (2 ^ 24)) with (16777216 # 1). rewrite <- HPb, Hu.
      fold V L. assert (E : inject_Z bf * inject_Z j == Yq) by (unfold Yq; rewrite inject_Z_mult; reflexivity). nra.
    + rewrite Zlt_Qlt. qzg. change (inject_Z (2 ^ 24)) with (16777216 # 1). rewrite <- HPb, Hu.
      fold V L. assert (E : inject_Z bf * inject_Z j == Yq) by (unfold Yq; rewrite inject_Z_mult; reflexivity).
      change (inject_Z 1) with 1. nra.
Qed.

(* lengths tv with 2^b * tv < 2^24: v is the exact value bf * j / tv truncated toward 0, or one nearer to 0 when the
   exact value is an integer *)
Theorem port_accuracy (b bf j tv : Z) :
  (0 <= b)%Z -> (Z.abs bf < 2 ^ b)%Z -> (0 <= j < tv)%Z -> (2 ^ b * tv < 2 ^ 24)%Z ->
  ((0 <= bf -> 0 <= port_v bf j tv) /\ (bf <= 0 -> port_v bf j tv <= 0) /\
   Z.abs bf * j - tv <= Z.abs (port_v bf j tv) * tv <= Z.abs bf * j)%Z.
Proof.
  intros Hb Hbf Hj Hlen.
  assert (Hpb : (0 < 2 ^ b)%Z) by (apply Z.pow_pos_nonneg; lia).
  assert (Hb23 : (b <= 23)%Z).
  { assert (2 ^ b < 2 ^ 24)%Z by nia. assert (b < 24)%Z by (apply (Z.pow_lt_mono_r_iff 2); lia). lia. }
  assert (Hl24 : (tv < 2 ^ 24)%Z) by nia.
  destruct (port_accuracy_any b bf j tv ltac:(lia) Hbf Hj Hl24) as [H1 [H2 [H3 H4]]].
  split; [exact H1|]. split; [exact H2|].
  change (2 ^ 24)%Z with 16777216%Z in *. lia.
Qed.

Lemma quot_between (Y v tv : Z) : (0 <= Y)%Z -> (0 < tv)%Z -> (Y - tv <= v * tv <= Y)%Z -> (Y mod tv <> 0)%Z -> v = (Y / tv)%Z.
Proof.
  intros HY Htv Hv Hm. pose proof (Z.div_mod Y tv ltac:(lia)) as Hdm. pose proof (Z.mod_pos_bound Y tv Htv) as Hr.
  set (q := (Y / tv)%Z) in *. set (r := (Y mod tv)%Z) in *.
  assert (v <= q)%Z by nia. assert (q - 1 < v)%Z by nia. lia.
Qed.

(* off the lattice (tv does not divide bf * j) the value is exactly the truncated quotient *)
Theorem port_accuracy_exact (b bf j tv : Z) :
  (0 <= b)%Z -> (Z.abs bf < 2 ^ b)%Z -> (0 <= j < tv)%Z -> (2 ^ b * tv < 2 ^ 24)%Z ->
  ((bf * j) mod tv <> 0)%Z -> port_v bf j tv = Z.quot (bf * j) tv.
Proof.
  intros Hb Hbf Hj Hlen Hm.
  destruct (port_accuracy b bf j tv Hb Hbf Hj Hlen) as [H1 [H2 H3]].
  set (v := port_v bf j tv) in *.
  destruct (Z_le_gt_dec 0 bf) as [Hpos|Hneg].
  - specialize (H1 Hpos). rewrite (Z.abs_eq v) in H3 by assumption. rewrite (Z.abs_eq bf) in H3 by assumption.
    rewrite Z.quot_div_nonneg by nia. apply quot_between; try assumption; try nia; lia.
  - specialize (H2 ltac:(lia)). rewrite (Z.abs_neq v) in H3 by assumption. rewrite (Z.abs_neq bf) in H3 by lia.
    replace (bf * j)%Z with (- (- bf * j))%Z by ring. rewrite Z.quot_opp_l by lia. rewrite Z.quot_div_nonneg by nia.
    assert (E : (- v)%Z = (- bf * j / tv)%Z).
    { apply quot_between; try nia; try lia. intros E0. apply Hm.
      replace (bf * j)%Z with (- (- bf * j))%Z by ring. apply Z.mod_opp_l_z; [lia|exact E0]. }
    lia.
Qed.

(* bends of at most an octave at the track's range are not clamped *)
Theorem port_no_clamp (b bf j tv : Z) :
  (0 <= b)%Z -> (Z.abs bf < 2 ^ b)%Z -> (0 <= j < tv)%Z -> (2 ^ b * tv < 2 ^ 24)%Z -> (Z.abs bf <= 8192)%Z ->
  value_range 0 (port_v bf j tv + 8192) 16383 = (port_v bf j tv + 8192)%Z.
Proof.
  intros Hb Hbf Hj Hlen H8.
  destruct (port_accuracy b bf j tv Hb Hbf Hj Hlen) as [H1 [H2 H3]].
  set (v := port_v bf j tv) in *.
  assert (Hv : (Z.abs v <= 8191)%Z) by nia.
  unfold value_range. destruct (Z.ltb_spec (v + 8192) 0) as [L|L]; [lia|].
  destruct (Z.gtb_spec (v + 8192) 16383) as [G|G]; [lia|reflexivity].
Qed.

(* ------------------------------------------------------------------------------------------------ *)
(* 4. mode 0: the target of the glide (d as f32 * (8192f32 / R as f32)) as isize                      *)

Lemma pow2_m24 : pow2 (-24) == 1 # 16777216. Proof. reflexivity. Qed.
Lemma pow2_m23 : pow2 (-23) == 1 # 8388608. Proof. reflexivity. Qed.

Lemma binade_Q (A : Z) : (1 <= A)%Z -> exists B, (1 <= B)%Z /\ pow2 (B - 1) <= inject_Z A /\ inject_Z A + 1 <= pow2 B /\ (A < 2 ^ B)%Z.
Proof.
  intros HA. destruct (binade A HA) as [B [HB [Hlo Hhi]]]. exists B. split; [exact HB|]. split; [|split; [|exact Hhi]].
  - rewrite pow2_Z by lia. rewrite <- Zle_Qle. exact Hlo.
  - rewrite pow2_Z by lia. change 1 with (inject_Z 1). rewrite <- inject_Z_plus, <- Zle_Qle. lia.
Qed.

Lemma pow2_lt_le a b : (2 ^ (a - 1) < 2 ^ b)%Z -> (0 <= b)%Z -> (a <= b)%Z.
Proof.
  intros H Hb. destruct (Z_le_gt_dec a b) as [|Hgt]; [assumption|exfalso].
  assert (2 ^ b <= 2 ^ (a - 1))%Z by (apply Z.pow_le_mono_r; lia). lia.
Qed.

(* the product before truncation is within 1 / R of the exact value y = 8192 d / R *)
Lemma bend_from_core (d R : Z) : (Z.abs d <= 127)%Z -> (1 <= R <= 8192)%Z ->
  exists P y : Q, y * inject_Z R == inject_Z (d * 8192) /\ - 1 < (P - y) * inject_Z R < 1 /\
    (0 <= P -> inject_Z (bend_from d R) <= P < inject_Z (bend_from d R) + 1) /\
    (P <= 0 -> inject_Z (bend_from d R) - 1 < P <= inject_Z (bend_from d R)).
Proof.
  intros Hd HR.
  destruct (of_Z_exact d ltac:(change (2 ^ 24)%Z with 16777216%Z; lia)) as [FD VD].
  destruct (of_Z_exact 8192 ltac:(change (2 ^ 24)%Z with 16777216%Z; lia)) as [FK VK].
  destruct (of_Z_exact R ltac:(change (2 ^ 24)%Z with 16777216%Z; lia)) as [FR VR].
  unfold bend_from.
  set (fd := f32_of_Z d) in *. set (fk := f32_of_Z 8192) in *. set (fr := f32_of_Z R) in *.
  set (Dq := inject_Z d) in *. set (Rq := inject_Z R) in *.
  change (inject_Z 8192) with (8192 # 1) in VK.
  assert (HR1 : 1 <= Rq) by (unfold Rq; change 1 with (inject_Z 1); rewrite <- Zle_Qle; lia).
  assert (HR2 : Rq <= 8192 # 1) by (unfold Rq; change (8192 # 1) with (inject_Z 8192); rewrite <- Zle_Qle; lia).
  (* c = 8192 / R, in the binade of its integer part *)
  set (c := (8192 # 1) / Rq).
  assert (HcR : c * Rq == 8192 # 1) by (unfold c; field; lra).
  assert (Hc1 : 1 <= c) by nra. assert (Hc2 : c <= 8192 # 1) by nra.
  set (A := (8192 / R)%Z).
  pose proof (Z.div_mod 8192 R ltac:(lia)) as Hdm. pose proof (Z.mod_pos_bound 8192 R ltac:(lia)) as Hrem. fold A in Hdm.
  assert (HA1 : (1 <= A)%Z) by nia. assert (HA2 : (A <= 8192)%Z) by nia.
  assert (HAc : inject_Z A <= c).
  { assert (inject_Z A * Rq <= 8192 # 1) by (unfold Rq; rewrite <- inject_Z_mult; change (8192 # 1) with (inject_Z 8192); rewrite <- Zle_Qle; nia). nra. }
  assert (HcA : c < inject_Z A + 1).
  { assert ((8192 # 1) + 1 <= inject_Z A * Rq + Rq).
    { unfold Rq. rewrite <- inject_Z_mult, <- inject_Z_plus. change ((8192 # 1) + 1) with (inject_Z 8193). rewrite <- Zle_Qle. nia. }
    nra. }
  destruct (binade_Q A HA1) as [B [HB1 [HBlo [HBhi HBz]]]].
  assert (HB14 : (B <= 14)%Z).
  { destruct (binade A HA1) as [B0 [_ _]]. clear B0.
    destruct (Z_le_gt_dec B 14) as [|Hgt]; [assumption|exfalso].
    assert (pow2 14 <= pow2 (B - 1)) by (apply pow2_le; lia). assert (E : pow2 14 == 16384 # 1) by reflexivity. lra. }
  destruct (div_err fk fr c B FK FR ltac:(rewrite VK; lra) ltac:(rewrite VR; fold Rq; lra)
              ltac:(rewrite VK, VR; exact HcR) ltac:(lra) ltac:(rewrite fexp32_eq; lia)) as [FC NC].
  replace (fexp32 B - 1)%Z with (B - 1 + -24)%Z in NC by (rewrite fexp32_eq; lia).
  unfold near in NC. rewrite pow2_add, pow2_m24 in NC.
  set (fc := f32_div fk fr) in *. set (C := SFv fc) in *.
  set (e24 := 1 # 16777216) in *.
  assert (HC : - (c * e24) <= C - c <= c * e24) by (unfold e24 in *; nra).
  (* the magnitude of d *)
  set (Da := inject_Z (Z.abs d)).
  assert (HDa0 : 0 <= Da) by (apply inject_Z_nonneg; lia).
  assert (HDa1 : Da <= 127 # 1) by (unfold Da; change (127 # 1) with (inject_Z 127); rewrite <- Zle_Qle; lia).
  assert (Hsig : Dq == Da \/ Dq == - Da).
  { unfold Dq, Da. destruct (Z_le_gt_dec 0 d); [left; rewrite Z.abs_eq by lia; reflexivity|right; rewrite Z.abs_neq by lia; rewrite inject_Z_opp; ring]. }
  set (y := Dq * c). set (ya := Da * c).
  assert (Hya0 : 0 <= ya) by (unfold ya; nra).
  assert (HDC : - (ya * e24) <= Dq * C - y <= ya * e24).
  { unfold y, ya. destruct Hsig as [E|E]; rewrite E.
    - assert (- (Da * (c * e24)) <= Da * (C - c) <= Da * (c * e24)) by nra. lra.
    - assert (- (Da * (c * e24)) <= Da * (C - c) <= Da * (c * e24)) by nra. lra. }
  assert (Hyya : - ya <= y <= ya) by (unfold y, ya; destruct Hsig as [E|E]; rewrite E; nra).
  assert (HyR : y * Rq == inject_Z (d * 8192)).
  { unfold y. rewrite inject_Z_mult. fold Dq. change (inject_Z 8192) with (8192 # 1). rewrite <- HcR. ring. }
  set (Na := (Z.abs d * 8192)%Z).
  assert (HyaR : ya * Rq == inject_Z Na).
  { unfold ya, Na. rewrite inject_Z_mult. fold Da. change (inject_Z 8192) with (8192 # 1). rewrite <- HcR. ring. }
  assert (HNa : inject_Z Na <= 1040384 # 1) by (change (1040384 # 1) with (inject_Z 1040384); rewrite <- Zle_Qle; unfold Na; lia).
  (* ranges for the multiplication *)
  assert (HD7 : - pow2 7 < SFv fd < pow2 7).
  { rewrite VD. fold Dq. assert (E : pow2 7 == 128 # 1) by reflexivity. rewrite E. destruct Hsig as [E'|E']; rewrite E'; lra. }
  assert (HC15 : - pow2 15 < C < pow2 15).
  { assert (E : pow2 15 == 32768 # 1) by reflexivity. rewrite E. unfold e24 in *. nra. }
  set (A2 := (Na / R)%Z).
  pose proof (Z.div_mod Na R ltac:(lia)) as Hdm2. pose proof (Z.mod_pos_bound Na R ltac:(lia)) as Hrem2. fold A2 in Hdm2.
  assert (HA20 : (0 <= A2)%Z) by (apply Z.div_pos; unfold Na; lia).
  assert (HA2ya : inject_Z A2 <= ya).
  { assert (inject_Z A2 * Rq <= inject_Z Na) by (unfold Rq; rewrite <- inject_Z_mult, <- Zle_Qle; nia). nra. }
  assert (HyaA2 : ya < inject_Z A2 + 1).
  { assert (inject_Z Na + 1 <= inject_Z A2 * Rq + Rq).
    { unfold Rq. rewrite <- inject_Z_mult. change 1 with (inject_Z 1). rewrite <- !inject_Z_plus, <- Zle_Qle. nia. }
    nra. }
  assert (HDCa : - (ya * (1 + e24)) <= Dq * C <= ya * (1 + e24)) by lra.
  assert (G : exists P, is_fin (f32_mul fd fc) /\ SFv (f32_mul fd fc) == P /\ - 1 < (P - y) * Rq < 1).
  { destruct (Z.eq_dec A2 0) as [E0|NE0].
    - rewrite E0 in *. change (inject_Z 0) with 0 in *.
      destruct (mul_err fd fc 7 15 1 FD FC HD7 HC15 ltac:(lia)) as [FP NP].
      + rewrite VD. fold Dq C. change (pow2 1) with (2 # 1). unfold e24 in *. nra.
      + rewrite fexp32_eq. lia.
      + exists (SFv (f32_mul fd fc)). split; [exact FP|]. split; [reflexivity|].
        replace (fexp32 1 - 1)%Z with (-24)%Z in NP by (rewrite fexp32_eq; lia).
        unfold near in NP. rewrite pow2_m24 in NP. rewrite VD in NP. fold Dq C e24 in NP.
        set (P := SFv (f32_mul fd fc)) in *.
        assert (HPy : - (2 * e24) <= P - y <= 2 * e24) by (unfold e24 in *; nra).
        unfold e24 in *. split; nra.
    - destruct (binade_Q A2 ltac:(lia)) as [B' [HB'1 [HB'lo [HB'hi HB'z]]]].
      assert (HB'20 : (B' <= 20)%Z).
      { destruct (Z_le_gt_dec B' 20) as [|Hgt]; [assumption|exfalso].
        assert (pow2 20 <= pow2 (B' - 1)) by (apply pow2_le; lia). assert (E : pow2 20 == 1048576 # 1) by reflexivity.
        assert (ya * Rq <= 1040384 # 1) by lra. assert (ya <= 1040384 # 1) by nra. lra. }
      destruct (mul_err fd fc 7 15 (B' + 1) FD FC HD7 HC15 ltac:(lia)) as [FP NP].
      + rewrite VD. fold Dq C. rewrite pow2_add. change (pow2 1) with (2 # 1). unfold e24 in *. nra.
      + rewrite fexp32_eq. lia.
      + exists (SFv (f32_mul fd fc)). split; [exact FP|]. split; [reflexivity|].
        replace (fexp32 (B' + 1) - 1)%Z with (B' - 1 + -23)%Z in NP by (rewrite fexp32_eq; lia).
        unfold near in NP. rewrite pow2_add, pow2_m23 in NP. rewrite VD in NP. fold Dq C in NP.
        set (P := SFv (f32_mul fd fc)) in *. set (pb := pow2 (B' - 1)) in *.
        assert (HPy : - (3 * ya * e24) <= P - y <= 3 * ya * e24) by (unfold e24 in *; nra).
        assert (HyaRb : ya * Rq <= 1040384 # 1) by lra.
        assert (H3 : 3 * ya * e24 * Rq < 1) by (unfold e24; nra).
        split; nra. }
  destruct G as [P [FP [VP HPy]]].
  assert (HP62 : - pow2 62 < SFv (f32_mul fd fc) < pow2 62).
  { rewrite VP. assert (E62 : pow2 62 == 4611686018427387904 # 1) by reflexivity. rewrite E62.
    assert (ya * Rq <= 1040384 # 1) by lra. assert (ya <= 1040384 # 1) by nra.
    assert (- 1 < P - y < 1) by nra. lra. }
  destruct (to_Z_trunc _ FP HP62) as [Tpos Tneg].
  exists P, y. split; [exact HyR|]. split; [exact HPy|]. split.
  - intros HP0. rewrite <- VP. apply Tpos. rewrite VP. exact HP0.
  - intros HP0. rewrite <- VP. apply Tneg. rewrite VP. exact HP0.
Qed.

(* bend_from d R is the exact value 8192 d / R truncated toward 0, or one nearer to 0 when the exact value is an integer *)
Theorem bend_from_accuracy (d R : Z) : (Z.abs d <= 127)%Z -> (1 <= R <= 8192)%Z ->
  ((0 <= d -> 0 <= bend_from d R) /\ (d <= 0 -> bend_from d R <= 0) /\
   Z.abs d * 8192 - R <= Z.abs (bend_from d R) * R <= Z.abs d * 8192)%Z.
Proof.
  intros Hd HR.
  destruct (bend_from_core d R Hd HR) as [P [y [HyR [[N1 N2] [Tpos Tneg]]]]].
  set (v := bend_from d R) in *. set (V := inject_Z v) in *. set (Rq := inject_Z R) in *.
  assert (HR1 : 1 <= Rq) by (unfold Rq; change 1 with (inject_Z 1); rewrite <- Zle_Qle; lia).
  set (Nq := inject_Z (d * 8192)) in *.
  assert (HPN : Nq - 1 < P * Rq < Nq + 1) by (rewrite <- HyR; lra).
  assert (EN : inject_Z d * inject_Z 8192 == Nq) by (unfold Nq; rewrite inject_Z_mult; reflexivity).
  destruct (Z_le_gt_dec 0 d) as [Hpos|Hneg].
  - assert (HN0 : 0 <= Nq) by (apply inject_Z_nonneg; lia).
    assert (G : V * Rq < Nq + 1 /\ Nq - 1 < (V + 1) * Rq /\ -1 < V).
    { destruct (Qlt_le_dec P 0) as [Pneg|Ppos].
      - specialize (Tneg ltac:(lra)). assert (- 1 < P) by nra.
        assert (HV : V == 0).
        { assert (Hv1 : V < 1) by lra. assert (Hv2 : - 1 < V) by lra.
          unfold V in *. change 1 with (inject_Z 1) in Hv1. change (- 1) with (inject_Z (-1)) in Hv2.
          rewrite <- Zlt_Qlt in Hv1, Hv2. assert (E : v = 0%Z) by lia. rewrite E. reflexivity. }
        rewrite HV. split; [lra|split; [nra|lra]].
      - specialize (Tpos Ppos). split; [nra|split; [nra|lra]]. }
    destruct G as [G1 [G2 G3]].
    assert (Hv0 : (0 <= v)%Z).
    { unfold V in G3. change (-1) with (inject_Z (-1)) in G3. rewrite <- Zlt_Qlt in G3. lia. }
    assert (Z1 : (v * R < d * 8192 + 1)%Z).
    { rewrite Zlt_Qlt. qzg. fold V Rq. change (inject_Z 1) with 1. nra. }
    assert (Z2 : (d * 8192 - 1 < (v + 1) * R)%Z).
    { rewrite Zlt_Qlt. qzg. fold V Rq. change (inject_Z 1) with 1. nra. }
    split; [intros _; exact Hv0|]. split; [intros Hle; assert (v * R <= 0)%Z by lia; nia|].
    rewrite (Z.abs_eq v) by assumption. rewrite (Z.abs_eq d) by assumption. lia.
  - assert (HN0 : Nq <= 0) by (unfold Nq; change 0 with (inject_Z 0); rewrite <- Zle_Qle; lia).
    assert (G : Nq - 1 < V * Rq /\ (V - 1) * Rq < Nq + 1 /\ V < 1).
    { destruct (Qlt_le_dec 0 P) as [Ppos|Pneg].
      - specialize (Tpos ltac:(lra)). assert (P < 1) by nra.
        assert (HV : V == 0).
        { assert (Hv1 : V < 1) by lra. assert (Hv2 : - 1 < V) by lra.
          unfold V in *. change 1 with (inject_Z 1) in Hv1. change (- 1) with (inject_Z (-1)) in Hv2.
          rewrite <- Zlt_Qlt in Hv1, Hv2. assert (E : v = 0%Z) by lia. rewrite E. reflexivity. }
        rewrite HV. split; [lra|split; [nra|lra]].
      - specialize (Tneg Pneg). split; [nra|split; [nra|lra]]. }
    destruct G as [G1 [G2 G3]].
    assert (Hv0 : (v <= 0)%Z).
    { unfold V in G3. change 1 with (inject_Z 1) in G3. rewrite <- Zlt_Qlt in G3. lia. }
    assert (Z1 : (d * 8192 - 1 < v * R)%Z).
    { rewrite Zlt_Qlt. qzg. fold V Rq. change (inject_Z 1) with 1. nra. }
    assert (Z2 : ((v - 1) * R < d * 8192 + 1)%Z).
    { rewrite Zlt_Qlt. qzg. fold V Rq. change (inject_Z 1) with 1. nra. }
    split; [intros; lia|]. split; [intros _; exact Hv0|].
    rewrite (Z.abs_neq v) by assumption. rewrite (Z.abs_neq d) by lia. lia.
Qed.

(* when R does not divide 8192 d the value is exactly the truncated quotient *)
Theorem bend_from_exact (d R : Z) : (Z.abs d <= 127)%Z -> (1 <= R <= 8192)%Z ->
  ((d * 8192) mod R <> 0)%Z -> bend_from d R = Z.quot (d * 8192) R.
Proof.
  intros Hd HR Hm.
  destruct (bend_from_accuracy d R Hd HR) as [H1 [H2 H3]].
  set (v := bend_from d R) in *.
  destruct (Z_le_gt_dec 0 d) as [Hpos|Hneg].
  - specialize (H1 Hpos). rewrite (Z.abs_eq v) in H3 by assumption. rewrite (Z.abs_eq d) in H3 by assumption.
    rewrite Z.quot_div_nonneg by lia. apply quot_between; try assumption; lia.
  - specialize (H2 ltac:(lia)). rewrite (Z.abs_neq v) in H3 by assumption. rewrite (Z.abs_neq d) in H3 by lia.
    replace (d * 8192)%Z with (- (- d * 8192))%Z by ring. rewrite Z.quot_opp_l by lia. rewrite Z.quot_div_nonneg by lia.
    assert (E : (- v)%Z = (- d * 8192 / R)%Z).
    { apply quot_between; try lia. intros E0. apply Hm.
      replace (d * 8192)%Z with (- (- d * 8192))%Z by ring. apply Z.mod_opp_l_z; [lia|exact E0]. }
    lia.
Qed.

(* at the range 12 (the only range a track ever gets) no lattice point is missed: checked on all 255 differences *)
Lemma bend_from_12_all : forallb (fun d => bend_from d 12 =? Z.quot (d * 8192) 12)%Z all_diffs = true.
Proof. vm_compute. reflexivity. Qed.
Theorem bend_from_12 d : (-127 <= d <= 127)%Z -> bend_from d 12 = Z.quot (d * 8192) 12.
Proof.
  intros Hd. pose proof bend_from_12_all as H. rewrite forallb_forall in H.
  apply Z.eqb_eq. apply H. unfold all_diffs. apply in_map_iff. exists (Z.to_nat (d + 127)). split; [lia|].
  apply in_seq. lia.
Qed.

(* ------------------------------------------------------------------------------------------------ *)
(* 5. in the units of the property                                                                    *)
Open Scope Z_scope.

(* mode 1 inside the bend range: the emitted value is 8192 + trunc(8192 d / R) - within 1 of the exact value
   8192 + 8192 d / R; at d = R (a full range up, exact value 16384) the 14-bit maximum 16383 *)
Theorem bend_value_close d R : Z.abs d <= 2047 -> 0 < R < 2 ^ 24 -> - R <= d <= R ->
  (d < R -> bend_value d R = Z.quot (d * 8192) R + 8192) /\ (d = R -> bend_value d R = 16383) /\
  Z.abs (bend_value d R * R - (8192 * R + 8192 * d)) <= R.
Proof.
  intros Hd HR HdR. rewrite (bend_value_exact d R Hd HR).
  assert (Hq : Z.abs (Z.quot (d * 8192) R * R - d * 8192) < R /\ (d < R -> -8192 <= Z.quot (d * 8192) R < 8192) /\
               (d = R -> Z.quot (d * 8192) R = 8192)).
  { destruct (Z_le_gt_dec 0 d) as [Hp|Hn].
    - rewrite Z.quot_div_nonneg by lia.
      pose proof (Z.div_mod (d * 8192) R ltac:(lia)) as Hdm. pose proof (Z.mod_pos_bound (d * 8192) R ltac:(lia)) as Hr.
      set (q := d * 8192 / R) in *. split; [lia|]. split; [intros; nia|intros; nia].
    - replace (d * 8192) with (- (- d * 8192)) by ring. rewrite Z.quot_opp_l by lia. rewrite Z.quot_div_nonneg by lia.
      pose proof (Z.div_mod (- d * 8192) R ltac:(lia)) as Hdm. pose proof (Z.mod_pos_bound (- d * 8192) R ltac:(lia)) as Hr.
      set (q := - d * 8192 / R) in *. split; [lia|]. split; [intros; nia|intros; lia]. }
  destruct Hq as [Hq1 [Hq2 Hq3]]. set (q := Z.quot (d * 8192) R) in *. unfold value_range.
  split; [|split].
  - intros Hlt. specialize (Hq2 Hlt). destruct (Z.ltb_spec (q + 8192) 0); [lia|]. destruct (Z.gtb_spec (q + 8192) 16383); [lia|reflexivity].
  - intros E. rewrite (Hq3 E). reflexivity.
  - destruct (Z.eq_dec d R) as [E|NE].
    + rewrite (Hq3 E). change (8192 + 8192 <? 0) with false. change (8192 + 8192 >? 16383) with true. cbv iota. subst d. lia.
    + specialize (Hq2 ltac:(lia)). destruct (Z.ltb_spec (q + 8192) 0); [lia|]. destruct (Z.gtb_spec (q + 8192) 16383); [lia|]. lia.
Qed.

(* the glide starts at the centre (step 0 has value 0) and never reaches its target *)
Theorem port_ends (bf j tv : Z) : Z.abs bf < 2 ^ 23 -> 0 <= j < tv -> tv < 2 ^ 24 ->
  port_v bf 0 tv = 0 /\ (bf <> 0 -> Z.abs (port_v bf j tv) <= Z.abs bf).
Proof.
  intros Hbf Hj Hlen. split.
  - destruct (port_accuracy_any 23 bf 0 tv ltac:(lia) Hbf ltac:(lia) Hlen) as [_ [_ [H3 _]]].
    change (2 ^ 24) with 16777216 in *. change (2 ^ 23) with 8388608 in *. nia.
  - intros _. destruct (port_accuracy_any 23 bf j tv ltac:(lia) Hbf Hj Hlen) as [_ [_ [H3 _]]].
    change (2 ^ 24) with 16777216 in *. change (2 ^ 23) with 8388608 in *. nia.
Qed.

(* the glide of Slur(0,tv) between two notes d semitones apart, d within the bend range R: no event at step 0,
   none clamped, each within 1 of the line from 8192 to 8192 + bf and within 2 of the ideal line to 8192 + 8192 d / R *)
Lemma port_bends_skip0 n tv nt ch bf : port_v bf 0 tv = 0 ->
  port_bends (S n) 0 tv nt ch bf 0 = port_bends n 1 tv nt ch bf 0.
Proof. intros E. cbn [port_bends]. fold (port_v bf 0 tv). rewrite E. reflexivity. Qed.

Theorem port_ramp_events ch tv R h h' :
  let d := e_v1 h' - e_v1 h in
  Z.abs d <= 127 -> 1 <= R <= 8192 -> Z.abs d <= R -> tv <= 1023 ->
  Forall (fun e => exists j, 1 <= j < tv /\ e = ev_pitch_bend (e_time h' - tv + j) ch (port_v (bend_from d R) j tv + 8192) /\
            Z.abs ((e_v1 e - 8192) * tv - bend_from d R * j) <= tv /\
            Z.abs ((e_v1 e - 8192) * (R * tv) - 8192 * d * j) <= 2 * (R * tv))
         (port_ramp ch tv R h h').
Proof.
  intros d Hd HR HdR Htv. set (bf := bend_from d R).
  destruct (bend_from_accuracy d R Hd HR) as [B1 [B2 B3]]. fold bf in B1, B2, B3.
  assert (Hbf : Z.abs bf <= 8192) by nia.
  unfold port_ramp. fold d bf.
  destruct (Z_le_gt_dec tv 0) as [Hle|Hgt].
  { replace (Z.to_nat tv) with O by lia. constructor. }
  assert (E0 : port_v bf 0 tv = 0).
  { apply (port_ends bf 0 tv); change (2 ^ 23) with 8388608; change (2 ^ 24) with 16777216; lia. }
  replace (Z.to_nat tv) with (S (Z.to_nat (tv - 1))) by lia. rewrite (port_bends_skip0 _ _ _ _ _ E0).
  destruct (port_bends_shape (Z.to_nat (tv - 1)) 1 tv (e_time h') ch bf 0) as [A _].
  eapply Forall_impl; [|exact A]. cbv beta. intros e [j [Hj He]].
  assert (Hj' : 0 <= j < tv) by lia.
  assert (Hlen : 2 ^ 14 * tv < 2 ^ 24) by (change (2 ^ 14) with 16384; change (2 ^ 24) with 16777216; lia).
  assert (Hbf14 : Z.abs bf < 2 ^ 14) by (change (2 ^ 14) with 16384; lia).
  rewrite (port_no_clamp 14 bf j tv ltac:(lia) Hbf14 Hj' Hlen Hbf) in He.
  destruct (port_accuracy 14 bf j tv ltac:(lia) Hbf14 Hj' Hlen) as [P1 [P2 P3]].
  exists j. split; [lia|]. split; [exact He|]. rewrite He. cbn [e_v1 ev_pitch_bend].
  set (v := port_v bf j tv) in *. replace (v + 8192 - 8192) with v by lia.
  destruct (Z_le_gt_dec 0 d) as [Hp|Hn].
  - specialize (B1 Hp). specialize (P1 B1).
    rewrite (Z.abs_eq bf) in * by assumption. rewrite (Z.abs_eq v) in * by assumption. rewrite (Z.abs_eq d) in * by assumption.
    split; [lia|].
    assert (S1 : bf * j * R - tv * R <= v * tv * R <= bf * j * R) by nia.
    assert (S2 : d * 8192 * j - R * j <= bf * R * j <= d * 8192 * j) by nia.
    assert (S3 : R * j <= R * tv) by nia.
    replace (v * (R * tv)) with (v * tv * R) by ring. replace (8192 * d * j) with (d * 8192 * j) by ring.
    replace (bf * j * R) with (bf * R * j) in S1 by ring. lia.
  - specialize (B2 ltac:(lia)). specialize (P2 B2).
    rewrite (Z.abs_neq bf) in * by assumption. rewrite (Z.abs_neq v) in * by assumption. rewrite (Z.abs_neq d) in * by lia.
    split; [lia|].
    assert (S1 : - bf * j * R - tv * R <= - v * tv * R <= - bf * j * R) by nia.
    assert (S2 : - d * 8192 * j - R * j <= - bf * R * j <= - d * 8192 * j) by nia.
    assert (S3 : R * j <= R * tv) by nia.
    replace (v * (R * tv)) with (- (- v * tv * R)) by ring. replace (8192 * d * j) with (- (- d * 8192 * j)) by ring.
    replace (- bf * j * R) with (- bf * R * j) in S1 by ring. lia.
Qed.

(* ------------------------------------------------------------------------------------------------ *)
(* 6. what is not true                                                                                *)

(* the target of the glide is not always the truncated quotient: at range 41 a glide of 41 semitones aims at 8191 *)
Lemma bend_from_quot_refuted :
  ~ (forall d R, Z.abs d <= 127 -> 1 <= R <= 8192 -> bend_from d R = Z.quot (d * 8192) R).
Proof. intros H. specialize (H 41 41 ltac:(lia) ltac:(lia)). vm_compute in H. discriminate H. Qed.

(* long glides: the value can be more than 1 away from the line (bf = 7509 is the target of 11 semitones at range 12) ... *)
Lemma port_within1_refuted :
  ~ (forall bf j tv, Z.abs bf <= 8192 -> 0 <= j < tv -> tv < 2 ^ 24 -> Z.abs (port_v bf j tv * tv - bf * j) <= tv).
Proof.
  intros H. specialize (H 7509 5309 10360 ltac:(lia) ltac:(lia) ltac:(change (2 ^ 24) with 16777216; lia)).
  vm_compute in H. apply H. reflexivity.
Qed.
(* ... or beyond the line (an octave at range 12 over 4097 ticks) *)
Lemma port_below_line_refuted :
  ~ (forall bf j tv, Z.abs bf <= 8192 -> 0 <= j < tv -> tv < 2 ^ 24 -> Z.abs (port_v bf j tv * tv) <= Z.abs (bf * j)).
Proof.
  intros H. specialize (H 8192 2049 4097 ltac:(lia) ltac:(lia) ltac:(change (2 ^ 24) with 16777216; lia)).
  vm_compute in H. apply H. reflexivity.
Qed.
