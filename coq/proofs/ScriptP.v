(* C11 - the script layer of the model (model/Script.v) against the big-step semantics of structured scripts
   (spec/ScriptSem.v).

   1. the instantiation of the generic semantics: values, bindings, operators, leaves, log lines, function table;
      the translation of script tokens / expression tokens into statements / expressions (total, structural)
   2. exec_s on a token list without loop brackets is a left-to-right fold that stops at the first raised flag (from the
      generic loop-machine theorem of C05)
   3. simulation, one nesting level at a time: expressions, argument lists, calls, loops, statements, blocks
   4. the main theorem exec_vs_sem (induction on the nesting budget)
   5. facts about the meaning itself: branches, unrolling, BREAK / CONTINUE, the limit, calls, defaults, RETURN, scopes *)
From Coq Require Import String.
From Sakura.Model Require Import Base Cursor Length Event Song Token LoopMachine LexCore RunCore Compile Script.
From Sakura.Model Require Expr.
From Sakura.Spec Require LoopSpec.
From Sakura.Spec Require Import ScriptSem.
From Sakura.Proofs Require LoopP BlockP.
From Sakura.Gen Require Import Messages.
Open Scope Z_scope.
Open Scope list_scope.

(* ------------------------------------------------------------------------------------------------ *)
(* 1. instantiation                                                                                   *)

(* what a model function can answer besides a value *)
Inductive merr := MPanic (site : Z) | MFuel | MUnsup (what : Z).

(* operators of the expression language *)
Inductive mop :=
| OConst (v : Expr.sval)
| OCalc (flag : Z)
| OSys (name : list ch)
| OArr
| OBad.

Notation mresult := (result merr).
Notation mexpr := (expr (list ch) mop).
Notation mstmt := (stmt (list ch) Token.tok mop nat).
Notation mfundef := (fundef (list ch) Token.tok mop Expr.sval nat).
Notation mcfg := (cfg (list ch) song vv).
Notation mview := (view Expr.sval nat).

Definition res_to_result {A} (r : res A) : mresult A :=
  match r with
  | Ok a => Fin a
  | Panic s => Fail (MPanic s)
  | OutOfFuel => Fail MFuel
  | Unsupported w => Fail (MUnsup w)
  end.
Definition result_to_res {A} (r : mresult A) : res A :=
  match r with
  | Fin a => Ok a
  | Fail (MPanic s) => Panic s
  | Fail MFuel => OutOfFuel
  | Fail (MUnsup w) => Unsupported w
  | NoFuel => OutOfFuel
  | Stuck => Unsupported 0
  end.
Definition rmap {A B} (f : A -> B) (r : mresult A) : mresult B :=
  match r with
  | Fin a => Fin (f a)
  | Fail e => Fail e
  | Stuck => Stuck
  | NoFuel => NoFuel
  end.

Definition view_vv (b : vv) : mview :=
  match b with VV v => BVal v | VFunc id => BFun id | VOpaque => BOpaque end.

Definition m_atom (t : Token.tok) (w : song) : mresult song :=
  res_to_result (step_song (fun _ _ => Unsupported U_SCHILD) t w).
Definition m_op (o : mop) (vs : list Expr.sval) : mresult Expr.sval :=
  match o with
  | OConst v => Fin v
  | OCalc flag => res_to_result (Expr.calc flag (nth 0 vs Expr.SNone) (nth 1 vs Expr.SNone))
  | OSys name => res_to_result (Expr.sys_function name vs)
  | OArr => Fin (Expr.SArr vs)
  | OBad => Stuck
  end.
Definition m_op_name (o : mop) : option (list ch) := match o with OSys name => Some name | _ => None end.
Definition m_unbound (x : list ch) : mresult Expr.sval :=
  if Expr.name_in x Expr.system_names then Fail (MUnsup Expr.U_SYSVAR) else Fin Expr.SNone.
Definition m_print (line : Z) (vs : list Expr.sval) (w : song) : song :=
  add_log w (zs "[PRINT](" ++ show_int line ++ zs ") " ++ join_blank (map Expr.to_s vs)).
Definition m_limit (is_for : bool) (line : Z) (w : song) : song := add_log w (limit_msg is_for line).
Definition m_decl (is_int : bool) (x : list ch) (v : Expr.sval) (w : song) : song :=
  if is_int && is_arr v then runtime_error w (msg_en_ErrorTypeMismatch ++ zs ": " ++ x) else w.
Definition m_incr (v : Expr.sval) (d : Z) : Expr.sval := Expr.SInt (Expr.to_i v + d).
Definition m_N : nat := Z.to_nat MAX_LOOP.

(* expression tokens as expressions *)
Fixpoint expr_of (t : Expr.tok) : mexpr :=
  match t with
  | Expr.TConstInt v => EOp (OConst (Expr.SInt v)) []
  | Expr.TConstStr s => EOp (OConst (Expr.SStr s)) []
  | Expr.TGetVar x => EVar x
  | Expr.TCalc flag _ l r => if flag =? 0 then EOp OBad [] else EOp (OCalc flag) [expr_of l; expr_of r]
  | Expr.TCall true name args => ECall name (map expr_of args)
  | Expr.TCall false name args => EOp (OSys name) (map expr_of args)
  | Expr.TValueInc _ _ => EOp OBad []
  | Expr.TMakeArray items => EOp OArr (map expr_of items)
  end.
Definition oexpr_of (e : option Expr.tok) : option mexpr := option_map expr_of e.

(* script tokens as statements *)
Fixpoint stmt_of (t : stok) : mstmt :=
  match t with
  | SCore ct => Leaf ct
  | SPrint args line => Print (map oexpr_of args) line
  | SDefVar k x init => Decl k x (oexpr_of init)
  | SLetVar x e => Assign x (oexpr_of e)
  | SValueInc x d => Incr x d
  | SIf c th el _ => If (oexpr_of c) (map stmt_of th) (map stmt_of el)
  | SWhile c body line => While (oexpr_of c) (map stmt_of body) line
  | SFor init c inc body line => For (map stmt_of init) (oexpr_of c) (map stmt_of inc) (map stmt_of body) line
  | SBreak => Break
  | SContinue => Continue
  | SReturn e => Return (oexpr_of e)
  | SCall id args => CallS id (map oexpr_of args)
  end.
Definition prog_of (toks : list stok) : list mstmt := map stmt_of toks.

Definition fundef_of (fd : fdef) : mfundef := mkFun (f_params fd) (prog_of (f_body fd)).
Definition funs_of (ft : list fdef) (id : nat) : option mfundef := option_map fundef_of (nth_error ft id).

(* the language of the model *)
Definition ML : lang (list ch) Token.tok mop Expr.sval song vv nat merr :=
  mkLang _ _ _ _ _ _ _ _ list_eqb t_Result view_vv VV Expr.to_b Expr.SNone (Expr.SInt 0) Expr.is_none m_incr m_atom m_op m_op_name
         m_unbound m_print m_limit m_decl m_N.

(* ---- states of the model as configurations of the semantics ---- *)
Definition emb (ft : list fdef) (m : bool) (c : mcfg) : sstate := mkS (world c) (env c) ft m.
Definition sig_code (sg : signal) : Z := match sg with Normal => 0 | Brk => 1 | Cont => 2 | Ret => 3 end.
Definition emb_sig (ft : list fdef) (m : bool) (r : signal * mcfg) : sstate := st_set_flag (emb ft m (snd r)) (sig_code (fst r)).
(* the world of a configuration carries no raised flag: the signal is what the semantics returns *)
Definition wf (c : mcfg) : Prop := s_break_flag (world c) = 0.
Definition out_state (ft : list fdef) (m : bool) (r : mresult (signal * mcfg)) : res sstate := result_to_res (rmap (emb_sig ft m) r).
Definition wf_out {A} (r : mresult (A * mcfg)) : Prop := forall a c, r = Fin (a, c) -> wf c.

Lemma set_flag_twice w a b : s_set_break_flag (s_set_break_flag w a) b = s_set_break_flag w b.
Proof. destruct w; reflexivity. Qed.
Lemma set_flag_same w : s_set_break_flag w (s_break_flag w) = w.
Proof. destruct w; reflexivity. Qed.
Lemma flag_set_flag w a : s_break_flag (s_set_break_flag w a) = a.
Proof. destruct w; reflexivity. Qed.

Lemma emb_sig_normal ft m c : wf c -> emb_sig ft m (Normal, c) = emb ft m c.
Proof.
  intros H. unfold emb_sig, st_set_flag, st_set_song, emb. cbn [fst snd sig_code ss_song ss_scopes ss_funcs ss_needs].
  unfold wf in H. rewrite <- H at 1. rewrite set_flag_same. reflexivity.
Qed.
Lemma st_flag_emb ft m c : st_flag (emb ft m c) = s_break_flag (world c).
Proof. reflexivity. Qed.
Lemma st_flag_emb_sig ft m sg c : st_flag (emb_sig ft m (sg, c)) = sig_code sg.
Proof. unfold emb_sig, st_flag, st_set_flag, st_set_song. cbn [ss_song fst snd]. apply flag_set_flag. Qed.
Lemma sig_code_zero sg : sig_code sg = 0 -> sg = Normal.
Proof. destruct sg; cbn; intros H; try reflexivity; discriminate. Qed.
(* clearing the flag of a result state gives back the plain configuration *)
Lemma clear_emb_sig ft m sg c : wf c -> st_set_flag (emb_sig ft m (sg, c)) 0 = emb ft m c.
Proof.
  intros H. unfold emb_sig, st_set_flag, st_set_song, emb. cbn [fst snd ss_song ss_scopes ss_funcs ss_needs].
  rewrite set_flag_twice. unfold wf in H. rewrite <- H. rewrite set_flag_same. reflexivity.
Qed.

Lemma wf_out_fin {A} (a : A) c : wf c -> wf_out (Fin (a, c) : mresult (A * mcfg)).
Proof. intros H a' c' E. injection E as _ <-. exact H. Qed.
Lemma wf_out_other {A} (r : mresult (A * mcfg)) : (forall x, r <> Fin x) -> wf_out r.
Proof. intros H a c E. exfalso. exact (H _ E). Qed.

(* ------------------------------------------------------------------------------------------------ *)
(* 2. the machine on a list without loop brackets                                                     *)

Definition bracket_free_tok (t : stok) : bool :=
  match t with
  | SCore (TLoopBegin _) | SCore TLoopBreak | SCore TLoopEnd => false
  | _ => true
  end.
(* a block: no loop brackets, shorter than the fuel of one exec() loop, and so for every block inside *)
Definition blk_ok (f : stok -> bool) (l : list stok) : bool := forallb f l && Nat.ltb (length l) STEPS.
Fixpoint tok_ok (t : stok) : bool :=
  bracket_free_tok t &&
  match t with
  | SIf _ th el _ => blk_ok tok_ok th && blk_ok tok_ok el
  | SWhile _ body _ => blk_ok tok_ok body
  | SFor init _ inc body _ => blk_ok tok_ok init && blk_ok tok_ok inc && blk_ok tok_ok body
  | _ => true
  end.
Definition toks_ok (l : list stok) : bool := blk_ok tok_ok l.
Definition ft_ok (ft : list fdef) : bool := forallb (fun fd => toks_ok (f_body fd)) ft.

Definition fold_halt (f : stok -> res sstate -> res sstate) (toks : list stok) (s : res sstate) : res sstate :=
  fold_left (fun acc t => if halted_s acc then acc else f t acc) toks s.

Fixpoint leaves_s (toks : list stok) : LoopSpec.prog stok :=
  match toks with
  | [] => LoopSpec.PNil
  | t :: r => LoopSpec.PCons (LoopSpec.Leaf t) (leaves_s r)
  end.

Lemma flatten_leaves_s toks :
  forallb bracket_free_tok toks = true -> map to_ltok_s toks = LoopSpec.flatten (leaves_s toks).
Proof.
  induction toks as [|t r IH]; [reflexivity|]. cbn [forallb]. intros H. apply andb_prop in H. destruct H as [Ht Hr].
  cbn [map leaves_s LoopSpec.flatten LoopSpec.flat_item app]. rewrite <- (IH Hr). f_equal.
  destruct t as [ct| | | | | | | | | | | ]; try reflexivity. destruct ct; try reflexivity; discriminate.
Qed.

Lemma cost_leaves_s step (hl : res sstate -> bool) cnt toks s :
  LoopSpec.cost stok (res sstate) step hl cnt (leaves_s toks) s = length toks.
Proof.
  revert s. induction toks as [|t r IH]; intros s; [reflexivity|].
  cbn [leaves_s LoopSpec.cost LoopSpec.cost_item length]. rewrite IH. reflexivity.
Qed.

Lemma sem_leaves_s step (hl : res sstate -> bool) cnt toks s :
  LoopSpec.sem stok (res sstate) step hl cnt (leaves_s toks) s
  = fold_left (fun acc t => if hl acc then acc else step t acc) toks s.
Proof.
  revert s. induction toks as [|t r IH]; intros s; [reflexivity|].
  cbn [leaves_s LoopSpec.sem LoopSpec.sem_item fold_left]. apply IH.
Qed.

(* exec() of a bracket-free list: the fold *)
Theorem exec_s_fold d toks s :
  forallb bracket_free_tok toks = true -> (length toks < STEPS)%nat ->
  exec_s (S d) toks s = fold_halt (step_stok (exec_s d)) toks s.
Proof.
  intros Hb Hl. cbn [exec_s]. rewrite (flatten_leaves_s toks Hb).
  rewrite (LoopP.run_flat_total stok (res sstate) (step_stok (exec_s d)) halted_s count_of_s (leaves_s toks) s STEPS)
    by (rewrite cost_leaves_s; exact Hl).
  apply sem_leaves_s.
Qed.

Lemma fold_halt_halted f toks s : halted_s s = true -> fold_halt f toks s = s.
Proof.
  intros H. unfold fold_halt. induction toks as [|t r IH]; [reflexivity|]. cbn [fold_left]. rewrite H. exact IH.
Qed.
Lemma fold_halt_cons f t r s : halted_s s = false -> fold_halt f (t :: r) s = fold_halt f r (f t s).
Proof. intros H. unfold fold_halt. cbn [fold_left]. rewrite H. reflexivity. Qed.
Lemma fold_halt_nil f s : fold_halt f [] s = s.
Proof. reflexivity. Qed.

(* on a state with a raised flag exec() does nothing (for any token list) *)
Lemma exec_s_halted d toks st : st_flag st <> 0 -> exec_s (S d) toks (Ok st) = Ok st.
Proof.
  intros H. cbn [exec_s]. unfold run.
  assert (E : mstep stok (res sstate) (step_stok (exec_s d)) halted_s count_of_s (map to_ltok_s toks) (LoopMachine.mkCfg (res sstate) 0 [] (Ok st)) = None).
  { unfold mstep. cbn [LoopMachine.pos]. destruct (nth_error _ 0) as [t|]; [|reflexivity].
    cbn [LoopMachine.st halted_s]. destruct (st_flag st =? 0) eqn:E; [apply Z.eqb_eq in E; contradiction|]. reflexivity. }
  assert (Hs : exists k, STEPS = S k).
  { unfold STEPS. exists (Nat.pred (Z.to_nat 400000)). lia. }
  destruct Hs as [k ->]. cbn [mrun]. rewrite E. reflexivity.
Qed.

(* ------------------------------------------------------------------------------------------------ *)
(* 3. simulation, one nesting level at a time                                                         *)

Lemma needs_emb ft m c b : st_set_needs (emb ft m c) b = emb ft b c.
Proof. reflexivity. Qed.
Lemma scopes_emb ft m c e : st_set_scopes (emb ft m c) e = emb ft m (set_env c e).
Proof. reflexivity. Qed.
Lemma song_emb ft m c w : st_set_song (emb ft m c) w = emb ft m (set_world c w).
Proof. reflexivity. Qed.
Lemma push_emb ft m c : st_set_scopes (emb ft m c) ([] :: ss_scopes (emb ft m c)) = emb ft m (push_frame c).
Proof. reflexivity. Qed.
Lemma insert_emb ft m c x v : st_insert (emb ft m c) x (VV v) = emb ft m (bind_val ML x v c).
Proof. reflexivity. Qed.
Lemma log_emb ft m c msg : st_log (emb ft m c) msg = emb ft m (set_world c (add_log (world c) msg)).
Proof. reflexivity. Qed.

Lemma eval_list_nil f d st : eval_list f d [] st = Ok ([], st).
Proof. reflexivity. Qed.
Lemma eval_list_cons f d x r st :
  eval_list f d (x :: r) st = (do p <- f x st; do q <- eval_list f d r (snd p); Ok (d (fst p) :: fst q, snd q)).
Proof. reflexivity. Qed.
Lemma evals_nil (f : mexpr -> mcfg -> mresult (Expr.sval * mcfg)) c : evals_with f [] c = Fin ([], c).
Proof. reflexivity. Qed.
Lemma evals_cons (f : mexpr -> mcfg -> mresult (Expr.sval * mcfg)) x r c :
  evals_with f (x :: r) c = rbind (f x c) (fun p => rbind (evals_with f r (snd p)) (fun q => Fin (fst p :: fst q, snd q))).
Proof. reflexivity. Qed.

(* lookups coincide *)
Lemma lookup_frame_eq x fr : lookup_frame ML x fr = scope_get x fr.
Proof. induction fr as [|[y b] r IH]; [reflexivity|]. cbn [lookup_frame scope_get ML l_name_eqb]. rewrite IH. reflexivity. Qed.
Lemma lookup_eq x e : lookup ML x e = vars_lookup x e.
Proof. induction e as [|fr r IH]; [reflexivity|]. cbn [lookup vars_lookup]. rewrite lookup_frame_eq, IH. reflexivity. Qed.
Lemma bind_eq x b e : bind x b e = vars_insert x b e.
Proof. destruct e; reflexivity. Qed.
Lemma bind_params_eq ps i vs e : ScriptSem.bind_params ML ps i vs e = Script.bind_params ps i vs e.
Proof.
  revert i e. induction ps as [|[x d] r IH]; intros i e; [reflexivity|].
  cbn [ScriptSem.bind_params Script.bind_params ML l_vnone l_is_none l_bnd_val]. rewrite IH, bind_eq. reflexivity.
Qed.

(* induction over expression tokens with hypotheses for the argument lists *)
Section EtokInd.
  Variable P : Expr.tok -> Prop.
  Hypothesis HInt : forall v, P (Expr.TConstInt v).
  Hypothesis HStr : forall s, P (Expr.TConstStr s).
  Hypothesis HVar : forall x, P (Expr.TGetVar x).
  Hypothesis HCalc : forall tag prio l r, P l -> P r -> P (Expr.TCalc tag prio l r).
  Hypothesis HCall : forall u name args, Forall P args -> P (Expr.TCall u name args).
  Hypothesis HInc : forall x d, P (Expr.TValueInc x d).
  Hypothesis HArr : forall items, Forall P items -> P (Expr.TMakeArray items).
  Fixpoint etok_ind' (t : Expr.tok) : P t :=
    match t with
    | Expr.TConstInt v => HInt v
    | Expr.TConstStr s => HStr s
    | Expr.TGetVar x => HVar x
    | Expr.TCalc tag prio l r => HCalc tag prio l r (etok_ind' l) (etok_ind' r)
    | Expr.TCall u name args =>
        HCall u name args ((fix go (l : list Expr.tok) : Forall P l :=
                              match l with [] => Forall_nil P | x :: r => Forall_cons x (etok_ind' x) (go r) end) args)
    | Expr.TValueInc x d => HInc x d
    | Expr.TMakeArray items =>
        HArr items ((fix go (l : list Expr.tok) : Forall P l :=
                       match l with [] => Forall_nil P | x :: r => Forall_cons x (etok_ind' x) (go r) end) items)
    end.
End EtokInd.

(* rbind / bind bookkeeping *)
Lemma rbind_stuck {A B} (r : mresult A) (f : A -> mresult B) : r = Stuck -> rbind r f = Stuck.
Proof. intros ->. reflexivity. Qed.

Ltac fail_case := cbn [Base.bind rbind rmap result_to_res]; split; [reflexivity | apply wf_out_other; let H := fresh "Hd" in intros ? H; discriminate H].

Section Level.
  Variable ft : list fdef.
  Hypothesis Hft : ft_ok ft = true.
  (* the meaning of a block one level down, and the model's exec() one level down, already related *)
  Variable blk : list mstmt -> mcfg -> mresult (signal * mcfg).
  Variable ec : list stok -> res sstate -> res sstate.
  Hypothesis HB : forall b m c, wf c -> toks_ok b = true -> blk (prog_of b) c <> Stuck ->
    ec b (Ok (emb ft m c)) = out_state ft m (blk (prog_of b) c) /\ wf_out (blk (prog_of b) c).
  Hypothesis Hhalt : forall b c r, blk b c = Fin r -> forall b' st, st_flag st <> 0 -> ec b' (Ok st) = Ok st.

  Notation EV := (eval ML (funs_of ft) blk).
  Definition ev_out (r : mresult (Expr.sval * mcfg)) : res (option Expr.sval * sstate) :=
    result_to_res (rmap (fun p => (Some (fst p), emb ft true (snd p))) r).
  Definition evs_out (m : bool) (r : mresult (list Expr.sval * mcfg)) : res (list Expr.sval * sstate) :=
    result_to_res (rmap (fun p => (fst p, emb ft m (snd p))) r).
  Definition val_out (m : bool) (r : mresult (Expr.sval * mcfg)) : res (Expr.sval * sstate) :=
    result_to_res (rmap (fun p => (fst p, emb ft m (snd p))) r).

  Definition ev_ok (t : Expr.tok) : Prop :=
    forall c, wf c -> EV (expr_of t) c <> Stuck ->
      eval_tok ec t (emb ft true c) = ev_out (EV (expr_of t) c) /\ wf_out (EV (expr_of t) c).

  Lemma ft_body_ok id fd : nth_error ft id = Some fd -> toks_ok (f_body fd) = true.
  Proof.
    intros H. unfold ft_ok in Hft. rewrite forallb_forall in Hft. apply (Hft fd). eapply nth_error_In. exact H.
  Qed.

  Lemma eval_list_sim dflt (Hd : forall v, dflt (Some v) = v) l :
    Forall ev_ok l -> forall c, wf c -> evals_with EV (map expr_of l) c <> Stuck ->
    eval_list (eval_tok ec) dflt l (emb ft true c) = evs_out true (evals_with EV (map expr_of l) c)
    /\ wf_out (evals_with EV (map expr_of l) c).
  Proof.
    induction 1 as [|x r Hx Hr IH]; intros c Hwf Hns.
    - cbn [map]. rewrite eval_list_nil, evals_nil. split; [reflexivity | apply wf_out_fin; exact Hwf].
    - cbn [map] in *. rewrite eval_list_cons. rewrite evals_cons in *.
      destruct (Hx c Hwf) as [E1 W1]. { intros E. apply Hns. rewrite E. reflexivity. }
      rewrite E1. destruct (EV (expr_of x) c) as [[v c1]|[s| |w]| |] eqn:R1; try solve [fail_case].
      cbn [ev_out rmap result_to_res Base.bind rbind fst snd] in *.
      specialize (W1 v c1 eq_refl). destruct (IH c1 W1) as [E2 W2]. { intros E. apply Hns. rewrite E. reflexivity. }
      rewrite E2. destruct (evals_with EV (map expr_of r) c1) as [[vs c2]|[s| |w]| |] eqn:R2; try solve [fail_case].
      cbn [evs_out rmap result_to_res Base.bind rbind fst snd]. rewrite Hd. split; [reflexivity | apply wf_out_fin; exact (W2 vs c2 eq_refl)].
  Qed.

  Definition call_out (m : bool) (r : mresult (Expr.sval * mcfg)) : res (option Expr.sval * sstate) :=
    result_to_res (rmap (fun p => (if m then Some (fst p) else None, emb ft m (snd p))) r).

  Lemma wf_set_env c e : wf c -> wf (set_env c e).
  Proof. exact (fun H => H). Qed.

  (* the call proper *)
  Lemma call_sim m fd vs c :
    wf c -> toks_ok (f_body fd) = true ->
    call_body ML blk (fundef_of fd) vs c <> Stuck ->
    finish_call ec fd vs (emb ft m c) = call_out m (call_body ML blk (fundef_of fd) vs c)
    /\ wf_out (call_body ML blk (fundef_of fd) vs c).
  Proof.
    intros Hwf Hok Hns. unfold finish_call, call_body in *. cbn [fundef_of fd_params fd_body] in *.
    change (ScriptSem.bind_params ML (f_params fd) 0 vs (env c)) with (Script.bind_params (f_params fd) 0 vs (env c)) in *.
    change (ss_scopes (emb ft m c)) with (env c). rewrite scopes_emb.
    set (c1 := set_env c (Script.bind_params (f_params fd) 0 vs (env c))) in *.
    assert (Hwf1 : wf c1) by exact Hwf.
    assert (Hfl : st_flag (emb ft m c1) = 0) by exact Hwf.
    rewrite Hfl.
    destruct (HB (f_body fd) m c1 Hwf1 Hok) as [E1 W1]. { intros E. apply Hns. rewrite E. reflexivity. }
    rewrite E1. destruct (blk (prog_of (f_body fd)) c1) as [[sg c2]|[s| |w]| |] eqn:R1; try solve [fail_case].
    cbn [out_state rmap result_to_res Base.bind rbind fst snd] in *.
    specialize (W1 sg c2 eq_refl). rewrite (clear_emb_sig ft m sg c2 W1).
    change (ss_scopes (emb ft m c2)) with (env c2).
    destruct (env c2) as [|fr rest] eqn:Ee. { exfalso. apply Hns. reflexivity. }
    rewrite scopes_emb. change (ss_needs (emb ft m (set_env c2 rest))) with m.
    cbn [ML l_result_name l_view_of l_vnone] in *.
    change (lookup_frame ML t_Result fr) with (scope_get t_Result fr) in *.
    destruct (scope_get t_Result fr) as [[v|id|]|] eqn:Er; cbn [view_vv] in *;
      try (exfalso; apply Hns; reflexivity).
    - unfold call_out. cbn [rmap result_to_res fst snd]. destruct m; (split; [reflexivity | apply wf_out_fin; exact W1]).
    - unfold call_out. cbn [rmap result_to_res fst snd]. destruct m; (split; [reflexivity | apply wf_out_fin; exact W1]).
  Qed.

  Ltac stuck_contra H := exfalso; apply H; reflexivity.

  (* expressions *)
  Lemma ev_all : forall t, ev_ok t.
  Proof.
    apply etok_ind'; unfold ev_ok.
    - (* TConstInt *)
      intros v c Hwf _. change (EV (expr_of (Expr.TConstInt v)) c) with (Fin (Expr.SInt v, c) : mresult (Expr.sval * mcfg)).
      split; [reflexivity | apply wf_out_fin; exact Hwf].
    - intros s0 c Hwf _. change (EV (expr_of (Expr.TConstStr s0)) c) with (Fin (Expr.SStr s0, c) : mresult (Expr.sval * mcfg)).
      split; [reflexivity | apply wf_out_fin; exact Hwf].
    - (* TGetVar *)
      intros x c Hwf Hns. cbn [expr_of eval eval_tok] in *.
      change (ss_scopes (emb ft true c)) with (env c).
      change (lookup ML x (env c)) with (vars_lookup x (env c)) in *.
      destruct (vars_lookup x (env c)) as [[v|id|]|] eqn:El; cbn [ML l_view_of view_vv l_unbound] in *;
        try (stuck_contra Hns).
      + split; [reflexivity | apply wf_out_fin; exact Hwf].
      + unfold m_unbound in *. destruct (Expr.name_in x Expr.system_names).
        * fail_case.
        * split; [reflexivity | apply wf_out_fin; exact Hwf].
    - (* TCalc *)
      intros flag prio l r Hl Hr c Hwf Hns. cbn [expr_of eval_tok] in *.
      destruct (flag =? 0) eqn:Ef. { exfalso. apply Hns. reflexivity. }
      cbn [eval evals_with] in *. rewrite needs_emb.
      destruct (Hl c Hwf) as [E1 W1]. { intros E. apply Hns. rewrite E. reflexivity. }
      rewrite E1. destruct (EV (expr_of l) c) as [[a c1]|[s| |w]| |] eqn:R1; try solve [fail_case].
      cbn [ev_out rmap result_to_res Base.bind rbind fst snd] in *. specialize (W1 a c1 eq_refl).
      destruct (Hr c1 W1) as [E2 W2]. { intros E. apply Hns. rewrite E. reflexivity. }
      rewrite E2. destruct (EV (expr_of r) c1) as [[b c2]|[s| |w]| |] eqn:R2; try solve [fail_case].
      cbn [ev_out rmap result_to_res Base.bind rbind fst snd opt_none shadowed ML l_op_name m_op_name l_op_sem m_op nth] in *.
      specialize (W2 b c2 eq_refl).
      destruct (Expr.calc flag a b) as [v|s| |w]; cbn [res_to_result rbind rmap result_to_res Base.bind fst snd]; try solve [fail_case].
      split; [reflexivity | apply wf_out_fin; exact W2].
    - (* TCall *)
      intros u name args Hargs c Hwf Hns. destruct u.
      + (* a call of the function the name is bound to *)
        cbn [expr_of eval eval_tok] in *.
        change (ss_scopes (emb ft true c)) with (env c). change (ss_funcs (emb ft true c)) with ft.
        change (lookup ML name (env c)) with (vars_lookup name (env c)) in *.
        destruct (vars_lookup name (env c)) as [[v|id|]|] eqn:El; cbn [ML l_view_of view_vv] in *;
          try (stuck_contra Hns).
        change (funs_of ft id) with (option_map fundef_of (nth_error ft id)) in *. destruct (nth_error ft id) as [fd|] eqn:En; cbn [option_map] in *; [|stuck_contra Hns].
        rewrite push_emb, needs_emb. change (ss_needs (emb ft true (push_frame c))) with true.
        destruct (eval_list_sim opt_none (fun v => eq_refl) args Hargs (push_frame c) Hwf) as [E1 W1].
        { intros E. apply Hns. rewrite E. reflexivity. }
        rewrite E1. destruct (evals_with EV (map expr_of args) (push_frame c)) as [[vs c1]|[s| |w]| |] eqn:R1; try solve [fail_case].
        cbn [evs_out rmap result_to_res Base.bind rbind fst snd] in *. specialize (W1 vs c1 eq_refl).
        rewrite needs_emb.
        destruct (call_sim true fd vs c1 W1 (ft_body_ok id fd En)) as [E2 W2]. { exact Hns. }
        rewrite E2. split; [reflexivity | exact W2].
      + (* a built-in function *)
        cbn [expr_of eval eval_tok] in *. rewrite needs_emb. change (ss_needs (emb ft true c)) with true.
        destruct (eval_list_sim opt_none (fun v => eq_refl) args Hargs c Hwf) as [E1 W1].
        { intros E. apply Hns. rewrite E. reflexivity. }
        rewrite E1. destruct (evals_with EV (map expr_of args) c) as [[vs c1]|[s| |w]| |] eqn:R1; try solve [fail_case].
        cbn [evs_out rmap result_to_res Base.bind rbind fst snd] in *. specialize (W1 vs c1 eq_refl).
        rewrite needs_emb. change (ss_scopes (emb ft true c1)) with (env c1). change (ss_needs (emb ft true c1)) with true.
        unfold shadowed in *. cbn [ML l_op_name m_op_name l_view_of l_op_sem m_op] in *.
        change (lookup ML name (env c1)) with (vars_lookup name (env c1)) in *.
        destruct (vars_lookup name (env c1)) as [[v|id|]|] eqn:El; cbn [view_vv] in *; try (stuck_contra Hns);
          (destruct (Expr.sys_function name vs) as [v'|s| |w]; cbn [res_to_result rbind rmap result_to_res Base.bind fst snd]; try solve [fail_case];
           split; [reflexivity | apply wf_out_fin; exact W1]).
    - (* TValueInc *)
      intros x d c Hwf Hns. stuck_contra Hns.
    - (* TMakeArray *)
      intros items Hitems c Hwf Hns. cbn [expr_of eval eval_tok] in *. rewrite needs_emb. change (ss_needs (emb ft true c)) with true.
      destruct (eval_list_sim opt_zero (fun v => eq_refl) items Hitems c Hwf) as [E1 W1].
      { intros E. apply Hns. rewrite E. reflexivity. }
      rewrite E1. destruct (evals_with EV (map expr_of items) c) as [[vs c1]|[s| |w]| |] eqn:R1; try solve [fail_case].
      cbn [evs_out rmap result_to_res Base.bind rbind fst snd shadowed ML l_op_name m_op_name l_op_sem m_op] in *.
      rewrite needs_emb. split; [reflexivity | apply wf_out_fin; exact (W1 vs c1 eq_refl)].
  Qed.

  Notation EVO := (eval_opt ML (funs_of ft) blk).
  Notation EVA := (eval_args ML (funs_of ft) blk).

  (* exec_value on a slot with at most one expression *)
  Lemma value_sim m e c :
    wf c -> EVO (Expr.SInt 0) (oexpr_of e) c <> Stuck ->
    exec_value_o ec e (emb ft m c) = val_out m (EVO (Expr.SInt 0) (oexpr_of e) c) /\ wf_out (EVO (Expr.SInt 0) (oexpr_of e) c).
  Proof.
    intros Hwf Hns. unfold exec_value_o. rewrite st_flag_emb. unfold wf in Hwf. rewrite Hwf. cbn [Z.eqb negb].
    destruct e as [t|]; cbn [oexpr_of option_map eval_opt] in *.
    - rewrite needs_emb. destruct (ev_all t c Hwf Hns) as [E W]. rewrite E.
      destruct (EV (expr_of t) c) as [[v c1]|[s| |w]| |] eqn:R; try solve [fail_case].
      cbn [ev_out val_out rmap result_to_res Base.bind fst snd opt_zero]. rewrite needs_emb.
      split; [reflexivity | apply wf_out_fin; exact (W v c1 eq_refl)].
    - split; [reflexivity | apply wf_out_fin; exact Hwf].
  Qed.

  (* exec_args on the argument list of a statement *)
  Lemma eval_args_sim l : forall c,
    wf c -> EVA (map oexpr_of l) c <> Stuck ->
    eval_args_o ec l (emb ft true c) = evs_out true (EVA (map oexpr_of l) c) /\ wf_out (EVA (map oexpr_of l) c).
  Proof.
    induction l as [|a r IH]; intros c Hwf Hns.
    - split; [reflexivity | apply wf_out_fin; exact Hwf].
    - cbn [map eval_args eval_args_o] in *.
      assert (A : (match a with None => Ok (None, emb ft true c) | Some t => eval_tok ec t (emb ft true c) end)
                  = result_to_res (rmap (fun p => (Some (fst p), emb ft true (snd p))) (EVO Expr.SNone (oexpr_of a) c))
                  /\ wf_out (EVO Expr.SNone (oexpr_of a) c)
                  \/ a = None).
      { destruct a as [t|]; [left|right; reflexivity]. cbn [oexpr_of option_map eval_opt] in *.
        apply (ev_all t c Hwf). intros E. apply Hns. cbn [ML l_vnone]. rewrite E. reflexivity. }
      destruct A as [[E1 W1]| ->].
      + rewrite E1. cbn [ML l_vnone] in *.
        destruct (EVO Expr.SNone (oexpr_of a) c) as [[v c1]|[s| |w]| |] eqn:R1; try solve [fail_case].
        cbn [rmap result_to_res Base.bind rbind fst snd] in *. specialize (W1 v c1 eq_refl).
        destruct (IH c1 W1) as [E2 W2]. { intros E. apply Hns. rewrite E. reflexivity. }
        rewrite E2. destruct (EVA (map oexpr_of r) c1) as [[vs c2]|[s| |w]| |] eqn:R2; try solve [fail_case].
        cbn [evs_out rmap result_to_res Base.bind rbind fst snd opt_none].
        split; [reflexivity | apply wf_out_fin; exact (W2 vs c2 eq_refl)].
      + cbn [oexpr_of option_map eval_opt ML l_vnone Base.bind rbind fst snd] in *.
        destruct (IH c Hwf) as [E2 W2]. { intros E. apply Hns. rewrite E. reflexivity. }
        rewrite E2. destruct (EVA (map oexpr_of r) c) as [[vs c2]|[s| |w]| |] eqn:R2; try solve [fail_case].
        cbn [evs_out rmap result_to_res Base.bind rbind fst snd opt_none].
        split; [reflexivity | apply wf_out_fin; exact (W2 vs c2 eq_refl)].
  Qed.

  Lemma args_sim m l c :
    wf c -> EVA (map oexpr_of l) c <> Stuck ->
    exec_args_o ec l (emb ft m c) = evs_out m (EVA (map oexpr_of l) c) /\ wf_out (EVA (map oexpr_of l) c).
  Proof.
    intros Hwf Hns. unfold exec_args_o. rewrite needs_emb. destruct (eval_args_sim l c Hwf Hns) as [E W]. rewrite E.
    destruct (EVA (map oexpr_of l) c) as [[vs c1]|[s| |w]| |] eqn:R; try solve [fail_case].
    cbn [evs_out rmap result_to_res Base.bind fst snd]. rewrite needs_emb.
    split; [reflexivity | exact W].
  Qed.

  (* ---- loops ---- *)
  Lemma add_log_set_flag w f msg : add_log (s_set_break_flag w f) msg = s_set_break_flag (add_log w msg) f.
  Proof. unfold add_log. destruct w; unfold s_set_break_flag, s_set_logs; cbn. destruct (_ <=? _); reflexivity. Qed.
  Lemma add_log_flag w msg : s_break_flag (add_log w msg) = s_break_flag w.
  Proof. unfold add_log. destruct (_ <=? _); [reflexivity|]. destruct w; reflexivity. Qed.

  Definition cut_sig (sg : signal) : signal := match sg with Ret => Ret | _ => Normal end.
  Lemma limit_exit_emb m is_for line sg c :
    limit_exit is_for line (emb_sig ft m (sg, c))
    = emb_sig ft m (cut_sig sg, set_world c (m_limit is_for line (world c))).
  Proof.
    unfold limit_exit, st_log, emb_sig, st_set_flag, st_set_song, st_flag, emb, m_limit.
    cbn [fst snd ss_song ss_scopes ss_funcs ss_needs world env set_world].
    rewrite add_log_set_flag, flag_set_flag.
    destruct sg; cbn [sig_code cut_sig Z.eqb orb Pos.eqb]; rewrite ?set_flag_twice; reflexivity.
  Qed.

  Lemma loop_halted_value st : st_flag st <> 0 -> forall e, exec_value_o ec e st = Ok (Expr.SInt 0, st).
  Proof. intros H e. unfold exec_value_o. destruct (st_flag st =? 0) eqn:E; [apply Z.eqb_eq in E; contradiction|]. reflexivity. Qed.
  Lemma for_loop_halted n cnd inc body line counter st :
    st_flag st <> 0 -> for_loop ec (S n) cnd inc body line counter st = Ok st.
  Proof. intros H. cbn [for_loop]. rewrite (loop_halted_value st H). reflexivity. Qed.

  Lemma sig_code_nz sg : sg <> Normal -> sig_code sg <> 0.
  Proof. destruct sg; cbn; intros H; try discriminate; contradiction. Qed.

  Lemma while_sim m cnd body line :
    toks_ok body = true -> forall left n counter c,
    wf c -> counter + Z.of_nat left = MAX_LOOP -> (left < n)%nat ->
    while_sem ML (funs_of ft) blk left (oexpr_of cnd) (prog_of body) line c <> Stuck ->
    while_loop ec n cnd body line counter (emb ft m c)
      = out_state ft m (while_sem ML (funs_of ft) blk left (oexpr_of cnd) (prog_of body) line c)
    /\ wf_out (while_sem ML (funs_of ft) blk left (oexpr_of cnd) (prog_of body) line c).
  Proof.
    intros Hok. induction left as [|left IH]; intros n counter c Hwf Hc Hn Hns;
      (destruct n as [|n]; [lia|]); cbn [while_loop while_sem] in *; cbn [ML l_vzero l_truth] in *.
    - (* the last pass allowed *)
      destruct (value_sim m cnd c Hwf) as [E1 W1]. { intros E. apply Hns. rewrite E. reflexivity. }
      rewrite E1. destruct (EVO (Expr.SInt 0) (oexpr_of cnd) c) as [[v c1]|[s| |w]| |] eqn:R1; try solve [fail_case].
      cbn [val_out rmap result_to_res Base.bind rbind fst snd] in *. specialize (W1 v c1 eq_refl).
      destruct (Expr.to_b v); cbn [negb] in *.
      2: { unfold out_state. cbn [rmap result_to_res]. rewrite emb_sig_normal by exact W1. split; [reflexivity | apply wf_out_fin; exact W1]. }
      destruct (HB body m c1 W1 Hok) as [E2 W2]. { intros E. apply Hns. rewrite E. reflexivity. }
      rewrite E2. destruct (blk (prog_of body) c1) as [[sg c2]|[s| |w]| |] eqn:R2; try solve [fail_case].
      cbn [out_state rmap result_to_res Base.bind rbind fst snd] in *. specialize (W2 sg c2 eq_refl).
      assert (Hgt : counter + 1 >? MAX_LOOP = true) by (rewrite Z.gtb_ltb; apply Z.ltb_lt; lia).
      rewrite Hgt. rewrite limit_exit_emb. unfold cut_off. cbn [ML l_limit_note].
      split; [reflexivity|]. apply wf_out_fin. unfold wf, m_limit. cbn [world set_world]. rewrite add_log_flag. exact W2.
    - destruct (value_sim m cnd c Hwf) as [E1 W1]. { intros E. apply Hns. rewrite E. reflexivity. }
      rewrite E1. destruct (EVO (Expr.SInt 0) (oexpr_of cnd) c) as [[v c1]|[s| |w]| |] eqn:R1; try solve [fail_case].
      cbn [val_out rmap result_to_res Base.bind rbind fst snd] in *. specialize (W1 v c1 eq_refl).
      destruct (Expr.to_b v); cbn [negb] in *.
      2: { unfold out_state. cbn [rmap result_to_res]. rewrite emb_sig_normal by exact W1. split; [reflexivity | apply wf_out_fin; exact W1]. }
      destruct (HB body m c1 W1 Hok) as [E2 W2]. { intros E. apply Hns. rewrite E. reflexivity. }
      rewrite E2. destruct (blk (prog_of body) c1) as [[sg c2]|[s| |w]| |] eqn:R2; try solve [fail_case].
      cbn [out_state rmap result_to_res Base.bind rbind fst snd] in *. specialize (W2 sg c2 eq_refl).
      assert (Hgt : counter + 1 >? MAX_LOOP = false) by (rewrite Z.gtb_ltb; apply Z.ltb_ge; lia).
      rewrite Hgt. rewrite st_flag_emb_sig.
      destruct sg; cbn [sig_code Z.eqb Pos.eqb] in *.
      + rewrite emb_sig_normal by exact W2. apply IH; [exact W2 | lia | lia | exact Hns].
      + rewrite clear_emb_sig by exact W2. unfold out_state. cbn [rmap result_to_res]. rewrite emb_sig_normal by exact W2.
        split; [reflexivity | apply wf_out_fin; exact W2].
      + rewrite clear_emb_sig by exact W2. apply IH; [exact W2 | lia | lia | exact Hns].
      + split; [reflexivity | apply wf_out_fin; exact W2].
  Qed.

  Lemma for_sim m cnd inc body line :
    toks_ok inc = true -> toks_ok body = true -> forall left n counter c,
    wf c -> counter + Z.of_nat left = MAX_LOOP -> (left < n)%nat ->
    for_sem ML (funs_of ft) blk left (oexpr_of cnd) (prog_of inc) (prog_of body) line c <> Stuck ->
    for_loop ec n cnd inc body line counter (emb ft m c)
      = out_state ft m (for_sem ML (funs_of ft) blk left (oexpr_of cnd) (prog_of inc) (prog_of body) line c)
    /\ wf_out (for_sem ML (funs_of ft) blk left (oexpr_of cnd) (prog_of inc) (prog_of body) line c).
  Proof.
    intros Hoki Hok. induction left as [|left IH]; intros n counter c Hwf Hc Hn Hns;
      (destruct n as [|n]; [lia|]); cbn [for_loop for_sem] in *; cbn [ML l_vzero l_truth] in *.
    - destruct (value_sim m cnd c Hwf) as [E1 W1]. { intros E. apply Hns. rewrite E. reflexivity. }
      rewrite E1. destruct (EVO (Expr.SInt 0) (oexpr_of cnd) c) as [[v c1]|[s| |w]| |] eqn:R1; try solve [fail_case].
      cbn [val_out rmap result_to_res Base.bind rbind fst snd] in *. specialize (W1 v c1 eq_refl).
      destruct (Expr.to_b v); cbn [negb] in *.
      2: { unfold out_state. cbn [rmap result_to_res]. rewrite emb_sig_normal by exact W1. split; [reflexivity | apply wf_out_fin; exact W1]. }
      destruct (HB body m c1 W1 Hok) as [E2 W2]. { intros E. apply Hns. rewrite E. reflexivity. }
      rewrite E2. destruct (blk (prog_of body) c1) as [[sg c2]|[s| |w]| |] eqn:R2; try solve [fail_case].
      cbn [out_state rmap result_to_res Base.bind rbind fst snd] in *. specialize (W2 sg c2 eq_refl).
      assert (Hgt : counter + 1 >? MAX_LOOP = true) by (rewrite Z.gtb_ltb; apply Z.ltb_lt; lia).
      rewrite Hgt. rewrite limit_exit_emb. unfold cut_off. cbn [ML l_limit_note].
      split; [reflexivity|]. apply wf_out_fin. unfold wf, m_limit. cbn [world set_world]. rewrite add_log_flag. exact W2.
    - destruct (value_sim m cnd c Hwf) as [E1 W1]. { intros E. apply Hns. rewrite E. reflexivity. }
      rewrite E1. destruct (EVO (Expr.SInt 0) (oexpr_of cnd) c) as [[v c1]|[s| |w]| |] eqn:R1; try solve [fail_case].
      cbn [val_out rmap result_to_res Base.bind rbind fst snd] in *. specialize (W1 v c1 eq_refl).
      destruct (Expr.to_b v); cbn [negb] in *.
      2: { unfold out_state. cbn [rmap result_to_res]. rewrite emb_sig_normal by exact W1. split; [reflexivity | apply wf_out_fin; exact W1]. }
      destruct (HB body m c1 W1 Hok) as [E2 W2]. { intros E. apply Hns. rewrite E. reflexivity. }
      rewrite E2. destruct (blk (prog_of body) c1) as [[sg c2]|[s| |w]| |] eqn:R2; try solve [fail_case].
      cbn [out_state rmap result_to_res Base.bind rbind fst snd] in *. specialize (W2 sg c2 eq_refl).
      assert (Hgt : counter + 1 >? MAX_LOOP = false) by (rewrite Z.gtb_ltb; apply Z.ltb_ge; lia).
      rewrite Hgt. rewrite st_flag_emb_sig.
      destruct n as [|n']; [lia|].
      (* the increment, then the next pass *)
      assert (Hinc : rbind (blk (prog_of inc) c2)
                       (fun r2 => match fst r2 with
                                  | Normal => for_sem ML (funs_of ft) blk left (oexpr_of cnd) (prog_of inc) (prog_of body) line (snd r2)
                                  | sg0 => Fin (sg0, snd r2)
                                  end) <> Stuck ->
              (do st3 <- ec inc (Ok (emb ft m c2)); for_loop ec (S n') cnd inc body line (counter + 1) st3)
              = out_state ft m (rbind (blk (prog_of inc) c2)
                       (fun r2 => match fst r2 with
                                  | Normal => for_sem ML (funs_of ft) blk left (oexpr_of cnd) (prog_of inc) (prog_of body) line (snd r2)
                                  | sg0 => Fin (sg0, snd r2)
                                  end))
              /\ wf_out (rbind (blk (prog_of inc) c2)
                       (fun r2 => match fst r2 with
                                  | Normal => for_sem ML (funs_of ft) blk left (oexpr_of cnd) (prog_of inc) (prog_of body) line (snd r2)
                                  | sg0 => Fin (sg0, snd r2)
                                  end))).
      { intros Hns2. destruct (HB inc m c2 W2 Hoki) as [E3 W3]. { intros E. apply Hns2. rewrite E. reflexivity. }
        rewrite E3. destruct (blk (prog_of inc) c2) as [[sg2 c3]|[s| |w]| |] eqn:R3; try solve [fail_case].
        cbn [out_state rmap result_to_res Base.bind rbind fst snd] in *. specialize (W3 sg2 c3 eq_refl).
        destruct sg2.
        - rewrite emb_sig_normal by exact W3. apply IH; [exact W3 | lia | lia | exact Hns2].
        - rewrite for_loop_halted by (rewrite st_flag_emb_sig; discriminate). split; [reflexivity | apply wf_out_fin; exact W3].
        - rewrite for_loop_halted by (rewrite st_flag_emb_sig; discriminate). split; [reflexivity | apply wf_out_fin; exact W3].
        - rewrite for_loop_halted by (rewrite st_flag_emb_sig; discriminate). split; [reflexivity | apply wf_out_fin; exact W3]. }
      destruct sg; cbn [sig_code Z.eqb Pos.eqb] in *.
      + rewrite emb_sig_normal by exact W2. apply Hinc. exact Hns.
      + rewrite clear_emb_sig by exact W2. unfold out_state. cbn [rmap result_to_res]. rewrite emb_sig_normal by exact W2.
        split; [reflexivity | apply wf_out_fin; exact W2].
      + rewrite clear_emb_sig by exact W2. apply Hinc. exact Hns.
      + rewrite (Hhalt _ _ _ R2) by (rewrite st_flag_emb_sig; discriminate). cbn [Base.bind].
        rewrite for_loop_halted by (rewrite st_flag_emb_sig; discriminate).
        split; [reflexivity | apply wf_out_fin; exact W2].
  Qed.
End Level.
