(* C11 - the script layer of the model (model/Script.v) against the big-step semantics of structured scripts
   (spec/ScriptSem.v).

   1. the instantiation of the generic semantics: values, bindings, operators, leaves, log lines, function table;
      the translation of script tokens / expression tokens into statements / expressions (total, structural)
   2. exec_s on a token list without loop brackets is a left-to-right fold that stops at the first raised flag (from the
      generic loop-machine theorem of C05)
   3. simulation, one nesting level at a time: expressions, argument lists, calls, loops, statements, blocks
   4. the main theorem exec_vs_sem (induction on the nesting budget)
   5. facts about the meaning itself: branches, unrolling, BREAK / CONTINUE, the limit, calls, defaults, RETURN, scopes *)
From Coq Require Import String.
From Sakura.Model Require Import Base Cursor Length Event Song Token LoopMachine LexCore RunCore Compile Script.
From Sakura.Model Require Expr.
From Sakura.Spec Require LoopSpec.
From Sakura.Spec Require Import ScriptSem.
From Sakura.Proofs Require LoopP BlockP.
From Sakura.Gen Require Import Messages.
Open Scope Z_scope.
Open Scope list_scope.

(* ------------------------------------------------------------------------------------------------ *)
(* 1. instantiation                                                                                   *)

(* what a model function can answer besides a value *)
Inductive merr := MPanic (site : Z) | MFuel | MUnsup (what : Z).

(* operators of the expression language *)
Inductive mop :=
| OConst (v : Expr.sval)
| OCalc (flag : Z)
| OSys (name : list ch)
| OArr
| OBad.

Notation mresult := (result merr).
Notation mexpr := (expr (list ch) mop).
Notation mstmt := (stmt (list ch) Token.tok mop nat).
Notation mfundef := (fundef (list ch) Token.tok mop Expr.sval nat).
Notation mcfg := (cfg (list ch) song vv).
Notation mview := (view Expr.sval nat).

Definition res_to_result {A} (r : res A) : mresult A :=
  match r with
  | Ok a => Fin a
  | Panic s => Fail (MPanic s)
  | OutOfFuel => Fail MFuel
  | Unsupported w => Fail (MUnsup w)
  end.
Definition result_to_res {A} (r : mresult A) : res A :=
  match r with
  | Fin a => Ok a
  | Fail (MPanic s) => Panic s
  | Fail MFuel => OutOfFuel
  | Fail (MUnsup w) => Unsupported w
  | NoFuel => OutOfFuel
  | Stuck => Unsupported 0
  end.
Definition rmap {A B} (f : A -> B) (r : mresult A) : mresult B :=
  match r with
  | Fin a => Fin (f a)
  | Fail e => Fail e
  | Stuck => Stuck
  | NoFuel => NoFuel
  end.

Definition view_vv (b : vv) : mview :=
  match b with VV v => BVal v | VFunc id => BFun id | VOpaque => BOpaque end.

Definition m_atom (t : Token.tok) (w : song) : mresult song :=
  res_to_result (step_song (fun _ _ => Unsupported U_SCHILD) t w).
Definition m_op (o : mop) (vs : list Expr.sval) : mresult Expr.sval :=
  match o with
  | OConst v => Fin v
  | OCalc flag => res_to_result (Expr.calc flag (nth 0 vs Expr.SNone) (nth 1 vs Expr.SNone))
  | OSys name => res_to_result (Expr.sys_function name vs)
  | OArr => Fin (Expr.SArr vs)
  | OBad => Stuck
  end.
Definition m_op_name (o : mop) : option (list ch) := match o with OSys name => Some name | _ => None end.
Definition m_unbound (x : list ch) : mresult Expr.sval :=
  if Expr.name_in x Expr.system_names then Fail (MUnsup Expr.U_SYSVAR) else Fin Expr.SNone.
Definition m_print (line : Z) (vs : list Expr.sval) (w : song) : song :=
  add_log w (zs "[PRINT](" ++ show_int line ++ zs ") " ++ join_blank (map Expr.to_s vs)).
Definition m_limit (is_for : bool) (line : Z) (w : song) : song := add_log w (limit_msg (s_ja w) is_for line).
Definition m_decl (is_int : bool) (x : list ch) (v : Expr.sval) (w : song) : song :=
  if is_int && is_arr v then runtime_error w (Msg.msg_ErrorTypeMismatch (s_ja w) ++ zs ": " ++ x) else w.
Definition m_incr (v : Expr.sval) (d : Z) : Expr.sval := Expr.SInt (Expr.to_i v + d).
Definition m_N : nat := Z.to_nat MAX_LOOP.

(* expression tokens as expressions *)
Fixpoint expr_of (t : Expr.tok) : mexpr :=
  match t with
  | Expr.TConstInt v => EOp (OConst (Expr.SInt v)) []
  | Expr.TConstStr s => EOp (OConst (Expr.SStr s)) []
  | Expr.TGetVar x => EVar x
  | Expr.TCalc flag _ l r => if flag =? 0 then EOp OBad [] else EOp (OCalc flag) [expr_of l; expr_of r]
  | Expr.TCall true name args => ECall name (map expr_of args)
  | Expr.TCall false name args => EOp (OSys name) (map expr_of args)
  | Expr.TValueInc _ _ => EOp OBad []
  | Expr.TMakeArray items => EOp OArr (map expr_of items)
  end.
Definition oexpr_of (e : option Expr.tok) : option mexpr := option_map expr_of e.

(* script tokens as statements *)
Fixpoint stmt_of (t : stok) : mstmt :=
  match t with
  | SCore ct => Leaf ct
  | SPrint args line => Print (map oexpr_of args) line
  | SDefVar k x init => Decl k x (oexpr_of init)
  | SLetVar x e => Assign x (oexpr_of e)
  | SValueInc x d => Incr x d
  | SIf c th el _ => If (oexpr_of c) (map stmt_of th) (map stmt_of el)
  | SWhile c body line => While (oexpr_of c) (map stmt_of body) line
  | SFor init c inc body line => For (map stmt_of init) (oexpr_of c) (map stmt_of inc) (map stmt_of body) line
  | SBreak => Break
  | SContinue => Continue
  | SReturn e => Return (oexpr_of e)
  | SCall id args => CallS id (map oexpr_of args)
  end.
Definition prog_of (toks : list stok) : list mstmt := map stmt_of toks.

Definition fundef_of (fd : fdef) : mfundef := mkFun (f_params fd) (prog_of (f_body fd)).
Definition funs_of (ft : list fdef) (id : nat) : option mfundef := option_map fundef_of (nth_error ft id).

(* the language of the model *)
Definition ML : lang (list ch) Token.tok mop Expr.sval song vv nat merr :=
  mkLang list_eqb t_Result view_vv VV Expr.to_b Expr.SNone (Expr.SInt 0) Expr.is_none m_incr m_atom m_op m_op_name
         m_unbound m_print m_limit m_decl m_N.

(* ---- states of the model as configurations of the semantics ---- *)
Definition emb (ft : list fdef) (m : bool) (c : mcfg) : sstate := mkS (world c) (env c) ft m.
Definition sig_code (sg : signal) : Z := match sg with Normal => 0 | Brk => 1 | Cont => 2 | Ret => 3 end.
Definition emb_sig (ft : list fdef) (m : bool) (r : signal * mcfg) : sstate := st_set_flag (emb ft m (snd r)) (sig_code (fst r)).
(* the world of a configuration carries no raised flag: the signal is what the semantics returns *)
Definition wf (c : mcfg) : Prop := s_break_flag (world c) = 0.
Definition out_state (ft : list fdef) (m : bool) (r : mresult (signal * mcfg)) : res sstate := result_to_res (rmap (emb_sig ft m) r).
Definition wf_out {A} (r : mresult (A * mcfg)) : Prop := forall a c, r = Fin (a, c) -> wf c.

Lemma set_flag_twice w a b : s_set_break_flag (s_set_break_flag w a) b = s_set_break_flag w b.
Proof. destruct w; reflexivity. Qed.
Lemma set_flag_same w : s_set_break_flag w (s_break_flag w) = w.
Proof. destruct w; reflexivity. Qed.
Lemma flag_set_flag w a : s_break_flag (s_set_break_flag w a) = a.
Proof. destruct w; reflexivity. Qed.

Lemma emb_sig_normal ft m c : wf c -> emb_sig ft m (Normal, c) = emb ft m c.
Proof.
  intros H. unfold emb_sig, st_set_flag, st_set_song, emb. cbn [fst snd sig_code ss_song ss_scopes ss_funcs ss_needs].
  unfold wf in H. rewrite <- H at 1. rewrite set_flag_same. reflexivity.
Qed.
Lemma st_flag_emb ft m c : st_flag (emb ft m c) = s_break_flag (world c).
Proof. reflexivity. Qed.
Lemma st_flag_emb_sig ft m sg c : st_flag (emb_sig ft m (sg, c)) = sig_code sg.
Proof. unfold emb_sig, st_flag, st_set_flag, st_set_song. cbn [ss_song fst snd]. apply flag_set_flag. Qed.
Lemma sig_code_zero sg : sig_code sg = 0 -> sg = Normal.
Proof. destruct sg; cbn; intros H; try reflexivity; discriminate. Qed.
(* clearing the flag of a result state gives back the plain configuration *)
Lemma clear_emb_sig ft m sg c : wf c -> st_set_flag (emb_sig ft m (sg, c)) 0 = emb ft m c.
Proof.
  intros H. unfold emb_sig, st_set_flag, st_set_song, emb. cbn [fst snd ss_song ss_scopes ss_funcs ss_needs].
  rewrite set_flag_twice. unfold wf in H. rewrite <- H. rewrite set_flag_same. reflexivity.
Qed.

Lemma wf_out_fin {A} (a : A) c : wf c -> wf_out (Fin (a, c) : mresult (A * mcfg)).
Proof. intros H a' c' E. injection E as _ <-. exact H. Qed.
Lemma wf_out_other {A} (r : mresult (A * mcfg)) : (forall x, r <> Fin x) -> wf_out r.
Proof. intros H a c E. exfalso. exact (H _ E). Qed.

(* ------------------------------------------------------------------------------------------------ *)
(* 2. the machine on a list without loop brackets                                                     *)

Definition bracket_free_tok (t : stok) : bool :=
  match t with
  | SCore (TLoopBegin _) | SCore TLoopBreak | SCore TLoopEnd => false
  | _ => true
  end.
(* a block: no loop brackets, shorter than the fuel of one exec() loop, and so for every block inside *)
Definition blk_ok (f : stok -> bool) (l : list stok) : bool := forallb f l && Nat.ltb (length l) STEPS.
Fixpoint tok_ok (t : stok) : bool :=
  bracket_free_tok t &&
  match t with
  | SIf _ th el _ => blk_ok tok_ok th && blk_ok tok_ok el
  | SWhile _ body _ => blk_ok tok_ok body
  | SFor init _ inc body _ => blk_ok tok_ok init && blk_ok tok_ok inc && blk_ok tok_ok body
  | _ => true
  end.
Definition toks_ok (l : list stok) : bool := blk_ok tok_ok l.
Definition ft_ok (ft : list fdef) : bool := forallb (fun fd => toks_ok (f_body fd)) ft.

Definition fold_halt (f : stok -> res sstate -> res sstate) (toks : list stok) (s : res sstate) : res sstate :=
  fold_left (fun acc t => if halted_s acc then acc else f t acc) toks s.

Fixpoint leaves_s (toks : list stok) : LoopSpec.prog stok :=
  match toks with
  | [] => LoopSpec.PNil
  | t :: r => LoopSpec.PCons (LoopSpec.Leaf t) (leaves_s r)
  end.

Lemma flatten_leaves_s toks :
  forallb bracket_free_tok toks = true -> map to_ltok_s toks = LoopSpec.flatten (leaves_s toks).
Proof.
  induction toks as [|t r IH]; [reflexivity|]. cbn [forallb]. intros H. apply andb_prop in H. destruct H as [Ht Hr].
  cbn [map leaves_s LoopSpec.flatten LoopSpec.flat_item app]. rewrite <- (IH Hr). f_equal.
  destruct t as [ct| | | | | | | | | | | ]; try reflexivity. destruct ct; try reflexivity; discriminate.
Qed.

Lemma cost_leaves_s step (hl : res sstate -> bool) cnt toks s :
  LoopSpec.cost stok (res sstate) step hl cnt (leaves_s toks) s = length toks.
Proof.
  revert s. induction toks as [|t r IH]; intros s; [reflexivity|].
  cbn [leaves_s LoopSpec.cost LoopSpec.cost_item length]. rewrite IH. reflexivity.
Qed.

Lemma sem_leaves_s step (hl : res sstate -> bool) cnt toks s :
  LoopSpec.sem stok (res sstate) step hl cnt (leaves_s toks) s
  = fold_left (fun acc t => if hl acc then acc else step t acc) toks s.
Proof.
  revert s. induction toks as [|t r IH]; intros s; [reflexivity|].
  cbn [leaves_s LoopSpec.sem LoopSpec.sem_item fold_left]. apply IH.
Qed.

(* exec() of a bracket-free list: the fold *)
Theorem exec_s_fold d toks s :
  forallb bracket_free_tok toks = true -> (length toks < STEPS)%nat ->
  exec_s (S d) toks s = fold_halt (step_stok (exec_s d)) toks s.
Proof.
  intros Hb Hl. cbn [exec_s]. rewrite (flatten_leaves_s toks Hb).
  rewrite (LoopP.run_flat_total stok (res sstate) (step_stok (exec_s d)) halted_s count_of_s (leaves_s toks) s STEPS)
    by (rewrite cost_leaves_s; exact Hl).
  apply sem_leaves_s.
Qed.

Lemma fold_halt_halted f toks s : halted_s s = true -> fold_halt f toks s = s.
Proof.
  intros H. unfold fold_halt. induction toks as [|t r IH]; [reflexivity|]. cbn [fold_left]. rewrite H. exact IH.
Qed.
Lemma fold_halt_cons f t r s : halted_s s = false -> fold_halt f (t :: r) s = fold_halt f r (f t s).
Proof. intros H. unfold fold_halt. cbn [fold_left]. rewrite H. reflexivity. Qed.
Lemma fold_halt_nil f s : fold_halt f [] s = s.
Proof. reflexivity. Qed.

(* on a state with a raised flag exec() does nothing (for any token list) *)
Lemma exec_s_halted d toks st : st_flag st <> 0 -> exec_s (S d) toks (Ok st) = Ok st.
Proof.
  intros H. cbn [exec_s]. unfold run.
  assert (E : mstep stok (res sstate) (step_stok (exec_s d)) halted_s count_of_s (map to_ltok_s toks) (LoopMachine.mkCfg (res sstate) 0 [] (Ok st)) = None).
  { unfold mstep. cbn [LoopMachine.pos]. destruct (nth_error _ 0) as [t|]; [|reflexivity].
    cbn [LoopMachine.st halted_s]. destruct (st_flag st =? 0) eqn:E; [apply Z.eqb_eq in E; contradiction|]. reflexivity. }
  assert (Hs : exists k, STEPS = S k).
  { unfold STEPS. exists (Nat.pred (Z.to_nat 400000)). lia. }
  destruct Hs as [k ->]. cbn [mrun]. rewrite E. reflexivity.
Qed.

(* ------------------------------------------------------------------------------------------------ *)
(* 3. simulation, one nesting level at a time                                                         *)

Lemma needs_emb ft m c b : st_set_needs (emb ft m c) b = emb ft b c.
Proof. reflexivity. Qed.
Lemma scopes_emb ft m c e : st_set_scopes (emb ft m c) e = emb ft m (set_env c e).
Proof. reflexivity. Qed.
Lemma song_emb ft m c w : st_set_song (emb ft m c) w = emb ft m (set_world c w).
Proof. reflexivity. Qed.
Lemma push_emb ft m c : st_set_scopes (emb ft m c) ([] :: ss_scopes (emb ft m c)) = emb ft m (push_frame c).
Proof. reflexivity. Qed.
Lemma insert_emb ft m c x v : st_insert (emb ft m c) x (VV v) = emb ft m (bind_val ML x v c).
Proof. reflexivity. Qed.
Lemma log_emb ft m c msg : st_log (emb ft m c) msg = emb ft m (set_world c (add_log (world c) msg)).
Proof. reflexivity. Qed.

Lemma eval_list_nil f d st : eval_list f d [] st = Ok ([], st).
Proof. reflexivity. Qed.
Lemma eval_list_cons f d x r st :
  eval_list f d (x :: r) st = (do p <- f x st; do q <- eval_list f d r (snd p); Ok (d (fst p) :: fst q, snd q)).
Proof. reflexivity. Qed.
Lemma evals_nil (f : mexpr -> mcfg -> mresult (Expr.sval * mcfg)) c : evals_with f [] c = Fin ([], c).
Proof. reflexivity. Qed.
Lemma evals_cons (f : mexpr -> mcfg -> mresult (Expr.sval * mcfg)) x r c :
  evals_with f (x :: r) c = rbind (f x c) (fun p => rbind (evals_with f r (snd p)) (fun q => Fin (fst p :: fst q, snd q))).
Proof. reflexivity. Qed.

(* lookups coincide *)
Lemma lookup_frame_eq x fr : lookup_frame ML x fr = scope_get x fr.
Proof. induction fr as [|[y b] r IH]; [reflexivity|]. cbn [lookup_frame scope_get ML l_name_eqb]. rewrite IH. reflexivity. Qed.
Lemma lookup_eq x e : lookup ML x e = vars_lookup x e.
Proof. induction e as [|fr r IH]; [reflexivity|]. cbn [lookup vars_lookup]. rewrite lookup_frame_eq, IH. reflexivity. Qed.
Lemma bind_eq x b e : bind x b e = vars_insert x b e.
Proof. destruct e; reflexivity. Qed.
Lemma bind_params_eq ps i vs e : ScriptSem.bind_params ML ps i vs e = Script.bind_params ps i vs e.
Proof.
  revert i e. induction ps as [|[x d] r IH]; intros i e; [reflexivity|].
  cbn [ScriptSem.bind_params Script.bind_params ML l_vnone l_is_none l_bnd_val]. rewrite IH, bind_eq. reflexivity.
Qed.

(* induction over expression tokens with hypotheses for the argument lists *)
Section EtokInd.
  Variable P : Expr.tok -> Prop.
  Hypothesis HInt : forall v, P (Expr.TConstInt v).
  Hypothesis HStr : forall s, P (Expr.TConstStr s).
  Hypothesis HVar : forall x, P (Expr.TGetVar x).
  Hypothesis HCalc : forall tag prio l r, P l -> P r -> P (Expr.TCalc tag prio l r).
  Hypothesis HCall : forall u name args, Forall P args -> P (Expr.TCall u name args).
  Hypothesis HInc : forall x d, P (Expr.TValueInc x d).
  Hypothesis HArr : forall items, Forall P items -> P (Expr.TMakeArray items).
  Fixpoint etok_ind' (t : Expr.tok) : P t :=
    match t with
    | Expr.TConstInt v => HInt v
    | Expr.TConstStr s => HStr s
    | Expr.TGetVar x => HVar x
    | Expr.TCalc tag prio l r => HCalc tag prio l r (etok_ind' l) (etok_ind' r)
    | Expr.TCall u name args =>
        HCall u name args ((fix go (l : list Expr.tok) : Forall P l :=
                              match l with [] => Forall_nil P | x :: r => Forall_cons x (etok_ind' x) (go r) end) args)
    | Expr.TValueInc x d => HInc x d
    | Expr.TMakeArray items =>
        HArr items ((fix go (l : list Expr.tok) : Forall P l :=
                       match l with [] => Forall_nil P | x :: r => Forall_cons x (etok_ind' x) (go r) end) items)
    end.
End EtokInd.

(* rbind / bind bookkeeping *)
Lemma rbind_stuck {A B} (r : mresult A) (f : A -> mresult B) : r = Stuck -> rbind r f = Stuck.
Proof. intros ->. reflexivity. Qed.

Ltac fail_case := cbn [Base.bind rbind rmap result_to_res]; split; [reflexivity | apply wf_out_other; let H := fresh "Hd" in intros ? H; discriminate H].

Section Level.
  Variable ft : list fdef.
  Hypothesis Hft : ft_ok ft = true.
  (* the meaning of a block one level down, and the model's exec() one level down, already related *)
  Variable blk : list mstmt -> mcfg -> mresult (signal * mcfg).
  Variable ec : list stok -> res sstate -> res sstate.
  Hypothesis HB : forall b m c, wf c -> toks_ok b = true -> blk (prog_of b) c <> Stuck ->
    ec b (Ok (emb ft m c)) = out_state ft m (blk (prog_of b) c) /\ wf_out (blk (prog_of b) c).
  Hypothesis Hhalt : forall b c r, blk b c = Fin r -> forall b' st, st_flag st <> 0 -> ec b' (Ok st) = Ok st.

  Notation EV := (eval ML (funs_of ft) blk).
  Definition ev_out (r : mresult (Expr.sval * mcfg)) : res (option Expr.sval * sstate) :=
    result_to_res (rmap (fun p => (Some (fst p), emb ft true (snd p))) r).
  Definition evs_out (m : bool) (r : mresult (list Expr.sval * mcfg)) : res (list Expr.sval * sstate) :=
    result_to_res (rmap (fun p => (fst p, emb ft m (snd p))) r).
  Definition val_out (m : bool) (r : mresult (Expr.sval * mcfg)) : res (Expr.sval * sstate) :=
    result_to_res (rmap (fun p => (fst p, emb ft m (snd p))) r).

  Definition ev_ok (t : Expr.tok) : Prop :=
    forall c, wf c -> EV (expr_of t) c <> Stuck ->
      eval_tok ec t (emb ft true c) = ev_out (EV (expr_of t) c) /\ wf_out (EV (expr_of t) c).

  Lemma ft_body_ok id fd : nth_error ft id = Some fd -> toks_ok (f_body fd) = true.
  Proof.
    intros H. unfold ft_ok in Hft. rewrite forallb_forall in Hft. apply (Hft fd). eapply nth_error_In. exact H.
  Qed.

  Lemma eval_list_sim dflt (Hd : forall v, dflt (Some v) = v) l :
    Forall ev_ok l -> forall c, wf c -> evals_with EV (map expr_of l) c <> Stuck ->
    eval_list (eval_tok ec) dflt l (emb ft true c) = evs_out true (evals_with EV (map expr_of l) c)
    /\ wf_out (evals_with EV (map expr_of l) c).
  Proof.
    induction 1 as [|x r Hx Hr IH]; intros c Hwf Hns.
    - cbn [map]. rewrite eval_list_nil, evals_nil. split; [reflexivity | apply wf_out_fin; exact Hwf].
    - cbn [map] in *. rewrite eval_list_cons. rewrite evals_cons in *.
      destruct (Hx c Hwf) as [E1 W1]. { intros E. apply Hns. rewrite E. reflexivity. }
      rewrite E1. destruct (EV (expr_of x) c) as [[v c1]|[s| |w]| |] eqn:R1; try solve [fail_case].
      cbn [ev_out rmap result_to_res Base.bind rbind fst snd] in *.
      specialize (W1 v c1 eq_refl). destruct (IH c1 W1) as [E2 W2]. { intros E. apply Hns. rewrite E. reflexivity. }
      rewrite E2. destruct (evals_with EV (map expr_of r) c1) as [[vs c2]|[s| |w]| |] eqn:R2; try solve [fail_case].
      cbn [evs_out rmap result_to_res Base.bind rbind fst snd]. rewrite Hd. split; [reflexivity | apply wf_out_fin; exact (W2 vs c2 eq_refl)].
  Qed.

  Definition call_out (m : bool) (r : mresult (Expr.sval * mcfg)) : res (option Expr.sval * sstate) :=
    result_to_res (rmap (fun p => (if m then Some (fst p) else None, emb ft m (snd p))) r).

  Lemma wf_set_env c e : wf c -> wf (set_env c e).
  Proof. exact (fun H => H). Qed.

  (* the call proper *)
  Lemma call_sim m fd vs c :
    wf c -> toks_ok (f_body fd) = true ->
    call_body ML blk (fundef_of fd) vs c <> Stuck ->
    finish_call ec fd vs (emb ft m c) = call_out m (call_body ML blk (fundef_of fd) vs c)
    /\ wf_out (call_body ML blk (fundef_of fd) vs c).
  Proof.
    intros Hwf Hok Hns. unfold finish_call, call_body in *. cbn [fundef_of fd_params fd_body] in *.
    change (ScriptSem.bind_params ML (f_params fd) 0 vs (env c)) with (Script.bind_params (f_params fd) 0 vs (env c)) in *.
    change (ss_scopes (emb ft m c)) with (env c). rewrite scopes_emb.
    set (c1 := set_env c (Script.bind_params (f_params fd) 0 vs (env c))) in *.
    assert (Hwf1 : wf c1) by exact Hwf.
    assert (Hfl : st_flag (emb ft m c1) = 0) by exact Hwf.
    rewrite Hfl.
    destruct (HB (f_body fd) m c1 Hwf1 Hok) as [E1 W1]. { intros E. apply Hns. rewrite E. reflexivity. }
    rewrite E1. destruct (blk (prog_of (f_body fd)) c1) as [[sg c2]|[s| |w]| |] eqn:R1; try solve [fail_case].
    cbn [out_state rmap result_to_res Base.bind rbind fst snd] in *.
    specialize (W1 sg c2 eq_refl). rewrite (clear_emb_sig ft m sg c2 W1).
    change (ss_scopes (emb ft m c2)) with (env c2).
    destruct (env c2) as [|fr rest] eqn:Ee. { exfalso. apply Hns. reflexivity. }
    rewrite scopes_emb. change (ss_needs (emb ft m (set_env c2 rest))) with m.
    cbn [ML l_result_name l_view_of l_vnone] in *.
    change (lookup_frame ML t_Result fr) with (scope_get t_Result fr) in *.
    destruct (scope_get t_Result fr) as [[v|id|]|] eqn:Er; cbn [view_vv] in *;
      try (exfalso; apply Hns; reflexivity).
    - unfold call_out. cbn [rmap result_to_res fst snd]. destruct m; (split; [reflexivity | apply wf_out_fin; exact W1]).
    - unfold call_out. cbn [rmap result_to_res fst snd]. destruct m; (split; [reflexivity | apply wf_out_fin; exact W1]).
  Qed.

  Ltac stuck_contra H := exfalso; apply H; reflexivity.

  (* expressions *)
  Lemma ev_all : forall t, ev_ok t.
  Proof.
    apply etok_ind'; unfold ev_ok.
    - (* TConstInt *)
      intros v c Hwf _. change (EV (expr_of (Expr.TConstInt v)) c) with (Fin (Expr.SInt v, c) : mresult (Expr.sval * mcfg)).
      split; [reflexivity | apply wf_out_fin; exact Hwf].
    - intros s0 c Hwf _. change (EV (expr_of (Expr.TConstStr s0)) c) with (Fin (Expr.SStr s0, c) : mresult (Expr.sval * mcfg)).
      split; [reflexivity | apply wf_out_fin; exact Hwf].
    - (* TGetVar *)
      intros x c Hwf Hns. cbn [expr_of eval eval_tok] in *.
      change (ss_scopes (emb ft true c)) with (env c).
      change (lookup ML x (env c)) with (vars_lookup x (env c)) in *.
      destruct (vars_lookup x (env c)) as [[v|id|]|] eqn:El; cbn [ML l_view_of view_vv l_unbound] in *;
        try (stuck_contra Hns).
      + split; [reflexivity | apply wf_out_fin; exact Hwf].
      + unfold m_unbound in *. destruct (Expr.name_in x Expr.system_names).
        * fail_case.
        * split; [reflexivity | apply wf_out_fin; exact Hwf].
    - (* TCalc *)
      intros flag prio l r Hl Hr c Hwf Hns. cbn [expr_of eval_tok] in *.
      destruct (flag =? 0) eqn:Ef. { exfalso. apply Hns. reflexivity. }
      cbn [eval evals_with] in *. rewrite needs_emb.
      destruct (Hl c Hwf) as [E1 W1]. { intros E. apply Hns. rewrite E. reflexivity. }
      rewrite E1. destruct (EV (expr_of l) c) as [[a c1]|[s| |w]| |] eqn:R1; try solve [fail_case].
      cbn [ev_out rmap result_to_res Base.bind rbind fst snd] in *. specialize (W1 a c1 eq_refl).
      destruct (Hr c1 W1) as [E2 W2]. { intros E. apply Hns. rewrite E. reflexivity. }
      rewrite E2. destruct (EV (expr_of r) c1) as [[b c2]|[s| |w]| |] eqn:R2; try solve [fail_case].
      cbn [ev_out rmap result_to_res Base.bind rbind fst snd opt_none shadowed ML l_op_name m_op_name l_op_sem m_op nth] in *.
      specialize (W2 b c2 eq_refl).
      destruct (Expr.calc flag a b) as [v|s| |w]; cbn [res_to_result rbind rmap result_to_res Base.bind fst snd]; try solve [fail_case].
      split; [reflexivity | apply wf_out_fin; exact W2].
    - (* TCall *)
      intros u name args Hargs c Hwf Hns. destruct u.
      + (* a call of the function the name is bound to *)
        cbn [expr_of eval eval_tok] in *.
        change (ss_scopes (emb ft true c)) with (env c). change (ss_funcs (emb ft true c)) with ft.
        change (lookup ML name (env c)) with (vars_lookup name (env c)) in *.
        destruct (vars_lookup name (env c)) as [[v|id|]|] eqn:El; cbn [ML l_view_of view_vv] in *;
          try (stuck_contra Hns).
        change (funs_of ft id) with (option_map fundef_of (nth_error ft id)) in *. destruct (nth_error ft id) as [fd|] eqn:En; cbn [option_map] in *; [|stuck_contra Hns].
        rewrite push_emb, needs_emb. change (ss_needs (emb ft true (push_frame c))) with true.
        destruct (eval_list_sim opt_none (fun v => eq_refl) args Hargs (push_frame c) Hwf) as [E1 W1].
        { intros E. apply Hns. rewrite E. reflexivity. }
        rewrite E1. destruct (evals_with EV (map expr_of args) (push_frame c)) as [[vs c1]|[s| |w]| |] eqn:R1; try solve [fail_case].
        cbn [evs_out rmap result_to_res Base.bind rbind fst snd] in *. specialize (W1 vs c1 eq_refl).
        rewrite needs_emb.
        destruct (call_sim true fd vs c1 W1 (ft_body_ok id fd En)) as [E2 W2]. { exact Hns. }
        rewrite E2. split; [reflexivity | exact W2].
      + (* a built-in function *)
        cbn [expr_of eval eval_tok] in *. rewrite needs_emb. change (ss_needs (emb ft true c)) with true.
        destruct (eval_list_sim opt_none (fun v => eq_refl) args Hargs c Hwf) as [E1 W1].
        { intros E. apply Hns. rewrite E. reflexivity. }
        rewrite E1. destruct (evals_with EV (map expr_of args) c) as [[vs c1]|[s| |w]| |] eqn:R1; try solve [fail_case].
        cbn [evs_out rmap result_to_res Base.bind rbind fst snd] in *. specialize (W1 vs c1 eq_refl).
        rewrite needs_emb. change (ss_scopes (emb ft true c1)) with (env c1). change (ss_needs (emb ft true c1)) with true.
        unfold shadowed in *. cbn [ML l_op_name m_op_name l_view_of l_op_sem m_op] in *.
        change (lookup ML name (env c1)) with (vars_lookup name (env c1)) in *.
        destruct (vars_lookup name (env c1)) as [[v|id|]|] eqn:El; cbn [view_vv] in *; try (stuck_contra Hns);
          (destruct (Expr.sys_function name vs) as [v'|s| |w]; cbn [res_to_result rbind rmap result_to_res Base.bind fst snd]; try solve [fail_case];
           split; [reflexivity | apply wf_out_fin; exact W1]).
    - (* TValueInc *)
      intros x d c Hwf Hns. stuck_contra Hns.
    - (* TMakeArray *)
      intros items Hitems c Hwf Hns. cbn [expr_of eval eval_tok] in *. rewrite needs_emb. change (ss_needs (emb ft true c)) with true.
      destruct (eval_list_sim opt_zero (fun v => eq_refl) items Hitems c Hwf) as [E1 W1].
      { intros E. apply Hns. rewrite E. reflexivity. }
      rewrite E1. destruct (evals_with EV (map expr_of items) c) as [[vs c1]|[s| |w]| |] eqn:R1; try solve [fail_case].
      cbn [evs_out rmap result_to_res Base.bind rbind fst snd shadowed ML l_op_name m_op_name l_op_sem m_op] in *.
      rewrite needs_emb. split; [reflexivity | apply wf_out_fin; exact (W1 vs c1 eq_refl)].
  Qed.

  Notation EVO := (eval_opt ML (funs_of ft) blk).
  Notation EVA := (eval_args ML (funs_of ft) blk).

  (* exec_value on a slot with at most one expression *)
  Lemma value_sim m e c :
    wf c -> EVO (Expr.SInt 0) (oexpr_of e) c <> Stuck ->
    exec_value_o ec e (emb ft m c) = val_out m (EVO (Expr.SInt 0) (oexpr_of e) c) /\ wf_out (EVO (Expr.SInt 0) (oexpr_of e) c).
  Proof.
    intros Hwf Hns. unfold exec_value_o. rewrite st_flag_emb. unfold wf in Hwf. rewrite Hwf. cbn [Z.eqb negb].
    destruct e as [t|]; cbn [oexpr_of option_map eval_opt] in *.
    - rewrite needs_emb. destruct (ev_all t c Hwf Hns) as [E W]. rewrite E.
      destruct (EV (expr_of t) c) as [[v c1]|[s| |w]| |] eqn:R; try solve [fail_case].
      cbn [ev_out val_out rmap result_to_res Base.bind fst snd opt_zero]. rewrite needs_emb.
      split; [reflexivity | apply wf_out_fin; exact (W v c1 eq_refl)].
    - split; [reflexivity | apply wf_out_fin; exact Hwf].
  Qed.

  (* exec_args on the argument list of a statement *)
  Lemma eval_args_sim l : forall c,
    wf c -> EVA (map oexpr_of l) c <> Stuck ->
    eval_args_o ec l (emb ft true c) = evs_out true (EVA (map oexpr_of l) c) /\ wf_out (EVA (map oexpr_of l) c).
  Proof.
    induction l as [|a r IH]; intros c Hwf Hns.
    - split; [reflexivity | apply wf_out_fin; exact Hwf].
    - cbn [map eval_args eval_args_o] in *.
      assert (A : (match a with None => Ok (None, emb ft true c) | Some t => eval_tok ec t (emb ft true c) end)
                  = result_to_res (rmap (fun p => (Some (fst p), emb ft true (snd p))) (EVO Expr.SNone (oexpr_of a) c))
                  /\ wf_out (EVO Expr.SNone (oexpr_of a) c)
                  \/ a = None).
      { destruct a as [t|]; [left|right; reflexivity]. cbn [oexpr_of option_map eval_opt] in *.
        apply (ev_all t c Hwf). intros E. apply Hns. cbn [ML l_vnone]. rewrite E. reflexivity. }
      destruct A as [[E1 W1]| ->].
      + rewrite E1. cbn [ML l_vnone] in *.
        destruct (EVO Expr.SNone (oexpr_of a) c) as [[v c1]|[s| |w]| |] eqn:R1; try solve [fail_case].
        cbn [rmap result_to_res Base.bind rbind fst snd] in *. specialize (W1 v c1 eq_refl).
        destruct (IH c1 W1) as [E2 W2]. { intros E. apply Hns. rewrite E. reflexivity. }
        rewrite E2. destruct (EVA (map oexpr_of r) c1) as [[vs c2]|[s| |w]| |] eqn:R2; try solve [fail_case].
        cbn [evs_out rmap result_to_res Base.bind rbind fst snd opt_none].
        split; [reflexivity | apply wf_out_fin; exact (W2 vs c2 eq_refl)].
      + cbn [oexpr_of option_map eval_opt ML l_vnone Base.bind rbind fst snd] in *.
        destruct (IH c Hwf) as [E2 W2]. { intros E. apply Hns. rewrite E. reflexivity. }
        rewrite E2. destruct (EVA (map oexpr_of r) c) as [[vs c2]|[s| |w]| |] eqn:R2; try solve [fail_case].
        cbn [evs_out rmap result_to_res Base.bind rbind fst snd opt_none].
        split; [reflexivity | apply wf_out_fin; exact (W2 vs c2 eq_refl)].
  Qed.

  Lemma args_sim m l c :
    wf c -> EVA (map oexpr_of l) c <> Stuck ->
    exec_args_o ec l (emb ft m c) = evs_out m (EVA (map oexpr_of l) c) /\ wf_out (EVA (map oexpr_of l) c).
  Proof.
    intros Hwf Hns. unfold exec_args_o. rewrite needs_emb. destruct (eval_args_sim l c Hwf Hns) as [E W]. rewrite E.
    destruct (EVA (map oexpr_of l) c) as [[vs c1]|[s| |w]| |] eqn:R; try solve [fail_case].
    cbn [evs_out rmap result_to_res Base.bind fst snd]. rewrite needs_emb.
    split; [reflexivity | exact W].
  Qed.

  (* ---- loops ---- *)
  Lemma add_log_set_flag w f msg : add_log (s_set_break_flag w f) msg = s_set_break_flag (add_log w msg) f.
  Proof. unfold add_log. destruct w; unfold s_set_break_flag, s_set_logs; cbn. destruct (_ <=? _); reflexivity. Qed.
  Lemma add_log_flag w msg : s_break_flag (add_log w msg) = s_break_flag w.
  Proof. unfold add_log. destruct (_ <=? _); [reflexivity|]. destruct w; reflexivity. Qed.

  Definition cut_sig (sg : signal) : signal := match sg with Ret => Ret | _ => Normal end.
  Lemma limit_exit_emb m is_for line sg c :
    limit_exit is_for line (emb_sig ft m (sg, c))
    = emb_sig ft m (cut_sig sg, set_world c (m_limit is_for line (world c))).
  Proof.
    unfold limit_exit, st_log, emb_sig, st_set_flag, st_set_song, st_flag, emb, m_limit.
    cbn [fst snd ss_song ss_scopes ss_funcs ss_needs world env set_world].
    rewrite add_log_set_flag, flag_set_flag.
    destruct sg; cbn [sig_code cut_sig Z.eqb orb Pos.eqb]; rewrite ?set_flag_twice; reflexivity.
  Qed.

  Lemma loop_halted_value st : st_flag st <> 0 -> forall e, exec_value_o ec e st = Ok (Expr.SInt 0, st).
  Proof. intros H e. unfold exec_value_o. destruct (st_flag st =? 0) eqn:E; [apply Z.eqb_eq in E; contradiction|]. reflexivity. Qed.
  Lemma for_loop_halted n cnd inc body line counter st :
    st_flag st <> 0 -> for_loop ec (S n) cnd inc body line counter st = Ok st.
  Proof. intros H. cbn [for_loop]. rewrite (loop_halted_value st H). reflexivity. Qed.

  Lemma sig_code_nz sg : sg <> Normal -> sig_code sg <> 0.
  Proof. destruct sg; cbn; intros H; try discriminate; contradiction. Qed.

  Lemma while_sim m cnd body line :
    toks_ok body = true -> forall left n counter c,
    wf c -> counter + Z.of_nat left = MAX_LOOP -> (left < n)%nat ->
    while_sem ML (funs_of ft) blk left (oexpr_of cnd) (prog_of body) line c <> Stuck ->
    while_loop ec n cnd body line counter (emb ft m c)
      = out_state ft m (while_sem ML (funs_of ft) blk left (oexpr_of cnd) (prog_of body) line c)
    /\ wf_out (while_sem ML (funs_of ft) blk left (oexpr_of cnd) (prog_of body) line c).
  Proof.
    intros Hok. induction left as [|left IH]; intros n counter c Hwf Hc Hn Hns;
      (destruct n as [|n]; [lia|]); cbn [while_loop while_sem] in *; cbn [ML l_vzero l_truth] in *.
    - (* the last pass allowed *)
      destruct (value_sim m cnd c Hwf) as [E1 W1]. { intros E. apply Hns. rewrite E. reflexivity. }
      rewrite E1. destruct (EVO (Expr.SInt 0) (oexpr_of cnd) c) as [[v c1]|[s| |w]| |] eqn:R1; try solve [fail_case].
      cbn [val_out rmap result_to_res Base.bind rbind fst snd] in *. specialize (W1 v c1 eq_refl).
      destruct (Expr.to_b v); cbn [negb] in *.
      2: { unfold out_state. cbn [rmap result_to_res]. rewrite emb_sig_normal by exact W1. split; [reflexivity | apply wf_out_fin; exact W1]. }
      destruct (HB body m c1 W1 Hok) as [E2 W2]. { intros E. apply Hns. rewrite E. reflexivity. }
      rewrite E2. destruct (blk (prog_of body) c1) as [[sg c2]|[s| |w]| |] eqn:R2; try solve [fail_case].
      cbn [out_state rmap result_to_res Base.bind rbind fst snd] in *. specialize (W2 sg c2 eq_refl).
      assert (Hgt : counter + 1 >? MAX_LOOP = true) by (rewrite Z.gtb_ltb; apply Z.ltb_lt; lia).
      rewrite Hgt. rewrite limit_exit_emb. unfold cut_off. cbn [ML l_limit_note].
      split; [reflexivity|]. apply wf_out_fin. unfold wf, m_limit. cbn [world set_world]. rewrite add_log_flag. exact W2.
    - destruct (value_sim m cnd c Hwf) as [E1 W1]. { intros E. apply Hns. rewrite E. reflexivity. }
      rewrite E1. destruct (EVO (Expr.SInt 0) (oexpr_of cnd) c) as [[v c1]|[s| |w]| |] eqn:R1; try solve [fail_case].
      cbn [val_out rmap result_to_res Base.bind rbind fst snd] in *. specialize (W1 v c1 eq_refl).
      destruct (Expr.to_b v); cbn [negb] in *.
      2: { unfold out_state. cbn [rmap result_to_res]. rewrite emb_sig_normal by exact W1. split; [reflexivity | apply wf_out_fin; exact W1]. }
      destruct (HB body m c1 W1 Hok) as [E2 W2]. { intros E. apply Hns. rewrite E. reflexivity. }
      rewrite E2. destruct (blk (prog_of body) c1) as [[sg c2]|[s| |w]| |] eqn:R2; try solve [fail_case].
      cbn [out_state rmap result_to_res Base.bind rbind fst snd] in *. specialize (W2 sg c2 eq_refl).
      assert (Hgt : counter + 1 >? MAX_LOOP = false) by (rewrite Z.gtb_ltb; apply Z.ltb_ge; lia).
      rewrite Hgt. rewrite st_flag_emb_sig.
      destruct sg; cbn [sig_code Z.eqb Pos.eqb] in *.
      + rewrite emb_sig_normal by exact W2. apply IH; [exact W2 | lia | lia | exact Hns].
      + rewrite clear_emb_sig by exact W2. unfold out_state. cbn [rmap result_to_res]. rewrite emb_sig_normal by exact W2.
        split; [reflexivity | apply wf_out_fin; exact W2].
      + rewrite clear_emb_sig by exact W2. apply IH; [exact W2 | lia | lia | exact Hns].
      + split; [reflexivity | apply wf_out_fin; exact W2].
  Qed.

  Lemma for_sim m cnd inc body line :
    toks_ok inc = true -> toks_ok body = true -> forall left n counter c,
    wf c -> counter + Z.of_nat left = MAX_LOOP -> (left < n)%nat ->
    for_sem ML (funs_of ft) blk left (oexpr_of cnd) (prog_of inc) (prog_of body) line c <> Stuck ->
    for_loop ec n cnd inc body line counter (emb ft m c)
      = out_state ft m (for_sem ML (funs_of ft) blk left (oexpr_of cnd) (prog_of inc) (prog_of body) line c)
    /\ wf_out (for_sem ML (funs_of ft) blk left (oexpr_of cnd) (prog_of inc) (prog_of body) line c).
  Proof.
    intros Hoki Hok. induction left as [|left IH]; intros n counter c Hwf Hc Hn Hns;
      (destruct n as [|n]; [lia|]); cbn [for_loop for_sem] in *; cbn [ML l_vzero l_truth] in *.
    - destruct (value_sim m cnd c Hwf) as [E1 W1]. { intros E. apply Hns. rewrite E. reflexivity. }
      rewrite E1. destruct (EVO (Expr.SInt 0) (oexpr_of cnd) c) as [[v c1]|[s| |w]| |] eqn:R1; try solve [fail_case].
      cbn [val_out rmap result_to_res Base.bind rbind fst snd] in *. specialize (W1 v c1 eq_refl).
      destruct (Expr.to_b v); cbn [negb] in *.
      2: { unfold out_state. cbn [rmap result_to_res]. rewrite emb_sig_normal by exact W1. split; [reflexivity | apply wf_out_fin; exact W1]. }
      destruct (HB body m c1 W1 Hok) as [E2 W2]. { intros E. apply Hns. rewrite E. reflexivity. }
      rewrite E2. destruct (blk (prog_of body) c1) as [[sg c2]|[s| |w]| |] eqn:R2; try solve [fail_case].
      cbn [out_state rmap result_to_res Base.bind rbind fst snd] in *. specialize (W2 sg c2 eq_refl).
      assert (Hgt : counter + 1 >? MAX_LOOP = true) by (rewrite Z.gtb_ltb; apply Z.ltb_lt; lia).
      rewrite Hgt. rewrite limit_exit_emb. unfold cut_off. cbn [ML l_limit_note].
      split; [reflexivity|]. apply wf_out_fin. unfold wf, m_limit. cbn [world set_world]. rewrite add_log_flag. exact W2.
    - destruct (value_sim m cnd c Hwf) as [E1 W1]. { intros E. apply Hns. rewrite E. reflexivity. }
      rewrite E1. destruct (EVO (Expr.SInt 0) (oexpr_of cnd) c) as [[v c1]|[s| |w]| |] eqn:R1; try solve [fail_case].
      cbn [val_out rmap result_to_res Base.bind rbind fst snd] in *. specialize (W1 v c1 eq_refl).
      destruct (Expr.to_b v); cbn [negb] in *.
      2: { unfold out_state. cbn [rmap result_to_res]. rewrite emb_sig_normal by exact W1. split; [reflexivity | apply wf_out_fin; exact W1]. }
      destruct (HB body m c1 W1 Hok) as [E2 W2]. { intros E. apply Hns. rewrite E. reflexivity. }
      rewrite E2. destruct (blk (prog_of body) c1) as [[sg c2]|[s| |w]| |] eqn:R2; try solve [fail_case].
      cbn [out_state rmap result_to_res Base.bind rbind fst snd] in *. specialize (W2 sg c2 eq_refl).
      assert (Hgt : counter + 1 >? MAX_LOOP = false) by (rewrite Z.gtb_ltb; apply Z.ltb_ge; lia).
      rewrite Hgt. rewrite st_flag_emb_sig.
      destruct n as [|n']; [lia|].
      (* the increment, then the next pass *)
      assert (Hinc : rbind (blk (prog_of inc) c2)
                       (fun r2 => match fst r2 with
                                  | Brk => Fin (Normal, snd r2)
                                  | Ret => Fin (Ret, snd r2)
                                  | Normal | Cont => for_sem ML (funs_of ft) blk left (oexpr_of cnd) (prog_of inc) (prog_of body) line (snd r2)
                                  end) <> Stuck ->
              (do st3 <- ec inc (Ok (emb ft m c2));
               if st_flag st3 =? 1 then Ok (st_set_flag st3 0)
               else if st_flag st3 =? 2 then for_loop ec (S n') cnd inc body line (counter + 1) (st_set_flag st3 0)
               else for_loop ec (S n') cnd inc body line (counter + 1) st3)
              = out_state ft m (rbind (blk (prog_of inc) c2)
                       (fun r2 => match fst r2 with
                                  | Brk => Fin (Normal, snd r2)
                                  | Ret => Fin (Ret, snd r2)
                                  | Normal | Cont => for_sem ML (funs_of ft) blk left (oexpr_of cnd) (prog_of inc) (prog_of body) line (snd r2)
                                  end))
              /\ wf_out (rbind (blk (prog_of inc) c2)
                       (fun r2 => match fst r2 with
                                  | Brk => Fin (Normal, snd r2)
                                  | Ret => Fin (Ret, snd r2)
                                  | Normal | Cont => for_sem ML (funs_of ft) blk left (oexpr_of cnd) (prog_of inc) (prog_of body) line (snd r2)
                                  end))).
      { intros Hns2. destruct (HB inc m c2 W2 Hoki) as [E3 W3]. { intros E. apply Hns2. rewrite E. reflexivity. }
        rewrite E3. destruct (blk (prog_of inc) c2) as [[sg2 c3]|[s| |w]| |] eqn:R3; try solve [fail_case].
        cbn [out_state rmap result_to_res Base.bind rbind fst snd] in *. specialize (W3 sg2 c3 eq_refl).
        rewrite st_flag_emb_sig.
        destruct sg2; cbn [sig_code Z.eqb Pos.eqb] in *.
        - rewrite emb_sig_normal by exact W3. apply IH; [exact W3 | lia | lia | exact Hns2].
        - rewrite clear_emb_sig by exact W3. unfold out_state. cbn [rmap result_to_res]. rewrite emb_sig_normal by exact W3.
          split; [reflexivity | apply wf_out_fin; exact W3].
        - rewrite clear_emb_sig by exact W3. apply IH; [exact W3 | lia | lia | exact Hns2].
        - rewrite for_loop_halted by (rewrite st_flag_emb_sig; discriminate). split; [reflexivity | apply wf_out_fin; exact W3]. }
      destruct sg; cbn [sig_code Z.eqb Pos.eqb] in *.
      + rewrite emb_sig_normal by exact W2. apply Hinc. exact Hns.
      + rewrite clear_emb_sig by exact W2. unfold out_state. cbn [rmap result_to_res]. rewrite emb_sig_normal by exact W2.
        split; [reflexivity | apply wf_out_fin; exact W2].
      + rewrite clear_emb_sig by exact W2. apply Hinc. exact Hns.
      + rewrite (Hhalt _ _ _ R2) by (rewrite st_flag_emb_sig; discriminate). cbn [Base.bind].
        rewrite st_flag_emb_sig. cbn [sig_code Z.eqb Pos.eqb].
        rewrite for_loop_halted by (rewrite st_flag_emb_sig; discriminate).
        split; [reflexivity | apply wf_out_fin; exact W2].
  Qed.

  Lemma dummy_keeps : BlockP.keeps_break_flag (fun _ _ => Unsupported U_SCHILD).
  Proof. intros X s0 s2 E. discriminate E. Qed.

  Lemma loop_fuel_succ : exists k, LOOP_FUEL = S k /\ (m_N < S k)%nat.
  Proof. exists (Nat.pred LOOP_FUEL). unfold LOOP_FUEL, m_N, MAX_LOOP. split; lia. Qed.
  Lemma m_N_eq : 0 + Z.of_nat m_N = MAX_LOOP.
  Proof. unfold m_N, MAX_LOOP. lia. Qed.

  Lemma wf_runtime_error c msg : wf c -> wf (set_world c (runtime_error (world c) msg)).
  Proof. intros H. unfold wf, runtime_error. cbn [world set_world]. rewrite add_log_flag. exact H. Qed.

  (* one statement *)
  Lemma stmt_sim m t c :
    wf c -> tok_ok t = true ->
    exec_stmt ML (funs_of ft) blk (stmt_of t) c <> Stuck ->
    sstep ec t (emb ft m c) = out_state ft m (exec_stmt ML (funs_of ft) blk (stmt_of t) c)
    /\ wf_out (exec_stmt ML (funs_of ft) blk (stmt_of t) c).
  Proof.
    intros Hwf Hok Hns. destruct t as [ct|args line|k x init|x e|x d|cnd th el line|init cnd inc body line|cnd body line| | |e|id args];
      cbn [stmt_of exec_stmt sstep] in *; cbn [ML l_vzero l_truth l_atom_sem l_print_out l_decl_note l_limit l_result_name l_view_of l_vincr] in *;
      repeat match goal with
             | |- context [map stmt_of ?l] => change (map stmt_of l) with (prog_of l) in *
             | H : context [map stmt_of ?l] |- _ => change (map stmt_of l) with (prog_of l) in *
             end.
    - (* leaf *)
      change (ss_song (emb ft m c)) with (world c). unfold m_atom in *.
      destruct (step_song (fun _ _ => Unsupported U_SCHILD) ct (world c)) as [w|s| |w] eqn:Es;
        cbn [res_to_result rbind Base.bind] in *; try solve [fail_case].
      assert (Hw : wf (set_world c w)).
      { unfold wf. cbn [world set_world]. rewrite (BlockP.step_song_break_flag _ dummy_keeps ct (world c) w Es). exact Hwf. }
      unfold out_state. cbn [rmap result_to_res]. rewrite emb_sig_normal by exact Hw. rewrite song_emb.
      split; [reflexivity | apply wf_out_fin; exact Hw].
    - (* PRINT *)
      destruct (args_sim m args c Hwf) as [E1 W1]. { intros E. apply Hns. rewrite E. reflexivity. }
      rewrite E1. destruct (EVA (map oexpr_of args) c) as [[vs c1]|[s| |w]| |] eqn:R1; try solve [fail_case].
      cbn [evs_out rmap result_to_res Base.bind rbind fst snd] in *. specialize (W1 vs c1 eq_refl).
      assert (Hw : wf (set_world c1 (m_print line vs (world c1)))).
      { unfold wf, m_print. cbn [world set_world]. rewrite add_log_flag. exact W1. }
      unfold out_state. cbn [rmap result_to_res]. rewrite emb_sig_normal by exact Hw. rewrite log_emb.
      split; [reflexivity | apply wf_out_fin; exact Hw].
    - (* INT / STR *)
      destruct (value_sim m init c Hwf) as [E1 W1]. { intros E. apply Hns. rewrite E. reflexivity. }
      rewrite E1. destruct (EVO (Expr.SInt 0) (oexpr_of init) c) as [[v c1]|[s| |w]| |] eqn:R1; try solve [fail_case].
      cbn [val_out rmap result_to_res Base.bind rbind fst snd] in *. specialize (W1 v c1 eq_refl).
      assert (Hw : wf (bind_val ML x v (set_world c1 (m_decl k x v (world c1))))).
      { unfold m_decl. destruct (k && is_arr v); [apply (wf_runtime_error c1 _ W1) | destruct c1; exact W1]. }
      unfold out_state. cbn [rmap result_to_res]. rewrite emb_sig_normal by exact Hw.
      split; [|apply wf_out_fin; exact Hw].
      unfold m_decl. destruct (k && is_arr v); [|destruct c1; reflexivity]. reflexivity.
    - (* X = e *)
      destruct (value_sim m e c Hwf) as [E1 W1]. { intros E. apply Hns. rewrite E. reflexivity. }
      rewrite E1. destruct (EVO (Expr.SInt 0) (oexpr_of e) c) as [[v c1]|[s| |w]| |] eqn:R1; try solve [fail_case].
      cbn [val_out rmap result_to_res Base.bind rbind fst snd] in *. specialize (W1 v c1 eq_refl).
      assert (Hw : wf (bind_val ML x v c1)) by exact W1.
      unfold out_state. cbn [rmap result_to_res]. rewrite emb_sig_normal by exact Hw. rewrite insert_emb.
      split; [reflexivity | apply wf_out_fin; exact Hw].
    - (* X++ *)
      unfold value_inc. change (ss_scopes (emb ft m c)) with (env c).
      change (lookup ML x (env c)) with (vars_lookup x (env c)) in *.
      destruct (vars_lookup x (env c)) as [[v|id|]|] eqn:El; cbn [view_vv] in *; try (stuck_contra Hns).
      + assert (Hw : wf (bind_val ML x (m_incr v d) c)) by exact Hwf.
        unfold out_state. cbn [rmap result_to_res]. rewrite emb_sig_normal by exact Hw.
        split; [reflexivity | apply wf_out_fin; exact Hw].
      + assert (Hw : wf (bind_val ML x (m_incr (Expr.SInt 0) d) c)) by exact Hwf.
        unfold out_state. cbn [rmap result_to_res]. rewrite emb_sig_normal by exact Hw.
        split; [reflexivity | apply wf_out_fin; exact Hw].
    - (* IF *)
      cbn [tok_ok bracket_free_tok andb] in Hok. apply andb_prop in Hok. destruct Hok as [Hth Hel].
      destruct (value_sim m cnd c Hwf) as [E1 W1]. { intros E. apply Hns. rewrite E. reflexivity. }
      rewrite E1. destruct (EVO (Expr.SInt 0) (oexpr_of cnd) c) as [[v c1]|[s| |w]| |] eqn:R1; try solve [fail_case].
      cbn [val_out rmap result_to_res Base.bind rbind fst snd] in *. specialize (W1 v c1 eq_refl).
      destruct (Expr.to_b v); [exact (HB th m c1 W1 Hth Hns) | exact (HB el m c1 W1 Hel Hns)].
    - (* FOR *)
      cbn [tok_ok bracket_free_tok andb] in Hok. apply andb_prop in Hok. destruct Hok as [Hok Hbody].
      apply andb_prop in Hok. destruct Hok as [Hinit Hinc].
      destruct (HB init m c Hwf Hinit) as [E1 W1]. { intros E. apply Hns. rewrite E. reflexivity. }
      rewrite E1. destruct (blk (prog_of init) c) as [[sg c1]|[s| |w]| |] eqn:R1; try solve [fail_case].
      cbn [out_state rmap result_to_res Base.bind rbind fst snd] in *. specialize (W1 sg c1 eq_refl).
      destruct loop_fuel_succ as [kf [Ekf Hkf]]. rewrite Ekf.
      destruct sg.
      + rewrite emb_sig_normal by exact W1. apply for_sim; [exact Hinc | exact Hbody | exact W1 | exact m_N_eq | exact Hkf | exact Hns].
      + rewrite for_loop_halted by (rewrite st_flag_emb_sig; discriminate). split; [reflexivity | apply wf_out_fin; exact W1].
      + rewrite for_loop_halted by (rewrite st_flag_emb_sig; discriminate). split; [reflexivity | apply wf_out_fin; exact W1].
      + rewrite for_loop_halted by (rewrite st_flag_emb_sig; discriminate). split; [reflexivity | apply wf_out_fin; exact W1].
    - (* WHILE *)
      cbn [tok_ok bracket_free_tok andb] in Hok.
      destruct loop_fuel_succ as [kf [Ekf Hkf]]. rewrite Ekf.
      apply while_sim; [exact Hok | exact Hwf | exact m_N_eq | exact Hkf | exact Hns].
    - (* BREAK *) split; [reflexivity | apply wf_out_fin; exact Hwf].
    - (* CONTINUE *) split; [reflexivity | apply wf_out_fin; exact Hwf].
    - (* RETURN *)
      destruct e as [t|].
      + destruct (value_sim m (Some t) c Hwf) as [E1 W1]. { intros E. apply Hns. rewrite E. reflexivity. }
        rewrite E1. destruct (EVO (Expr.SInt 0) (oexpr_of (Some t)) c) as [[v c1]|[s| |w]| |] eqn:R1; try solve [fail_case].
        cbn [val_out rmap result_to_res Base.bind rbind fst snd oexpr_of option_map] in *. specialize (W1 v c1 eq_refl).
        cbn [rbind fst snd]. rewrite insert_emb.
        split; [reflexivity | apply wf_out_fin; exact W1].
      + cbn [oexpr_of option_map]. split; [reflexivity | apply wf_out_fin; exact Hwf].
    - (* a call statement *)
      change (ss_funcs (emb ft m c)) with ft.
      change (funs_of ft id) with (option_map fundef_of (nth_error ft id)) in *.
      destruct (nth_error ft id) as [fd|] eqn:En; cbn [option_map] in *; [|stuck_contra Hns].
      rewrite push_emb.
      destruct (args_sim m args (push_frame c) Hwf) as [E1 W1]. { intros E. apply Hns. rewrite E. reflexivity. }
      rewrite E1. destruct (EVA (map oexpr_of args) (push_frame c)) as [[vs c1]|[s| |w]| |] eqn:R1; try solve [fail_case].
      cbn [evs_out rmap result_to_res Base.bind rbind fst snd] in *. specialize (W1 vs c1 eq_refl).
      destruct (call_sim m fd vs c1 W1 (ft_body_ok id fd En)) as [E2 W2]. { intros E. apply Hns. rewrite E. reflexivity. }
      rewrite E2. destruct (call_body ML blk (fundef_of fd) vs c1) as [[v c2]|[s| |w]| |] eqn:R2; try solve [fail_case].
      unfold call_out, out_state. cbn [rmap result_to_res Base.bind rbind fst snd]. specialize (W2 v c2 eq_refl).
      rewrite emb_sig_normal by exact W2. split; [reflexivity | apply wf_out_fin; exact W2].
  Qed.

  (* a block *)
  Lemma seq_sim m : forall toks c,
    wf c -> forallb tok_ok toks = true ->
    exec_seq ML (funs_of ft) blk (prog_of toks) c <> Stuck ->
    fold_halt (step_stok ec) toks (Ok (emb ft m c)) = out_state ft m (exec_seq ML (funs_of ft) blk (prog_of toks) c)
    /\ wf_out (exec_seq ML (funs_of ft) blk (prog_of toks) c).
  Proof.
    induction toks as [|t r IH]; intros c Hwf Hok Hns.
    - cbn [prog_of map exec_seq]. rewrite fold_halt_nil. unfold out_state. cbn [rmap result_to_res].
      rewrite emb_sig_normal by exact Hwf. split; [reflexivity | apply wf_out_fin; exact Hwf].
    - cbn [forallb] in Hok. apply andb_prop in Hok. destruct Hok as [Ht Hr].
      change (prog_of (t :: r)) with (stmt_of t :: prog_of r) in *. cbn [exec_seq] in *.
      rewrite fold_halt_cons.
      2: { cbn [halted_s]. rewrite st_flag_emb. unfold wf in Hwf. rewrite Hwf. reflexivity. }
      cbn [step_stok Base.bind].
      destruct (stmt_sim m t c Hwf Ht) as [E1 W1]. { intros E. apply Hns. rewrite E. reflexivity. }
      rewrite E1. destruct (exec_stmt ML (funs_of ft) blk (stmt_of t) c) as [[sg c1]|[s| |w]| |] eqn:R1;
        try solve [rewrite fold_halt_halted by reflexivity; fail_case].
      cbn [out_state rmap result_to_res rbind fst snd] in *. specialize (W1 sg c1 eq_refl).
      destruct sg.
      + rewrite emb_sig_normal by exact W1. apply IH; [exact W1 | exact Hr | exact Hns].
      + rewrite fold_halt_halted by (cbn [halted_s]; rewrite st_flag_emb_sig; reflexivity). split; [reflexivity | apply wf_out_fin; exact W1].
      + rewrite fold_halt_halted by (cbn [halted_s]; rewrite st_flag_emb_sig; reflexivity). split; [reflexivity | apply wf_out_fin; exact W1].
      + rewrite fold_halt_halted by (cbn [halted_s]; rewrite st_flag_emb_sig; reflexivity). split; [reflexivity | apply wf_out_fin; exact W1].
  Qed.
End Level.

(* ------------------------------------------------------------------------------------------------ *)
(* 4. the main theorem                                                                                *)

Lemma tok_ok_bracket_free t : tok_ok t = true -> bracket_free_tok t = true.
Proof. destruct t; cbn [tok_ok]; intros H; apply andb_prop in H; apply H. Qed.
Lemma toks_ok_parts l : toks_ok l = true -> forallb tok_ok l = true /\ forallb bracket_free_tok l = true /\ (length l < STEPS)%nat.
Proof.
  unfold toks_ok, blk_ok. intros H. apply andb_prop in H. destruct H as [H1 H2]. split; [exact H1|]. split.
  - apply forallb_forall. intros t Ht. rewrite forallb_forall in H1. apply tok_ok_bracket_free, H1, Ht.
  - apply Nat.ltb_lt. exact H2.
Qed.

Notation SEM ft := (sem ML (funs_of ft)).

(* exec() of the model on the tokens of a structured script IS the meaning of the script: for every function table whose
   bodies are blocks, every nesting budget n, every block (any nesting of IF / FOR / WHILE, calls, RETURN ...), every
   configuration - unless the semantics gives the program no meaning (Stuck). *)
Theorem exec_vs_sem ft : ft_ok ft = true ->
  forall n toks m c, wf c -> toks_ok toks = true -> SEM ft n (prog_of toks) c <> Stuck ->
  exec_s n toks (Ok (emb ft m c)) = out_state ft m (SEM ft n (prog_of toks) c) /\ wf_out (SEM ft n (prog_of toks) c).
Proof.
  intros Hft. induction n as [|n IH]; intros toks m c Hwf Hok Hns.
  - split; [reflexivity | apply wf_out_other; intros x E; discriminate E].
  - destruct (toks_ok_parts toks Hok) as [H1 [H2 H3]].
    rewrite (exec_s_fold n toks _ H2 H3). cbn [sem] in *.
    apply (seq_sim ft Hft (SEM ft n) (exec_s n)); [| | exact Hwf | exact H1 | exact Hns].
    + intros b m' c' Hw Hb Hn. apply IH; assumption.
    + intros b c' r E b' st Hst. destruct n as [|n']; [discriminate E|]. apply exec_s_halted. exact Hst.
Qed.

(* ------------------------------------------------------------------------------------------------ *)
(* 5. facts about the meaning itself (generic in the language)                                        *)

Section SemFacts.
  Variables Name Atom Op Val World Bnd FId Err : Type.
  Variable L : lang Name Atom Op Val World Bnd FId Err.
  Variable funs : FId -> option (fundef Name Atom Op Val FId).

  Notation gcfg := (cfg Name World Bnd).
  Notation gstmt := (stmt Name Atom Op FId).
  Notation gexpr := (expr Name Op).
  Notation gres := (result Err).

  (* ---- blk2 extends blk1: it agrees with blk1 wherever blk1 does not run out of fuel ---- *)
  Definition extends {A B} (f g : A -> gcfg -> gres B) : Prop := forall a c, f a c <> NoFuel -> g a c = f a c.

  Lemma rbind_ext {A B} (r1 r2 : gres A) (k1 k2 : A -> gres B) :
    (r1 <> NoFuel -> r2 = r1) -> (forall a, r1 = Fin a -> k1 a <> NoFuel -> k2 a = k1 a) ->
    rbind r1 k1 <> NoFuel -> rbind r2 k2 = rbind r1 k1.
  Proof.
    intros H1 H2 Hn. destruct r1 as [a|e| |]; cbn [rbind] in *.
    - rewrite H1 by discriminate. cbn [rbind]. apply H2; [reflexivity | exact Hn].
    - rewrite H1 by discriminate. reflexivity.
    - rewrite H1 by discriminate. reflexivity.
    - contradiction.
  Qed.

  Section Mono.
    Variables blk1 blk2 : list gstmt -> gcfg -> gres (signal * gcfg).
    Hypothesis Hext : extends blk1 blk2.

    Lemma call_body_ext fd vs c :
      call_body L blk1 fd vs c <> NoFuel -> call_body L blk2 fd vs c = call_body L blk1 fd vs c.
    Proof.
      unfold call_body. intros H. apply rbind_ext; [apply Hext | reflexivity | exact H].
    Qed.

    Lemma evals_ext (f g : gexpr -> gcfg -> gres (Val * gcfg)) l :
      Forall (fun x => forall c, f x c <> NoFuel -> g x c = f x c) l ->
      forall c, evals_with f l c <> NoFuel -> evals_with g l c = evals_with f l c.
    Proof.
      induction 1 as [|x r Hx Hr IH]; intros c Hn; [reflexivity|].
      change (evals_with g (x :: r) c) with (rbind (g x c) (fun p => rbind (evals_with g r (snd p)) (fun q => Fin (fst p :: fst q, snd q)))).
      change (evals_with f (x :: r) c) with (rbind (f x c) (fun p => rbind (evals_with f r (snd p)) (fun q => Fin (fst p :: fst q, snd q)))) in *.
      apply rbind_ext; [apply Hx | | exact Hn].
      intros p _ Hn2. apply rbind_ext; [apply IH | reflexivity | exact Hn2].
    Qed.

    Section ExprInd.
      Variable P : gexpr -> Prop.
      Hypothesis HOp : forall o args, Forall P args -> P (EOp o args).
      Hypothesis HVar : forall x, P (EVar x).
      Hypothesis HCall : forall f args, Forall P args -> P (ECall f args).
      Fixpoint gexpr_ind' (e : gexpr) : P e :=
        match e with
        | EOp o args => HOp o args ((fix go (l : list gexpr) : Forall P l :=
                          match l with [] => Forall_nil P | x :: r => Forall_cons x (gexpr_ind' x) (go r) end) args)
        | EVar x => HVar x
        | ECall f args => HCall f args ((fix go (l : list gexpr) : Forall P l :=
                          match l with [] => Forall_nil P | x :: r => Forall_cons x (gexpr_ind' x) (go r) end) args)
        end.
    End ExprInd.

    Lemma eval_ext : forall e c, eval L funs blk1 e c <> NoFuel -> eval L funs blk2 e c = eval L funs blk1 e c.
    Proof.
      apply (gexpr_ind' (fun e => forall c, eval L funs blk1 e c <> NoFuel -> eval L funs blk2 e c = eval L funs blk1 e c)).
      - intros o args Hargs c Hn. cbn [eval] in *. apply rbind_ext; [apply evals_ext; exact Hargs | reflexivity | exact Hn].
      - intros x c _. reflexivity.
      - intros f args Hargs c Hn. cbn [eval] in *.
        destruct (lookup L f (env c)) as [b|]; [|reflexivity]. destruct (l_view_of L b); try reflexivity.
        destruct (funs f0) as [fd|]; [|reflexivity].
        apply rbind_ext; [apply evals_ext; exact Hargs | | exact Hn].
        intros p _ Hn2. apply call_body_ext. exact Hn2.
    Qed.

    Lemma eval_opt_ext d e c :
      eval_opt L funs blk1 d e c <> NoFuel -> eval_opt L funs blk2 d e c = eval_opt L funs blk1 d e c.
    Proof. destruct e; cbn [eval_opt]; [apply eval_ext | reflexivity]. Qed.

    Lemma eval_args_ext l : forall c,
      eval_args L funs blk1 l c <> NoFuel -> eval_args L funs blk2 l c = eval_args L funs blk1 l c.
    Proof.
      induction l as [|a r IH]; intros c Hn; [reflexivity|]. cbn [eval_args] in *.
      apply rbind_ext; [apply eval_opt_ext | | exact Hn].
      intros p _ Hn2. apply rbind_ext; [apply IH | reflexivity | exact Hn2].
    Qed.

    Lemma while_ext left cnd body line : forall c,
      while_sem L funs blk1 left cnd body line c <> NoFuel ->
      while_sem L funs blk2 left cnd body line c = while_sem L funs blk1 left cnd body line c.
    Proof.
      induction left as [|left IH]; intros c Hn; cbn [while_sem] in *.
      - apply rbind_ext; [apply eval_opt_ext | | exact Hn]. intros p _ Hn2.
        destruct (negb (l_truth L (fst p))); [reflexivity|].
        apply rbind_ext; [apply Hext | reflexivity | exact Hn2].
      - apply rbind_ext; [apply eval_opt_ext | | exact Hn]. intros p _ Hn2.
        destruct (negb (l_truth L (fst p))); [reflexivity|].
        apply rbind_ext; [apply Hext | | exact Hn2]. intros r _ Hn3.
        destruct (fst r); try reflexivity; apply IH; exact Hn3.
    Qed.

    Lemma for_ext left cnd inc body line : forall c,
      for_sem L funs blk1 left cnd inc body line c <> NoFuel ->
      for_sem L funs blk2 left cnd inc body line c = for_sem L funs blk1 left cnd inc body line c.
    Proof.
      induction left as [|left IH]; intros c Hn; cbn [for_sem] in *.
      - apply rbind_ext; [apply eval_opt_ext | | exact Hn]. intros p _ Hn2.
        destruct (negb (l_truth L (fst p))); [reflexivity|].
        apply rbind_ext; [apply Hext | reflexivity | exact Hn2].
      - apply rbind_ext; [apply eval_opt_ext | | exact Hn]. intros p _ Hn2.
        destruct (negb (l_truth L (fst p))); [reflexivity|].
        apply rbind_ext; [apply Hext | | exact Hn2]. intros r _ Hn3.
        destruct (fst r); try reflexivity;
          (apply rbind_ext; [apply Hext | | exact Hn3]; intros r2 _ Hn4; destruct (fst r2); try reflexivity; apply IH; exact Hn4).
    Qed.

    Lemma exec_stmt_ext s c :
      exec_stmt L funs blk1 s c <> NoFuel -> exec_stmt L funs blk2 s c = exec_stmt L funs blk1 s c.
    Proof.
      destruct s; cbn [exec_stmt]; intros Hn; try reflexivity.
      - apply rbind_ext; [apply eval_args_ext | reflexivity | exact Hn].
      - apply rbind_ext; [apply eval_opt_ext | reflexivity | exact Hn].
      - apply rbind_ext; [apply eval_opt_ext | reflexivity | exact Hn].
      - apply rbind_ext; [apply eval_opt_ext | | exact Hn]. intros p _ Hn2. apply Hext. exact Hn2.
      - apply while_ext. exact Hn.
      - apply rbind_ext; [apply Hext | | exact Hn]. intros r _ Hn2. destruct (fst r); try reflexivity. apply for_ext. exact Hn2.
      - destruct e; [|reflexivity]. apply rbind_ext; [apply eval_opt_ext | reflexivity | exact Hn].
      - destruct (funs f) as [fd|]; [|reflexivity].
        apply rbind_ext; [apply eval_args_ext | | exact Hn]. intros p _ Hn2.
        apply rbind_ext; [apply call_body_ext | reflexivity | exact Hn2].
    Qed.

    Lemma exec_seq_ext b : forall c,
      exec_seq L funs blk1 b c <> NoFuel -> exec_seq L funs blk2 b c = exec_seq L funs blk1 b c.
    Proof.
      induction b as [|s r IH]; intros c Hn; [reflexivity|]. cbn [exec_seq] in *.
      apply rbind_ext; [apply exec_stmt_ext | | exact Hn]. intros p _ Hn2.
      destruct (fst p); try reflexivity. apply IH. exact Hn2.
    Qed.
  End Mono.

  (* more fuel, same meaning *)
  Theorem sem_mono : forall n b c, sem L funs n b c <> NoFuel -> sem L funs (S n) b c = sem L funs n b c.
  Proof.
    induction n as [|n IH]; intros b c Hn; [exfalso; apply Hn; reflexivity|].
    change (sem L funs (S (S n)) b c) with (exec_seq L funs (sem L funs (S n)) b c).
    change (sem L funs (S n) b c) with (exec_seq L funs (sem L funs n) b c) in *.
    apply exec_seq_ext; [|exact Hn]. intros b' c' Hn'. apply IH. exact Hn'.
  Qed.
  Theorem sem_mono_le n n' b c : (n <= n')%nat -> sem L funs n b c <> NoFuel -> sem L funs n' b c = sem L funs n b c.
  Proof.
    induction 1 as [|k Hle IH]; intros Hn; [reflexivity|].
    rewrite <- (IH Hn). apply sem_mono. rewrite (IH Hn). exact Hn.
  Qed.
End SemFacts.

Section SemFacts2.
  Variables Name Atom Op Val World Bnd FId Err : Type.
  Variable L : lang Name Atom Op Val World Bnd FId Err.
  Variable funs : FId -> option (fundef Name Atom Op Val FId).
  Variable blk : list (stmt Name Atom Op FId) -> cfg Name World Bnd -> result Err (signal * cfg Name World Bnd).

  Notation gcfg := (cfg Name World Bnd).
  Notation gstmt := (stmt Name Atom Op FId).
  Notation gres := (result Err).
  Notation EVO := (eval_opt L funs blk).
  Notation XS := (exec_stmt L funs blk).
  Notation XQ := (exec_seq L funs blk).

  (* ---- IF runs exactly one branch ---- *)
  Lemma if_one_branch cnd th el c v c1 :
    EVO (l_vzero L) cnd c = Fin (v, c1) ->
    XS (If cnd th el) c = blk (if l_truth L v then th else el) c1.
  Proof. intros E. cbn [exec_stmt]. rewrite E. reflexivity. Qed.

  (* ---- sequences ---- *)
  Lemma exec_seq_app a b c :
    XQ (a ++ b) c = rbind (XQ a c) (fun p => match fst p with Normal => XQ b (snd p) | sg => Fin (sg, snd p) end).
  Proof.
    revert c. induction a as [|s r IH]; intros c.
    - cbn [app exec_seq rbind fst snd]. reflexivity.
    - cbn [app exec_seq]. destruct (XS s c) as [[sg c1]|e| |]; cbn [rbind fst snd]; try reflexivity.
      destruct sg; try reflexivity. apply IH.
  Qed.
  Lemma exec_seq_signal s r c sg c1 : XS s c = Fin (sg, c1) -> sg <> Normal -> XQ (s :: r) c = Fin (sg, c1).
  Proof. intros E H. cbn [exec_seq]. rewrite E. cbn [rbind fst snd]. destruct sg; try reflexivity. contradiction. Qed.

  (* ---- k passes of a loop: the test holds, the body ends Normal or with CONTINUE ---- *)
  Inductive passes (cnd : option (expr Name Op)) (body : list gstmt) : nat -> gcfg -> gcfg -> Prop :=
  | passes_O : forall c, passes cnd body 0 c c
  | passes_S : forall k c v c1 sg c2 c3,
      EVO (l_vzero L) cnd c = Fin (v, c1) -> l_truth L v = true ->
      blk body c1 = Fin (sg, c2) -> (sg = Normal \/ sg = Cont) ->
      passes cnd body k c2 c3 -> passes cnd body (S k) c c3.

  (* a loop whose test holds exactly k times (k within the limit) = k passes, then the failing test *)
  Theorem while_unroll cnd body line : forall k left c ck v c',
    passes cnd body k c ck -> (k <= left)%nat ->
    EVO (l_vzero L) cnd ck = Fin (v, c') -> l_truth L v = false ->
    while_sem L funs blk left cnd body line c = Fin (Normal, c').
  Proof.
    induction k as [|k IH]; intros left c ck v c' Hp Hk Ev Hv; inversion Hp; subst.
    - destruct left; cbn [while_sem]; rewrite Ev; cbn [rbind fst snd]; rewrite Hv; reflexivity.
    - destruct left as [|left]; [lia|]. cbn [while_sem].
      match goal with H : EVO _ cnd c = Fin _ |- _ => rewrite H end. cbn [rbind fst snd].
      match goal with H : l_truth L _ = true |- _ => rewrite H end. cbn [negb].
      match goal with H : blk body _ = Fin _ |- _ => rewrite H end. cbn [rbind fst snd].
      match goal with H : _ \/ _ |- _ => destruct H as [-> | ->] end; (eapply IH; [eassumption | lia | eassumption | assumption]).
  Qed.

  (* BREAK in pass k+1 leaves the loop, and only the loop *)
  Theorem while_break cnd body line : forall k left c ck v c1 c2,
    passes cnd body k c ck -> (k < left)%nat ->
    EVO (l_vzero L) cnd ck = Fin (v, c1) -> l_truth L v = true -> blk body c1 = Fin (Brk, c2) ->
    while_sem L funs blk left cnd body line c = Fin (Normal, c2).
  Proof.
    induction k as [|k IH]; intros left c ck v c1 c2 Hp Hk Ev Hv Hb; inversion Hp; subst.
    - destruct left as [|left]; [lia|]. cbn [while_sem]. rewrite Ev. cbn [rbind fst snd]. rewrite Hv. cbn [negb].
      rewrite Hb. reflexivity.
    - destruct left as [|left]; [lia|]. cbn [while_sem].
      match goal with H : EVO _ cnd c = Fin _ |- _ => rewrite H end. cbn [rbind fst snd].
      match goal with H : l_truth L _ = true |- _ => rewrite H end. cbn [negb].
      match goal with H : blk body _ = Fin _ |- _ => rewrite H end. cbn [rbind fst snd].
      match goal with H : _ \/ _ |- _ => destruct H as [-> | ->] end; (eapply IH; [eassumption | lia | eassumption | assumption | assumption]).
  Qed.

  (* RETURN in pass k+1 ends the loop at once and stays raised *)
  Theorem while_return cnd body line : forall k left c ck v c1 c2,
    passes cnd body k c ck -> (k < left)%nat ->
    EVO (l_vzero L) cnd ck = Fin (v, c1) -> l_truth L v = true -> blk body c1 = Fin (Ret, c2) ->
    while_sem L funs blk left cnd body line c = Fin (Ret, c2).
  Proof.
    induction k as [|k IH]; intros left c ck v c1 c2 Hp Hk Ev Hv Hb; inversion Hp; subst.
    - destruct left as [|left]; [lia|]. cbn [while_sem]. rewrite Ev. cbn [rbind fst snd]. rewrite Hv. cbn [negb].
      rewrite Hb. reflexivity.
    - destruct left as [|left]; [lia|]. cbn [while_sem].
      match goal with H : EVO _ cnd c = Fin _ |- _ => rewrite H end. cbn [rbind fst snd].
      match goal with H : l_truth L _ = true |- _ => rewrite H end. cbn [negb].
      match goal with H : blk body _ = Fin _ |- _ => rewrite H end. cbn [rbind fst snd].
      match goal with H : _ \/ _ |- _ => destruct H as [-> | ->] end; (eapply IH; [eassumption | lia | eassumption | assumption | assumption]).
  Qed.

  (* the limit: after `left` full passes one more pass is run, then the loop is cut off: ONE note is made, the signal of
     that pass is dropped unless it is a RETURN, and execution continues behind the loop *)
  Theorem while_limit cnd body line : forall left c cl v c1 sg c2,
    passes cnd body left c cl ->
    EVO (l_vzero L) cnd cl = Fin (v, c1) -> l_truth L v = true -> blk body c1 = Fin (sg, c2) ->
    while_sem L funs blk left cnd body line c
    = Fin (match sg with Ret => Ret | _ => Normal end, set_world c2 (l_limit_note L false line (world c2))).
  Proof.
    induction left as [|left IH]; intros c cl v c1 sg c2 Hp Ev Hv Hb; inversion Hp; subst.
    - cbn [while_sem]. rewrite Ev. cbn [rbind fst snd]. rewrite Hv. cbn [negb]. rewrite Hb. reflexivity.
    - cbn [while_sem].
      match goal with H : EVO _ cnd c = Fin _ |- _ => rewrite H end. cbn [rbind fst snd].
      match goal with H : l_truth L _ = true |- _ => rewrite H end. cbn [negb].
      match goal with H : blk body ?x = Fin (?s, _), H2 : ?s = Normal \/ _ |- _ => rewrite H; destruct H2 as [-> | ->] end;
        cbn [rbind fst snd]; (eapply IH; [eassumption | eassumption | assumption | eassumption]).
  Qed.

  (* a WHILE never lets BREAK / CONTINUE out *)
  Theorem while_signals cnd body line : forall left c sg c',
    while_sem L funs blk left cnd body line c = Fin (sg, c') -> sg = Normal \/ sg = Ret.
  Proof.
    induction left as [|left IH]; intros c sg c' H; cbn [while_sem] in H.
    - destruct (EVO (l_vzero L) cnd c) as [[v c1]|e| |]; cbn [rbind fst snd] in H; try discriminate.
      destruct (negb (l_truth L v)). { injection H as <- _. left; reflexivity. }
      destruct (blk body c1) as [[s2 c2]|e| |]; cbn [rbind fst snd cut_off] in H; try discriminate.
      injection H as <- _. destruct s2; [left|left|left|right]; reflexivity.
    - destruct (EVO (l_vzero L) cnd c) as [[v c1]|e| |]; cbn [rbind fst snd] in H; try discriminate.
      destruct (negb (l_truth L v)). { injection H as <- _. left; reflexivity. }
      destruct (blk body c1) as [[s2 c2]|e| |]; cbn [rbind fst snd] in H; try discriminate.
      destruct s2; try (injection H as <- _; auto; fail); eapply IH; exact H.
  Qed.

  (* ---- FOR: passes with the increment ---- *)
  Inductive fpasses (cnd : option (expr Name Op)) (inc body : list gstmt) : nat -> gcfg -> gcfg -> Prop :=
  | fpasses_O : forall c, fpasses cnd inc body 0 c c
  | fpasses_S : forall k c v c1 sg c2 c3 c4,
      EVO (l_vzero L) cnd c = Fin (v, c1) -> l_truth L v = true ->
      blk body c1 = Fin (sg, c2) -> (sg = Normal \/ sg = Cont) ->
      blk inc c2 = Fin (Normal, c3) ->            (* CONTINUE still runs the increment *)
      fpasses cnd inc body k c3 c4 -> fpasses cnd inc body (S k) c c4.

  Theorem for_unroll cnd inc body line : forall k left c ck v c',
    fpasses cnd inc body k c ck -> (k <= left)%nat ->
    EVO (l_vzero L) cnd ck = Fin (v, c') -> l_truth L v = false ->
    for_sem L funs blk left cnd inc body line c = Fin (Normal, c').
  Proof.
    induction k as [|k IH]; intros left c ck v c' Hp Hk Ev Hv; inversion Hp; subst.
    - destruct left; cbn [for_sem]; rewrite Ev; cbn [rbind fst snd]; rewrite Hv; reflexivity.
    - destruct left as [|left]; [lia|]. cbn [for_sem].
      match goal with H : EVO _ cnd c = Fin _ |- _ => rewrite H end. cbn [rbind fst snd].
      match goal with H : l_truth L _ = true |- _ => rewrite H end. cbn [negb].
      match goal with H : blk body _ = Fin _ |- _ => rewrite H end. cbn [rbind fst snd].
      match goal with H : _ \/ _ |- _ => destruct H as [-> | ->] end;
        (match goal with H : blk inc _ = Fin _ |- _ => rewrite H end; cbn [rbind fst snd];
         eapply IH; [eassumption | lia | eassumption | assumption]).
  Qed.

  Theorem for_limit cnd inc body line : forall left c cl v c1 sg c2,
    fpasses cnd inc body left c cl ->
    EVO (l_vzero L) cnd cl = Fin (v, c1) -> l_truth L v = true -> blk body c1 = Fin (sg, c2) ->
    for_sem L funs blk left cnd inc body line c
    = Fin (match sg with Ret => Ret | _ => Normal end, set_world c2 (l_limit_note L true line (world c2))).
  Proof.
    induction left as [|left IH]; intros c cl v c1 sg c2 Hp Ev Hv Hb; inversion Hp; subst.
    - cbn [for_sem]. rewrite Ev. cbn [rbind fst snd]. rewrite Hv. cbn [negb]. rewrite Hb. reflexivity.
    - cbn [for_sem].
      match goal with H : EVO _ cnd c = Fin _ |- _ => rewrite H end. cbn [rbind fst snd].
      match goal with H : l_truth L _ = true |- _ => rewrite H end. cbn [negb].
      match goal with H : blk body ?x = Fin (?s, _), H2 : ?s = Normal \/ _ |- _ => rewrite H; destruct H2 as [-> | ->] end;
        cbn [rbind fst snd];
        (match goal with H : blk inc _ = Fin _ |- _ => rewrite H end; cbn [rbind fst snd];
         eapply IH; [eassumption | eassumption | assumption | eassumption]).
  Qed.

  (* ---- calls ---- *)
  (* a call inside an expression runs the function its name is bound to *)
  Lemma call_named f args c b id fd vs c1 :
    lookup L f (env c) = Some b -> l_view_of L b = BFun id -> funs id = Some fd ->
    evals_with (eval L funs blk) args (push_frame c) = Fin (vs, c1) ->
    eval L funs blk (ECall f args) c = call_body L blk fd vs c1.
  Proof. intros H1 H2 H3 H4. cbn [eval]. rewrite H1, H2, H3, H4. reflexivity. Qed.

  (* a call statement runs the function it was resolved to, and raises nothing *)
  Lemma statement_call id args c fd vs c1 :
    funs id = Some fd -> eval_args L funs blk args (push_frame c) = Fin (vs, c1) ->
    XS (CallS id args) c = rbind (call_body L blk fd vs c1) (fun q => Fin (Normal, snd q)).
  Proof. intros H1 H2. cbn [exec_stmt]. rewrite H1, H2. reflexivity. Qed.
  Lemma statement_call_signal id args c sg c' : XS (CallS id args) c = Fin (sg, c') -> sg = Normal.
  Proof.
    cbn [exec_stmt]. destruct (funs id) as [fd|]; [|discriminate].
    destruct (eval_args L funs blk args (push_frame c)) as [[vs c1]|e| |]; cbn [rbind fst snd]; try discriminate.
    destruct (call_body L blk fd vs c1) as [[v c2]|e| |]; cbn [rbind]; try discriminate.
    intros H. injection H as <- _. reflexivity.
  Qed.

  (* whatever ends the body - its last statement, BREAK, CONTINUE or RETURN - ends at the call; the value is what Result is bound to *)
  Lemma call_body_result fd vs c sg c2 fr rest :
    blk (fd_body fd) (set_env c (ScriptSem.bind_params L (fd_params fd) 0 vs (env c))) = Fin (sg, c2) ->
    env c2 = fr :: rest ->
    call_body L blk fd vs c
    = match lookup_frame L (l_result_name L) fr with
      | None => Fin (l_vnone L, set_env c2 rest)
      | Some b => match l_view_of L b with BVal v => Fin (v, set_env c2 rest) | _ => Stuck end
      end.
  Proof. intros H1 H2. unfold call_body. rewrite H1. cbn [rbind snd]. rewrite H2. reflexivity. Qed.

  (* RETURN(e) = bind Result, raise Ret; the rest of the block is not run *)
  Lemma return_ends_block e rest c v c1 :
    eval L funs blk e c = Fin (v, c1) ->
    XQ (Return (Some e) :: rest) c = Fin (Ret, bind_val L (l_result_name L) v c1).
  Proof. intros H. cbn [exec_seq exec_stmt eval_opt]. rewrite H. reflexivity. Qed.
  Lemma return_without_value rest c : XQ (Return None :: rest) c = Fin (Ret, c).
  Proof. reflexivity. Qed.
End SemFacts2.

(* ---- scopes and defaults ---- *)
Section ScopeFacts.
  Variables Name Atom Op Val World Bnd FId Err : Type.
  Variable L : lang Name Atom Op Val World Bnd FId Err.
  Variable funs : FId -> option (fundef Name Atom Op Val FId).

  Notation gcfg := (cfg Name World Bnd).
  Notation gstmt := (stmt Name Atom Op FId).
  Notation gexpr := (expr Name Op).

  Lemma tl_bind (x : Name) (b : Bnd) e : tl (bind x b e) = tl e.
  Proof. destruct e; reflexivity. Qed.
  Lemma tl_bind_params ps : forall i vs e, tl (ScriptSem.bind_params L ps i vs e) = tl e.
  Proof.
    induction ps as [|[x d] r IH]; intros i vs e; [reflexivity|]. cbn [ScriptSem.bind_params]. rewrite IH. apply tl_bind.
  Qed.

  Section Level.
    Variable blk : list gstmt -> gcfg -> result Err (signal * gcfg).
    (* one level down, a block leaves every frame below the innermost one as it is *)
    Hypothesis HT : forall b c sg c', blk b c = Fin (sg, c') -> tl (env c') = tl (env c).

    Lemma call_body_env fd vs c v c' : call_body L blk fd vs c = Fin (v, c') -> env c' = tl (env c).
    Proof.
      unfold call_body. destruct (blk _ _) as [[sg c2]|e| |] eqn:E; cbn [rbind snd]; try discriminate.
      apply HT in E. cbn [env set_env] in E. rewrite tl_bind_params in E.
      destruct (env c2) as [|fr rest] eqn:Ee; [discriminate|]. cbn [tl] in E.
      destruct (lookup_frame L (l_result_name L) fr) as [b|].
      - destruct (l_view_of L b); try discriminate. intros H. injection H as _ <-. exact E.
      - intros H. injection H as _ <-. exact E.
    Qed.

    Lemma evals_env (f : gexpr -> gcfg -> result Err (Val * gcfg)) l :
      Forall (fun x => forall c v c', f x c = Fin (v, c') -> env c' = env c) l ->
      forall c vs c', evals_with f l c = Fin (vs, c') -> env c' = env c.
    Proof.
      induction 1 as [|x r Hx Hr IH]; intros c vs c' H.
      - injection H as _ <-. reflexivity.
      - change (evals_with f (x :: r) c) with (rbind (f x c) (fun p => rbind (evals_with f r (snd p)) (fun q => Fin (fst p :: fst q, snd q)))) in H.
        destruct (f x c) as [[v c1]|e| |] eqn:E1; cbn [rbind fst snd] in H; try discriminate.
        destruct (evals_with f r c1) as [[ws c2]|e| |] eqn:E2; cbn [rbind fst snd] in H; try discriminate.
        injection H as _ <-. rewrite (IH _ _ _ E2). exact (Hx _ _ _ E1).
    Qed.

    (* evaluating an expression - calls included - leaves ALL frames as they are *)
    Lemma eval_env : forall e c v c', eval L funs blk e c = Fin (v, c') -> env c' = env c.
    Proof.
      apply (gexpr_ind' Name Op (fun e => forall c v c', eval L funs blk e c = Fin (v, c') -> env c' = env c)).
      - intros o args Hargs c v c' H. cbn [eval] in H.
        destruct (evals_with (eval L funs blk) args c) as [[vs c1]|e| |] eqn:E1; cbn [rbind fst snd] in H; try discriminate.
        destruct (shadowed L o (env c1)); [discriminate|].
        destruct (l_op_sem L o vs); cbn [rbind] in H; try discriminate. injection H as _ <-.
        exact (evals_env _ args Hargs _ _ _ E1).
      - intros x c v c' H. cbn [eval] in H. destruct (lookup L x (env c)) as [b|].
        + destruct (l_view_of L b); try discriminate. injection H as _ <-. reflexivity.
        + destruct (l_unbound L x); cbn [rbind] in H; try discriminate. injection H as _ <-. reflexivity.
      - intros f args Hargs c v c' H. cbn [eval] in H.
        destruct (lookup L f (env c)) as [b|]; [|discriminate]. destruct (l_view_of L b) as [|id|]; try discriminate.
        destruct (funs id) as [fd|]; [|discriminate].
        destruct (evals_with (eval L funs blk) args (push_frame c)) as [[vs c1]|e| |] eqn:E1; cbn [rbind fst snd] in H; try discriminate.
        apply call_body_env in H. rewrite H. rewrite (evals_env _ args Hargs _ _ _ E1). reflexivity.
    Qed.

    Lemma eval_opt_env d e c v c' : eval_opt L funs blk d e c = Fin (v, c') -> env c' = env c.
    Proof. destruct e; cbn [eval_opt]; [apply eval_env|]. intros H. injection H as _ <-. reflexivity. Qed.
    Lemma eval_args_env l : forall c vs c', eval_args L funs blk l c = Fin (vs, c') -> env c' = env c.
    Proof.
      induction l as [|a r IH]; intros c vs c' H; cbn [eval_args] in H.
      - injection H as _ <-. reflexivity.
      - destruct (eval_opt L funs blk (l_vnone L) a c) as [[v c1]|e| |] eqn:E1; cbn [rbind fst snd] in H; try discriminate.
        destruct (eval_args L funs blk r c1) as [[ws c2]|e| |] eqn:E2; cbn [rbind fst snd] in H; try discriminate.
        injection H as _ <-. rewrite (IH _ _ _ E2). exact (eval_opt_env _ _ _ _ _ E1).
    Qed.

    Lemma while_tail left cnd body line : forall c sg c',
      while_sem L funs blk left cnd body line c = Fin (sg, c') -> tl (env c') = tl (env c).
    Proof.
      induction left as [|left IH]; intros c sg c' H; cbn [while_sem] in H;
        (destruct (eval_opt L funs blk (l_vzero L) cnd c) as [[v c1]|e| |] eqn:E1; cbn [rbind fst snd] in H; try discriminate;
         apply eval_opt_env in E1; rewrite <- E1;
         destruct (negb (l_truth L v)); [injection H as _ <-; reflexivity|];
         destruct (blk body c1) as [[s2 c2]|e| |] eqn:E2; cbn [rbind fst snd] in H; try discriminate;
         apply HT in E2; rewrite <- E2).
      - unfold cut_off in H. injection H as _ <-. reflexivity.
      - destruct s2; try (injection H as _ <-; reflexivity); apply (IH _ _ _ H).
    Qed.

    Lemma for_tail left cnd inc body line : forall c sg c',
      for_sem L funs blk left cnd inc body line c = Fin (sg, c') -> tl (env c') = tl (env c).
    Proof.
      induction left as [|left IH]; intros c sg c' H; cbn [for_sem] in H;
        (destruct (eval_opt L funs blk (l_vzero L) cnd c) as [[v c1]|e| |] eqn:E1; cbn [rbind fst snd] in H; try discriminate;
         apply eval_opt_env in E1; rewrite <- E1;
         destruct (negb (l_truth L v)); [injection H as _ <-; reflexivity|];
         destruct (blk body c1) as [[s2 c2]|e| |] eqn:E2; cbn [rbind fst snd] in H; try discriminate;
         apply HT in E2; rewrite <- E2).
      - unfold cut_off in H. injection H as _ <-. reflexivity.
      - destruct s2; try (injection H as _ <-; reflexivity);
          (destruct (blk inc c2) as [[s3 c3]|e| |] eqn:E3; cbn [rbind fst snd] in H; try discriminate;
           apply HT in E3; rewrite <- E3;
           destruct s3; try (injection H as _ <-; reflexivity); apply (IH _ _ _ H)).
    Qed.

    (* a statement changes at most the innermost frame; a call statement changes no frame at all *)
    Lemma exec_stmt_tail s c sg c' : exec_stmt L funs blk s c = Fin (sg, c') -> tl (env c') = tl (env c).
    Proof.
      destruct s; cbn [exec_stmt]; intros H.
      - destruct (l_atom_sem L a (world c)); cbn [rbind] in H; try discriminate. injection H as _ <-. reflexivity.
      - destruct (eval_args L funs blk args c) as [[vs c1]|e| |] eqn:E1; cbn [rbind fst snd] in H; try discriminate.
        injection H as _ <-. cbn [env set_world]. rewrite (eval_args_env _ _ _ _ E1). reflexivity.
      - destruct (eval_opt L funs blk (l_vzero L) init c) as [[v c1]|e| |] eqn:E1; cbn [rbind fst snd] in H; try discriminate.
        injection H as _ <-. unfold bind_val. cbn [env set_env set_world]. rewrite tl_bind, (eval_opt_env _ _ _ _ _ E1). reflexivity.
      - destruct (eval_opt L funs blk (l_vzero L) e c) as [[v c1]|e0| |] eqn:E1; cbn [rbind fst snd] in H; try discriminate.
        injection H as _ <-. unfold bind_val. cbn [env set_env]. rewrite tl_bind, (eval_opt_env _ _ _ _ _ E1). reflexivity.
      - destruct (lookup L x (env c)) as [b|].
        + destruct (l_view_of L b); try discriminate. injection H as _ <-. unfold bind_val. cbn [env set_env]. apply tl_bind.
        + injection H as _ <-. unfold bind_val. cbn [env set_env]. apply tl_bind.
      - destruct (eval_opt L funs blk (l_vzero L) c0 c) as [[v c1]|e| |] eqn:E1; cbn [rbind fst snd] in H; try discriminate.
        apply HT in H. rewrite H, (eval_opt_env _ _ _ _ _ E1). reflexivity.
      - exact (while_tail _ _ _ _ _ _ _ H).
      - destruct (blk init c) as [[s2 c2]|e| |] eqn:E2; cbn [rbind fst snd] in H; try discriminate.
        apply HT in E2. rewrite <- E2. destruct s2; try (injection H as _ <-; reflexivity). exact (for_tail _ _ _ _ _ _ _ _ H).
      - injection H as _ <-. reflexivity.
      - injection H as _ <-. reflexivity.
      - destruct e as [e|]; [|injection H as _ <-; reflexivity].
        destruct (eval_opt L funs blk (l_vzero L) (Some e) c) as [[v c1]|e0| |] eqn:E1; cbn [rbind fst snd] in H; try discriminate.
        injection H as _ <-. unfold bind_val. cbn [env set_env]. rewrite tl_bind, (eval_opt_env _ _ _ _ _ E1). reflexivity.
      - destruct (funs f) as [fd|]; [|discriminate].
        destruct (eval_args L funs blk args (push_frame c)) as [[vs c1]|e| |] eqn:E1; cbn [rbind fst snd] in H; try discriminate.
        destruct (call_body L blk fd vs c1) as [[v c2]|e| |] eqn:E2; cbn [rbind fst snd] in H; try discriminate.
        injection H as _ <-. apply call_body_env in E2. rewrite E2, (eval_args_env _ _ _ _ E1). reflexivity.
    Qed.

    Lemma statement_call_env f args c sg c' : exec_stmt L funs blk (CallS f args) c = Fin (sg, c') -> env c' = env c.
    Proof.
      cbn [exec_stmt]. intros H. destruct (funs f) as [fd|]; [|discriminate].
      destruct (eval_args L funs blk args (push_frame c)) as [[vs c1]|e| |] eqn:E1; cbn [rbind fst snd] in H; try discriminate.
      destruct (call_body L blk fd vs c1) as [[v c2]|e| |] eqn:E2; cbn [rbind fst snd] in H; try discriminate.
      injection H as _ <-. apply call_body_env in E2. rewrite E2, (eval_args_env _ _ _ _ E1). reflexivity.
    Qed.

    Lemma exec_seq_tail b : forall c sg c', exec_seq L funs blk b c = Fin (sg, c') -> tl (env c') = tl (env c).
    Proof.
      induction b as [|s r IH]; intros c sg c' H; cbn [exec_seq] in H.
      - injection H as _ <-. reflexivity.
      - destruct (exec_stmt L funs blk s c) as [[s2 c2]|e| |] eqn:E; cbn [rbind fst snd] in H; try discriminate.
        apply exec_stmt_tail in E. rewrite <- E. destruct s2; try (injection H as _ <-; reflexivity). exact (IH _ _ _ H).
    Qed.
  End Level.

  (* every block, at every nesting budget: only the innermost frame can change *)
  Theorem sem_tail : forall n b c sg c', sem L funs n b c = Fin (sg, c') -> tl (env c') = tl (env c).
  Proof.
    induction n as [|n IH]; intros b c sg c' H; [discriminate H|].
    exact (exec_seq_tail (sem L funs n) IH b c sg c' H).
  Qed.

  (* ---- declared defaults ---- *)
  Hypothesis name_eqb_refl : forall x, l_name_eqb L x x = true.
  Hypothesis name_eqb_true : forall x y, l_name_eqb L x y = true -> x = y.

  Lemma lookup_bind_same x b e : lookup L x (bind x b e) = Some b.
  Proof. destruct e as [|fr r]; cbn [bind lookup lookup_frame]; rewrite name_eqb_refl; reflexivity. Qed.
  Lemma lookup_bind_other x y b e : y <> x -> lookup L x (bind y b e) = lookup L x e.
  Proof.
    intros Hne. assert (E : l_name_eqb L y x = false).
    { destruct (l_name_eqb L y x) eqn:E; [|reflexivity]. apply name_eqb_true in E. contradiction. }
    destruct e as [|fr r]; cbn [bind lookup lookup_frame]; rewrite E; reflexivity.
  Qed.
  Lemma lookup_bind_params_other x ps : ~ In x (map fst ps) -> forall i vs e,
    lookup L x (ScriptSem.bind_params L ps i vs e) = lookup L x e.
  Proof.
    induction ps as [|[y d] r IH]; intros Hn i vs e; [reflexivity|]. cbn [ScriptSem.bind_params map fst In] in *.
    rewrite IH by tauto. apply lookup_bind_other. intros ->. tauto.
  Qed.

  (* parameter number j is bound to argument number j, or to its declared default when that argument is missing or has no value *)
  Theorem bind_params_lookup ps : NoDup (map fst ps) -> forall i j x d vs e,
    nth_error ps j = Some (x, d) ->
    lookup L x (ScriptSem.bind_params L ps i vs e)
    = Some (l_bnd_val L (if l_is_none L (nth (i + j) vs (l_vnone L)) then d else nth (i + j) vs (l_vnone L))).
  Proof.
    induction ps as [|[y dy] r IH]; intros Hnd i j x d vs e Hj; [destruct j; discriminate|].
    cbn [map fst] in Hnd. inversion Hnd as [|? ? Hnin Hnd']; subst. cbn [ScriptSem.bind_params].
    destruct j as [|j]; cbn [nth_error] in Hj.
    - injection Hj as -> ->. rewrite lookup_bind_params_other by exact Hnin. rewrite lookup_bind_same, Nat.add_0_r. reflexivity.
    - rewrite (IH Hnd' (S i) j x d vs _ Hj). replace (S i + j)%nat with (i + S j)%nat by lia. reflexivity.
  Qed.
End ScopeFacts.

(* ---- the loop and the text of its passes ---- *)
Section UnrollText.
  Variables Name Atom Op Val World Bnd FId Err : Type.
  Variable L : lang Name Atom Op Val World Bnd FId Err.
  Variable funs : FId -> option (fundef Name Atom Op Val FId).
  Notation gcfg := (cfg Name World Bnd).
  Notation gstmt := (stmt Name Atom Op FId).

  (* the body written k times *)
  Fixpoint reps (k : nat) (body : list gstmt) : list gstmt :=
    match k with O => [] | S k' => body ++ reps k' body end.

  (* k passes in which the test holds and changes nothing, and the body runs to its end *)
  Inductive straight (n : nat) (cnd : option (expr Name Op)) (body : list gstmt) : nat -> gcfg -> gcfg -> Prop :=
  | straight_O : forall c, straight n cnd body 0 c c
  | straight_S : forall k c v c2 c3,
      eval_opt L funs (sem L funs n) (l_vzero L) cnd c = Fin (v, c) -> l_truth L v = true ->
      sem L funs n body c = Fin (Normal, c2) ->
      straight n cnd body k c2 c3 -> straight n cnd body (S k) c c3.

  Lemma straight_passes n cnd body k c ck :
    straight n cnd body k c ck -> passes Name Atom Op Val World Bnd FId Err L funs (sem L funs n) cnd body k c ck.
  Proof.
    induction 1 as [c|k c v c2 c3 Ev Hv Hb Hs IH]; [constructor|].
    eapply passes_S; [exact Ev | exact Hv | exact Hb | left; reflexivity | exact IH].
  Qed.

  Lemma straight_text n cnd body k c ck :
    straight n cnd body k c ck -> sem L funs (S n) (reps k body) c = Fin (Normal, ck).
  Proof.
    induction 1 as [c|k c v c2 c3 Ev Hv Hb Hs IH]; [reflexivity|].
    cbn [reps]. change (sem L funs (S n) (body ++ reps k body) c) with (exec_seq L funs (sem L funs n) (body ++ reps k body) c).
    rewrite exec_seq_app.
    change (exec_seq L funs (sem L funs n) body c) with (sem L funs (S n) body c).
    rewrite (sem_mono _ _ _ _ _ _ _ _ L funs n body c) by (rewrite Hb; discriminate).
    rewrite Hb. cbn [rbind fst snd]. exact IH.
  Qed.

  (* WHILE(c){body} whose test holds exactly k times (k within the limit) means body written k times *)
  Theorem loop_unroll_text n cnd body line k c ck v :
    straight n cnd body k c ck -> (k <= l_limit L)%nat ->
    eval_opt L funs (sem L funs n) (l_vzero L) cnd ck = Fin (v, ck) -> l_truth L v = false ->
    exec_stmt L funs (sem L funs n) (While cnd body line) c = sem L funs (S n) (reps k body) c.
  Proof.
    intros Hs Hk Ev Hv. rewrite (straight_text _ _ _ _ _ _ Hs). cbn [exec_stmt].
    exact (while_unroll _ _ _ _ _ _ _ _ L funs (sem L funs n) cnd body line k (l_limit L) c ck v ck (straight_passes _ _ _ _ _ _ Hs) Hk Ev Hv).
  Qed.
End UnrollText.

(* ---- BREAK / CONTINUE inside a body: the rest of the pass is skipped ---- *)
Section Skips.
  Variables Name Atom Op Val World Bnd FId Err : Type.
  Variable L : lang Name Atom Op Val World Bnd FId Err.
  Variable funs : FId -> option (fundef Name Atom Op Val FId).
  Variable blk : list (stmt Name Atom Op FId) -> cfg Name World Bnd -> result Err (signal * cfg Name World Bnd).

  Lemma continue_skips pre post c c1 :
    exec_seq L funs blk pre c = Fin (Normal, c1) ->
    exec_seq L funs blk (pre ++ Continue :: post) c = Fin (Cont, c1).
  Proof. intros H. rewrite exec_seq_app, H. reflexivity. Qed.
  Lemma break_skips pre post c c1 :
    exec_seq L funs blk pre c = Fin (Normal, c1) ->
    exec_seq L funs blk (pre ++ Break :: post) c = Fin (Brk, c1).
  Proof. intros H. rewrite exec_seq_app, H. reflexivity. Qed.
  (* a guarded BREAK / CONTINUE / RETURN: IF(c){BREAK} raises the signal exactly when c holds *)
  Lemma guarded_signal cnd s c v c1 :
    eval_opt L funs blk (l_vzero L) cnd c = Fin (v, c1) ->
    exec_stmt L funs blk (If cnd [s] []) c = if l_truth L v then blk [s] c1 else blk [] c1.
  Proof. intros H. rewrite (if_one_branch _ _ _ _ _ _ _ _ L funs blk cnd [s] [] c v c1 H). destruct (l_truth L v); reflexivity. Qed.
End Skips.

(* ---- token-level statements about the model ---- *)
Lemma if_one_branch_tokens ec cnd th el line st v st1 :
  exec_value_o ec cnd st = Ok (v, st1) ->
  sstep ec (SIf cnd th el line) st = ec (if Expr.to_b v then th else el) (Ok st1).
Proof. intros H. cbn [sstep]. rewrite H. reflexivity. Qed.

(* a call inside an expression executes the body of the function the name is bound to in the scope stack:
   variables_get(name) = UserFunc(id)  =>  song.functions[id] *)
Lemma call_named_tokens ec name args st id fd :
  vars_lookup name (ss_scopes st) = Some (VFunc id) -> nth_error (ss_funcs st) id = Some fd ->
  eval_tok ec (Expr.TCall true name args) st
  = (do p <- (do q <- eval_list (eval_tok ec) opt_none args (st_set_needs (st_set_scopes st ([] :: ss_scopes st)) true);
              Ok (fst q, st_set_needs (snd q) (ss_needs st)));
     finish_call ec fd (fst p) (snd p)).
Proof.
  intros H1 H2. cbn [eval_tok]. rewrite H1, H2. cbn [ss_needs st_set_scopes].
  destruct (eval_list (eval_tok ec) opt_none args _) as [[vs st1]| | |]; reflexivity.
Qed.
(* a call statement executes the body of the function whose id the lexer stored *)
Lemma statement_call_tokens ec id args st fd :
  nth_error (ss_funcs st) id = Some fd ->
  sstep ec (SCall id args) st
  = (do p <- exec_args_o ec args (st_set_scopes st ([] :: ss_scopes st)); do q <- finish_call ec fd (fst p) (snd p); Ok (snd q)).
Proof.
  intros H. cbn [sstep]. rewrite H. destruct (exec_args_o ec args _) as [[vs st1]| | |]; reflexivity.
Qed.

(* ---- the pipeline: what run_script computes is the meaning of the lexed program ---- *)
Definition cfg_after_lex (ls : slex) : mcfg := mkCfg (ss_song (state_after_lex ls)) (sl_scopes ls).
Lemma wf_after_lex ls : wf (cfg_after_lex ls).
Proof. reflexivity. Qed.

Theorem run_script_sem src toks ls :
  lex_script src = Ok (toks, ls) -> ft_ok (sl_funcs ls) = true -> toks_ok toks = true ->
  sem ML (funs_of (sl_funcs ls)) DEPTH (prog_of toks) (cfg_after_lex ls) <> Stuck ->
  run_script src = out_state (sl_funcs ls) false (sem ML (funs_of (sl_funcs ls)) DEPTH (prog_of toks) (cfg_after_lex ls)).
Proof.
  intros Hl Hft Hok Hns. unfold run_script, run_script_lang. fold (lex_script src). rewrite Hl. cbn [Base.bind].
  exact (proj1 (exec_vs_sem (sl_funcs ls) Hft DEPTH toks false (cfg_after_lex ls) (wf_after_lex ls) Hok Hns)).
Qed.

(* ---- an empty frame changes nothing: arguments are evaluated in the caller's frames ---- *)
Section EmptyFrame.
  Variables Name Atom Op Val World Bnd FId Err : Type.
  Variable L : lang Name Atom Op Val World Bnd FId Err.
  Variable funs : FId -> option (fundef Name Atom Op Val FId).

  Notation gcfg := (cfg Name World Bnd).
  Notation gstmt := (stmt Name Atom Op FId).
  Notation gexpr := (expr Name Op).
  Notation gres := (result Err).
  Notation gframe := (frame Name Bnd).

  (* e' is e with one empty frame inserted somewhere / somewhere below the innermost frame *)
  Inductive ins : list gframe -> list gframe -> Prop :=
  | ins_here : forall e, ins e ([] :: e)
  | ins_cons : forall fr e e', ins e e' -> ins (fr :: e) (fr :: e').
  Definition below (e e' : list gframe) : Prop := exists fr e0 e0', e = fr :: e0 /\ e' = fr :: e0' /\ ins e0 e0'.

  Lemma below_ins e e' : below e e' -> ins e e'.
  Proof. intros (fr & e0 & e0' & -> & -> & H). apply ins_cons. exact H. Qed.
  Lemma lookup_ins x e e' : ins e e' -> lookup L x e' = lookup L x e.
  Proof. induction 1 as [e|fr e e' H IH]; [reflexivity|]. cbn [lookup]. rewrite IH. reflexivity. Qed.
  Lemma below_bind x b e e' : below e e' -> below (bind x b e) (bind x b e').
  Proof. intros (fr & e0 & e0' & -> & -> & H). exists ((x, b) :: fr), e0, e0'. repeat split. exact H. Qed.
  Lemma below_bind_params ps : forall i vs e e', below e e' -> below (ScriptSem.bind_params L ps i vs e) (ScriptSem.bind_params L ps i vs e').
  Proof. induction ps as [|[x d] r IH]; intros i vs e e' H; [exact H|]. cbn [ScriptSem.bind_params]. apply IH, below_bind, H. Qed.
  Lemma below_push e e' : ins e e' -> below ([] :: e) ([] :: e').
  Proof. intros H. exists [], e, e'. repeat split. exact H. Qed.

  (* results related case by case *)
  Definition rrel {A} (R : A -> A -> Prop) (r r' : gres A) : Prop :=
    match r, r' with
    | Fin a, Fin a' => R a a'
    | Fail e, Fail e' => e = e'
    | Stuck, Stuck => True
    | NoFuel, NoFuel => True
    | _, _ => False
    end.
  Lemma rrel_bind {A B} (R : A -> A -> Prop) (S : B -> B -> Prop) r r' (k k' : A -> gres B) :
    rrel R r r' -> (forall a a', R a a' -> rrel S (k a) (k' a')) -> rrel S (rbind r k) (rbind r' k').
  Proof. destruct r, r'; cbn [rrel rbind]; intros H HK; try contradiction; try exact H; try exact I. apply HK, H. Qed.
  Lemma rrel_strengthen {A} (R : A -> A -> Prop) (P P' : A -> Prop) r r' :
    rrel R r r' -> (forall a, r = Fin a -> P a) -> (forall a, r' = Fin a -> P' a) ->
    rrel (fun a a' => R a a' /\ P a /\ P' a') r r'.
  Proof. destruct r, r'; cbn [rrel]; intros H H1 H2; try contradiction; try exact H. repeat split; [exact H | apply H1; reflexivity | apply H2; reflexivity]. Qed.
  Lemma rrel_weaken {A} (R S : A -> A -> Prop) r r' : (forall a a', R a a' -> S a a') -> rrel R r r' -> rrel S r r'.
  Proof. destruct r, r'; cbn [rrel]; intros H H1; try contradiction; try exact H1. apply H, H1. Qed.
  Lemma rrel_refl_eq {A} (r : gres A) : rrel eq r r.
  Proof. destruct r; cbn [rrel]; auto. Qed.

  (* configurations: same world, frames related *)
  Definition crel (Q : list gframe -> list gframe -> Prop) (c c' : gcfg) : Prop := world c = world c' /\ Q (env c) (env c').
  (* results of expressions: same value, same world, frames as at the start *)
  Definition erel {A} (c c' : gcfg) (p p' : A * gcfg) : Prop :=
    fst p = fst p' /\ world (snd p) = world (snd p') /\ env (snd p) = env c /\ env (snd p') = env c'.
  Definition srel (p p' : signal * gcfg) : Prop := fst p = fst p' /\ crel below (snd p) (snd p').

  Section Level.
    Variable blk : list gstmt -> gcfg -> gres (signal * gcfg).
    Hypothesis HT : forall b c sg c', blk b c = Fin (sg, c') -> tl (env c') = tl (env c).
    Hypothesis HBk : forall b c c', crel below c c' -> rrel srel (blk b c) (blk b c').

    Lemma call_body_ins fd vs c c' :
      crel below c c' ->
      rrel (fun p p' => fst p = fst p' /\ world (snd p) = world (snd p') /\ env (snd p) = tl (env c) /\ env (snd p') = tl (env c'))
           (call_body L blk fd vs c) (call_body L blk fd vs c').
    Proof.
      intros [Hw Hb].
      assert (H0 : rrel (fun p p' => fst p = fst p' /\ world (snd p) = world (snd p')) (call_body L blk fd vs c) (call_body L blk fd vs c')).
      { unfold call_body. eapply rrel_bind.
        - apply HBk. split; [exact Hw|]. cbn [env set_env]. apply below_bind_params, Hb.
        - intros [sg c2] [sg' c2'] [_ [Hw2 (fr & e0 & e0' & E1 & E2 & Hi)]]. cbn [fst snd] in *. rewrite E1, E2.
          destruct (lookup_frame L (l_result_name L) fr) as [b|].
          + destruct (l_view_of L b); cbn [rrel]; auto.
          + cbn [rrel]. auto. }
      eapply rrel_weaken; [|apply (rrel_strengthen _ (fun p => env (snd p) = tl (env c)) (fun p => env (snd p) = tl (env c')) _ _ H0)].
      - intros p p' [[H1 H2] [H3 H4]]. auto.
      - intros [v c2] E. exact (call_body_env _ _ _ _ _ _ _ _ L blk HT fd vs c v c2 E).
      - intros [v c2] E. exact (call_body_env _ _ _ _ _ _ _ _ L blk HT fd vs c' v c2 E).
    Qed.

    Lemma evals_ins (f : gexpr -> gcfg -> gres (Val * gcfg)) l :
      Forall (fun x => forall c c', crel ins c c' -> rrel (erel c c') (f x c) (f x c')) l ->
      forall c c', crel ins c c' -> rrel (erel c c') (evals_with f l c) (evals_with f l c').
    Proof.
      induction 1 as [|x r Hx Hr IH]; intros c c' Hc.
      - cbn [evals_with rrel]. destruct Hc as [Hw _]. repeat split; auto.
      - change (evals_with f (x :: r) c) with (rbind (f x c) (fun p => rbind (evals_with f r (snd p)) (fun q => Fin (fst p :: fst q, snd q)))).
        change (evals_with f (x :: r) c') with (rbind (f x c') (fun p => rbind (evals_with f r (snd p)) (fun q => Fin (fst p :: fst q, snd q)))).
        eapply rrel_bind; [apply Hx, Hc|].
        intros [v c1] [v' c1'] (Ev & Hw1 & E1 & E1'). cbn [fst snd] in *.
        eapply rrel_bind; [apply (IH c1 c1'); split; [exact Hw1 | rewrite E1, E1'; apply Hc]|].
        intros [vs c2] [vs' c2'] (Evs & Hw2 & E2 & E2'). cbn [fst snd rrel] in *.
        repeat split; cbn [fst snd]; [rewrite Ev, Evs; reflexivity | exact Hw2 | rewrite E2, E1; reflexivity | rewrite E2', E1'; reflexivity].
    Qed.

    Lemma eval_ins : forall e c c', crel ins c c' -> rrel (erel c c') (eval L funs blk e c) (eval L funs blk e c').
    Proof.
      apply (gexpr_ind' Name Op (fun e => forall c c', crel ins c c' -> rrel (erel c c') (eval L funs blk e c) (eval L funs blk e c'))).
      - intros o args Hargs c c' Hc. cbn [eval]. eapply rrel_bind; [apply evals_ins; [exact Hargs | exact Hc]|].
        intros [vs c1] [vs' c1'] (Ev & Hw1 & E1 & E1'). cbn [fst snd] in *. subst vs'.
        assert (Es : shadowed L o (env c1') = shadowed L o (env c1)).
        { unfold shadowed. destruct (l_op_name L o); [|reflexivity]. rewrite E1, E1', (lookup_ins _ _ _ (proj2 Hc)). reflexivity. }
        rewrite Es. destruct (shadowed L o (env c1)); [exact I|].
        destruct (l_op_sem L o vs); cbn [rbind rrel]; auto. repeat split; auto.
      - intros x c c' [Hw Hi]. cbn [eval]. rewrite (lookup_ins x _ _ Hi).
        destruct (lookup L x (env c)) as [b|].
        + destruct (l_view_of L b); cbn [rrel]; auto. repeat split; auto.
        + destruct (l_unbound L x); cbn [rbind rrel]; auto. repeat split; auto.
      - intros f args Hargs c c' [Hw Hi]. cbn [eval]. rewrite (lookup_ins f _ _ Hi).
        destruct (lookup L f (env c)) as [b|]; [|exact I]. destruct (l_view_of L b) as [|id|]; try exact I.
        destruct (funs id) as [fd|]; [|exact I].
        eapply rrel_bind.
        + apply (evals_ins _ args Hargs (push_frame c) (push_frame c')). split; [exact Hw|]. cbn [env push_frame set_env]. apply ins_cons, Hi.
        + intros [vs c1] [vs' c1'] (Ev & Hw1 & E1 & E1'). cbn [fst snd] in *. subst vs'.
          eapply rrel_weaken; [|apply (call_body_ins fd vs c1 c1')].
          * intros p p' (H1 & H2 & H3 & H4). unfold erel. rewrite H3, H4, E1, E1'. cbn [env push_frame set_env tl]. auto.
          * split; [exact Hw1|]. rewrite E1, E1'. cbn [env push_frame set_env]. apply below_push, Hi.
    Qed.

    Lemma eval_opt_ins d e c c' : crel ins c c' -> rrel (erel c c') (eval_opt L funs blk d e c) (eval_opt L funs blk d e c').
    Proof. intros Hc. destruct e; cbn [eval_opt]; [apply eval_ins, Hc|]. cbn [rrel]. destruct Hc. repeat split; auto. Qed.
    Lemma eval_args_ins l : forall c c', crel ins c c' -> rrel (erel c c') (eval_args L funs blk l c) (eval_args L funs blk l c').
    Proof.
      induction l as [|a r IH]; intros c c' Hc; cbn [eval_args].
      - cbn [rrel]. destruct Hc. repeat split; auto.
      - eapply rrel_bind; [apply eval_opt_ins, Hc|].
        intros [v c1] [v' c1'] (Ev & Hw1 & E1 & E1'). cbn [fst snd] in *.
        eapply rrel_bind; [apply (IH c1 c1'); split; [exact Hw1 | rewrite E1, E1'; apply Hc]|].
        intros [vs c2] [vs' c2'] (Evs & Hw2 & E2 & E2'). cbn [fst snd rrel] in *.
        repeat split; cbn [fst snd]; [rewrite Ev, Evs; reflexivity | exact Hw2 | rewrite E2, E1; reflexivity | rewrite E2', E1'; reflexivity].
    Qed.

    (* from an expression result back to related configurations *)
    Lemma erel_below {A} c c' (p p' : A * gcfg) : crel below c c' -> erel c c' p p' -> crel below (snd p) (snd p').
    Proof. intros [_ Hb] (_ & Hw & E & E'). split; [exact Hw | rewrite E, E'; exact Hb]. Qed.
    Lemma crel_below_ins c c' : crel below c c' -> crel ins c c'.
    Proof. intros [Hw Hb]. split; [exact Hw | apply below_ins, Hb]. Qed.
    Lemma crel_bind_val x v c c' : crel below c c' -> crel below (bind_val L x v c) (bind_val L x v c').
    Proof. intros [Hw Hb]. split; [exact Hw | apply below_bind, Hb]. Qed.
    Lemma crel_set_world c c' (g : World -> World) : crel below c c' -> crel below (set_world c (g (world c))) (set_world c' (g (world c'))).
    Proof. intros [Hw Hb]. split; [cbn [world set_world]; rewrite Hw; reflexivity | exact Hb]. Qed.

    Lemma while_ins left cnd body line : forall c c', crel below c c' ->
      rrel srel (while_sem L funs blk left cnd body line c) (while_sem L funs blk left cnd body line c').
    Proof.
      induction left as [|left IH]; intros c c' Hc; cbn [while_sem];
        (eapply rrel_bind; [apply eval_opt_ins, crel_below_ins, Hc|];
         intros p p' Hp; pose proof (erel_below _ _ _ _ Hc Hp) as Hc1; destruct Hp as (Ev & _); rewrite <- Ev;
         destruct (negb (l_truth L (fst p))); [split; [reflexivity | exact Hc1]|];
         eapply rrel_bind; [apply HBk, Hc1|]; intros r r' [Es Hc2]; rewrite <- Es).
      - unfold cut_off. split; [reflexivity|]. cbn [fst snd]. apply (crel_set_world _ _ (l_limit_note L false line)), Hc2.
      - destruct (fst r); try (split; [reflexivity | exact Hc2]); apply IH, Hc2.
    Qed.

    Lemma for_ins left cnd inc body line : forall c c', crel below c c' ->
      rrel srel (for_sem L funs blk left cnd inc body line c) (for_sem L funs blk left cnd inc body line c').
    Proof.
      induction left as [|left IH]; intros c c' Hc; cbn [for_sem];
        (eapply rrel_bind; [apply eval_opt_ins, crel_below_ins, Hc|];
         intros p p' Hp; pose proof (erel_below _ _ _ _ Hc Hp) as Hc1; destruct Hp as (Ev & _); rewrite <- Ev;
         destruct (negb (l_truth L (fst p))); [split; [reflexivity | exact Hc1]|];
         eapply rrel_bind; [apply HBk, Hc1|]; intros r r' [Es Hc2]; rewrite <- Es).
      - unfold cut_off. split; [reflexivity|]. cbn [fst snd]. apply (crel_set_world _ _ (l_limit_note L true line)), Hc2.
      - destruct (fst r); try (split; [reflexivity | exact Hc2]);
          (eapply rrel_bind; [apply HBk, Hc2|]; intros r2 r2' [Es2 Hc3]; rewrite <- Es2;
           destruct (fst r2); try (split; [reflexivity | exact Hc3]); apply IH, Hc3).
    Qed.

    Lemma exec_stmt_ins s c c' : crel below c c' -> rrel srel (exec_stmt L funs blk s c) (exec_stmt L funs blk s c').
    Proof.
      intros Hc. pose proof (crel_below_ins _ _ Hc) as Hi. destruct s; cbn [exec_stmt].
      - destruct Hc as [Hw Hb]. rewrite <- Hw. destruct (l_atom_sem L a (world c)); cbn [rbind rrel]; auto.
        split; [reflexivity | split; [reflexivity | exact Hb]].
      - eapply rrel_bind; [apply eval_args_ins, Hi|]. intros p p' Hp. pose proof (erel_below _ _ _ _ Hc Hp) as Hc1.
        destruct Hp as (Ev & _). rewrite <- Ev. split; [reflexivity|]. cbn [fst snd]. apply (crel_set_world _ _ (l_print_out L line (fst p))), Hc1.
      - eapply rrel_bind; [apply eval_opt_ins, Hi|]. intros p p' Hp. pose proof (erel_below _ _ _ _ Hc Hp) as Hc1.
        destruct Hp as (Ev & _). rewrite <- Ev. split; [reflexivity|]. cbn [fst snd].
        apply crel_bind_val. apply (crel_set_world _ _ (l_decl_note L kind x (fst p))), Hc1.
      - eapply rrel_bind; [apply eval_opt_ins, Hi|]. intros p p' Hp. pose proof (erel_below _ _ _ _ Hc Hp) as Hc1.
        destruct Hp as (Ev & _). rewrite <- Ev. split; [reflexivity|]. cbn [fst snd]. apply crel_bind_val, Hc1.
      - rewrite (lookup_ins x _ _ (proj2 Hi)). destruct (lookup L x (env c)) as [b|].
        + destruct (l_view_of L b); cbn [rrel]; auto. split; [reflexivity | apply crel_bind_val, Hc].
        + split; [reflexivity | apply crel_bind_val, Hc].
      - eapply rrel_bind; [apply eval_opt_ins, Hi|]. intros p p' Hp. pose proof (erel_below _ _ _ _ Hc Hp) as Hc1.
        destruct Hp as (Ev & _). rewrite <- Ev. apply HBk, Hc1.
      - apply while_ins, Hc.
      - eapply rrel_bind; [apply HBk, Hc|]. intros r r' [Es Hc2]. rewrite <- Es.
        destruct (fst r); try (split; [reflexivity | exact Hc2]). apply for_ins, Hc2.
      - split; [reflexivity | exact Hc].
      - split; [reflexivity | exact Hc].
      - destruct e as [e|]; [|split; [reflexivity | exact Hc]].
        eapply rrel_bind; [apply (eval_opt_ins (l_vzero L) (Some e)), Hi|]. intros p p' Hp. pose proof (erel_below _ _ _ _ Hc Hp) as Hc1.
        destruct Hp as (Ev & _). rewrite <- Ev. split; [reflexivity|]. cbn [fst snd]. apply crel_bind_val, Hc1.
      - destruct (funs f) as [fd|]; [|exact I].
        assert (Hp0 : crel ins (push_frame c) (push_frame c')).
        { destruct Hi as [Hw Hi]. split; [exact Hw | cbn [env push_frame set_env]; apply ins_cons, Hi]. }
        eapply rrel_bind; [apply eval_args_ins, Hp0|].
        intros [vs c1] [vs' c1'] (Ev & Hw1 & E1 & E1'). cbn [fst snd] in *. subst vs'.
        eapply rrel_bind; [apply (call_body_ins fd vs c1 c1')|].
        + split; [exact Hw1|]. rewrite E1, E1'. cbn [env push_frame set_env]. apply below_push, Hi.
        + intros [v c2] [v' c2'] (_ & Hw2 & E2 & E2'). cbn [fst snd rrel] in *. split; [reflexivity|]. split; [exact Hw2|].
          cbn [snd]. rewrite E2, E2', E1, E1'. cbn [env push_frame set_env tl]. apply Hc.
    Qed.

    Lemma exec_seq_ins b : forall c c', crel below c c' -> rrel srel (exec_seq L funs blk b c) (exec_seq L funs blk b c').
    Proof.
      induction b as [|s r IH]; intros c c' Hc; cbn [exec_seq].
      - split; [reflexivity | exact Hc].
      - eapply rrel_bind; [apply exec_stmt_ins, Hc|]. intros p p' [Es Hc1]. rewrite <- Es.
        destruct (fst p); try (split; [reflexivity | exact Hc1]). apply IH, Hc1.
    Qed.
  End Level.

  Theorem sem_ins : forall n b c c', crel below c c' -> rrel srel (sem L funs n b c) (sem L funs n b c').
  Proof.
    induction n as [|n IH]; intros b c c' Hc; [exact I|].
    exact (exec_seq_ins (sem L funs n) (sem_tail _ _ _ _ _ _ _ _ L funs n) IH b c c' Hc).
  Qed.

  Definition gmap {A B} (f : A -> B) (r : gres A) : gres B :=
    match r with Fin a => Fin (f a) | Fail e => Fail e | Stuck => Stuck | NoFuel => NoFuel end.

  Lemma erel_push_eq {A} (c : gcfg) (r r' : gres (A * gcfg)) :
    rrel (erel c (push_frame c)) r r' -> r' = gmap (fun p => (fst p, push_frame (snd p))) r.
  Proof.
    destruct r as [[a c1]| | |], r' as [[a' c1']| | |]; cbn [rrel gmap]; intros H; try contradiction; try reflexivity; try (rewrite H; reflexivity).
    destruct H as (Ea & Hw & E1 & E1'). cbn [fst snd] in *. subst a'. f_equal. f_equal.
    destruct c1 as [w1 e1], c1' as [w1' e1']. cbn [world env push_frame set_env] in *. subst. reflexivity.
  Qed.

  (* the arguments of a call are evaluated in the CALLER's frames: evaluating them under the callee's fresh (still empty) frame
     gives, argument by argument, the values and effects they have in the caller's configuration - for any expressions, nested
     calls included.  (All of them are evaluated before the first parameter is bound: see eval / exec_stmt CallS.) *)
  Theorem args_in_caller_frames n args c :
    evals_with (eval L funs (sem L funs n)) args (push_frame c)
    = gmap (fun p => (fst p, push_frame (snd p))) (evals_with (eval L funs (sem L funs n)) args c).
  Proof.
    apply (erel_push_eq c). apply evals_ins.
    - apply Forall_forall. intros x _ c0 c0' H0.
      exact (eval_ins (sem L funs n) (sem_tail _ _ _ _ _ _ _ _ L funs n) (sem_ins n) x c0 c0' H0).
    - split; [reflexivity | apply ins_here].
  Qed.
  Theorem stmt_args_in_caller_frames n args c :
    eval_args L funs (sem L funs n) args (push_frame c)
    = gmap (fun p => (fst p, push_frame (snd p))) (eval_args L funs (sem L funs n) args c).
  Proof.
    apply (erel_push_eq c). apply (eval_args_ins (sem L funs n) (sem_tail _ _ _ _ _ _ _ _ L funs n) (sem_ins n)).
    split; [reflexivity | apply ins_here].
  Qed.
End EmptyFrame.

Section CallValues.
  Variables Name Atom Op Val World Bnd FId Err : Type.
  Variable L : lang Name Atom Op Val World Bnd FId Err.
  Variable funs : FId -> option (fundef Name Atom Op Val FId).

  (* a call binds its parameters to the values the argument expressions have in the caller's configuration (evaluated left to
     right, each in the configuration left by the previous one), whatever the names of the parameters *)
  Theorem call_in_caller_scope n f args (c : cfg Name World Bnd) b id fd vs c1 :
    lookup L f (env c) = Some b -> l_view_of L b = BFun id -> funs id = Some fd ->
    evals_with (eval L funs (sem L funs n)) args c = Fin (vs, c1) ->
    eval L funs (sem L funs n) (ECall f args) c = call_body L (sem L funs n) fd vs (push_frame c1).
  Proof.
    intros H1 H2 H3 H4. apply (call_named _ _ _ _ _ _ _ _ L funs (sem L funs n) f args c b id fd vs (push_frame c1) H1 H2 H3).
    rewrite (args_in_caller_frames _ _ _ _ _ _ _ _ L funs n args c), H4. reflexivity.
  Qed.
  Theorem statement_call_in_caller_scope n id args (c : cfg Name World Bnd) fd vs c1 :
    funs id = Some fd -> eval_args L funs (sem L funs n) args c = Fin (vs, c1) ->
    exec_stmt L funs (sem L funs n) (CallS id args) c
    = rbind (call_body L (sem L funs n) fd vs (push_frame c1)) (fun q => Fin (Normal, snd q)).
  Proof.
    intros H1 H2. apply (statement_call _ _ _ _ _ _ _ _ L funs (sem L funs n) id args c fd vs (push_frame c1) H1).
    rewrite (stmt_args_in_caller_frames _ _ _ _ _ _ _ _ L funs n args c), H2. reflexivity.
  Qed.
End CallValues.

Section CallValue.
  Variables Name Atom Op Val World Bnd FId Err : Type.
  Variable L : lang Name Atom Op Val World Bnd FId Err.
  Variable blk : list (stmt Name Atom Op FId) -> cfg Name World Bnd -> result Err (signal * cfg Name World Bnd).

  (* the value of a call is read in the CALLEE's frame and nowhere else: it is what `Result` is bound to in the frame that is
     dropped when the body has ended - "no value" when that frame does not bind Result, whatever the frames below it
     (the caller's own Result, a global named Result) contain *)
  Theorem call_value_from_callee_frame fd vs (c : cfg Name World Bnd) v c' :
    call_body L blk fd vs c = Fin (v, c') ->
    exists sg c2 fr,
      blk (fd_body fd) (set_env c (ScriptSem.bind_params L (fd_params fd) 0 vs (env c))) = Fin (sg, c2) /\
      env c2 = fr :: env c' /\ world c' = world c2 /\
      match lookup_frame L (l_result_name L) fr with
      | None => v = l_vnone L
      | Some b => l_view_of L b = BVal v
      end.
  Proof.
    unfold call_body. destruct (blk _ _) as [[sg c2]|e| |] eqn:E; cbn [rbind snd]; try discriminate.
    destruct (env c2) as [|fr rest] eqn:Ee; [discriminate|]. intros H. exists sg, c2, fr.
    destruct (lookup_frame L (l_result_name L) fr) as [b|] eqn:El.
    - destruct (l_view_of L b) eqn:Ev; try discriminate. injection H as <- <-. repeat split; auto.
    - injection H as <- <-. repeat split; auto.
  Qed.
  Corollary call_without_result_yields_nothing fd vs (c : cfg Name World Bnd) sg c2 fr rest :
    blk (fd_body fd) (set_env c (ScriptSem.bind_params L (fd_params fd) 0 vs (env c))) = Fin (sg, c2) ->
    env c2 = fr :: rest -> lookup_frame L (l_result_name L) fr = None ->
    call_body L blk fd vs c = Fin (l_vnone L, set_env c2 rest).
  Proof. intros H1 H2 H3. rewrite (call_body_result _ _ _ _ _ _ _ _ L blk fd vs c sg c2 fr rest H1 H2), H3. reflexivity. Qed.
End CallValue.
