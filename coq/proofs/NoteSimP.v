(* C03 - simulation between the token machine of the model (RunCore.step_song / exec_f) and the documented
   semantics (spec/NoteSem.v).  Part 1: the abstraction relation R and the leaf commands. *)
From Coq Require Import Permutation.
From Sakura.Model Require Import Base Cursor Length Event Song Token LoopMachine LexCore RunCore Tie RunRsv.
From Sakura.Spec Require Import LenSpec NoteSem.
From Sakura.Proofs Require Import LengthP IdleP BlockP NoteSimDefs.
Open Scope Z_scope.

(* ------------------------------------------------------------------------------------------------ *)
(* 1. lists                                                                                           *)

Lemma Forall2_upd {A B} (Q : A -> B -> Prop) (f : A -> A) (g : B -> B) (d1 : A) (d2 : B) :
  forall l1 l2 n, Forall2 Q l1 l2 -> Q (f (nth n l1 d1)) (g (nth n l2 d2)) ->
  Forall2 Q (upd_nth n f l1) (upd n g l2).
Proof.
  intros l1 l2 n H. revert n. induction H as [|a b l1 l2 Hab H IH]; intros [|n] Hq; cbn [upd_nth upd nth] in *.
  - constructor. - constructor.
  - constructor; assumption.
  - constructor; [assumption|]. apply IH. exact Hq.
Qed.

Lemma Forall2_upd_l {A B} (Q : A -> B -> Prop) (f : A -> A) (d1 : A) (d2 : B) :
  forall l1 l2 n, Forall2 Q l1 l2 -> Q (f (nth n l1 d1)) (nth n l2 d2) ->
  Forall2 Q (upd_nth n f l1) l2.
Proof.
  intros l1 l2 n H. revert n. induction H as [|a b l1 l2 Hab H IH]; intros [|n] Hq; cbn [upd_nth nth] in *.
  - constructor. - constructor.
  - constructor; assumption.
  - constructor; [assumption|]. apply IH. exact Hq.
Qed.

Lemma Forall2_nth {A B} (Q : A -> B -> Prop) (d1 : A) (d2 : B) :
  forall l1 l2 n, Forall2 Q l1 l2 -> (n < length l1)%nat -> Q (nth n l1 d1) (nth n l2 d2).
Proof.
  intros l1 l2 n H. revert n. induction H as [|a b l1 l2 Hab H IH]; intros [|n] Hn; cbn [length nth] in *; try lia.
  - exact Hab.
  - apply IH. lia.
Qed.

Lemma Forall2_len {A B} (Q : A -> B -> Prop) l1 l2 : Forall2 Q l1 l2 -> length l1 = length l2.
Proof. induction 1; cbn [length]; congruence. Qed.

Lemma upd_length {A} (f : A -> A) l : forall n, length (upd n f l) = length l.
Proof. induction l as [|x r IH]; intros [|n]; cbn [upd length]; try reflexivity. rewrite IH. reflexivity. Qed.

(* ------------------------------------------------------------------------------------------------ *)
(* 2. the relation R                                                                                  *)

Lemma clamp_eq lo hi v : value_range lo v hi = clampz lo hi v.
Proof. reflexivity. Qed.

Lemma R_cur_ok s p : R s p -> cur_ok s.
Proof. intros H. apply H. Qed.

Lemma R_cur s p : R s p -> track_rel (cur_track s) (cur p).
Proof.
  intros (Htr & Hcur & Hlt & _). unfold cur_track, cur. rewrite <- Hcur.
  apply Forall2_nth; assumption.
Qed.

Lemma R_upd_cur s p f g : R s p -> track_rel (f (cur_track s)) (g (cur p)) -> R (upd_cur s f) (with_cur p g).
Proof.
  intros (Htr & Hcur & Hlt & Hrest) Hq. unfold R, upd_cur, with_cur.
  cbn [s_tracks s_set_tracks s_cur s_timebase s_key_flag s_key_shift s_use_key_shift s_v_add s_harmony_flag
       s_harmony_events s_octave_once s_break_flag p_tracks p_cur p_tb p_keyflag p_keyshift p_oct_once].
  split; [|split; [exact Hcur|split; [rewrite upd_nth_length; exact Hlt|exact Hrest]]].
  rewrite <- Hcur. apply (Forall2_upd track_rel f g (track_new 0 0) (tstate_new 0 0)); [exact Htr|].
  unfold cur_track, cur in Hq. rewrite <- Hcur in Hq. exact Hq.
Qed.

Lemma R_upd_cur_l s p f : R s p -> track_rel (f (cur_track s)) (cur p) -> R (upd_cur s f) p.
Proof.
  intros (Htr & Hcur & Hlt & Hrest) Hq. unfold R, upd_cur.
  cbn [s_tracks s_set_tracks s_cur s_timebase s_key_flag s_key_shift s_use_key_shift s_v_add s_harmony_flag
       s_harmony_events s_octave_once s_break_flag].
  split; [|split; [exact Hcur|split; [rewrite upd_nth_length; exact Hlt|exact Hrest]]].
  apply (Forall2_upd_l track_rel f (track_new 0 0) (tstate_new 0 0)); [exact Htr|].
  unfold cur_track, cur in Hq. rewrite <- Hcur in Hq. exact Hq.
Qed.

Lemma R_set_lineno s p ln : R s p -> R (s_set_lineno s ln) p.
Proof. intros H. exact H. Qed.

(* ------------------------------------------------------------------------------------------------ *)
(* 3. lengths and sentinels                                                                           *)

Lemma len_ok (l : olen) tb d : olen_wf l = true -> calc_length (plen l) tb d = match l with Some e => denote tb d e | None => d end.
Proof.
  destruct l as [e|]; cbn [olen_wf plen]; intros H; [apply calc_length_denotes; exact H|reflexivity].
Qed.

Lemma is_base_range b : is_base b = true -> 0 <= b < 12.
Proof.
  unfold is_base. cbn [existsb]. intros H.
  repeat (apply orb_prop in H; destruct H as [H|H]); try discriminate; apply Z.eqb_eq in H; lia.
Qed.

Lemma sent_gate g d : ogate_ok g = true -> (if osent g 0 =? 0 then d else osent g 0) = opt_or g d.
Proof. destruct g as [v|]; cbn [ogate_ok osent opt_or]; [|reflexivity]. intros H. destruct (v =? 0); [discriminate|reflexivity]. Qed.
Lemma sent_gate_n g d : ogate_ok g = true -> (if negb (osent g 0 =? 0) then osent g 0 else d) = opt_or g d.
Proof. destruct g as [v|]; cbn [ogate_ok osent opt_or]; [|reflexivity]. intros H. destruct (v =? 0); [discriminate|reflexivity]. Qed.
Lemma sent_vel_n v d : ovel_ok v = true -> (if osent v (-1) >=? 0 then osent v (-1) else d) = opt_or v d.
Proof.
  destruct v as [x|]; cbn [ovel_ok osent opt_or]; [|reflexivity]. intros H. apply Z.leb_le in H.
  destruct (Z.geb_spec x 0); [reflexivity|lia].
Qed.
Lemma sent_vel v tm o d : ovel_ok v = true -> (negb (is_none v) || (is_none tm && is_none o)) = true ->
  (if vel_sentinel v tm o <? 0 then d else vel_sentinel v tm o) = opt_or v d.
Proof.
  destruct v as [x|]; cbn [ovel_ok vel_sentinel opt_or is_none negb orb].
  - intros H _. apply Z.leb_le in H. destruct (Z.ltb_spec x 0); [lia|reflexivity].
  - intros _ H. destruct tm, o; try discriminate. reflexivity.
Qed.
Lemma sent_timing t d : otiming_ok t = true -> (if osent t ISIZE_MIN =? ISIZE_MIN then d else osent t ISIZE_MIN) = opt_or t d.
Proof. destruct t as [x|]; cbn [otiming_ok osent opt_or]; [|reflexivity]. intros H. destruct (x =? ISIZE_MIN); [discriminate|reflexivity]. Qed.
Lemma sent_timing_n t d : otiming_ok t = true -> (if negb (osent t ISIZE_MIN =? ISIZE_MIN) then osent t ISIZE_MIN else d) = opt_or t d.
Proof. destruct t as [x|]; cbn [otiming_ok osent opt_or]; [|reflexivity]. intros H. destruct (x =? ISIZE_MIN); [discriminate|reflexivity]. Qed.
Lemma sent_oct o d : ooct_ok o = true -> (if osent o (-1) <? 0 then d else osent o (-1)) = match o with Some x => x | None => d end.
Proof.
  destruct o as [x|]; cbn [ooct_ok osent]; [|reflexivity]. intros H. apply Z.leb_le in H.
  destruct (Z.ltb_spec x 0); [lia|reflexivity].
Qed.

(* ------------------------------------------------------------------------------------------------ *)
(* 4. notes of an event list                                                                          *)

Lemma notes_of_app a b : notes_of (a ++ b) = notes_of a ++ notes_of b.
Proof. unfold notes_of. rewrite filter_app, map_app. reflexivity. Qed.

Lemma notes_of_note tm ch no len vel : notes_of [ev_note tm ch no len vel] = [mkNote ch no tm len vel].
Proof. reflexivity. Qed.

Lemma notes_of_voice tm ch v : notes_of [ev_voice tm ch v] = [].
Proof. reflexivity. Qed.

(* ------------------------------------------------------------------------------------------------ *)
(* 5. the note arms in a quiescent state                                                              *)

Lemma exec_note_quiet s base flag natural len qlen vel timing oct :
  cur_ok s -> s_octave_once s = 0 -> s_harmony_flag s = false -> tr_tie_notes (cur_track s) = [] ->
  tr_rsv (cur_track s) = rsv_new ->
  exec_note s base flag natural len qlen vel timing oct 0 =
  let trk := cur_track s in
  let notelen := calc_length len (s_timebase s) (tr_length trk) in
  Ok (upd_cur s (fun t => tr_push_event (tr_set_timepos t (tr_timepos t + notelen))
        (ev_note (tr_timepos trk + (if timing =? ISIZE_MIN then tr_timing trk else timing)) (tr_channel trk)
                 (value_range 0 (note_number s base flag natural oct) 127)
                 (note_len_real notelen (if qlen =? 0 then tr_qlen trk else qlen))
                 (value_range 0 (if vel <? 0 then tr_velocity trk else vel) 127)))).
Proof.
  intros Hc Ho Hh Ht Hi. rewrite (exec_note_idle s _ _ _ _ _ _ _ _ _ Hc Hi). unfold exec_note_plain.
  set (ev := ev_note _ _ _ _ _). set (nl := calc_length len _ _). cbv zeta.
  unfold emit_note_plain.
  set (s1 := upd_cur s (fun t => tr_set_timepos t (tr_timepos t + nl))).
  change (s_octave_once s1) with (s_octave_once s). rewrite Ho. cbn [Z.eqb].
  change (s_harmony_flag s1) with (s_harmony_flag s). rewrite Hh.
  assert (H1 : cur_track s1 = tr_set_timepos (cur_track s) (tr_timepos (cur_track s) + nl))
    by (apply cur_track_upd_cur; exact Hc).
  rewrite H1. cbn [tr_tie_notes tr_set_timepos]. rewrite Ht. cbn [Z.geb Z.compare negb].
  unfold s1. rewrite upd_cur_upd_cur. reflexivity.
Qed.

Ltac proj :=
  cbn [tr_timepos tr_channel tr_length tr_octave tr_velocity tr_qlen tr_timing tr_track_key tr_tie_mode tr_tie_value
       tr_bend_range tr_events tr_tie_notes tr_rsv
       tr_set_timepos tr_set_channel tr_set_length tr_set_octave tr_set_velocity tr_set_qlen tr_set_timing
       tr_set_track_key tr_set_events tr_push_event
       t_pos t_ch t_len t_oct t_vel t_gate t_timing t_key t_notes set_pos set_len set_oct add_note] in *.

(* split track_rel of the current tracks into equations *)
Ltac cur_eqs HR :=
  let H := fresh "Hcr" in
  pose proof (R_cur _ _ HR) as H;
  destruct H as (Epos & Ech & Elen & Eoct & Evel & Egate & Etim & Ekey & Etie & Ersv & Eperm).

Definition leaf_ok (c : cmd) (t : tok) : Prop :=
  forall (ec : list tok -> res song -> res song) (s : song) (p : perf) (f : nat),
    R s p -> exists s', step_song ec t s = Ok s' /\ R s' (NoteSem.sem (S f) c p).

Lemma track_rel_intro tr t :
  tr_timepos tr = t_pos t -> tr_channel tr = t_ch t -> tr_length tr = t_len t -> tr_octave tr = t_oct t ->
  tr_velocity tr = t_vel t -> tr_qlen tr = t_gate t -> tr_timing tr = t_timing t -> tr_track_key tr = t_key t ->
  tr_tie_notes tr = [] -> tr_rsv tr = rsv_new -> Permutation (notes_of (tr_events tr)) (t_notes t) -> track_rel tr t.
Proof. intros. unfold track_rel. repeat split; assumption. Qed.

Lemma step_note base acc natural len gate vel timing oct :
  wf_cmd (CNote base acc natural len gate vel timing oct) = true ->
  leaf_ok (CNote base acc natural len gate vel timing oct)
          (TNote base acc (if natural then 1 else 0) (plen len) (osent gate 0) (vel_sentinel vel timing oct)
                 (osent timing ISIZE_MIN) (osent oct (-1)) 0).
Proof.
  cbn [wf_cmd]. intros Hwf. repeat (apply andb_prop in Hwf; destruct Hwf as [Hwf ?]).
  intros ec s p f HR. cur_eqs HR.
  pose proof HR as (Htr & Hcur & Hlt & Htb & Hkf & Hks & Huk & Hva & Hhf & Hhe & Hoo & Hbf & Hpo).
  cbn [step_song]. rewrite exec_note_quiet by assumption. cbv zeta.
  eexists. split; [reflexivity|]. cbn [NoteSem.sem]. unfold play.
  apply R_upd_cur; [exact HR|]. proj.
  assert (EL : calc_length (plen len) (s_timebase s) (tr_length (cur_track s)) = len_of p len (t_len (cur p))).
  { rewrite len_ok by assumption. unfold len_of. rewrite Htb, Elen. reflexivity. }
  apply track_rel_intro; proj; try assumption.
  - rewrite EL, Epos. reflexivity.
  - rewrite notes_of_app, notes_of_note. apply Permutation_app; [exact Eperm|].
    rewrite EL, sent_gate, sent_timing by assumption. rewrite (sent_vel vel timing oct) by assumption.
    rewrite !clamp_eq, Epos, Ech, Egate, Evel, Etim.
    replace (note_number s base acc (if natural then 1 else 0) (osent oct (-1))) with
      (match oct with Some o => o | None => t_oct (cur p) end * 12 + base + acc
       + (if natural then 0 else keyflag_of p base) + p_keyshift p + t_key (cur p)); [reflexivity|].
    unfold note_number. rewrite Huk, sent_oct by assumption. rewrite Eoct, Hks, Ekey.
    pose proof (is_base_range base ltac:(assumption)) as Hb.
    rewrite (Z.mod_small base 12) by lia.
    unfold key_flag_at, keyflag_of. rewrite Hkf. rewrite (Z.mod_small base 12) by lia.
    destruct natural; reflexivity.
Qed.

Lemma step_note_n no len gate vel timing :
  wf_cmd (CNoteN no len gate vel timing) = true ->
  leaf_ok (CNoteN no len gate vel timing)
          (TNoteN no (plen len) (osent gate 0) (osent vel (-1)) (osent timing ISIZE_MIN) 0).
Proof.
  cbn [wf_cmd]. intros Hwf. repeat (apply andb_prop in Hwf; destruct Hwf as [Hwf ?]).
  intros ec s p f HR. cur_eqs HR.
  pose proof HR as (Htr & Hcur & Hlt & Htb & Hkf & Hks & Huk & Hva & Hhf & Hhe & Hoo & Hbf & Hpo).
  cbn [step_song]. rewrite (exec_note_n_idle s _ _ _ _ _ _ (R_cur_ok s p HR) Ersv). unfold exec_note_n_plain, emit_note_plain.
  eexists. split; [reflexivity|]. cbn [NoteSem.sem]. unfold play.
  apply R_upd_cur; [exact HR|]. proj.
  assert (EL : calc_length (plen len) (s_timebase s) (tr_length (cur_track s)) = len_of p len (t_len (cur p))).
  { rewrite len_ok by assumption. unfold len_of. rewrite Htb, Elen. reflexivity. }
  apply track_rel_intro; proj; try assumption.
  - rewrite EL, Epos. reflexivity.
  - rewrite notes_of_app, notes_of_note. apply Permutation_app; [exact Eperm|].
    rewrite EL, sent_gate_n, sent_timing_n, sent_vel_n by assumption.
    rewrite !clamp_eq, Epos, Ech, Egate, Evel, Etim, Ekey, Hks. reflexivity.
Qed.

(* commands that update one field of the current track *)
Ltac leaf_start :=
  let HR := fresh "HR" in
  intros ec s p f HR; cur_eqs HR;
  pose proof HR as (Htr & Hcur & Hlt & Htb & Hkf & Hks & Huk & Hva & Hhf & Hhe & Hoo & Hbf & Hpo);
  cbn [step_song]; eexists; (split; [reflexivity|]); cbn [NoteSem.sem];
  (apply R_upd_cur; [exact HR|]);
  match goal with Hrs : tr_rsv (cur_track _) = rsv_new |- _ => rewrite ?rsv_clear_idle by exact Hrs end; proj; apply track_rel_intro; proj; try assumption.

Lemma step_rest len : wf_cmd (CRest len) = true -> leaf_ok (CRest len) (TRest 1 (plen len)).
Proof.
  cbn [wf_cmd]. intros Hwf. unfold leaf_ok. leaf_start.
  rewrite len_ok by assumption. unfold len_of. rewrite Htb, Elen, Epos, Z.mul_1_r. reflexivity.
Qed.

Lemma step_len len : wf_cmd (CLen len) = true -> leaf_ok (CLen len) (TLength (plen len)).
Proof.
  cbn [wf_cmd]. intros Hwf. unfold leaf_ok. leaf_start.
  rewrite len_ok by assumption. unfold len_of. rewrite Htb. reflexivity.
Qed.

Lemma step_oct v : leaf_ok (COct v) (TOctave v).
Proof. unfold leaf_ok. leaf_start. reflexivity. Qed.

Lemma step_vel v : leaf_ok (CVel v) (TVelocity v (-1)).
Proof. unfold leaf_ok. leaf_start. reflexivity. Qed.

Lemma step_gate v : leaf_ok (CGate v) (TQLen v).
Proof. unfold leaf_ok. leaf_start. reflexivity. Qed.

Lemma step_timing v : leaf_ok (CTiming v) (TTiming v).
Proof. unfold leaf_ok. leaf_start. reflexivity. Qed.

Lemma step_oct_up : leaf_ok COctUp (TOctaveRel 1).
Proof. unfold leaf_ok. leaf_start. rewrite Eoct. reflexivity. Qed.

Lemma step_oct_down : leaf_ok COctDown (TOctaveRel (-1)).
Proof. unfold leaf_ok. leaf_start. rewrite Eoct. reflexivity. Qed.

Lemma step_vel_up : leaf_ok CVelUp (TVelocityRel 1).
Proof. unfold leaf_ok. leaf_start. rewrite Evel, Hva, Z.mul_1_r. reflexivity. Qed.

Lemma step_vel_down : leaf_ok CVelDown (TVelocityRel (-1)).
Proof. unfold leaf_ok. leaf_start. rewrite Evel, Hva. rewrite clamp_eq. f_equal. Qed.

Lemma step_channel n : leaf_ok (CChannel n) (TChannel n).
Proof. unfold leaf_ok. leaf_start. reflexivity. Qed.

Lemma step_track_key k : leaf_ok (CTrackKey k) (TTrackKey k).
Proof. unfold leaf_ok. leaf_start. reflexivity. Qed.

Lemma step_voice n : leaf_ok (CVoice n) (TVoice [n]).
Proof.
  intros ec s p f HR. cur_eqs HR. cbn [step_song]. eexists. split; [reflexivity|]. cbn [NoteSem.sem].
  unfold exec_voice. apply R_upd_cur_l; [exact HR|]. proj. apply track_rel_intro; proj; try assumption.
  rewrite notes_of_app, notes_of_voice, app_nil_r. exact Eperm.
Qed.

Lemma step_key_flag sharp letters : leaf_ok (CKeyFlag sharp letters) (TKeyFlag (key_flags sharp letters)).
Proof.
  intros ec s p f HR. cbn [step_song]. eexists. split; [reflexivity|]. cbn [NoteSem.sem].
  destruct HR as (Htr & Hcur & Hlt & Htb & Hkf & Hks & Hrest).
  unfold R. cbn [s_tracks s_cur s_timebase s_key_flag s_key_shift s_use_key_shift s_v_add s_harmony_flag
                 s_harmony_events s_octave_once s_break_flag s_set_key_flag
                 p_tracks p_cur p_tb p_keyflag p_keyshift p_oct_once].
  repeat split; try assumption; apply Hrest.
Qed.

Lemma step_key_shift k : leaf_ok (CKeyShift k) (TKeyShift k).
Proof.
  intros ec s p f HR. cbn [step_song]. eexists. split; [reflexivity|]. cbn [NoteSem.sem].
  destruct HR as (Htr & Hcur & Hlt & Htb & Hkf & Hks & Hrest).
  unfold R. cbn [s_tracks s_cur s_timebase s_key_flag s_key_shift s_use_key_shift s_v_add s_harmony_flag
                 s_harmony_events s_octave_once s_break_flag s_set_key_shift
                 p_tracks p_cur p_tb p_keyflag p_keyshift p_oct_once].
  repeat split; try assumption; apply Hrest.
Qed.

(* TR(n): missing tracks are created on both sides with the same defaults *)
Lemma add_grow_tracks tb : forall k l1 l2, Forall2 track_rel l1 l2 ->
  Forall2 track_rel (add_tracks k tb l1) (grow_tracks k tb l2).
Proof.
  induction k as [|k IH]; intros l1 l2 H; [exact H|]. cbn [add_tracks grow_tracks]. apply IH.
  apply Forall2_app; [exact H|]. constructor; [|constructor].
  unfold zlen. rewrite (Forall2_len _ _ _ H).
  apply track_rel_intro; reflexivity.
Qed.

Lemma add_tracks_length tb : forall k l, length (add_tracks k tb l) = (length l + k)%nat.
Proof. induction k as [|k IH]; intros l; cbn [add_tracks]; [lia|]. rewrite IH, app_length. cbn [length]. lia. Qed.

Lemma step_track n : wf_cmd (CTrack n) = true -> leaf_ok (CTrack n) (TTrack n).
Proof.
  cbn [wf_cmd]. intros Hwf. apply andb_prop in Hwf. destruct Hwf as [H0 H9]. apply Z.leb_le in H0, H9.
  intros ec s p f HR. cbn [step_song].
  destruct (Z.ltb_spec n 0); [lia|]. destruct (Z.gtb_spec n 999); [lia|]. cbn [orb].
  eexists. split; [reflexivity|]. cbn [NoteSem.sem].
  destruct HR as (Htr & Hcur & Hlt & Htb & Hkf & Hks & Huk & Hva & Hhf & Hhe & Hoo & Hbf & Hpo).
  unfold change_cur_track, settle_octave_once. rewrite Hoo. cbn [Z.eqb].
  unfold R. cbn [s_tracks s_cur s_timebase s_key_flag s_key_shift s_use_key_shift s_v_add s_harmony_flag
                 s_harmony_events s_octave_once s_break_flag s_set_cur s_set_tracks
                 p_tracks p_cur p_tb p_keyflag p_keyshift p_oct_once].
  rewrite <- Htb, <- (Forall2_len _ _ _ Htr).
  repeat split; try assumption.
  - apply add_grow_tracks. exact Htr.
  - rewrite add_tracks_length. lia.
Qed.
