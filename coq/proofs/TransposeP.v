(* C03: the transposition law (filled in below). *)
From Sakura.Model Require Import Base.
