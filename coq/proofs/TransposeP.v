(* C03: the transposition law.  In the documented semantics (spec/NoteSem.v) a program run with the song's key shift
   raised by g and the track keys of the existing tracks raised by `off i` plays the same notes - same track, channel,
   start, duration, velocity - with every key moved by g + off i (the clamp to 0..127 applied to the moved key),
   provided the program does not itself overwrite what was raised (no KeyShift when g <> 0, no TrackKey when off <> 0).
   n-notes are moved like lettered notes (runner.rs exec_note_n adds track_key and key_shift), on every channel.
   Then the law is carried over to exec() on the tokens by the simulation theorem of NoteExecP.v. *)
From Coq Require Import Permutation.
From Sakura.Model Require Import Base Event Song Token LexCore RunCore Compile.
From Sakura.Spec Require Import LenSpec NoteSem.
From Sakura.Proofs Require Import NoteSimDefs NoteSimP NoteStructP NoteExecP.
From Coq Require Import Lia.
Open Scope Z_scope.

(* ------------------------------------------------------------------------------------------ *)
(* 1. vocabulary                                                                                *)
(* ------------------------------------------------------------------------------------------ *)
(* n' is n moved by d: everything equal but the key; the keys are the clamped forms of x and x + d for one
   unclamped key x *)
Definition transp (d : Z) (n n' : note) : Prop :=
  n_ch n' = n_ch n /\ n_start n' = n_start n /\ n_dur n' = n_dur n /\ n_vel n' = n_vel n /\
  exists x, n_key n = clampz 0 127 x /\ n_key n' = clampz 0 127 (x + d).

(* a note that was not clamped (strictly inside 0..127) moves by exactly d, up to the clamp of the result *)
Lemma transp_inside d n n' : transp d n n' -> 0 < n_key n < 127 -> n_key n' = clampz 0 127 (n_key n + d).
Proof.
  intros (_ & _ & _ & _ & x & E1 & E2) H. rewrite E2. f_equal. f_equal. revert E1 H. unfold clampz.
  destruct (x <? 0) eqn:A; [lia|]. destruct (x >? 127) eqn:B; lia.
Qed.
Lemma transp_exact d n n' : transp d n n' -> 0 < n_key n < 127 -> 0 <= n_key n + d <= 127 -> n_key n' = n_key n + d.
Proof.
  intros T H1 H2. rewrite (transp_inside d n n' T H1). unfold clampz.
  destruct (n_key n + d <? 0) eqn:A; [lia|]. destruct (n_key n + d >? 127) eqn:B; lia.
Qed.

(* programs that do not overwrite the key shift (ks = false) / the track key (tk = false) / that do not use the octave
   otherwise than through the current octave of the track (oc = false: no o > < octave-once marks, no octave written on a
   note, no n-note - an n-note has no octave) *)
Fixpoint keeps3 (ks tk oc : bool) (c : cmd) : bool :=
  let all := forallb (keeps3 ks tk oc) in
  match c with
  | CKeyShift _ => ks
  | CTrackKey _ => tk
  | CNote _ _ _ _ _ _ _ oct => oc || (match oct with None => true | Some _ => false end)
  | CNoteN _ _ _ _ _ | COct _ | COctUp | COctDown | COnce _ _ _ _ _ _ _ _ _ => oc
  | CLoop _ body brk => all body && (match brk with Some b => all b | None => true end)
  | CChord items _ _ _ => all items
  | CTuplet items _ => all items
  | CSub body => all body
  | _ => true
  end.
Definition keeps (ks tk : bool) (c : cmd) : bool := keeps3 ks tk true c.
Definition keeps_prog (ks tk : bool) (l : list cmd) : bool := forallb (keeps ks tk) l.
Definition keeps3_prog (ks tk oc : bool) (l : list cmd) : bool := forallb (keeps3 ks tk oc) l.

Definition notes_tup (p : perf) : list (list (Z * Z * Z * Z * Z)) :=
  map (fun t => map (fun n => (n_ch n, n_key n, n_start n, n_dur n, n_vel n)) (t_notes t)) (p_tracks p).

(* ------------------------------------------------------------------------------------------ *)
(* 2. lists                                                                                     *)
(* ------------------------------------------------------------------------------------------ *)
Lemma nth_upd_other {A} (f : A -> A) (d : A) l : forall n i, i <> n -> nth i (upd n f l) d = nth i l d.
Proof.
  induction l as [|x r IH]; intros [|n] [|i] H; cbn [upd nth]; try reflexivity; try lia.
  apply IH. lia.
Qed.

Lemma grow_tracks_length tb : forall k ts, length (grow_tracks k tb ts) = (length ts + k)%nat.
Proof. induction k as [|k IH]; intros ts; cbn [grow_tracks]; [lia|]. rewrite IH, app_length. cbn [length]. lia. Qed.

(* ------------------------------------------------------------------------------------------ *)
(* 3. the invariant                                                                             *)
(* ------------------------------------------------------------------------------------------ *)
Section Transpose.
Variable g : Z.            (* the song's key shift is raised by g *)
Variable off : nat -> Z.   (* the track key of track i is raised by off i *)
Variable offo : nat -> Z.  (* the octave of track i is raised by offo i *)
Variable olds : nat -> list note.   (* the notes track i held before: they are not moved *)
Variables ks tk oc : bool.
Hypothesis Hks : ks = true -> g = 0.
Hypothesis Htk : tk = true -> forall i, off i = 0.
Hypothesis Hoc : oc = true -> forall i, offo i = 0.
Definition mv (i : nat) : Z := g + off i + 12 * offo i.

Definition d0 : tstate := tstate_new 0 0.

Definition trel (i : nat) (t t' : tstate) : Prop :=
  t_pos t' = t_pos t /\ t_ch t' = t_ch t /\ t_len t' = t_len t /\ t_oct t' = t_oct t + offo i /\ t_vel t' = t_vel t /\
  t_gate t' = t_gate t /\ t_timing t' = t_timing t /\ t_key t' = t_key t + off i /\
  exists nw nw', t_notes t = olds i ++ nw /\ t_notes t' = olds i ++ nw' /\ Forall2 (transp (mv i)) nw nw'.

Definition Trel (ts ts' : list tstate) : Prop :=
  length ts' = length ts /\ forall i, (i < length ts)%nat -> trel i (nth i ts d0) (nth i ts' d0).

Definition Prel (q q' : perf) : Prop :=
  Trel (p_tracks q) (p_tracks q') /\ p_cur q' = p_cur q /\ (p_cur q < length (p_tracks q))%nat /\
  p_tb q' = p_tb q /\ p_keyflag q' = p_keyflag q /\ p_keyshift q' = p_keyshift q + g /\ p_oct_once q' = p_oct_once q /\
  (forall i, (length (p_tracks q) <= i)%nat -> off i = 0 /\ offo i = 0 /\ olds i = []).

Lemma Prel_cur q q' : Prel q q' -> trel (p_cur q) (cur q) (cur q').
Proof. intros ((_ & HT) & Hc & Hlt & _). unfold cur. rewrite Hc. apply HT, Hlt. Qed.

Lemma Prel_with_cur q q' f f' : Prel q q' -> trel (p_cur q) (f (cur q)) (f' (cur q')) -> Prel (with_cur q f) (with_cur q' f').
Proof.
  intros ((HL & HT) & Hc & Hlt & Htb & Hkf & Hs & Ho & Hz) H. unfold Prel, Trel, with_cur.
  cbn [p_tracks p_cur p_tb p_keyflag p_keyshift p_oct_once]. rewrite !upd_length.
  split; [split|repeat (split; [assumption|]); exact Hz].
  - exact HL.
  - intros i Hi. rewrite Hc. destruct (Nat.eq_dec i (p_cur q)) as [->|Hne].
    + rewrite !nth_upd by lia. unfold cur in H. rewrite Hc in H. exact H.
    + rewrite !nth_upd_other by exact Hne. apply HT, Hi.
Qed.

(* the same change of the fields other than the key and the notes *)
Ltac trel_fields H :=
  let E1 := fresh "F" in let E2 := fresh "F" in let E3 := fresh "F" in let E4 := fresh "F" in let E5 := fresh "F" in
  let E6 := fresh "F" in let E7 := fresh "F" in let E8 := fresh "F" in let E9 := fresh "F" in
  destruct H as (E1 & E2 & E3 & E4 & E5 & E6 & E7 & E8 & E9);
  unfold trel; cbn [t_pos t_ch t_len t_oct t_vel t_gate t_timing t_key t_notes set_pos set_len set_oct add_note];
  rewrite ?E1, ?E2, ?E3, ?E4, ?E5, ?E6, ?E7; repeat split; try assumption; try reflexivity.

Ltac add_related x :=
  match goal with F : exists nw nw', _ |- _ =>
    let nw := fresh "nw" in let nw' := fresh "nw'" in let A := fresh "A" in let B := fresh "B" in let FF := fresh "FF" in
    destruct F as (nw & nw' & A & B & FF); rewrite A, B, <- !app_assoc;
    eexists; eexists; split; [reflexivity|split; [reflexivity|]];
    apply Forall2_app; [exact FF|]; constructor; [|constructor];
    unfold transp; cbn [n_ch n_key n_start n_dur n_vel]; repeat split; exists x; split; reflexivity
  end.

Lemma len_of_rel q q' l d : Prel q q' -> len_of q' l d = len_of q l d.
Proof. intros (_ & _ & _ & Htb & _). unfold len_of. rewrite Htb. reflexivity. Qed.
Lemma keyflag_rel q q' b : Prel q q' -> keyflag_of q' b = keyflag_of q b.
Proof. intros (_ & _ & _ & _ & Hkf & _). unfold keyflag_of. rewrite Hkf. reflexivity. Qed.

(* one sounding note *)
Lemma Prel_play q q' x len gate vel timing : Prel q q' ->
  Prel (play q (clampz 0 127 x) len gate vel timing) (play q' (clampz 0 127 (x + mv (p_cur q))) len gate vel timing).
Proof.
  intros H. unfold play. apply Prel_with_cur; [exact H|]. pose proof (Prel_cur q q' H) as C.
  trel_fields C. add_related x.
Qed.
Lemma key_of_rel q q' base acc natural oct : Prel q q' -> oct = None \/ offo (p_cur q) = 0 ->
  exists x, key_of q base acc natural oct = clampz 0 127 x /\
            key_of q' base acc natural oct = clampz 0 127 (x + mv (p_cur q)).
Proof.
  intros H HO. pose proof (Prel_cur q q' H) as C. destruct C as (E1 & E2 & E3 & E4 & E5 & E6 & E7 & E8 & E9).
  destruct H as (_ & _ & _ & _ & Hkf & Hs & _). unfold key_of, keyflag_of, mv. rewrite Hkf, Hs, E8, E4.
  eexists. split; [reflexivity|]. f_equal. destruct HO as [-> | Z0]; [lia|]. rewrite Z0. destruct oct; lia.
Qed.

(* a lettered note *)
Lemma Prel_note q q' base acc natural len gate vel timing oct : Prel q q' -> oct = None \/ offo (p_cur q) = 0 ->
  Prel (play q (key_of q base acc natural oct) (len_of q len (t_len (cur q)))
             (opt_or gate (t_gate (cur q))) (opt_or vel (t_vel (cur q))) (opt_or timing (t_timing (cur q))))
       (play q' (key_of q' base acc natural oct) (len_of q' len (t_len (cur q')))
             (opt_or gate (t_gate (cur q'))) (opt_or vel (t_vel (cur q'))) (opt_or timing (t_timing (cur q')))).
Proof.
  intros H HO. destruct (key_of_rel q q' base acc natural oct H HO) as (x & K1 & K2). rewrite K1, K2.
  pose proof (Prel_cur q q' H) as (E1 & E2 & E3 & E4 & E5 & E6 & E7 & E8 & E9).
  rewrite (len_of_rel q q' _ _ H), E3, E5, E6, E7. apply Prel_play, H.
Qed.

Lemma Prel_repeat (F F' : perf -> perf) : (forall q q', Prel q q' -> Prel (F q) (F' q')) ->
  forall k q q', Prel q q' -> Prel (repeat_fn k F q) (repeat_fn k F' q').
Proof. intros HF. induction k as [|k IH]; intros q q' H; cbn [repeat_fn]; [exact H|]. apply IH, HF, H. Qed.

(* new tracks *)
Lemma Trel_grow tb : forall k ts ts', Trel ts ts' -> (forall i, (length ts <= i)%nat -> off i = 0 /\ offo i = 0 /\ olds i = []) ->
  Trel (grow_tracks k tb ts) (grow_tracks k tb ts').
Proof.
  induction k as [|k IH]; intros ts ts' (HL & HT) Hz; cbn [grow_tracks]; [split; assumption|].
  apply IH.
  - split; [rewrite !app_length, HL; reflexivity|]. intros i Hi. rewrite app_length in Hi. cbn [length] in Hi.
    destruct (Nat.lt_ge_cases i (length ts)) as [Hlt|Hge].
    + rewrite !app_nth1 by lia. apply HT, Hlt.
    + assert (i = length ts) by lia. subst i. rewrite app_nth2 by lia. rewrite (app_nth2 ts') by lia.
      rewrite HL, !Nat.sub_diag. cbn [nth]. unfold trel, tstate_new.
      cbn [t_pos t_ch t_len t_oct t_vel t_gate t_timing t_key t_notes].
      destruct (Hz (length ts) ltac:(lia)) as (Z1 & Z3 & Z2). rewrite Z1, Z2, Z3. repeat split; try reflexivity; try lia.
      exists [], []. repeat split. constructor.
  - intros i Hi. rewrite app_length in Hi. apply Hz. lia.
Qed.

Lemma Prel_sem_prog f : (forall c q q', keeps3 ks tk oc c = true -> Prel q q' -> Prel (NoteSem.sem f c q) (NoteSem.sem f c q')) ->
  forall l q q', keeps3_prog ks tk oc l = true -> Prel q q' -> Prel (sem_prog f l q) (sem_prog f l q').
Proof.
  intros IH. induction l as [|x r IHl]; intros q q' K H; cbn [sem_prog]; [exact H|].
  unfold keeps3_prog in K. cbn [forallb] in K. apply andb_true_iff in K. destruct K as [K1 K2].
  apply IHl; [exact K2|]. apply IH; assumption.
Qed.

Lemma Prel_chord_fold f start l gt vel :
  (forall c q q', keeps3 ks tk oc c = true -> Prel q q' -> Prel (NoteSem.sem f c q) (NoteSem.sem f c q')) ->
  forall items q q', forallb (keeps3 ks tk oc) items = true -> Prel q q' ->
  Prel (fold_left (chord_step f start l gt vel) items q) (fold_left (chord_step f start l gt vel) items q').
Proof.
  intros IH. induction items as [|c items IHi]; intros q q' K H; cbn [fold_left]; [exact H|].
  cbn [forallb] in K. apply andb_true_iff in K. destruct K as [K1 K2].
  apply IHi; [exact K2|]. destruct c; cbn [chord_step]; try exact H.
  - destruct (key_of_rel q q' base acc natural None H (or_introl eq_refl)) as (x & K3 & K4). rewrite K3, K4.
    apply Prel_with_cur; [exact H|]. pose proof (Prel_cur q q' H) as C. trel_fields C. add_related x.
  - apply IH; [exact K1|exact H].
  - apply IH; [exact K1|exact H].
Qed.

Theorem Prel_sem : forall f c q q', keeps3 ks tk oc c = true -> Prel q q' -> Prel (NoteSem.sem f c q) (NoteSem.sem f c q').
Proof.
  induction f as [|f IH]; intros c q q' K H; [exact H|].
  pose proof (Prel_cur q q' H) as C.
  assert (SAME : forall F : tstate -> tstate,
            (forall t t' i, trel i t t' -> trel i (F t) (F t')) -> Prel (with_cur q F) (with_cur q' F)).
  { intros F HF. apply Prel_with_cur; [exact H|]. apply HF, C. }
  destruct c.
  - (* CNote *) cbn [NoteSem.sem]. apply Prel_note; [exact H|]. cbn [keeps3] in K.
    destruct oc eqn:OC; [right; apply Hoc; reflexivity|]. destruct oct; [discriminate K|left; reflexivity].
  - (* CNoteN *) cbn [NoteSem.sem].
    pose proof C as (E1 & E2 & E3 & E4 & E5 & E6 & E7 & E8 & E9). pose proof H as (_ & _ & _ & _ & _ & Hs & _).
    rewrite (len_of_rel q q' _ _ H), E3, E5, E6, E7, E8, Hs. cbn [keeps3] in K.
    replace (no + (t_key (cur q) + off (p_cur q)) + (p_keyshift q + g))
      with (no + t_key (cur q) + p_keyshift q + mv (p_cur q)) by (unfold mv; rewrite (Hoc K); lia).
    apply Prel_play, H.
  - (* CRest *) cbn [NoteSem.sem]. apply Prel_with_cur; [exact H|]. rewrite (len_of_rel q q' _ _ H). trel_fields C.
  - (* CLen *) cbn [NoteSem.sem]. apply Prel_with_cur; [exact H|]. rewrite (len_of_rel q q' _ _ H).
    destruct H as (_ & _ & _ & Htb & _). rewrite Htb. trel_fields C.
  - cbn [NoteSem.sem]. cbn [keeps3] in K. apply SAME. intros t t' i T. pose proof (Hoc K i) as Z0. trel_fields T. rewrite Z0, !Z.add_0_r. reflexivity.
  - cbn [NoteSem.sem]. apply SAME. intros t t' i T. trel_fields T.
  - cbn [NoteSem.sem]. apply SAME. intros t t' i T. trel_fields T.
  - cbn [NoteSem.sem]. apply SAME. intros t t' i T. trel_fields T.
  - cbn [NoteSem.sem]. cbn [keeps3] in K. apply SAME. intros t t' i T. pose proof (Hoc K i) as Z0. trel_fields T. rewrite Z0, !Z.add_0_r. reflexivity.
  - cbn [NoteSem.sem]. cbn [keeps3] in K. apply SAME. intros t t' i T. pose proof (Hoc K i) as Z0. trel_fields T. rewrite Z0, !Z.add_0_r. reflexivity.
  - cbn [NoteSem.sem]. apply SAME. intros t t' i T. trel_fields T.
  - cbn [NoteSem.sem]. apply SAME. intros t t' i T. trel_fields T.
  - (* CLoop *) rewrite !sem_loop. cbn [keeps] in K. apply andb_true_iff in K. destruct K as [K1 K2].
    destruct brk as [b|].
    + apply (Prel_sem_prog f IH); [exact K1|]. apply Prel_repeat; [|exact H].
      intros x x' Hx. apply (Prel_sem_prog f IH); [exact K2|]. apply (Prel_sem_prog f IH); [exact K1|exact Hx].
    + apply Prel_repeat; [|exact H]. intros x x' Hx. apply (Prel_sem_prog f IH); [exact K1|exact Hx].
  - (* CChord *) rewrite !sem_chord. cbn [keeps] in K.
    pose proof C as (E1 & E2 & E3 & E4 & E5 & E6 & E7 & E8 & E9).
    rewrite (len_of_rel q q' _ _ H), E1, E3, E6.
    apply Prel_with_cur.
    + apply Prel_chord_fold; [exact IH|exact K|exact H].
    + assert (H2 := Prel_chord_fold f (t_pos (cur q)) (len_of q len (t_len (cur q))) (opt_or gate (t_gate (cur q))) vel IH items q q' K H).
      pose proof (Prel_cur _ _ H2) as C2. trel_fields C2.
  - (* CTuplet *) rewrite !sem_tuplet. cbn [keeps] in K. cbv zeta.
    pose proof C as (E1 & E2 & E3 & E4 & E5 & E6 & E7 & E8 & E9).
    rewrite (len_of_rel q q' _ _ H), E1, E3.
    set (share := if tuplet_count items >? 0 then Z.quot (len_of q len (t_len (cur q))) (tuplet_count items) else 0).
    assert (H1 : Prel (with_cur q (fun t => set_len t share)) (with_cur q' (fun t => set_len t share))).
    { apply Prel_with_cur; [exact H|]. trel_fields C. }
    assert (H2 := Prel_sem_prog f IH items _ _ K H1).
    apply Prel_with_cur; [exact H2|]. pose proof (Prel_cur _ _ H2) as C2. trel_fields C2.
  - (* CSub *) rewrite !sem_sub. cbn [keeps] in K.
    pose proof C as (E1 & _). rewrite E1.
    assert (H2 := Prel_sem_prog f IH body _ _ K H).
    apply Prel_with_cur; [exact H2|]. pose proof (Prel_cur _ _ H2) as C2. trel_fields C2.
  - (* CTrack *) cbn [NoteSem.sem]. destruct H as ((HL & HT) & Hc & Hlt & Htb & Hkf & Hs & Ho & Hz).
    rewrite HL, Htb. unfold Prel. cbn [p_tracks p_cur p_tb p_keyflag p_keyshift p_oct_once].
    rewrite grow_tracks_length. split; [apply Trel_grow; [split; assumption|exact Hz]|].
    repeat (split; [first [assumption | lia]|]). intros i Hi. apply Hz. lia.
  - (* CChannel *) cbn [NoteSem.sem]. apply SAME. intros t t' i T. trel_fields T.
  - (* CVoice *) exact H.
  - (* CKeyFlag *) cbn [NoteSem.sem]. destruct H as (HT & Hc & Hlt & Htb & Hkf & Hs & Ho & Hz).
    unfold Prel. cbn [p_tracks p_cur p_tb p_keyflag p_keyshift p_oct_once]. split; [exact HT|]. repeat (split; [first [assumption | reflexivity]|]). exact Hz.
  - (* CKeyShift *) cbn [NoteSem.sem]. cbn [keeps] in K. destruct H as (HT & Hc & Hlt & Htb & Hkf & Hs & Ho & Hz).
    unfold Prel. cbn [p_tracks p_cur p_tb p_keyflag p_keyshift p_oct_once]. rewrite (Hks K).
    split; [exact HT|]. repeat (split; [first [assumption | lia]|]). exact Hz.
  - (* CTrackKey *) cbn [NoteSem.sem]. cbn [keeps] in K. apply Prel_with_cur; [exact H|].
    trel_fields C. cbn [t_key]. rewrite (Htk K). lia.
  - (* COnce *) cbn [NoteSem.sem]. cbv zeta. cbn [keeps3] in K. pose proof (Hoc K) as Z0.
    pose proof C as (E1 & E2 & E3 & E4 & E5 & E6 & E7 & E8 & E9). rewrite E4, Z0, Z.add_0_r.
    assert (H1 : Prel (with_cur q (fun t => set_oct t (once_oct marks (t_oct (cur q)))))
                      (with_cur q' (fun t => set_oct t (once_oct marks (t_oct (cur q)))))).
    { apply Prel_with_cur; [exact H|]. trel_fields C. rewrite Z0, Z.add_0_r. reflexivity. }
    assert (H2 := Prel_note _ _ base acc natural len gate vel timing oct H1 (or_intror (Z0 _))).
    apply Prel_with_cur; [exact H2|]. pose proof (Prel_cur _ _ H2) as C2. trel_fields C2. rewrite Z0, Z.add_0_r. reflexivity.
Qed.

Theorem Prel_prog f l q q' : keeps3_prog ks tk oc l = true -> Prel q q' -> Prel (sem_prog f l q) (sem_prog f l q').
Proof. apply Prel_sem_prog. intros c. apply Prel_sem. Qed.
End Transpose.

(* ------------------------------------------------------------------------------------------ *)
(* 4. the fuel of the semantics is immaterial above the nesting depth                           *)
(* ------------------------------------------------------------------------------------------ *)
Lemma prog_depth_app a b : prog_depth (a ++ b) = Nat.max (prog_depth a) (prog_depth b).
Proof. induction a as [|x r IH]; [reflexivity|]. cbn [app]. rewrite !prog_depth_cons, IH. lia. Qed.

Lemma sem_prog_fuel f f' : (forall c p, (depth c <= f)%nat -> (depth c <= f')%nat -> NoteSem.sem f c p = NoteSem.sem f' c p) ->
  forall l p, (prog_depth l <= f)%nat -> (prog_depth l <= f')%nat -> sem_prog f l p = sem_prog f' l p.
Proof.
  intros IH. induction l as [|x r IHl]; intros p H H'; [reflexivity|]. rewrite prog_depth_cons in H, H'.
  cbn [sem_prog]. rewrite (IH x p) by lia. apply IHl; lia.
Qed.

Lemma chord_fold_fuel f f' a b c vel :
  (forall x p, (depth x <= f)%nat -> (depth x <= f')%nat -> NoteSem.sem f x p = NoteSem.sem f' x p) ->
  forall items q, (prog_depth items <= f)%nat -> (prog_depth items <= f')%nat ->
  fold_left (chord_step f a b c vel) items q = fold_left (chord_step f' a b c vel) items q.
Proof.
  intros IH. induction items as [|x r IHr]; intros q Hi Hi'; [reflexivity|]. rewrite prog_depth_cons in Hi, Hi'. cbn [fold_left].
  replace (chord_step f' a b c vel q x) with (chord_step f a b c vel q x).
  - apply IHr; lia.
  - destruct x; try reflexivity; cbn [chord_step]; apply IH; cbn [depth] in *; lia.
Qed.

Theorem sem_fuel : forall f f' c p, (depth c <= f)%nat -> (depth c <= f')%nat -> NoteSem.sem f c p = NoteSem.sem f' c p.
Proof.
  induction f as [|f IH]; intros f' c p H H'; [pose proof (depth_pos c); lia|].
  destruct f' as [|f']; [pose proof (depth_pos c); lia|].
  assert (PF : forall l q, (prog_depth l <= f)%nat -> (prog_depth l <= f')%nat -> sem_prog f l q = sem_prog f' l q).
  { apply sem_prog_fuel. intros c0 p0. apply IH. }
  destruct c; try reflexivity.
  - (* CLoop *) rewrite depth_loop in H, H'. rewrite !sem_loop. destruct brk as [b|].
    + rewrite (PF body) by lia. f_equal. apply repeat_fn_ext. intros x. rewrite (PF body), (PF b) by lia. reflexivity.
    + apply repeat_fn_ext. intros x. apply PF; lia.
  - (* CChord *) rewrite depth_chord in H, H'. rewrite !sem_chord. f_equal.
    apply chord_fold_fuel; [intros c0 p0; apply IH|lia|lia].
  - (* CTuplet *) rewrite depth_tuplet in H, H'. rewrite !sem_tuplet. cbv zeta. rewrite (PF items) by lia. reflexivity.
  - (* CSub *) rewrite depth_sub in H, H'. rewrite !sem_sub. rewrite (PF body) by lia. reflexivity.
Qed.

Theorem sem_prog_fuel_any f f' l p : (prog_depth l <= f)%nat -> (prog_depth l <= f')%nat -> sem_prog f l p = sem_prog f' l p.
Proof. apply sem_prog_fuel. intros c q. apply sem_fuel. Qed.

Lemma denote_prog_fuel l f : (prog_depth l <= f)%nat -> denote_prog l = sem_prog f l perf0.
Proof. intros H. unfold denote_prog. apply sem_prog_fuel_any; lia. Qed.

(* ------------------------------------------------------------------------------------------ *)
(* 5. the laws                                                                                  *)
(* ------------------------------------------------------------------------------------------ *)
Definition valid (q : perf) : Prop := (p_cur q < length (p_tracks q))%nat.
Definition olds_of (q : perf) (i : nat) : list note := t_notes (nth i (p_tracks q) d0).

(* P and P' are two continuations of q: on every track they added the same notes to those of q, the keys of track i
   moved by d i *)
Definition moved_after (q : perf) (d : nat -> Z) (P P' : perf) : Prop :=
  length (p_tracks P') = length (p_tracks P) /\
  forall i, (i < length (p_tracks P))%nat ->
    exists nw nw', t_notes (nth i (p_tracks P) d0) = olds_of q i ++ nw /\
                   t_notes (nth i (p_tracks P') d0) = olds_of q i ++ nw' /\
                   Forall2 (transp (d i)) nw nw'.
(* all that is not a key is equal: current track, time base, key signature, and per track pointer, channel, l o v q t *)
Definition same_but_keys (P P' : perf) : Prop :=
  p_cur P' = p_cur P /\ p_tb P' = p_tb P /\ p_keyflag P' = p_keyflag P /\
  Forall2 (fun t t' => t_pos t' = t_pos t /\ t_ch t' = t_ch t /\ t_len t' = t_len t /\ t_oct t' = t_oct t /\
                       t_vel t' = t_vel t /\ t_gate t' = t_gate t /\ t_timing t' = t_timing t) (p_tracks P) (p_tracks P').

Lemma Forall2_of_nth {A B} (Q : A -> B -> Prop) (da : A) (db : B) : forall l l', length l' = length l ->
  (forall i, (i < length l)%nat -> Q (nth i l da) (nth i l' db)) -> Forall2 Q l l'.
Proof.
  induction l as [|x r IH]; intros [|y r'] HL H; cbn [length] in HL; try discriminate; constructor.
  - apply (H O). cbn [length]. lia.
  - apply IH; [lia|]. intros i Hi. apply (H (S i)). cbn [length]. lia.
Qed.

Lemma Prel_moved g off offo olds q P P' : (forall i, olds i = olds_of q i) ->
  Prel g off offo olds P P' -> moved_after q (fun i => g + off i + 12 * offo i) P P' /\ valid P.
Proof.
  intros Ho ((HL & HT) & Hc & Hlt & Htb & Hkf & Hs & Hoo & Hz). split.
  - split; [exact HL|]. intros i Hi. destruct (HT i Hi) as (_ & _ & _ & _ & _ & _ & _ & _ & N). rewrite <- Ho. exact N.
  - exact Hlt.
Qed.
Lemma Prel_same g off olds P P' : Prel g off (fun _ => 0) olds P P' -> same_but_keys P P'.
Proof.
  intros ((HL & HT) & Hc & Hlt & Htb & Hkf & Hs & Hoo & Hz).
  repeat split; try assumption. apply (Forall2_of_nth _ d0 d0); [exact HL|]. intros i Hi.
  destruct (HT i Hi) as (E1 & E2 & E3 & E4 & E5 & E6 & E7 & _). rewrite Z.add_0_r in E4. repeat split; assumption.
Qed.

Lemma olds_of_beyond q i : (length (p_tracks q) <= i)%nat -> olds_of q i = [].
Proof. intros H. unfold olds_of. rewrite nth_overflow by exact H. reflexivity. Qed.

Lemma trel_same g olds i t : olds i = t_notes t -> trel g (fun _ => 0) (fun _ => 0) olds i t t.
Proof. intros H. unfold trel. repeat split; try lia. exists [], []. rewrite H, app_nil_r. repeat split. constructor. Qed.

Lemma Prel_refl q : valid q -> Prel 0 (fun _ => 0) (fun _ => 0) (olds_of q) q q.
Proof.
  intros V. unfold Prel, Trel.
  split; [split; [reflexivity | intros i Hi; apply trel_same; reflexivity] |].
  repeat (split; [first [reflexivity | lia | exact V]|]). apply olds_of_beyond. assumption.
Qed.

Lemma keeps_tt : forall c, keeps3 true true true c = true.
Proof.
  apply cmd_children_ind. intros c IH.
  assert (A : forall l, (forall x, In x l -> In x (children c)) -> forallb (keeps3 true true true) l = true).
  { intros l Hl. apply forallb_forall. intros x Hx. apply IH, Hl, Hx. }
  destruct c; cbn [keeps3]; try reflexivity.
  - rewrite (A body) by (intros x Hx; cbn [children]; apply in_or_app; left; exact Hx).
    destruct brk as [b|]; [|reflexivity]. apply A. intros x Hx. cbn [children]. apply in_or_app. right. exact Hx.
  - apply A. intros x Hx. exact Hx.
  - apply A. intros x Hx. exact Hx.
  - apply A. intros x Hx. exact Hx.
Qed.
Lemma keeps_prog_tt l : keeps3_prog true true true l = true.
Proof. apply forallb_forall. intros x _. apply keeps_tt. Qed.

Lemma perf0_valid : valid perf0.
Proof. unfold valid. cbn. lia. Qed.
(* every state the semantics reaches has its current track *)
Theorem sem_prog_valid f l q : valid q -> valid (sem_prog f l q).
Proof.
  intros V. assert (H := Prel_prog 0 (fun _ => 0) (fun _ => 0) (olds_of q) true true true (fun _ => eq_refl) (fun _ _ => eq_refl)
                           (fun _ _ => eq_refl) f l q q (keeps_prog_tt l) (Prel_refl q V)).
  apply H.
Qed.

(* ---- KeyShift ---- *)
Lemma Prel_keyshift_start f q a k : valid q ->
  Prel k (fun _ => 0) (fun _ => 0) (olds_of q) (NoteSem.sem (S f) (CKeyShift a) q) (NoteSem.sem (S f) (CKeyShift (a + k)) q).
Proof.
  intros V. cbn [NoteSem.sem]. unfold Prel, Trel. cbn [p_tracks p_cur p_tb p_keyflag p_keyshift p_oct_once].
  split; [split; [reflexivity | intros i Hi; apply trel_same; reflexivity] |].
  repeat (split; [first [reflexivity | lia | exact V]|]). apply olds_of_beyond. assumption.
Qed.

Theorem keyshift_law_from f q p a k : valid q -> keeps_prog false true p = true ->
  let P := sem_prog (S f) (CKeyShift a :: p) q in
  let P' := sem_prog (S f) (CKeyShift (a + k) :: p) q in
  moved_after q (fun _ => k) P P' /\ same_but_keys P P'.
Proof.
  intros V K P P'. unfold P, P'. cbn [sem_prog].
  assert (H := Prel_prog k (fun _ => 0) (fun _ => 0) (olds_of q) false true true (fun E => ltac:(discriminate E)) (fun _ _ => eq_refl)
                         (fun _ _ => eq_refl) (S f) p _ _ K (Prel_keyshift_start f q a k V)).
  destruct (Prel_moved k (fun _ => 0) (fun _ => 0) (olds_of q) q _ _ (fun _ => eq_refl) H) as (M & _).
  split; [|exact (Prel_same _ _ _ _ _ H)]. destruct M as (ML & MT). split; [exact ML|]. intros i Hi. destruct (MT i Hi) as (nw & nw' & A & B & F).
  exists nw, nw'. repeat split; try assumption. replace k with (k + 0 + 12 * 0) by lia. exact F.
Qed.

(* ---- TrackKey ---- *)
Definition only_track (c : nat) (k : Z) (i : nat) : Z := if Nat.eqb i c then k else 0.

Lemma Prel_trackkey_start f q a k : valid q ->
  Prel 0 (only_track (p_cur q) k) (fun _ => 0) (olds_of q) (NoteSem.sem (S f) (CTrackKey a) q) (NoteSem.sem (S f) (CTrackKey (a + k)) q).
Proof.
  intros V. cbn [NoteSem.sem]. unfold Prel, Trel, with_cur. cbn [p_tracks p_cur p_tb p_keyflag p_keyshift p_oct_once].
  unfold valid in V. split; [split; [rewrite !upd_length; reflexivity|] |].
  - intros i Hi. rewrite upd_length in Hi.
    destruct (Nat.eq_dec i (p_cur q)) as [->|Hne].
    + rewrite !nth_upd by lia. unfold trel, only_track. rewrite Nat.eqb_refl.
      cbn [t_pos t_ch t_len t_oct t_vel t_gate t_timing t_key t_notes].
      repeat split; try lia. exists [], []. rewrite app_nil_r. repeat split. constructor.
    + rewrite !nth_upd_other by exact Hne.
      unfold trel, only_track. rewrite (proj2 (Nat.eqb_neq _ _) Hne).
      repeat split; try lia. exists [], []. rewrite app_nil_r. repeat split. constructor.
  - rewrite !upd_length. repeat (split; [first [reflexivity | lia]|]). intros i Hi. split.
    + unfold only_track. rewrite (proj2 (Nat.eqb_neq i (p_cur q))) by lia. reflexivity.
    + split; [reflexivity | apply olds_of_beyond, Hi].
Qed.

Theorem trackkey_law_from f q p a k : valid q -> keeps_prog true false p = true ->
  let P := sem_prog (S f) (CTrackKey a :: p) q in
  let P' := sem_prog (S f) (CTrackKey (a + k) :: p) q in
  moved_after q (only_track (p_cur q) k) P P' /\ same_but_keys P P'.
Proof.
  intros V K P P'. unfold P, P'. cbn [sem_prog].
  assert (H := Prel_prog 0 (only_track (p_cur q) k) (fun _ => 0) (olds_of q) true false true (fun _ => eq_refl) (fun E => ltac:(discriminate E))
                         (fun _ _ => eq_refl) (S f) p _ _ K (Prel_trackkey_start f q a k V)).
  destruct (Prel_moved 0 (only_track (p_cur q) k) (fun _ => 0) (olds_of q) q _ _ (fun _ => eq_refl) H) as (M & _).
  split; [|exact (Prel_same _ _ _ _ _ H)]. destruct M as (ML & MT). split; [exact ML|]. intros i Hi. destruct (MT i Hi) as (nw & nw' & A & B & F).
  exists nw, nw'. repeat split; try assumption. replace (only_track (p_cur q) k i) with (0 + only_track (p_cur q) k i + 12 * 0) by lia. exact F.
Qed.

(* ---- on whole programs: the commands before the shift are a prefix `pre` ---- *)
Lemma depth_same_shape pre c c' p : depth c = depth c' -> prog_depth (pre ++ c :: p) = prog_depth (pre ++ c' :: p).
Proof. intros H. rewrite !prog_depth_app, !prog_depth_cons, H. reflexivity. Qed.

Lemma denote_split pre c p : exists f, (prog_depth (pre ++ c :: p) <= S f)%nat /\
  denote_prog (pre ++ c :: p) = sem_prog (S f) (c :: p) (sem_prog (S f) pre perf0) /\ denote_prog pre = sem_prog (S f) pre perf0.
Proof.
  exists (prog_depth (pre ++ c :: p)). split; [lia|]. split.
  - rewrite <- sem_prog_app. reflexivity.
  - apply denote_prog_fuel. rewrite prog_depth_app. lia.
Qed.

Theorem denote_valid l : valid (denote_prog l).
Proof. apply sem_prog_valid, perf0_valid. Qed.

Theorem keyshift_law pre p a k : keeps_prog false true p = true ->
  let P := denote_prog (pre ++ CKeyShift a :: p) in
  let P' := denote_prog (pre ++ CKeyShift (a + k) :: p) in
  moved_after (denote_prog pre) (fun _ => k) P P' /\ same_but_keys P P'.
Proof.
  intros K P P'. destruct (denote_split pre (CKeyShift a) p) as (f & Hf & E1 & E0).
  assert (E2 : P' = sem_prog (S f) (CKeyShift (a + k) :: p) (sem_prog (S f) pre perf0)).
  { unfold P'. rewrite <- sem_prog_app. apply denote_prog_fuel.
    rewrite (depth_same_shape pre (CKeyShift (a + k)) (CKeyShift a) p eq_refl). exact Hf. }
  unfold P. rewrite E1, E2, E0. apply keyshift_law_from; [|exact K]. apply sem_prog_valid, perf0_valid.
Qed.

Theorem trackkey_law pre p a k : keeps_prog true false p = true ->
  let P := denote_prog (pre ++ CTrackKey a :: p) in
  let P' := denote_prog (pre ++ CTrackKey (a + k) :: p) in
  moved_after (denote_prog pre) (only_track (p_cur (denote_prog pre)) k) P P' /\ same_but_keys P P'.
Proof.
  intros K P P'. destruct (denote_split pre (CTrackKey a) p) as (f & Hf & E1 & E0).
  assert (E2 : P' = sem_prog (S f) (CTrackKey (a + k) :: p) (sem_prog (S f) pre perf0)).
  { unfold P'. rewrite <- sem_prog_app. apply denote_prog_fuel.
    rewrite (depth_same_shape pre (CTrackKey (a + k)) (CTrackKey a) p eq_refl). exact Hf. }
  unfold P. rewrite E1, E2, E0. apply trackkey_law_from; [|exact K]. apply sem_prog_valid, perf0_valid.
Qed.

(* a move by 0 is no move *)
Lemma transp_zero n n' : transp 0 n n' -> n' = n.
Proof.
  intros (E1 & E2 & E3 & E4 & x & K1 & K2). rewrite Z.add_0_r, <- K1 in K2.
  destruct n as [c1 k1 s1 u1 v1], n' as [c2 k2 s2 u2 v2]. cbn [n_ch n_key n_start n_dur n_vel] in *. congruence.
Qed.
Lemma moved_zero nw nw' : Forall2 (transp 0) nw nw' -> nw' = nw.
Proof. induction 1 as [|n n' l l' T _ IH]; [reflexivity|]. rewrite (transp_zero n n' T), IH. reflexivity. Qed.

(* the tracks other than the one TrackKey was given on are not touched *)
Theorem trackkey_law_others pre p a k : keeps_prog true false p = true ->
  let P := denote_prog (pre ++ CTrackKey a :: p) in
  let P' := denote_prog (pre ++ CTrackKey (a + k) :: p) in
  forall i, i <> p_cur (denote_prog pre) -> t_notes (nth i (p_tracks P') d0) = t_notes (nth i (p_tracks P) d0).
Proof.
  intros K P P' i Hi. destruct (trackkey_law pre p a k K) as ((HL & HT) & _). fold P P' in HL, HT.
  destruct (Nat.lt_ge_cases i (length (p_tracks P))) as [Hlt|Hge].
  - destruct (HT i Hlt) as (nw & nw' & A & B & F). unfold only_track in F. rewrite (proj2 (Nat.eqb_neq _ _) Hi) in F.
    rewrite A, B, (moved_zero nw nw' F). reflexivity.
  - rewrite !nth_overflow by lia. reflexivity.
Qed.

(* ---- from the start: KeyShift(k) in front of a program ---- *)
Lemma denote_keyshift0 p : denote_prog (CKeyShift 0 :: p) = denote_prog p.
Proof.
  rewrite (denote_prog_fuel (CKeyShift 0 :: p) (S (prog_depth (CKeyShift 0 :: p)))) by lia.
  rewrite (denote_prog_fuel p (S (prog_depth (CKeyShift 0 :: p)))) by (rewrite prog_depth_cons; lia).
  reflexivity.
Qed.

Definition tracks_moved (k : Z) (P P' : perf) : Prop :=
  Forall2 (fun t t' => Forall2 (transp k) (t_notes t) (t_notes t')) (p_tracks P) (p_tracks P').

Theorem keyshift_law0 p k : keeps_prog false true p = true ->
  tracks_moved k (denote_prog p) (denote_prog (CKeyShift k :: p)) /\ same_but_keys (denote_prog p) (denote_prog (CKeyShift k :: p)).
Proof.
  intros K. destruct (keyshift_law [] p 0 k K) as ((HL & HT) & S). cbn [app Z.add] in HL, HT, S. rewrite denote_keyshift0 in HL, HT, S.
  split; [|exact S]. unfold tracks_moved. apply (Forall2_of_nth _ d0 d0); [exact HL|]. intros i Hi.
  destruct (HT i Hi) as (nw & nw' & A & B & F). rewrite A, B.
  assert (O : olds_of (denote_prog []) i = []) by (unfold olds_of; destruct i as [|[|i]]; reflexivity).
  rewrite O. exact F.
Qed.

(* ------------------------------------------------------------------------------------------ *)
(* 6. on the machine: exec() on the tokens                                                      *)
(* ------------------------------------------------------------------------------------------ *)
(* the notes of the events of two runs, per track: up to the order inside a track (a chord is written last note first)
   they are the same notes with the keys moved by k *)
Definition events_moved (k : Z) (s s' : song) : Prop :=
  Forall2 (fun tr tr' => exists l l', Permutation (notes_of (tr_events tr)) l /\ Permutation (notes_of (tr_events tr')) l' /\
                                      Forall2 (transp k) l l') (s_tracks s) (s_tracks s').

Lemma Forall2_compose3 {A B} (Q1 : A -> B -> Prop) (Q2 : B -> B -> Prop) (Q : A -> A -> Prop) :
  (forall a b a' b', Q1 a b -> Q1 a' b' -> Q2 b b' -> Q a a') ->
  forall l m l' m', Forall2 Q1 l m -> Forall2 Q1 l' m' -> Forall2 Q2 m m' -> Forall2 Q l l'.
Proof.
  intros HQ l m l' m' H1. revert l' m'. induction H1 as [|a b l m Hab H1 IH]; intros l' m' H2 H3.
  - inversion H3; subst. inversion H2; subst. constructor.
  - inversion H3 as [|b0 b' m0 m'0 Hb H3' E1 E2]; subst. inversion H2 as [|a' b'0 l'0 m'1 Ha' H2' E1 E2]; subst.
    constructor; [exact (HQ a b a' b' Hab Ha' Hb)|]. apply (IH l'0 m'0 H2' H3').
Qed.

Theorem keyshift_exec p k : wf_prog p = true -> keeps_prog false true p = true ->
  let p' := CKeyShift k :: p in
  exists s s',
    exec_f (S (prog_depth p)) (fuel_of p) (top_tokens p) (Ok song_new) = Ok s /\
    exec_f (S (prog_depth p')) (fuel_of p') (top_tokens p') (Ok song_new) = Ok s' /\
    events_moved k s s'.
Proof.
  intros W K p'.
  assert (W' : wf_prog p' = true) by (unfold p', wf_prog; cbn [forallb wf_cmd]; exact W).
  destruct (notes_simulation p W) as (s & E & N). destruct (notes_simulation p' W') as (s' & E' & N').
  exists s, s'. split; [exact E|]. split; [exact E'|].
  destruct (keyshift_law0 p k K) as (M & _). unfold tracks_moved in M. fold p' in M.
  unfold events_moved. refine (Forall2_compose3 _ _ _ _ _ _ _ _ N N' M).
  intros tr t tr' t' P1 P2 F. exists (t_notes t), (t_notes t'). repeat split; assumption.
Qed.

(* the general form: the shift anywhere in the program; the simulation relation R ties both machine states to the two
   denotations, and the law relates the denotations *)
Theorem keyshift_exec_at pre p a k : wf_prog pre = true -> wf_prog p = true -> keeps_prog false true p = true ->
  let X := pre ++ CKeyShift a :: p in
  let X' := pre ++ CKeyShift (a + k) :: p in
  exists s s',
    exec_f (S (prog_depth X)) (fuel_of X) (top_tokens X) (Ok song_new) = Ok s /\ R s (denote_prog X) /\
    exec_f (S (prog_depth X')) (fuel_of X') (top_tokens X') (Ok song_new) = Ok s' /\ R s' (denote_prog X') /\
    moved_after (denote_prog pre) (fun _ => k) (denote_prog X) (denote_prog X') /\ same_but_keys (denote_prog X) (denote_prog X').
Proof.
  intros W1 W2 K X X'.
  assert (WX : forall c, wf_cmd c = true -> wf_prog (pre ++ c :: p) = true).
  { intros c Hc. unfold wf_prog. rewrite forallb_app. cbn [forallb]. unfold wf_prog in W1, W2. rewrite W1, W2, Hc. reflexivity. }
  destruct (exec_simulation_top X (WX (CKeyShift a) eq_refl) song_new (prog_depth X) (fuel_of X) R_init (le_n _) (le_n _)) as (s & E & HR).
  destruct (exec_simulation_top X' (WX (CKeyShift (a + k)) eq_refl) song_new (prog_depth X') (fuel_of X') R_init (le_n _) (le_n _)) as (s' & E' & HR').
  exists s, s'. destruct (keyshift_law pre p a k K) as (M & S). exact (conj E (conj HR (conj E' (conj HR' (conj M S))))).
Qed.

Theorem trackkey_exec_at pre p a k : wf_prog pre = true -> wf_prog p = true -> keeps_prog true false p = true ->
  let X := pre ++ CTrackKey a :: p in
  let X' := pre ++ CTrackKey (a + k) :: p in
  exists s s',
    exec_f (S (prog_depth X)) (fuel_of X) (top_tokens X) (Ok song_new) = Ok s /\ R s (denote_prog X) /\
    exec_f (S (prog_depth X')) (fuel_of X') (top_tokens X') (Ok song_new) = Ok s' /\ R s' (denote_prog X') /\
    moved_after (denote_prog pre) (only_track (p_cur (denote_prog pre)) k) (denote_prog X) (denote_prog X') /\
    same_but_keys (denote_prog X) (denote_prog X').
Proof.
  intros W1 W2 K X X'.
  assert (WX : forall c, wf_cmd c = true -> wf_prog (pre ++ c :: p) = true).
  { intros c Hc. unfold wf_prog. rewrite forallb_app. cbn [forallb]. unfold wf_prog in W1, W2. rewrite W1, W2, Hc. reflexivity. }
  destruct (exec_simulation_top X (WX (CTrackKey a) eq_refl) song_new (prog_depth X) (fuel_of X) R_init (le_n _) (le_n _)) as (s & E & HR).
  destruct (exec_simulation_top X' (WX (CTrackKey (a + k)) eq_refl) song_new (prog_depth X') (fuel_of X') R_init (le_n _) (le_n _)) as (s' & E' & HR').
  exists s, s'. destruct (trackkey_law pre p a k K) as (M & S). exact (conj E (conj HR (conj E' (conj HR' (conj M S))))).
Qed.

(* ---- the forms stated in props/C03.v ---- *)
Theorem transp_exact_all d n n' : transp d n n' -> 0 < n_key n < 127 -> 0 <= n_key n + d <= 127 ->
  n_key n' = n_key n + d /\ n_ch n' = n_ch n /\ n_start n' = n_start n /\ n_dur n' = n_dur n /\ n_vel n' = n_vel n.
Proof.
  intros T H1 H2. split; [exact (transp_exact d n n' T H1 H2)|]. destruct T as (A & B & C & D & _). tauto.
Qed.

Theorem trackkey_law_full pre p a k : keeps_prog true false p = true ->
  let P := denote_prog (pre ++ CTrackKey a :: p) in
  let P' := denote_prog (pre ++ CTrackKey (a + k) :: p) in
  moved_after (denote_prog pre) (only_track (p_cur (denote_prog pre)) k) P P' /\ same_but_keys P P' /\
  forall i, i <> p_cur (denote_prog pre) -> t_notes (nth i (p_tracks P') d0) = t_notes (nth i (p_tracks P) d0).
Proof.
  intros K. destruct (trackkey_law pre p a k K) as (M & S).
  exact (conj M (conj S (trackkey_law_others pre p a k K))).
Qed.

(* ------------------------------------------------------------------------------------------ *)
(* 7. the octave: where a change of octave is a transposition                                   *)
(* ------------------------------------------------------------------------------------------ *)
(* On the track it is given on, o(a + j) instead of o(a) moves the notes played from there on by 12 j - for programs
   that use the octave only through the track's current octave: no o, no > <, no octave-once marks, no octave written on
   a note, no n-notes (keeps3 _ _ false).  Both octaves must be in 0..10 (o clamps).  Other tracks - also those created
   later, which start at o5 - are not touched. *)
Lemma clampz_id lo hi v : lo <= v <= hi -> clampz lo hi v = v.
Proof. intros H. unfold clampz. destruct (v <? lo) eqn:A; [lia|]. destruct (v >? hi) eqn:B; lia. Qed.

Lemma Prel_oct_start f q a j : valid q -> 0 <= a <= 10 -> 0 <= a + j <= 10 ->
  Prel 0 (fun _ => 0) (only_track (p_cur q) j) (olds_of q) (NoteSem.sem (S f) (COct a) q) (NoteSem.sem (S f) (COct (a + j)) q).
Proof.
  intros V Ha Haj. cbn [NoteSem.sem]. unfold Prel, Trel, with_cur. cbn [p_tracks p_cur p_tb p_keyflag p_keyshift p_oct_once].
  rewrite !(clampz_id 0 10) by assumption.
  unfold valid in V. split; [split; [rewrite !upd_length; reflexivity|] |].
  - intros i Hi. rewrite upd_length in Hi.
    destruct (Nat.eq_dec i (p_cur q)) as [->|Hne].
    + rewrite !nth_upd by lia. unfold trel, only_track, mv. rewrite Nat.eqb_refl.
      cbn [t_pos t_ch t_len t_oct t_vel t_gate t_timing t_key t_notes set_oct].
      repeat split; try lia. exists [], []. rewrite app_nil_r. repeat split. constructor.
    + rewrite !nth_upd_other by exact Hne.
      unfold trel, only_track, mv. rewrite (proj2 (Nat.eqb_neq _ _) Hne).
      repeat split; try lia. exists [], []. rewrite app_nil_r. repeat split. constructor.
  - rewrite !upd_length. do 6 (split; [first [reflexivity | lia]|]). intros i Hi. split; [reflexivity|]. split.
    + unfold only_track. rewrite (proj2 (Nat.eqb_neq i (p_cur q))) by lia. reflexivity.
    + apply olds_of_beyond, Hi.
Qed.

Theorem octave_law_from f q p a j : valid q -> 0 <= a <= 10 -> 0 <= a + j <= 10 -> keeps3_prog true true false p = true ->
  moved_after q (only_track (p_cur q) (12 * j)) (sem_prog (S f) (COct a :: p) q) (sem_prog (S f) (COct (a + j) :: p) q).
Proof.
  intros V Ha Haj K. cbn [sem_prog].
  assert (H := Prel_prog 0 (fun _ => 0) (only_track (p_cur q) j) (olds_of q) true true false (fun _ => eq_refl) (fun _ _ => eq_refl)
                         (fun E => ltac:(discriminate E)) (S f) p _ _ K (Prel_oct_start f q a j V Ha Haj)).
  destruct (Prel_moved 0 (fun _ => 0) (only_track (p_cur q) j) (olds_of q) q _ _ (fun _ => eq_refl) H) as ((ML & MT) & _).
  split; [exact ML|]. intros i Hi. destruct (MT i Hi) as (nw & nw' & A & B & F).
  exists nw, nw'. repeat split; try assumption.
  replace (only_track (p_cur q) (12 * j) i) with (0 + 0 + 12 * only_track (p_cur q) j i); [exact F|].
  unfold only_track. destruct (Nat.eqb i (p_cur q)); lia.
Qed.

Theorem octave_law pre p a j : 0 <= a <= 10 -> 0 <= a + j <= 10 -> keeps3_prog true true false p = true ->
  moved_after (denote_prog pre) (only_track (p_cur (denote_prog pre)) (12 * j))
              (denote_prog (pre ++ COct a :: p)) (denote_prog (pre ++ COct (a + j) :: p)).
Proof.
  intros Ha Haj K. destruct (denote_split pre (COct a) p) as (f & Hf & E1 & E0).
  assert (E2 : denote_prog (pre ++ COct (a + j) :: p) = sem_prog (S f) (COct (a + j) :: p) (sem_prog (S f) pre perf0)).
  { rewrite <- sem_prog_app. apply denote_prog_fuel.
    rewrite (depth_same_shape pre (COct (a + j)) (COct a) p eq_refl). exact Hf. }
  rewrite E1, E2, E0. apply octave_law_from; try assumption. apply sem_prog_valid, perf0_valid.
Qed.

(* on the machine *)
Theorem octave_exec_at pre p a j : wf_prog pre = true -> wf_prog p = true -> 0 <= a <= 10 -> 0 <= a + j <= 10 ->
  keeps3_prog true true false p = true ->
  let X := pre ++ COct a :: p in
  let X' := pre ++ COct (a + j) :: p in
  exists s s',
    exec_f (S (prog_depth X)) (fuel_of X) (top_tokens X) (Ok song_new) = Ok s /\ R s (denote_prog X) /\
    exec_f (S (prog_depth X')) (fuel_of X') (top_tokens X') (Ok song_new) = Ok s' /\ R s' (denote_prog X') /\
    moved_after (denote_prog pre) (only_track (p_cur (denote_prog pre)) (12 * j)) (denote_prog X) (denote_prog X').
Proof.
  intros W1 W2 Ha Haj K X X'.
  assert (WX : forall c, wf_cmd c = true -> wf_prog (pre ++ c :: p) = true).
  { intros c Hc. unfold wf_prog. rewrite forallb_app. cbn [forallb]. unfold wf_prog in W1, W2. rewrite W1, W2, Hc. reflexivity. }
  destruct (exec_simulation_top X (WX (COct a) eq_refl) song_new (prog_depth X) (fuel_of X) R_init (le_n _) (le_n _)) as (s & E & HR).
  destruct (exec_simulation_top X' (WX (COct (a + j)) eq_refl) song_new (prog_depth X') (fuel_of X') R_init (le_n _) (le_n _)) as (s' & E' & HR').
  exists s, s'. exact (conj E (conj HR (conj E' (conj HR' (octave_law pre p a j Ha Haj K))))).
Qed.
