(* C05 / C07 / C19 - the interpreter of the model is monotone in both fuels: an answer of exec_f other than OutOfFuel is the
   answer for every larger nesting fuel and every larger step fuel. *)
From Coq Require Import String.
From Sakura.Model Require Import Base Cursor Length Event Song Token LoopMachine LexCore RunCore Compile.
From Sakura.Spec Require Import LoopSpec.
From Sakura.Proofs Require Import LoopP BlockP ExtP.
From Coq Require Import Lia.
Open Scope list_scope.
Open Scope Z_scope.

(* ---- the machine: replacing the step function by one that agrees with it wherever the result is good, when bad states
        are halted (hence final) ---- *)
Section MachineExt.
  Context {D St : Type} (step1 step2 : D -> St -> St) (halted : St -> bool) (cnt : Z -> St -> nat) (good : St -> Prop).
  Hypothesis bad_halted : forall s, ~ good s -> halted s = true.
  Hypothesis agree : forall d s, good (step1 d s) -> step2 d s = step1 d s.
  Hypothesis good_dec : forall s, good s \/ ~ good s.

  Lemma mrun_halted toks : forall fuel c, halted (st St c) = true -> (0 < fuel)%nat ->
    mrun D St step1 halted cnt fuel toks c = Some c.
  Proof.
    intros fuel c H F. destruct fuel as [|f]; [lia|]. cbn [mrun].
    unfold mstep. destruct (nth_error toks (pos St c)); [rewrite H|]; reflexivity.
  Qed.

  Lemma mrun_ext toks : forall fuel c c', mrun D St step1 halted cnt fuel toks c = Some c' -> good (st St c') ->
    mrun D St step2 halted cnt fuel toks c = Some c'.
  Proof.
    induction fuel as [|f IH]; intros c c' H G; [discriminate H|]. cbn [mrun] in H |- *.
    unfold mstep in *. destruct (nth_error toks (pos St c)) as [t|]; [|exact H].
    destruct (halted (st St c)); [exact H|].
    destruct t as [n| | |d]; try (destruct (mstep D St step2 halted cnt toks c); exact H || fail); try exact (IH _ _ H G).
    - destruct (stack St c) as [|it rest]; [exact (IH _ _ H G)|].
      destruct (Nat.leb (count it) (S (index it))); [|exact (IH _ _ H G)].
      match goal with |- context [Nat.ltb 0 ?e] => destruct (Nat.ltb 0 e) end; exact (IH _ _ H G).
    - destruct (stack St c) as [|it rest]; [exact (IH _ _ H G)|].
      match goal with |- context [Nat.ltb ?a ?b] => destruct (Nat.ltb a b) end; exact (IH _ _ H G).
    - destruct (good_dec (step1 d (st St c))) as [Gs|Bs].
      + rewrite (agree d _ Gs). exact (IH _ _ H G).
      + exfalso. destruct f as [|f]; [discriminate H|].
        rewrite (mrun_halted toks (S f) (mkCfg St (S (pos St c)) (stack St c) (step1 d (st St c))) (bad_halted _ Bs) ltac:(lia)) in H.
        injection H as <-. exact (Bs G).
  Qed.

  Lemma run_ext toks fuel s s' : run D St step1 halted cnt fuel toks s = Some s' -> good s' ->
    run D St step2 halted cnt fuel toks s = Some s'.
  Proof.
    unfold run. destruct (mrun D St step1 halted cnt fuel toks (mkCfg St 0 [] s)) as [c|] eqn:E; [|discriminate].
    intros H G. injection H as <-. rewrite (mrun_ext toks fuel _ c E G). reflexivity.
  Qed.
End MachineExt.

(* ---- the arms that run children ---- *)
Definition nfuel {A} (r : res A) : Prop := r <> OutOfFuel.
Definition agrees (ec1 ec2 : list tok -> res song -> res song) : Prop :=
  forall X r, nfuel (ec1 X r) -> ec2 X r = ec1 X r.

Lemma bind_nfuel {A B} (r : res A) (k : A -> res B) : nfuel (bind r k) -> nfuel r.
Proof. intros H E. apply H. rewrite E. reflexivity. Qed.

Lemma play_parts_ext ec1 ec2 ln sp : agrees ec1 ec2 -> forall args i s last,
  nfuel (play_parts ec1 ln sp args i s last) -> play_parts ec2 ln sp args i s last = play_parts ec1 ln sp args i s last.
Proof.
  intros Ha. induction args as [|a r IH]; intros i s last H; [reflexivity|]. cbn [play_parts] in H |- *.
  destruct (lex _ _ _) as [[toks ls']| | |]; cbn [bind] in H |- *; try reflexivity.
  assert (H1 : nfuel (ec1 toks (Ok (song_with_ls (upd_cur (change_cur_track s i) (fun t => tr_set_timepos t sp)) ls')))).
  { exact (bind_nfuel _ _ H). }
  rewrite (Ha _ _ H1). destruct (ec1 toks _) as [s3| | |]; cbn [bind] in H |- *; try reflexivity. apply IH, H.
Qed.

Lemma step_song_ext ec1 ec2 : agrees ec1 ec2 -> forall t s,
  nfuel (step_song ec1 t s) -> step_song ec2 t s = step_song ec1 t s.
Proof.
  intros Ha t s H. destruct t; cbn [step_song] in H |- *; try reflexivity.
  - (* TDiv *) pose proof (bind_nfuel _ _ H) as H1. rewrite (Ha _ _ H1). reflexivity.
  - (* TSub *) pose proof (bind_nfuel _ _ H) as H1. rewrite (Ha _ _ H1). reflexivity.
  - (* TValue *)
    match goal with |- bind ?x _ = _ => destruct x as [[body s1]| | |] end; cbn [bind] in H |- *; try reflexivity.
    destruct (lex _ _ _) as [[toks ls']| | |]; cbn [bind] in H |- *; try reflexivity. apply Ha, H.
  - (* TPlay *)
    unfold exec_play in *. destruct (_ || _); [reflexivity|].
    pose proof (bind_nfuel _ _ H) as H1. rewrite (play_parts_ext ec1 ec2 _ _ Ha _ _ _ _ H1). reflexivity.
Qed.

Lemma step_tok_ext ec1 ec2 : agrees ec1 ec2 -> forall t r, nfuel (step_tok ec1 t r) -> step_tok ec2 t r = step_tok ec1 t r.
Proof. intros Ha t r H. destruct r as [s| | |]; cbn [step_tok bind] in *; try reflexivity. apply step_song_ext; assumption. Qed.

(* ---- exec_f ---- *)
Lemma nfuel_dec (r : res song) : nfuel r \/ ~ nfuel r.
Proof. destruct r; [left|left|right|left]; unfold nfuel; try discriminate. intros H. apply H. reflexivity. Qed.
Lemma bad_is_halted (r : res song) : ~ nfuel r -> halted r = true.
Proof. destruct r; intros H; try reflexivity. exfalso. apply H. discriminate. Qed.

Theorem exec_f_mono : forall d steps toks r,
  nfuel (exec_f d steps toks r) -> forall d' steps', (d <= d')%nat -> (steps <= steps')%nat ->
  exec_f d' steps' toks r = exec_f d steps toks r.
Proof.
  induction d as [|d IH]; intros steps toks r H d' steps' Hd Hs; [exfalso; apply H; reflexivity|].
  destruct d' as [|d']; [lia|]. cbn [exec_f] in H |- *.
  destruct (run tok (res song) (step_tok (exec_f d steps)) halted count_of steps (map to_ltok toks) r) as [X|] eqn:E;
    [|exfalso; apply H; reflexivity].
  pose proof (run_mono tok (res song) _ halted count_of _ _ _ _ E steps' Hs) as E'.
  assert (Ha : agrees (exec_f d steps) (exec_f d' steps')).
  { intros Y r0 H0. apply (IH steps Y r0 H0); lia. }
  rewrite (run_ext (step_tok (exec_f d steps)) (step_tok (exec_f d' steps')) halted count_of nfuel bad_is_halted
             (step_tok_ext _ _ Ha) nfuel_dec _ _ _ _ E' H).
  reflexivity.
Qed.

(* ---- End / END at the level of compile: the text after the word plays no role ---- *)
From Sakura.Gen Require Import VarRows.
From Sakura.Proofs Require Import LayoutP TermP LocalityP LogExecP.
Theorem after_end_compile its0 p t lsA lnA hA accA lsB lnB hB accB :
  forallb litem_ok its0 = true -> forallb is_layout its0 = true ->
  lex_pre (print_items its0 ++ print_cprog p ++ zs "End" ++ t) = false -> lex_pre (print_items its0 ++ print_cprog p ++ zs "End") = false ->
  (forall f, runs f (mkLex 96 [] init_vars rhythm_rows false) (0 + items_lines its0) false ([TLineNo 0] ++ items_toks 0 its0) p (zs "End" ++ t) lsA lnA hA accA) ->
  (forall f, runs f (mkLex 96 [] init_vars rhythm_rows false) (0 + items_lines its0) false ([TLineNo 0] ++ items_toks 0 its0) p (zs "End") lsB lnB hB accB) ->
  compile (print_items its0 ++ print_cprog p ++ zs "End") <> OutOfFuel ->
  compile (print_items its0 ++ print_cprog p ++ zs "End" ++ t) = compile (print_items its0 ++ print_cprog p ++ zs "End").
Proof.
  intros H0 L0 N1 N2 RA RB NF.
  destruct (after_end_lex its0 p t _ 0 lsA lnA hA accA lsB lnB hB accB H0 L0 N1 N2 RA RB) as [E1 E2].
  unfold compile, compile_lang in *. unfold run_source, run_source_lang in *. rewrite E1. rewrite E2 in NF |- *. cbn [bind] in NF |- *.
  set (A := print_items its0 ++ print_cprog p ++ zs "End" ++ t). set (B := print_items its0 ++ print_cprog p ++ zs "End") in *.
  assert (HL : (S (length B) <= S (length A))%nat).
  { unfold A, B. rewrite !app_length. lia. }
  assert (HN : nfuel (exec_f (S (length B)) STEPS accA (Ok (song_after_lex lsA)))).
  { intros E. apply NF. rewrite E. reflexivity. }
  rewrite (exec_f_mono _ _ _ _ HN (S (length A)) STEPS HL (le_n _)). reflexivity.
Qed.

Example end_compile_example :
  compile (zs "c d;End [ x { FUNCTION F(){ } TR(") = compile (zs "c d;End") /\
  exists bytes log, compile (zs "c d;End") = Ok (bytes, log).
Proof.
  assert (RA : exists lsA lnA hA accA, forall f, runs f (mkLex 96 [] init_vars rhythm_rows false) (0 + items_lines []) false ([TLineNo 0] ++ items_toks 0 []) end_prog (zs "End" ++ end_tail) lsA lnA hA accA).
  { do 4 eexists. intros f. unfold end_prog. runs_tac. }
  assert (RB : exists lsB lnB hB accB, forall f, runs f (mkLex 96 [] init_vars rhythm_rows false) (0 + items_lines []) false ([TLineNo 0] ++ items_toks 0 []) end_prog (zs "End") lsB lnB hB accB).
  { do 4 eexists. intros f. unfold end_prog. runs_tac. }
  destruct RA as (lsA & lnA & hA & accA & RA). destruct RB as (lsB & lnB & hB & accB & RB).
  assert (V : exists bytes log, compile (zs "c d;End") = Ok (bytes, log)) by (vm_compute; do 2 eexists; reflexivity).
  split; [|exact V].
  apply (after_end_compile [] end_prog end_tail lsA lnA hA accA lsB lnB hB accB eq_refl eq_refl
           ltac:(vm_compute; reflexivity) ltac:(vm_compute; reflexivity) RA RB).
  destruct V as (b & l & V). change (print_items [] ++ print_cprog end_prog ++ zs "End") with (zs "c d;End") . rewrite V. discriminate.
Qed.
