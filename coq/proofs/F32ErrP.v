(* Rational-valued reading of the binary32 operations of model/F32.v: each operation returns a finite
   value within half a unit in the last place of the exact result (no overflow in the stated ranges). *)
From Coq Require Import ZArith QArith Qabs Qpower Lia Lqa Bool.
From Sakura.Model Require Import F32.
From Sakura.Proofs Require Import F32RoundP.
Open Scope Q_scope.

Local Notation fexp32 := (fexp 24 128).

Definition pow2 (e : Z) : Q := (2 # 1) ^ e.

Lemma pow2_pos e : 0 < pow2 e.
Proof. apply Qpower_0_lt. reflexivity. Qed.
Lemma pow2_add a b : pow2 (a + b) == pow2 a * pow2 b.
Proof. apply Qpower_plus. intro H. discriminate H. Qed.
Lemma pow2_Z k : (0 <= k)%Z -> pow2 k == inject_Z (2 ^ k).
Proof. intros Hk. unfold pow2. rewrite Zpower_Qpower by assumption. reflexivity. Qed.
Lemma pow2_0 : pow2 0 == 1.
Proof. reflexivity. Qed.
Lemma pow2_ge1 k : (0 <= k)%Z -> 1 <= pow2 k.
Proof.
  intros Hk. rewrite pow2_Z by assumption. change 1 with (inject_Z 1). rewrite <- Zle_Qle.
  assert (0 < 2 ^ k)%Z by (apply Z.pow_pos_nonneg; lia). lia.
Qed.
Lemma pow2_le a b : (a <= b)%Z -> pow2 a <= pow2 b.
Proof.
  intros Hab. replace b with (a + (b - a))%Z by lia. rewrite pow2_add.
  pose proof (pow2_pos a). pose proof (pow2_ge1 (b - a) ltac:(lia)). nra.
Qed.
Lemma pow2_lt_inv a b : pow2 a < pow2 b -> (a < b)%Z.
Proof.
  intros H. destruct (Z_lt_le_dec a b) as [|Hle]; [assumption|exfalso].
  pose proof (pow2_le b a Hle). lra.
Qed.
Lemma pow2_half e : pow2 (e - 1) * 2 == pow2 e.
Proof. replace e with ((e - 1) + 1)%Z at 2 by lia. rewrite pow2_add. reflexivity. Qed.

Definition sgn (s : bool) (v : Q) : Q := if s then - v else v.
Definition SFv (x : spec_float) : Q :=
  match x with S754_finite s m e => sgn s (inject_Z (Z.pos m) * pow2 e) | _ => 0 end.
Definition is_fin (x : spec_float) : Prop :=
  match x with S754_finite _ _ _ | S754_zero _ => True | _ => False end.
Definition near (v x err : Q) : Prop := - err <= v - x <= err.

Lemma pack_val s m1 e1 : (0 <= m1 <= 2 ^ 24)%Z -> (e1 <= 103)%Z ->
  is_fin (pack s m1 e1) /\ SFv (pack s m1 e1) == sgn s (inject_Z m1 * pow2 e1).
Proof.
  intros Hm He. unfold pack. destruct m1 as [|p|p]; [| |lia].
  - split; [exact I|]. cbn [SFv]. destruct s; cbn [sgn]; ring.
  - destruct (Z.ltb_spec (Z.pos p) (2 ^ 24)) as [Hlt|Hge].
    + assert (E : (e1 <=? 104)%Z = true) by (apply Z.leb_le; lia). rewrite E. split; [exact I|reflexivity].
    + assert (E : (e1 + 1 <=? 104)%Z = true) by (apply Z.leb_le; lia). rewrite E. split; [exact I|].
      assert (Ep : Z.pos p = 16777216%Z) by (change (2 ^ 24)%Z with 16777216%Z in *; lia). rewrite Ep.
      cbn [SFv]. pose proof (pow2_add e1 1) as Hp. change (pow2 1) with (2 # 1) in Hp.
      change (inject_Z 8388608) with (8388608 # 1). change (inject_Z 16777216) with (16777216 # 1).
      destruct s; cbn [sgn]; rewrite Hp; ring.
Qed.

Ltac qz H := repeat (first [rewrite inject_Z_mult in H | rewrite inject_Z_plus in H | rewrite inject_Z_opp in H]).

(* from the integer statement of bra_spec to the rational one *)
Lemma err_Q (n d K m1 e : Z) (x : Q) : (0 < d)%Z -> (0 <= K)%Z -> x * inject_Z d == inject_Z n ->
  (2 * Z.abs (m1 * (d * 2 ^ K) - n) <= d * 2 ^ K)%Z ->
  near (inject_Z m1 * pow2 (e + K)) (x * pow2 e) (pow2 (e + K - 1)).
Proof.
  intros Hd HK Hx H.
  assert (H1 : (- (d * 2 ^ K) <= 2 * (m1 * (d * 2 ^ K) - n))%Z) by lia.
  assert (H2 : (2 * (m1 * (d * 2 ^ K) - n) <= d * 2 ^ K)%Z) by lia.
  rewrite Zle_Qle in H1, H2. unfold Z.sub in H1, H2. qz H1. qz H2.
  rewrite <- (pow2_Z K HK) in H1, H2. rewrite <- Hx in H1. rewrite <- Hx in H2.
  assert (HD : 0 < inject_Z d) by (change 0 with (inject_Z 0); rewrite <- Zlt_Qlt; assumption).
  pose proof (pow2_pos K) as HP. pose proof (pow2_pos e) as Ha.
  change (inject_Z 2) with (2 # 1) in H1, H2.
  set (D := inject_Z d) in *. set (P := pow2 K) in *. set (M := inject_Z m1) in *. set (a := pow2 e) in *.
  assert (G1 : - P <= 2 * (M * P - x)) by nra.
  assert (G2 : 2 * (M * P - x) <= P) by nra.
  unfold near. pose proof (pow2_half (e + K)) as Hh. rewrite pow2_add in Hh. fold a P in Hh.
  rewrite pow2_add. fold a P. split; nra.
Qed.

Lemma inject_Z_pos_lt z : (0 < z)%Z -> 0 < inject_Z z.
Proof. intros H. change 0 with (inject_Z 0). rewrite <- Zlt_Qlt. assumption. Qed.
Lemma inject_Z_nonneg z : (0 <= z)%Z -> 0 <= inject_Z z.
Proof. intros H. change 0 with (inject_Z 0). rewrite <- Zle_Qle. assumption. Qed.

(* the rounding exponent is bounded through the magnitude of the value *)
Lemma fexp_dg mx ex B : (0 <= mx)%Z -> inject_Z mx * pow2 ex < pow2 B ->
  (fexp32 (Zdigits2 mx + ex) <= Z.max ex (fexp32 B))%Z.
Proof.
  intros Hmx Hlt. destruct (Z.eq_dec mx 0) as [->|Hne].
  - cbn [Zdigits2]. rewrite !fexp32_eq. lia.
  - destruct (Zdigits2_bounds mx ltac:(lia)) as [Hlo _].
    assert (Hdg : (0 < Zdigits2 mx)%Z) by (destruct mx; cbn [Zdigits2]; lia).
    rewrite Zle_Qle in Hlo. rewrite <- pow2_Z in Hlo by lia.
    assert (Hlt2 : pow2 (Zdigits2 mx - 1 + ex) < pow2 B).
    { rewrite pow2_add. pose proof (pow2_pos ex). nra. }
    apply pow2_lt_inv in Hlt2. rewrite !fexp32_eq. lia.
Qed.

Theorem bra_Q s n d ex (x : Q) B : (0 <= n)%Z -> (0 < d)%Z -> x * inject_Z d == inject_Z n ->
  x * pow2 ex < pow2 B -> (ex <= fexp32 B)%Z -> (fexp32 B <= 103)%Z ->
  exists v, 0 <= v /\ is_fin (binary_round_aux 24 128 s (n / d) ex (loc_of n d)) /\
    SFv (binary_round_aux 24 128 s (n / d) ex (loc_of n d)) == sgn s v /\
    near v (x * pow2 ex) (pow2 (fexp32 B - 1)).
Proof.
  intros Hn Hd Hx Hlt Hex HB.
  destruct (bra_spec s n d ex Hn Hd) as [m1 [Hm1 [Herr Heq]]].
  set (e1 := Z.max ex (fexp32 (Zdigits2 (n / d) + ex))) in *.
  assert (HD : 0 < inject_Z d) by (apply inject_Z_pos_lt; assumption).
  assert (Hq : (0 <= n / d)%Z) by (apply Z.div_pos; lia).
  assert (Hqx : inject_Z (n / d) <= x).
  { assert (Hle : (d * (n / d) <= n)%Z) by (apply Z.mul_div_le; lia).
    rewrite Zle_Qle in Hle. rewrite inject_Z_mult in Hle. rewrite <- Hx in Hle. nra. }
  assert (He1 : (e1 <= fexp32 B)%Z).
  { assert (Hlt' : inject_Z (n / d) * pow2 ex < pow2 B) by (pose proof (pow2_pos ex); nra).
    pose proof (fexp_dg (n / d) ex B Hq Hlt'). unfold e1. lia. }
  destruct (pack_val s m1 e1 Hm1 ltac:(lia)) as [Hfin Hval].
  exists (inject_Z m1 * pow2 e1). rewrite Heq. split; [|split; [exact Hfin|split; [exact Hval|]]].
  - pose proof (pow2_pos e1). pose proof (inject_Z_nonneg m1 ltac:(lia)). nra.
  - assert (HK : (0 <= e1 - ex)%Z) by (unfold e1; lia).
    pose proof (err_Q n d (e1 - ex) m1 ex x Hd HK Hx Herr) as Hnear.
    replace (ex + (e1 - ex))%Z with e1 in Hnear by lia.
    pose proof (pow2_le (e1 - 1) (fexp32 B - 1) ltac:(lia)). unfold near in *. lra.
Qed.

Theorem bra_exact_Q s mx ex B : (0 <= mx)%Z -> inject_Z mx * pow2 ex < pow2 B -> (ex <= 103)%Z -> (fexp32 B <= 103)%Z ->
  exists v, 0 <= v /\ is_fin (binary_round_aux 24 128 s mx ex loc_Exact) /\
    SFv (binary_round_aux 24 128 s mx ex loc_Exact) == sgn s v /\
    near v (inject_Z mx * pow2 ex) (pow2 (fexp32 B - 1)) /\
    ((fexp32 (Zdigits2 mx + ex) <= ex)%Z -> v == inject_Z mx * pow2 ex).
Proof.
  intros Hmx Hlt Hex HB.
  destruct (bra_spec s mx 1 ex Hmx ltac:(lia)) as [m1 [Hm1 [Herr Heq]]].
  rewrite Z.div_1_r in *. assert (Eloc : loc_of mx 1 = loc_Exact) by (unfold loc_of; rewrite Z.mod_1_r; reflexivity).
  rewrite Eloc in Heq.
  set (e1 := Z.max ex (fexp32 (Zdigits2 mx + ex))) in *.
  pose proof (fexp_dg mx ex B Hmx Hlt) as Hfd.
  assert (He1 : (e1 <= Z.max ex (fexp32 B))%Z) by (unfold e1; lia).
  destruct (pack_val s m1 e1 Hm1 ltac:(lia)) as [Hfin Hval].
  exists (inject_Z m1 * pow2 e1). rewrite Heq. split; [|split; [exact Hfin|split; [exact Hval|]]].
  - pose proof (pow2_pos e1). pose proof (inject_Z_nonneg m1 ltac:(lia)). nra.
  - assert (Hexact : e1 = ex -> inject_Z m1 * pow2 e1 == inject_Z mx * pow2 ex).
    { intros E. rewrite E in Herr. rewrite Z.sub_diag in Herr. change (2 ^ 0)%Z with 1%Z in Herr.
      assert (m1 = mx) by lia. subst m1. rewrite E. reflexivity. }
    pose proof (pow2_pos (fexp32 B - 1)) as Hpp.
    split.
    + destruct (Z.eq_dec e1 ex) as [E|NE].
      * pose proof (Hexact E) as HE. unfold near. lra.
      * assert (HK : (0 <= e1 - ex)%Z) by (unfold e1; lia).
        assert (Hx1 : inject_Z mx * inject_Z 1 == inject_Z mx) by (change (inject_Z 1) with 1; ring).
        pose proof (err_Q mx 1 (e1 - ex) m1 ex (inject_Z mx) ltac:(lia) HK Hx1 Herr) as Hnear.
        replace (ex + (e1 - ex))%Z with e1 in Hnear by lia.
        pose proof (pow2_le (e1 - 1) (fexp32 B - 1) ltac:(unfold e1 in *; lia)). unfold near in *. lra.
    + intros Hle. apply Hexact. unfold e1 in *. lia.
Qed.

Theorem bround_Q s m ex B : inject_Z (Z.pos m) * pow2 ex < pow2 B -> (ex <= 103)%Z -> (fexp32 B <= 103)%Z ->
  exists v, 0 <= v /\ is_fin (binary_round 24 128 s m ex) /\ SFv (binary_round 24 128 s m ex) == sgn s v /\
    near v (inject_Z (Z.pos m) * pow2 ex) (pow2 (fexp32 B - 1)) /\
    ((fexp32 B <= ex)%Z -> v == inject_Z (Z.pos m) * pow2 ex).
Proof.
  intros Hlt Hex HB. unfold binary_round.
  pose proof (shl_align_spec m ex (fexp32 (Z.pos (digits2_pos m) + ex))) as Hsa.
  destruct (shl_align m ex (fexp32 (Z.pos (digits2_pos m) + ex))) as [mz ez]. destruct Hsa as [Hez Hmz].
  change (Z.pos (digits2_pos m)) with (Zdigits2 (Z.pos m)) in Hez.
  set (mu := (Zdigits2 (Z.pos m) + ex)%Z) in *.
  assert (Hd : (0 <= ex - ez)%Z) by lia.
  assert (HX : inject_Z (Z.pos mz) * pow2 ez == inject_Z (Z.pos m) * pow2 ex).
  { rewrite Hmz, inject_Z_mult. rewrite <- (pow2_Z _ Hd). rewrite <- Qmult_assoc. rewrite <- pow2_add.
    replace (ex - ez + ez)%Z with ex by lia. reflexivity. }
  assert (Hlt' : inject_Z (Z.pos mz) * pow2 ez < pow2 B) by (rewrite HX; assumption).
  destruct (bra_exact_Q s (Z.pos mz) ez B ltac:(lia) Hlt' ltac:(lia) HB) as [v [Hv0 [Hfin [Hval [Hnear Hexact]]]]].
  exists v. split; [assumption|]. split; [assumption|]. split; [assumption|]. split.
  - unfold near in *. rewrite <- HX. assumption.
  - intros Hle. rewrite <- HX. apply Hexact.
    rewrite Hmz. rewrite Zdigits2_shift by lia.
    replace (Zdigits2 (Z.pos m) + (ex - ez) + ez)%Z with mu by (unfold mu; lia).
    pose proof (fexp_dg (Z.pos m) ex B ltac:(lia) Hlt) as Hfd. fold mu in Hfd. lia.
Qed.

(* ---- the operations of model/F32.v ---- *)
Lemma pos_ge1 m : 1 <= inject_Z (Z.pos m).
Proof. change 1 with (inject_Z 1). rewrite <- Zle_Qle. lia. Qed.

Lemma fin_exp s m e B : - pow2 B < SFv (S754_finite s m e) < pow2 B -> (e < B)%Z.
Proof.
  intros [H1 H2]. cbn [SFv] in *. apply pow2_lt_inv.
  pose proof (pos_ge1 m). pose proof (pow2_pos e). destruct s; cbn [sgn] in *; nra.
Qed.

Theorem of_Z_exact z : (Z.abs z < 2 ^ 24)%Z -> is_fin (f32_of_Z z) /\ SFv (f32_of_Z z) == inject_Z z.
Proof.
  intros Hz. unfold f32_of_Z, binary_normalize. destruct z as [|p|p].
  - split; [exact I|reflexivity].
  - assert (Hlt : inject_Z (Z.pos p) * pow2 0 < pow2 24).
    { rewrite pow2_0. rewrite (pow2_Z 24) by lia. rewrite Qmult_1_r. rewrite <- Zlt_Qlt. lia. }
    destruct (bround_Q false p 0 24 Hlt ltac:(lia) ltac:(rewrite fexp32_eq; lia)) as [v [_ [Hfin [Hval [_ Hex]]]]].
    split; [exact Hfin|]. rewrite Hval. cbn [sgn]. rewrite Hex by (rewrite fexp32_eq; lia). rewrite pow2_0. ring.
  - assert (Hlt : inject_Z (Z.pos p) * pow2 0 < pow2 24).
    { rewrite pow2_0. rewrite (pow2_Z 24) by lia. rewrite Qmult_1_r. rewrite <- Zlt_Qlt. lia. }
    destruct (bround_Q true p 0 24 Hlt ltac:(lia) ltac:(rewrite fexp32_eq; lia)) as [v [_ [Hfin [Hval [_ Hex]]]]].
    split; [exact Hfin|]. rewrite Hval. cbn [sgn]. rewrite Hex by (rewrite fexp32_eq; lia). rewrite pow2_0.
    change (Z.neg p) with (- Z.pos p)%Z. rewrite inject_Z_opp. ring.
Qed.

Theorem mul_err a b Ba Bb B : is_fin a -> is_fin b ->
  - pow2 Ba < SFv a < pow2 Ba -> - pow2 Bb < SFv b < pow2 Bb -> (Ba + Bb <= 105)%Z ->
  - pow2 B < SFv a * SFv b < pow2 B -> (fexp32 B <= 103)%Z ->
  is_fin (f32_mul a b) /\ near (SFv (f32_mul a b)) (SFv a * SFv b) (pow2 (fexp32 B - 1)).
Proof.
  intros Ha Hb Hba Hbb HB2 Hprod HB. pose proof (pow2_pos (fexp32 B - 1)) as Hpp.
  destruct a as [sa|sa| |sa ma ea]; try contradiction; destruct b as [sb|sb| |sb mb eb]; try contradiction;
    unfold f32_mul; cbn [SFmul].
  1-3: split; [exact I|]; cbn [SFv]; unfold near; lra.
  pose proof (fin_exp _ _ _ _ Hba). pose proof (fin_exp _ _ _ _ Hbb).
  assert (HX : inject_Z (Z.pos (ma * mb)) * pow2 (ea + eb) == (inject_Z (Z.pos ma) * pow2 ea) * (inject_Z (Z.pos mb) * pow2 eb)).
  { rewrite Pos2Z.inj_mul, inject_Z_mult, pow2_add. ring. }
  cbn [SFv] in Hprod |- *.
  pose proof (pos_ge1 ma). pose proof (pos_ge1 mb). pose proof (pow2_pos ea). pose proof (pow2_pos eb).
  set (A := inject_Z (Z.pos ma) * pow2 ea) in *. set (Bv := inject_Z (Z.pos mb) * pow2 eb) in *.
  assert (HA : 0 < A) by (unfold A; nra). assert (HBv : 0 < Bv) by (unfold Bv; nra).
  assert (Hlt : inject_Z (Z.pos (ma * mb)) * pow2 (ea + eb) < pow2 B).
  { rewrite HX. destruct sa, sb; cbn [sgn] in Hprod; nra. }
  destruct (bra_exact_Q (xorb sa sb) (Z.pos (ma * mb)) (ea + eb) B ltac:(lia) Hlt ltac:(lia) HB) as [v [Hv0 [Hfin [Hval [Hnear _]]]]].
  split; [exact Hfin|]. unfold near in *. rewrite Hval. rewrite HX in Hnear.
  destruct sa, sb; cbn [sgn xorb]; nra.
Qed.

Lemma aligned_val m e ez mz : (ez <= e)%Z -> Z.pos mz = (Z.pos m * 2 ^ (e - ez))%Z ->
  inject_Z (Z.pos mz) * pow2 ez == inject_Z (Z.pos m) * pow2 e.
Proof.
  intros Hle Hmz. rewrite Hmz, inject_Z_mult. rewrite <- (pow2_Z (e - ez)) by lia.
  rewrite <- Qmult_assoc, <- pow2_add. replace (e - ez + ez)%Z with e by lia. reflexivity.
Qed.

Theorem add_err a b Ba B : is_fin a -> is_fin b -> - pow2 Ba < SFv a < pow2 Ba -> (Ba <= 104)%Z ->
  - pow2 B < SFv a + SFv b < pow2 B -> (fexp32 B <= 103)%Z ->
  is_fin (f32_add a b) /\ near (SFv (f32_add a b)) (SFv a + SFv b) (pow2 (fexp32 B - 1)).
Proof.
  intros Ha Hb Hba HBa Hsum HB. pose proof (pow2_pos (fexp32 B - 1)) as Hpp.
  destruct a as [sa|sa| |sa ma ea]; try contradiction; destruct b as [sb|sb| |sb mb eb]; try contradiction;
    unfold f32_add; cbn [SFadd].
  - destruct (Bool.eqb sa sb); (split; [exact I|]); cbn [SFv]; unfold near; lra.
  - split; [exact I|]. cbn [SFv]. unfold near. lra.
  - split; [exact I|]. cbn [SFv]. unfold near. lra.
  - pose proof (fin_exp _ _ _ _ Hba) as Hea.
    set (ez := Z.min ea eb).
    pose proof (shl_align_spec ma ea ez) as Hsa. destruct (shl_align ma ea ez) as [mza eza]. destruct Hsa as [Heza Hmza].
    pose proof (shl_align_spec mb eb ez) as Hsb. destruct (shl_align mb eb ez) as [mzb ezb]. destruct Hsb as [Hezb Hmzb].
    cbn [fst]. assert (Eza : eza = ez) by (unfold ez in *; lia). assert (Ezb : ezb = ez) by (unfold ez in *; lia).
    rewrite Eza in Hmza. rewrite Ezb in Hmzb.
    pose proof (aligned_val ma ea ez mza ltac:(unfold ez; lia) Hmza) as HA.
    pose proof (aligned_val mb eb ez mzb ltac:(unfold ez; lia) Hmzb) as HBv.
    set (z := (cond_Zopp sa (Z.pos mza) + cond_Zopp sb (Z.pos mzb))%Z).
    assert (Hz : inject_Z z * pow2 ez == SFv (S754_finite sa ma ea) + SFv (S754_finite sb mb eb)).
    { unfold z. rewrite inject_Z_plus. cbn [SFv].
      destruct sa, sb; cbn [cond_Zopp sgn]; rewrite <- HA, <- HBv; rewrite ?inject_Z_opp; ring. }
    unfold binary_normalize. unfold near. rewrite <- Hz in *. clearbody z.
    destruct z as [|p|p].
    + split; [exact I|]. cbn [SFv]. change (inject_Z 0) with 0. lra.
    + assert (Hlt : inject_Z (Z.pos p) * pow2 ez < pow2 B) by lra.
      destruct (bround_Q false p ez B Hlt ltac:(unfold ez; lia) HB) as [v [_ [Hfin [Hval [Hnear _]]]]].
      split; [exact Hfin|]. rewrite Hval. cbn [sgn]. exact Hnear.
    + assert (Eneg : inject_Z (Z.neg p) == - inject_Z (Z.pos p)) by (change (Z.neg p) with (- Z.pos p)%Z; rewrite inject_Z_opp; reflexivity).
      rewrite Eneg in *.
      assert (Hlt : inject_Z (Z.pos p) * pow2 ez < pow2 B) by lra.
      destruct (bround_Q true p ez B Hlt ltac:(unfold ez; lia) HB) as [v [_ [Hfin [Hval [Hnear _]]]]].
      split; [exact Hfin|]. rewrite Hval. cbn [sgn]. unfold near in Hnear. lra.
Qed.

Lemma fexp32_mono a b : (a <= b)%Z -> (fexp32 a <= fexp32 b)%Z.
Proof. intros H. rewrite !fexp32_eq. lia. Qed.

Lemma dg_Q m : pow2 (Zdigits2 (Z.pos m) - 1) <= inject_Z (Z.pos m) < pow2 (Zdigits2 (Z.pos m)).
Proof.
  destruct (Zdigits2_bounds (Z.pos m) ltac:(lia)) as [Hlo Hhi].
  assert (Hdg : (0 < Zdigits2 (Z.pos m))%Z) by (cbn [Zdigits2]; lia).
  rewrite !pow2_Z by lia. rewrite <- Zle_Qle, <- Zlt_Qlt. split; assumption.
Qed.

Theorem div_err a b xq B : is_fin a -> is_fin b -> 0 <= SFv a -> 0 < SFv b ->
  xq * SFv b == SFv a -> xq < pow2 B -> (fexp32 B <= 103)%Z ->
  is_fin (f32_div a b) /\ near (SFv (f32_div a b)) xq (pow2 (fexp32 B - 1)).
Proof.
  intros Ha Hb Ha0 Hb0 Hxq Hlt HB. pose proof (pow2_pos (fexp32 B - 1)) as Hpp.
  destruct b as [sb|sb| |sb mb eb]; try contradiction; [cbn [SFv] in Hb0; lra|].
  pose proof (pos_ge1 mb) as Hmb1. pose proof (pow2_pos eb) as Hpeb.
  destruct sb; [cbn [SFv sgn] in Hb0; nra|]. cbn [SFv sgn] in Hxq, Hb0.
  destruct a as [sa|sa| |sa ma ea]; try contradiction; unfold f32_div; cbn [SFdiv].
  - split; [exact I|]. cbn [SFv] in *. unfold near. assert (xq == 0) by nra. lra.
  - pose proof (pos_ge1 ma) as Hma1. pose proof (pow2_pos ea) as Hpea.
    destruct sa; [cbn [SFv sgn] in Ha0; nra|]. cbn [SFv sgn] in Hxq. cbn [xorb].
    rewrite div_core_spec.
    set (d1 := Zdigits2 (Z.pos ma)) in *. set (d2 := Zdigits2 (Z.pos mb)) in *.
    set (e' := Z.min (fexp32 (d1 + ea - (d2 + eb))) (ea - eb)).
    set (s := (ea - eb - e')%Z). assert (Hs : (0 <= s)%Z) by (unfold s, e'; lia).
    set (n := (Z.pos ma * 2 ^ s)%Z).
    assert (Hn : (0 <= n)%Z) by (unfold n; assert (0 < 2 ^ s)%Z by (apply Z.pow_pos_nonneg; lia); lia).
    set (x := inject_Z n / inject_Z (Z.pos mb)).
    assert (Hmbne : ~ inject_Z (Z.pos mb) == 0) by lra.
    assert (Hx : x * inject_Z (Z.pos mb) == inject_Z n) by (unfold x; field; assumption).
    assert (Hxe : x * pow2 e' == xq).
    { apply (Qmult_inj_r _ _ (inject_Z (Z.pos mb) * pow2 eb)); [nra|]. rewrite Hxq.
      transitivity (x * inject_Z (Z.pos mb) * (pow2 e' * pow2 eb)); [ring|]. rewrite Hx. unfold n.
      rewrite inject_Z_mult. rewrite <- (pow2_Z s Hs). rewrite <- pow2_add.
      rewrite <- Qmult_assoc. rewrite <- pow2_add. replace (s + (e' + eb))%Z with ea by (unfold s; lia). reflexivity. }
    assert (Hxq0 : 0 <= xq) by nra.
    assert (He' : (e' <= fexp32 B)%Z).
    { assert (Hdel : (d1 + ea - (d2 + eb) <= B)%Z).
      { destruct (dg_Q ma) as [Hlo1 _]. destruct (dg_Q mb) as [_ Hhi2]. fold d1 in Hlo1. fold d2 in Hhi2.
        assert (G : pow2 (d1 - 1 + ea) < pow2 (B + d2 + eb)).
        { rewrite !pow2_add. pose proof (pow2_pos d2). pose proof (pow2_pos B).
          set (P1 := pow2 (d1 - 1)) in *. set (P2 := pow2 d2) in *. set (MA := inject_Z (Z.pos ma)) in *.
          set (MB := inject_Z (Z.pos mb)) in *. set (pa := pow2 ea) in *. set (pb := pow2 eb) in *. set (PB := pow2 B) in *.
          assert (S1 : P1 * pa <= MA * pa) by nra.
          assert (S2 : xq * MB <= xq * P2) by nra.
          assert (S3 : xq * P2 < PB * P2) by nra.
          assert (S4 : xq * MB * pb < PB * P2 * pb) by nra.
          nra. }
        apply pow2_lt_inv in G. lia. }
      pose proof (fexp32_mono _ _ Hdel). unfold e'. lia. }
    destruct (bra_Q false n (Z.pos mb) e' x B Hn ltac:(lia) Hx ltac:(rewrite Hxe; assumption) He' HB)
      as [v [Hv0 [Hfin [Hval Hnear]]]].
    split; [exact Hfin|]. unfold near in *. rewrite Hval. cbn [sgn]. rewrite Hxe in Hnear. exact Hnear.
Qed.

Lemma trunc_abs_Q m e : inject_Z (f32_trunc_abs m e) <= inject_Z (Z.pos m) * pow2 e < inject_Z (f32_trunc_abs m e) + 1.
Proof.
  unfold f32_trunc_abs. destruct e as [|p|p].
  - rewrite pow2_0. lra.
  - rewrite inject_Z_mult. rewrite <- (pow2_Z (Z.pos p)) by lia. lra.
  - assert (Hp : (0 < 2 ^ Z.pos p)%Z) by (apply Z.pow_pos_nonneg; lia).
    pose proof (Z.div_mod (Z.pos m) (2 ^ Z.pos p) ltac:(lia)) as Hdm.
    pose proof (Z.mod_pos_bound (Z.pos m) (2 ^ Z.pos p) Hp) as Hr.
    set (q := (Z.pos m / 2 ^ Z.pos p)%Z) in *. set (r := (Z.pos m mod 2 ^ Z.pos p)%Z) in *.
    assert (Hinv : pow2 (Z.neg p) * pow2 (Z.pos p) == 1).
    { rewrite <- pow2_add. replace (Z.neg p + Z.pos p)%Z with 0%Z by lia. reflexivity. }
    rewrite (pow2_Z (Z.pos p)) in Hinv by lia.
    assert (Hm : inject_Z (Z.pos m) == inject_Z (2 ^ Z.pos p) * inject_Z q + inject_Z r).
    { rewrite Hdm at 1. rewrite inject_Z_plus, inject_Z_mult. reflexivity. }
    assert (Hr0 : 0 <= inject_Z r) by (apply inject_Z_nonneg; lia).
    assert (Hr1 : inject_Z r < inject_Z (2 ^ Z.pos p)) by (rewrite <- Zlt_Qlt; lia).
    pose proof (pow2_pos (Z.neg p)) as Hpn. pose proof (inject_Z_pos_lt _ Hp) as HP.
    set (P := inject_Z (2 ^ Z.pos p)) in *. set (I := pow2 (Z.neg p)) in *. rewrite Hm.
    assert (E1 : (P * inject_Z q + inject_Z r) * I == inject_Z q + inject_Z r * I).
    { transitivity (inject_Z q * (I * P) + inject_Z r * I); [ring|]. rewrite Hinv. ring. }
    rewrite E1. assert (inject_Z r * I < 1) by nra. assert (0 <= inject_Z r * I) by nra. lra.
Qed.

Theorem to_Z_trunc x : is_fin x -> - pow2 62 < SFv x < pow2 62 ->
  (0 <= SFv x -> inject_Z (f32_to_Z x) <= SFv x < inject_Z (f32_to_Z x) + 1) /\
  (SFv x <= 0 -> inject_Z (f32_to_Z x) - 1 < SFv x <= inject_Z (f32_to_Z x)).
Proof.
  intros Hfin Hb. destruct x as [s|s| |s m e]; try contradiction.
  - cbn [SFv f32_to_Z]. change (inject_Z 0) with 0. split; intros _; lra.
  - pose proof (trunc_abs_Q m e) as Ht. cbn [SFv] in *. unfold f32_to_Z.
    set (a := f32_trunc_abs m e) in *.
    pose proof (pos_ge1 m). pose proof (pow2_pos e).
    assert (Ha0 : (0 <= a)%Z).
    { unfold a, f32_trunc_abs. destruct e as [|p|p]; [lia| |apply Z.div_pos; [lia|apply Z.pow_pos_nonneg; lia]].
      assert (0 < 2 ^ Z.pos p)%Z by (apply Z.pow_pos_nonneg; lia). lia. }
    assert (Ha : (a < 2 ^ 62)%Z).
    { rewrite Zlt_Qlt. rewrite <- (pow2_Z 62) by lia. destruct s; cbn [sgn] in Hb; lra. }
    assert (Hnoclamp : forall v, (- 2 ^ 62 < v < 2 ^ 62)%Z ->
      (if (v <? isize_min)%Z then isize_min else if (v >? isize_max)%Z then isize_max else v) = v).
    { intros v Hv. unfold isize_min, isize_max.
      destruct (Z.ltb_spec v (- 2 ^ 63)) as [L|L]; [lia|]. destruct (Z.gtb_spec v (2 ^ 63 - 1)) as [G|G]; [lia|reflexivity]. }
    assert (HXpos : 0 < inject_Z (Z.pos m) * pow2 e) by nra.
    destruct s; cbn [sgn] in *; cbv zeta; rewrite Hnoclamp by lia.
    + rewrite inject_Z_opp. split; intros Hs; lra.
    + split; intros Hs; lra.
Qed.
