(* C03 - part 2: the structure of programs.  NoteSem syntax trees as structured programs of LoopSpec
   (prog_cmd / progl), their flat text = the tokens, an explicit bound on the machine steps, the tuplet count,
   and unfolding equations for the fuel-driven definitions of spec/NoteSem.v. *)
From Sakura.Model Require Import Base Cursor Length Event Song Token LoopMachine LexCore RunCore.
From Sakura.Spec Require Import LenSpec NoteSem LoopSpec.
From Sakura.Proofs Require Import LoopP BlockP NoteSimDefs.
Open Scope Z_scope.

(* ------------------------------------------------------------------------------------------------ *)
(* 1. NoteSem: the local list recursions are the global ones                                          *)

Lemma dl_eq l :
  (fix dl (l : list cmd) : nat := match l with [] => O | x :: r => Nat.max (depth x) (dl r) end) l = prog_depth l.
Proof. unfold prog_depth. induction l as [|x r IH]; [reflexivity|]. cbn [fold_right]. rewrite <- IH. reflexivity. Qed.

Lemma prog_depth_cons x r : prog_depth (x :: r) = Nat.max (depth x) (prog_depth r).
Proof. reflexivity. Qed.

Lemma depth_loop n body brk :
  depth (CLoop n body brk) = S (Nat.max (prog_depth body) (match brk with Some b => prog_depth b | None => O end)).
Proof. destruct brk; cbn [depth]; rewrite !dl_eq; reflexivity. Qed.
Lemma depth_chord items len gate vel : depth (CChord items len gate vel) = S (prog_depth items).
Proof. cbn [depth]. rewrite dl_eq. reflexivity. Qed.
Lemma depth_tuplet items len : depth (CTuplet items len) = S (prog_depth items).
Proof. cbn [depth]. rewrite dl_eq. reflexivity. Qed.
Lemma depth_sub body : depth (CSub body) = S (prog_depth body).
Proof. cbn [depth]. rewrite dl_eq. reflexivity. Qed.

Lemma depth_pos c : (1 <= depth c)%nat.
Proof. destruct c; cbn [depth]; lia. Qed.

Lemma prog_depth_in x l : In x l -> (depth x <= prog_depth l)%nat.
Proof.
  induction l as [|y r IH]; [intros []|]. rewrite prog_depth_cons. intros [->|H]; [lia|]. specialize (IH H). lia.
Qed.

(* the sub-commands of a command *)
Definition children (c : cmd) : list cmd :=
  match c with
  | CLoop _ body brk => body ++ (match brk with Some b => b | None => [] end)
  | CChord items _ _ _ => items
  | CTuplet items _ => items
  | CSub body => body
  | _ => []
  end.

Lemma children_depth c x : In x (children c) -> (depth x < depth c)%nat.
Proof.
  destruct c; cbn [children]; try (intros []).
  - rewrite depth_loop. intros H. apply in_app_or in H. destruct H as [H|H].
    + apply prog_depth_in in H. lia.
    + destruct brk as [b|]; [|destruct H]. apply prog_depth_in in H. lia.
  - rewrite depth_chord. intros H. apply prog_depth_in in H. lia.
  - rewrite depth_tuplet. intros H. apply prog_depth_in in H. lia.
  - rewrite depth_sub. intros H. apply prog_depth_in in H. lia.
Qed.

(* induction over syntax trees: a property holds of a command when it holds of its sub-commands *)
Lemma cmd_children_ind (P : cmd -> Prop) :
  (forall c, (forall x, In x (children c) -> P x) -> P c) -> forall c, P c.
Proof.
  intros H. assert (A : forall n c, (depth c <= n)%nat -> P c).
  { induction n as [|n IH]; intros c Hd; [pose proof (depth_pos c); lia|].
    apply H. intros x Hx. apply IH. pose proof (children_depth c x Hx). lia. }
  intros c. apply (A (depth c)). lia.
Qed.

Lemma run_eq f l p :
  (fix run (l : list cmd) (p : perf) : perf := match l with [] => p | x :: r => run r (NoteSem.sem f x p) end) l p
  = sem_prog f l p.
Proof. revert p. induction l as [|x r IH]; intros p; [reflexivity|]. cbn [sem_prog]. rewrite <- IH. reflexivity. Qed.

Lemma repeat_fn_ext {A} (f g : A -> A) : (forall x, f x = g x) -> forall k x, repeat_fn k f x = repeat_fn k g x.
Proof. intros H. induction k as [|k IH]; intros x; [reflexivity|]. cbn [repeat_fn]. rewrite H. apply IH. Qed.

Lemma sem_loop f n body brk p :
  NoteSem.sem (S f) (CLoop n body brk) p =
  match brk with
  | None => repeat_fn (Z.to_nat (opt_or n 2)) (sem_prog f body) p
  | Some b => sem_prog f body (repeat_fn (Z.to_nat (opt_or n 2) - 1) (fun q => sem_prog f b (sem_prog f body q)) p)
  end.
Proof.
  cbn [NoteSem.sem]. destruct brk as [b|].
  - rewrite run_eq. f_equal. apply repeat_fn_ext. intros x. rewrite !run_eq. reflexivity.
  - apply repeat_fn_ext. intros x. apply run_eq.
Qed.

Lemma sem_tuplet f items len p :
  NoteSem.sem (S f) (CTuplet items len) p =
  let t0 := cur p in
  let l := len_of p len (t_len t0) in
  let cnt := tuplet_count items in
  let share := if cnt >? 0 then Z.quot l cnt else 0 in
  let p1 := sem_prog f items (with_cur p (fun t => set_len t share)) in
  with_cur p1 (fun t => set_len (set_pos t (t_pos t0 + l)) (t_len t0)).
Proof. cbn [NoteSem.sem]. rewrite run_eq. reflexivity. Qed.

Lemma sem_sub f body p :
  NoteSem.sem (S f) (CSub body) p = with_cur (sem_prog f body p) (fun t => set_pos t (t_pos (cur p))).
Proof. cbn [NoteSem.sem]. rewrite run_eq. reflexivity. Qed.

Lemma sem_prog_app f a b p : sem_prog f (a ++ b) p = sem_prog f b (sem_prog f a p).
Proof. revert p. induction a as [|x r IH]; intros p; [reflexivity|]. cbn [app sem_prog]. apply IH. Qed.

(* ------------------------------------------------------------------------------------------------ *)
(* 2. syntax trees as structured programs over the model's tokens                                     *)

Fixpoint prog_cmd (c : cmd) : prog tok :=
  let progl := fun l => fold_right (fun x q => papp (prog_cmd x) q) PNil l in
  match c with
  | CLoop n body brk =>
      PCons (Loop (osent n 2) (progl body) (match brk with Some b => Some (progl b) | None => None end)) PNil
  | CChord items len gate vel =>
      PCons (Leaf THarmonyBegin) (papp (progl items) (PCons (Leaf (THarmonyEnd (plen len) (osent gate (-1)) vel)) PNil))
  | _ => leaves (tok_cmd c)
  end.
Definition progl (l : list cmd) : prog tok := fold_right (fun x q => papp (prog_cmd x) q) PNil l.

Lemma progl_cons x r : progl (x :: r) = papp (prog_cmd x) (progl r).
Proof. reflexivity. Qed.

Lemma tokens_of_cons x r : tokens_of (x :: r) = tok_cmd x ++ tokens_of r.
Proof. reflexivity. Qed.
Lemma tokens_of_app a b : tokens_of (a ++ b) = tokens_of a ++ tokens_of b.
Proof. apply flat_map_app. Qed.

Lemma flat_item_leaf {D} (d : D) : flat_item (Leaf d) = [LOther d].
Proof. reflexivity. Qed.

Lemma flatten_progl_of l : (forall x, In x l -> flatten (prog_cmd x) = map to_ltok (tok_cmd x)) ->
  flatten (progl l) = map to_ltok (tokens_of l).
Proof.
  induction l as [|x r IH]; intros H; [reflexivity|].
  rewrite progl_cons, tokens_of_cons, (flatten_app tok), map_app, (H x (or_introl eq_refl)), IH; [reflexivity|].
  intros y Hy. apply H. right. exact Hy.
Qed.

(* octave-once marks in front of a note: plain (non-loop) tokens *)
Lemma loop_free_once marks t : loop_free_tok t = true -> loop_free (map TOctaveOnce marks ++ [t]) = true.
Proof.
  intros H. unfold loop_free. induction marks as [|k r IH]; cbn [map app forallb loop_free_tok]; [rewrite H; reflexivity|exact IH].
Qed.

Theorem flatten_prog_cmd : forall c, flatten (prog_cmd c) = map to_ltok (tok_cmd c).
Proof.
  induction c as [c IH] using cmd_children_ind. destruct c; try reflexivity.
  - (* loop *)
    cbn [children] in IH. cbn [prog_cmd tok_cmd]. fold (progl body). fold (tokens_of body).
    assert (Hb : flatten (progl body) = map to_ltok (tokens_of body)).
    { apply flatten_progl_of. intros x Hx. apply IH. apply in_or_app. left. exact Hx. }
    destruct brk as [b|].
    + fold (progl b). fold (tokens_of b).
      assert (Hk : flatten (progl b) = map to_ltok (tokens_of b)).
      { apply flatten_progl_of. intros x Hx. apply IH. apply in_or_app. right. exact Hx. }
      rewrite flatten_cons, flat_item_some, Hb, Hk. cbn [map to_ltok]. rewrite !map_app. cbn [map to_ltok app flatten].
      rewrite app_nil_r. reflexivity.
    + rewrite flatten_cons, flat_item_none, Hb. cbn [map to_ltok app]. rewrite !map_app. cbn [map to_ltok app flatten].
      rewrite app_nil_r. reflexivity.
  - (* chord *)
    cbn [children] in IH. cbn [prog_cmd tok_cmd]. fold (progl items). fold (tokens_of items).
    rewrite flatten_cons, flat_item_leaf, (flatten_app tok), flatten_cons, flat_item_leaf, (flatten_progl_of items IH).
    cbn [map to_ltok app flatten]. rewrite map_app. reflexivity.
  - (* octave-once marks and their note *)
    cbn [prog_cmd tok_cmd]. symmetry. apply flatten_leaves. apply loop_free_once. reflexivity.
Qed.

Lemma flatten_progl l : flatten (progl l) = map to_ltok (tokens_of l).
Proof. apply flatten_progl_of. intros x _. apply flatten_prog_cmd. Qed.

(* ------------------------------------------------------------------------------------------------ *)
(* 3. an explicit bound on the machine steps of one exec() level                                      *)

Section Cost.
  Variable ec : list tok -> res song -> res song.
  Notation SEMc := (LoopSpec.sem tok (res song) (step_tok ec) halted (count1 count_of)).
  Notation COST := (cost tok (res song) (step_tok ec) halted (count1 count_of)).

  Lemma cost_papp a b r : COST (papp a b) r = (COST a r + COST b (SEMc a r))%nat.
  Proof.
    revert r. induction a as [|i a IH]; intros r; [reflexivity|].
    cbn [papp]. rewrite !cost_cons, sem_cons, IH. lia.
  Qed.

  Lemma cpasses_bound {St} (ca cb : St -> nat) (fa fb : St -> St) (A B : nat) :
    (forall s, (ca s <= A)%nat) -> (forall s, (cb s <= B)%nat) ->
    forall k s, (cpasses ca cb fa fb k s <= k * (A + B + 2))%nat.
  Proof.
    intros HA HB. induction k as [|k IH]; intros s; [cbn [cpasses]; lia|].
    cbn [cpasses]. specialize (IH (fb (fa s))). specialize (HA s). specialize (HB (fa s)).
    rewrite Nat.mul_succ_l. lia.
  Qed.

  Lemma flat_cost_l_cons x r : flat_cost_l (x :: r) = (flat_cost x + flat_cost_l r)%nat.
  Proof. reflexivity. Qed.

  Lemma cost_progl_of l : (forall x, In x l -> forall r, (COST (prog_cmd x) r <= flat_cost x)%nat) ->
    forall r, (COST (progl l) r <= flat_cost_l l)%nat.
  Proof.
    induction l as [|x l IH]; intros H r; [exact (le_n 0)|].
    rewrite progl_cons, cost_papp, flat_cost_l_cons.
    specialize (H x (or_introl eq_refl) r) as H1.
    specialize (IH (fun y Hy => H y (or_intror Hy)) (SEMc (prog_cmd x) r)). lia.
  Qed.

  Theorem cost_prog_cmd : forall c r, (COST (prog_cmd c) r <= flat_cost c)%nat.
  Proof.
    induction c as [c IH] using cmd_children_ind. intros r.
    destruct c; try (cbn [prog_cmd tok_cmd flat_cost]; rewrite cost_leaves; cbn [length]; lia).
    - (* loop *)
      cbn [children] in IH. cbn [prog_cmd flat_cost]. fold (progl body). fold (flat_cost_l body).
      assert (Hb : forall r, (COST (progl body) r <= flat_cost_l body)%nat).
      { apply cost_progl_of. intros x Hx. apply IH. apply in_or_app. left. exact Hx. }
      rewrite cost_cons, cost_item_loop.
      change (count1 count_of (osent n 2) r) with (Nat.max 1 (Z.to_nat (osent n 2))).
      destruct brk as [b|].
      + fold (progl b). fold (flat_cost_l b).
        assert (Hk : forall r, (COST (progl b) r <= flat_cost_l b)%nat).
        { apply cost_progl_of. intros x Hx. apply IH. apply in_or_app. right. exact Hx. }
        pose proof (cpasses_bound (COST (progl body)) (cost_opt tok (res song) (step_tok ec) halted (count1 count_of) (Some (progl b)))
                      (SEMc (progl body)) (sem_opt tok (res song) (step_tok ec) halted (count1 count_of) (Some (progl b)))
                      (flat_cost_l body) (flat_cost_l b) Hb Hk (Nat.max 1 (Z.to_nat (osent n 2))) r) as Hc.
        cbn [cost]. lia.
      + pose proof (cpasses_bound (COST (progl body)) (cost_opt tok (res song) (step_tok ec) halted (count1 count_of) None)
                      (SEMc (progl body)) (sem_opt tok (res song) (step_tok ec) halted (count1 count_of) None)
                      (flat_cost_l body) 0 Hb (fun _ => le_n 0) (Nat.max 1 (Z.to_nat (osent n 2))) r) as Hc.
        cbn [cost]. lia.
    - (* chord *)
      cbn [children] in IH. cbn [prog_cmd flat_cost]. fold (progl items). fold (flat_cost_l items).
      rewrite cost_cons, cost_item_leaf, cost_papp, cost_cons, cost_item_leaf.
      pose proof (cost_progl_of items IH (sem_item tok (res song) (step_tok ec) halted (count1 count_of) (Leaf THarmonyBegin) r)).
      cbn [cost]. lia.
    - (* octave-once marks and their note *)
      cbn [prog_cmd tok_cmd flat_cost]. rewrite cost_leaves, app_length, map_length. cbn [length]. lia.
  Qed.

  Lemma cost_progl l r : (COST (progl l) r <= flat_cost_l l)%nat.
  Proof. apply cost_progl_of. intros x _. apply cost_prog_cmd. Qed.
End Cost.

(* exec() of the tokens of a program is the structured meaning of the program, given the fuel *)
Definition SEM (ec : list tok -> res song -> res song) : prog tok -> res song -> res song :=
  LoopSpec.sem tok (res song) (step_tok ec) halted (count1 count_of).

Theorem exec_f_SEM d steps l r : (flat_cost_l l < steps)%nat ->
  exec_f (S d) steps (tokens_of l) r = SEM (exec_f d steps) (progl l) r.
Proof.
  intros H. cbn [exec_f]. rewrite <- flatten_progl.
  rewrite (run_flat_total tok (res song) (step_tok (exec_f d steps)) halted count_of (progl l) r steps); [reflexivity|].
  pose proof (cost_progl (exec_f d steps) l r). lia.
Qed.

Theorem exec_f_SEM_top d steps l r : (S (flat_cost_l l) < steps)%nat ->
  exec_f (S d) steps (TLineNo 0 :: tokens_of l) r = SEM (exec_f d steps) (PCons (Leaf (TLineNo 0)) (progl l)) r.
Proof.
  intros H. cbn [exec_f].
  change (map to_ltok (TLineNo 0 :: tokens_of l)) with (LOther (TLineNo 0) :: map to_ltok (tokens_of l)).
  rewrite <- flatten_progl.
  change (LOther (TLineNo 0) :: flatten (progl l)) with (flatten (PCons (Leaf (TLineNo 0)) (progl l))).
  rewrite (run_flat_total tok (res song) (step_tok (exec_f d steps)) halted count_of _ r steps); [reflexivity|].
  rewrite cost_cons, cost_item_leaf.
  pose proof (cost_progl (exec_f d steps) l (sem_item tok (res song) (step_tok (exec_f d steps)) halted (count1 count_of) (Leaf (TLineNo 0)) r)). lia.
Qed.

(* ------------------------------------------------------------------------------------------------ *)
(* 4. the tuplet count: what the lexer counts on the tokens is what the specification counts on the tree *)

Definition dc_step (acc : Z) (t : tok) : Z :=
  match t with
  | TNote _ _ _ len _ _ _ _ _ => acc + 1 + count_hats len
  | TNoteN _ len _ _ _ _ => acc + 1 + count_hats len
  | TDiv _ len _ => acc + 1 + count_hats len
  | TRest _ len => acc + 1 + count_hats len
  | _ => acc
  end.
Lemma div_count_fold toks : div_count toks = fold_left dc_step toks 0.
Proof. reflexivity. Qed.

Definition count_l (l : list cmd) : Z := fold_right (fun x a => count_cmd x + a) 0 l.
Lemma count_sum_eq l :
  (fix sum (l : list cmd) : Z := match l with [] => 0 | x :: r => count_cmd x + sum r end) l = count_l l.
Proof. induction l as [|x r IH]; [reflexivity|]. change (count_l (x :: r)) with (count_cmd x + count_l r). rewrite <- IH. reflexivity. Qed.

Lemma hats_eq l : count_hats (plen l) = hats l.
Proof. destruct l; reflexivity. Qed.

Lemma dc_tokens_of l : (forall x, In x l -> forall acc, fold_left dc_step (tok_cmd x) acc = acc + count_cmd x) ->
  forall acc, fold_left dc_step (tokens_of l) acc = acc + count_l l.
Proof.
  induction l as [|x r IH]; intros H acc; [cbn; lia|].
  rewrite tokens_of_cons, fold_left_app, (H x (or_introl eq_refl)), (IH (fun y Hy => H y (or_intror Hy))).
  change (count_l (x :: r)) with (count_cmd x + count_l r). lia.
Qed.

Lemma dc_once marks : forall acc, fold_left dc_step (map TOctaveOnce marks) acc = acc.
Proof. induction marks as [|k r IH]; intros acc; [reflexivity|]. cbn [map fold_left dc_step]. apply IH. Qed.

Theorem dc_tok_cmd : forall c acc, fold_left dc_step (tok_cmd c) acc = acc + count_cmd c.
Proof.
  induction c as [c IH] using cmd_children_ind. intros acc.
  destruct c; try (cbn [tok_cmd fold_left dc_step count_cmd]; rewrite ?hats_eq; lia).
  - (* loop *)
    cbn [children] in IH. cbn [tok_cmd count_cmd]. fold (tokens_of body). rewrite (count_sum_eq body).
    cbn [fold_left dc_step]. rewrite fold_left_app.
    rewrite (dc_tokens_of body (fun x Hx => IH x (in_or_app _ _ _ (or_introl Hx)))).
    destruct brk as [b|].
    + fold (tokens_of b). rewrite (count_sum_eq b), fold_left_app. cbn [fold_left dc_step].
      rewrite (dc_tokens_of b (fun x Hx => IH x (in_or_app _ _ _ (or_intror Hx)))). lia.
    + cbn [app fold_left dc_step]. lia.
  - (* chord *)
    cbn [children] in IH. cbn [tok_cmd count_cmd]. fold (tokens_of items). rewrite (count_sum_eq items).
    cbn [fold_left dc_step]. rewrite fold_left_app, (dc_tokens_of items IH). cbn [fold_left dc_step]. lia.
  - (* octave-once marks and their note: the marks take no share *)
    cbn [tok_cmd count_cmd]. rewrite fold_left_app, dc_once. cbn [fold_left dc_step]. rewrite hats_eq. lia.
Qed.

Lemma tuplet_count_eq l : tuplet_count l = count_l l.
Proof.
  unfold tuplet_count. assert (A : forall acc, fold_left (fun a c => a + count_cmd c) l acc = acc + count_l l).
  { induction l as [|x r IH]; intros acc; [cbn; lia|]. cbn [fold_left]. rewrite IH. change (count_l (x :: r)) with (count_cmd x + count_l r). lia. }
  rewrite A. lia.
Qed.

Theorem div_count_tuplet items : div_count (TLineNo 0 :: tokens_of items) = tuplet_count items.
Proof.
  rewrite div_count_fold, tuplet_count_eq. cbn [fold_left dc_step].
  rewrite (dc_tokens_of items (fun x _ => dc_tok_cmd x)). lia.
Qed.
