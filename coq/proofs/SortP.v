(* split_note_off and the stable sort by time *)
From Sakura.Model Require Import Base Event Writer.
From Coq Require Import Lia Permutation Sorted.
Open Scope Z_scope.

Definition time_le (a b : event) : Prop := e_time a <= e_time b.

Lemma insert_perm e l : Permutation (insert_ev e l) (e :: l).
Proof.
  induction l as [|x r IH]; cbn [insert_ev]; [apply Permutation_refl|].
  destruct (e_time e <=? e_time x); [apply Permutation_refl|].
  eapply perm_trans; [apply perm_skip, IH | apply perm_swap].
Qed.

Theorem events_sort_perm l : Permutation (events_sort l) l.
Proof.
  induction l as [|e r IH]; cbn; [constructor|].
  eapply perm_trans; [apply insert_perm|]. apply perm_skip. exact IH.
Qed.

Lemma insert_hd e l x : HdRel time_le x l -> time_le x e -> HdRel time_le x (insert_ev e l).
Proof.
  intros H He. destruct l as [|y r]; cbn [insert_ev]; [constructor; assumption|].
  destruct (e_time e <=? e_time y); constructor; [assumption|]. inversion H; assumption.
Qed.

Lemma insert_sorted e l : Sorted time_le l -> Sorted time_le (insert_ev e l).
Proof.
  induction l as [|x r IH]; intros H; cbn [insert_ev]; [repeat constructor|].
  inversion H as [|a b Hs Hh]; subst.
  destruct (e_time e <=? e_time x) eqn:E.
  - constructor; [assumption|]. constructor. unfold time_le. lia.
  - constructor; [apply IH; assumption|]. apply insert_hd; [assumption|]. unfold time_le. lia.
Qed.

Theorem events_sort_sorted l : Sorted time_le (events_sort l).
Proof. induction l as [|e r IH]; cbn; [constructor|]. apply insert_sorted, IH. Qed.

(* stability: events of one tick keep their issue order *)
Definition at_time (t : Z) (l : list event) : list event := filter (fun e => e_time e =? t) l.

Lemma insert_at_time e l t :
  at_time t (insert_ev e l) = if e_time e =? t then e :: at_time t l else at_time t l.
Proof.
  induction l as [|x r IH]; cbn [insert_ev].
  - unfold at_time. cbn [filter]. destruct (e_time e =? t); reflexivity.
  - destruct (e_time e <=? e_time x) eqn:E.
    + unfold at_time. cbn [filter]. destruct (e_time e =? t); reflexivity.
    + unfold at_time in *. cbn [filter]. rewrite IH.
      destruct (e_time e =? t) eqn:Et; [|reflexivity].
      destruct (e_time x =? t) eqn:Ex; [exfalso; lia | reflexivity].
Qed.

Theorem events_sort_stable l t : at_time t (events_sort l) = at_time t l.
Proof.
  induction l as [|e r IH]; [reflexivity|].
  cbn [events_sort fold_right]. fold (events_sort r). rewrite insert_at_time, IH.
  unfold at_time. cbn [filter]. destruct (e_time e =? t); reflexivity.
Qed.

(* split_note_off: every event is kept in order, every note-on is followed by its note-off at
   start + gate length with the same channel, key and velocity *)
Definition note_off_of (e : event) : event :=
  mkEvent NoteOff (e_time e + e_v2 e) (e_ch e) (e_v1 e) (e_v2 e) (e_v3 e) (e_data e).

Theorem split_note_off_spec evs :
  split_note_off evs = flat_map (fun e => match e_type e with NoteOn => [e; note_off_of e] | _ => [e] end) evs.
Proof.
  induction evs as [|e r IH]; [reflexivity|].
  cbn [split_note_off flat_map]. rewrite IH. destruct (e_type e); reflexivity.
Qed.

Theorem note_off_present evs e : In e evs -> e_type e = NoteOn ->
  In (note_off_of e) (normalize_and_sort evs).
Proof.
  intros Hin Hty. unfold normalize_and_sort.
  eapply Permutation_in; [apply Permutation_sym, events_sort_perm|].
  rewrite split_note_off_spec. apply in_flat_map. exists e. split; [assumption|].
  rewrite Hty. right. left. reflexivity.
Qed.

(* uniqueness: a stable sort is determined by its three properties, so the model does not depend
   on the algorithm behind slice::sort_by *)
Lemma sorted_at_time_cons x l : Sorted time_le (x :: l) ->
  forall t, t < e_time x -> at_time t (x :: l) = [].
Proof.
  intros Hs t Ht. apply Sorted_StronglySorted in Hs; [|intros a b c; unfold time_le; lia].
  inversion Hs as [|a b Hss Hall]; subst.
  unfold at_time. cbn [filter]. replace (e_time x =? t) with false by lia.
  clear Hs Hss. induction Hall as [|y r Hy Hr IH]; [reflexivity|].
  unfold time_le in Hy. cbn [filter]. replace (e_time y =? t) with false by lia.
  exact IH.
Qed.

Theorem stable_sort_unique l1 l2 :
  Sorted time_le l1 -> Sorted time_le l2 -> (forall t, at_time t l1 = at_time t l2) -> l1 = l2.
Proof.
  revert l2. induction l1 as [|x r1 IH]; intros l2 S1 S2 H.
  - destruct l2 as [|y r2]; [reflexivity|].
    specialize (H (e_time y)). unfold at_time in H. cbn [filter] in H.
    rewrite Z.eqb_refl in H. discriminate.
  - destruct l2 as [|y r2].
    + specialize (H (e_time x)). unfold at_time in H. cbn [filter] in H.
      rewrite Z.eqb_refl in H. discriminate.
    + assert (Ht : e_time x = e_time y).
      { destruct (Z.lt_total (e_time x) (e_time y)) as [Hlt|[Heq|Hgt]]; [|assumption|].
        - pose proof (H (e_time x)) as Hx. rewrite (sorted_at_time_cons y r2 S2 _ Hlt) in Hx.
          unfold at_time in Hx. cbn [filter] in Hx. rewrite Z.eqb_refl in Hx. discriminate.
        - pose proof (H (e_time y)) as Hy. rewrite (sorted_at_time_cons x r1 S1 _ Hgt) in Hy.
          unfold at_time in Hy. cbn [filter] in Hy. rewrite Z.eqb_refl in Hy. discriminate. }
      pose proof (H (e_time x)) as Hx. unfold at_time in Hx. cbn [filter] in Hx.
      rewrite Z.eqb_refl in Hx. rewrite <- Ht, Z.eqb_refl in Hx. injection Hx as Hxy Hrest. subst y.
      f_equal. apply IH.
      * inversion S1; assumption.
      * inversion S2; assumption.
      * intros t. specialize (H t). unfold at_time in H. cbn [filter] in H.
        destruct (e_time x =? t); [injection H as H; exact H | exact H].
Qed.
