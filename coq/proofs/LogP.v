(* C19: the log stays bounded - add_log / lx_add_log never exceed SAKURA_MAX_LOGS entries, lex_error stops at
   LEX_MAX_ERROR entries plus one notice, get_logs_str cuts at SAKURA_MAX_LOGS_CHARS characters plus "...";
   the text of the entries written by lex_error and read_error_cmd. *)
From Coq Require Import String Ascii.
From Sakura.Model Require Import Base Cursor Length Event Song Token LexCore RunCore Compile Msg.
From Sakura.Gen Require Import Consts Messages.
From Sakura.Proofs Require Import LayoutP.
From Coq Require Import Lia.
Open Scope list_scope.
Open Scope Z_scope.

(* the documented numbers; a changed constant in /repo breaks these *)
Lemma consts_documented : SAKURA_MAX_LOGS = 100 /\ LEX_MAX_ERROR = 30 /\ SAKURA_MAX_LOGS_CHARS = 4096.
Proof. repeat split; reflexivity. Qed.
Lemma consts_sane : 0 <= LEX_MAX_ERROR /\ LEX_MAX_ERROR + 1 <= SAKURA_MAX_LOGS /\ 0 <= SAKURA_MAX_LOGS_CHARS.
Proof. repeat split; vm_compute; discriminate. Qed.

Definition log_ok (l : list (list Z)) : Prop := zlen l <= SAKURA_MAX_LOGS.

Lemma zlen_app {A} (a b : list A) : zlen (a ++ b) = zlen a + zlen b.
Proof. unfold zlen. rewrite app_length. lia. Qed.
Lemma zlen_nonneg {A} (a : list A) : 0 <= zlen a.
Proof. unfold zlen. lia. Qed.

(* ---- add_log / lx_add_log ---- *)
Lemma lx_add_log_logs ls m :
  lx_logs (lx_add_log ls m) = if SAKURA_MAX_LOGS <=? zlen (lx_logs ls) then lx_logs ls else lx_logs ls ++ [m].
Proof. unfold lx_add_log. destruct (SAKURA_MAX_LOGS <=? zlen (lx_logs ls)); reflexivity. Qed.
Lemma lx_add_log_other ls m :
  lx_timebase (lx_add_log ls m) = lx_timebase ls /\ lx_vars (lx_add_log ls m) = lx_vars ls /\
  lx_rhythm (lx_add_log ls m) = lx_rhythm ls.
Proof. unfold lx_add_log. destruct (SAKURA_MAX_LOGS <=? zlen (lx_logs ls)); repeat split; reflexivity. Qed.
Lemma lx_add_log_ok ls m : log_ok (lx_logs ls) -> log_ok (lx_logs (lx_add_log ls m)).
Proof.
  unfold log_ok. rewrite lx_add_log_logs. destruct (SAKURA_MAX_LOGS <=? zlen (lx_logs ls)) eqn:E; [tauto|].
  rewrite zlen_app. change (zlen [m]) with 1. lia.
Qed.
Lemma lx_add_log_grows ls m :
  zlen (lx_logs ls) <= zlen (lx_logs (lx_add_log ls m)) <= zlen (lx_logs ls) + 1.
Proof.
  rewrite lx_add_log_logs. destruct (SAKURA_MAX_LOGS <=? zlen (lx_logs ls)); [lia|].
  rewrite zlen_app. change (zlen [m]) with 1. lia.
Qed.

Lemma s_logs_set s v : s_logs (s_set_logs s v) = v.
Proof. reflexivity. Qed.
Lemma add_log_logs s m :
  s_logs (add_log s m) = if SAKURA_MAX_LOGS <=? zlen (s_logs s) then s_logs s else s_logs s ++ [m].
Proof. unfold add_log. destruct (SAKURA_MAX_LOGS <=? zlen (s_logs s)); reflexivity. Qed.
Lemma add_log_ok s m : log_ok (s_logs s) -> log_ok (s_logs (add_log s m)).
Proof.
  unfold log_ok. rewrite add_log_logs. destruct (SAKURA_MAX_LOGS <=? zlen (s_logs s)) eqn:E; [tauto|].
  rewrite zlen_app. change (zlen [m]) with 1. lia.
Qed.
Lemma runtime_error_ok s m : log_ok (s_logs s) -> log_ok (s_logs (runtime_error s m)).
Proof. apply add_log_ok. Qed.
Lemma song_new_ok : log_ok (s_logs song_new).
Proof. unfold log_ok. vm_compute. discriminate. Qed.
Lemma song_with_ls_logs s ls : s_logs (song_with_ls s ls) = lx_logs ls.
Proof. reflexivity. Qed.

(* ---- lex_error: at most LEX_MAX_ERROR entries, then one notice, then nothing ---- *)
Definition unknown_char_entry (ja : bool) (ln : Z) (msg near : list Z) : list Z :=
  zs "[ERROR](" ++ show_int ln ++ zs ") " ++ msg_UnknownChar ja ++ zs ": """ ++ msg ++ zs """ "
  ++ msg_Near ja ++ zs " """ ++ near ++ zs """".
Definition too_many_entry (ja : bool) (ln : Z) : list Z :=
  zs "[ERROR](" ++ show_int ln ++ zs ") " ++ msg_TooManyErrorsInLexer ja.

Lemma lex_error_cases ls s ln msg :
  lx_logs (lex_error ls s ln msg) =
    if zlen (lx_logs ls) <? LEX_MAX_ERROR then lx_logs ls ++ [unknown_char_entry (lx_ja ls) ln msg (near_text s)]
    else if zlen (lx_logs ls) =? LEX_MAX_ERROR then lx_logs ls ++ [too_many_entry (lx_ja ls) ln]
    else lx_logs ls.
Proof.
  pose proof consts_sane as [C0 [C1 C2]].
  unfold lex_error. destruct (zlen (lx_logs ls) =? LEX_MAX_ERROR) eqn:E1.
  - replace (zlen (lx_logs ls) <? LEX_MAX_ERROR) with false by lia.
    rewrite lx_add_log_logs. replace (SAKURA_MAX_LOGS <=? zlen (lx_logs ls)) with false by lia. reflexivity.
  - destruct (zlen (lx_logs ls) <? LEX_MAX_ERROR) eqn:E2; [|reflexivity].
    rewrite lx_add_log_logs. replace (SAKURA_MAX_LOGS <=? zlen (lx_logs ls)) with false by lia. reflexivity.
Qed.
Lemma lex_error_other ls s ln msg :
  lx_timebase (lex_error ls s ln msg) = lx_timebase ls /\ lx_vars (lex_error ls s ln msg) = lx_vars ls /\
  lx_rhythm (lex_error ls s ln msg) = lx_rhythm ls.
Proof.
  unfold lex_error. destruct (zlen (lx_logs ls) =? LEX_MAX_ERROR); [apply lx_add_log_other|].
  destruct (zlen (lx_logs ls) <? LEX_MAX_ERROR); [apply lx_add_log_other|repeat split; reflexivity].
Qed.
(* fewer than LEX_MAX_ERROR entries so far: exactly one entry, of the documented form *)
Lemma lex_error_entry ls s ln msg : zlen (lx_logs ls) < LEX_MAX_ERROR ->
  lx_logs (lex_error ls s ln msg) = lx_logs ls ++ [unknown_char_entry (lx_ja ls) ln msg (near_text s)].
Proof. intros H. rewrite lex_error_cases. replace (zlen (lx_logs ls) <? LEX_MAX_ERROR) with true by lia. reflexivity. Qed.
(* more than LEX_MAX_ERROR entries: nothing is added *)
Lemma lex_error_full ls s ln msg : LEX_MAX_ERROR < zlen (lx_logs ls) -> lex_error ls s ln msg = ls.
Proof.
  intros H. unfold lex_error.
  replace (zlen (lx_logs ls) =? LEX_MAX_ERROR) with false by lia.
  replace (zlen (lx_logs ls) <? LEX_MAX_ERROR) with false by lia. reflexivity.
Qed.
(* so the lexer's unknown-character reports never take the log beyond LEX_MAX_ERROR + 1 entries *)
Lemma lex_error_cap ls s ln msg : zlen (lx_logs ls) <= LEX_MAX_ERROR + 1 ->
  zlen (lx_logs (lex_error ls s ln msg)) <= LEX_MAX_ERROR + 1.
Proof.
  intros H. rewrite lex_error_cases.
  destruct (zlen (lx_logs ls) <? LEX_MAX_ERROR) eqn:E1; [rewrite zlen_app; change (zlen [_]) with 1; lia|].
  destruct (zlen (lx_logs ls) =? LEX_MAX_ERROR) eqn:E2; [rewrite zlen_app; change (zlen [_]) with 1; lia|lia].
Qed.
Lemma lex_error_grows ls s ln msg :
  zlen (lx_logs ls) <= zlen (lx_logs (lex_error ls s ln msg)) <= zlen (lx_logs ls) + 1.
Proof.
  rewrite lex_error_cases.
  destruct (zlen (lx_logs ls) <? LEX_MAX_ERROR); [rewrite zlen_app; change (zlen [_]) with 1; lia|].
  destruct (zlen (lx_logs ls) =? LEX_MAX_ERROR); [rewrite zlen_app; change (zlen [_]) with 1; lia|lia].
Qed.
Lemma lex_error_ok ls s ln msg : log_ok (lx_logs ls) -> log_ok (lx_logs (lex_error ls s ln msg)).
Proof.
  pose proof consts_sane as [C0 [C1 C2]]. unfold log_ok. intros H. rewrite lex_error_cases.
  destruct (zlen (lx_logs ls) <? LEX_MAX_ERROR) eqn:E1; [rewrite zlen_app; change (zlen [_]) with 1; lia|].
  destruct (zlen (lx_logs ls) =? LEX_MAX_ERROR) eqn:E2; [rewrite zlen_app; change (zlen [_]) with 1; lia|lia].
Qed.

(* ---- read_error_cmd ---- *)
Definition syntax_error_entry (ja : bool) (ln : Z) (cmd near : list Z) : list Z :=
  zs "[ERROR](" ++ show_int ln ++ zs ") " ++ msg_ScriptSyntaxError ja ++ zs " """ ++ cmd ++ zs """ "
  ++ msg_Near ja ++ zs " """ ++ near ++ zs """".
Lemma read_error_cmd_entry ls s ln cmd : zlen (lx_logs ls) < SAKURA_MAX_LOGS ->
  lx_logs (read_error_cmd ls s ln cmd) = lx_logs ls ++ [syntax_error_entry (lx_ja ls) ln cmd (near_text_raw s)].
Proof.
  intros H. unfold read_error_cmd. rewrite lx_add_log_logs.
  replace (SAKURA_MAX_LOGS <=? zlen (lx_logs ls)) with false by lia. reflexivity.
Qed.
Lemma read_error_cmd_ok ls s ln cmd : log_ok (lx_logs ls) -> log_ok (lx_logs (read_error_cmd ls s ln cmd)).
Proof. apply lx_add_log_ok. Qed.

(* ---- get_logs_str ---- *)
Lemma logs_str_bound l : zlen (logs_str l) <= SAKURA_MAX_LOGS_CHARS + 3.
Proof.
  pose proof consts_sane as [C0 [C1 C2]]. unfold logs_str.
  destruct (zlen (join_lines l) <=? SAKURA_MAX_LOGS_CHARS) eqn:E; [lia|].
  rewrite zlen_app. change (zlen [46; 46; 46]) with 3. unfold zlen. rewrite firstn_length. lia.
Qed.
Lemma compile_log_bound src bytes log : compile src = Ok (bytes, log) -> zlen log <= SAKURA_MAX_LOGS_CHARS + 3.
Proof.
  unfold compile, compile_lang. fold (run_source src). destruct (run_source src) as [s| | |]; cbn [bind]; try discriminate.
  match goal with |- bind ?g _ = _ -> _ => destruct g end; cbn [bind]; try discriminate.
  intros H. injection H as _ <-. apply logs_str_bound.
Qed.

Lemma lex_error_spec ls s ln m :
  (zlen (lx_logs ls) < LEX_MAX_ERROR ->
     lx_logs (lex_error ls s ln m)
     = lx_logs ls ++ [zs "[ERROR](" ++ show_int ln ++ zs ") " ++ msg_UnknownChar (lx_ja ls) ++ zs ": """ ++ m ++ zs """ "
                      ++ msg_Near (lx_ja ls) ++ zs " """ ++ near_text s ++ zs """"]) /\
  (zlen (lx_logs ls) = LEX_MAX_ERROR ->
     lx_logs (lex_error ls s ln m)
     = lx_logs ls ++ [zs "[ERROR](" ++ show_int ln ++ zs ") " ++ msg_TooManyErrorsInLexer (lx_ja ls)]) /\
  (LEX_MAX_ERROR < zlen (lx_logs ls) -> lex_error ls s ln m = ls) /\
  (zlen (lx_logs ls) <= LEX_MAX_ERROR + 1 -> zlen (lx_logs (lex_error ls s ln m)) <= LEX_MAX_ERROR + 1) /\
  lx_timebase (lex_error ls s ln m) = lx_timebase ls /\ lx_vars (lex_error ls s ln m) = lx_vars ls /\
  lx_rhythm (lex_error ls s ln m) = lx_rhythm ls.
Proof.
  split; [exact (lex_error_entry ls s ln m)|].
  split.
  { intros H. rewrite lex_error_cases. replace (zlen (lx_logs ls) <? LEX_MAX_ERROR) with false by lia.
    replace (zlen (lx_logs ls) =? LEX_MAX_ERROR) with true by lia. reflexivity. }
  split; [exact (lex_error_full ls s ln m)|].
  split; [exact (lex_error_cap ls s ln m)|]. exact (lex_error_other ls s ln m).
Qed.

(* ------------------------------------------------------------------------------------------ *)
(* the whole lexer keeps the bound: every arm of the loop changes the log only through lx_add_log, lex_error,  *)
(* read_error_cmd, the argument readers and the sub-lexer                                        *)
(* ------------------------------------------------------------------------------------------ *)
Definition LI (ls : lexstate) : Prop := log_ok (lx_logs ls).

Ltac head_scrut t :=
  lazymatch t with
  | match ?x with _ => _ end => head_scrut x
  | _ => t
  end.
Ltac brk H :=
  cbv beta iota delta [bind] in H;
  lazymatch type of H with
  | Ok _ = Ok _ => fail
  | OutOfFuel = _ => discriminate H
  | Unsupported _ = _ => discriminate H
  | Panic _ = _ => discriminate H
  | ?L = _ => let x := head_scrut L in
              lazymatch x with
              | LOOPG _ _ _ _ _ _ _ => fail
              | _ => tryif is_var x then destruct x else destruct x eqn:?
              end
  end.

Lemma read_args_tokens_ok ls s ln vs s' ln' ls' :
  read_args_tokens ls s ln = Ok (vs, s', ln', ls') -> LI ls -> LI ls'.
Proof.
  unfold read_args_tokens. intros H I. repeat brk H;
    injection H as <- <- <- <-; try exact I; apply lx_add_log_ok, I.
Qed.
Lemma read_macro_args_ok ls s ln vs s' ln' ls' :
  read_macro_args ls s ln = Ok (vs, s', ln', ls') -> LI ls -> LI ls'.
Proof.
  unfold read_macro_args. intros H I. repeat brk H;
    injection H as <- <- <- <-; try exact I; apply lx_add_log_ok, I.
Qed.
Lemma check_variables_ok ls cmd s ln ot s' ln' ls' :
  check_variables ls cmd s ln = Ok (ot, s', ln', ls') -> LI ls -> LI ls'.
Proof.
  unfold check_variables. intros H I. repeat brk H;
    injection H as <- <- <- <-; try exact I;
    try (apply read_error_cmd_ok, I); try (eapply read_macro_args_ok; eassumption).
Qed.

Lemma read_command_cc_ok ls no s ln ot s' ln' ls' :
  read_command_cc ls no s ln = Ok (ot, s', ln', ls') -> LI ls -> LI ls'.
Proof.
  unfold read_command_cc, cc_warn. intros H I. repeat brk H;
    injection H as <- <- <- <-; try exact I; try (apply lx_add_log_ok, I); eapply read_args_tokens_ok; eassumption.
Qed.
Lemma guard_out_ok r x : guard_out r = Ok x -> r = Ok x.
Proof. unfold guard_out. destruct r as [a| | |]; cbn [bind]; try discriminate. destruct (otok_big _); [discriminate|]. exact (fun H => H). Qed.
Lemma read_cc_raw_ok ls is_c s ln ot s' ln' ls' :
  read_cc_raw ls is_c s ln = Ok (ot, s', ln', ls') -> LI ls -> LI ls'.
Proof.
  unfold read_cc_raw. intros H I. repeat brk H;
    try (injection H as ->; eapply read_command_cc_ok; eassumption);
    injection H as <- <- <- <-; try exact I; apply read_error_cmd_ok, I.
Qed.
Lemma read_cc_ok ls is_c s ln ot s' ln' ls' :
  read_cc ls is_c s ln = Ok (ot, s', ln', ls') -> LI ls -> LI ls'.
Proof. unfold read_cc. intros H. apply guard_out_ok in H. exact (read_cc_raw_ok _ _ _ _ _ _ _ _ H). Qed.
Lemma read_rpn_command_ok ls nrpn msb lsb s ln ot s' ln' ls' :
  read_rpn_command ls nrpn msb lsb s ln = Ok (ot, s', ln', ls') -> LI ls -> LI ls'.
Proof.
  unfold read_rpn_command. intros H I. repeat brk H;
    injection H as <- <- <- <-; try exact I; eapply read_args_tokens_ok; eassumption.
Qed.
Lemma read_play_ok ls s ln ot s' ln' ls' :
  read_play ls s ln = Ok (ot, s', ln', ls') -> LI ls -> LI ls'.
Proof.
  unfold read_play. intros H I. repeat brk H; injection H as <- <- <- <-. eapply read_macro_args_ok; eassumption.
Qed.
Lemma read_def_str_ok ls s ln ot s' ln' ls' :
  read_def_str ls s ln = Ok (ot, s', ln', ls') -> LI ls -> LI ls'.
Proof.
  unfold read_def_str. intros H I. repeat brk H;
    injection H as <- <- <- <-; try exact I; apply lx_add_log_ok, I.
Qed.
Lemma read_int_args_ok ls s ln vs s' ln' ls' :
  read_int_args ls s ln = Ok (vs, s', ln', ls') -> LI ls -> LI ls'.
Proof.
  unfold read_int_args. intros H I. repeat brk H; injection H as <- <- <- <-. eapply read_args_tokens_ok; eassumption.
Qed.
Lemma read_int_command_ok ls ty t1 s ln ot s' ln' ls' :
  read_int_command ls ty t1 s ln = Ok (ot, s', ln', ls') -> LI ls -> LI ls'.
Proof.
  unfold read_int_command. intros H I. repeat brk H; injection H as <- <- <- <-; eapply read_int_args_ok; eassumption.
Qed.
Lemma read_ext_command_raw_ok ls ttype argt tag1 tag2 s ln ot s' ln' ls' :
  read_ext_command_raw ls ttype argt tag1 tag2 s ln = Ok (ot, s', ln', ls') -> LI ls -> LI ls'.
Proof.
  unfold read_ext_command_raw. intros H I. repeat brk H;
    try (injection H as ->; first [eapply read_cc_ok; eassumption | eapply read_command_cc_ok; eassumption
                                  | eapply read_rpn_command_ok; eassumption | eapply read_play_ok; eassumption
                                  | eapply read_def_str_ok; eassumption | eapply read_int_command_ok; eassumption]);
    injection H as <- <- <- <-; try exact I;
    first [eapply read_args_tokens_ok; eassumption | eapply read_macro_args_ok; eassumption].
Qed.
Lemma read_ext_command_ok ls ttype argt tag1 tag2 s ln ot s' ln' ls' :
  read_ext_command ls ttype argt tag1 tag2 s ln = Ok (ot, s', ln', ls') -> LI ls -> LI ls'.
Proof. unfold read_ext_command. intros H. apply guard_out_ok in H. exact (read_ext_command_raw_ok _ _ _ _ _ _ _ _ _ _ _ H). Qed.


Section LoopInv.
Variable sublex : lexstate -> list Z -> Z -> res lex_out.
Hypothesis sub_ok : forall ls s ln toks ls', sublex ls s ln = Ok (toks, ls') -> LI ls -> LI ls'.

Lemma LOOPG_log_ok : forall n ls s ln h acc toks ls',
  LOOPG sublex n ls s ln h acc = Ok (toks, ls') -> LI ls -> LI ls'.
Proof.
  induction n as [|n IH]; intros ls s ln h acc toks ls' H I; [discriminate H|].
  cbn [LOOPG] in H.
  repeat brk H;
  lazymatch type of H with
  | Ok _ = Ok _ => injection H as <- <-; exact I
  | _ => eapply IH; [exact H|]
  end;
  try exact I;
  try (apply lex_error_ok, I); try (apply lx_add_log_ok, I);
  try (eapply check_variables_ok; eassumption);
  try (eapply read_args_tokens_ok; eassumption);
  try (eapply read_cc_ok; eassumption);
  try (eapply read_ext_command_ok; eassumption);
  try (eapply sub_ok; eassumption).
Qed.
End LoopInv.

Lemma lex_f_log_ok : forall f ls src ln toks ls', lex_f f ls src ln = Ok (toks, ls') -> LI ls -> LI ls'.
Proof.
  induction f as [|f IH]; intros ls src ln toks ls' H I; [discriminate H|].
  rewrite lex_f_unfold in H. destruct (lex_pre src); [discriminate H|]. unfold LOOP in H. eapply LOOPG_log_ok; [exact IH|exact H|exact I].
Qed.
Lemma lex_log_ok ls src ln toks ls' :
  lex ls src ln = Ok (toks, ls') -> zlen (lx_logs ls) <= SAKURA_MAX_LOGS -> zlen (lx_logs ls') <= SAKURA_MAX_LOGS.
Proof. unfold lex. apply lex_f_log_ok. Qed.
