(* C09 - macros, string variables and Rhythm blocks: the model (LexCore.v / RunCore.v) against spec/MacroSpec.v.
     1. replace_all is THE left-to-right non-overlapping replacement (relation `replaced`, functional)
     2. subst_args = simultaneous replacement of "#?k" under the stated side conditions; witnesses outside them
     3. rhythm_expand = the character automaton rhythm_text; `$x{...}` prepends, later definitions win
     4. executing a TValue token = executing the tokens of its text; sequencing with the loop machine
     5. the built-in macro texts and rhythm letters against command.md (gen/DocMacros.v) *)
From Coq Require Import List ZArith Bool Lia.
From Sakura.Model Require Import Base Cursor Length Event Song Token LoopMachine LexCore Tie RunCore.
From Sakura.Spec Require Import MacroSpec LoopSpec.
From Sakura.Gen Require Import VarRows DocMacros.
From Sakura.Proofs Require Import LoopP ExtP.
From Sakura.Proofs Require Import FollowP.
Import ListNotations.
Open Scope Z_scope.

(* ------------------------------------------------------------------------------------------------ *)
(* 0. lists                                                                                           *)

Lemma starts_prefixb p s : starts p s = prefixb p s.
Proof. reflexivity. Qed.   (* the two fixpoints are the same term *)

Lemma prefixb_app p r : prefixb p (p ++ r) = true.
Proof. induction p as [|x p IH]; cbn; [reflexivity|]. rewrite Z.eqb_refl, IH. reflexivity. Qed.

Lemma prefixb_split p s : prefixb p s = true -> s = p ++ skipn (length p) s.
Proof.
  revert s. induction p as [|x p IH]; intros s H; [reflexivity|].
  destruct s as [|y s]; [discriminate|]. cbn in H. apply andb_prop in H. destruct H as [H1 H2].
  apply Z.eqb_eq in H1. subst y. cbn [length skipn app]. f_equal. apply IH. exact H2.
Qed.

Lemma prefixb_true_iff p s : prefixb p s = true <-> exists r, s = p ++ r.
Proof.
  split.
  - intros H. exists (skipn (length p) s). apply prefixb_split. exact H.
  - intros [r ->]. apply prefixb_app.
Qed.

Lemma app_eq_len {A} (a b c d : list A) : a ++ b = c ++ d -> length a = length c -> a = c /\ b = d.
Proof.
  revert c. induction a as [|x a IH]; intros [|y c] H L; try discriminate.
  - split; [reflexivity|exact H].
  - cbn in H. injection H as -> H. cbn in L. destruct (IH c H) as [-> ->]; [lia|]. split; reflexivity.
Qed.

(* ------------------------------------------------------------------------------------------------ *)
(* 1. replace_all                                                                                     *)

Section Replace.
  Variables pat rep : list Z.
  Hypothesis pat_ne : pat <> [].

  Lemma pat_len_pos : (0 < length pat)%nat.
  Proof. destruct pat; [contradiction|cbn; lia]. Qed.

  (* the unfolding equations of replace_all with enough fuel *)
  Definition ra (s : list Z) : list Z := replace_all (length s) pat rep s.

  Lemma replace_all_fuel2 : forall f1 f2 s, (length s <= f1)%nat -> (length s <= f2)%nat ->
    replace_all f1 pat rep s = replace_all f2 pat rep s.
  Proof.
    induction f1 as [|f1 IH]; intros f2 s H1 H2.
    - destruct s; [destruct f2; reflexivity|cbn in H1; lia].
    - destruct s as [|c r]; [destruct f2; reflexivity|].
      destruct f2 as [|f2]; [cbn in H2; lia|]. cbn [replace_all].
      cbn [length] in H1, H2. pose proof pat_len_pos.
      destruct (prefixb pat (c :: r)); f_equal; apply IH; try lia;
        rewrite skipn_length; cbn [length]; lia.
  Qed.
  Lemma replace_all_fuel : forall fuel s, (length s <= fuel)%nat -> replace_all fuel pat rep s = ra s.
  Proof. intros fuel s H. apply replace_all_fuel2; [exact H|apply le_n]. Qed.

  Lemma ra_nil : ra [] = [].
  Proof. reflexivity. Qed.
  Lemma ra_hit r : ra (pat ++ r) = rep ++ ra r.
  Proof.
    unfold ra at 1. destruct (pat ++ r) as [|c s] eqn:E.
    - destruct pat; [contradiction|discriminate].
    - cbn [length replace_all]. rewrite <- E. rewrite prefixb_app. f_equal.
      rewrite skipn_app, skipn_all, Nat.sub_diag. cbn [skipn app].
      apply replace_all_fuel.
      assert (length (c :: s) = length pat + length r)%nat by (rewrite <- E; apply app_length).
      cbn [length] in H. pose proof pat_len_pos. lia.
  Qed.
  Lemma ra_miss c r : prefixb pat (c :: r) = false -> ra (c :: r) = c :: ra r.
  Proof. intros E. unfold ra at 1. cbn [length replace_all]. rewrite E. reflexivity. Qed.

  (* --- the relation is functional --- *)
  Lemma replaced_unique : forall s o1, replaced pat rep s o1 -> forall o2, replaced pat rep s o2 -> o1 = o2.
  Proof.
    intros s o1 H1. induction H1 as [s Hn | pre rest out Hl Hr IH]; intros o2 H2.
    - inversion H2 as [s' Hn' | pre' rest' out' Hl' Hr' Es]; subst; [reflexivity|].
      exfalso. apply Hn. exists pre', rest'. reflexivity.
    - remember (pre ++ pat ++ rest) as s eqn:Es. destruct H2 as [s Hn' | pre' rest' out' Hl' Hr'].
      + exfalso. apply Hn'. exists pre, rest. exact Es.
      + assert (L : length pre = length pre').
        { pose proof (Hl pre' rest' (eq_sym Es)). pose proof (Hl' pre rest Es). lia. }
        destruct (app_eq_len _ _ _ _ (eq_sym Es) L) as [-> E2].
        apply app_inv_head in E2. subst rest'. rewrite (IH out' Hr'). reflexivity.
  Qed.

  (* --- the model satisfies it --- *)
  Lemma not_occurs_cons c r : prefixb pat (c :: r) = false -> ~ occurs_in pat r -> ~ occurs_in pat (c :: r).
  Proof.
    intros E Hn [a [b Hab]]. destruct a as [|x a].
    - cbn in Hab. rewrite Hab, prefixb_app in E. discriminate.
    - cbn in Hab. injection Hab as _ Hab. apply Hn. exists a, b. exact Hab.
  Qed.

  Lemma replaced_cons c r out : prefixb pat (c :: r) = false ->
    replaced pat rep r out -> replaced pat rep (c :: r) (c :: out).
  Proof.
    intros E H. destruct H as [s Hn | pre rest out Hl Hr].
    - apply rp_none. apply not_occurs_cons; assumption.
    - change (c :: pre ++ pat ++ rest) with ((c :: pre) ++ pat ++ rest).
      change (c :: pre ++ rep ++ out) with ((c :: pre) ++ rep ++ out).
      apply rp_hit; [|exact Hr]. intros a b Hab. destruct a as [|x a].
      + cbn in Hab. rewrite Hab, prefixb_app in E. discriminate.
      + cbn in Hab. injection Hab as _ Hab. cbn [length]. pose proof (Hl a b Hab). lia.
  Qed.

  Lemma ra_replaced : forall n s, (length s <= n)%nat -> replaced pat rep s (ra s).
  Proof.
    induction n as [|n IH]; intros s H.
    - destruct s; [|cbn in H; lia]. apply rp_none. intros [a [b Hab]].
      destruct a; [destruct pat; [contradiction|discriminate]|discriminate].
    - destruct s as [|c r].
      + apply rp_none. intros [a [b Hab]]. destruct a; [destruct pat; [contradiction|discriminate]|discriminate].
      + destruct (prefixb pat (c :: r)) eqn:E.
        * apply prefixb_split in E. rewrite E. rewrite ra_hit.
          apply (rp_hit pat rep [] (skipn (length pat) (c :: r)) (ra (skipn (length pat) (c :: r)))).
          -- intros a b _. cbn. lia.
          -- apply IH. rewrite skipn_length. cbn [length] in *. pose proof pat_len_pos. lia.
        * rewrite (ra_miss c r E). apply replaced_cons; [exact E|]. apply IH. cbn in H. lia.
  Qed.

  Theorem replace_all_spec : forall (s : list Z) (fuel : nat), (length s <= fuel)%nat ->
    forall out, replaced pat rep s out <-> replace_all fuel pat rep s = out.
  Proof.
    intros s fuel Hf out. rewrite (replace_all_fuel fuel s Hf). split.
    - intros H. apply (replaced_unique s (ra s) (ra_replaced (length s) s (le_n _)) out H).
    - intros <-. apply (ra_replaced (length s) s (le_n _)).
  Qed.
End Replace.

(* ------------------------------------------------------------------------------------------------ *)
(* 2. "#?k" substitution                                                                              *)

(* the numerals of 1..9, in the model (format!("{}", i)) and in the specification *)
Lemma show_int_digit k : 1 <= k <= 9 -> show_int k = [48 + k].
Proof.
  intros H. assert (E : k = 1 \/ k = 2 \/ k = 3 \/ k = 4 \/ k = 5 \/ k = 6 \/ k = 7 \/ k = 8 \/ k = 9) by lia.
  repeat (destruct E as [E|E]; [subst k; reflexivity|]). subst k. reflexivity.
Qed.
Lemma decimal_digit k : 1 <= k <= 9 -> decimal k = [48 + k].
Proof.
  intros H. assert (E : k = 1 \/ k = 2 \/ k = 3 \/ k = 4 \/ k = 5 \/ k = 6 \/ k = 7 \/ k = 8 \/ k = 9) by lia.
  repeat (destruct E as [E|E]; [subst k; reflexivity|]). subst k. reflexivity.
Qed.
Lemma placeholder_digit k : 1 <= k <= 9 -> placeholder k = [35; 63; 48 + k].
Proof. intros H. unfold placeholder. rewrite (decimal_digit k H). reflexivity. Qed.

(* --- the specification's scanner, unfolded --- *)
Lemma sim_skip tbl w rest : simultaneous_from tbl (length w) (w ++ rest) = simultaneous_from tbl 0 rest.
Proof. induction w as [|c w IH]; [destruct rest; reflexivity|]. cbn [length app simultaneous_from]. exact IH. Qed.

Lemma sim_hit tbl p v rest : p <> [] -> at_head tbl (p ++ rest) = Some (p, v) ->
  simultaneous_from tbl 0 (p ++ rest) = v ++ simultaneous_from tbl 0 rest.
Proof.
  intros Hp H. destruct p as [|c p]; [contradiction|].
  change ((c :: p) ++ rest) with (c :: (p ++ rest)) in *. cbn [simultaneous_from]. rewrite H.
  cbn [length Nat.pred]. rewrite sim_skip. reflexivity.
Qed.

Lemma sim_miss tbl c r : at_head tbl (c :: r) = None ->
  simultaneous_from tbl 0 (c :: r) = c :: simultaneous_from tbl 0 r.
Proof. intros H. cbn [simultaneous_from]. rewrite H. reflexivity. Qed.

(* --- which placeholder of a call with at most 9 arguments stands at the head of a text --- *)
Definition head_key (i : Z) (l : list (list Z)) (s : list Z) : option (list Z * list Z) :=
  match s with
  | x :: y :: d :: _ =>
      if (35 =? x) && (63 =? y) && ((i <=? d - 48) && (d - 48 <? i + zlen l))
      then Some ([35; 63; d], nth (Z.to_nat (d - 48 - i)) l []) else None
  | _ => None
  end.

Lemma starts3 a b c s : starts [a; b; c] s = match s with x :: y :: z :: _ => (a =? x) && (b =? y) && (c =? z) | _ => false end.
Proof.
  destruct s as [|x [|y [|z s]]]; cbn; try reflexivity.
  - rewrite andb_false_r. reflexivity.
  - rewrite !andb_false_r. reflexivity.
  - rewrite andb_true_r, andb_assoc. reflexivity.
Qed.

Lemma at_head_digits : forall l i s, 1 <= i -> i + zlen l <= 10 ->
  at_head (placeholders i l) s = head_key i l s.
Proof.
  induction l as [|a l IH]; intros i s Hi Hl.
  - cbn [placeholders at_head]. unfold head_key. destruct s as [|x [|y [|z s]]]; try reflexivity.
    unfold zlen. cbn [length Z.of_nat].
    destruct (i <=? z - 48) eqn:E1; destruct (z - 48 <? i + 0) eqn:E2; cbn [andb]; rewrite ?andb_false_r; try reflexivity. lia.
  - unfold zlen in Hl. cbn [length] in Hl. rewrite Nat2Z.inj_succ in Hl.
    cbn [placeholders at_head]. rewrite (IH (i + 1) s) by (unfold zlen; lia).
    rewrite (placeholder_digit i) by lia. rewrite starts3. cbn [negb andb].
    unfold head_key. destruct s as [|x [|y [|z s]]]; try reflexivity. rewrite andb_true_r.
    destruct (35 =? x) eqn:Ex; cbn [andb]; [|reflexivity].
    destruct (63 =? y) eqn:Ey; cbn [andb]; [|reflexivity].
    unfold zlen. cbn [length]. rewrite Nat2Z.inj_succ.
    destruct (48 + i =? z) eqn:Ez.
    + apply Z.eqb_eq in Ez. subst z.
      replace (48 + i - 48) with i by lia.
      replace (i + 1 <=? i) with false by (symmetry; apply Z.leb_gt; lia). cbn [andb].
      rewrite Z.leb_refl. replace (i <? i + Z.succ (Z.of_nat (length l))) with true by (symmetry; apply Z.ltb_lt; lia).
      cbn [andb]. rewrite Z.sub_diag. apply Z.eqb_eq in Ex, Ey. subst. reflexivity.
    + apply Z.eqb_neq in Ez.
      destruct (i + 1 <=? z - 48) eqn:E1.
      * apply Z.leb_le in E1. replace (i <=? z - 48) with true by (symmetry; apply Z.leb_le; lia). cbn [andb].
        replace (i + 1 + Z.of_nat (length l)) with (i + Z.succ (Z.of_nat (length l))) by lia.
        destruct (z - 48 <? i + Z.succ (Z.of_nat (length l))); [|reflexivity].
        replace (Z.to_nat (z - 48 - i)) with (S (Z.to_nat (z - 48 - (i + 1)))) by lia. reflexivity.
      * apply Z.leb_gt in E1. cbn [andb].
        replace (i <=? z - 48) with false by (symmetry; apply Z.leb_gt; lia). reflexivity.
Qed.

Lemma hk_some i l s p v : head_key i l s = Some (p, v) ->
  exists d rest, s = 35 :: 63 :: d :: rest /\ p = [35; 63; d] /\ i <= d - 48 < i + zlen l /\
                 v = nth (Z.to_nat (d - 48 - i)) l [].
Proof.
  unfold head_key. destruct s as [|x [|y [|d rest]]]; try discriminate.
  destruct (35 =? x) eqn:Ex; cbn [andb]; [|discriminate].
  destruct (63 =? y) eqn:Ey; cbn [andb]; [|discriminate].
  destruct (i <=? d - 48) eqn:E1; cbn [andb]; [|discriminate].
  destruct (d - 48 <? i + zlen l) eqn:E2; [|discriminate].
  intros H. injection H as <- <-. apply Z.eqb_eq in Ex, Ey. subst x y. exists d, rest.
  apply Z.leb_le in E1. apply Z.ltb_lt in E2. repeat split; try reflexivity; lia.
Qed.
Lemma hk_char i l c r : c <> 35 -> head_key i l (c :: r) = None.
Proof.
  intros H. unfold head_key. destruct r as [|y [|d rest]]; try reflexivity.
  replace (35 =? c) with false by (symmetry; apply Z.eqb_neq; lia). reflexivity.
Qed.
Lemma hk_in i l d rest : i <= d - 48 < i + zlen l ->
  head_key i l (35 :: 63 :: d :: rest) = Some ([35; 63; d], nth (Z.to_nat (d - 48 - i)) l []).
Proof.
  intros H. unfold head_key. cbn [Z.eqb Pos.eqb andb].
  replace (i <=? d - 48) with true by (symmetry; apply Z.leb_le; lia).
  replace (d - 48 <? i + zlen l) with true by (symmetry; apply Z.ltb_lt; lia). reflexivity.
Qed.
Lemma hk_out i l d rest : ~ (i <= d - 48 < i + zlen l) -> head_key i l (35 :: 63 :: d :: rest) = None.
Proof.
  intros H. unfold head_key. cbn [Z.eqb Pos.eqb andb].
  destruct (i <=? d - 48) eqn:E1; destruct (d - 48 <? i + zlen l) eqn:E2; try reflexivity.
  apply Z.leb_le in E1. apply Z.ltb_lt in E2. lia.
Qed.

(* --- texts that can neither contain nor complete a placeholder --- *)
Fixpoint inert_rec (w : list Z) : Prop :=
  match w with
  | [] => True
  | c :: w' => (c = 35 -> exists c2 w'', w' = c2 :: w'' /\ c2 <> 63) /\ inert_rec w'
  end.

Lemma ends_with_cons x c c2 w : ends_with x (c :: c2 :: w) = ends_with x (c2 :: w).
Proof. reflexivity. Qed.

Lemma arg_inert_rec w : arg_inert w = true -> inert_rec w.
Proof.
  unfold arg_inert. induction w as [|c w IH]; intros H; [exact I|].
  apply andb_prop in H. destruct H as [H1 H2]. apply negb_true_iff in H1, H2.
  cbn [contains] in H1. apply orb_false_iff in H1. destruct H1 as [H1a H1b].
  destruct w as [|c2 w].
  - split; [|exact I]. intros ->. cbn in H2. discriminate.
  - split.
    + intros ->. exists c2, w. split; [reflexivity|]. cbn in H1a. intros ->. discriminate.
    + apply IH. rewrite H1b. rewrite ends_with_cons in H2. rewrite H2. reflexivity.
Qed.

Lemma ra_inert d rep w X : inert_rec w -> ra [35; 63; d] rep (w ++ X) = w ++ ra [35; 63; d] rep X.
Proof.
  induction w as [|c w IH]; intros H; [reflexivity|]. destruct H as [H1 H2].
  cbn [app]. rewrite ra_miss; [rewrite (IH H2); reflexivity|].
  cbn [prefixb]. destruct (35 =? c) eqn:E; [|reflexivity]. apply Z.eqb_eq in E. symmetry in E.
  destruct (H1 E) as [c2 [w'' [-> Hc2]]]. cbn [app prefixb andb].
  replace (63 =? c2) with false by (symmetry; apply Z.eqb_neq; lia). reflexivity.
Qed.

Fixpoint body_rec (b : list Z) : Prop :=
  match b with
  | [] => True
  | c :: r =>
      (c = 35 -> match r with
                 | [] => True
                 | c2 :: r2 => c2 <> 35 /\ (c2 = 63 -> match r2 with [] => True | c3 :: _ => c3 <> 35 end)
                 end) /\ body_rec r
  end.

Lemma body_inert_rec b : body_inert b = true -> body_rec b.
Proof.
  unfold body_inert. induction b as [|c r IH]; intros H; [exact I|].
  apply andb_prop in H. destruct H as [H1 H2]. apply negb_true_iff in H1, H2.
  cbn [contains] in H1, H2. apply orb_false_iff in H1, H2. destruct H1 as [H1a H1b]. destruct H2 as [H2a H2b].
  split; [|apply IH; rewrite H1b, H2b; reflexivity].
  intros ->. destruct r as [|c2 r2]; [exact I|]. split.
  - intros ->. cbn in H1a. discriminate.
  - intros ->. destruct r2 as [|c3 r3]; [exact I|]. intros ->. cbn in H2a. discriminate.
Qed.

Lemma zlen_app {A} (a b : list A) : zlen (a ++ b) = zlen a + zlen b.
Proof. unfold zlen. rewrite app_length, Nat2Z.inj_add. reflexivity. Qed.

Lemma zlen_snoc {A} (l : list A) (a : A) : zlen (l ++ [a]) = zlen l + 1.
Proof. rewrite zlen_app. reflexivity. Qed.

Lemma body_rec_skip3 x y z rest : body_rec (x :: y :: z :: rest) -> body_rec rest.
Proof. intros [_ [_ [_ H]]]. exact H. Qed.

(* replacing the next placeholder in a text where the first j are already replaced (simultaneously) gives the
   text with the first j+1 replaced (simultaneously) *)
Lemma fusion : forall n body prefix a, (length body <= n)%nat ->
  zlen prefix + 1 <= 9 -> Forall inert_rec prefix -> body_rec body ->
  ra [35; 63; 48 + (zlen prefix + 1)] a (simultaneous_from (placeholders 1 prefix) 0 body)
  = simultaneous_from (placeholders 1 (prefix ++ [a])) 0 body.
Proof.
  induction n as [|n IH]; intros body prefix a Hn Hj Hin Hb.
  { destruct body; [reflexivity|cbn in Hn; lia]. }
  destruct body as [|c r]; [reflexivity|].
  assert (Hz : 0 <= zlen prefix) by (unfold zlen; lia).
  assert (AT : forall s, at_head (placeholders 1 prefix) s = head_key 1 prefix s) by (intros s; apply at_head_digits; lia).
  assert (AT' : forall s, at_head (placeholders 1 (prefix ++ [a])) s = head_key 1 (prefix ++ [a]) s).
  { intros s. apply at_head_digits; [lia|]. rewrite zlen_snoc. lia. }
  set (D := 48 + (zlen prefix + 1)) in *.
  destruct (head_key 1 (prefix ++ [a]) (c :: r)) as [[p v]|] eqn:HK'.
  - destruct (hk_some _ _ _ _ _ HK') as [d [rest [Es [-> [Hd ->]]]]].
    rewrite zlen_snoc in Hd.
    rewrite Es in *. cbn [length] in Hn.
    assert (Hrest : body_rec rest) by (apply (body_rec_skip3 _ _ _ _ Hb)).
    change (35 :: 63 :: d :: rest) with ([35; 63; d] ++ rest).
    rewrite (sim_hit (placeholders 1 (prefix ++ [a])) [35; 63; d] _ rest) by (try discriminate; rewrite AT'; exact HK').
    destruct (Z.eq_dec (d - 48) (zlen prefix + 1)) as [Ed|Ed].
    + (* the placeholder being replaced now *)
      assert (d = D) by (unfold D; lia). subst d.
      cbn [app]. rewrite sim_miss by (rewrite AT; apply hk_out; lia).
      rewrite sim_miss by (rewrite AT; apply hk_char; lia).
      rewrite sim_miss by (rewrite AT; apply hk_char; unfold D; lia).
      change (35 :: 63 :: D :: simultaneous_from (placeholders 1 prefix) 0 rest)
        with ([35; 63; D] ++ simultaneous_from (placeholders 1 prefix) 0 rest).
      rewrite ra_hit by discriminate. unfold D. rewrite (IH rest prefix a) by (try assumption; lia).
      f_equal. rewrite app_nth2 by (unfold zlen in *; lia).
      match goal with |- _ = nth ?k _ _ => replace k with 0%nat by (unfold zlen in *; lia) end. reflexivity.
    + (* a placeholder replaced earlier *)
      assert (Hd' : 1 <= d - 48 < 1 + zlen prefix) by lia.
      rewrite (sim_hit (placeholders 1 prefix) [35; 63; d] (nth (Z.to_nat (d - 48 - 1)) prefix []) rest)
        by (try discriminate; rewrite AT; apply hk_in; exact Hd').
      rewrite app_nth1 by (unfold zlen in *; lia).
      rewrite ra_inert.
      * unfold D. rewrite (IH rest prefix a) by (try assumption; lia). reflexivity.
      * rewrite Forall_forall in Hin. apply Hin. apply nth_In. unfold zlen in *. lia.
  - assert (HK : head_key 1 prefix (c :: r) = None).
    { destruct (head_key 1 prefix (c :: r)) as [[p v]|] eqn:HK; [|reflexivity].
      destruct (hk_some _ _ _ _ _ HK) as [d [rest [Es [-> [Hd ->]]]]]. rewrite Es in HK'.
      rewrite hk_in in HK'; [discriminate|]. rewrite zlen_snoc. lia. }
    rewrite sim_miss by (rewrite AT; exact HK). rewrite sim_miss by (rewrite AT'; exact HK').
    cbn [length] in Hn. destruct Hb as [Hc Hr].
    rewrite ra_miss; [unfold D; rewrite (IH r prefix a) by (try assumption; lia); reflexivity|].
    cbn [prefixb]. destruct (35 =? c) eqn:Ec; [|reflexivity]. apply Z.eqb_eq in Ec. symmetry in Ec.
    specialize (Hc Ec). subst c. cbn [andb].
    destruct r as [|c2 r2]; [reflexivity|]. destruct Hc as [Hc2 Hc3].
    rewrite sim_miss by (rewrite AT; apply hk_char; exact Hc2).
    destruct (63 =? c2) eqn:E2; [|reflexivity]. apply Z.eqb_eq in E2. symmetry in E2. specialize (Hc3 E2). subst c2.
    cbn [andb]. destruct r2 as [|c3 r3]; [reflexivity|].
    rewrite sim_miss by (rewrite AT; apply hk_char; exact Hc3).
    destruct (D =? c3) eqn:E3; [|reflexivity]. apply Z.eqb_eq in E3. subst c3.
    rewrite hk_in in HK'; [discriminate|]. rewrite zlen_snoc. unfold D. lia.
Qed.

Fixpoint subst_texts (i : Z) (l : list (list Z)) (text : list Z) : list Z :=
  match l with
  | [] => text
  | a :: r => subst_texts (i + 1) r (ra ([35; 63] ++ show_int i) a text)
  end.

Lemma subst_args_texts : forall args i text, subst_args i args text = subst_texts i (map marg_to_s args) text.
Proof.
  induction args as [|a r IH]; intros i text; [reflexivity|].
  cbn [subst_args map subst_texts]. rewrite IH. f_equal.
  apply replace_all_fuel; [discriminate|lia].
Qed.

Lemma sim_nil s : simultaneous_from [] 0 s = s.
Proof. induction s as [|c r IH]; [reflexivity|]. cbn [simultaneous_from at_head]. rewrite IH. reflexivity. Qed.

Lemma subst_sim : forall r prefix body, zlen prefix + zlen r <= 9 ->
  Forall inert_rec (prefix ++ r) -> body_rec body ->
  subst_texts (1 + zlen prefix) r (simultaneous_from (placeholders 1 prefix) 0 body)
  = simultaneous_from (placeholders 1 (prefix ++ r)) 0 body.
Proof.
  induction r as [|a r IH]; intros prefix body Hl Hin Hb.
  - rewrite app_nil_r. reflexivity.
  - cbn [subst_texts].
    assert (Hz : 0 <= zlen prefix) by (unfold zlen; lia).
    assert (Hr : 1 <= zlen (a :: r)) by (unfold zlen; cbn [length]; lia).
    rewrite show_int_digit by lia. cbn [app].
    replace (48 + (1 + zlen prefix)) with (48 + (zlen prefix + 1)) by lia.
    rewrite (fusion (length body) body prefix a (le_n _)); try assumption; try lia.
    + replace (1 + zlen prefix + 1) with (1 + zlen (prefix ++ [a])) by (rewrite zlen_snoc; lia).
      rewrite IH; try assumption.
      * rewrite <- app_assoc. reflexivity.
      * rewrite zlen_snoc. unfold zlen in *. cbn [length] in *. lia.
      * rewrite <- app_assoc. exact Hin.
    + apply Forall_app in Hin. apply Hin.
Qed.

Theorem subst_spec (args : list (option marg)) (body : list Z) :
  (length args < 10)%nat ->
  forallb (fun a => arg_inert (marg_to_s a)) args = true ->
  body_inert body = true ->
  subst_args 1 args body = simultaneous (map marg_to_s args) body.
Proof.
  intros Hl Ha Hb. rewrite subst_args_texts. unfold simultaneous.
  pose proof (subst_sim (map marg_to_s args) [] body) as H. cbn [app zlen length Z.of_nat] in H.
  rewrite sim_nil in H. apply H.
  - unfold zlen. rewrite map_length. change (Z.of_nat (@length (list Z) [])) with 0. lia.
  - rewrite Forall_forall. intros w Hw. apply in_map_iff in Hw. destruct Hw as [a [<- Hin]].
    apply arg_inert_rec. rewrite forallb_forall in Ha. apply Ha. exact Hin.
  - apply body_inert_rec. exact Hb.
Qed.

(* integer arguments are always inert *)
Lemma dec_digits_chars : forall fuel n acc, Forall (fun c => 48 <= c <= 57) acc ->
  Forall (fun c => 48 <= c <= 57) (dec_digits fuel n acc).
Proof.
  induction fuel as [|f IH]; intros n acc H; [exact H|]. cbn [dec_digits].
  assert (H' : Forall (fun c => 48 <= c <= 57) ((48 + n mod 10) :: acc)).
  { constructor; [|exact H]. pose proof (Z.mod_pos_bound n 10). lia. }
  destruct (n / 10 =? 0); [exact H'|apply IH; exact H'].
Qed.

Lemma no_hash_inert w : Forall (fun c => c <> 35) w -> arg_inert w = true.
Proof.
  intros H. unfold arg_inert. apply andb_true_intro. split; apply negb_true_iff.
  - induction H as [|c w Hc Hw IH]; [reflexivity|]. cbn [contains]. rewrite IH, orb_false_r.
    cbn [starts]. replace (35 =? c) with false by (symmetry; apply Z.eqb_neq; lia). reflexivity.
  - induction H as [|c w Hc Hw IH]; [reflexivity|]. destruct w as [|c2 w].
    + cbn. apply Z.eqb_neq. exact Hc.
    + rewrite ends_with_cons. exact IH.
Qed.

Lemma show_int_inert v : arg_inert (show_int v) = true.
Proof.
  apply no_hash_inert. unfold show_int. destruct (v <? 0).
  - constructor; [lia|]. eapply Forall_impl; [|apply dec_digits_chars; constructor]. cbn. intros; lia.
  - eapply Forall_impl; [|apply dec_digits_chars; constructor]. cbn. intros; lia.
Qed.

(* --- where replacing one after the other is NOT the simultaneous replacement: one witness per side condition --- *)
Definition t_ (s : list Z) := Some (MStr s).
(* an argument that contains a placeholder: #M({#?2},{x}) with body "#?1" *)
Lemma subst_arg_with_placeholder_refuted :
  subst_args 1 [t_ [35; 63; 50]; t_ [120]] [35; 63; 49] = [120] /\
  simultaneous [[35; 63; 50]; [120]] [35; 63; 49] = [35; 63; 50].
Proof. split; vm_compute; reflexivity. Qed.
(* ten arguments: "#?1" is a prefix of "#?10" *)
Lemma subst_ten_arguments_refuted :
  let args := map (fun c => [c]) [97; 98; 99; 100; 101; 102; 103; 104; 105; 106] in
  subst_args 1 (map t_ args) [35; 63; 49; 48] = [97; 48] /\
  simultaneous args [35; 63; 49; 48] = [106].
Proof. split; vm_compute; reflexivity. Qed.
(* an argument that ends with '#' completes a placeholder with the text behind it: body "#?1?2", #M({#},{x}) *)
Lemma subst_arg_ending_hash_refuted :
  arg_inert [35] = false /\
  subst_args 1 [t_ [35]; t_ [120]] [35; 63; 49; 63; 50] = [120] /\
  simultaneous [[35]; [120]] [35; 63; 49; 63; 50] = [35; 63; 50].
Proof. repeat split; vm_compute; reflexivity. Qed.
(* a body with "##": the first '#' and the argument "?2" form "#?2"; no argument contains "#?" *)
Lemma subst_body_double_hash_refuted :
  arg_inert [63; 50] = true /\ arg_inert [120] = true /\ body_inert [35; 35; 63; 49] = false /\
  subst_args 1 [t_ [63; 50]; t_ [120]] [35; 35; 63; 49] = [120] /\
  simultaneous [[63; 50]; [120]] [35; 35; 63; 49] = [35; 63; 50].
Proof. repeat split; vm_compute; reflexivity. Qed.
(* a body with "#?#" and an EMPTY first argument: "#?" + "" + "2" *)
Lemma subst_body_hash_q_hash_refuted :
  arg_inert [] = true /\ body_inert [35; 63; 35; 63; 49; 50] = false /\
  subst_args 1 [t_ []; t_ [120]] [35; 63; 35; 63; 49; 50] = [120] /\
  simultaneous [[]; [120]] [35; 63; 35; 63; 49; 50] = [35; 63; 50].
Proof. repeat split; vm_compute; reflexivity. Qed.

(* ------------------------------------------------------------------------------------------------ *)
(* 3. Rhythm{...}                                                                                     *)

Lemma rskip0 def s : rhythm_text def (RSkip 0) s = rhythm_text def RNormal s.
Proof. destruct s; reflexivity. Qed.

(* get_token_nest('(', ')') on the text behind an opening parenthesis = the automaton in mode RParen *)
Lemma paren_span def : forall s ln d src r' ln',
  token_nest_loop s ln 40 41 (S d) = (src, r', ln') ->
  rhythm_text def (RParen d) s = src ++ rhythm_text def RNormal r' /\ (length r' <= length s)%nat.
Proof.
  induction s as [|c r IH]; intros ln d src r' ln' H.
  - cbn in H. injection H as <- <- <-. split; [reflexivity|apply le_n].
  - cbn [token_nest_loop] in H. cbn [rhythm_text].
    destruct (c =? 40) eqn:E40.
    + destruct (token_nest_loop r (if c =? c_NL then ln + 1 else ln) 40 41 (S (S d))) as [[t r1] ln1] eqn:E.
      injection H as <- <- <-. destruct (IH _ _ _ _ _ E) as [H1 H2]. rewrite H1. split; [reflexivity|cbn [length]; lia].
    + destruct (c =? 41) eqn:E41.
      * cbn [Nat.pred] in H. destruct d as [|d'].
        -- injection H as <- <- <-. split; [reflexivity|cbn [length]; lia].
        -- destruct (token_nest_loop r (if c =? c_NL then ln + 1 else ln) 40 41 (S d')) as [[t r1] ln1] eqn:E.
           injection H as <- <- <-. destruct (IH _ _ _ _ _ E) as [H1 H2]. rewrite H1. split; [reflexivity|cbn [length]; lia].
      * destruct (token_nest_loop r (if c =? c_NL then ln + 1 else ln) 40 41 (S d)) as [[t r1] ln1] eqn:E.
        injection H as <- <- <-. destruct (IH _ _ _ _ _ E) as [H1 H2]. rewrite H1. split; [reflexivity|cbn [length]; lia].
Qed.

(* the string constants of the model, as code points *)
Ltac eval_zs := repeat match goal with |- context [zs ?a] => let v := eval vm_compute in (zs a) in change (zs a) with v end.

Theorem rhythm_expand_spec (tbl : list (Z * list Z)) : forall (fuel : nat) (s : list Z), (length s < fuel)%nat ->
  rhythm_expand fuel tbl s = rhythm_expansion (fun c => rhythm_get c tbl) s.
Proof.
  unfold rhythm_expansion. induction fuel as [|f IH]; intros s H; [lia|].
  destruct s as [|c r]; [reflexivity|]. cbn [rhythm_expand rhythm_text]. eval_zs.
  change (starts [83; 117; 98] (c :: r)) with (prefixb [83; 117; 98] (c :: r)).
  change (starts [83; 85; 66] (c :: r)) with (prefixb [83; 85; 66] (c :: r)).
  cbn [length] in H.
  destruct (prefixb [83; 117; 98] (c :: r) || prefixb [83; 85; 66] (c :: r)) eqn:ES.
  - assert (E : exists x y rest, r = x :: y :: rest).
    { apply orb_prop in ES. destruct ES as [ES|ES]; apply prefixb_split in ES; cbn [length skipn app] in ES;
        injection ES as _ ES; destruct r as [|x [|y rest]]; try discriminate; eauto. }
    destruct E as [x [y [rest ->]]]. cbn [skipn rhythm_text]. rewrite rskip0. rewrite IH by (cbn [length] in H; lia).
    reflexivity.
  - destruct (c =? 40) eqn:E40.
    + unfold get_token_nest. cbn [eq_char]. rewrite E40. cbn [tl].
      destruct (token_nest_loop r 0 40 41 1) as [[src r'] ln'] eqn:E.
      destruct (paren_span (fun c0 => rhythm_get c0 tbl) _ _ _ _ _ _ E) as [H1 H2]. rewrite H1.
      rewrite IH by lia. reflexivity.
    + unfold definable. destruct ((64 <=? c) && (c <=? 127)).
      * rewrite IH by lia. destruct (rhythm_get c tbl); reflexivity.
      * rewrite IH by lia. reflexivity.
Qed.

(* `$x{t}`: the definition is put in FRONT of the table and the first row of a letter is the one that counts *)
Lemma rhythm_get_redefine tbl x t c : rhythm_get c ((x, t) :: tbl) = redefine (fun c0 => rhythm_get c0 tbl) x t c.
Proof. unfold redefine. cbn [rhythm_get]. rewrite (Z.eqb_sym x c). reflexivity. Qed.

Lemma rhythm_get_last_wins tbl x t1 t2 c : rhythm_get c ((x, t2) :: (x, t1) :: tbl) = rhythm_get c ((x, t2) :: tbl).
Proof. cbn [rhythm_get]. destruct (x =? c); reflexivity. Qed.

(* ------------------------------------------------------------------------------------------------ *)
(* 4. executing a string variable / macro                                                             *)

Lemma song_with_ls_same s : song_with_ls s (ls_of_song s) = s.
Proof. destruct s; unfold song_with_ls; cbn. rewrite map_follow_same. reflexivity. Qed.

(* the text a TValue token stands for *)
Definition call_text (args : option (list (option marg))) (body : list Z) : list Z :=
  match args with Some a => subst_args 1 a body | None => body end.

(* Executing the token = lexing its text at this point and executing the tokens as a nested exec():
   when the text defines nothing (the lexer state comes back unchanged), that is exec() of the tokens on the
   same song. *)
Theorem macro_inline_step (ec : list tok -> res song -> res song) name args lineno s body tag toks :
  vars_get name (s_vars s) = Some (VStr body tag) ->
  lex (ls_of_song s) (call_text args body) lineno = Ok (toks, ls_of_song s) ->
  step_song ec (TValue name args lineno) s = ec toks (Ok s).
Proof.
  intros Hv Hl. cbn [step_song]. rewrite Hv. cbn [bind]. fold (call_text args body). rewrite Hl. cbn [bind].
  rewrite song_with_ls_same. reflexivity.
Qed.

(* in general: the nested exec() runs on the song updated with what the text defined at lex time *)
Theorem macro_step_general (ec : list tok -> res song -> res song) name args lineno s body tag toks ls' :
  vars_get name (s_vars s) = Some (VStr body tag) ->
  lex (ls_of_song s) (call_text args body) lineno = Ok (toks, ls') ->
  step_song ec (TValue name args lineno) s = ec toks (Ok (song_with_ls s ls')).
Proof.
  intros Hv Hl. cbn [step_song]. rewrite Hv. cbn [bind]. fold (call_text args body). rewrite Hl. reflexivity.
Qed.

(* --- more nesting fuel never changes an answer other than OutOfFuel --- *)
Definition refines (ec1 ec2 : list tok -> res song -> res song) : Prop :=
  forall X s r, ec1 X (Ok s) = r -> r <> OutOfFuel -> ec2 X (Ok s) = r.

Lemma play_parts_refines ec1 ec2 ln sp : refines ec1 ec2 ->
  forall args i s last r, play_parts ec1 ln sp args i s last = r -> r <> OutOfFuel -> play_parts ec2 ln sp args i s last = r.
Proof.
  intros Href. induction args as [|a rest IH]; intros i s last r; [intros <- _; reflexivity|].
  cbn [play_parts]. intros <- Hr.
  match goal with |- bind ?A _ = _ => destruct A as [[toks ls']| | |] end; cbn [bind] in *; try reflexivity.
  match goal with |- context [ec2 ?X (Ok ?x)] => destruct (ec1 X (Ok x)) as [s3| | |] eqn:E end;
    try (rewrite (Href _ _ _ E) by discriminate; cbn [bind]; try reflexivity).
  - cbn [bind] in Hr. apply (IH _ _ _ _ eq_refl Hr).
  - exfalso. apply Hr. reflexivity.
Qed.
Lemma exec_play_refines ec1 ec2 s args ln r : refines ec1 ec2 ->
  exec_play ec1 s args ln = r -> r <> OutOfFuel -> exec_play ec2 s args ln = r.
Proof.
  intros Href. unfold exec_play. destruct (_ || _); [intros <- _; reflexivity|]. intros <- Hr.
  destruct (play_parts ec1 ln (tr_timepos (cur_track s)) args 1 s (tr_timepos (cur_track s))) as [[s4 last]| | |] eqn:E;
    try (rewrite (play_parts_refines ec1 ec2 ln _ Href _ _ _ _ _ E) by discriminate; reflexivity).
  exfalso. apply Hr. reflexivity.
Qed.

Lemma step_song_refines ec1 ec2 : refines ec1 ec2 ->
  forall t s r, step_song ec1 t s = r -> r <> OutOfFuel -> step_song ec2 t s = r.
Proof.
  intros Href t s r. destruct t; try (intros <- _; reflexivity).
  - (* TDiv *) cbn [step_song]. intros <- Hr.
    match goal with |- context [ec2 ?X (Ok ?x)] => destruct (ec1 X (Ok x)) as [s2| | |] eqn:E end;
      try (rewrite (Href _ _ _ E) by discriminate; reflexivity).
    exfalso. apply Hr. reflexivity.
  - (* TSub *) cbn [step_song]. intros <- Hr.
    match goal with |- context [ec2 ?X (Ok ?x)] => destruct (ec1 X (Ok x)) as [s2| | |] eqn:E end;
      try (rewrite (Href _ _ _ E) by discriminate; reflexivity).
    exfalso. apply Hr. reflexivity.
  - (* TValue *) cbn [step_song]. intros <- Hr.
    match goal with |- bind ?A _ = _ => destruct A as [[body s1]| | |] end; cbn [bind] in *; try reflexivity.
    match goal with |- bind ?A _ = _ => destruct A as [[toks ls']| | |] end; cbn [bind] in *; try reflexivity.
    apply (Href _ _ _ eq_refl Hr).
  - (* TPlay *) cbn [step_song]. intros E Hr. apply (exec_play_refines ec1 ec2 _ _ _ _ Href E Hr).
Qed.

Lemma step_tok_refines ec1 ec2 : refines ec1 ec2 ->
  forall t st r, step_tok ec1 t st = r -> r <> OutOfFuel -> step_tok ec2 t st = r.
Proof.
  intros Href t [s| | |] r; cbn [step_tok bind]; try (intros <- _; reflexivity).
  apply step_song_refines. exact Href.
Qed.

Lemma res_eq_oof (r : res song) : r = OutOfFuel \/ r <> OutOfFuel.
Proof. destruct r; [right|right|left|right]; try discriminate; reflexivity. Qed.

Section MachineRefines.
  Variables step1 step2 : tok -> res song -> res song.
  Hypothesis Hstep : forall t st r, step1 t st = r -> r <> OutOfFuel -> step2 t st = r.
  Notation mstep1 := (mstep tok (res song) step1 halted count_of).
  Notation mstep2 := (mstep tok (res song) step2 halted count_of).

  Lemma mstep_refines_none toks c : mstep1 toks c = None -> mstep2 toks c = None.
  Proof.
    unfold mstep. destruct (nth_error toks (pos (res song) c)) as [t|]; [|reflexivity].
    destruct (halted (st (res song) c)); [reflexivity|].
    destruct t as [n| | |d]; try discriminate.
    - destruct (stack (res song) c) as [|it rest]; [discriminate|].
      destruct (Nat.leb (count it) (S (index it))); [|discriminate].
      match goal with |- context [Nat.ltb 0 ?e] => destruct (Nat.ltb 0 e) end; discriminate.
    - destruct (stack (res song) c) as [|it rest]; [discriminate|].
      match goal with |- context [Nat.ltb ?a ?b] => destruct (Nat.ltb a b) end; discriminate.
  Qed.

  Lemma mstep_refines_some toks c c1 : mstep1 toks c = Some c1 -> st (res song) c1 <> OutOfFuel -> mstep2 toks c = Some c1.
  Proof.
    unfold mstep. destruct (nth_error toks (pos (res song) c)) as [t|]; [|discriminate].
    destruct (halted (st (res song) c)); [discriminate|].
    destruct t as [n| | |d]; try (intros H _; exact H).
    intros H Hg. injection H as <-. cbn [st] in Hg. rewrite (Hstep d _ _ eq_refl Hg). reflexivity.
  Qed.

  Lemma mrun_refines toks : forall fuel c c', mrun tok (res song) step1 halted count_of fuel toks c = Some c' ->
    st (res song) c' <> OutOfFuel -> mrun tok (res song) step2 halted count_of fuel toks c = Some c'.
  Proof.
    induction fuel as [|f IH]; intros c c' H Hg; [discriminate|]. cbn [mrun] in *.
    destruct (mstep1 toks c) as [c1|] eqn:E.
    - destruct (res_eq_oof (st (res song) c1)) as [Hb|Hb].
      + (* the step ran out of nesting fuel: the machine stops there, so the result is OutOfFuel *)
        exfalso. destruct f as [|f']; [discriminate|]. cbn [mrun] in H.
        assert (En : mstep1 toks c1 = None).
        { unfold mstep. destruct (nth_error toks (pos (res song) c1)); [|reflexivity]. rewrite Hb. reflexivity. }
        rewrite En in H. injection H as <-. apply Hg. exact Hb.
      + rewrite (mstep_refines_some toks c c1 E Hb). apply IH; assumption.
    - rewrite (mstep_refines_none toks c E). exact H.
  Qed.
End MachineRefines.

Theorem exec_f_depth_mono steps : forall d, refines (exec_f d steps) (exec_f (S d) steps).
Proof.
  induction d as [|d IH]; intros X s r H Hg.
  - cbn in H. subst r. exfalso. apply Hg. reflexivity.
  - cbn [exec_f] in H. change (exec_f (S (S d)) steps X (Ok s)) with
      (match run tok (res song) (step_tok (exec_f (S d) steps)) halted count_of steps (map to_ltok X) (Ok s) with
       | Some s' => s' | None => OutOfFuel end).
    unfold run in *.
    destruct (mrun tok (res song) (step_tok (exec_f d steps)) halted count_of steps (map to_ltok X)
                   (mkCfg (res song) 0 [] (Ok s))) as [c|] eqn:E; [|subst r; exfalso; apply Hg; reflexivity].
    subst r.
    rewrite (mrun_refines (step_tok (exec_f d steps)) (step_tok (exec_f (S d) steps))
               (step_tok_refines _ _ IH) _ _ _ _ E Hg). reflexivity.
Qed.

(* --- structured programs (spec/LoopSpec.v) as token lists --- *)
Definition plain_tok (t : tok) : bool :=
  match t with TLoopBegin _ | TLoopBreak | TLoopEnd => false | _ => true end.

Fixpoint leaves_ok_item (i : item tok) : bool :=
  match i with
  | Leaf d => plain_tok d
  | Loop n a b => leaves_ok a && match b with None => true | Some b' => leaves_ok b' end
  end
with leaves_ok (p : prog tok) : bool :=
  match p with
  | PNil => true
  | PCons i p' => leaves_ok_item i && leaves_ok p'
  end.

Definition unflat (l : list (ltok tok)) : list tok :=
  map (fun x => match x with LBegin n => TLoopBegin n | LBreak => TLoopBreak | LEnd => TLoopEnd | LOther t => t end) l.
Definition toks_of (p : prog tok) : list tok := unflat (flatten p).

Lemma unflat_app a b : unflat (a ++ b) = unflat a ++ unflat b.
Proof. apply map_app. Qed.

Lemma to_ltok_unflat :
  (forall i : item tok, leaves_ok_item i = true -> map to_ltok (unflat (flat_item i)) = flat_item i) /\
  (forall p : prog tok, leaves_ok p = true -> map to_ltok (unflat (flatten p)) = flatten p).
Proof.
  apply item_prog_mutind.
  - intros d H. cbn in *. destruct d; try discriminate; reflexivity.
  - intros n a IHa H. cbn [leaves_ok_item] in H. rewrite andb_true_r in H.
    rewrite flat_item_none. cbn [unflat map]. change (map _ (flatten a ++ [LEnd])) with (unflat (flatten a ++ [LEnd])).
    rewrite unflat_app, map_app, (IHa H). reflexivity.
  - intros n a b IHa IHb H. cbn [leaves_ok_item] in H. apply andb_prop in H. destruct H as [Ha Hb].
    rewrite flat_item_some. cbn [unflat map].
    change (map _ (flatten a ++ [LBreak] ++ flatten b ++ [LEnd])) with (unflat (flatten a ++ [LBreak] ++ flatten b ++ [LEnd])).
    rewrite !unflat_app, !map_app, (IHa Ha), (IHb Hb). reflexivity.
  - intros _. reflexivity.
  - intros i p IHi IHp H. cbn [leaves_ok] in H. apply andb_prop in H. destruct H as [Hi Hp].
    rewrite flatten_cons, unflat_app, map_app, (IHi Hi), (IHp Hp). reflexivity.
Qed.

Lemma toks_of_app p q : toks_of (papp p q) = toks_of p ++ toks_of q.
Proof. unfold toks_of. rewrite flatten_app, unflat_app. reflexivity. Qed.

Lemma toks_of_leaf t p : toks_of (PCons (Leaf t) p) = t :: toks_of p.
Proof. reflexivity. Qed.

Lemma leaves_ok_app p q : leaves_ok (papp p q) = leaves_ok p && leaves_ok q.
Proof. induction p as [|i p IH]; [reflexivity|]. cbn [papp leaves_ok]. rewrite IH, andb_assoc. reflexivity. Qed.

Section Structured.
  Variable steps : nat.
  Notation semd d := (sem tok (res song) (step_tok (exec_f d steps)) halted (count1 count_of)).
  Notation sem_itemd d := (sem_item tok (res song) (step_tok (exec_f d steps)) halted (count1 count_of)).
  Notation costd d := (cost tok (res song) (step_tok (exec_f d steps)) halted (count1 count_of)).

  (* exec() on the token list of a structured program = the structured meaning (C05), with enough loop fuel *)
  Lemma exec_f_structured d p r0 : leaves_ok p = true -> (costd d p r0 < steps)%nat ->
    exec_f (S d) steps (toks_of p) r0 = semd d p r0.
  Proof.
    intros Hp Hc. cbn [exec_f]. unfold toks_of. rewrite (proj2 to_ltok_unflat p Hp).
    rewrite (run_flat_total tok (res song) (step_tok (exec_f d steps)) halted count_of p r0 steps Hc). reflexivity.
  Qed.

  Lemma cost_app d p q r0 : costd d (papp p q) r0 = (costd d p r0 + costd d q (semd d p r0))%nat.
  Proof.
    revert r0. induction p as [|i p IH]; intros r0; [reflexivity|].
    cbn [papp]. rewrite !cost_cons, sem_cons, IH. lia.
  Qed.

  (* A call between two balanced token lists (any loops inside them) against the same lists with the tokens of
     the macro text written in place of the call.  The call-site condition is asked at the state in which the
     call is reached. *)
  Theorem macro_inline_seq d (p1 q p2 : prog tok) (tv : tok) (s0 : song) :
    leaves_ok p1 = true -> leaves_ok q = true -> leaves_ok p2 = true -> plain_tok tv = true ->
    (costd d (papp p1 (PCons (Leaf tv) p2)) (Ok s0) < steps)%nat ->
    (costd d (papp p1 (papp q p2)) (Ok s0) < steps)%nat ->
    (forall s1, semd d p1 (Ok s0) = Ok s1 -> s_break_flag s1 = 0 ->
                step_song (exec_f d steps) tv s1 = exec_f d steps (toks_of q) (Ok s1)) ->
    exec_f (S d) steps (toks_of p1 ++ [tv] ++ toks_of p2) (Ok s0) <> OutOfFuel ->
    exec_f (S d) steps (toks_of p1 ++ toks_of q ++ toks_of p2) (Ok s0)
    = exec_f (S d) steps (toks_of p1 ++ [tv] ++ toks_of p2) (Ok s0).
  Proof.
    intros H1 Hq H2 Htv Hc1 Hc2 Hsite Hgood.
    change ([tv] ++ toks_of p2) with (toks_of (PCons (Leaf tv) p2)) in *.
    rewrite <- !toks_of_app in *.
    rewrite exec_f_structured in Hgood |- *; try assumption;
      try (rewrite !leaves_ok_app; cbn [leaves_ok leaves_ok_item]; rewrite ?H1, ?Hq, ?H2, ?Htv; reflexivity).
    rewrite exec_f_structured; try assumption;
      try (rewrite !leaves_ok_app; cbn [leaves_ok leaves_ok_item]; rewrite ?H1, ?Hq, ?H2, ?Htv; reflexivity).
    rewrite !sem_app in *. rewrite sem_cons in *.
    rewrite !cost_app in Hc2.
    remember (semd d p1 (Ok s0)) as r1 eqn:Er1.
    destruct (halted r1) eqn:Hh.
    - rewrite (proj1 (sem_halted tok (res song) _ halted _) _ r1 Hh).
      rewrite (proj2 (sem_halted tok (res song) _ halted _) q r1 Hh). reflexivity.
    - destruct r1 as [s1| | |]; try discriminate. cbn [halted] in Hh. apply negb_false_iff in Hh. apply Z.eqb_eq in Hh.
      rewrite sem_item_leaf in *. cbn [halted] in *. rewrite Hh in *. cbn [Z.eqb negb] in *.
      cbn [step_tok bind] in *. rewrite (Hsite s1 eq_refl Hh) in *.
      destruct (res_eq_oof (exec_f d steps (toks_of q) (Ok s1))) as [Eo|Eo].
      + exfalso. apply Hgood. rewrite Eo. apply (proj2 (sem_halted tok (res song) _ halted _)). reflexivity.
      + rewrite <- (exec_f_depth_mono steps d _ _ _ eq_refl Eo).
        rewrite exec_f_structured; [reflexivity|exact Hq|lia].
  Qed.
End Structured.

(* ------------------------------------------------------------------------------------------------ *)
(* 5. the built-in macros and rhythm letters of mml_def.rs against command.md                         *)

(* every macro text documented in command.md is the text the program starts with *)
Theorem builtin_macros_documented : forall name text,
  In (name, text) doc_macro_rows -> vars_get name init_vars = Some (VStr text 0).
Proof.
  intros name text H. cbn [doc_macro_rows In] in H.
  repeat (destruct H as [H|H]; [injection H as <- <-; vm_compute; reflexivity|]). contradiction.
Qed.

(* the four of the property are documented, in this order *)
Lemma doc_macro_names : map fst doc_macro_rows =
  [ [79; 99; 116; 97; 118; 101; 85; 110; 105; 115; 111; 110]      (* OctaveUnison *);
    [85; 110; 105; 115; 111; 110; 53; 116; 104]                    (* Unison5th *);
    [85; 110; 105; 115; 111; 110; 51; 116; 104]                    (* Unison3th *);
    [85; 110; 105; 115; 111; 110] ].                               (* Unison *)
Proof. reflexivity. Qed.

(* the program has exactly one more built-in text macro, RndTiming, which command.md does not list *)
Lemma code_macro_names : map fst (filter (fun r => fst (snd r) =? 1) var_rows) =
  map fst doc_macro_rows ++ [[82; 110; 100; 84; 105; 109; 105; 110; 103]].
Proof. vm_compute. reflexivity. Qed.

(* rhythm letters: every documented letter except H has the documented text ... *)
Theorem rhythm_letters_documented : forall c t,
  In (c, t) doc_rhythm_rows -> c <> 72 -> rhythm_get c rhythm_rows = t.
Proof.
  intros c t H Hc. cbn [doc_rhythm_rows In] in H.
  repeat (destruct H as [H|H]; [injection H as <- <-; try (exfalso; apply Hc; reflexivity); vm_compute; reflexivity|]).
  contradiction.
Qed.
(* ... H is n50 in mml_def.rs and n44 in command.md *)
Lemma rhythm_letter_H_differs :
  rhythm_get 72 rhythm_rows = [110; 53; 48; 44] /\ In (72, [110; 52; 52; 44]) doc_rhythm_rows.
Proof. split; [reflexivity|]. cbn. tauto. Qed.
(* ... and m, M, L are defined by the program but absent from command.md *)
Lemma rhythm_letters_undocumented :
  filter (fun r => negb (existsb (Z.eqb (fst r)) (map fst doc_rhythm_rows))) rhythm_rows =
  [(109, [110; 52; 54; 44]); (77, [110; 52; 55; 44]); (76, [110; 52; 51; 44])].
Proof. reflexivity. Qed.

(* ------------------------------------------------------------------------------------------------ *)
(* 6. putting 4 together; the decidable and the propositional notion of occurrence                    *)

Theorem macro_inline_exec (steps d : nat) (p1 q p2 : prog tok) name args ln (s0 : song) :
  leaves_ok p1 = true -> leaves_ok q = true -> leaves_ok p2 = true ->
  (cost tok (res song) (step_tok (exec_f d steps)) halted (count1 count_of)
        (papp p1 (PCons (Leaf (TValue name args ln)) p2)) (Ok s0) < steps)%nat ->
  (cost tok (res song) (step_tok (exec_f d steps)) halted (count1 count_of) (papp p1 (papp q p2)) (Ok s0) < steps)%nat ->
  (forall s1, sem tok (res song) (step_tok (exec_f d steps)) halted (count1 count_of) p1 (Ok s0) = Ok s1 ->
              s_break_flag s1 = 0 ->
              exists body tag, vars_get name (s_vars s1) = Some (VStr body tag) /\
                               lex (ls_of_song s1) (call_text args body) ln = Ok (toks_of q, ls_of_song s1)) ->
  exec_f (S d) steps (toks_of p1 ++ [TValue name args ln] ++ toks_of p2) (Ok s0) <> OutOfFuel ->
  exec_f (S d) steps (toks_of p1 ++ toks_of q ++ toks_of p2) (Ok s0)
  = exec_f (S d) steps (toks_of p1 ++ [TValue name args ln] ++ toks_of p2) (Ok s0).
Proof.
  intros H1 Hq H2 Hc1 Hc2 Hsite Hgood.
  apply (macro_inline_seq steps d p1 q p2 (TValue name args ln) s0); try assumption; [reflexivity|].
  intros s1 Es1 Hb. destruct (Hsite s1 Es1 Hb) as [body [tag [Hv Hl]]].
  apply (macro_inline_step _ name args ln s1 body tag _ Hv Hl).
Qed.

Lemma starts_true_iff p s : starts p s = true <-> exists r, s = p ++ r.
Proof. rewrite starts_prefixb. apply prefixb_true_iff. Qed.

Lemma contains_occurs p s : contains p s = true <-> occurs_in p s.
Proof.
  split.
  - induction s as [|c r IH]; cbn [contains]; intros H.
    + rewrite orb_false_r in H. apply starts_true_iff in H. destruct H as [r ->]. exists [], r. reflexivity.
    + apply orb_prop in H. destruct H as [H|H].
      * apply starts_true_iff in H. destruct H as [r' ->]. exists [], r'. reflexivity.
      * destruct (IH H) as [a [b ->]]. exists (c :: a), b. reflexivity.
  - intros [a [b ->]]. induction a as [|c a IH].
    + cbn [app]. destruct (p ++ b) eqn:E; cbn [contains]; rewrite <- E.
      * replace (starts p (p ++ b)) with true by (symmetry; apply starts_true_iff; eauto). reflexivity.
      * replace (starts p (p ++ b)) with true by (symmetry; apply starts_true_iff; eauto). reflexivity.
    + cbn [app contains]. rewrite IH. apply orb_true_r.
Qed.

(* ------------------------------------------------------------------------------------------------ *)
(* 7. call sites anywhere in a structured program (generic in the tokens, like C05)                   *)

Section Ctx.
  Variable D : Type.
  Variable St : Type.
  Variable step : D -> St -> St.
  Variable halted : St -> bool.
  Variable cnt : Z -> St -> nat.
  Notation sem' := (sem D St step halted cnt).
  Notation sem_item' := (sem_item D St step halted cnt).
  Notation sem_opt' := (sem_opt D St step halted cnt).

  (* a context: a structured program whose leaves are tokens (Some d) or the place of the call (None) *)
  Fixpoint fill_item (x : D) (i : item (option D)) : item D :=
    match i with
    | Leaf o => Leaf (match o with Some d => d | None => x end)
    | Loop n a b => Loop n (fill x a) (match b with None => None | Some b' => Some (fill x b') end)
    end
  with fill (x : D) (p : prog (option D)) : prog D :=
    match p with
    | PNil => PNil
    | PCons i p' => PCons (fill_item x i) (fill x p')
    end.

  Fixpoint splice_item (q : prog D) (i : item (option D)) : prog D :=
    match i with
    | Leaf o => match o with Some d => PCons (Leaf d) PNil | None => q end
    | Loop n a b => PCons (Loop n (splice q a) (match b with None => None | Some b' => Some (splice q b') end)) PNil
    end
  with splice (q : prog D) (p : prog (option D)) : prog D :=
    match p with
    | PNil => PNil
    | PCons i p' => papp (splice_item q i) (splice q p')
    end.

  Fixpoint ctx_leaves_item (Q : D -> Prop) (i : item (option D)) : Prop :=
    match i with
    | Leaf o => match o with Some d => Q d | None => True end
    | Loop n a b => ctx_leaves Q a /\ match b with None => True | Some b' => ctx_leaves Q b' end
    end
  with ctx_leaves (Q : D -> Prop) (p : prog (option D)) : Prop :=
    match p with
    | PNil => True
    | PCons i p' => ctx_leaves_item Q i /\ ctx_leaves Q p'
    end.

  Fixpoint all_leaves_item (Q : D -> Prop) (i : item D) : Prop :=
    match i with
    | Leaf d => Q d
    | Loop n a b => all_leaves Q a /\ match b with None => True | Some b' => all_leaves Q b' end
    end
  with all_leaves (Q : D -> Prop) (p : prog D) : Prop :=
    match p with
    | PNil => True
    | PCons i p' => all_leaves_item Q i /\ all_leaves Q p'
    end.

  Variable P : St -> Prop.               (* an invariant of the interpreter state *)
  Variable bot : St.                     (* "ran out of fuel": halted, and below every answer *)
  Hypothesis bot_halted : halted bot = true.
  Hypothesis P_bot : P bot.
  Definition le (r1 r2 : St) : Prop := r1 = r2 \/ r1 = bot.
  Definition keeps (d : D) : Prop := forall s, P s -> P (step d s).

  Lemma passes_keeps (fa fb : St -> St) : (forall s, P s -> P (fa s)) -> (forall s, P s -> P (fb s)) ->
    forall k s, P s -> P (passes fa fb k s).
  Proof.
    intros Ha Hb. induction k as [|k IH]; intros s Hs; [exact Hs|].
    destruct k as [|k]; [apply Ha; exact Hs|]. rewrite passes_SS. apply IH. apply Hb, Ha, Hs.
  Qed.

  Lemma sem_keeps :
    (forall i, all_leaves_item keeps i -> forall s, P s -> P (sem_item' i s)) /\
    (forall p, all_leaves keeps p -> forall s, P s -> P (sem' p s)).
  Proof.
    apply item_prog_mutind.
    - intros d H s Hs. rewrite sem_item_leaf. destruct (halted s); [exact Hs|apply H; exact Hs].
    - intros n a IHa [Ha _] s Hs. rewrite sem_item_loop. apply passes_keeps; [apply IHa; exact Ha|intros; assumption|exact Hs].
    - intros n a b IHa IHb [Ha Hb] s Hs. rewrite sem_item_loop.
      apply passes_keeps; [apply IHa; exact Ha|apply IHb; exact Hb|exact Hs].
    - intros _ s Hs. exact Hs.
    - intros i p IHi IHp [Hi Hp] s Hs. rewrite sem_cons. apply IHp; [exact Hp|]. apply IHi; assumption.
  Qed.

  Lemma passes_le (fa fb fa' fb' : St -> St) :
    (forall s, P s -> le (fa s) (fa' s) /\ P (fa s)) -> (forall s, P s -> le (fb s) (fb' s) /\ P (fb s)) ->
    (forall x, halted x = true -> fa x = x) -> (forall x, halted x = true -> fb x = x) ->
    forall k s, P s -> le (passes fa fb k s) (passes fa' fb' k s) /\ P (passes fa fb k s).
  Proof.
    intros Ha Hb Hfa Hfb. induction k as [|k IH]; intros s Hs; [split; [left; reflexivity|exact Hs]|].
    destruct k as [|k]; [rewrite !passes_1; apply Ha; exact Hs|]. rewrite !passes_SS.
    destruct (Ha s Hs) as [[Ea|Ea] Pa].
    - rewrite <- Ea. destruct (Hb (fa s) Pa) as [[Eb|Eb] Pb].
      + rewrite <- Eb. apply IH. exact Pb.
      + rewrite Eb. rewrite (passes_halted St halted fa fb Hfa Hfb (S k) bot bot_halted). split; [right; reflexivity|exact P_bot].
    - rewrite Ea. rewrite (Hfb bot bot_halted).
      rewrite (passes_halted St halted fa fb Hfa Hfb (S k) bot bot_halted). split; [right; reflexivity|exact P_bot].
  Qed.

  Variable tv : D.
  Variable q : prog D.
  Hypothesis Hcall : forall s, P s -> halted s = false -> le (step tv s) (sem' q s) /\ P (step tv s).

  Lemma sem_bot p : sem' p bot = bot.
  Proof. apply (proj2 (sem_halted D St step halted cnt)). exact bot_halted. Qed.

  Theorem splice_le :
    (forall i, ctx_leaves_item keeps i -> forall s, P s ->
       le (sem_item' (fill_item tv i) s) (sem' (splice_item q i) s) /\ P (sem_item' (fill_item tv i) s)) /\
    (forall c, ctx_leaves keeps c -> forall s, P s ->
       le (sem' (fill tv c) s) (sem' (splice q c) s) /\ P (sem' (fill tv c) s)).
  Proof.
    apply (item_prog_mutind (option D)
      (fun i => ctx_leaves_item keeps i -> forall s, P s ->
         le (sem_item' (fill_item tv i) s) (sem' (splice_item q i) s) /\ P (sem_item' (fill_item tv i) s))
      (fun c => ctx_leaves keeps c -> forall s, P s ->
         le (sem' (fill tv c) s) (sem' (splice q c) s) /\ P (sem' (fill tv c) s))).
    - intros [d|] H s Hs; cbn [fill_item splice_item]; rewrite sem_item_leaf.
      + rewrite sem_cons, sem_nil, sem_item_leaf. split; [left; reflexivity|].
        destruct (halted s); [exact Hs|apply H; exact Hs].
      + destruct (halted s) eqn:Hh.
        * rewrite (proj2 (sem_halted D St step halted cnt) q s Hh). split; [left; reflexivity|exact Hs].
        * apply Hcall; assumption.
    - intros n a IHa [Ha _] s Hs. cbn [fill_item splice_item]. rewrite sem_cons, sem_nil, !sem_item_loop.
      cbn [sem_opt].
      apply passes_le; try (intros; split; [left; reflexivity|assumption]); try (intros; reflexivity).
      + intros s' Hs'. apply IHa; assumption.
      + apply (proj2 (sem_halted D St step halted cnt)).
      + exact Hs.
    - intros n a b IHa IHb [Ha Hb] s Hs. cbn [fill_item splice_item]. rewrite sem_cons, sem_nil, !sem_item_loop.
      cbn [sem_opt].
      apply passes_le.
      + intros s' Hs'. apply IHa; assumption.
      + intros s' Hs'. apply IHb; assumption.
      + apply (proj2 (sem_halted D St step halted cnt)).
      + apply (proj2 (sem_halted D St step halted cnt)).
      + exact Hs.
    - intros _ s Hs. split; [left; reflexivity|exact Hs].
    - intros i p IHi IHp [Hi Hp] s Hs. cbn [fill splice]. rewrite sem_cons, sem_app.
      destruct (IHi Hi s Hs) as [[E|E] Pi].
      + rewrite <- E. apply IHp; assumption.
      + rewrite E, sem_bot. split; [right; reflexivity|exact P_bot].
  Qed.
End Ctx.

(* a loop count that does not depend on the state: the fuel bound of C05 is a number read off the program *)
Section WCost.
  Variable D : Type.
  Variable St : Type.
  Variable step : D -> St -> St.
  Variable halted : St -> bool.
  Variable cnt0 : Z -> nat.

  Fixpoint wcost_item (i : item D) : nat :=
    match i with
    | Leaf _ => 1
    | Loop n a b => 1 + cnt0 n * (wcost a + match b with None => 0 | Some b' => wcost b' end + 2)
    end
  with wcost (p : prog D) : nat :=
    match p with
    | PNil => 0
    | PCons i p' => wcost_item i + wcost p'
    end.

  Lemma cpasses_const (A B : nat) (ca cb : St -> nat) (fa fb : St -> St) :
    (forall s, ca s = A) -> (forall s, cb s = B) -> forall k s, cpasses ca cb fa fb k s = (k * (A + B + 2))%nat.
  Proof.
    intros Ha Hb. induction k as [|k IH]; intros s; [reflexivity|].
    cbn [cpasses]. rewrite Ha, Hb, IH. lia.
  Qed.

  Lemma cost_wcost :
    (forall i s, cost_item D St step halted (fun n _ => cnt0 n) i s = wcost_item i) /\
    (forall p s, cost D St step halted (fun n _ => cnt0 n) p s = wcost p).
  Proof.
    apply item_prog_mutind.
    - intros d s. reflexivity.
    - intros n a IHa s. rewrite cost_item_loop. cbn [wcost_item cost_opt].
      rewrite (cpasses_const (wcost a) 0); [lia|exact IHa|reflexivity].
    - intros n a b IHa IHb s. rewrite cost_item_loop. cbn [wcost_item cost_opt].
      rewrite (cpasses_const (wcost a) (wcost b)); [lia|exact IHa|exact IHb].
    - intros s. reflexivity.
    - intros i p IHi IHp s. rewrite cost_cons, IHi, IHp. reflexivity.
  Qed.
End WCost.

(* --- tokens that touch nothing the lexer reads (time base, log, variables, rhythm table) --- *)
Definition quiet_tok (t : tok) : bool :=
  match t with
  | TLoopBegin _ | TLoopBreak | TLoopEnd | TDiv _ _ _ | TSub _ | TValue _ _ _
  | TTime _ | TPlayFrom _ | TTimeSignature _ | TRpnDirect _ _ (* may write a runtime error entry *)
  | TPlay _ _ (* lexes its parts *) | TDefStr _ _ (* assigns a variable *)
  | TSysEx _ _ (* may write a runtime error entry *) => false
  | _ => true
  end.

Lemma quiet_plain t : quiet_tok t = true -> plain_tok t = true.
Proof. destruct t; try discriminate; reflexivity. Qed.

Lemma quiet_keeps_ls ec t s s' : quiet_tok t = true -> step_song ec t s = Ok s' -> ls_of_song s' = ls_of_song s.
Proof.
  intros Hq. destruct t; try discriminate; cbn [step_song];
  first
  [ solve [intros E; injection E as <-; reflexivity]
  | solve [unfold exec_note, exec_note_n; destr_lets; unfold emit_note; destr_lets;
           try discriminate; intros E; injection E as <-; reflexivity]
  | solve [unfold exec_harmony_end, change_cur_track, settle_octave_once, tempo_change, track_sync;
           repeat match goal with |- context [if ?b then _ else _] => destruct b end;
           try discriminate; intros E; injection E as <-; reflexivity]
  | solve [unfold exec_voice;
           match goal with |- context [match ?a with [] => _ | _ => _ end] => destruct a as [|a0 [|a1 ar]] end;
           intros E; injection E as <-; reflexivity]
  | (* TempoChange *)
    solve [intros E; apply (exec_tempo_change_inv (fun x => ls_of_song x = ls_of_song s)) in E;
           [exact E | intros s0 v H0; exact H0 | intros s0 f H0; exact H0 | reflexivity]]
  | (* GSEffect *)
    solve [intros E; apply exec_gs_effect_cases in E; destruct E as (evs & _ & ->); reflexivity] ].
Qed.

Definition Pls (ls0 : lexstate) (r : res song) : Prop :=
  match r with Ok s => ls_of_song s = ls0 | _ => True end.

Lemma quiet_keeps ec ls0 t : quiet_tok t = true -> keeps tok (res song) (step_tok ec) (Pls ls0) t.
Proof.
  intros Hq [s| | |] H; cbn [step_tok bind Pls]; try exact I.
  destruct (step_song ec t s) as [s'| | |] eqn:E; cbn [Pls]; try exact I.
  rewrite (quiet_keeps_ls ec t s s' Hq E). exact H.
Qed.

Lemma quiet_leaves_ok :
  (forall i : item tok, all_leaves_item tok (fun t => quiet_tok t = true) i -> leaves_ok_item i = true) /\
  (forall p : prog tok, all_leaves tok (fun t => quiet_tok t = true) p -> leaves_ok p = true).
Proof.
  apply item_prog_mutind.
  - intros d H. apply quiet_plain. exact H.
  - intros n a IHa [Ha _]. apply andb_true_intro. split; [apply IHa; exact Ha|reflexivity].
  - intros n a b IHa IHb [Ha Hb]. apply andb_true_intro. split; [apply IHa; exact Ha|apply IHb; exact Hb].
  - intros _. reflexivity.
  - intros i p IHi IHp [Hi Hp]. apply andb_true_intro. split; [apply IHi; exact Hi|apply IHp; exact Hp].
Qed.

Lemma fill_leaves_ok tv : plain_tok tv = true ->
  (forall i, ctx_leaves_item tok (fun t => quiet_tok t = true) i -> leaves_ok_item (fill_item tok tv i) = true) /\
  (forall c, ctx_leaves tok (fun t => quiet_tok t = true) c -> leaves_ok (fill tok tv c) = true).
Proof.
  intros Htv. apply (item_prog_mutind (option tok)
    (fun i => ctx_leaves_item tok (fun t => quiet_tok t = true) i -> leaves_ok_item (fill_item tok tv i) = true)
    (fun c => ctx_leaves tok (fun t => quiet_tok t = true) c -> leaves_ok (fill tok tv c) = true)).
  - intros [d|] H; cbn [fill_item leaves_ok_item]; [apply quiet_plain; exact H|exact Htv].
  - intros n a IHa [Ha _]. apply andb_true_intro. split; [apply IHa; exact Ha|reflexivity].
  - intros n a b IHa IHb [Ha Hb]. apply andb_true_intro. split; [apply IHa; exact Ha|apply IHb; exact Hb].
  - intros _. reflexivity.
  - intros i p IHi IHp [Hi Hp]. apply andb_true_intro. split; [apply IHi; exact Hi|apply IHp; exact Hp].
Qed.

Lemma splice_leaves_ok q : leaves_ok q = true ->
  (forall i, ctx_leaves_item tok (fun t => quiet_tok t = true) i -> leaves_ok (splice_item tok q i) = true) /\
  (forall c, ctx_leaves tok (fun t => quiet_tok t = true) c -> leaves_ok (splice tok q c) = true).
Proof.
  intros Hq. apply (item_prog_mutind (option tok)
    (fun i => ctx_leaves_item tok (fun t => quiet_tok t = true) i -> leaves_ok (splice_item tok q i) = true)
    (fun c => ctx_leaves tok (fun t => quiet_tok t = true) c -> leaves_ok (splice tok q c) = true)).
  - intros [d|] H; [|exact Hq]. apply andb_true_intro. split; [apply quiet_plain; exact H|reflexivity].
  - intros n a IHa [Ha _]. apply andb_true_intro. split; [|reflexivity].
    apply andb_true_intro. split; [apply IHa; exact Ha|reflexivity].
  - intros n a b IHa IHb [Ha Hb]. apply andb_true_intro. split; [|reflexivity].
    apply andb_true_intro. split; [apply IHa; exact Ha|apply IHb; exact Hb].
  - intros _. reflexivity.
  - intros i p IHi IHp [Hi Hp]. change (splice tok q (PCons i p)) with (papp (splice_item tok q i) (splice tok q p)).
    rewrite leaves_ok_app. apply andb_true_intro. split; [apply IHi; exact Hi|apply IHp; exact Hp].
Qed.

Definition cnt0 (n : Z) : nat := Nat.max 1 (Z.to_nat n).        (* count1 count_of, which ignores the state *)

(* A call ANYWHERE in a structured program - at top level or inside loops nested to any depth, before or after
   a ':' - against the program with the tokens of the macro text spliced in at every such place.  All other
   tokens (of the context and of the text) are `quiet`: they do not touch what the lexer reads, so the text lexes
   to the same tokens, and defines nothing, at every pass. *)
Theorem macro_inline_ctx (steps d : nat) (c : prog (option tok)) (q : prog tok) name args ln
        (ls0 : lexstate) body tag (s0 : song) :
  ctx_leaves tok (fun t => quiet_tok t = true) c ->
  all_leaves tok (fun t => quiet_tok t = true) q ->
  vars_get name (lx_vars ls0) = Some (VStr body tag) ->
  lex ls0 (call_text args body) ln = Ok (toks_of q, ls0) ->
  ls_of_song s0 = ls0 ->
  (wcost tok cnt0 (fill tok (TValue name args ln) c) < steps)%nat ->
  (wcost tok cnt0 (splice tok q c) < steps)%nat ->
  (wcost tok cnt0 q < steps)%nat ->
  exec_f (S d) steps (toks_of (fill tok (TValue name args ln) c)) (Ok s0) <> OutOfFuel ->
  exec_f (S d) steps (toks_of (splice tok q c)) (Ok s0)
  = exec_f (S d) steps (toks_of (fill tok (TValue name args ln) c)) (Ok s0).
Proof.
  intros Hc Hq Hv Hl Hs0 W1 W2 Wq Hgood.
  set (tv := TValue name args ln) in *.
  set (stp := step_tok (exec_f d steps)).
  assert (Lq : leaves_ok q = true) by (apply (proj2 quiet_leaves_ok); exact Hq).
  assert (L1 : leaves_ok (fill tok tv c) = true) by (apply (proj2 (fill_leaves_ok tv eq_refl)); exact Hc).
  assert (L2 : leaves_ok (splice tok q c) = true) by (apply (proj2 (splice_leaves_ok q Lq)); exact Hc).
  assert (CW : forall p r, cost tok (res song) stp halted (count1 count_of) p r = wcost tok cnt0 p).
  { intros p r. apply (proj2 (cost_wcost tok (res song) stp halted cnt0)). }
  rewrite (exec_f_structured steps d _ _ L1) in Hgood |- * by (rewrite CW; exact W1).
  rewrite (exec_f_structured steps d _ _ L2) by (rewrite CW; exact W2).
  assert (Hcall : forall r, Pls ls0 r -> halted r = false ->
            le (res song) OutOfFuel (stp tv r) (sem tok (res song) stp halted (count1 count_of) q r) /\ Pls ls0 (stp tv r)).
  { intros [s| | |] Hr Hh; try discriminate. cbn [Pls] in Hr. unfold stp at 1 3. cbn [step_tok bind].
    assert (Hv' : vars_get name (s_vars s) = Some (VStr body tag)) by (rewrite <- Hr in Hv; exact Hv).
    assert (Hl' : lex (ls_of_song s) (call_text args body) ln = Ok (toks_of q, ls_of_song s)) by (rewrite Hr; exact Hl).
    unfold tv. rewrite (macro_inline_step (exec_f d steps) name args ln s body tag _ Hv' Hl').
    destruct (res_eq_oof (exec_f d steps (toks_of q) (Ok s))) as [Eo|Eo].
    - rewrite Eo. split; [right; reflexivity|exact I].
    - assert (E : exec_f d steps (toks_of q) (Ok s) = sem tok (res song) stp halted (count1 count_of) q (Ok s)).
      { rewrite <- (exec_f_depth_mono steps d _ _ _ eq_refl Eo).
        apply exec_f_structured; [exact Lq|rewrite CW; exact Wq]. }
      rewrite E. split; [left; reflexivity|].
      apply (proj2 (sem_keeps tok (res song) stp halted (count1 count_of) (Pls ls0))); [|exact Hr].
      clear -Hq. revert q Hq.
      apply (proj2 (item_prog_mutind tok
        (fun i => all_leaves_item tok (fun t => quiet_tok t = true) i -> all_leaves_item tok (keeps tok (res song) stp (Pls ls0)) i)
        (fun p => all_leaves tok (fun t => quiet_tok t = true) p -> all_leaves tok (keeps tok (res song) stp (Pls ls0)) p)
        (fun d H => quiet_keeps _ ls0 d H)
        (fun n a IHa H => conj (IHa (proj1 H)) I)
        (fun n a b IHa IHb H => conj (IHa (proj1 H)) (IHb (proj2 H)))
        (fun _ => I)
        (fun i p IHi IHp H => conj (IHi (proj1 H)) (IHp (proj2 H))))). }
  assert (Hkc : ctx_leaves tok (keeps tok (res song) stp (Pls ls0)) c).
  { clear -Hc. revert c Hc.
    apply (proj2 (item_prog_mutind (option tok)
      (fun i => ctx_leaves_item tok (fun t => quiet_tok t = true) i -> ctx_leaves_item tok (keeps tok (res song) stp (Pls ls0)) i)
      (fun p => ctx_leaves tok (fun t => quiet_tok t = true) p -> ctx_leaves tok (keeps tok (res song) stp (Pls ls0)) p)
      (fun o => match o with Some d => fun H => quiet_keeps _ ls0 d H | None => fun _ => I end)
      (fun n a IHa H => conj (IHa (proj1 H)) I)
      (fun n a b IHa IHb H => conj (IHa (proj1 H)) (IHb (proj2 H)))
      (fun _ => I)
      (fun i p IHi IHp H => conj (IHi (proj1 H)) (IHp (proj2 H))))). }
  destruct (proj2 (splice_le tok (res song) stp halted (count1 count_of) (Pls ls0) OutOfFuel eq_refl I tv q Hcall)
                  c Hkc (Ok s0) Hs0) as [[E|E] _].
  - symmetry. exact E.
  - exfalso. apply Hgood. exact E.
Qed.
