(* C09 - macros, string variables and Rhythm blocks: the model (LexCore.v / RunCore.v) against spec/MacroSpec.v.
     1. replace_all is THE left-to-right non-overlapping replacement (relation `replaced`, functional)
     2. subst_args = simultaneous replacement of "#?k" under the stated side conditions; witnesses outside them
     3. rhythm_expand = the character automaton rhythm_text; `$x{...}` prepends, later definitions win
     4. executing a TValue token = executing the tokens of its text; sequencing with the loop machine
     5. the built-in macro texts and rhythm letters against command.md (gen/DocMacros.v) *)
From Coq Require Import List ZArith Bool Lia.
From Sakura.Model Require Import Base Cursor Length Event Song Token LoopMachine LexCore Tie RunCore.
From Sakura.Spec Require Import MacroSpec LoopSpec.
From Sakura.Proofs Require Import LoopP.
Import ListNotations.
Open Scope Z_scope.

(* ------------------------------------------------------------------------------------------------ *)
(* 0. lists                                                                                           *)

Lemma starts_prefixb p s : starts p s = prefixb p s.
Proof. reflexivity. Qed.   (* the two fixpoints are the same term *)

Lemma prefixb_app p r : prefixb p (p ++ r) = true.
Proof. induction p as [|x p IH]; cbn; [reflexivity|]. rewrite Z.eqb_refl, IH. reflexivity. Qed.

Lemma prefixb_split p s : prefixb p s = true -> s = p ++ skipn (length p) s.
Proof.
  revert s. induction p as [|x p IH]; intros s H; [reflexivity|].
  destruct s as [|y s]; [discriminate|]. cbn in H. apply andb_prop in H. destruct H as [H1 H2].
  apply Z.eqb_eq in H1. subst y. cbn [length skipn app]. f_equal. apply IH. exact H2.
Qed.

Lemma prefixb_true_iff p s : prefixb p s = true <-> exists r, s = p ++ r.
Proof.
  split.
  - intros H. exists (skipn (length p) s). apply prefixb_split. exact H.
  - intros [r ->]. apply prefixb_app.
Qed.

Lemma app_eq_len {A} (a b c d : list A) : a ++ b = c ++ d -> length a = length c -> a = c /\ b = d.
Proof.
  revert c. induction a as [|x a IH]; intros [|y c] H L; try discriminate.
  - split; [reflexivity|exact H].
  - cbn in H. injection H as -> H. cbn in L. destruct (IH c H) as [-> ->]; [lia|]. split; reflexivity.
Qed.

(* ------------------------------------------------------------------------------------------------ *)
(* 1. replace_all                                                                                     *)

Section Replace.
  Variables pat rep : list Z.
  Hypothesis pat_ne : pat <> [].

  Lemma pat_len_pos : (0 < length pat)%nat.
  Proof. destruct pat; [contradiction|cbn; lia]. Qed.

  (* the unfolding equations of replace_all with enough fuel *)
  Definition ra (s : list Z) : list Z := replace_all (length s) pat rep s.

  Lemma replace_all_fuel2 : forall f1 f2 s, (length s <= f1)%nat -> (length s <= f2)%nat ->
    replace_all f1 pat rep s = replace_all f2 pat rep s.
  Proof.
    induction f1 as [|f1 IH]; intros f2 s H1 H2.
    - destruct s; [destruct f2; reflexivity|cbn in H1; lia].
    - destruct s as [|c r]; [destruct f2; reflexivity|].
      destruct f2 as [|f2]; [cbn in H2; lia|]. cbn [replace_all].
      cbn [length] in H1, H2. pose proof pat_len_pos.
      destruct (prefixb pat (c :: r)); f_equal; apply IH; try lia;
        rewrite skipn_length; cbn [length]; lia.
  Qed.
  Lemma replace_all_fuel : forall fuel s, (length s <= fuel)%nat -> replace_all fuel pat rep s = ra s.
  Proof. intros fuel s H. apply replace_all_fuel2; [exact H|apply le_n]. Qed.

  Lemma ra_nil : ra [] = [].
  Proof. reflexivity. Qed.
  Lemma ra_hit r : ra (pat ++ r) = rep ++ ra r.
  Proof.
    unfold ra at 1. destruct (pat ++ r) as [|c s] eqn:E.
    - destruct pat; [contradiction|discriminate].
    - cbn [length replace_all]. rewrite <- E. rewrite prefixb_app. f_equal.
      rewrite skipn_app, skipn_all, Nat.sub_diag. cbn [skipn app].
      apply replace_all_fuel.
      assert (length (c :: s) = length pat + length r)%nat by (rewrite <- E; apply app_length).
      cbn [length] in H. pose proof pat_len_pos. lia.
  Qed.
  Lemma ra_miss c r : prefixb pat (c :: r) = false -> ra (c :: r) = c :: ra r.
  Proof. intros E. unfold ra at 1. cbn [length replace_all]. rewrite E. reflexivity. Qed.

  (* --- the relation is functional --- *)
  Lemma replaced_unique : forall s o1, replaced pat rep s o1 -> forall o2, replaced pat rep s o2 -> o1 = o2.
  Proof.
    intros s o1 H1. induction H1 as [s Hn | pre rest out Hl Hr IH]; intros o2 H2.
    - inversion H2 as [s' Hn' | pre' rest' out' Hl' Hr' Es]; subst; [reflexivity|].
      exfalso. apply Hn. exists pre', rest'. reflexivity.
    - remember (pre ++ pat ++ rest) as s eqn:Es. destruct H2 as [s Hn' | pre' rest' out' Hl' Hr'].
      + exfalso. apply Hn'. exists pre, rest. exact Es.
      + assert (L : length pre = length pre').
        { pose proof (Hl pre' rest' (eq_sym Es)). pose proof (Hl' pre rest Es). lia. }
        destruct (app_eq_len _ _ _ _ (eq_sym Es) L) as [-> E2].
        apply app_inv_head in E2. subst rest'. rewrite (IH out' Hr'). reflexivity.
  Qed.

  (* --- the model satisfies it --- *)
  Lemma not_occurs_cons c r : prefixb pat (c :: r) = false -> ~ occurs_in pat r -> ~ occurs_in pat (c :: r).
  Proof.
    intros E Hn [a [b Hab]]. destruct a as [|x a].
    - cbn in Hab. rewrite Hab, prefixb_app in E. discriminate.
    - cbn in Hab. injection Hab as _ Hab. apply Hn. exists a, b. exact Hab.
  Qed.

  Lemma replaced_cons c r out : prefixb pat (c :: r) = false ->
    replaced pat rep r out -> replaced pat rep (c :: r) (c :: out).
  Proof.
    intros E H. destruct H as [s Hn | pre rest out Hl Hr].
    - apply rp_none. apply not_occurs_cons; assumption.
    - change (c :: pre ++ pat ++ rest) with ((c :: pre) ++ pat ++ rest).
      change (c :: pre ++ rep ++ out) with ((c :: pre) ++ rep ++ out).
      apply rp_hit; [|exact Hr]. intros a b Hab. destruct a as [|x a].
      + cbn in Hab. rewrite Hab, prefixb_app in E. discriminate.
      + cbn in Hab. injection Hab as _ Hab. cbn [length]. pose proof (Hl a b Hab). lia.
  Qed.

  Lemma ra_replaced : forall n s, (length s <= n)%nat -> replaced pat rep s (ra s).
  Proof.
    induction n as [|n IH]; intros s H.
    - destruct s; [|cbn in H; lia]. apply rp_none. intros [a [b Hab]].
      destruct a; [destruct pat; [contradiction|discriminate]|discriminate].
    - destruct s as [|c r].
      + apply rp_none. intros [a [b Hab]]. destruct a; [destruct pat; [contradiction|discriminate]|discriminate].
      + destruct (prefixb pat (c :: r)) eqn:E.
        * apply prefixb_split in E. rewrite E. rewrite ra_hit.
          apply (rp_hit pat rep [] (skipn (length pat) (c :: r)) (ra (skipn (length pat) (c :: r)))).
          -- intros a b _. cbn. lia.
          -- apply IH. rewrite skipn_length. cbn [length] in *. pose proof pat_len_pos. lia.
        * rewrite (ra_miss c r E). apply replaced_cons; [exact E|]. apply IH. cbn in H. lia.
  Qed.

  Theorem replace_all_spec : forall (s : list Z) (fuel : nat), (length s <= fuel)%nat ->
    forall out, replaced pat rep s out <-> replace_all fuel pat rep s = out.
  Proof.
    intros s fuel Hf out. rewrite (replace_all_fuel fuel s Hf). split.
    - intros H. apply (replaced_unique s (ra s) (ra_replaced (length s) s (le_n _)) out H).
    - intros <-. apply (ra_replaced (length s) s (le_n _)).
  Qed.
End Replace.

(* ------------------------------------------------------------------------------------------------ *)
(* 2. "#?k" substitution                                                                              *)

(* the numerals of 1..9, in the model (format!("{}", i)) and in the specification *)
Lemma show_int_digit k : 1 <= k <= 9 -> show_int k = [48 + k].
Proof.
  intros H. assert (E : k = 1 \/ k = 2 \/ k = 3 \/ k = 4 \/ k = 5 \/ k = 6 \/ k = 7 \/ k = 8 \/ k = 9) by lia.
  repeat (destruct E as [E|E]; [subst k; reflexivity|]). subst k. reflexivity.
Qed.
Lemma decimal_digit k : 1 <= k <= 9 -> decimal k = [48 + k].
Proof.
  intros H. assert (E : k = 1 \/ k = 2 \/ k = 3 \/ k = 4 \/ k = 5 \/ k = 6 \/ k = 7 \/ k = 8 \/ k = 9) by lia.
  repeat (destruct E as [E|E]; [subst k; reflexivity|]). subst k. reflexivity.
Qed.
Lemma placeholder_digit k : 1 <= k <= 9 -> placeholder k = [35; 63; 48 + k].
Proof. intros H. unfold placeholder. rewrite (decimal_digit k H). reflexivity. Qed.

(* --- the specification's scanner, unfolded --- *)
Lemma sim_skip tbl w rest : simultaneous_from tbl (length w) (w ++ rest) = simultaneous_from tbl 0 rest.
Proof. induction w as [|c w IH]; [destruct rest; reflexivity|]. cbn [length app simultaneous_from]. exact IH. Qed.

Lemma sim_hit tbl p v rest : p <> [] -> at_head tbl (p ++ rest) = Some (p, v) ->
  simultaneous_from tbl 0 (p ++ rest) = v ++ simultaneous_from tbl 0 rest.
Proof.
  intros Hp H. destruct p as [|c p]; [contradiction|].
  change ((c :: p) ++ rest) with (c :: (p ++ rest)) in *. cbn [simultaneous_from]. rewrite H.
  cbn [length Nat.pred]. rewrite sim_skip. reflexivity.
Qed.

Lemma sim_miss tbl c r : at_head tbl (c :: r) = None ->
  simultaneous_from tbl 0 (c :: r) = c :: simultaneous_from tbl 0 r.
Proof. intros H. cbn [simultaneous_from]. rewrite H. reflexivity. Qed.

(* --- which placeholder of a call with at most 9 arguments stands at the head of a text --- *)
Definition head_key (i : Z) (l : list (list Z)) (s : list Z) : option (list Z * list Z) :=
  match s with
  | x :: y :: d :: _ =>
      if (35 =? x) && (63 =? y) && ((i <=? d - 48) && (d - 48 <? i + zlen l))
      then Some ([35; 63; d], nth (Z.to_nat (d - 48 - i)) l []) else None
  | _ => None
  end.

Lemma starts3 a b c s : starts [a; b; c] s = match s with x :: y :: z :: _ => (a =? x) && (b =? y) && (c =? z) | _ => false end.
Proof.
  destruct s as [|x [|y [|z s]]]; cbn; try reflexivity.
  - rewrite andb_false_r. reflexivity.
  - rewrite !andb_false_r. reflexivity.
  - rewrite andb_true_r, andb_assoc. reflexivity.
Qed.

Lemma at_head_digits : forall l i s, 1 <= i -> i + zlen l <= 10 ->
  at_head (placeholders i l) s = head_key i l s.
Proof.
  induction l as [|a l IH]; intros i s Hi Hl.
  - cbn [placeholders at_head]. unfold head_key. destruct s as [|x [|y [|z s]]]; try reflexivity.
    unfold zlen. cbn [length Z.of_nat].
    destruct (i <=? z - 48) eqn:E1; destruct (z - 48 <? i + 0) eqn:E2; cbn [andb]; rewrite ?andb_false_r; try reflexivity. lia.
  - unfold zlen in Hl. cbn [length] in Hl. rewrite Nat2Z.inj_succ in Hl.
    cbn [placeholders at_head]. rewrite (IH (i + 1) s) by (unfold zlen; lia).
    rewrite (placeholder_digit i) by lia. rewrite starts3. cbn [negb andb].
    unfold head_key. destruct s as [|x [|y [|z s]]]; try reflexivity. rewrite andb_true_r.
    destruct (35 =? x) eqn:Ex; cbn [andb]; [|reflexivity].
    destruct (63 =? y) eqn:Ey; cbn [andb]; [|reflexivity].
    unfold zlen. cbn [length]. rewrite Nat2Z.inj_succ.
    destruct (48 + i =? z) eqn:Ez.
    + apply Z.eqb_eq in Ez. subst z.
      replace (48 + i - 48) with i by lia.
      replace (i + 1 <=? i) with false by (symmetry; apply Z.leb_gt; lia). cbn [andb].
      rewrite Z.leb_refl. replace (i <? i + Z.succ (Z.of_nat (length l))) with true by (symmetry; apply Z.ltb_lt; lia).
      cbn [andb]. rewrite Z.sub_diag. apply Z.eqb_eq in Ex, Ey. subst. reflexivity.
    + apply Z.eqb_neq in Ez.
      destruct (i + 1 <=? z - 48) eqn:E1.
      * apply Z.leb_le in E1. replace (i <=? z - 48) with true by (symmetry; apply Z.leb_le; lia). cbn [andb].
        replace (i + 1 + Z.of_nat (length l)) with (i + Z.succ (Z.of_nat (length l))) by lia.
        destruct (z - 48 <? i + Z.succ (Z.of_nat (length l))); [|reflexivity].
        replace (Z.to_nat (z - 48 - i)) with (S (Z.to_nat (z - 48 - (i + 1)))) by lia. reflexivity.
      * apply Z.leb_gt in E1. cbn [andb].
        replace (i <=? z - 48) with false by (symmetry; apply Z.leb_gt; lia). reflexivity.
Qed.

Lemma hk_some i l s p v : head_key i l s = Some (p, v) ->
  exists d rest, s = 35 :: 63 :: d :: rest /\ p = [35; 63; d] /\ i <= d - 48 < i + zlen l /\
                 v = nth (Z.to_nat (d - 48 - i)) l [].
Proof.
  unfold head_key. destruct s as [|x [|y [|d rest]]]; try discriminate.
  destruct (35 =? x) eqn:Ex; cbn [andb]; [|discriminate].
  destruct (63 =? y) eqn:Ey; cbn [andb]; [|discriminate].
  destruct (i <=? d - 48) eqn:E1; cbn [andb]; [|discriminate].
  destruct (d - 48 <? i + zlen l) eqn:E2; [|discriminate].
  intros H. injection H as <- <-. apply Z.eqb_eq in Ex, Ey. subst x y. exists d, rest.
  apply Z.leb_le in E1. apply Z.ltb_lt in E2. repeat split; try reflexivity; lia.
Qed.
Lemma hk_char i l c r : c <> 35 -> head_key i l (c :: r) = None.
Proof.
  intros H. unfold head_key. destruct r as [|y [|d rest]]; try reflexivity.
  replace (35 =? c) with false by (symmetry; apply Z.eqb_neq; lia). reflexivity.
Qed.
Lemma hk_in i l d rest : i <= d - 48 < i + zlen l ->
  head_key i l (35 :: 63 :: d :: rest) = Some ([35; 63; d], nth (Z.to_nat (d - 48 - i)) l []).
Proof.
  intros H. unfold head_key. cbn [Z.eqb Pos.eqb andb].
  replace (i <=? d - 48) with true by (symmetry; apply Z.leb_le; lia).
  replace (d - 48 <? i + zlen l) with true by (symmetry; apply Z.ltb_lt; lia). reflexivity.
Qed.
Lemma hk_out i l d rest : ~ (i <= d - 48 < i + zlen l) -> head_key i l (35 :: 63 :: d :: rest) = None.
Proof.
  intros H. unfold head_key. cbn [Z.eqb Pos.eqb andb].
  destruct (i <=? d - 48) eqn:E1; destruct (d - 48 <? i + zlen l) eqn:E2; try reflexivity.
  apply Z.leb_le in E1. apply Z.ltb_lt in E2. lia.
Qed.

(* --- texts that can neither contain nor complete a placeholder --- *)
Fixpoint inert_rec (w : list Z) : Prop :=
  match w with
  | [] => True
  | c :: w' => (c = 35 -> exists c2 w'', w' = c2 :: w'' /\ c2 <> 63) /\ inert_rec w'
  end.

Lemma ends_with_cons x c c2 w : ends_with x (c :: c2 :: w) = ends_with x (c2 :: w).
Proof. reflexivity. Qed.

Lemma arg_inert_rec w : arg_inert w = true -> inert_rec w.
Proof.
  unfold arg_inert. induction w as [|c w IH]; intros H; [exact I|].
  apply andb_prop in H. destruct H as [H1 H2]. apply negb_true_iff in H1, H2.
  cbn [contains] in H1. apply orb_false_iff in H1. destruct H1 as [H1a H1b].
  destruct w as [|c2 w].
  - split; [|exact I]. intros ->. cbn in H2. discriminate.
  - split.
    + intros ->. exists c2, w. split; [reflexivity|]. cbn in H1a. intros ->. discriminate.
    + apply IH. rewrite H1b. rewrite ends_with_cons in H2. rewrite H2. reflexivity.
Qed.

Lemma ra_inert d rep w X : inert_rec w -> ra [35; 63; d] rep (w ++ X) = w ++ ra [35; 63; d] rep X.
Proof.
  induction w as [|c w IH]; intros H; [reflexivity|]. destruct H as [H1 H2].
  cbn [app]. rewrite ra_miss; [rewrite (IH H2); reflexivity|].
  cbn [prefixb]. destruct (35 =? c) eqn:E; [|reflexivity]. apply Z.eqb_eq in E. symmetry in E.
  destruct (H1 E) as [c2 [w'' [-> Hc2]]]. cbn [app prefixb andb].
  replace (63 =? c2) with false by (symmetry; apply Z.eqb_neq; lia). reflexivity.
Qed.

Fixpoint body_rec (b : list Z) : Prop :=
  match b with
  | [] => True
  | c :: r =>
      (c = 35 -> match r with
                 | [] => True
                 | c2 :: r2 => c2 <> 35 /\ (c2 = 63 -> match r2 with [] => True | c3 :: _ => c3 <> 35 end)
                 end) /\ body_rec r
  end.

Lemma body_inert_rec b : body_inert b = true -> body_rec b.
Proof.
  unfold body_inert. induction b as [|c r IH]; intros H; [exact I|].
  apply andb_prop in H. destruct H as [H1 H2]. apply negb_true_iff in H1, H2.
  cbn [contains] in H1, H2. apply orb_false_iff in H1, H2. destruct H1 as [H1a H1b]. destruct H2 as [H2a H2b].
  split; [|apply IH; rewrite H1b, H2b; reflexivity].
  intros ->. destruct r as [|c2 r2]; [exact I|]. split.
  - intros ->. cbn in H1a. discriminate.
  - intros ->. destruct r2 as [|c3 r3]; [exact I|]. intros ->. cbn in H2a. discriminate.
Qed.

Lemma zlen_app {A} (a b : list A) : zlen (a ++ b) = zlen a + zlen b.
Proof. unfold zlen. rewrite app_length, Nat2Z.inj_add. reflexivity. Qed.

Lemma zlen_snoc {A} (l : list A) (a : A) : zlen (l ++ [a]) = zlen l + 1.
Proof. rewrite zlen_app. reflexivity. Qed.

Lemma body_rec_skip3 x y z rest : body_rec (x :: y :: z :: rest) -> body_rec rest.
Proof. intros [_ [_ [_ H]]]. exact H. Qed.

(* replacing the next placeholder in a text where the first j are already replaced (simultaneously) gives the
   text with the first j+1 replaced (simultaneously) *)
Lemma fusion : forall n body prefix a, (length body <= n)%nat ->
  zlen prefix + 1 <= 9 -> Forall inert_rec prefix -> body_rec body ->
  ra [35; 63; 48 + (zlen prefix + 1)] a (simultaneous_from (placeholders 1 prefix) 0 body)
  = simultaneous_from (placeholders 1 (prefix ++ [a])) 0 body.
Proof.
  induction n as [|n IH]; intros body prefix a Hn Hj Hin Hb.
  { destruct body; [reflexivity|cbn in Hn; lia]. }
  destruct body as [|c r]; [reflexivity|].
  assert (Hz : 0 <= zlen prefix) by (unfold zlen; lia).
  assert (AT : forall s, at_head (placeholders 1 prefix) s = head_key 1 prefix s) by (intros s; apply at_head_digits; lia).
  assert (AT' : forall s, at_head (placeholders 1 (prefix ++ [a])) s = head_key 1 (prefix ++ [a]) s).
  { intros s. apply at_head_digits; [lia|]. rewrite zlen_snoc. lia. }
  set (D := 48 + (zlen prefix + 1)) in *.
  destruct (head_key 1 (prefix ++ [a]) (c :: r)) as [[p v]|] eqn:HK'.
  - destruct (hk_some _ _ _ _ _ HK') as [d [rest [Es [-> [Hd ->]]]]].
    rewrite zlen_snoc in Hd.
    rewrite Es in *. cbn [length] in Hn.
    assert (Hrest : body_rec rest) by (apply (body_rec_skip3 _ _ _ _ Hb)).
    change (35 :: 63 :: d :: rest) with ([35; 63; d] ++ rest).
    rewrite (sim_hit (placeholders 1 (prefix ++ [a])) [35; 63; d] _ rest) by (try discriminate; rewrite AT'; exact HK').
    destruct (Z.eq_dec (d - 48) (zlen prefix + 1)) as [Ed|Ed].
    + (* the placeholder being replaced now *)
      assert (d = D) by (unfold D; lia). subst d.
      cbn [app]. rewrite sim_miss by (rewrite AT; apply hk_out; lia).
      rewrite sim_miss by (rewrite AT; apply hk_char; lia).
      rewrite sim_miss by (rewrite AT; apply hk_char; unfold D; lia).
      change (35 :: 63 :: D :: simultaneous_from (placeholders 1 prefix) 0 rest)
        with ([35; 63; D] ++ simultaneous_from (placeholders 1 prefix) 0 rest).
      rewrite ra_hit by discriminate. unfold D. rewrite (IH rest prefix a) by (try assumption; lia).
      f_equal. rewrite app_nth2 by (unfold zlen in *; lia).
      match goal with |- _ = nth ?k _ _ => replace k with 0%nat by (unfold zlen in *; lia) end. reflexivity.
    + (* a placeholder replaced earlier *)
      assert (Hd' : 1 <= d - 48 < 1 + zlen prefix) by lia.
      rewrite (sim_hit (placeholders 1 prefix) [35; 63; d] (nth (Z.to_nat (d - 48 - 1)) prefix []) rest)
        by (try discriminate; rewrite AT; apply hk_in; exact Hd').
      rewrite app_nth1 by (unfold zlen in *; lia).
      rewrite ra_inert.
      * unfold D. rewrite (IH rest prefix a) by (try assumption; lia). reflexivity.
      * rewrite Forall_forall in Hin. apply Hin. apply nth_In. unfold zlen in *. lia.
  - assert (HK : head_key 1 prefix (c :: r) = None).
    { destruct (head_key 1 prefix (c :: r)) as [[p v]|] eqn:HK; [|reflexivity].
      destruct (hk_some _ _ _ _ _ HK) as [d [rest [Es [-> [Hd ->]]]]]. rewrite Es in HK'.
      rewrite hk_in in HK'; [discriminate|]. rewrite zlen_snoc. lia. }
    rewrite sim_miss by (rewrite AT; exact HK). rewrite sim_miss by (rewrite AT'; exact HK').
    cbn [length] in Hn. destruct Hb as [Hc Hr].
    rewrite ra_miss; [unfold D; rewrite (IH r prefix a) by (try assumption; lia); reflexivity|].
    cbn [prefixb]. destruct (35 =? c) eqn:Ec; [|reflexivity]. apply Z.eqb_eq in Ec. symmetry in Ec.
    specialize (Hc Ec). subst c. cbn [andb].
    destruct r as [|c2 r2]; [reflexivity|]. destruct Hc as [Hc2 Hc3].
    rewrite sim_miss by (rewrite AT; apply hk_char; exact Hc2).
    destruct (63 =? c2) eqn:E2; [|reflexivity]. apply Z.eqb_eq in E2. symmetry in E2. specialize (Hc3 E2). subst c2.
    cbn [andb]. destruct r2 as [|c3 r3]; [reflexivity|].
    rewrite sim_miss by (rewrite AT; apply hk_char; exact Hc3).
    destruct (D =? c3) eqn:E3; [|reflexivity]. apply Z.eqb_eq in E3. subst c3.
    rewrite hk_in in HK'; [discriminate|]. rewrite zlen_snoc. unfold D. lia.
Qed.

Fixpoint subst_texts (i : Z) (l : list (list Z)) (text : list Z) : list Z :=
  match l with
  | [] => text
  | a :: r => subst_texts (i + 1) r (ra ([35; 63] ++ show_int i) a text)
  end.

Lemma subst_args_texts : forall args i text, subst_args i args text = subst_texts i (map marg_to_s args) text.
Proof.
  induction args as [|a r IH]; intros i text; [reflexivity|].
  cbn [subst_args map subst_texts]. rewrite IH. f_equal.
  apply replace_all_fuel; [discriminate|lia].
Qed.

Lemma sim_nil s : simultaneous_from [] 0 s = s.
Proof. induction s as [|c r IH]; [reflexivity|]. cbn [simultaneous_from at_head]. rewrite IH. reflexivity. Qed.

Lemma subst_sim : forall r prefix body, zlen prefix + zlen r <= 9 ->
  Forall inert_rec (prefix ++ r) -> body_rec body ->
  subst_texts (1 + zlen prefix) r (simultaneous_from (placeholders 1 prefix) 0 body)
  = simultaneous_from (placeholders 1 (prefix ++ r)) 0 body.
Proof.
  induction r as [|a r IH]; intros prefix body Hl Hin Hb.
  - rewrite app_nil_r. reflexivity.
  - cbn [subst_texts].
    assert (Hz : 0 <= zlen prefix) by (unfold zlen; lia).
    assert (Hr : 1 <= zlen (a :: r)) by (unfold zlen; cbn [length]; lia).
    rewrite show_int_digit by lia. cbn [app].
    replace (48 + (1 + zlen prefix)) with (48 + (zlen prefix + 1)) by lia.
    rewrite (fusion (length body) body prefix a (le_n _)); try assumption; try lia.
    + replace (1 + zlen prefix + 1) with (1 + zlen (prefix ++ [a])) by (rewrite zlen_snoc; lia).
      rewrite IH; try assumption.
      * rewrite <- app_assoc. reflexivity.
      * rewrite zlen_snoc. unfold zlen in *. cbn [length] in *. lia.
      * rewrite <- app_assoc. exact Hin.
    + apply Forall_app in Hin. apply Hin.
Qed.

Theorem subst_spec (args : list (option marg)) (body : list Z) :
  (length args < 10)%nat ->
  forallb (fun a => arg_inert (marg_to_s a)) args = true ->
  body_inert body = true ->
  subst_args 1 args body = simultaneous (map marg_to_s args) body.
Proof.
  intros Hl Ha Hb. rewrite subst_args_texts. unfold simultaneous.
  pose proof (subst_sim (map marg_to_s args) [] body) as H. cbn [app zlen length Z.of_nat] in H.
  rewrite sim_nil in H. apply H.
  - unfold zlen. rewrite map_length. change (Z.of_nat (@length (list Z) [])) with 0. lia.
  - rewrite Forall_forall. intros w Hw. apply in_map_iff in Hw. destruct Hw as [a [<- Hin]].
    apply arg_inert_rec. rewrite forallb_forall in Ha. apply Ha. exact Hin.
  - apply body_inert_rec. exact Hb.
Qed.

(* integer arguments are always inert *)
Lemma dec_digits_chars : forall fuel n acc, Forall (fun c => 48 <= c <= 57) acc ->
  Forall (fun c => 48 <= c <= 57) (dec_digits fuel n acc).
Proof.
  induction fuel as [|f IH]; intros n acc H; [exact H|]. cbn [dec_digits].
  assert (H' : Forall (fun c => 48 <= c <= 57) ((48 + n mod 10) :: acc)).
  { constructor; [|exact H]. pose proof (Z.mod_pos_bound n 10). lia. }
  destruct (n / 10 =? 0); [exact H'|apply IH; exact H'].
Qed.

Lemma no_hash_inert w : Forall (fun c => c <> 35) w -> arg_inert w = true.
Proof.
  intros H. unfold arg_inert. apply andb_true_intro. split; apply negb_true_iff.
  - induction H as [|c w Hc Hw IH]; [reflexivity|]. cbn [contains]. rewrite IH, orb_false_r.
    cbn [starts]. replace (35 =? c) with false by (symmetry; apply Z.eqb_neq; lia). reflexivity.
  - induction H as [|c w Hc Hw IH]; [reflexivity|]. destruct w as [|c2 w].
    + cbn. apply Z.eqb_neq. exact Hc.
    + rewrite ends_with_cons. exact IH.
Qed.

Lemma show_int_inert v : arg_inert (show_int v) = true.
Proof.
  apply no_hash_inert. unfold show_int. destruct (v <? 0).
  - constructor; [lia|]. eapply Forall_impl; [|apply dec_digits_chars; constructor]. cbn. intros; lia.
  - eapply Forall_impl; [|apply dec_digits_chars; constructor]. cbn. intros; lia.
Qed.

(* --- where replacing one after the other is NOT the simultaneous replacement: one witness per side condition --- *)
Definition t_ (s : list Z) := Some (MStr s).
(* an argument that contains a placeholder: #M({#?2},{x}) with body "#?1" *)
Lemma subst_arg_with_placeholder_refuted :
  subst_args 1 [t_ [35; 63; 50]; t_ [120]] [35; 63; 49] = [120] /\
  simultaneous [[35; 63; 50]; [120]] [35; 63; 49] = [35; 63; 50].
Proof. split; vm_compute; reflexivity. Qed.
(* ten arguments: "#?1" is a prefix of "#?10" *)
Lemma subst_ten_arguments_refuted :
  let args := map (fun c => [c]) [97; 98; 99; 100; 101; 102; 103; 104; 105; 106] in
  subst_args 1 (map t_ args) [35; 63; 49; 48] = [97; 48] /\
  simultaneous args [35; 63; 49; 48] = [106].
Proof. split; vm_compute; reflexivity. Qed.
(* an argument that ends with '#' completes a placeholder with the text behind it: body "#?1?2", #M({#},{x}) *)
Lemma subst_arg_ending_hash_refuted :
  arg_inert [35] = false /\
  subst_args 1 [t_ [35]; t_ [120]] [35; 63; 49; 63; 50] = [120] /\
  simultaneous [[35]; [120]] [35; 63; 49; 63; 50] = [35; 63; 50].
Proof. repeat split; vm_compute; reflexivity. Qed.
(* a body with "##": the first '#' and the argument "?2" form "#?2"; no argument contains "#?" *)
Lemma subst_body_double_hash_refuted :
  arg_inert [63; 50] = true /\ arg_inert [120] = true /\ body_inert [35; 35; 63; 49] = false /\
  subst_args 1 [t_ [63; 50]; t_ [120]] [35; 35; 63; 49] = [120] /\
  simultaneous [[63; 50]; [120]] [35; 35; 63; 49] = [35; 63; 50].
Proof. repeat split; vm_compute; reflexivity. Qed.
(* a body with "#?#" and an EMPTY first argument: "#?" + "" + "2" *)
Lemma subst_body_hash_q_hash_refuted :
  arg_inert [] = true /\ body_inert [35; 63; 35; 63; 49; 50] = false /\
  subst_args 1 [t_ []; t_ [120]] [35; 63; 35; 63; 49; 50] = [120] /\
  simultaneous [[]; [120]] [35; 63; 35; 63; 49; 50] = [35; 63; 50].
Proof. repeat split; vm_compute; reflexivity. Qed.

(* ------------------------------------------------------------------------------------------------ *)
(* 3. Rhythm{...}                                                                                     *)

Lemma rskip0 def s : rhythm_text def (RSkip 0) s = rhythm_text def RNormal s.
Proof. destruct s; reflexivity. Qed.

(* get_token_nest('(', ')') on the text behind an opening parenthesis = the automaton in mode RParen *)
Lemma paren_span def : forall s ln d src r' ln',
  token_nest_loop s ln 40 41 (S d) = (src, r', ln') ->
  rhythm_text def (RParen d) s = src ++ rhythm_text def RNormal r' /\ (length r' <= length s)%nat.
Proof.
  induction s as [|c r IH]; intros ln d src r' ln' H.
  - cbn in H. injection H as <- <- <-. split; [reflexivity|apply le_n].
  - cbn [token_nest_loop] in H. cbn [rhythm_text].
    destruct (c =? 40) eqn:E40.
    + destruct (token_nest_loop r (if c =? c_NL then ln + 1 else ln) 40 41 (S (S d))) as [[t r1] ln1] eqn:E.
      injection H as <- <- <-. destruct (IH _ _ _ _ _ E) as [H1 H2]. rewrite H1. split; [reflexivity|cbn [length]; lia].
    + destruct (c =? 41) eqn:E41.
      * cbn [Nat.pred] in H. destruct d as [|d'].
        -- injection H as <- <- <-. split; [reflexivity|cbn [length]; lia].
        -- destruct (token_nest_loop r (if c =? c_NL then ln + 1 else ln) 40 41 (S d')) as [[t r1] ln1] eqn:E.
           injection H as <- <- <-. destruct (IH _ _ _ _ _ E) as [H1 H2]. rewrite H1. split; [reflexivity|cbn [length]; lia].
      * destruct (token_nest_loop r (if c =? c_NL then ln + 1 else ln) 40 41 (S d)) as [[t r1] ln1] eqn:E.
        injection H as <- <- <-. destruct (IH _ _ _ _ _ E) as [H1 H2]. rewrite H1. split; [reflexivity|cbn [length]; lia].
Qed.

(* the string constants of the model, as code points *)
Ltac eval_zs := repeat match goal with |- context [zs ?a] => let v := eval vm_compute in (zs a) in change (zs a) with v end.

Theorem rhythm_expand_spec (tbl : list (Z * list Z)) : forall (fuel : nat) (s : list Z), (length s < fuel)%nat ->
  rhythm_expand fuel tbl s = rhythm_expansion (fun c => rhythm_get c tbl) s.
Proof.
  unfold rhythm_expansion. induction fuel as [|f IH]; intros s H; [lia|].
  destruct s as [|c r]; [reflexivity|]. cbn [rhythm_expand rhythm_text]. eval_zs.
  change (starts [83; 117; 98] (c :: r)) with (prefixb [83; 117; 98] (c :: r)).
  change (starts [83; 85; 66] (c :: r)) with (prefixb [83; 85; 66] (c :: r)).
  cbn [length] in H.
  destruct (prefixb [83; 117; 98] (c :: r) || prefixb [83; 85; 66] (c :: r)) eqn:ES.
  - assert (E : exists x y rest, r = x :: y :: rest).
    { apply orb_prop in ES. destruct ES as [ES|ES]; apply prefixb_split in ES; cbn [length skipn app] in ES;
        injection ES as _ ES; destruct r as [|x [|y rest]]; try discriminate; eauto. }
    destruct E as [x [y [rest ->]]]. cbn [skipn rhythm_text]. rewrite rskip0. rewrite IH by (cbn [length] in H; lia).
    reflexivity.
  - destruct (c =? 40) eqn:E40.
    + unfold get_token_nest. cbn [eq_char]. rewrite E40. cbn [tl].
      destruct (token_nest_loop r 0 40 41 1) as [[src r'] ln'] eqn:E.
      destruct (paren_span (fun c0 => rhythm_get c0 tbl) _ _ _ _ _ _ E) as [H1 H2]. rewrite H1.
      rewrite IH by lia. reflexivity.
    + unfold definable. destruct ((64 <=? c) && (c <=? 127)).
      * rewrite IH by lia. destruct (rhythm_get c tbl); reflexivity.
      * rewrite IH by lia. reflexivity.
Qed.

(* `$x{t}`: the definition is put in FRONT of the table and the first row of a letter is the one that counts *)
Lemma rhythm_get_redefine tbl x t c : rhythm_get c ((x, t) :: tbl) = redefine (fun c0 => rhythm_get c0 tbl) x t c.
Proof. unfold redefine. cbn [rhythm_get]. rewrite (Z.eqb_sym x c). reflexivity. Qed.

Lemma rhythm_get_last_wins tbl x t1 t2 c : rhythm_get c ((x, t2) :: (x, t1) :: tbl) = rhythm_get c ((x, t2) :: tbl).
Proof. cbn [rhythm_get]. destruct (x =? c); reflexivity. Qed.
