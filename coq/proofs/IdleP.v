(* Reservations in the pipeline model: a track WITHOUT pending reservations (tr_rsv = rsv_new: nothing reserved on
   notes / on time, no controller reservation, random widths 0) behaves as the note language of the first build.
   The arms of RunCore before the reservations were added are kept here (`*_plain`), and shown equal to the current
   arms on such tracks; the theorems about the core note language (C03 C06 C13 C14) are proved through them and carry
   `idle` in their state relations. *)
From Sakura.Model Require Import Base Cursor Length Event Song Token LoopMachine LexCore RunCore Tie RunRsv.
From Sakura.Model Require Reserve.
From Coq Require Import Lia.
Open Scope Z_scope.

Definition idle (t : track) : Prop := tr_rsv t = rsv_new.
Definition cur_idle (s : song) : Prop := idle (cur_track s).

Lemma track_new_idle tb ch : idle (track_new tb ch).
Proof. reflexivity. Qed.

(* ---- the conversion ---- *)
Lemma of_to_rtrack t : of_rtrack t (to_rtrack t) = t.
Proof. destruct t as [a b c d e f g h i j k l m r]. destruct r. reflexivity. Qed.

Lemma on_rt_id t : on_rt t (fun k => k) = t.
Proof. apply of_to_rtrack. Qed.

(* what the conversion never touches *)
Lemma of_rtrack_frame t k :
  tr_length (of_rtrack t k) = tr_length t /\ tr_track_key (of_rtrack t k) = tr_track_key t /\
  tr_tie_mode (of_rtrack t k) = tr_tie_mode t /\ tr_tie_value (of_rtrack t k) = tr_tie_value t /\
  tr_bend_range (of_rtrack t k) = tr_bend_range t /\ tr_tie_notes (of_rtrack t k) = tr_tie_notes t.
Proof. repeat split; reflexivity. Qed.

(* ---- idle tracks ---- *)
Ltac idle_destruct t H :=
  destruct t as [x1 x2 x3 x4 x5 x6 x7 x8 x9 x10 x11 x12 x13 x14]; unfold idle in H; cbn [tr_rsv] in H; subst x14.

Lemma rsv_on_note_idle t v tm q : idle t ->
  rsv_on_note (to_rtrack t) v tm q = ((v, tm, q, -1, -1), to_rtrack t).
Proof. intros H. idle_destruct t H. reflexivity. Qed.

Lemma rsv_advance_idle t v tm q : idle t -> rsv_advance t v tm q = t.
Proof. intros H. unfold rsv_advance. rewrite (rsv_on_note_idle t v tm q H). apply of_to_rtrack. Qed.

Lemma write_cc_notes_idle t sp : idle t -> write_cc_notes t sp = t.
Proof.
  intros H. idle_destruct t H. unfold write_cc_notes, on_rt, to_rtrack, of_rtrack.
  cbn [tr_rsv tr_timepos tr_channel tr_velocity tr_qlen tr_timing tr_octave tr_events tr_length tr_track_key tr_tie_mode
       tr_tie_value tr_bend_range tr_tie_notes rsv_new rv_v_on_time_start rv_v_on_time rv_v rv_q rv_t rv_o rv_l rv_freq
       rv_cc_on_note rv_cc_on_note_wave rv_v_rand rv_q_rand rv_t_rand rv_o_rand].
  unfold Reserve.write_cc_on_note_wave, Reserve.write_cc_on_note, Reserve.cc_note_events.
  cbn. rewrite app_nil_r. reflexivity.
Qed.

Lemma rsv_clear_idle w t : idle t -> rsv_clear w t = t.
Proof. intros H. idle_destruct t H. destruct w; reflexivity. Qed.

Lemma remove_cc_wave_idle t no : idle t -> on_rt t (fun k => Reserve.remove_cc_on_note_wave k no) = t.
Proof. intros H. idle_destruct t H. reflexivity. Qed.

(* the setters of the note language keep a track idle *)
Lemma idle_set_timepos t v : idle t -> idle (tr_set_timepos t v). Proof. exact (fun H => H). Qed.
Lemma idle_set_channel t v : idle t -> idle (tr_set_channel t v). Proof. exact (fun H => H). Qed.
Lemma idle_set_length t v : idle t -> idle (tr_set_length t v). Proof. exact (fun H => H). Qed.
Lemma idle_set_octave t v : idle t -> idle (tr_set_octave t v). Proof. exact (fun H => H). Qed.
Lemma idle_set_velocity t v : idle t -> idle (tr_set_velocity t v). Proof. exact (fun H => H). Qed.
Lemma idle_set_qlen t v : idle t -> idle (tr_set_qlen t v). Proof. exact (fun H => H). Qed.
Lemma idle_set_timing t v : idle t -> idle (tr_set_timing t v). Proof. exact (fun H => H). Qed.
Lemma idle_set_track_key t v : idle t -> idle (tr_set_track_key t v). Proof. exact (fun H => H). Qed.
Lemma idle_set_events t v : idle t -> idle (tr_set_events t v). Proof. exact (fun H => H). Qed.
Lemma idle_push_event t e : idle t -> idle (tr_push_event t e). Proof. exact (fun H => H). Qed.
Lemma idle_push_events t e : idle t -> idle (tr_push_events t e). Proof. exact (fun H => H). Qed.
Lemma idle_set_tie t a b c d e : idle t -> idle (tr_set_tie t a b c d e). Proof. exact (fun H => H). Qed.
Lemma idle_push_tie_note t e : idle t -> idle (push_tie_note t e). Proof. exact (fun H => H). Qed.
Lemma idle_set_tie_mode t a b : idle t -> idle (set_tie_mode t a b). Proof. exact (fun H => H). Qed.
Lemma tr_rsv_check_tie_notes tb t : tr_rsv (check_tie_notes tb t) = tr_rsv t.
Proof.
  unfold check_tie_notes. destruct (tr_tie_notes t); [reflexivity|].
  repeat match goal with
         | |- context [if ?b then _ else _] => destruct b
         | |- context [let '(_, _) := ?x in _] => destruct x
         end; reflexivity.
Qed.
Lemma idle_check_tie_notes tb t : idle t -> idle (check_tie_notes tb t).
Proof. unfold idle. rewrite tr_rsv_check_tie_notes. exact (fun H => H). Qed.

(* ---- draws with width 0 ---- *)
Lemma draw_zero sd v : draw sd v 0 = (v, sd). Proof. reflexivity. Qed.
Lemma draw_octave_zero sd v : draw_octave sd v 0 = (v, sd). Proof. reflexivity. Qed.

(* ---- song bookkeeping ---- *)
Definition cur_in (s : song) : Prop := (s_cur s < length (s_tracks s))%nat.

Lemma i_nth_upd_nth_eq {A} (f : A -> A) (d : A) : forall l n, (n < length l)%nat -> nth n (upd_nth n f l) d = f (nth n l d).
Proof. induction l as [|x r IH]; intros [|n] H; cbn in *; try lia; [reflexivity|]. apply IH. lia. Qed.
Lemma i_upd_nth_length {A} (f : A -> A) : forall l n, length (upd_nth n f l) = length l.
Proof. induction l as [|x r IH]; intros [|n]; cbn; try reflexivity. rewrite IH. reflexivity. Qed.
Lemma i_upd_nth_at {A} (f g : A -> A) (d : A) : forall l n,
  ((n < length l)%nat -> f (nth n l d) = g (nth n l d)) -> upd_nth n f l = upd_nth n g l.
Proof.
  induction l as [|x r IH]; intros [|n] H; cbn in *; try reflexivity.
  - rewrite H by lia. reflexivity.
  - f_equal. apply IH. intros Hn. apply H. lia.
Qed.
Lemma i_upd_nth_same {A} (f : A -> A) (d : A) : forall l n,
  ((n < length l)%nat -> f (nth n l d) = nth n l d) -> upd_nth n f l = l.
Proof.
  induction l as [|x r IH]; intros [|n] H; cbn in *; try reflexivity.
  - rewrite H by lia. reflexivity.
  - f_equal. apply IH. intros Hn. apply H. lia.
Qed.

Lemma i_cur_track_upd_cur s f : cur_in s -> cur_track (upd_cur s f) = f (cur_track s).
Proof. intros H. unfold cur_track, upd_cur. cbn [s_tracks s_cur s_set_tracks]. apply i_nth_upd_nth_eq. exact H. Qed.
Lemma i_cur_in_upd_cur s f : cur_in s -> cur_in (upd_cur s f).
Proof. unfold cur_in, upd_cur. cbn [s_tracks s_cur s_set_tracks]. rewrite i_upd_nth_length. exact (fun H => H). Qed.

(* two updates that agree on the current track *)
Lemma upd_cur_ext s f g : f (cur_track s) = g (cur_track s) -> upd_cur s f = upd_cur s g.
Proof.
  intros H. unfold upd_cur. f_equal. apply (i_upd_nth_at f g (track_new 0 0)). intros _. exact H.
Qed.
Lemma song_eta_tracks s : s_set_tracks s (s_tracks s) = s.
Proof. destruct s. reflexivity. Qed.
Lemma upd_cur_same s f : f (cur_track s) = cur_track s -> upd_cur s f = s.
Proof.
  intros H. unfold upd_cur. rewrite (i_upd_nth_same f (track_new 0 0)); [apply song_eta_tracks|]. intros _. exact H.
Qed.
Lemma song_eta_seed s : s_set_rand_seed s (s_rand_seed s) = s.
Proof. destruct s. reflexivity. Qed.

(* ---- the arms as they were before the reservations ---- *)
Definition emit_note_plain (s : song) (ev : event) (notelen : Z) (is_lettered : bool) (slur : Z) : res song :=
  let s1 := upd_cur s (fun t => tr_set_timepos t (tr_timepos t + notelen)) in
  if is_lettered then
    let s2 := if s_octave_once s1 =? 0 then s1
              else s_set_octave_once (upd_cur s1 (fun t => tr_set_octave t (tr_octave t - s_octave_once s1))) 0 in
    if s_harmony_flag s2 then
      Ok (s_set_harmony (upd_cur s2 (fun t => tr_set_timepos t (s_harmony_time s2))) true (s_harmony_time s2)
                        (s_harmony_events s2 ++ [ev]))
    else if slur >=? 1 then Ok (upd_cur s2 (fun t => push_tie_note t ev))
    else if negb (match tr_tie_notes (cur_track s2) with [] => true | _ => false end) then
      Ok (upd_cur s2 (fun t => check_tie_notes (s_timebase s2) (push_tie_note t ev)))
    else Ok (upd_cur s2 (fun t => tr_push_event t ev))
  else
    Ok (upd_cur s (fun t => tr_set_timepos (tr_push_event t ev) (tr_timepos t + notelen))).

Definition exec_note_plain (s : song) (base flag natural : Z) (len : list ch) (qlen vel timing oct slur : Z) : res song :=
  let trk := cur_track s in
  let q := if qlen =? 0 then tr_qlen trk else qlen in
  let v := if vel <? 0 then tr_velocity trk else vel in
  let t := if timing =? ISIZE_MIN then tr_timing trk else timing in
  let no := note_number s base flag natural oct in
  let notelen := calc_length len (s_timebase s) (tr_length trk) in
  let ev := ev_note (tr_timepos trk + t) (tr_channel trk) (value_range 0 no 127) (note_len_real notelen q) (value_range 0 v 127) in
  emit_note_plain s ev notelen true slur.

Definition exec_note_n_plain (s : song) (no : Z) (len : list ch) (qlen vel timing slur : Z) : res song :=
  let trk := cur_track s in
  let notelen := calc_length len (s_timebase s) (tr_length trk) in
  let q := if negb (qlen =? 0) then qlen else tr_qlen trk in
  let v := if vel >=? 0 then vel else tr_velocity trk in
  let t := if negb (timing =? ISIZE_MIN) then timing else tr_timing trk in
  let ev := ev_note (tr_timepos trk + t) (tr_channel trk)
                    (value_range 0 (no + tr_track_key trk + s_key_shift s) 127) (note_len_real notelen q) (value_range 0 v 127) in
  emit_note_plain s ev notelen false slur.

Lemma emit_note_idle s ev nl b slur : cur_in s -> cur_idle s -> emit_note s ev nl b slur = emit_note_plain s ev nl b slur.
Proof.
  intros Hc Hi. unfold emit_note, emit_note_plain. cbv zeta. destruct b.
  - set (s1 := upd_cur s (fun t => tr_set_timepos t (tr_timepos t + nl))).
    assert (Hc1 : cur_in s1) by (apply i_cur_in_upd_cur; exact Hc).
    assert (Hi1 : cur_idle s1) by (unfold cur_idle, s1; rewrite i_cur_track_upd_cur by exact Hc; exact Hi).
    set (s2 := if s_octave_once s1 =? 0 then s1
               else s_set_octave_once (upd_cur s1 (fun t => tr_set_octave t (tr_octave t - s_octave_once s1))) 0).
    assert (Hi2 : cur_idle s2).
    { unfold s2. destruct (s_octave_once s1 =? 0); [exact Hi1|].
      unfold cur_idle.
      change (cur_track (s_set_octave_once (upd_cur s1 (fun t => tr_set_octave t (tr_octave t - s_octave_once s1))) 0))
        with (cur_track (upd_cur s1 (fun t => tr_set_octave t (tr_octave t - s_octave_once s1)))).
      rewrite i_cur_track_upd_cur by exact Hc1. exact Hi1. }
    clearbody s2.
    destruct (s_harmony_flag s2); [reflexivity|]. destruct (slur >=? 1); [reflexivity|]. destruct (negb _); [reflexivity|].
    f_equal. apply upd_cur_ext. rewrite write_cc_notes_idle by exact Hi2. reflexivity.
  - f_equal. apply upd_cur_ext. rewrite write_cc_notes_idle by exact Hi. reflexivity.
Qed.

(* the state handed to emit_note when nothing is reserved: the song itself *)
Lemma advance_idle s v tm q : cur_idle s ->
  s_set_rand_seed (upd_cur s (fun x => rsv_advance x v tm q)) (s_rand_seed s) = s.
Proof.
  intros Hi. rewrite upd_cur_same; [apply song_eta_seed|]. apply rsv_advance_idle. exact Hi.
Qed.

Lemma exec_note_idle s base flag natural len qlen vel timing oct slur : cur_in s -> cur_idle s ->
  exec_note s base flag natural len qlen vel timing oct slur = exec_note_plain s base flag natural len qlen vel timing oct slur.
Proof.
  intros Hc Hi. unfold exec_note, exec_note_plain. cbv zeta.
  rewrite (rsv_on_note_idle _ _ _ _ Hi). cbn [fst].
  unfold cur_idle, idle in Hi. rewrite Hi. cbn [rsv_new rv_o_rand rv_v_rand rv_t_rand rv_q_rand].
  rewrite draw_octave_zero, !draw_zero. cbn [Z.eqb].
  change (-1 =? -1) with true. cbv iota.
  rewrite advance_idle by exact Hi. apply emit_note_idle; assumption.
Qed.

Lemma exec_note_n_idle s no len qlen vel timing slur : cur_in s -> cur_idle s ->
  exec_note_n s no len qlen vel timing slur = exec_note_n_plain s no len qlen vel timing slur.
Proof.
  intros Hc Hi. unfold exec_note_n, exec_note_n_plain. cbv zeta.
  rewrite (rsv_on_note_idle _ _ _ _ Hi). cbn [fst].
  unfold cur_idle, idle in Hi. rewrite Hi. cbn [rsv_new rv_o_rand rv_v_rand rv_t_rand rv_q_rand].
  rewrite !draw_zero. change (-1 =? -1) with true. cbv iota.
  rewrite advance_idle by exact Hi. apply emit_note_idle; assumption.
Qed.

(* ---- the arms of the note language on an idle current track ---- *)
Lemma upd_cur_clear s w (G : track -> track) : cur_idle s -> upd_cur s (fun t => G (rsv_clear w t)) = upd_cur s G.
Proof. intros Hi. apply upd_cur_ext. rewrite rsv_clear_idle by exact Hi. reflexivity. Qed.
Lemma upd_cur_remove_wave s no : cur_idle s ->
  upd_cur s (fun t => on_rt t (fun k => Reserve.remove_cc_on_note_wave k no)) = s.
Proof. intros Hi. apply upd_cur_same. apply remove_cc_wave_idle. exact Hi. Qed.
