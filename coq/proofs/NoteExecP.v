(* C03 - part 3: the simulation.  For every well-formed syntax tree the structured meaning (LoopSpec.sem over
   RunCore.step_tok) of its tokens, hence exec_f on them, computes a state related by R to the documented
   semantics of the tree.  Leaves: NoteSimP.v; here loops (through the generic C05 theorem), Sub, tuplets,
   chords, and the final theorems. *)
From Coq Require Import Permutation.
From Sakura.Model Require Import Base Cursor Length Event Song Token LoopMachine LexCore RunCore Tie Compile.
From Sakura.Spec Require Import LenSpec NoteSem LoopSpec.
From Sakura.Proofs Require Import IdleP LengthP LoopP BlockP NoteSimDefs NoteSimP NoteStructP.
From Sakura.Proofs Require Import FollowP.
Open Scope Z_scope.

(* ------------------------------------------------------------------------------------------------ *)
(* 1. SEM on leaves and concatenations                                                                *)

Lemma R_break s p : R s p -> s_break_flag s = 0.
Proof. intros H. apply H. Qed.

Lemma SEM_papp ec a b r : SEM ec (papp a b) r = SEM ec b (SEM ec a r).
Proof. apply sem_app. Qed.

Lemma SEM_leaf ec t q s : s_break_flag s = 0 -> SEM ec (PCons (Leaf t) q) (Ok s) = SEM ec q (step_song ec t s).
Proof. intros H. unfold SEM. rewrite sem_cons, sem_item_leaf. cbn [halted]. rewrite H. reflexivity. Qed.

Lemma SEM_loop ec n a b s :
  SEM ec (PCons (Loop n a b) PNil) (Ok s)
  = passes (SEM ec a) (match b with Some b' => SEM ec b' | None => fun x => x end) (Nat.max 1 (Z.to_nat n)) (Ok s).
Proof. unfold SEM. rewrite sem_cons, sem_item_loop. destruct b; reflexivity. Qed.

Lemma inner_cost_l_cons x r : inner_cost_l (x :: r) = Nat.max (inner_cost x) (inner_cost_l r).
Proof. reflexivity. Qed.

Definition item_ok (c : cmd) : Prop :=
  forall d steps s p f, (depth c <= d)%nat -> (inner_cost c <= steps)%nat -> (depth c <= f)%nat -> R s p ->
  exists s', SEM (exec_f d steps) (prog_cmd c) (Ok s) = Ok s' /\ R s' (NoteSem.sem f c p).

Definition list_ok (l : list cmd) : Prop :=
  forall d steps s p f, (prog_depth l <= d)%nat -> (inner_cost_l l <= steps)%nat -> (prog_depth l <= f)%nat -> R s p ->
  exists s', SEM (exec_f d steps) (progl l) (Ok s) = Ok s' /\ R s' (sem_prog f l p).

Lemma list_ok_of l : (forall x, In x l -> item_ok x) -> list_ok l.
Proof.
  induction l as [|x r IH]; intros H d steps s p f Hd Hi Hf HR.
  - exists s. split; [reflexivity|exact HR].
  - rewrite prog_depth_cons in Hd, Hf. rewrite inner_cost_l_cons in Hi. rewrite progl_cons, SEM_papp.
    destruct (H x (or_introl eq_refl) d steps s p f) as (s1 & E1 & R1); try lia; [exact HR|].
    rewrite E1. cbn [sem_prog]. apply IH; try lia; [|exact R1]. intros y Hy. apply H. right. exact Hy.
Qed.

Lemma item_ok_leaf c t : prog_cmd c = PCons (Leaf t) PNil -> leaf_ok c t -> item_ok c.
Proof.
  intros Hp Hl d steps s p f Hd Hi Hf HR. destruct f as [|f]; [pose proof (depth_pos c); lia|].
  destruct (Hl (exec_f d steps) s p f HR) as (s' & E & HR'). exists s'.
  rewrite Hp, SEM_leaf by (apply (R_break s p HR)). rewrite E. split; [reflexivity|exact HR'].
Qed.

(* exec() of the children of a Sub / tuplet *)
Lemma exec_ok l : list_ok l ->
  forall d steps s p f, (prog_depth l <= d)%nat -> (S (flat_cost_l l) < steps)%nat -> (inner_cost_l l <= steps)%nat ->
  (prog_depth l <= f)%nat -> R s p ->
  exists s', exec_f (S d) steps (TLineNo 0 :: tokens_of l) (Ok s) = Ok s' /\ R s' (sem_prog f l p).
Proof.
  intros Hl d steps s p f Hd Hc Hi Hf HR.
  rewrite exec_f_SEM_top by exact Hc. rewrite SEM_leaf by (apply (R_break s p HR)). cbn [step_song].
  apply Hl; try assumption.
Qed.

Lemma exec_ok_plain l : list_ok l ->
  forall d steps s p f, (prog_depth l <= d)%nat -> (flat_cost_l l < steps)%nat -> (inner_cost_l l <= steps)%nat ->
  (prog_depth l <= f)%nat -> R s p ->
  exists s', exec_f (S d) steps (tokens_of l) (Ok s) = Ok s' /\ R s' (sem_prog f l p).
Proof.
  intros Hl d steps s p f Hd Hc Hi Hf HR. rewrite exec_f_SEM by exact Hc. apply Hl; assumption.
Qed.

(* ------------------------------------------------------------------------------------------------ *)
(* 2. loops: the unrolling of LoopSpec is the unrolling of NoteSem                                    *)

Definition sim (fa : res song -> res song) (g : perf -> perf) : Prop :=
  forall s p, R s p -> exists s', fa (Ok s) = Ok s' /\ R s' (g p).

Lemma sim_passes_none fa g : sim fa g -> forall k, sim (passes fa (fun x => x) (S k)) (repeat_fn (S k) g).
Proof.
  intros H. induction k as [|k IH]; intros s p HR.
  - rewrite passes_1. cbn [repeat_fn]. apply H. exact HR.
  - rewrite passes_SS. destruct (H s p HR) as (s1 & E1 & R1). rewrite E1.
    change (repeat_fn (S (S k)) g p) with (repeat_fn (S k) g (g p)). apply IH. exact R1.
Qed.

Lemma sim_passes_some fa fb ga gb : sim fa ga -> sim fb gb ->
  forall k, sim (passes fa fb (S k)) (fun p => ga (repeat_fn k (fun q => gb (ga q)) p)).
Proof.
  intros Ha Hb. induction k as [|k IH]; intros s p HR.
  - rewrite passes_1. cbn [repeat_fn]. apply Ha. exact HR.
  - rewrite passes_SS. destruct (Ha s p HR) as (s1 & E1 & R1). rewrite E1.
    destruct (Hb s1 _ R1) as (s2 & E2 & R2). rewrite E2.
    change (repeat_fn (S k) (fun q => gb (ga q)) p) with (repeat_fn k (fun q => gb (ga q)) (gb (ga p))).
    apply (IH s2 _ R2).
Qed.

Lemma inner_cost_loop n body brk :
  inner_cost (CLoop n body brk) = Nat.max (inner_cost_l body) (match brk with Some b => inner_cost_l b | None => O end).
Proof. reflexivity. Qed.

Lemma forallb_in {A} (f : A -> bool) l x : forallb f l = true -> In x l -> f x = true.
Proof. intros H. apply (proj1 (forallb_forall f l) H). Qed.

Lemma loop_ok n body brk :
  wf_cmd (CLoop n body brk) = true -> list_ok body -> (forall b, brk = Some b -> list_ok b) ->
  item_ok (CLoop n body brk).
Proof.
  cbn [wf_cmd]. intros Hwf Hbody Hbrk. apply andb_prop in Hwf. destruct Hwf as [Hwf _].
  apply andb_prop in Hwf. destruct Hwf as [Hn _].
  intros d steps s p f Hd Hi Hf HR. rewrite depth_loop in Hd, Hf. rewrite inner_cost_loop in Hi.
  destruct f as [|f]; [lia|]. rewrite sem_loop.
  assert (Hk : exists k, Z.to_nat (opt_or n 2) = S k).
  { destruct n as [v|]; cbn [opt_or].
    - apply Z.leb_le in Hn. exists (Nat.pred (Z.to_nat v)). lia.
    - exists 1%nat. reflexivity. }
  destruct Hk as [k Hk].
  assert (Sb : sim (SEM (exec_f d steps) (progl body)) (sem_prog f body)).
  { intros s1 p1 R1. apply Hbody; try assumption; lia. }
  destruct brk as [b|].
  - change (prog_cmd (CLoop n body (Some b))) with (PCons (Loop (osent n 2) (progl body) (Some (progl b))) PNil).
    rewrite SEM_loop. change (Z.to_nat (osent n 2)) with (Z.to_nat (opt_or n 2)). rewrite Hk.
    replace (Nat.max 1 (S k)) with (S k) by lia.
    assert (Sk : sim (SEM (exec_f d steps) (progl b)) (sem_prog f b)).
    { intros s1 p1 R1. apply (Hbrk b eq_refl); try assumption; lia. }
    replace (S k - 1)%nat with k by lia.
    destruct (sim_passes_some _ _ _ _ Sb Sk k s p HR) as (s' & E & R').
    exists s'. split; [exact E|exact R'].
  - change (prog_cmd (CLoop n body None)) with (PCons (Loop (osent n 2) (progl body) None) PNil).
    rewrite SEM_loop. change (Z.to_nat (osent n 2)) with (Z.to_nat (opt_or n 2)). rewrite Hk.
    replace (Nat.max 1 (S k)) with (S k) by lia.
    destruct (sim_passes_none _ _ Sb k s p HR) as (s' & E & R').
    exists s'. split; [exact E|exact R'].
Qed.

(* ------------------------------------------------------------------------------------------------ *)
(* 3. Sub and tuplets                                                                                 *)

Ltac cur_eqs' HR :=
  let H := fresh "Hcr" in
  pose proof (R_cur _ _ HR) as H;
  destruct H as (Epos' & Ech' & Elen' & Eoct' & Evel' & Egate' & Etim' & Ekey' & Etie' & Ersv' & Eperm').

Lemma prog_cmd_sub body : prog_cmd (CSub body) = PCons (Leaf (TSub (TLineNo 0 :: tokens_of body))) PNil.
Proof. reflexivity. Qed.

Lemma prog_cmd_tuplet items len :
  prog_cmd (CTuplet items len) = PCons (Leaf (TDiv (tuplet_count items) (plen len) (TLineNo 0 :: tokens_of items))) PNil.
Proof. rewrite <- div_count_tuplet. reflexivity. Qed.

Lemma inner_cost_sub body : inner_cost (CSub body) = Nat.max (S (S (flat_cost_l body))) (inner_cost_l body).
Proof. reflexivity. Qed.
Lemma inner_cost_tuplet items len : inner_cost (CTuplet items len) = Nat.max (S (S (flat_cost_l items))) (inner_cost_l items).
Proof. reflexivity. Qed.

Lemma sub_ok body : list_ok body -> item_ok (CSub body).
Proof.
  intros Hbody d steps s p f Hd Hi Hf HR. rewrite depth_sub in Hd, Hf. rewrite inner_cost_sub in Hi.
  destruct f as [|f]; [lia|]. destruct d as [|d]; [lia|]. rewrite sem_sub.
  rewrite prog_cmd_sub, SEM_leaf by (apply (R_break s p HR)). cbn [step_song].
  destruct (exec_ok body Hbody d steps s p f) as (s2 & E2 & R2); try lia; [exact HR|].
  rewrite E2. cbn [bind]. eexists. split; [reflexivity|].
  cur_eqs HR. apply R_upd_cur; [exact R2|]. cur_eqs' R2. proj.
  apply track_rel_intro; proj; assumption.
Qed.

Lemma tuplet_ok items len : olen_wf len = true -> list_ok items -> item_ok (CTuplet items len).
Proof.
  intros Hlen Hitems d steps s p f Hd Hi Hf HR. rewrite depth_tuplet in Hd, Hf. rewrite inner_cost_tuplet in Hi.
  destruct f as [|f]; [lia|]. destruct d as [|d]; [lia|]. rewrite sem_tuplet. cbv zeta.
  rewrite prog_cmd_tuplet, SEM_leaf by (apply (R_break s p HR)). cbn [step_song].
  cur_eqs HR. pose proof HR as (_ & _ & _ & Htb & _).
  assert (EL : calc_length (plen len) (s_timebase s) (tr_length (cur_track s)) = len_of p len (t_len (cur p))).
  { rewrite len_ok by assumption. unfold len_of. rewrite Htb, Elen. reflexivity. }
  rewrite EL.
  set (share := if tuplet_count items >? 0 then Z.quot (len_of p len (t_len (cur p))) (tuplet_count items) else 0).
  assert (R1 : R (upd_cur s (fun t => tr_set_length t share)) (with_cur p (fun t => set_len t share))).
  { apply R_upd_cur; [exact HR|]. proj. apply track_rel_intro; proj; try assumption. reflexivity. }
  destruct (exec_ok items Hitems d steps _ _ f ltac:(lia) ltac:(lia) ltac:(lia) ltac:(lia) R1) as (s2 & E2 & R2).
  rewrite E2. cbn [bind]. eexists. split; [reflexivity|].
  apply R_upd_cur; [exact R2|]. cur_eqs' R2. proj.
  apply track_rel_intro; proj; try assumption; congruence.
Qed.

(* ------------------------------------------------------------------------------------------------ *)
(* 4. chords: between ' and ' the code collects the notes in harmony_events and writes them at the end *)

Definition chord_step (f : nat) (start l g : Z) (vel : option Z) (q : perf) (c : cmd) : perf :=
  match c with
  | CNote base acc natural _ _ _ _ _ =>
      let t := cur q in
      let n := mkNote (t_ch t) (key_of q base acc natural None) start (Z.quot (l * g) 100)
                      (clampz 0 127 (opt_or vel (t_vel t))) in
      with_cur q (fun t => add_note t n)
  | COctUp | COctDown => NoteSem.sem f c q
  | _ => q
  end.

Lemma sem_chord f items len gate vel p :
  NoteSem.sem (S f) (CChord items len gate vel) p =
  with_cur (fold_left (chord_step f (t_pos (cur p)) (len_of p len (t_len (cur p))) (opt_or gate (t_gate (cur p))) vel) items p)
           (fun t => set_pos t (t_pos (cur p) + len_of p len (t_len (cur p)))).
Proof. reflexivity. Qed.

Lemma upd_upd {A} (f g : A -> A) l : forall n, upd n g (upd n f l) = upd n (fun x => g (f x)) l.
Proof. induction l as [|x r IH]; intros [|n]; cbn [upd]; try reflexivity. rewrite IH. reflexivity. Qed.

Lemma nth_upd {A} (f : A -> A) (d : A) l : forall n, (n < length l)%nat -> nth n (upd n f l) d = f (nth n l d).
Proof.
  induction l as [|x r IH]; intros [|n] H; cbn [length] in H; try lia; cbn [upd nth]; [reflexivity|].
  apply IH. lia.
Qed.

Lemma with_cur_with_cur p f g : with_cur (with_cur p f) g = with_cur p (fun t => g (f t)).
Proof. unfold with_cur. cbn [p_tracks p_cur p_tb p_keyflag p_keyshift p_oct_once]. rewrite upd_upd. reflexivity. Qed.

(* a lettered note while a chord is open: it is only collected *)
Lemma exec_note_chord S base flag natural len qlen vel timing oct :
  s_octave_once S = 0 -> s_harmony_flag S = true -> cur_ok S -> tr_rsv (cur_track S) = rsv_new ->
  exec_note S base flag natural len qlen vel timing oct 0 =
  let trk := cur_track S in
  let notelen := calc_length len (s_timebase S) (tr_length trk) in
  Ok (s_set_harmony
        (upd_cur S (fun t => tr_set_timepos (tr_set_timepos t (tr_timepos t + notelen)) (s_harmony_time S)))
        true (s_harmony_time S)
        (s_harmony_events S ++
         [ev_note (tr_timepos trk + (if timing =? ISIZE_MIN then tr_timing trk else timing)) (tr_channel trk)
                  (value_range 0 (note_number S base flag natural oct) 127)
                  (note_len_real notelen (if qlen =? 0 then tr_qlen trk else qlen))
                  (value_range 0 (if vel <? 0 then tr_velocity trk else vel) 127)])).
Proof.
  intros Ho Hh Hc Hi. rewrite (exec_note_idle S _ _ _ _ _ _ _ _ _ Hc Hi). unfold exec_note_plain.
  set (ev := ev_note _ _ _ _ _). set (nl := calc_length len _ _). cbv zeta.
  unfold emit_note_plain.
  set (s1 := upd_cur S (fun t => tr_set_timepos t (tr_timepos t + nl))).
  change (s_octave_once s1) with (s_octave_once S). rewrite Ho. cbn [Z.eqb].
  change (s_harmony_flag s1) with (s_harmony_flag S). rewrite Hh.
  change (s_harmony_time s1) with (s_harmony_time S). change (s_harmony_events s1) with (s_harmony_events S).
  unfold s1. rewrite upd_cur_upd_cur. reflexivity.
Qed.

Lemma notes_of_rev l : Permutation (notes_of (rev l)) (notes_of l).
Proof.
  induction l as [|x r IH]; [reflexivity|]. cbn [rev]. rewrite notes_of_app.
  change (x :: r) with ([x] ++ r). rewrite (notes_of_app [x] r).
  etransitivity; [apply Permutation_app_comm|]. apply Permutation_app_head. exact IH.
Qed.

Section Chord.
  Variable ec : list tok -> res song -> res song.
  Variables (s0 : song) (p : perf).
  Hypothesis HR : R s0 p.
  Variables (len : olen) (gate vel : option Z).
  Hypothesis Hlen : olen_wf len = true.
  Hypothesis Hgate : match gate with Some g => 0 <? g | None => true end = true.
  Hypothesis Hvel : match vel with Some v => (0 <=? v) && (v <=? 127) | None => true end = true.

  Definition c_tp : Z := tr_timepos (cur_track s0).
  Definition c_len0 : Z := tr_length (cur_track s0).
  Definition c_q0 : Z := tr_qlen (cur_track s0).
  Definition c_NL : Z := calc_length (plen len) (s_timebase s0) c_len0.
  Definition c_Q : Z := if osent gate (-1) <? 0 then c_q0 else osent gate (-1).
  Definition fin (e : event) : event := set_harmony_note e c_tp c_NL c_Q vel.
  Definition cstate (fl : bool) (T : track) (evs : list event) : song :=
    s_set_harmony (upd_cur s0 (fun _ => T)) fl c_tp evs.
  Definition cperf (U : tstate) : perf := with_cur p (fun _ => U).

  Definition c_start : Z := t_pos (cur p).
  Definition c_l : Z := len_of p len (t_len (cur p)).
  Definition c_g : Z := opt_or gate (t_gate (cur p)).

  Lemma c_NL_l : c_NL = c_l.
  Proof.
    unfold c_NL, c_l, c_len0. cur_eqs HR. pose proof HR as (_ & _ & _ & Htb & _).
    rewrite len_ok by exact Hlen. unfold len_of. rewrite Htb, Elen. reflexivity.
  Qed.
  Lemma c_tp_start : c_tp = c_start.
  Proof. unfold c_tp, c_start. cur_eqs HR. exact Epos. Qed.

  Lemma cur_cstate fl T evs : cur_track (cstate fl T evs) = T.
  Proof.
    unfold cstate. change (cur_track (s_set_harmony (upd_cur s0 (fun _ => T)) fl c_tp evs)) with (cur_track (upd_cur s0 (fun _ => T))).
    apply cur_track_upd_cur. apply (R_cur_ok s0 p HR).
  Qed.

  Lemma cstate_cur_ok fl T evs : cur_ok (cstate fl T evs).
  Proof.
    unfold cur_ok, cstate. change (s_cur (s_set_harmony (upd_cur s0 (fun _ => T)) fl c_tp evs)) with (s_cur s0).
    change (s_tracks (s_set_harmony (upd_cur s0 (fun _ => T)) fl c_tp evs)) with (s_tracks (upd_cur s0 (fun _ => T))).
    apply (cur_ok_upd_cur s0 _ (R_cur_ok s0 p HR)).
  Qed.

  Lemma cstate_upd fl T evs f fl' evs' :
    s_set_harmony (upd_cur (cstate fl T evs) f) fl' c_tp evs' = cstate fl' (f T) evs'.
  Proof.
    unfold cstate.
    change (upd_cur (s_set_harmony (upd_cur s0 (fun _ => T)) fl c_tp evs) f)
      with (s_set_harmony (upd_cur (upd_cur s0 (fun _ => T)) f) fl c_tp evs).
    rewrite upd_cur_upd_cur. reflexivity.
  Qed.

  Lemma cstate_upd_same fl T evs f : upd_cur (cstate fl T evs) f = cstate fl (f T) evs.
  Proof.
    unfold cstate.
    change (upd_cur (s_set_harmony (upd_cur s0 (fun _ => T)) fl c_tp evs) f)
      with (s_set_harmony (upd_cur (upd_cur s0 (fun _ => T)) f) fl c_tp evs).
    rewrite upd_cur_upd_cur. reflexivity.
  Qed.

  Lemma p_cur_ok : (p_cur p < length (p_tracks p))%nat.
  Proof. destruct HR as (Htr & Hcur & Hlt & _). rewrite <- Hcur, <- (Forall2_len _ _ _ Htr). exact Hlt. Qed.

  Lemma cur_cperf U : cur (cperf U) = U.
  Proof. unfold cperf, cur, with_cur. cbn [p_tracks p_cur]. apply nth_upd. apply p_cur_ok. Qed.

  Lemma cperf_upd U g : with_cur (cperf U) g = cperf (g U).
  Proof. unfold cperf. apply with_cur_with_cur. Qed.

  Lemma cstate_init : s_set_harmony s0 true (tr_timepos (cur_track s0)) (s_harmony_events s0) = cstate true (cur_track s0) [].
  Proof.
    destruct HR as (_ & _ & _ & _ & _ & _ & _ & _ & _ & Hhe & _). rewrite Hhe. unfold cstate, c_tp. f_equal.
    unfold upd_cur. rewrite (upd_nth_id _ (track_new 0 0)) by reflexivity. symmetry. apply s_set_tracks_same.
  Qed.

  Lemma cperf_init : p = cperf (cur p).
  Proof.
    unfold cperf, with_cur. destruct p as [trs n tb kf ks oo]. cbn [p_tracks p_cur p_tb p_keyflag p_keyshift p_oct_once]. f_equal.
    unfold cur. cbn [p_tracks p_cur]. clear. revert n. induction trs as [|x r IH]; intros [|n]; cbn [upd nth]; try reflexivity.
    f_equal. apply IH.
  Qed.

  Lemma R_cstate Tf Uf : track_rel Tf Uf -> R (cstate false Tf []) (cperf Uf).
  Proof.
    intros H. assert (A : R (upd_cur s0 (fun _ => Tf)) (cperf Uf)) by (apply R_upd_cur; [exact HR|exact H]).
    destruct A as (A1 & A2 & A3 & A4 & A5 & A6 & A7 & A8 & A9 & A10 & A11 & A12 & A13).
    unfold R, cstate. repeat split; assumption.
  Qed.

  (* the invariant between the current tracks while the chord is open *)
  Definition cinv (T : track) (U : tstate) (evs : list event) : Prop :=
    tr_timepos T = c_tp /\ tr_length T = c_len0 /\ tr_qlen T = c_q0 /\
    tr_timepos T = t_pos U /\ tr_channel T = t_ch U /\ tr_length T = t_len U /\ tr_octave T = t_oct U /\
    tr_velocity T = t_vel U /\ tr_qlen T = t_gate U /\ tr_timing T = t_timing U /\ tr_track_key T = t_key U /\
    tr_tie_notes T = [] /\ tr_rsv T = rsv_new /\
    Permutation (notes_of (tr_events T) ++ notes_of (map fin evs)) (t_notes U).

  Lemma cinv_init : cinv (cur_track s0) (cur p) [].
  Proof.
    cur_eqs HR. unfold cinv, c_tp, c_len0, c_q0. cbn [map]. rewrite app_nil_r. repeat split; assumption.
  Qed.

  Lemma key_of_cperf U base acc natural :
    key_of (cperf U) base acc natural None
    = clampz 0 127 (t_oct U * 12 + base + acc + (if natural then 0 else keyflag_of p base) + p_keyshift p + t_key U).
  Proof. unfold key_of. rewrite cur_cperf. reflexivity. Qed.

  Lemma note_number_cstate fl T evs base acc (natural : bool) : is_base base = true ->
    note_number (cstate fl T evs) base acc (if natural then 1 else 0) (-1)
    = tr_octave T * 12 + base + acc + (if natural then 0 else keyflag_of p base) + p_keyshift p + tr_track_key T.
  Proof.
    intros Hb. pose proof (is_base_range base Hb) as Hr.
    pose proof HR as (_ & _ & _ & _ & Hkf & Hks & Huk & _).
    unfold note_number. rewrite cur_cstate.
    change (s_use_key_shift (cstate fl T evs)) with (s_use_key_shift s0). rewrite Huk.
    change (s_key_shift (cstate fl T evs)) with (s_key_shift s0). rewrite Hks.
    unfold key_flag_at, keyflag_of. change (s_key_flag (cstate fl T evs)) with (s_key_flag s0). rewrite Hkf.
    rewrite !(Z.mod_small base 12) by lia. cbn [Z.ltb Z.compare].
    destruct natural; reflexivity.
  Qed.

  (* duration and velocity the chord end gives to a collected note *)
  Lemma fin_dur e : e_v2 e = Z.quot (c_len0 * c_q0) 100 -> e_v2 (fin e) = Z.quot (c_l * c_g) 100.
  Proof.
    intros He. unfold fin. cbn [set_harmony_note e_v2]. rewrite c_NL_l.
    cur_eqs HR. unfold c_Q, c_g, c_q0. rewrite Egate.
    destruct gate as [gv|]; cbn [osent opt_or].
    - apply Z.ltb_lt in Hgate. destruct (Z.ltb_spec gv 0); [lia|]. destruct (Z.eqb_spec gv 0); [lia|]. reflexivity.
    - cbn [Z.ltb Z.compare]. destruct (Z.eqb_spec (t_gate (cur p)) 0) as [E0|E0]; [|reflexivity].
      rewrite He. unfold c_q0. rewrite Egate, E0, !Z.mul_0_r. reflexivity.
  Qed.

  Lemma fin_vel e v : e_v3 e = clampz 0 127 v -> e_v3 (fin e) = clampz 0 127 (opt_or vel v).
  Proof.
    intros He. unfold fin. cbn [set_harmony_note e_v3]. destruct vel as [x|]; cbn [opt_or]; [|exact He].
    apply andb_prop in Hvel. destruct Hvel as [H0 H1]. apply Z.leb_le in H0, H1.
    unfold clampz. destruct (Z.ltb_spec x 0); [lia|]. destruct (Z.gtb_spec x 127); [lia|]. reflexivity.
  Qed.

  Lemma chord_item_step f x T U evs :
    chord_item_ok x = true -> (depth x <= f)%nat -> cinv T U evs ->
    exists T' U' evs',
      SEM ec (prog_cmd x) (Ok (cstate true T evs)) = Ok (cstate true T' evs') /\
      chord_step f c_start c_l c_g vel (cperf U) x = cperf U' /\ cinv T' U' evs'.
  Proof.
    intros Hx Hd (I1 & I2 & I3 & I4 & I5 & I6 & I7 & I8 & I9 & I10 & I11 & I12 & Irs & I13).
    pose proof HR as (_ & _ & _ & _ & _ & _ & _ & _ & _ & _ & Hoo & Hbf & _).
    assert (Hbf' : s_break_flag (cstate true T evs) = 0) by exact Hbf.
    destruct x; try discriminate Hx.
    - (* a note *)
      destruct len0, gate0, vel0, timing, oct; try discriminate Hx. cbn [chord_item_ok] in Hx.
      change (prog_cmd (CNote base acc natural None None None None None))
        with (PCons (Leaf (TNote base acc (if natural then 1 else 0) [] 0 (-1) ISIZE_MIN (-1) 0)) PNil).
      rewrite SEM_leaf by exact Hbf'. cbn [step_song].
      rewrite exec_note_chord by (first [exact Hoo | reflexivity | apply cstate_cur_ok | rewrite cur_cstate; exact Irs]). cbv zeta.
      change (s_harmony_time (cstate true T evs)) with c_tp. change (s_harmony_events (cstate true T evs)) with evs.
      rewrite cstate_upd, cur_cstate.
      eexists. eexists. eexists. split; [reflexivity|]. split.
      + cbn [chord_step]. rewrite cperf_upd. reflexivity.
      + rewrite cur_cperf.
        set (EV := ev_note _ _ _ _ _).
        unfold cinv. proj.
        split; [reflexivity|]. split; [assumption|]. split; [assumption|]. split; [congruence|].
        repeat (split; [assumption|]).
        rewrite map_app, notes_of_app, app_assoc. apply Permutation_app; [exact I13|].
        apply Permutation_refl'. change (notes_of (map fin [EV])) with [note_of_event (fin EV)]. f_equal.
        unfold note_of_event.
        rewrite (fin_dur EV), (fin_vel EV (t_vel U)).
        * change (e_ch (fin EV)) with (tr_channel T). change (e_time (fin EV)) with c_tp.
          change (e_v1 (fin EV)) with (value_range 0 (note_number (cstate true T evs) base acc (if natural then 1 else 0) (-1)) 127).
          rewrite key_of_cperf, note_number_cstate by exact Hx. rewrite clamp_eq, I5, I7, I11, c_tp_start. reflexivity.
        * unfold EV. cbn [e_v3 ev_note Z.ltb Z.compare]. rewrite I8. reflexivity.
        * unfold EV. cbn [e_v2 ev_note Z.eqb]. rewrite calc_length_empty, I2, I3. reflexivity.
    - (* > *)
      destruct f as [|f]; [cbn [depth] in Hd; lia|].
      change (prog_cmd COctUp) with (PCons (Leaf (TOctaveRel 1)) PNil).
      rewrite SEM_leaf by exact Hbf'. cbn [step_song]. rewrite cstate_upd_same.
      eexists. eexists. eexists. split; [reflexivity|]. split.
      + cbn [chord_step NoteSem.sem]. rewrite cperf_upd. reflexivity.
      + unfold cinv. proj. repeat split; try assumption. rewrite I7. reflexivity.
    - (* < *)
      destruct f as [|f]; [cbn [depth] in Hd; lia|].
      change (prog_cmd COctDown) with (PCons (Leaf (TOctaveRel (-1))) PNil).
      rewrite SEM_leaf by exact Hbf'. cbn [step_song]. rewrite cstate_upd_same.
      eexists. eexists. eexists. split; [reflexivity|]. split.
      + cbn [chord_step NoteSem.sem]. rewrite cperf_upd. reflexivity.
      + unfold cinv. proj. repeat split; try assumption. rewrite I7. reflexivity.
  Qed.

  Lemma chord_items_fold f items : forallb chord_item_ok items = true -> (prog_depth items <= f)%nat ->
    forall T U evs, cinv T U evs ->
    exists T' U' evs',
      SEM ec (progl items) (Ok (cstate true T evs)) = Ok (cstate true T' evs') /\
      fold_left (chord_step f c_start c_l c_g vel) items (cperf U) = cperf U' /\ cinv T' U' evs'.
  Proof.
    induction items as [|x r IH]; intros Hall Hd T U evs HI.
    - exists T, U, evs. split; [reflexivity|]. split; [reflexivity|exact HI].
    - cbn [forallb] in Hall. apply andb_prop in Hall. destruct Hall as [Hx Hr]. rewrite prog_depth_cons in Hd.
      destruct (chord_item_step f x T U evs Hx ltac:(lia) HI) as (T1 & U1 & evs1 & E1 & F1 & I1).
      destruct (IH Hr ltac:(lia) T1 U1 evs1 I1) as (T2 & U2 & evs2 & E2 & F2 & I2).
      exists T2, U2, evs2. rewrite progl_cons, SEM_papp, E1, E2. cbn [fold_left]. rewrite F1, F2.
      split; [reflexivity|]. split; [reflexivity|exact I2].
  Qed.

  Lemma chord_end T U evs : cinv T U evs ->
    exists s', step_song ec (THarmonyEnd (plen len) (osent gate (-1)) vel) (cstate true T evs) = Ok s' /\
               R s' (cperf (set_pos U (c_start + c_l))).
  Proof.
    intros (I1 & I2 & I3 & I4 & I5 & I6 & I7 & I8 & I9 & I10 & I11 & I12 & Irs & I13).
    cbn [step_song]. unfold exec_harmony_end.
    change (s_harmony_flag (cstate true T evs)) with true. cbv iota. rewrite cur_cstate.
    change (s_harmony_time (cstate true T evs)) with c_tp. change (s_harmony_events (cstate true T evs)) with evs.
    change (s_timebase (cstate true T evs)) with (s_timebase s0).
    rewrite cstate_upd. eexists. split; [reflexivity|].
    apply R_cstate. proj. rewrite I2, I3. fold c_NL. fold c_Q. fold fin.
    apply track_rel_intro; proj; try assumption.
    - rewrite c_NL_l, c_tp_start. reflexivity.
    - rewrite notes_of_app. etransitivity; [|exact I13]. apply Permutation_app_head.
      rewrite map_rev. apply notes_of_rev.
  Qed.
End Chord.

Lemma chord_ok items len gate vel : wf_cmd (CChord items len gate vel) = true -> item_ok (CChord items len gate vel).
Proof.
  cbn [wf_cmd]. intros Hwf. repeat (apply andb_prop in Hwf; destruct Hwf as [Hwf ?]).
  intros d steps s p f Hd Hi Hf HR. rewrite depth_chord in Hd, Hf. destruct f as [|f]; [lia|]. rewrite sem_chord.
  change (prog_cmd (CChord items len gate vel))
    with (PCons (Leaf THarmonyBegin) (papp (progl items) (PCons (Leaf (THarmonyEnd (plen len) (osent gate (-1)) vel)) PNil))).
  rewrite SEM_leaf by (apply (R_break s p HR)). cbn [step_song].
  rewrite (cstate_init s p HR), SEM_papp.
  destruct (chord_items_fold (exec_f d steps) s p HR len gate vel ltac:(assumption) ltac:(assumption) ltac:(assumption)
              f items Hwf ltac:(lia) _ _ _ (cinv_init s p HR len gate vel)) as (T' & U' & evs' & E & F & I).
  rewrite E. rewrite SEM_leaf by (apply (R_break s p HR)).
  destruct (chord_end (exec_f d steps) s p HR len gate vel ltac:(assumption) T' U' evs' I)
    as (s' & E' & R').
  exists s'. rewrite E'. split; [reflexivity|].
  rewrite <- (cperf_init s p HR) in F. unfold c_start, c_l, c_g in F. rewrite F. rewrite cperf_upd. exact R'.
Qed.

(* ------------------------------------------------------------------------------------------------ *)
(* 4b. octave-once marks in front of a lettered note: the marks raise / lower the octave step by step (each step
       clamped to 0..10) and remember what they applied; the note sounds there and takes it back               *)

Lemma upd_cur_once X d f : upd_cur (s_set_octave_once X d) f = s_set_octave_once (upd_cur X f) d.
Proof. reflexivity. Qed.
Lemma harm_once X d : s_harmony_flag (s_set_octave_once X d) = s_harmony_flag X.
Proof. reflexivity. Qed.
Lemma harm_upd X f : s_harmony_flag (upd_cur X f) = s_harmony_flag X.
Proof. reflexivity. Qed.
Lemma cur_track_once X d : cur_track (s_set_octave_once X d) = cur_track X.
Proof. reflexivity. Qed.
Lemma cur_ok_once X d : cur_ok X -> cur_ok (s_set_octave_once X d).
Proof. exact (fun H => H). Qed.

(* the state between the marks and the note: octave o on the current track, d pending *)
Definition mid (s : song) (o d : Z) : song := s_set_octave_once (upd_cur s (fun t => tr_set_octave t o)) d.

Lemma mid_self s : cur_ok s -> mid s (tr_octave (cur_track s)) (s_octave_once s) = s.
Proof.
  intros Hc. unfold mid, upd_cur. rewrite (upd_nth_id _ (track_new 0 0)).
  - rewrite s_set_tracks_same. destruct s; reflexivity.
  - fold (cur_track s). destruct (cur_track s); reflexivity.
Qed.
Lemma cur_track_mid s o d : cur_ok s -> cur_track (mid s o d) = tr_set_octave (cur_track s) o.
Proof.
  intros Hc. unfold mid. change (cur_track (s_set_octave_once (upd_cur s (fun t => tr_set_octave t o)) d))
    with (cur_track (upd_cur s (fun t => tr_set_octave t o))). apply cur_track_upd_cur. exact Hc.
Qed.
Lemma mid_mid s o d o' d' : s_set_octave_once (upd_cur (mid s o d) (fun t => tr_set_octave t o')) d' = mid s o' d'.
Proof.
  unfold mid.
  rewrite upd_cur_once, upd_cur_upd_cur. reflexivity.
Qed.

Lemma once_marks ec rest s : cur_ok s -> s_break_flag s = 0 -> forall marks o d,
  SEM ec (leaves (map TOctaveOnce marks ++ rest)) (Ok (mid s o d))
  = SEM ec (leaves rest) (Ok (mid s (once_oct marks o) (d + (once_oct marks o - o)))).
Proof.
  intros Hc Hb. induction marks as [|k r IH]; intros o d.
  - cbn [map app once_oct fold_left]. replace (d + (o - o)) with d by lia. reflexivity.
  - cbn [map app leaves]. rewrite SEM_leaf by exact Hb. cbn [step_song]. rewrite cur_track_mid by exact Hc.
    cbn [tr_octave tr_set_octave]. change (s_octave_once (mid s o d)) with d. rewrite mid_mid, IH.
    rewrite clamp_eq. change (once_oct (k :: r) o) with (once_oct r (clampz 0 10 (o + k))).
    f_equal. f_equal. f_equal. lia.
Qed.

Lemma R_set_once0 s p : R s p -> R (s_set_octave_once s 0) p.
Proof. intros (A1 & A2 & A3 & A4 & A5 & A6 & A7 & A8 & A9 & A10 & A11 & A12 & A13). unfold R. repeat split; assumption. Qed.

Lemma once_ok marks base acc natural len gate vel timing oct :
  wf_cmd (COnce marks base acc natural len gate vel timing oct) = true ->
  item_ok (COnce marks base acc natural len gate vel timing oct).
Proof.
  cbn [wf_cmd]. intros Hwf. apply andb_prop in Hwf. destruct Hwf as [_ Hwf].
  repeat (apply andb_prop in Hwf; destruct Hwf as [Hwf ?]).
  intros d steps s p f Hd Hi Hf HR. destruct f as [|f]; [cbn [depth] in Hf; lia|].
  cur_eqs HR.
  pose proof HR as (Htr & Hcur & Hlt & Htb & Hkf & Hks & Huk & Hva & Hhf & Hhe & Hoo & Hbf & Hpo).
  pose proof (R_cur_ok s p HR) as Hc.
  change (prog_cmd (COnce marks base acc natural len gate vel timing oct))
    with (leaves (map TOctaveOnce marks ++
                  [TNote base acc (if natural then 1 else 0) (plen len) (osent gate 0) (vel_sentinel vel timing oct)
                         (osent timing ISIZE_MIN) (osent oct (-1)) 0])).
  replace (Ok s) with (Ok (mid s (tr_octave (cur_track s)) (s_octave_once s))) by (rewrite mid_self by exact Hc; reflexivity).
  rewrite once_marks by assumption. rewrite Hoo, Eoct.
  set (o0 := t_oct (cur p)). set (o1 := once_oct marks o0).
  cbn [leaves]. rewrite SEM_leaf by exact Hbf. unfold SEM. cbn [LoopSpec.sem]. cbn [step_song].
  replace (0 + (o1 - o0)) with (o1 - o0) by lia. set (dl := o1 - o0). set (M := mid s o1 dl).
  assert (HcM : cur_ok M) by exact (cur_ok_upd_cur s _ Hc).
  assert (HtM : cur_track M = tr_set_octave (cur_track s) o1) by (apply cur_track_mid; exact Hc).
  assert (HiM : cur_idle M) by (unfold cur_idle, idle; rewrite HtM; exact Ersv).
  rewrite (exec_note_idle M _ _ _ _ _ _ _ _ _ HcM HiM). unfold exec_note_plain.
  set (ev := ev_note _ _ _ _ _). set (nl := calc_length _ _ _). cbv zeta. unfold emit_note_plain.
  set (s1 := upd_cur M (fun t => tr_set_timepos t (tr_timepos t + nl))).
  change (s_octave_once s1) with dl.
  assert (Hs1 : cur_track s1 = tr_set_timepos (cur_track M) (tr_timepos (cur_track M) + nl))
    by (apply cur_track_upd_cur; exact HcM).
  (* the specification side *)
  assert (Hpc : (p_cur p < length (p_tracks p))%nat) by (rewrite <- Hcur, <- (Forall2_len _ _ _ Htr); exact Hlt).
  assert (Hc1 : cur (with_cur p (fun t => set_oct t o1)) = set_oct (cur p) o1)
    by (unfold cur, with_cur; cbn [p_tracks p_cur]; apply (nth_upd (fun t => set_oct t o1)); exact Hpc).
  cbn [NoteSem.sem]. fold o0. fold o1. unfold play. rewrite Hc1. rewrite !with_cur_with_cur.
  assert (EL : nl = len_of p len (t_len (cur p))).
  { unfold nl. rewrite HtM. change (s_timebase M) with (s_timebase s). cbn [tr_length tr_set_octave].
    rewrite len_ok by assumption. unfold len_of. rewrite Htb, Elen. reflexivity. }
  assert (EV : note_of_event ev = mkNote (t_ch (cur p))
                 (key_of (with_cur p (fun t => set_oct t o1)) base acc natural oct) (t_pos (cur p) + opt_or timing (t_timing (cur p)))
                 (Z.quot (len_of p len (t_len (cur p)) * opt_or gate (t_gate (cur p))) 100)
                 (clampz 0 127 (opt_or vel (t_vel (cur p))))).
  { unfold ev. fold nl. rewrite HtM. cbn [tr_timepos tr_channel tr_qlen tr_velocity tr_timing tr_set_octave].
    rewrite EL, sent_gate, sent_timing by assumption. rewrite (sent_vel vel timing oct) by assumption.
    unfold note_of_event. cbn [ev_note e_ch e_v1 e_time e_v2 e_v3].
    rewrite !clamp_eq, Epos, Ech, Egate, Evel, Etim. f_equal.
    unfold key_of. rewrite Hc1. cbn [set_oct t_oct t_key p_keyshift with_cur]. f_equal.
    unfold note_number. rewrite HtM. change (s_use_key_shift M) with (s_use_key_shift s). rewrite Huk.
    cbn [tr_octave tr_track_key tr_set_octave]. rewrite sent_oct by assumption.
    change (s_key_shift M) with (s_key_shift s). rewrite Hks, Ekey.
    pose proof (is_base_range base ltac:(assumption)) as Hb. rewrite (Z.mod_small base 12) by lia.
    unfold key_flag_at, keyflag_of. change (s_key_flag M) with (s_key_flag s). rewrite Hkf.
    cbn [p_keyflag with_cur]. rewrite (Z.mod_small base 12) by lia. destruct natural, oct; reflexivity. }
  assert (Hh1 : s_harmony_flag s1 = false) by exact Hhf.
  (* the final track on both sides *)
  assert (Fin : forall G : track -> track,
            (forall t, tr_octave (G t) = o0 /\ tr_timepos (G t) = tr_timepos t + nl /\ tr_events (G t) = tr_events t ++ [ev] /\
                       tr_channel (G t) = tr_channel t /\ tr_length (G t) = tr_length t /\ tr_velocity (G t) = tr_velocity t /\
                       tr_qlen (G t) = tr_qlen t /\ tr_timing (G t) = tr_timing t /\ tr_track_key (G t) = tr_track_key t /\
                       tr_tie_notes (G t) = tr_tie_notes t /\ tr_rsv (G t) = tr_rsv t) ->
            R (s_set_octave_once (upd_cur s G) 0)
              (with_cur p (fun t => set_oct (set_pos (add_note (set_oct t o1)
                 (mkNote (t_ch (set_oct (cur p) o1)) (key_of (with_cur p (fun t0 => set_oct t0 o1)) base acc natural oct)
                         (t_pos (set_oct (cur p) o1) + opt_or timing (t_timing (set_oct (cur p) o1)))
                         (Z.quot (len_of (with_cur p (fun t0 => set_oct t0 o1)) len (t_len (set_oct (cur p) o1))
                                  * opt_or gate (t_gate (set_oct (cur p) o1))) 100)
                         (clampz 0 127 (opt_or vel (t_vel (set_oct (cur p) o1))))))
                 (t_pos (set_oct t o1) + len_of (with_cur p (fun t0 => set_oct t0 o1)) len (t_len (set_oct (cur p) o1)))) o0))).
  { intros G HG. apply R_set_once0. apply R_upd_cur; [exact HR|].
    destruct (HG (cur_track s)) as (G1 & G2 & G3 & G4 & G5 & G6 & G7 & G8 & G9 & G10 & G11).
    change (len_of (with_cur p (fun t0 => set_oct t0 o1)) len (t_len (set_oct (cur p) o1))) with (len_of p len (t_len (cur p))).
    apply track_rel_intro; proj; try congruence.
    rewrite G3, notes_of_app. apply Permutation_app; [exact Eperm|].
    change (notes_of [ev]) with [note_of_event ev]. rewrite EV. reflexivity. }
  destruct (dl =? 0) eqn:Ed.
  - rewrite Hh1. cbn [Z.geb Z.compare]. rewrite Hs1, HtM. cbn [tr_tie_notes tr_set_timepos tr_set_octave]. rewrite Etie. cbn [negb].
    eexists. split; [reflexivity|].
    apply Z.eqb_eq in Ed. unfold s1, M, mid. rewrite !upd_cur_once, !upd_cur_upd_cur, Ed.
    apply Fin. intros t. cbn [tr_octave tr_timepos tr_events tr_channel tr_length tr_velocity tr_qlen tr_timing tr_track_key
      tr_tie_notes tr_rsv tr_push_event tr_set_timepos tr_set_octave tr_set_events]. repeat split. unfold dl in Ed. lia.
  - rewrite harm_once, harm_upd, Hh1. cbn [Z.geb Z.compare].
    rewrite cur_track_once, (cur_track_upd_cur s1) by (exact (cur_ok_upd_cur M _ HcM)). rewrite Hs1, HtM.
    cbn [tr_tie_notes tr_set_timepos tr_set_octave]. rewrite Etie. cbn [negb].
    eexists. split; [reflexivity|].
    unfold s1, M, mid. rewrite !upd_cur_once, !upd_cur_upd_cur.
    change (s_set_octave_once (s_set_octave_once ?X dl) 0) with (s_set_octave_once X 0).
    apply Fin. intros t. cbn [tr_octave tr_timepos tr_events tr_channel tr_length tr_velocity tr_qlen tr_timing tr_track_key
      tr_tie_notes tr_rsv tr_push_event tr_set_timepos tr_set_octave tr_set_events]. repeat split. unfold dl. lia.
Qed.

(* ------------------------------------------------------------------------------------------------ *)
(* 5. every well-formed command, by induction over the syntax tree                                    *)

Lemma forallb_item_ok l : (forall x, In x l -> wf_cmd x = true -> item_ok x) -> forallb wf_cmd l = true -> list_ok l.
Proof. intros H Hl. apply list_ok_of. intros x Hx. apply H; [exact Hx|]. apply (forallb_in wf_cmd l x Hl Hx). Qed.

Theorem all_item_ok : forall c, wf_cmd c = true -> item_ok c.
Proof.
  induction c as [c IH] using cmd_children_ind. intros Hwf. destruct c.
  - eapply item_ok_leaf; [reflexivity|]. apply step_note. exact Hwf.
  - eapply item_ok_leaf; [reflexivity|]. apply step_note_n. exact Hwf.
  - eapply item_ok_leaf; [reflexivity|]. apply step_rest. exact Hwf.
  - eapply item_ok_leaf; [reflexivity|]. apply step_len. exact Hwf.
  - eapply item_ok_leaf; [reflexivity|]. apply step_oct.
  - eapply item_ok_leaf; [reflexivity|]. apply step_vel.
  - eapply item_ok_leaf; [reflexivity|]. apply step_gate.
  - eapply item_ok_leaf; [reflexivity|]. apply step_timing.
  - eapply item_ok_leaf; [reflexivity|]. apply step_oct_up.
  - eapply item_ok_leaf; [reflexivity|]. apply step_oct_down.
  - eapply item_ok_leaf; [reflexivity|]. apply step_vel_up.
  - eapply item_ok_leaf; [reflexivity|]. apply step_vel_down.
  - (* loop *)
    pose proof Hwf as Hwf'. cbn [wf_cmd] in Hwf'. apply andb_prop in Hwf'. destruct Hwf' as [Hwf' Hk].
    apply andb_prop in Hwf'. destruct Hwf' as [_ Hb]. cbn [children] in IH.
    apply loop_ok; [exact Hwf| |].
    + apply forallb_item_ok; [|exact Hb]. intros x Hx. apply IH. apply in_or_app. left. exact Hx.
    + intros b ->. apply forallb_item_ok; [|exact Hk]. intros x Hx. apply IH. apply in_or_app. right. exact Hx.
  - apply chord_ok. exact Hwf.
  - (* tuplet *)
    cbn [wf_cmd] in Hwf. apply andb_prop in Hwf. destruct Hwf as [Hi Hl]. cbn [children] in IH.
    apply tuplet_ok; [exact Hl|]. apply forallb_item_ok; [|exact Hi]. exact IH.
  - (* Sub *)
    cbn [wf_cmd] in Hwf. cbn [children] in IH. apply sub_ok. apply forallb_item_ok; [|exact Hwf]. exact IH.
  - eapply item_ok_leaf; [reflexivity|]. apply step_track. exact Hwf.
  - eapply item_ok_leaf; [reflexivity|]. apply step_channel.
  - eapply item_ok_leaf; [reflexivity|]. apply step_voice.
  - eapply item_ok_leaf; [reflexivity|]. apply step_key_flag.
  - eapply item_ok_leaf; [reflexivity|]. apply step_key_shift.
  - eapply item_ok_leaf; [reflexivity|]. apply step_track_key.
  - apply once_ok. exact Hwf.
Qed.

Theorem prog_ok l : wf_prog l = true -> list_ok l.
Proof. intros H. apply forallb_item_ok; [|exact H]. intros x _. apply all_item_ok. Qed.

(* ------------------------------------------------------------------------------------------------ *)
(* 6. whole programs                                                                                  *)

Lemma R_init : R song_new perf0.
Proof.
  unfold R, song_new, perf0. cbn [s_tracks s_cur s_timebase s_key_flag s_key_shift s_use_key_shift s_v_add s_harmony_flag
    s_harmony_events s_octave_once s_break_flag p_tracks p_cur p_tb p_keyflag p_keyshift p_oct_once length].
  split; [constructor; [|constructor]; apply track_rel_intro; reflexivity|].
  repeat split; try reflexivity; lia.
Qed.

(* the state exec() starts from in Compile.run_source: Song::new with the lexer's time base, log and variables *)
Lemma R_after_lex ls : lx_timebase ls = 96 -> R (song_after_lex ls) perf0.
Proof.
  intros H. unfold song_after_lex, song_with_ls. rewrite H. change (s_timebase song_new) with 96. rewrite map_follow_same.
  destruct R_init as (A1 & A2 & A3 & A4 & A5 & A6 & A7 & A8 & A9 & A10 & A11 & A12 & A13).
  unfold R. cbn [s_tracks s_cur s_timebase s_key_flag s_key_shift s_use_key_shift s_v_add s_harmony_flag
    s_harmony_events s_octave_once s_break_flag s_set_rhythm s_set_vars s_set_logs s_set_timebase].
  repeat split; assumption.
Qed.

Definition same_notes (s : song) (q : perf) : Prop :=
  Forall2 (fun tr t => Permutation (notes_of (tr_events tr)) (t_notes t)) (s_tracks s) (p_tracks q).

Lemma R_same_notes s q : R s q -> same_notes s q.
Proof.
  intros (H & _). unfold same_notes. induction H as [|a b l1 l2 Hab H IH]; constructor; [|exact IH]. apply Hab.
Qed.

Lemma fuel_of_flat l : (S (flat_cost_l l) < fuel_of l)%nat.
Proof. unfold fuel_of. lia. Qed.
Lemma fuel_of_inner l : (inner_cost_l l <= fuel_of l)%nat.
Proof. unfold fuel_of. lia. Qed.

Theorem exec_simulation_top p : wf_prog p = true ->
  forall s0 d steps, R s0 perf0 -> (prog_depth p <= d)%nat -> (fuel_of p <= steps)%nat ->
  exists s, exec_f (S d) steps (top_tokens p) (Ok s0) = Ok s /\ R s (denote_prog p).
Proof.
  intros Hwf s0 d steps H0 Hd Hs. unfold denote_prog, top_tokens.
  pose proof (fuel_of_flat p). pose proof (fuel_of_inner p).
  apply (exec_ok p (prog_ok p Hwf)); try lia. exact H0.
Qed.

Theorem exec_simulation p : wf_prog p = true ->
  forall s0 d steps, R s0 perf0 -> (prog_depth p <= d)%nat -> (fuel_of p <= steps)%nat ->
  exists s, exec_f (S d) steps (tokens_of p) (Ok s0) = Ok s /\ R s (denote_prog p).
Proof.
  intros Hwf s0 d steps H0 Hd Hs. unfold denote_prog.
  pose proof (fuel_of_flat p). pose proof (fuel_of_inner p).
  apply (exec_ok_plain p (prog_ok p Hwf)); try lia. exact H0.
Qed.

(* Compile.run_source on the printed program, GIVEN that the lexer returns the tokens of the tree (the link tested
   by the check, kind lex_vs_tokens) and leaves the time base alone *)
Theorem run_source_simulation p ls : wf_prog p = true ->
  lex (mkLex 96 [] init_vars VarRows.rhythm_rows false) (pprog p) 0 = Ok (top_tokens p, ls) -> lx_timebase ls = 96 ->
  (prog_depth p <= length (pprog p))%nat -> (fuel_of p <= STEPS)%nat ->
  exists s, run_source (pprog p) = Ok s /\ R s (denote_prog p).
Proof.
  intros Hwf Hlex Htb Hd Hs. unfold run_source, run_source_lang. rewrite Hlex. cbn [bind].
  apply exec_simulation_top; try assumption. apply R_after_lex. exact Htb.
Qed.

Theorem exec_simulation_from l : wf_prog l = true ->
  forall (d steps : nat) (s : song) (q : perf) (f : nat),
  (prog_depth l <= d)%nat -> (flat_cost_l l < steps)%nat -> (inner_cost_l l <= steps)%nat -> (prog_depth l <= f)%nat ->
  R s q ->
  exists s', exec_f (S d) steps (tokens_of l) (Ok s) = Ok s' /\ R s' (sem_prog f l q).
Proof. intros H. apply exec_ok_plain. apply prog_ok. exact H. Qed.

Theorem notes_simulation p : wf_prog p = true ->
  exists s, exec_f (S (prog_depth p)) (fuel_of p) (top_tokens p) (Ok song_new) = Ok s /\
    Forall2 (fun tr t => Permutation (notes_of (tr_events tr)) (t_notes t)) (s_tracks s) (p_tracks (denote_prog p)).
Proof.
  intros H. destruct (exec_simulation_top p H song_new (prog_depth p) (fuel_of p) R_init (le_n _) (le_n _)) as (s & E & HR).
  exists s. split; [exact E|]. apply R_same_notes. exact HR.
Qed.

(* octave-once marks and their note, on their own: the machine and the specification agree from any pair of related
   states; the octave is afterwards what it was before the marks (on both sides); the one note added sounds in the octave
   the marks lead to, each mark clamped to 0..10 (or in the octave written on the note itself) *)
Theorem once_simulation marks base acc natural len gate vel timing oct :
  wf_cmd (COnce marks base acc natural len gate vel timing oct) = true ->
  forall (d steps : nat) (s : song) (q : perf), (S (length marks) < steps)%nat -> R s q ->
  let c := COnce marks base acc natural len gate vel timing oct in
  exists s', exec_f (S (S d)) steps (tok_cmd c) (Ok s) = Ok s' /\ R s' (NoteSem.sem 1 c q) /\
    tr_octave (cur_track s') = tr_octave (cur_track s) /\
    t_oct (cur (NoteSem.sem 1 c q)) = t_oct (cur q) /\
    exists n, t_notes (cur (NoteSem.sem 1 c q)) = t_notes (cur q) ++ [n] /\
      n_key n = clampz 0 127 ((match oct with Some o => o | None => once_oct marks (t_oct (cur q)) end) * 12 + base + acc
                              + (if natural then 0 else keyflag_of q base) + p_keyshift q + t_key (cur q)).
Proof.
  intros Hwf d steps s q Hs HR c.
  assert (Hw : wf_prog [c] = true) by (unfold wf_prog, c; cbn [forallb]; rewrite Hwf; reflexivity).
  destruct (exec_simulation_from [c] Hw (S d) steps s q 1%nat) as (s' & E & R');
    try (unfold c; cbn [prog_depth fold_right depth flat_cost_l inner_cost_l map flat_cost inner_cost list_sum list_max Nat.max Nat.add]; lia);
    [exact HR|].
  cbn [tokens_of flat_map] in E. rewrite app_nil_r in E. cbn [sem_prog] in R'.
  exists s'. split; [exact E|]. split; [exact R'|].
  pose proof HR as (Htr & Hcur & Hlt & _).
  assert (Hpc : (p_cur q < length (p_tracks q))%nat) by (rewrite <- Hcur, <- (Forall2_len _ _ _ Htr); exact Hlt).
  assert (Hq : forall g, cur (with_cur q g) = g (cur q)).
  { intros g. unfold cur, with_cur. cbn [p_tracks p_cur]. apply (nth_upd g). exact Hpc. }
  assert (Hsem : cur (NoteSem.sem 1 c q) =
    set_oct (set_pos (add_note (set_oct (cur q) (once_oct marks (t_oct (cur q))))
       (mkNote (t_ch (cur q)) (key_of (with_cur q (fun t => set_oct t (once_oct marks (t_oct (cur q))))) base acc natural oct)
               (t_pos (cur q) + opt_or timing (t_timing (cur q)))
               (Z.quot (len_of q len (t_len (cur q)) * opt_or gate (t_gate (cur q))) 100)
               (clampz 0 127 (opt_or vel (t_vel (cur q))))))
       (t_pos (cur q) + len_of q len (t_len (cur q)))) (t_oct (cur q))).
  { unfold c. cbn [NoteSem.sem]. unfold play. rewrite !with_cur_with_cur, Hq, Hq. reflexivity. }
  split; [|split].
  - destruct (R_cur _ _ R') as (_ & _ & _ & Eo' & _). destruct (R_cur _ _ HR) as (_ & _ & _ & Eo & _).
    rewrite Eo', Eo, Hsem. reflexivity.
  - rewrite Hsem. reflexivity.
  - rewrite Hsem. eexists. split; [reflexivity|]. cbn [n_key]. unfold key_of. rewrite Hq.
    cbn [set_oct t_oct t_key p_keyshift with_cur]. destruct oct; reflexivity.
Qed.
