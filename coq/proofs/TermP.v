(* C07: the lexer terminates and never panics.
   Every reader of model/LexCore.v returns a text that is a SUFFIX of the text it was given (and never OutOfFuel / Panic
   with the fuel its caller passes); every arm of the loop of lex_f goes on at a suffix of the text after the character
   it took; the blocks lexed recursively ({..}, Sub{..}, Div{..}, Rhythm{..}) hold strictly fewer "trigger" characters
   ('{' 'S' 'D' 'R' after zen2han) than the text they are cut from, which bounds the nesting by the outer fuel.
   The Rhythm arm lexes the EXPANSION of its block: the statement needs a premise that keeps the expansion from growing
   the nesting (a rhythm macro whose body calls Rhythm on itself recurses for ever - in the model: OutOfFuel, in the
   implementation: stack overflow; `lex_rhythm_recursion` below). *)
From Coq Require Import String Ascii.
From Sakura.Model Require Import Base Cursor Length Event Song Token LexCore.
From Sakura.Gen Require Import Consts SysFuncRows Messages VarRows.
From Sakura.Proofs Require Import LayoutP.
From Coq Require Import Lia.
Open Scope list_scope.
Open Scope Z_scope.

(* ------------------------------------------------------------------------------------------ *)
(* 1. suffixes and pieces                                                                       *)
(* ------------------------------------------------------------------------------------------ *)
Definition suffix (a b : list Z) : Prop := exists p, b = p ++ a.
Definition piece (a b : list Z) : Prop := exists p q, b = p ++ a ++ q.

Lemma suffix_refl a : suffix a a.
Proof. exists []. reflexivity. Qed.
Lemma suffix_nil a : suffix [] a.
Proof. exists a. rewrite app_nil_r. reflexivity. Qed.
Lemma suffix_cons a c b : suffix a b -> suffix a (c :: b).
Proof. intros [p ->]. exists (c :: p). reflexivity. Qed.
Lemma suffix_trans a b c : suffix a b -> suffix b c -> suffix a c.
Proof. intros [p ->] [q ->]. exists (q ++ p). rewrite app_assoc. reflexivity. Qed.
Lemma suffix_tl a : suffix (tl a) a.
Proof. destruct a as [|c a]; [apply suffix_refl|]. apply suffix_cons, suffix_refl. Qed.
Lemma suffix_tl_l a b : suffix a b -> suffix (tl a) b.
Proof. intros H. exact (suffix_trans _ _ _ (suffix_tl a) H). Qed.
Lemma suffix_skipn k a : suffix (skipn k a) a.
Proof. exists (firstn k a). symmetry. apply firstn_skipn. Qed.
Lemma suffix_skipn_l k a b : suffix a b -> suffix (skipn k a) b.
Proof. intros H. exact (suffix_trans _ _ _ (suffix_skipn k a) H). Qed.
Lemma suffix_length a b : suffix a b -> (length a <= length b)%nat.
Proof. intros [p ->]. rewrite app_length. lia. Qed.
Lemma suffix_Forall (P : Z -> Prop) a b : suffix a b -> Forall P b -> Forall P a.
Proof. intros [p ->] H. apply Forall_app in H. tauto. Qed.
Lemma suffix_piece a b : suffix a b -> piece a b.
Proof. intros [p ->]. exists p, []. rewrite app_nil_r. reflexivity. Qed.
Lemma piece_refl a : piece a a.
Proof. apply suffix_piece, suffix_refl. Qed.
Lemma piece_trans a b c : piece a b -> piece b c -> piece a c.
Proof.
  intros [p [q ->]] [p' [q' ->]]. exists (p' ++ p), (q ++ q'). rewrite <- !app_assoc. reflexivity.
Qed.
Lemma piece_suffix a b c : piece a b -> suffix b c -> piece a c.
Proof. intros H1 H2. exact (piece_trans _ _ _ H1 (suffix_piece _ _ H2)). Qed.
Lemma piece_cons a c b : piece a b -> piece a (c :: b).
Proof. intros [p [q ->]]. exists (c :: p), q. reflexivity. Qed.
Lemma piece_Forall (P : Z -> Prop) a b : piece a b -> Forall P b -> Forall P a.
Proof. intros [p [q ->]] H. apply Forall_app in H. destruct H as [_ H]. apply Forall_app in H. tauto. Qed.
Lemma piece_length a b : piece a b -> (length a <= length b)%nat.
Proof. intros [p [q ->]]. rewrite !app_length. lia. Qed.

(* the solver of goals `suffix a b`: peels tl / skipn / if, follows the hypotheses *)
Ltac sfx :=
  lazymatch goal with
  | |- suffix ?a ?a => apply suffix_refl
  | |- suffix [] _ => apply suffix_nil
  | |- suffix (tl ?x) _ => apply suffix_tl_l; sfx
  | |- suffix (skipn _ ?x) _ => apply suffix_skipn_l; sfx
  | |- suffix (if ?b then _ else _) _ => destruct b; sfx
  | |- suffix ?a ?z =>
      first [ assumption
            | match goal with
              | H : suffix a ?y |- _ => apply (suffix_trans _ _ _ H); sfx
              end
            | apply suffix_cons; sfx ]
  end.

(* ------------------------------------------------------------------------------------------ *)
(* 2. the shape of a reader's answer                                                            *)
(* ------------------------------------------------------------------------------------------ *)
(* a reader that cannot fail: value and text / value, text and line / text and line *)
Definition sf2 {A} (s : list Z) (r : A * list Z) : Prop := suffix (snd r) s.
Definition sf3 {A} (s : list Z) (r : A * list Z * Z) : Prop := suffix (snd (fst r)) s.
Definition sfs (s : list Z) (r : list Z * Z) : Prop := suffix (fst r) s.
(* a bracketed text: the body is a piece, the rest a suffix *)
Definition pc3 (s : list Z) (x : list Z * list Z * Z) : Prop := piece (fst (fst x)) s /\ suffix (snd (fst x)) s.
(* a word read at  c :: r *)
Definition word_head (c : Z) (r : list Z) (x : list Z * list Z) : Prop :=
  suffix (snd x) (c :: r) /\ ((is_word_char c = true \/ c = 35) -> (exists w', fst x = c :: w') /\ suffix (snd x) r).
(* a reader with an outcome: never OutOfFuel, never Panic, and a suffix when it answers *)
Definition ok3 {A} (s : list Z) (r : res (A * list Z * Z)) : Prop :=
  match r with Ok x => suffix (snd (fst x)) s | Unsupported _ => True | _ => False end.
(* never Panic (whatever else) *)
Definition np {A} (r : res A) : Prop := match r with Panic _ => False | _ => True end.
(* never OutOfFuel *)
Definition nf {A} (r : res A) : Prop := match r with OutOfFuel => False | _ => True end.
(* ... that may also write to the log: the other fields of the lexer state are unchanged *)
Definition same_tbl (ls ls' : lexstate) : Prop := lx_rhythm ls' = lx_rhythm ls.
Definition ok4 {A} (ls : lexstate) (s : list Z) (r : res (A * list Z * Z * lexstate)) : Prop :=
  match r with Ok x => suffix (snd (fst (fst x))) s /\ same_tbl ls (snd x) | Unsupported _ => True | _ => False end.

Lemma lx_add_log_tbl ls m : lx_rhythm (lx_add_log ls m) = lx_rhythm ls.
Proof. unfold lx_add_log. destruct (_ <=? _); reflexivity. Qed.
Lemma lex_error_tbl ls s ln m : lx_rhythm (lex_error ls s ln m) = lx_rhythm ls.
Proof. unfold lex_error. destruct (_ =? _); [apply lx_add_log_tbl|]. destruct (_ <? _); [apply lx_add_log_tbl|reflexivity]. Qed.
Lemma read_error_cmd_tbl ls s ln m : lx_rhythm (read_error_cmd ls s ln m) = lx_rhythm ls.
Proof. apply lx_add_log_tbl. Qed.
Lemma cc_warn_tbl ls ln w : lx_rhythm (cc_warn ls ln w) = lx_rhythm ls.
Proof. apply lx_add_log_tbl. Qed.
(* goals  lx_rhythm (... ls ...) = lx_rhythm ls *)
Ltac tbl :=
  repeat first [ reflexivity | assumption
               | rewrite lx_add_log_tbl | rewrite lex_error_tbl | rewrite read_error_cmd_tbl | rewrite cc_warn_tbl
               | match goal with ST : lx_rhythm ?a = _ |- context [lx_rhythm ?a] => rewrite ST end ].

(* the facts are found by head symbol *)
Class Spec {A : Type} (x : A) (P : Prop) : Prop := spec_pf : P.
Global Hint Mode Spec + + - : typeclass_instances.

Ltac head_scrut t :=
  lazymatch t with
  | match ?x with _ => _ end => head_scrut x
  | _ => t
  end.
Ltac simp_spec L :=
  cbv beta iota delta [sf2 sf3 sfs pc3 word_head ok3 ok4 np nf same_tbl fst snd] in L.
(* E : reader args = value  ~>  the reader's fact about that value *)
Ltac harvest E :=
  lazymatch type of E with
  | ?x = _ =>
      try (let L := fresh "SP" in
           pose proof (@spec_pf _ x _ _) as L; rewrite E in L; simp_spec L;
           lazymatch type of L with
           | False => destruct L
           | True => clear L
           | _ /\ _ => let L2 := fresh "ST" in destruct L as [L L2]
           | _ => idtac
           end)
  end.
(* one case split on the head scrutinee of the left side of H *)
Ltac brk H :=
  cbv beta iota zeta delta [bind] in H;
  lazymatch type of H with
  | ?L = _ =>
      let x := head_scrut L in
      tryif constr_eq x L then fail
      else tryif is_var x then destruct x
      else (let E := fresh "E" in destruct x eqn:E; harvest E)
  end.
(* the proof of a fact  SPEC s (reader args)  for a reader that is a composition of readers *)
Ltac rd_start :=
  lazymatch goal with
  | |- ?P ?s ?x => let X := fresh "X" in let H := fresh "H" in remember x as X eqn:H; symmetry in H
  | |- ?P ?ls ?s ?x => let X := fresh "X" in let H := fresh "H" in remember x as X eqn:H; symmetry in H
  end.
Ltac rd_end H :=
  try harvest H; subst; cbv beta iota delta [sf2 sf3 sfs pc3 word_head ok3 ok4 np nf fst snd same_tbl]; try exact I;
  repeat match goal with |- match ?x with _ => _ end => destruct x end; try exact I; try contradiction;
  repeat match goal with |- context [match ?x with _ => _ end] => is_var x; destruct x; cbv beta iota in * end;
  repeat match goal with Q : _ /\ _ |- _ => destruct Q end;
  repeat match goal with |- _ /\ _ => split end; try sfx; try solve [tbl].

(* ------------------------------------------------------------------------------------------ *)
(* 3. source_cursor.rs                                                                          *)
(* ------------------------------------------------------------------------------------------ *)
Lemma take_dec_sfx : forall s acc, sf2 s (take_dec acc s).
Proof.
  unfold sf2. induction s as [|c r IH]; intros acc; cbn [take_dec]; [apply suffix_refl|].
  destruct (is_digit c); [apply suffix_cons, IH|apply suffix_refl].
Qed.
Lemma take_oct_sfx : forall s acc, sf2 s (take_oct acc s).
Proof.
  unfold sf2. induction s as [|c r IH]; intros acc; cbn [take_oct]; [apply suffix_refl|].
  destruct (is_oct_digit c); [apply suffix_cons, IH|apply suffix_refl].
Qed.
Lemma take_hex_sfx : forall s acc, sf2 s (take_hex acc s).
Proof.
  unfold sf2. induction s as [|c r IH]; intros acc; cbn [take_hex]; [apply suffix_refl|].
  destruct (hex_val c); [apply suffix_cons, IH|apply suffix_refl].
Qed.
Global Instance take_dec_spec acc s : Spec (take_dec acc s) (sf2 s (take_dec acc s)) := take_dec_sfx s acc.
Global Instance take_oct_spec acc s : Spec (take_oct acc s) (sf2 s (take_oct acc s)) := take_oct_sfx s acc.
Global Instance take_hex_spec acc s : Spec (take_hex acc s) (sf2 s (take_hex acc s)) := take_hex_sfx s acc.

Lemma get_hex_sfx def flag s : sf2 s (get_hex def flag s).
Proof. rd_start. unfold get_hex in H. repeat brk H. all: rd_end H. Qed.
Global Instance get_hex_spec def flag s : Spec (get_hex def flag s) (sf2 s (get_hex def flag s)) := get_hex_sfx def flag s.
Lemma get_int_sfx def s : sf2 s (get_int def s).
Proof. rd_start. unfold get_int in H. repeat brk H. all: rd_end H. Qed.
Global Instance get_int_spec def s : Spec (get_int def s) (sf2 s (get_int def s)) := get_int_sfx def s.

Lemma get_token_ch_sfx sp : forall s ln, sf3 s (get_token_ch sp s ln).
Proof.
  unfold sf3. induction s as [|c r IH]; intros ln; cbn [get_token_ch]; [apply suffix_refl|].
  destruct (c =? sp); cbn [fst snd]; [apply suffix_cons, suffix_refl|].
  specialize (IH (if c =? c_NL then ln + 1 else ln)).
  destruct (get_token_ch sp r (if c =? c_NL then ln + 1 else ln)) as [[t r'] ln']. cbn [fst snd] in *.
  apply suffix_cons, IH.
Qed.
(* at least the first character is consumed *)
Lemma get_token_ch_cons sp c r ln : sf3 r (get_token_ch sp (c :: r) ln).
Proof.
  unfold sf3. cbn [get_token_ch]. destruct (c =? sp); cbn [fst snd]; [apply suffix_refl|].
  pose proof (get_token_ch_sfx sp r (if c =? c_NL then ln + 1 else ln)) as I. unfold sf3 in I.
  destruct (get_token_ch sp r _) as [[t r'] ln']. exact I.
Qed.
Global Instance get_token_ch_spec sp s ln : Spec (get_token_ch sp s ln) (sf3 s (get_token_ch sp s ln)) | 5
  := get_token_ch_sfx sp s ln.
Global Instance get_token_ch_cons_spec sp c r ln : Spec (get_token_ch sp (c :: r) ln) (sf3 r (get_token_ch sp (c :: r) ln)) | 1
  := get_token_ch_cons sp c r ln.

Lemma get_token_s_sfx sp : forall s ln, sf3 s (get_token_s sp s ln).
Proof.
  unfold sf3. induction s as [|c r IH]; intros ln; cbn [get_token_s]; [apply suffix_refl|].
  destruct (prefixb sp (c :: r)); cbn [fst snd]; [apply suffix_skipn|].
  specialize (IH (if c =? c_NL then ln + 1 else ln)).
  destruct (get_token_s sp r _) as [[t r'] ln']. cbn [fst snd] in *. apply suffix_cons, IH.
Qed.
Lemma get_token_s_cons a sp c r ln : sf3 r (get_token_s (a :: sp) (c :: r) ln).
Proof.
  unfold sf3. cbn [get_token_s]. destruct (prefixb (a :: sp) (c :: r)); cbn [fst snd length skipn]; [apply suffix_skipn|].
  pose proof (get_token_s_sfx (a :: sp) r (if c =? c_NL then ln + 1 else ln)) as I. unfold sf3 in I.
  destruct (get_token_s (a :: sp) r _) as [[t r'] ln']. exact I.
Qed.
Global Instance get_token_s_spec sp s ln : Spec (get_token_s sp s ln) (sf3 s (get_token_s sp s ln)) | 5
  := get_token_s_sfx sp s ln.
Global Instance get_token_s_cons_spec a sp c r ln :
  Spec (get_token_s (a :: sp) (c :: r) ln) (sf3 r (get_token_s (a :: sp) (c :: r) ln)) | 1 := get_token_s_cons a sp c r ln.

Lemma skip_space_ret_f_sfx : forall fuel s ln, sfs s (skip_space_ret_f fuel s ln).
Proof.
  induction fuel as [|f IH]; intros s ln; [apply suffix_refl|].
  assert (IHS : forall s ln, Spec (skip_space_ret_f f s ln) (sfs s (skip_space_ret_f f s ln))) by exact IH.
  rd_start. cbn [skip_space_ret_f] in H. repeat brk H. all: rd_end H.
Qed.
Lemma skip_space_ret_sfx s ln : sfs s (skip_space_ret s ln).
Proof. apply skip_space_ret_f_sfx. Qed.
Global Instance skip_space_ret_spec s ln : Spec (skip_space_ret s ln) (sfs s (skip_space_ret s ln)) := skip_space_ret_sfx s ln.
Lemma skip_space_f_sfx : forall fuel s ln, sfs s (skip_space_f fuel s ln).
Proof.
  induction fuel as [|f IH]; intros s ln; [apply suffix_refl|].
  assert (IHS : forall s ln, Spec (skip_space_f f s ln) (sfs s (skip_space_f f s ln))) by exact IH.
  rd_start. cbn [skip_space_f] in H. repeat brk H. all: rd_end H.
Qed.
Lemma skip_space_sfx s ln : sfs s (skip_space s ln).
Proof. apply skip_space_f_sfx. Qed.
Global Instance skip_space_spec s ln : Spec (skip_space s ln) (sfs s (skip_space s ln)) := skip_space_sfx s ln.

Lemma get_note_length_f_sfx : forall fuel s ln, sf3 s (get_note_length_f fuel s ln).
Proof.
  induction fuel as [|f IH]; intros s ln; [apply suffix_refl|].
  assert (IHS : forall s ln, Spec (get_note_length_f f s ln) (sf3 s (get_note_length_f f s ln))) by exact IH.
  rd_start. cbn [get_note_length_f] in H. repeat brk H. all: rd_end H.
Qed.
Lemma get_note_length_sfx s ln : sf3 s (get_note_length s ln).
Proof. apply get_note_length_f_sfx. Qed.
Global Instance get_note_length_spec s ln : Spec (get_note_length s ln) (sf3 s (get_note_length s ln)) := get_note_length_sfx s ln.

(* ------------------------------------------------------------------------------------------ *)
(* 4. lexer.rs: words and bracketed texts                                                       *)
(* ------------------------------------------------------------------------------------------ *)
Lemma take_word_sfx : forall s, sf2 s (take_word s).
Proof.
  unfold sf2. induction s as [|c r IH]; cbn [take_word]; [apply suffix_refl|].
  destruct (is_word_char c); [|apply suffix_refl]. destruct (take_word r) as [w r']. apply suffix_cons, IH.
Qed.
Global Instance take_word_spec s : Spec (take_word s) (sf2 s (take_word s)) := take_word_sfx s.
Lemma get_word_sfx s : sf2 s (get_word s).
Proof. rd_start. unfold get_word in H. repeat brk H. all: rd_end H. Qed.
Global Instance get_word_spec s : Spec (get_word s) (sf2 s (get_word s)) | 5 := get_word_sfx s.
(* a word that starts with a word character (or '#') keeps it, and the text after the word is a suffix of the text
   after that character *)
Lemma get_word_cons c r : word_head c r (get_word (c :: r)).
Proof.
  split; [apply get_word_sfx|]. intros Hc.
  assert (T : is_word_char c = true -> (exists w', fst (take_word (c :: r)) = c :: w') /\ suffix (snd (take_word (c :: r))) r).
  { intros W. cbn [take_word]. rewrite W. pose proof (take_word_sfx r) as S. unfold sf2 in S.
    destruct (take_word r) as [w r']. cbn [fst snd] in *. split; [eexists; reflexivity|exact S]. }
  unfold get_word.
  destruct (Z.eq_dec c 35) as [->|N].
  - pose proof (take_word_sfx r) as S. unfold sf2 in S. destruct (take_word r) as [w r']. cbn [fst snd] in *.
    split; [eexists; reflexivity|exact S].
  - destruct Hc as [W|W]; [|contradiction]. specialize (T W).
    destruct c as [|p|p]; try exact T. do 6 (destruct p as [p|p|]; try exact T). contradiction.
Qed.
Global Instance get_word_cons_spec c r : Spec (get_word (c :: r)) (word_head c r (get_word (c :: r))) | 1 := get_word_cons c r.

(* get_token_nest: the text is  body ++ (closer or nothing) ++ rest *)
Lemma token_nest_loop_split opn cls : forall s ln level,
  exists mid, s = fst (fst (token_nest_loop s ln opn cls level)) ++ mid ++ snd (fst (token_nest_loop s ln opn cls level)).
Proof.
  induction s as [|c r IH]; intros ln level; cbn [token_nest_loop]; [exists []; reflexivity|].
  set (ln' := if c =? c_NL then ln + 1 else ln).
  destruct (c =? opn).
  - destruct (IH ln' (S level)) as [mid I]. destruct (token_nest_loop r ln' opn cls (S level)) as [[t r'] ln''].
    cbn [fst snd] in *. exists mid. rewrite I at 1. reflexivity.
  - destruct (c =? cls).
    + destruct (Nat.pred level) as [|k]; [exists [c]; reflexivity|].
      destruct (IH ln' (S k)) as [mid I]. destruct (token_nest_loop r ln' opn cls (S k)) as [[t r'] ln''].
      cbn [fst snd] in *. exists mid. rewrite I at 1. reflexivity.
    + destruct (IH ln' level) as [mid I]. destruct (token_nest_loop r ln' opn cls level) as [[t r'] ln''].
      cbn [fst snd] in *. exists mid. rewrite I at 1. reflexivity.
Qed.
Lemma token_nest_loop_pc opn cls s ln level : pc3 s (token_nest_loop s ln opn cls level).
Proof.
  destruct (token_nest_loop_split opn cls s ln level) as [mid I]. unfold pc3.
  destruct (token_nest_loop s ln opn cls level) as [[t r'] ln'']. cbn [fst snd] in *. split.
  - exists [], (mid ++ r'). exact I.
  - exists (t ++ mid). rewrite <- app_assoc. exact I.
Qed.
Lemma get_token_nest_pc s ln opn cls : pc3 s (get_token_nest s ln opn cls).
Proof.
  unfold get_token_nest. destruct (eq_char s opn); [|apply token_nest_loop_pc].
  pose proof (token_nest_loop_pc opn cls (tl s) ln 1) as [P1 P2]. split.
  - exact (piece_suffix _ _ _ P1 (suffix_tl s)).
  - exact (suffix_trans _ _ _ P2 (suffix_tl s)).
Qed.
Global Instance get_token_nest_spec s ln opn cls : Spec (get_token_nest s ln opn cls) (pc3 s (get_token_nest s ln opn cls))
  := get_token_nest_pc s ln opn cls.
(* the text starts with the opening bracket: body and rest lie after it *)
Lemma get_token_nest_open c r ln opn cls : (c =? opn) = true -> pc3 r (get_token_nest (c :: r) ln opn cls).
Proof. intros E. unfold get_token_nest. cbn [eq_char tl]. rewrite E. apply token_nest_loop_pc. Qed.

(* ------------------------------------------------------------------------------------------ *)
(* 5. lexer.rs: the argument readers (their fuel is enough)                                     *)
(* ------------------------------------------------------------------------------------------ *)
Lemma eq_char_tl_lt s c : eq_char s c = true -> (length (tl s) < length s)%nat.
Proof. destruct s; [discriminate|]. cbn [tl length]. lia. Qed.
Lemma peek0_tl_lt s c : (peek0 s =? c) = true -> c <> 0 -> (length (tl s) < length s)%nat.
Proof. destruct s; cbn [peek0 tl length]; [|lia]. intros E N. apply Z.eqb_eq in E. congruence. Qed.

Lemma eq_char_or_tl_lt s c d : eq_char s c || eq_char s d = true -> (length (tl s) < length s)%nat.
Proof. destruct s; [discriminate|]. cbn [tl length]. lia. Qed.
Ltac len_facts :=
  repeat match goal with
         | SP : suffix ?a ?b |- _ =>
             lazymatch goal with
             | _ : (length a <= length b)%nat |- _ => fail
             | _ => pose proof (suffix_length _ _ SP)
             end
         end;
  repeat match goal with
         | E : (peek0 ?l =? ?k) = true |- _ =>
             lazymatch goal with
             | _ : (length (tl l) < length l)%nat |- _ => fail
             | _ => pose proof (peek0_tl_lt l k E ltac:(discriminate))
             end
         | E : eq_char ?l ?k = true |- _ =>
             lazymatch goal with
             | _ : (length (tl l) < length l)%nat |- _ => fail
             | _ => pose proof (eq_char_tl_lt l k E)
             end
         | E : eq_char ?l ?k || eq_char ?l ?k2 = true |- _ =>
             lazymatch goal with
             | _ : (length (tl l) < length l)%nat |- _ => fail
             | _ => pose proof (eq_char_or_tl_lt l k k2 E)
             end
         end.

Lemma read_arg_value_ok tb : forall fuel s ln, (length s < fuel)%nat -> ok3 s (read_arg_value fuel tb s ln).
Proof.
  induction fuel as [|f IH]; intros s ln L; [lia|].
  rd_start. cbn [read_arg_value] in H. repeat brk H.
  all: try (match goal with
            | E : read_arg_value ?f0 ?tb0 ?s1 ?ln1 = _ |- _ =>
                let Q := fresh "Q" in
                assert (Q : Spec (read_arg_value f0 tb0 s1 ln1) (ok3 s1 (read_arg_value f0 tb0 s1 ln1)))
                  by (apply IH; len_facts; lia);
                try harvest E
            end).
  all: rd_end H.
Qed.
Lemma read_arg_value_arg tb s ln : ok3 s (read_arg_value (arg_fuel s) tb s ln).
Proof. apply read_arg_value_ok. unfold arg_fuel. lia. Qed.
Global Instance read_arg_value_spec tb s ln :
  Spec (read_arg_value (arg_fuel s) tb s ln) (ok3 s (read_arg_value (arg_fuel s) tb s ln)) := read_arg_value_arg tb s ln.

Lemma read_calc_literal_ok tb s ln : ok3 s (read_calc_literal tb s ln).
Proof. rd_start. unfold read_calc_literal in H. repeat brk H. all: rd_end H. Qed.
Global Instance read_calc_literal_spec tb s ln : Spec (read_calc_literal tb s ln) (ok3 s (read_calc_literal tb s ln))
  := read_calc_literal_ok tb s ln.

Lemma read_args_loop_ok tb : forall fuel s ln, (length s < fuel)%nat -> ok3 s (read_args_loop fuel tb s ln).
Proof.
  induction fuel as [|f IH]; intros s ln L; [lia|].
  rd_start. cbn [read_args_loop] in H. repeat brk H.
  all: try (match goal with
            | E : read_args_loop ?f0 ?tb0 ?s1 ?ln1 = _ |- _ =>
                let Q := fresh "Q" in
                assert (Q : Spec (read_args_loop f0 tb0 s1 ln1) (ok3 s1 (read_args_loop f0 tb0 s1 ln1)))
                  by (apply IH; len_facts; lia);
                try harvest E
            end).
  all: rd_end H.
Qed.
Global Instance read_args_loop_spec tb s ln :
  Spec (read_args_loop (S (length s)) tb s ln) (ok3 s (read_args_loop (S (length s)) tb s ln))
  := read_args_loop_ok tb (S (length s)) s ln (Nat.lt_succ_diag_r _).
Lemma read_args_tokens_ok ls s ln : ok4 ls s (read_args_tokens ls s ln).
Proof. rd_start. unfold read_args_tokens in H. repeat brk H. all: rd_end H. Qed.
Global Instance read_args_tokens_spec ls s ln : Spec (read_args_tokens ls s ln) (ok4 ls s (read_args_tokens ls s ln))
  := read_args_tokens_ok ls s ln.

(* ------------------------------------------------------------------------------------------ *)
(* 6. lexer.rs: notes, rests, the one-letter commands                                           *)
(* ------------------------------------------------------------------------------------------ *)
Lemma read_int_after_comma_sfx def sp s ln : sf3 s (read_int_after_comma def sp s ln).
Proof. rd_start. unfold read_int_after_comma in H. repeat brk H. all: rd_end H. Qed.
Global Instance read_int_after_comma_spec def sp s ln :
  Spec (read_int_after_comma def sp s ln) (sf3 s (read_int_after_comma def sp s ln)) := read_int_after_comma_sfx def sp s ln.
Lemma read_note_flags_sfx : forall s flag nat, sf2 s (read_note_flags s flag nat).
Proof.
  unfold sf2. induction s as [|c r IH]; intros flag nat; cbn [read_note_flags]; [apply suffix_refl|].
  repeat (destruct (_ : bool); [apply suffix_cons, IH|]). apply suffix_refl.
Qed.
Global Instance read_note_flags_spec s flag nat : Spec (read_note_flags s flag nat) (sf2 s (read_note_flags s flag nat))
  := read_note_flags_sfx s flag nat.
Lemma read_note_sfx c s ln : sf3 s (read_note c s ln).
Proof. rd_start. unfold read_note in H. repeat brk H. all: rd_end H. Qed.
Global Instance read_note_spec c s ln : Spec (read_note c s ln) (sf3 s (read_note c s ln)) := read_note_sfx c s ln.
Lemma read_note_n_ok tb s ln : ok3 s (read_note_n tb s ln).
Proof. rd_start. unfold read_note_n in H. repeat brk H. all: rd_end H. Qed.
Global Instance read_note_n_spec tb s ln : Spec (read_note_n tb s ln) (ok3 s (read_note_n tb s ln)) := read_note_n_ok tb s ln.
Lemma read_rest_sfx s ln : sf3 s (read_rest s ln).
Proof. rd_start. unfold read_rest in H. repeat brk H. all: rd_end H. Qed.
Global Instance read_rest_spec s ln : Spec (read_rest s ln) (sf3 s (read_rest s ln)) := read_rest_sfx s ln.

Lemma read_int_array_loop_ok tb : forall fuel s ln, (length s < fuel)%nat -> ok3 s (read_int_array_loop fuel tb s ln).
Proof.
  induction fuel as [|f IH]; intros s ln L; [lia|].
  rd_start. cbn [read_int_array_loop] in H. repeat brk H.
  all: try (match goal with
            | E : read_int_array_loop ?f0 ?tb0 ?s1 ?ln1 = _ |- _ =>
                let Q := fresh "Q" in
                assert (Q : Spec (read_int_array_loop f0 tb0 s1 ln1) (ok3 s1 (read_int_array_loop f0 tb0 s1 ln1)))
                  by (apply IH; len_facts; lia);
                try harvest E
            end).
  all: rd_end H.
Qed.
Lemma read_int_array_loop_tl tb s ln : ok3 (tl s) (read_int_array_loop (S (length s)) tb (tl s) ln).
Proof. apply read_int_array_loop_ok. destruct s; cbn [tl length]; lia. Qed.
Global Instance read_int_array_loop_spec tb s ln :
  Spec (read_int_array_loop (S (length s)) tb (tl s) ln) (ok3 (tl s) (read_int_array_loop (S (length s)) tb (tl s) ln))
  := read_int_array_loop_tl tb s ln.
Lemma read_arg_int_array_ok tb s ln : ok3 s (read_arg_int_array tb s ln).
Proof. rd_start. unfold read_arg_int_array in H. repeat brk H. all: rd_end H. Qed.
Global Instance read_arg_int_array_spec tb s ln : Spec (read_arg_int_array tb s ln) (ok3 s (read_arg_int_array tb s ln))
  := read_arg_int_array_ok tb s ln.
Lemma read_plain_value_ok tb s ln : ok3 s (read_plain_value tb s ln).
Proof. rd_start. unfold read_plain_value in H. repeat brk H. all: rd_end H. Qed.
Global Instance read_plain_value_spec tb s ln : Spec (read_plain_value tb s ln) (ok3 s (read_plain_value tb s ln))
  := read_plain_value_ok tb s ln.
Lemma read_dot_res_ok w ot tb s ln : ok3 s (read_dot_res w ot tb s ln).
Proof. rd_start. unfold read_dot_res in H. repeat brk H. all: rd_end H. Qed.
Global Instance read_dot_res_spec w ot tb s ln : Spec (read_dot_res w ot tb s ln) (ok3 s (read_dot_res w ot tb s ln))
  := read_dot_res_ok w ot tb s ln.
Lemma read_length_ok tb s ln : ok3 s (read_length tb s ln).
Proof. rd_start. unfold read_length, guard3 in H. repeat brk H. all: rd_end H. Qed.
Global Instance read_length_spec tb s ln : Spec (read_length tb s ln) (ok3 s (read_length tb s ln)) := read_length_ok tb s ln.
Lemma read_res_or_value_ok w ot mk tb s ln : ok3 s (read_res_or_value w ot mk tb s ln).
Proof. rd_start. unfold read_res_or_value, guard3 in H. repeat brk H. all: rd_end H. Qed.
Global Instance read_res_or_value_spec w ot mk tb s ln :
  Spec (read_res_or_value w ot mk tb s ln) (ok3 s (read_res_or_value w ot mk tb s ln)) := read_res_or_value_ok w ot mk tb s ln.
Lemma read_octave_ok tb s ln : ok3 s (read_octave tb s ln).
Proof. apply read_res_or_value_ok. Qed.
Global Instance read_octave_spec tb s ln : Spec (read_octave tb s ln) (ok3 s (read_octave tb s ln)) := read_octave_ok tb s ln.
Lemma read_qlen_ok tb s ln : ok3 s (read_qlen tb s ln).
Proof. rd_start. unfold read_qlen in H. repeat brk H. all: rd_end H. Qed.
Global Instance read_qlen_spec tb s ln : Spec (read_qlen tb s ln) (ok3 s (read_qlen tb s ln)) := read_qlen_ok tb s ln.
Lemma read_velocity_ok tb s ln : ok3 s (read_velocity tb s ln).
Proof. rd_start. unfold read_velocity in H. repeat brk H. all: rd_end H. Qed.
Global Instance read_velocity_spec tb s ln : Spec (read_velocity tb s ln) (ok3 s (read_velocity tb s ln)) := read_velocity_ok tb s ln.
Lemma read_timing_ok tb s ln : ok3 s (read_timing tb s ln).
Proof. rd_start. unfold read_timing in H. repeat brk H. all: rd_end H. Qed.
Global Instance read_timing_spec tb s ln : Spec (read_timing tb s ln) (ok3 s (read_timing tb s ln)) := read_timing_ok tb s ln.
Lemma read_loop_ok tb s ln : ok3 s (read_loop tb s ln).
Proof. rd_start. unfold read_loop in H. repeat brk H. all: rd_end H. Qed.
Global Instance read_loop_spec tb s ln : Spec (read_loop tb s ln) (ok3 s (read_loop tb s ln)) := read_loop_ok tb s ln.
Lemma read_harmony_end_sfx s ln : sf3 s (read_harmony_end s ln).
Proof. rd_start. unfold read_harmony_end in H. repeat brk H. all: rd_end H. Qed.
Global Instance read_harmony_end_spec s ln : Spec (read_harmony_end s ln) (sf3 s (read_harmony_end s ln)) := read_harmony_end_sfx s ln.

Lemma key_flag_loop_sfx : forall fuel s ln flag kf idx, sf3 s (key_flag_loop fuel s ln flag kf idx).
Proof.
  induction fuel as [|f IH]; intros s ln flag kf idx; [apply suffix_refl|].
  assert (IHS : forall s ln flag kf idx, Spec (key_flag_loop f s ln flag kf idx) (sf3 s (key_flag_loop f s ln flag kf idx))) by exact IH.
  rd_start. cbn [key_flag_loop] in H. repeat brk H. all: rd_end H.
Qed.
Global Instance key_flag_loop_spec fuel s ln flag kf idx :
  Spec (key_flag_loop fuel s ln flag kf idx) (sf3 s (key_flag_loop fuel s ln flag kf idx)) := key_flag_loop_sfx fuel s ln flag kf idx.
Lemma read_key_flag_sfx s ln : sf3 s (read_key_flag s ln).
Proof. rd_start. unfold read_key_flag in H. repeat brk H. all: rd_end H. Qed.
Global Instance read_key_flag_spec s ln : Spec (read_key_flag s ln) (sf3 s (read_key_flag s ln)) := read_key_flag_sfx s ln.

(* ------------------------------------------------------------------------------------------ *)
(* 7. lexer.rs: macros, controllers, reservations, PLAY, STR                                    *)
(* ------------------------------------------------------------------------------------------ *)
Lemma read_macro_arg_ok tb s ln : ok3 s (read_macro_arg tb s ln).
Proof. rd_start. unfold read_macro_arg in H. repeat brk H. all: rd_end H. Qed.
Global Instance read_macro_arg_spec tb s ln : Spec (read_macro_arg tb s ln) (ok3 s (read_macro_arg tb s ln)) := read_macro_arg_ok tb s ln.
Lemma read_macro_args_loop_ok tb : forall fuel s ln, (length s < fuel)%nat -> ok3 s (read_macro_args_loop fuel tb s ln).
Proof.
  induction fuel as [|f IH]; intros s ln L; [lia|].
  rd_start. cbn [read_macro_args_loop] in H. repeat brk H.
  all: try (match goal with
            | E : read_macro_args_loop ?f0 ?tb0 ?s1 ?ln1 = _ |- _ =>
                let Q := fresh "Q" in
                assert (Q : Spec (read_macro_args_loop f0 tb0 s1 ln1) (ok3 s1 (read_macro_args_loop f0 tb0 s1 ln1)))
                  by (apply IH; len_facts; lia);
                try harvest E
            end).
  all: rd_end H.
Qed.
Global Instance read_macro_args_loop_spec tb s ln :
  Spec (read_macro_args_loop (S (length s)) tb s ln) (ok3 s (read_macro_args_loop (S (length s)) tb s ln))
  := read_macro_args_loop_ok tb (S (length s)) s ln (Nat.lt_succ_diag_r _).
Lemma read_macro_args_ok ls s ln : ok4 ls s (read_macro_args ls s ln).
Proof. rd_start. unfold read_macro_args in H. repeat brk H. all: rd_end H. Qed.
Global Instance read_macro_args_spec ls s ln : Spec (read_macro_args ls s ln) (ok4 ls s (read_macro_args ls s ln))
  := read_macro_args_ok ls s ln.
Lemma check_variables_ok ls cmd s ln : ok4 ls s (check_variables ls cmd s ln).
Proof. rd_start. unfold check_variables in H. repeat brk H. all: rd_end H. Qed.
Global Instance check_variables_spec ls cmd s ln : Spec (check_variables ls cmd s ln) (ok4 ls s (check_variables ls cmd s ln))
  := check_variables_ok ls cmd s ln.

Lemma read_command_cc_ok ls no s ln : ok4 ls s (read_command_cc ls no s ln).
Proof. rd_start. unfold read_command_cc in H. repeat brk H. all: rd_end H. Qed.
Global Instance read_command_cc_spec ls no s ln : Spec (read_command_cc ls no s ln) (ok4 ls s (read_command_cc ls no s ln))
  := read_command_cc_ok ls no s ln.
Lemma read_cc_raw_ok ls is_c s ln : ok4 ls s (read_cc_raw ls is_c s ln).
Proof. rd_start. unfold read_cc_raw in H. repeat brk H. all: rd_end H. Qed.
Global Instance read_cc_raw_spec ls is_c s ln : Spec (read_cc_raw ls is_c s ln) (ok4 ls s (read_cc_raw ls is_c s ln))
  := read_cc_raw_ok ls is_c s ln.
Lemma read_cc_ok ls is_c s ln : ok4 ls s (read_cc ls is_c s ln).
Proof. rd_start. unfold read_cc, guard_out in H. repeat brk H. all: rd_end H. Qed.
Global Instance read_cc_spec ls is_c s ln : Spec (read_cc ls is_c s ln) (ok4 ls s (read_cc ls is_c s ln)) := read_cc_ok ls is_c s ln.
Lemma read_pitch_bend_ok big tb s ln : ok3 s (read_pitch_bend big tb s ln).
Proof. rd_start. unfold read_pitch_bend, guard_tok in H. repeat brk H. all: rd_end H. Qed.
Global Instance read_pitch_bend_spec big tb s ln : Spec (read_pitch_bend big tb s ln) (ok3 s (read_pitch_bend big tb s ln))
  := read_pitch_bend_ok big tb s ln.
Lemma read_fadein_ok dir tb s ln : ok3 s (read_fadein dir tb s ln).
Proof. rd_start. unfold read_fadein in H. repeat brk H. all: rd_end H. Qed.
Global Instance read_fadein_spec dir tb s ln : Spec (read_fadein dir tb s ln) (ok3 s (read_fadein dir tb s ln)) := read_fadein_ok dir tb s ln.
Lemma read_decres_ok dir tb s ln : ok3 s (read_decres dir tb s ln).
Proof. rd_start. unfold read_decres in H. repeat brk H. all: rd_end H. Qed.
Global Instance read_decres_spec dir tb s ln : Spec (read_decres dir tb s ln) (ok3 s (read_decres dir tb s ln)) := read_decres_ok dir tb s ln.
Lemma read_rpn_command_ok ls nrpn msb lsb s ln : ok4 ls s (read_rpn_command ls nrpn msb lsb s ln).
Proof. rd_start. unfold read_rpn_command in H. repeat brk H. all: rd_end H. Qed.
Global Instance read_rpn_command_spec ls nrpn msb lsb s ln :
  Spec (read_rpn_command ls nrpn msb lsb s ln) (ok4 ls s (read_rpn_command ls nrpn msb lsb s ln)) := read_rpn_command_ok ls nrpn msb lsb s ln.
Lemma read_play_ok ls s ln : ok4 ls s (read_play ls s ln).
Proof. rd_start. unfold read_play in H. repeat brk H. all: rd_end H. Qed.
Global Instance read_play_spec ls s ln : Spec (read_play ls s ln) (ok4 ls s (read_play ls s ln)) := read_play_ok ls s ln.
Lemma read_def_str_ok ls s ln : ok4 ls s (read_def_str ls s ln).
Proof. rd_start. unfold read_def_str in H. repeat brk H. all: rd_end H. Qed.
Global Instance read_def_str_spec ls s ln : Spec (read_def_str ls s ln) (ok4 ls s (read_def_str ls s ln)) := read_def_str_ok ls s ln.
Lemma skip_char_sfx c s : sf2 s (skip_char c s).
Proof. rd_start. unfold skip_char in H. repeat brk H. all: rd_end H. Qed.
Global Instance skip_char_spec c s : Spec (skip_char c s) (sf2 s (skip_char c s)) := skip_char_sfx c s.
Lemma read_sysex_value_ok hex s ln : ok3 s (read_sysex_value hex s ln).
Proof. rd_start. unfold read_sysex_value in H. repeat brk H. all: rd_end H. Qed.
Global Instance read_sysex_value_spec hex s ln : Spec (read_sysex_value hex s ln) (ok3 s (read_sysex_value hex s ln)) := read_sysex_value_ok hex s ln.
Lemma read_sysex_loop_ok hex : forall fuel s ln flag, (length s < fuel)%nat -> ok3 s (read_sysex_loop fuel hex s ln flag).
Proof.
  induction fuel as [|f IH]; intros s ln flag L; [lia|].
  rd_start. cbn [read_sysex_loop] in H. repeat brk H.
  all: try (match goal with
            | E : read_sysex_loop ?f0 ?h0 ?s1 ?ln1 ?fl1 = _ |- _ =>
                let Q := fresh "Q" in
                assert (Q : Spec (read_sysex_loop f0 h0 s1 ln1 fl1) (ok3 s1 (read_sysex_loop f0 h0 s1 ln1 fl1)))
                  by (apply IH; len_facts; lia);
                try harvest E
            end).
  all: rd_end H.
Qed.
Global Instance read_sysex_loop_spec hex s ln flag :
  Spec (read_sysex_loop (S (length s)) hex s ln flag) (ok3 s (read_sysex_loop (S (length s)) hex s ln flag))
  := read_sysex_loop_ok hex (S (length s)) s ln flag (Nat.lt_succ_diag_r _).
Lemma read_sysex_ok s ln : ok3 s (read_sysex s ln).
Proof. rd_start. unfold read_sysex in H. repeat brk H. all: rd_end H. Qed.
Global Instance read_sysex_spec s ln : Spec (read_sysex s ln) (ok3 s (read_sysex s ln)) := read_sysex_ok s ln.
Lemma read_int_args_ok ls s ln : ok4 ls s (read_int_args ls s ln).
Proof. rd_start. unfold read_int_args in H. repeat brk H. all: rd_end H. Qed.
Global Instance read_int_args_spec ls s ln : Spec (read_int_args ls s ln) (ok4 ls s (read_int_args ls s ln)) := read_int_args_ok ls s ln.
Lemma read_int_command_ok ls ty t1 s ln : ok4 ls s (read_int_command ls ty t1 s ln).
Proof. rd_start. unfold read_int_command in H. repeat brk H. all: rd_end H. Qed.
Global Instance read_int_command_spec ls ty t1 s ln : Spec (read_int_command ls ty t1 s ln) (ok4 ls s (read_int_command ls ty t1 s ln))
  := read_int_command_ok ls ty t1 s ln.
Lemma read_ext_command_raw_ok ls ty argt t1 t2 s ln : ok4 ls s (read_ext_command_raw ls ty argt t1 t2 s ln).
Proof. rd_start. unfold read_ext_command_raw in H. repeat brk H. all: rd_end H. Qed.
Global Instance read_ext_command_raw_spec ls ty argt t1 t2 s ln :
  Spec (read_ext_command_raw ls ty argt t1 t2 s ln) (ok4 ls s (read_ext_command_raw ls ty argt t1 t2 s ln))
  := read_ext_command_raw_ok ls ty argt t1 t2 s ln.
Lemma read_ext_command_ok ls ty argt t1 t2 s ln : ok4 ls s (read_ext_command ls ty argt t1 t2 s ln).
Proof. rd_start. unfold read_ext_command, guard_out in H. repeat brk H. all: rd_end H. Qed.
Global Instance read_ext_command_spec ls ty argt t1 t2 s ln :
  Spec (read_ext_command ls ty argt t1 t2 s ln) (ok4 ls s (read_ext_command ls ty argt t1 t2 s ln))
  := read_ext_command_ok ls ty argt t1 t2 s ln.

(* ------------------------------------------------------------------------------------------ *)
(* 8. the measure of nesting, the premises on the rhythm macros                                 *)
(* ------------------------------------------------------------------------------------------ *)
(* the characters that can start a recursive lex: '{' and the first letters of Sub / Div / Rhythm (all spellings) *)
Definition trig (x : Z) : bool :=
  (zen2han x =? 123) || (zen2han x =? 83) || (zen2han x =? 68) || (zen2han x =? 82).
Definition nest_measure (s : list Z) : nat := length (filter trig s).
Notation M := nest_measure.
Definition nodollar (x : Z) : bool := negb (zen2han x =? 36).
Definition noR (x : Z) : bool := negb (zen2han x =? 82).
Definition inert (x : Z) : bool := negb (trig x) && nodollar x.
Definition tbl_inert (tbl : list (Z * list Z)) : bool := forallb (fun e => forallb inert (snd e)) tbl.

Lemma M_app a b : M (a ++ b) = (M a + M b)%nat.
Proof. unfold nest_measure. rewrite filter_app, app_length. reflexivity. Qed.
Lemma M_cons c r : M (c :: r) = ((if trig c then 1 else 0) + M r)%nat.
Proof. unfold nest_measure. cbn [filter]. destruct (trig c); reflexivity. Qed.
Lemma M_le_length s : (M s <= length s)%nat.
Proof. unfold nest_measure. induction s as [|c r IH]; cbn [filter length]; [lia|]. destruct (trig c); cbn [length]; lia. Qed.
Lemma M_piece b s : piece b s -> (M b <= M s)%nat.
Proof. intros [p [q ->]]. rewrite !M_app. lia. Qed.
Lemma M_inert s : forallb inert s = true -> M s = 0%nat.
Proof.
  induction s as [|c r IH]; [reflexivity|]. cbn [forallb]. intros H. apply andb_true_iff in H. destruct H as [H1 H2].
  rewrite M_cons, (IH H2). unfold inert in H1. destruct (trig c); [discriminate|reflexivity].
Qed.
Lemma forallb_piece (P : Z -> bool) b s : piece b s -> forallb P s = true -> forallb P b = true.
Proof. intros [p [q ->]] H. rewrite !forallb_app in H. apply andb_true_iff in H. destruct H as [_ H]. apply andb_true_iff in H. tauto. Qed.
Lemma forallb_suffix (P : Z -> bool) b s : suffix b s -> forallb P s = true -> forallb P b = true.
Proof. intros H. apply forallb_piece, suffix_piece, H. Qed.
(* a block cut out of the text after a trigger character is smaller than the whole *)
Lemma M_block b c0 r F : piece b r -> trig c0 = true -> (M (c0 :: r) <= F)%nat -> (M b < F)%nat.
Proof. intros P T L. rewrite M_cons, T in L. pose proof (M_piece _ _ P). lia. Qed.

(* the premise: either the rhythm table holds inert texts only and the source defines no rhythm macro (no '$'), or the
   source holds no 'R' (Rhythm is never called) *)
Definition Inv (ls : lexstate) (s : list Z) : Prop :=
  (tbl_inert (lx_rhythm ls) = true /\ forallb nodollar s = true) \/ forallb noR s = true.
Lemma Inv_piece ls b s : Inv ls s -> piece b s -> Inv ls b.
Proof. intros [[A1 A2]|B] P; [left; split; [exact A1|]|right]; eapply forallb_piece; eassumption. Qed.

(* ---- rhythm_expand under an inert table ---- *)
Lemma rhythm_get_inert tbl c : tbl_inert tbl = true -> forallb inert (rhythm_get c tbl) = true.
Proof.
  induction tbl as [|[k v] t IH]; [reflexivity|]. cbn [tbl_inert forallb snd rhythm_get]. intros H.
  apply andb_true_iff in H. destruct H as [H1 H2]. destruct (k =? c); [exact H1|apply IH, H2].
Qed.
Lemma tp_prefixb_true p : forall s, prefixb p s = true -> s = p ++ skipn (length p) s.
Proof.
  induction p as [|x p IH]; intros s H; [reflexivity|]. destruct s as [|y s]; [discriminate|]. cbn [prefixb] in H.
  apply andb_true_iff in H. destruct H as [H1 H2]. apply Z.eqb_eq in H1. subst y. cbn [length skipn app]. f_equal. apply IH, H2.
Qed.
Lemma inert_nodollar s : forallb inert s = true -> forallb nodollar s = true.
Proof.
  induction s as [|c r IH]; [reflexivity|]. cbn [forallb]. intros H. apply andb_true_iff in H. destruct H as [H1 H2].
  rewrite (IH H2), andb_true_r. unfold inert in H1. apply andb_true_iff in H1. tauto.
Qed.
Lemma M_sub3 s : prefixb (zs "Sub") s || prefixb (zs "SUB") s = true -> M s = S (M (skipn 3 s)).
Proof.
  intros H. apply orb_true_iff in H. destruct H as [H|H]; apply tp_prefixb_true in H; rewrite H at 1; reflexivity.
Qed.
Lemma get_token_nest_open_M c r ln opn cls b r' l :
  (c =? opn) = true -> get_token_nest (c :: r) ln opn cls = (b, r', l) -> (M b + M r' <= M r)%nat.
Proof.
  intros E. unfold get_token_nest. cbn [eq_char tl]. rewrite E. intros H.
  destruct (token_nest_loop_split opn cls r ln 1) as [mid I]. rewrite H in I. cbn [fst snd] in I.
  assert (Q : M r = M (b ++ mid ++ r')) by (rewrite <- I; reflexivity). rewrite !M_app in Q. lia.
Qed.
Lemma get_token_nest_open_forallb (P : Z -> bool) c r ln opn cls b r' l :
  (c =? opn) = true -> get_token_nest (c :: r) ln opn cls = (b, r', l) -> forallb P r = true ->
  forallb P b = true /\ forallb P r' = true.
Proof.
  intros E H A. pose proof (get_token_nest_open c r ln opn cls E) as [P1 P2]. rewrite H in P1, P2. cbn [fst snd] in *.
  split; [exact (forallb_piece _ _ _ P1 A)|exact (forallb_suffix _ _ _ P2 A)].
Qed.
Lemma rhythm_expand_M tbl : tbl_inert tbl = true -> forall fuel s, (M (rhythm_expand fuel tbl s) <= M s)%nat.
Proof.
  intros T. induction fuel as [|f IH]; intros s; [cbn [rhythm_expand nest_measure filter length]; lia|]. cbn [rhythm_expand]. destruct s as [|c r]; [lia|].
  destruct (prefixb (zs "Sub") (c :: r) || prefixb (zs "SUB") (c :: r)) eqn:E1.
  - rewrite (M_sub3 _ E1), M_app. change (M (zs "SUB")) with 1%nat. specialize (IH (skipn 3 (c :: r))). lia.
  - destruct (c =? 40) eqn:E2.
    + destruct (get_token_nest (c :: r) 0 40 41) as [[src r'] l0] eqn:G.
      pose proof (get_token_nest_open_M _ _ _ _ _ _ _ _ E2 G). rewrite M_app, M_cons. specialize (IH r'). lia.
    + destruct ((64 <=? c) && (c <=? 127)).
      * rewrite M_app, M_cons. specialize (IH r). pose proof (rhythm_get_inert tbl c T) as G.
        destruct (rhythm_get c tbl) as [|m0 m] eqn:Eg.
        -- rewrite M_cons. cbn [nest_measure filter length]. lia.
        -- rewrite (M_inert _ G). lia.
      * rewrite !M_cons. specialize (IH r). lia.
Qed.
Lemma rhythm_expand_nodollar tbl : tbl_inert tbl = true -> forall fuel s,
  forallb nodollar s = true -> forallb nodollar (rhythm_expand fuel tbl s) = true.
Proof.
  intros T. induction fuel as [|f IH]; intros s A; [reflexivity|]. cbn [rhythm_expand]. destruct s as [|c r]; [reflexivity|].
  destruct (prefixb (zs "Sub") (c :: r) || prefixb (zs "SUB") (c :: r)) eqn:E1.
  - rewrite forallb_app. apply andb_true_iff. split; [reflexivity|]. apply IH. exact (forallb_suffix _ _ _ (suffix_skipn 3 _) A).
  - cbn [forallb] in A. apply andb_true_iff in A. destruct A as [A1 A2]. destruct (c =? 40) eqn:E2.
    + destruct (get_token_nest (c :: r) 0 40 41) as [[src r'] l0] eqn:G.
      destruct (get_token_nest_open_forallb nodollar _ _ _ _ _ _ _ _ E2 G A2) as [B1 B2].
      rewrite forallb_app, B1. apply IH, B2.
    + destruct ((64 <=? c) && (c <=? 127)).
      * rewrite forallb_app. apply andb_true_iff. split; [|apply IH, A2].
        pose proof (rhythm_get_inert tbl c T) as G. destruct (rhythm_get c tbl) as [|m0 m]; [cbn [forallb]; rewrite A1; reflexivity|].
        apply inert_nodollar, G.
      * cbn [forallb]. rewrite A1. apply IH, A2.
Qed.

(* ---- the commands that lex a block: every spelling starts with 'S', 'D' or 'R' ---- *)
Definition nest_row_ok (row : list Z * (list Z * (Z * (Z * Z)))) : bool :=
  let '(name, (ty, _)) := row in
  if list_eqb ty (zs "Rhythm") then eq_char name 82
  else if list_eqb ty (zs "Sub") || list_eqb ty (zs "Div") then eq_char name 83 || eq_char name 68
  else true.
Lemma nest_rows_ok : forallb nest_row_ok sysfunc_rows = true.
Proof. vm_compute. reflexivity. Qed.
Lemma tp_list_eqb_eq : forall a b, list_eqb a b = true -> a = b.
Proof.
  induction a as [|x a IH]; intros [|y b] H; try discriminate; [reflexivity|]. cbn [list_eqb] in H.
  apply andb_true_iff in H. destruct H as [H1 H2]. apply Z.eqb_eq in H1. subst y. f_equal. apply IH, H2.
Qed.
Lemma sysfunc_lookup_in name : forall rows acc v,
  sysfunc_lookup name rows acc = Some v -> acc = Some v \/ In (name, v) rows.
Proof.
  induction rows as [|[n w] rows IH]; intros acc v H; cbn [sysfunc_lookup] in H; [left; exact H|].
  apply IH in H. destruct H as [H|H]; [|right; right; exact H].
  destruct (list_eqb n name) eqn:E; [|left; exact H]. apply tp_list_eqb_eq in E. subst n. injection H as ->. right. left. reflexivity.
Qed.
Lemma lookup_row_ok name ty rest :
  sysfunc_lookup name sysfunc_rows None = Some (ty, rest) -> nest_row_ok (name, (ty, rest)) = true.
Proof.
  intros H. apply sysfunc_lookup_in in H. destruct H as [H|H]; [discriminate|].
  pose proof nest_rows_ok as A. rewrite forallb_forall in A. exact (A _ H).
Qed.
Lemma lookup_rhythm c w ty rest :
  sysfunc_lookup (c :: w) sysfunc_rows None = Some (ty, rest) -> list_eqb ty (zs "Rhythm") = true -> (c =? 82) = true.
Proof. intros H E. apply lookup_row_ok in H. unfold nest_row_ok in H. rewrite E in H. exact H. Qed.
Lemma lookup_trig c w ty rest :
  sysfunc_lookup (c :: w) sysfunc_rows None = Some (ty, rest) ->
  list_eqb ty (zs "Rhythm") || list_eqb ty (zs "Sub") || list_eqb ty (zs "Div") = true ->
  (c =? 123) || (c =? 83) || (c =? 68) || (c =? 82) = true.
Proof.
  intros H E. apply lookup_row_ok in H. unfold nest_row_ok in H. cbn [eq_char] in H.
  destruct (list_eqb ty (zs "Rhythm")); [rewrite H; apply orb_true_r|]. cbn [orb] in E. rewrite E in H.
  destruct (c =? 83), (c =? 68); try discriminate H; rewrite ?orb_true_r; reflexivity.
Qed.
Lemma system_head c w : list_eqb (c :: w) (zs "System") || list_eqb (c :: w) (zs "SYSTEM") = true -> (c =? 83) = true.
Proof.
  change (zs "System") with (83 :: zs "ystem"). change (zs "SYSTEM") with (83 :: zs "YSTEM"). cbn [list_eqb].
  destruct (c =? 83); [reflexivity|discriminate].
Qed.
Lemma upperish_word_char c : is_upper c || (c =? 95) || (c =? 113) || (c =? 118) = true -> is_word_char c = true.
Proof.
  unfold is_word_char, is_upper, is_lower, is_digit. intros H.
  destruct (Z.leb_spec 65 c), (Z.leb_spec c 90), (Z.leb_spec 97 c), (Z.leb_spec c 122), (Z.eqb_spec c 95),
    (Z.eqb_spec c 113), (Z.eqb_spec c 118); cbn [orb andb] in *; try reflexivity; try discriminate; lia.
Qed.

(* ------------------------------------------------------------------------------------------ *)
(* 9. the loop                                                                                  *)
(* ------------------------------------------------------------------------------------------ *)
(* what is shown of an outcome of the lexer: not OutOfFuel, not Panic; and under the first premise the rhythm table is
   left as it was (this is what keeps the premise true for the text after a block) *)
Definition okL (ls : lexstate) (s : list Z) (X : res lex_out) : Prop :=
  match X with
  | Ok x => tbl_inert (lx_rhythm ls) = true -> forallb nodollar s = true -> lx_rhythm (snd x) = lx_rhythm ls
  | Unsupported _ => True
  | _ => False
  end.

Section Loop.
Variable sublex : lexstate -> list Z -> Z -> res lex_out.
Variable F : nat.
Definition sub_spec (ls : lexstate) (b : list Z) (X : res lex_out) : Prop := (M b < F)%nat -> Inv ls b -> okL ls b X.
Hypothesis sub_ok : forall ls b ln, sub_spec ls b (sublex ls b ln).

Lemma leaf n c0 r ls ls1 s1 ln1 h1 acc1 X :
  (forall ls s ln h acc X, LOOPG sublex n ls s ln h acc = X -> (length s < n)%nat -> (M s <= F)%nat -> Inv ls s -> okL ls s X) ->
  LOOPG sublex n ls1 s1 ln1 h1 acc1 = X ->
  suffix s1 r ->
  (tbl_inert (lx_rhythm ls) = true -> forallb nodollar (c0 :: r) = true -> lx_rhythm ls1 = lx_rhythm ls) ->
  (length (c0 :: r) < S n)%nat -> (M (c0 :: r) <= F)%nat -> Inv ls (c0 :: r) -> okL ls (c0 :: r) X.
Proof.
  intros IH H S C L ML I.
  assert (S' : suffix s1 (c0 :: r)) by apply suffix_cons, S.
  assert (I1 : Inv ls1 s1).
  { destruct I as [[A1 A2]|B]; [left; split; [rewrite (C A1 A2); exact A1|]|right]; eapply forallb_suffix; eassumption. }
  assert (Q : okL ls1 s1 X).
  { apply (IH _ _ _ _ _ _ H); [apply suffix_length in S; cbn [length] in L; lia| |exact I1].
    pose proof (M_piece _ _ (suffix_piece _ _ S')). lia. }
  destruct X as [x| | |]; cbn [okL] in *; try exact Q. intros A1 A2. rewrite <- (C A1 A2). apply Q; [rewrite (C A1 A2); exact A1|].
  eapply forallb_suffix; eassumption.
Qed.

(* the Rhythm arm: under the first premise the expansion is no deeper than the block; under the second the arm is not taken *)
Lemma rhythm_sub ls c0 r blk Y :
  sub_spec ls (rhythm_expand (S (length blk)) (lx_rhythm ls) blk) Y ->
  piece blk r -> (zen2han c0 =? 82) = true -> (M (c0 :: r) <= F)%nat -> Inv ls (c0 :: r) -> okL ls (c0 :: r) Y.
Proof.
  intros Q PR R82 ML I.
  assert (T : trig c0 = true) by (unfold trig; rewrite R82; rewrite ?orb_true_r; reflexivity).
  destruct I as [[A1 A2]|B].
  - assert (N : forallb nodollar (rhythm_expand (S (length blk)) (lx_rhythm ls) blk) = true).
    { apply rhythm_expand_nodollar; [exact A1|]. exact (forallb_piece _ _ _ (piece_cons _ c0 _ PR) A2). }
    unfold sub_spec in Q. assert (Q' : okL ls (rhythm_expand (S (length blk)) (lx_rhythm ls) blk) Y).
    { apply Q; [|left; split; [exact A1|exact N]].
      pose proof (rhythm_expand_M _ A1 (S (length blk)) blk). pose proof (M_block _ _ _ _ PR T ML). lia. }
    destruct Y as [x| | |]; cbn [okL] in *; try exact Q'. intros _ _. exact (Q' A1 N).
  - exfalso. cbn [forallb] in B. unfold noR at 1 in B. rewrite R82 in B. discriminate B.
Qed.

(* -- the leaves of the case analysis -- *)
(* a word read at a word character / at '#': the text after it is a suffix of the text after that character *)
Ltac prep_word :=
  repeat match goal with
         | Q : (is_word_char ?c = true \/ ?c = 35) -> _ |- _ =>
             first [ let W := fresh "W" in
                     assert (W : is_word_char c = true \/ c = 35)
                       by (first [ left; apply upperish_word_char; assumption | right; apply Z.eqb_eq; assumption ]);
                     specialize (Q W); clear W;
                     let w' := fresh "w'" in let HW := fresh "HW" in destruct Q as [[w' HW] Q];
                     match type of HW with ?v = _ => subst v end
                   | clear Q ]
         end.
(* a block that starts at the brace just taken *)
Ltac prep_brace :=
  try match goal with
      | E1 : (zen2han ?c0 =? 123) = true, E2 : get_token_nest (zen2han ?c0 :: ?r) ?ln 123 125 = _ |- _ =>
          let P := fresh "PB" in let P2 := fresh "PS" in
          pose proof (get_token_nest_open _ r ln 123 125 E1) as P; rewrite E2 in P; cbv beta iota delta [pc3 fst snd] in P;
          destruct P as [P P2]
      end.
Ltac piece_r :=
  match goal with
  | PB : piece ?b ?x |- piece ?b _ => apply (piece_suffix _ _ _ PB); sfx
  end.
Ltac trig_solve :=
  unfold trig;
  first [ match goal with E : (zen2han ?c0 =? 123) = true |- _ => rewrite E; reflexivity end
        | match goal with
          | E : list_eqb (zen2han ?c0 :: _) (zs "System") || list_eqb _ (zs "SYSTEM") = true |- _ =>
              rewrite (system_head _ _ E); rewrite ?orb_true_r; reflexivity
          end
        | match goal with
          | E : sysfunc_lookup _ sysfunc_rows None = Some (?ty, _), T : list_eqb ?ty _ = true |- _ =>
              cbn [app] in E; apply (lookup_trig _ _ _ _ E); rewrite T; rewrite ?orb_true_r; reflexivity
          end ].
Ltac dollar_contra A2 :=
  match goal with
  | E : (zen2han ?c0 =? 36) = true |- _ =>
      exfalso; cbn [forallb] in A2; unfold nodollar at 1 in A2; rewrite E in A2; discriminate A2
  end.

Lemma LOOPG_ok : forall n ls s ln h acc X,
  LOOPG sublex n ls s ln h acc = X -> (length s < n)%nat -> (M s <= F)%nat -> Inv ls s -> okL ls s X.
Proof.
  assert (SUBS : forall ls b ln, Spec (sublex ls b ln) (sub_spec ls b (sublex ls b ln))) by exact sub_ok.
  induction n as [|n IH]; intros ls s ln h acc X H L ML I; [lia|].
  destruct s as [|c0 r]; [cbn [LOOPG] in H; subst X; intros _ _; reflexivity|].
  cbn [LOOPG] in H.
  repeat brk H.
  all: prep_word; prep_brace.
  all: try (match goal with
            | Q : sub_spec ?l ?b _ |- _ =>
                lazymatch b with
                | rhythm_expand _ _ _ => idtac
                | _ => unfold sub_spec in Q;
                       let PR := fresh "PR" in
                       assert (PR : piece b r) by piece_r;
                       specialize (Q (M_block _ c0 _ _ PR ltac:(trig_solve) ML) (Inv_piece _ _ _ I (piece_cons _ c0 _ PR)));
                       cbv beta iota delta [okL snd] in Q
                end
            end).
  all: try (match goal with
            | Q : sub_spec _ (rhythm_expand _ _ ?blk) _, T : list_eqb ?ty (zs "Rhythm") = true,
              E : sysfunc_lookup _ _ _ = Some (?ty, _) |- _ =>
                cbn [app] in E;
                first [ exfalso;
                        match type of E with
                        | sysfunc_lookup (zs "System" ++ ?x) _ _ = _ => change (zs "System" ++ x) with (83 :: (zs "ystem" ++ x)) in E
                        end;
                        discriminate (lookup_rhythm _ _ _ _ E T)
                      | let PR := fresh "PR" in
                        assert (PR : piece blk r) by piece_r;
                        apply (fun q => rhythm_sub _ c0 r _ _ q PR (lookup_rhythm _ _ _ _ E T) ML I) in Q;
                        cbv beta iota delta [okL snd] in Q ]
            end).
  all: try (match goal with Q : False |- _ => destruct Q end).
  all: try (lazymatch type of H with
            | Ok _ = _ => subst X; intros _ _; reflexivity
            | Unsupported _ = _ => subst X; exact Logic.I
            | LOOPG _ _ _ _ _ _ _ = _ =>
                eapply leaf; [exact IH|exact H|sfx| |exact L|exact ML|exact I];
                let A1 := fresh "A1" in let A2 := fresh "A2" in
                intros A1 A2;
                first [ dollar_contra A2
                      | solve [tbl]
                      | match goal with Q : _ -> _ -> lx_rhythm ?l1 = _ |- lx_rhythm ?l1 = _ => exact (Q A1 A2) end
                      | match goal with
                        | Q : _ -> _ -> lx_rhythm ?l1 = _ |- lx_rhythm ?l1 = _ =>
                            apply Q; [exact A1|]; eapply forallb_piece; [apply piece_cons; eassumption|exact A2]
                        end ]
            end).
Qed.
End Loop.

(* ------------------------------------------------------------------------------------------ *)
(* 10. lex_f and lex                                                                            *)
(* ------------------------------------------------------------------------------------------ *)
(* the outer fuel only has to exceed the number of trigger characters of the source *)
Lemma lex_f_ok : forall fuel ls src ln, (M src < fuel)%nat -> Inv ls src -> okL ls src (lex_f fuel ls src ln).
Proof.
  induction fuel as [|f IH]; intros ls src ln L I; [lia|].
  rewrite lex_f_unfold. destruct (lex_pre src); [exact Logic.I|]. unfold LOOP.
  apply (LOOPG_ok (lex_f f) f) with (n := S (length src)) (ln := ln) (h := false) (acc := [TLineNo ln]);
    [|reflexivity| | |exact I].
  - intros ls' b ln' Lb Ib. apply IH; assumption.
  - apply Nat.lt_succ_diag_r.
  - apply Nat.lt_succ_r, L.
Qed.

(* the premise, as a computable test of the lexer state and the source *)
Definition lex_safe (ls : lexstate) (src : list Z) : bool :=
  (tbl_inert (lx_rhythm ls) && forallb nodollar src) || forallb noR src.
Lemma lex_safe_Inv ls src : lex_safe ls src = true -> Inv ls src.
Proof.
  unfold lex_safe, Inv. intros H. apply orb_true_iff in H. destruct H as [H|H]; [left; apply andb_true_iff, H|right; exact H].
Qed.
Definition good {A} (r : res A) : Prop := r <> OutOfFuel /\ forall site, r <> Panic site.
Lemma okL_good ls s X : okL ls s X -> good X.
Proof. destruct X; cbn [okL]; intros H; try contradiction; split; intros; discriminate. Qed.

Theorem lex_f_terminates : forall fuel ls src ln, lex_safe ls src = true -> (M src < fuel)%nat -> good (lex_f fuel ls src ln).
Proof. intros fuel ls src ln S L. eapply okL_good, lex_f_ok; [exact L|apply lex_safe_Inv, S]. Qed.
Corollary lex_f_terminates_length : forall fuel ls src ln,
  lex_safe ls src = true -> (length src < fuel)%nat -> good (lex_f fuel ls src ln).
Proof. intros fuel ls src ln S L. apply lex_f_terminates; [exact S|]. pose proof (M_le_length src). lia. Qed.
Theorem lex_terminates : forall ls src ln, lex_safe ls src = true -> good (lex ls src ln).
Proof. intros ls src ln S. unfold lex. apply lex_f_terminates_length; [exact S|lia]. Qed.
(* under the first premise the rhythm table is left unchanged: the premise still holds for the next call *)
Theorem lex_keeps_rhythm_table : forall ls src ln toks ls',
  tbl_inert (lx_rhythm ls) = true -> forallb nodollar src = true -> lex ls src ln = Ok (toks, ls') ->
  lx_rhythm ls' = lx_rhythm ls.
Proof.
  intros ls src ln toks ls' A1 A2 H. unfold lex in H.
  pose proof (lex_f_ok (S (length src)) ls src ln) as Q. rewrite H in Q. cbn [okL snd] in Q.
  apply Q; try assumption; [pose proof (M_le_length src); lia|left; split; assumption].
Qed.

(* the built-in rhythm macros (b s h m c H M L o _) are inert *)
Lemma builtin_rhythm_inert : tbl_inert rhythm_rows = true.
Proof. vm_compute. reflexivity. Qed.

(* from the initial lexer state of model/Compile.v: every source without '$' *)
Theorem lex_terminates_initial : forall (ja : bool) src ln,
  forallb nodollar src = true -> good (lex (mkLex 96 [] init_vars rhythm_rows ja) src ln).
Proof.
  intros ja src ln H. apply lex_terminates. unfold lex_safe. cbn [lx_rhythm]. rewrite builtin_rhythm_inert, H. reflexivity.
Qed.

(* ------------------------------------------------------------------------------------------ *)
(* 11. without the premise the statement is false: a rhythm macro that calls Rhythm on itself   *)
(* ------------------------------------------------------------------------------------------ *)
Definition ls0 : lexstate := mkLex 96 [] init_vars rhythm_rows false.
Definition rhythm_recursion_src : list Z := zs "$a{Rhythm{a}} Rhythm{a}".
Lemma lex_rhythm_recursion : lex ls0 rhythm_recursion_src 0 = OutOfFuel.
Proof. vm_compute. reflexivity. Qed.
(* and no fuel is enough: the recursion is real (the implementation overflows its stack on this source) *)
Definition ls1 : lexstate := mkLex 96 [] init_vars ((97, zs "Rhythm{a}") :: rhythm_rows) false.
Lemma rhythm_self_step sublex :
  sublex ls1 (zs "Rhythm{a}") 0 = OutOfFuel ->
  LOOPG sublex (S (length (zs "Rhythm{a}"))) ls1 (zs "Rhythm{a}") 0 false [TLineNo 0] = OutOfFuel.
Proof. intros H. vm_compute in H. vm_compute. rewrite H. reflexivity. Qed.
Lemma rhythm_self_diverges : forall fuel, lex_f fuel ls1 (zs "Rhythm{a}") 0 = OutOfFuel.
Proof.
  induction fuel as [|f IH]; [reflexivity|]. rewrite lex_f_unfold.
  replace (lex_pre (zs "Rhythm{a}")) with false by (vm_compute; reflexivity). apply rhythm_self_step, IH.
Qed.
Lemma rhythm_def_step sublex :
  sublex ls1 (zs "Rhythm{a}") 0 = OutOfFuel ->
  LOOPG sublex (S (length rhythm_recursion_src)) ls0 rhythm_recursion_src 0 false [TLineNo 0] = OutOfFuel.
Proof. intros H. vm_compute in H. vm_compute. rewrite H. reflexivity. Qed.
Theorem lex_rhythm_recursion_diverges : forall fuel, lex_f fuel ls0 rhythm_recursion_src 0 = OutOfFuel.
Proof.
  intros [|f]; [reflexivity|]. rewrite lex_f_unfold.
  replace (lex_pre rhythm_recursion_src) with false by (vm_compute; reflexivity). apply rhythm_def_step, rhythm_self_diverges.
Qed.

(* the premises are met by ordinary programs *)
Definition example_src : list Z := zs "#A={c d} [2 c8 Sub{d4 r} #A] Rhythm{bshb} {ceg}4 TR(2) v.onTime(0,127,!1) 'ce'".
Example example_safe : lex_safe ls0 example_src = true.
Proof. vm_compute. reflexivity. Qed.
Example example_lexes : exists toks ls', lex ls0 example_src 0 = Ok (toks, ls') /\ (length toks > 10)%nat.
Proof. vm_compute. do 2 eexists. split; [reflexivity|]. vm_compute. lia. Qed.
