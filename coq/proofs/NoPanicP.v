(* C07: the pipeline model `Compile.compile` (lex -> exec_f -> generate) never answers Panic, whatever the source.
   1. lex / lex_f: every reader is Ok / Unsupported (proofs/TermP.v), every arm of the loop goes on, ends, or answers
      Unsupported; the recursive calls by induction on the outer fuel.  No premise: OutOfFuel is not Panic.
   2. exec_f: every arm of step_song answers Ok / Unsupported, or the outcome of lex, of exec_children, of PLAY's parts.
   3. generate: the only Panic site of the writer is a data-carrying event without data; the events of a song reached by
      run_source all have their data (PipelineP.run_source_inv). *)
From Coq Require Import String Ascii.
From Sakura.Model Require Import Base Cursor Length Event Writer Song Token LoopMachine LexCore RunCore Tie Compile RunRsv.
From Sakura.Gen Require Import Consts SysFuncRows Messages VarRows.
From Sakura.Spec Require Import LoopSpec.
From Sakura.Proofs Require Import WriterP LoopP BlockP LayoutP TermP PipelineP LoopParseP LoopExecP.
From Coq Require Import Lia.
Open Scope list_scope.
Open Scope Z_scope.

Lemma np_not_panic {A} (r : res A) : np r <-> forall site, r <> Panic site.
Proof. split; [intros H site E; rewrite E in H; exact H|]. intros H. destruct r; try exact I. exact (H site eq_refl). Qed.
Lemma np_bind {A B} (r : res A) (k : A -> res B) : np r -> (forall a, r = Ok a -> np (k a)) -> np (bind r k).
Proof. destruct r as [a| | |]; cbn [bind np]; auto. Qed.

(* ------------------------------------------------------------------------------------------ *)
(* 1. the lexer                                                                                 *)
(* ------------------------------------------------------------------------------------------ *)
Section LoopNP.
Variable sublex : lexstate -> list Z -> Z -> res lex_out.
Hypothesis sub_np : forall ls b ln, np (sublex ls b ln).

Lemma LOOPG_np : forall n ls s ln h acc X, LOOPG sublex n ls s ln h acc = X -> np X.
Proof.
  assert (SUBS : forall ls b ln, Spec (sublex ls b ln) (np (sublex ls b ln))) by exact sub_np.
  induction n as [|n IH]; intros ls s ln h acc X H; [cbn [LOOPG] in H; subst X; exact I|].
  cbn [LOOPG] in H.
  repeat brk H.
  all: lazymatch type of H with
       | LOOPG _ _ _ _ _ _ _ = _ => exact (IH _ _ _ _ _ _ H)
       | _ => subst X; exact I
       end.
Qed.
End LoopNP.

Lemma lex_f_np : forall fuel ls src ln, np (lex_f fuel ls src ln).
Proof.
  induction fuel as [|f IH]; intros ls src ln; [exact I|].
  rewrite lex_f_unfold. destruct (lex_pre src); [exact I|]. unfold LOOP. eapply LOOPG_np; [exact IH|reflexivity].
Qed.
Theorem lex_np ls src ln : np (lex ls src ln).
Proof. apply lex_f_np. Qed.
Global Instance lex_np_spec ls src ln : Spec (lex ls src ln) (np (lex ls src ln)) := lex_np ls src ln.

(* ------------------------------------------------------------------------------------------ *)
(* 2. the runner                                                                                *)
(* ------------------------------------------------------------------------------------------ *)
Ltac np_start :=
  lazymatch goal with
  | |- ?P ?x => let X := fresh "X" in let H := fresh "H" in remember x as X eqn:H; symmetry in H
  end.
Ltac np_end H := try harvest H; subst; try exact I; try assumption.

Lemma emit_note_np s ev nl lettered slur : np (emit_note s ev nl lettered slur).
Proof. np_start. unfold emit_note in H. repeat brk H. all: np_end H. Qed.
Global Instance emit_note_spec s ev nl lettered slur : Spec (emit_note s ev nl lettered slur) (np (emit_note s ev nl lettered slur))
  := emit_note_np s ev nl lettered slur.
Lemma exec_note_np s base flag natural len qlen vel timing oct slur : np (exec_note s base flag natural len qlen vel timing oct slur).
Proof. np_start. unfold exec_note in H. repeat brk H. all: np_end H. Qed.
Global Instance exec_note_spec s base flag natural len qlen vel timing oct slur :
  Spec (exec_note s base flag natural len qlen vel timing oct slur) (np (exec_note s base flag natural len qlen vel timing oct slur))
  := exec_note_np s base flag natural len qlen vel timing oct slur.
Lemma exec_note_n_np s no len qlen vel timing slur : np (exec_note_n s no len qlen vel timing slur).
Proof. np_start. unfold exec_note_n in H. repeat brk H. all: np_end H. Qed.
Global Instance exec_note_n_spec s no len qlen vel timing slur :
  Spec (exec_note_n s no len qlen vel timing slur) (np (exec_note_n s no len qlen vel timing slur))
  := exec_note_n_np s no len qlen vel timing slur.

(* TempoChange: Ok, or Unsupported (a ramp beyond RAMP_MAX ticks; a time base below 4) *)
Lemma exec_tempo_change_total s a rest :
  match exec_tempo_change s a rest with Ok _ | Unsupported _ => True | _ => False end.
Proof.
  unfold exec_tempo_change, tempo_change_a_to_b. destruct rest as [|b [|len [|x r]]]; try exact I;
    destruct (_ =? 0); try exact I; destruct (RAMP_MAX <? _); exact I.
Qed.
Lemma exec_tempo_change_np s a rest : np (exec_tempo_change s a rest).
Proof. pose proof (exec_tempo_change_total s a rest) as T. destruct (exec_tempo_change s a rest); try exact I; destruct T. Qed.
Global Instance exec_tempo_change_spec s a rest : Spec (exec_tempo_change s a rest) (np (exec_tempo_change s a rest))
  := exec_tempo_change_np s a rest.
Lemma exec_tempo_change_nf s a rest : nf (exec_tempo_change s a rest).
Proof. pose proof (exec_tempo_change_total s a rest) as T. destruct (exec_tempo_change s a rest); try exact I; destruct T. Qed.

(* SysEx: Ok, or Unsupported (more than SYSEX_MAX values); GSEffect with its first argument: always Ok (data[0] exists) *)
Lemma exec_sysex_total s cs args : match exec_sysex s cs args with Ok _ | Unsupported _ => True | _ => False end.
Proof. unfold exec_sysex. destruct args; [exact I|]. destruct (SYSEX_MAX <? _); exact I. Qed.
Lemma exec_sysex_np s cs args : np (exec_sysex s cs args).
Proof. pose proof (exec_sysex_total s cs args) as T. destruct (exec_sysex s cs args); try exact I; destruct T. Qed.
Global Instance exec_sysex_spec s cs args : Spec (exec_sysex s cs args) (np (exec_sysex s cs args)) := exec_sysex_np s cs args.
Lemma exec_sysex_nf s cs args : nf (exec_sysex s cs args).
Proof. pose proof (exec_sysex_total s cs args) as T. destruct (exec_sysex s cs args); try exact I; destruct T. Qed.
Lemma cmd_gs_effect_cons tp dev ch tag a rest : exists evs, Cmd.cmd_gs_effect tp dev ch tag (a :: rest) = Ok evs.
Proof.
  unfold Cmd.cmd_gs_effect. repeat match goal with |- context [if ?b then _ else _] => destruct b end; eexists; reflexivity.
Qed.
Lemma exec_gs_effect_total s tag a rest : exists s', exec_gs_effect s tag a rest = Ok s'.
Proof.
  unfold exec_gs_effect. destruct (cmd_gs_effect_cons (tr_timepos (cur_track s)) (as_u8 (s_device s)) (tr_channel (cur_track s)) tag a rest) as [evs ->].
  eexists. reflexivity.
Qed.
Lemma exec_gs_effect_np s tag a rest : np (exec_gs_effect s tag a rest).
Proof. destruct (exec_gs_effect_total s tag a rest) as [s' ->]. exact I. Qed.
Global Instance exec_gs_effect_spec s tag a rest : Spec (exec_gs_effect s tag a rest) (np (exec_gs_effect s tag a rest))
  := exec_gs_effect_np s tag a rest.
Lemma exec_gs_effect_nf s tag a rest : nf (exec_gs_effect s tag a rest).
Proof. destruct (exec_gs_effect_total s tag a rest) as [s' ->]. exact I. Qed.

Section ExecNP.
Variable ec : list tok -> res song -> res song.
Hypothesis ec_np : forall X r, np r -> np (ec X r).
Lemma ec_ok_np X s : np (ec X (Ok s)).
Proof. apply ec_np. exact I. Qed.

Lemma play_parts_np lineno start_pos : forall args index s last, np (play_parts ec lineno start_pos args index s last).
Proof.
  assert (ECS : forall X s, Spec (ec X (Ok s)) (np (ec X (Ok s)))) by exact ec_ok_np.
  induction args as [|a r IH]; intros index s last; [exact I|].
  assert (IHS : forall index s last, Spec (play_parts ec lineno start_pos r index s last) (np (play_parts ec lineno start_pos r index s last)))
    by exact IH.
  np_start. cbn [play_parts] in H. repeat brk H. all: np_end H.
Qed.
Lemma exec_play_np s args lineno : np (exec_play ec s args lineno).
Proof.
  assert (PPS : forall lineno start_pos args index s last,
            Spec (play_parts ec lineno start_pos args index s last) (np (play_parts ec lineno start_pos args index s last)))
    by exact play_parts_np.
  np_start. unfold exec_play in H. repeat brk H. all: np_end H.
Qed.
Lemma step_song_np t s : np (step_song ec t s).
Proof.
  assert (ECS : forall X s, Spec (ec X (Ok s)) (np (ec X (Ok s)))) by exact ec_ok_np.
  assert (EPS : forall s args lineno, Spec (exec_play ec s args lineno) (np (exec_play ec s args lineno))) by exact exec_play_np.
  np_start. destruct t; cbn [step_song] in H; repeat brk H. all: np_end H.
Qed.
Lemma step_tok_np t r : np r -> np (step_tok ec t r).
Proof. intros H. destruct r as [s| | |]; cbn [step_tok bind]; try exact H; try exact I. apply step_song_np. Qed.
End ExecNP.

Theorem exec_f_np steps : forall d toks r, np r -> np (exec_f d steps toks r).
Proof.
  induction d as [|d IH]; intros toks r H; [exact I|]. cbn [exec_f].
  destruct (run _ _ _ _ _ _ _ _) as [r'|] eqn:E; [|exact I].
  exact (run_invariant (step_tok (exec_f d steps)) halted count_of np
           (fun t r0 H0 => step_tok_np (exec_f d steps) IH t r0 H0) _ _ _ _ H E).
Qed.

Theorem run_source_np src : np (run_source src).
Proof.
  unfold run_source, run_source_lang. apply np_bind; [apply lex_np|]. intros [toks ls] _. apply exec_f_np. exact I.
Qed.

(* ------------------------------------------------------------------------------------------ *)
(* 3. the writer, and the whole of compile                                                      *)
(* ------------------------------------------------------------------------------------------ *)
Lemma write_tracks_value tracks : Forall (Forall eok) tracks ->
  exists bs, write_tracks (map normalize_and_sort tracks) = Ok bs.
Proof.
  induction tracks as [|t r IH]; intros H; [exists []; reflexivity|]. inversion H as [|t' r' Ht Hr]; subst.
  destruct (IH Hr) as [bs E]. cbn [map write_tracks]. unfold generate_track.
  rewrite (write_events_wire _ 0 (Forall_eok_forallb _ (normalize_and_sort_ok _ Ht))). cbn [bind]. rewrite E. cbn [bind].
  eexists. reflexivity.
Qed.
(* the writer answers with bytes for every song reached from a source *)
Theorem generate_value s : events_inv s -> exists bs, generate (s_timebase s) (tracks_for_writer s) = Ok bs.
Proof.
  intros H. unfold generate, generate_sorted. destruct (write_tracks_value _ (tracks_for_writer_ok s H)) as [bs E].
  rewrite E. cbn [bind]. eexists. reflexivity.
Qed.

Theorem compile_np src : np (compile src).
Proof.
  unfold compile, compile_lang. fold (run_source src). pose proof (run_source_np src) as R. destruct (run_source src) as [s| | |] eqn:E; cbn [bind]; try exact I; [|exact R].
  destruct (generate_value s (proj1 (run_source_inv src s E))) as [bs G]. rewrite G. exact I.
Qed.
Theorem compile_never_panics : forall (src : list Z) (site : Z), compile src <> Panic site.
Proof. intros src. apply np_not_panic, compile_np. Qed.
(* the outcomes of compile are: bytes and a log, Unsupported (text outside the modelled fragment, at the lexer or the
   runner), or OutOfFuel (at the lexer or the runner) - the writer never fails *)
Theorem compile_outcomes src :
  match compile src with
  | Ok _ => exists s, run_source src = Ok s
  | Unsupported w => run_source src = Unsupported w
  | OutOfFuel => run_source src = OutOfFuel
  | Panic _ => False
  end.
Proof.
  unfold compile, compile_lang. fold (run_source src). pose proof (run_source_np src) as R. destruct (run_source src) as [s| | |] eqn:E; cbn [bind]; try reflexivity; [|exact R].
  destruct (generate_value s (proj1 (run_source_inv src s E))) as [bs G]. rewrite G. cbn [bind]. exists s. reflexivity.
Qed.

(* ------------------------------------------------------------------------------------------ *)
(* 4. fuel: a token program without loops, macro calls and PLAY, nested less deep than the depth *)
(*    fuel and shorter (at every level) than the step fuel, is executed without OutOfFuel       *)
(* ------------------------------------------------------------------------------------------ *)
Definition tok_fuel_ok (rec : list tok -> bool) (t : tok) : bool :=
  match t with
  | TDiv _ _ ch => rec ch
  | TSub ch => rec ch
  | TValue _ _ _ | TPlay _ _ => false      (* lexed and executed at run time: the work they request is not bounded here *)
  | _ => true
  end.
Fixpoint fuel_ok (d steps : nat) (toks : list tok) : bool :=
  match d with
  | O => false
  | S d' => loop_free toks && (length toks <? steps)%nat && forallb (tok_fuel_ok (fuel_ok d' steps)) toks
  end.

Lemma emit_note_nf s ev nl lettered slur : nf (emit_note s ev nl lettered slur).
Proof. np_start. unfold emit_note in H. repeat brk H. all: np_end H. Qed.
Lemma exec_note_nf s base flag natural len qlen vel timing oct slur : nf (exec_note s base flag natural len qlen vel timing oct slur).
Proof.
  assert (ENS : forall s ev nl lettered slur, Spec (emit_note s ev nl lettered slur) (nf (emit_note s ev nl lettered slur))) by exact emit_note_nf.
  np_start. unfold exec_note in H. repeat brk H. all: np_end H.
Qed.
Lemma exec_note_n_nf s no len qlen vel timing slur : nf (exec_note_n s no len qlen vel timing slur).
Proof.
  assert (ENS : forall s ev nl lettered slur, Spec (emit_note s ev nl lettered slur) (nf (emit_note s ev nl lettered slur))) by exact emit_note_nf.
  np_start. unfold exec_note_n in H. repeat brk H. all: np_end H.
Qed.

Section ExecNF.
Variable ec : list tok -> res song -> res song.
Variable rec : list tok -> bool.
Hypothesis ec_nf : forall ch s, rec ch = true -> s_break_flag s = 0 -> nf (ec ch (Ok s)).

Lemma step_song_nf t s : tok_fuel_ok rec t = true -> s_break_flag s = 0 -> nf (step_song ec t s).
Proof.
  assert (ENS : forall s base flag natural len qlen vel timing oct slur,
            Spec (exec_note s base flag natural len qlen vel timing oct slur) (nf (exec_note s base flag natural len qlen vel timing oct slur)))
    by exact exec_note_nf.
  assert (ENN : forall s no len qlen vel timing slur,
            Spec (exec_note_n s no len qlen vel timing slur) (nf (exec_note_n s no len qlen vel timing slur)))
    by exact exec_note_n_nf.
  assert (ETC : forall s a rest, Spec (exec_tempo_change s a rest) (nf (exec_tempo_change s a rest))) by exact exec_tempo_change_nf.
  assert (ESX : forall s cs args, Spec (exec_sysex s cs args) (nf (exec_sysex s cs args))) by exact exec_sysex_nf.
  assert (EGS : forall s tag a rest, Spec (exec_gs_effect s tag a rest) (nf (exec_gs_effect s tag a rest))) by exact exec_gs_effect_nf.
  intros T B. destruct t; cbn [tok_fuel_ok] in T; try discriminate T.
  all: try (np_start; cbn [step_song] in H; repeat brk H; np_end H; fail).
  - cbn [step_song]. match goal with |- context [ec ?X (Ok ?x)] => pose proof (ec_nf X x T B) as Q; destruct (ec X (Ok x)) end; exact Q || exact I.
  - cbn [step_song]. match goal with |- context [ec ?X (Ok ?x)] => pose proof (ec_nf X x T B) as Q; destruct (ec X (Ok x)) end; exact Q || exact I.
Qed.
End ExecNF.

Definition flag0 (r : res song) : Prop := flag_kept 0 r.
Lemma fold_steps_nf ec rec :
  (forall ch s, rec ch = true -> s_break_flag s = 0 -> nf (ec ch (Ok s))) -> keeps_break_flag ec ->
  forall toks r, forallb (tok_fuel_ok rec) toks = true -> nf r -> flag_kept 0 r -> nf (fold_steps ec toks r).
Proof.
  intros Hec Hk. induction toks as [|t rest IH]; intros r HT Hr Hf; [exact Hr|].
  cbn [forallb] in HT. apply andb_prop in HT. destruct HT as [Ht Hrest].
  change (fold_steps ec (t :: rest) r) with (fold_steps ec rest (step_tok ec t r)).
  apply IH; [exact Hrest| |apply step_tok_flag_kept; [exact Hk|exact Hf]].
  destruct r as [s| | |]; cbn [step_tok bind]; try exact Hr; try exact I.
  apply (step_song_nf ec rec Hec t s Ht Hf).
Qed.

Theorem exec_f_nf steps : forall d toks s,
  fuel_ok d steps toks = true -> s_break_flag s = 0 -> nf (exec_f d steps toks (Ok s)).
Proof.
  induction d as [|d IH]; intros toks s H B; [discriminate H|].
  cbn [fuel_ok] in H. apply andb_prop in H. destruct H as [H H3]. apply andb_prop in H. destruct H as [H1 H2].
  apply Nat.ltb_lt in H2. rewrite (exec_f_loopfree d steps toks s H1 H2 B).
  apply (fold_steps_nf (exec_f d steps) (fuel_ok d steps)); [exact IH|apply exec_f_keeps_break_flag|exact H3|exact I|exact B].
Qed.

Corollary exec_f_no_outoffuel : forall (steps depth : nat) (toks : list tok) (s : song),
  fuel_ok depth steps toks = true -> s_break_flag s = 0 -> exec_f depth steps toks (Ok s) <> OutOfFuel.
Proof. intros steps depth toks s H B E. pose proof (exec_f_nf steps depth toks s H B) as Q. rewrite E in Q. exact Q. Qed.

(* the computable premise on a source: no '$' (lex_safe from the initial state), and the token program the lexer makes of it
   is loop-free, macro-free, PLAY-free, nested less deep than S (length src) and shorter at every level than STEPS *)
Definition compile_fuel_ok (src : list Z) : bool :=
  forallb nodollar src &&
  match lex (mkLex 96 [] init_vars rhythm_rows false) src 0 with
  | Ok (toks, _) => fuel_ok (S (length src)) STEPS toks
  | _ => true
  end.
Theorem compile_fuel_partial src : compile_fuel_ok src = true -> compile src <> OutOfFuel.
Proof.
  unfold compile_fuel_ok. intros H. apply andb_prop in H. destruct H as [H1 H2].
  pose proof (compile_outcomes src) as O. destruct (compile src) eqn:C; try discriminate. intros _.
  unfold run_source, run_source_lang in O. pose proof (lex_terminates_initial false src 0 H1) as [L _].
  destruct (lex (mkLex 96 [] init_vars rhythm_rows false) src 0) as [[toks ls]| | |]; cbn [bind] in O; try discriminate; [|exact (L eq_refl)].
  pose proof (exec_f_nf STEPS (S (length src)) toks (song_after_lex ls) H2 eq_refl) as Q. rewrite O in Q. exact Q.
Qed.
Example compile_fuel_example :
  compile_fuel_ok (zs "l8 o5 c d {ceg}4 Sub{d4 r} 'ce' TR(2) y7,100 v.onTime(0,127,!1) Rhythm{bshb}") = true.
Proof. vm_compute. reflexivity. Qed.
Example compile_fuel_example_value :
  exists bytes log, compile (zs "l8 o5 c d {ceg}4 Sub{d4 r} 'ce' TR(2) y7,100 v.onTime(0,127,!1) Rhythm{bshb}") = Ok (bytes, log).
Proof. vm_compute. do 2 eexists. reflexivity. Qed.

(* ------------------------------------------------------------------------------------------ *)
(* 5. fuel, with loops: the brackets balanced (at every level), the state-free step bound of the parsed program *)
(*    below the step fuel                                                                       *)
(* ------------------------------------------------------------------------------------------ *)
Definition loop_bound (n : Z) : nat := Nat.max 1 (Z.to_nat n).
Fixpoint fuel_ok_loops (d steps : nat) (toks : list tok) : bool :=
  match d with
  | O => false
  | S d' =>
      match parse_toks toks with
      | Some p => (scost loop_bound p <? steps)%nat && forallb (tok_fuel_ok (fuel_ok_loops d' steps)) toks
      | None => false
      end
  end.

Lemma to_ltok_other t' t : to_ltok t' = LOther t -> t' = t.
Proof. destruct t'; cbn [to_ltok]; intros H; try discriminate H; injection H as <-; reflexivity. Qed.

Theorem exec_f_nf_loops steps : forall d toks s,
  fuel_ok_loops d steps toks = true -> s_break_flag s = 0 -> nf (exec_f d steps toks (Ok s)).
Proof.
  induction d as [|d IH]; intros toks s H B; [discriminate H|].
  cbn [fuel_ok_loops] in H. destruct (parse_toks toks) as [p|] eqn:E; [|discriminate H].
  apply andb_prop in H. destruct H as [H1 H2]. apply Nat.ltb_lt in H1.
  assert (HC : forall r, (LoopSpec.cost tok (res song) (step_tok (exec_f d steps)) halted (count1 count_of) p r <= scost loop_bound p)%nat).
  { intros r. apply (proj2 (cost_le_scost tok (res song) (step_tok (exec_f d steps)) halted count_of loop_bound (fun n s0 => le_n _))). }
  rewrite (exec_f_parsed d steps toks p (Ok s) E) by (specialize (HC (Ok s)); lia).
  pose (Inv := fun r : res song => nf r /\ flag_kept 0 r).
  assert (Q : Inv (LoopSpec.sem tok (res song) (step_tok (exec_f d steps)) halted (count1 count_of) p (Ok s))).
  { apply (proj2 (sem_invariant tok (res song) (step_tok (exec_f d steps)) halted (count1 count_of) Inv) p); [|split; [exact I|exact B]].
    intros t Ht r [Hr Hf]. rewrite (parse_toks_sound toks p E) in Ht. apply in_map_iff in Ht. destruct Ht as (t' & Et & Hin).
    apply to_ltok_other in Et. subst t'.
    split; [|apply step_tok_flag_kept; [apply exec_f_keeps_break_flag|exact Hf]].
    destruct r as [s1| | |]; cbn [step_tok bind]; try exact Hr; try exact I.
    apply (step_song_nf (exec_f d steps) (fuel_ok_loops d steps) IH t s1); [|exact Hf].
    rewrite forallb_forall in H2. apply H2, Hin. }
  exact (proj1 Q).
Qed.
Corollary exec_f_loops_no_outoffuel : forall (steps depth : nat) (toks : list tok) (s : song),
  fuel_ok_loops depth steps toks = true -> s_break_flag s = 0 -> exec_f depth steps toks (Ok s) <> OutOfFuel.
Proof. intros steps depth toks s H B E. pose proof (exec_f_nf_loops steps depth toks s H B) as Q. rewrite E in Q. exact Q. Qed.

(* the loop-free bound is a special case *)
Definition compile_fuel_ok_loops (src : list Z) : bool :=
  forallb nodollar src &&
  match lex (mkLex 96 [] init_vars rhythm_rows false) src 0 with
  | Ok (toks, _) => fuel_ok_loops (S (length src)) STEPS toks
  | _ => true
  end.
Theorem compile_fuel_loops src : compile_fuel_ok_loops src = true -> compile src <> OutOfFuel.
Proof.
  unfold compile_fuel_ok_loops. intros H. apply andb_prop in H. destruct H as [H1 H2].
  pose proof (compile_outcomes src) as O. destruct (compile src) eqn:C; try discriminate. intros _.
  unfold run_source, run_source_lang in O. pose proof (lex_terminates_initial false src 0 H1) as [L _].
  destruct (lex (mkLex 96 [] init_vars rhythm_rows false) src 0) as [[toks ls]| | |]; cbn [bind] in O; try discriminate; [|exact (L eq_refl)].
  pose proof (exec_f_nf_loops STEPS (S (length src)) toks (song_after_lex ls) H2 eq_refl) as Q. rewrite O in Q. exact Q.
Qed.
Example compile_fuel_loops_example :
  let src := zs "l8 [3 c d [2 e : f] : g] {c [2 d] e}4 Sub{[4 r]} 'ce'" in
  compile_fuel_ok_loops src = true /\ exists bytes log, compile src = Ok (bytes, log).
Proof. split; [vm_compute; reflexivity|]. vm_compute. do 2 eexists. reflexivity. Qed.
