(* Numerals saturate at NUMERAL_MAX: capping every digit step equals capping the exact value once. *)
From Sakura.Model Require Import Base Cursor.
From Sakura.Gen Require Import Consts.
From Coq Require Import Lia.
Open Scope Z_scope.

Fixpoint horner (base acc : Z) (ds : list Z) : Z :=
  match ds with
  | [] => acc
  | d :: r => horner base (acc * base + d) r
  end.

Fixpoint horner_sat (base acc : Z) (ds : list Z) : Z :=
  match ds with
  | [] => acc
  | d :: r => horner_sat base (sat (acc * base + d)) r
  end.

Lemma numeral_max_pos : 0 < NUMERAL_MAX.
Proof. reflexivity. Qed.

Lemma sat_range v : 0 <= v -> 0 <= sat v <= NUMERAL_MAX.
Proof. pose proof numeral_max_pos. unfold sat. lia. Qed.

Lemma sat_small v : v <= NUMERAL_MAX -> sat v = v.
Proof. unfold sat. lia. Qed.

Lemma horner_ge base ds : 1 <= base -> forall acc, 0 <= acc -> Forall (fun d => 0 <= d) ds -> acc <= horner base acc ds.
Proof.
  intros Hb. induction ds as [|d ds IH]; intros acc Ha Hd; cbn [horner]; [lia|].
  inversion Hd as [|? ? Hd0 Hds]; subst.
  assert (acc <= acc * base + d) by nia.
  specialize (IH (acc * base + d) ltac:(lia) Hds). lia.
Qed.

Lemma horner_mono base ds : 1 <= base -> forall a b, a <= b -> horner base a ds <= horner base b ds.
Proof.
  intros Hb. induction ds as [|d ds IH]; intros a b Hab; cbn [horner]; [lia|].
  apply IH. nia.
Qed.

(* capping each step = capping once *)
Theorem horner_sat_min base ds : 1 <= base -> Forall (fun d => 0 <= d) ds ->
  forall acc, 0 <= acc <= NUMERAL_MAX -> horner_sat base acc ds = Z.min (horner base acc ds) NUMERAL_MAX.
Proof.
  intros Hb. induction ds as [|d ds IH]; intros Hd acc Ha; cbn [horner horner_sat]; [lia|].
  inversion Hd as [|? ? Hd0 Hds]; subst.
  assert (H0 : 0 <= acc * base + d) by nia.
  rewrite (IH Hds (sat (acc * base + d)) (sat_range _ H0)).
  destruct (Z_le_gt_dec (acc * base + d) NUMERAL_MAX) as [Hle | Hgt].
  - rewrite sat_small by exact Hle. reflexivity.
  - assert (E : sat (acc * base + d) = NUMERAL_MAX) by (unfold sat; lia). rewrite E.
    pose proof numeral_max_pos.
    pose proof (horner_ge base ds Hb NUMERAL_MAX ltac:(lia) Hds).
    pose proof (horner_ge base ds Hb (acc * base + d) H0 Hds). lia.
Qed.

(* every numeral the readers return is within 0 .. NUMERAL_MAX *)
Lemma horner_sat_range base ds : 1 <= base -> Forall (fun d => 0 <= d) ds ->
  forall acc, 0 <= acc <= NUMERAL_MAX -> 0 <= horner_sat base acc ds <= NUMERAL_MAX.
Proof.
  intros Hb Hd acc Ha. rewrite horner_sat_min by assumption.
  pose proof (horner_ge base ds Hb acc ltac:(lia) Hd). pose proof numeral_max_pos. lia.
Qed.

(* the readers, for ANY text: the value read is within 0 .. NUMERAL_MAX whenever the accumulator is *)
Lemma take_dec_range s : forall acc, 0 <= acc <= NUMERAL_MAX -> 0 <= fst (take_dec acc s) <= NUMERAL_MAX.
Proof.
  induction s as [|c r IH]; intros acc Ha; cbn [take_dec fst]; [lia|].
  destruct (is_digit c) eqn:E; cbn [fst]; [|lia].
  apply IH. apply sat_range. unfold is_digit in E. assert (48 <= c <= 57) by lia. nia.
Qed.

Lemma take_oct_range s : forall acc, 0 <= acc <= NUMERAL_MAX -> 0 <= fst (take_oct acc s) <= NUMERAL_MAX.
Proof.
  induction s as [|c r IH]; intros acc Ha; cbn [take_oct fst]; [lia|].
  destruct (is_oct_digit c) eqn:E; cbn [fst]; [|lia].
  apply IH. apply sat_range. unfold is_oct_digit in E. assert (48 <= c <= 56) by lia. nia.
Qed.

Lemma hex_val_nonneg c d : hex_val c = Some d -> 0 <= d <= 15.
Proof.
  unfold hex_val, is_digit. intros H.
  destruct ((48 <=? c) && (c <=? 57)) eqn:E1; [assert (d = c - 48) by congruence; lia|].
  destruct ((97 <=? c) && (c <=? 102)) eqn:E2; [assert (d = 10 + (c - 97)) by congruence; lia|].
  destruct ((65 <=? c) && (c <=? 70)) eqn:E3; [assert (d = 10 + (c - 65)) by congruence; lia|discriminate].
Qed.

Lemma take_hex_range s : forall acc, 0 <= acc <= NUMERAL_MAX -> 0 <= fst (take_hex acc s) <= NUMERAL_MAX.
Proof.
  induction s as [|c r IH]; intros acc Ha; cbn [take_hex fst]; [lia|].
  destruct (hex_val c) as [d|] eqn:E; cbn [fst]; [|lia].
  apply IH. apply sat_range. apply hex_val_nonneg in E. nia.
Qed.

Lemma wrap_sign_lt z : z < 9223372036854775808 -> wrap_sign z = z.
Proof. intros H. unfold wrap_sign. destruct (z =? 9223372036854775808) eqn:E; [lia|reflexivity]. Qed.

(* get_int / get_hex on ANY text: |value| <= max(|default|, NUMERAL_MAX) *)
Theorem get_hex_bounded def flag s : Z.abs (fst (get_hex def flag s)) <= Z.max (Z.abs def) NUMERAL_MAX.
Proof.
  pose proof numeral_max_pos as HM.
  unfold get_hex.
  set (p := if flag then _ else _). destruct p as [fl s1] eqn:Ep.
  assert (Hfl : fl = 1 \/ fl = -1).
  { subst p. destruct flag; [|inversion Ep; auto].
    destruct (eq_char s c_MINUS); cbv beta iota zeta in Ep;
      repeat match type of Ep with context [if ?b then _ else _] => destruct b end; inversion Ep; auto. }
  destruct (hex_val (peek0 s1)); cbn [fst]; [|lia].
  destruct (take_hex 0 s1) as [no s2] eqn:Et. cbn [fst].
  pose proof (take_hex_range s1 0 ltac:(lia)) as R. rewrite Et in R. cbn [fst] in R.
  destruct Hfl as [-> | ->]; lia.
Qed.

Theorem get_int_bounded def s : Z.abs (fst (get_int def s)) <= Z.max (Z.abs def) NUMERAL_MAX.
Proof.
  pose proof numeral_max_pos as HM.
  unfold get_int.
  destruct (eq_char s c_MINUS); cbv beta iota zeta.
  all: repeat match goal with
       | |- context [if ?b then _ else _] => destruct b eqn:?
       end.
  all: try (cbn [fst]; lia).
  all: try match goal with
       | |- context [get_hex ?d ?f ?x] =>
           pose proof (get_hex_bounded d f x) as Hh; destruct (get_hex d f x) as [v s2]; cbn [fst] in *;
           unfold wrap_sign; match goal with |- context [if ?b then _ else _] => destruct b eqn:? end; lia
       end.
  all: try match goal with
       | |- context [take_oct 0 ?x] =>
           pose proof (take_oct_range x 0 ltac:(lia)) as R; destruct (take_oct 0 x) as [no s3]; cbn [fst] in *; lia
       end.
  all: try match goal with
       | |- context [take_dec 0 ?x] =>
           pose proof (take_dec_range x 0 ltac:(lia)) as R; destruct (take_dec 0 x) as [no s3]; cbn [fst] in *; lia
       end.
Qed.
