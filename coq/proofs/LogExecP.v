(* C19 - the log bound through the WHOLE pipeline model: every arm of the runner (RunCore.step_song), exec_f at any nesting,
   the lexing done at run time (macro calls, PLAY parts) and the lexer itself keep the log at <= SAKURA_MAX_LOGS entries;
   get_logs_str cuts the text.  And End / END: what follows it plays no role. *)
From Coq Require Import String Ascii.
From Sakura.Model Require Import Base Cursor Length Event Writer Song Token LoopMachine LexCore RunCore Tie Compile RunRsv.
From Sakura.Gen Require Import Consts Messages VarRows.
From Sakura.Proofs Require Import BlockP ExtP LayoutP LogP PipelineP TermP LocalityP.
From Coq Require Import Lia.
Open Scope list_scope.
Open Scope Z_scope.

Definition logs_inv (s : song) : Prop := zlen (s_logs s) <= SAKURA_MAX_LOGS.

Lemma li_same s s' : s_logs s' = s_logs s -> logs_inv s -> logs_inv s'.
Proof. unfold logs_inv. intros ->. exact (fun H => H). Qed.
Lemma li_add_log s m : logs_inv s -> logs_inv (add_log s m).
Proof. apply add_log_ok. Qed.
Lemma li_runtime_error s m : logs_inv s -> logs_inv (runtime_error s m).
Proof. apply runtime_error_ok. Qed.
Lemma logs_change_cur_track s no : s_logs (change_cur_track s no) = s_logs s.
Proof. unfold change_cur_track, settle_octave_once. destruct (s_octave_once s =? 0); reflexivity. Qed.
Lemma logs_exec_voice s args : s_logs (exec_voice s args) = s_logs s.
Proof. unfold exec_voice. destruct args as [|a [|b r]]; reflexivity. Qed.
Lemma logs_harmony_end s len q vel : s_logs (exec_harmony_end s len q vel) = s_logs s.
Proof. unfold exec_harmony_end. destruct (s_harmony_flag s); reflexivity. Qed.
Lemma li_time_signature s args : logs_inv s -> logs_inv (exec_time_signature s args).
Proof.
  intros H. unfold exec_time_signature. destruct args as [|a [|b r]]; try (apply li_runtime_error, H).
  cbv zeta. match goal with |- context [if ?b then s else _] => destruct b end.
  - exact H.
  - exact (li_runtime_error s _ H).
Qed.
Lemma li_get_time s args cmd : logs_inv s -> logs_inv (snd (exec_get_time s args cmd)).
Proof.
  intros H. unfold exec_get_time. destruct args as [|a [|b [|c r]]]; cbn [snd]; try exact H; apply li_runtime_error, H.
Qed.
Lemma li_rpn_direct s nrpn args : logs_inv s -> logs_inv (exec_rpn_direct s nrpn args).
Proof.
  intros H. unfold exec_rpn_direct. destruct args as [|a [|b [|c [|d r]]]]; try (apply li_runtime_error, H). exact H.
Qed.
Lemma logs_emit_note s ev nl lettered slur s' : emit_note s ev nl lettered slur = Ok s' -> s_logs s' = s_logs s.
Proof.
  unfold emit_note. cbv zeta. destruct lettered.
  - match goal with |- context [if ?b then _ else s_set_octave_once _ 0] => destruct b end;
      repeat match goal with |- context [if ?b then _ else _] => destruct b end; intros E; injection E as <-; reflexivity.
  - intros E; injection E as <-; reflexivity.
Qed.
Lemma logs_exec_note s base flag natural len qlen vel timing oct slur s' :
  exec_note s base flag natural len qlen vel timing oct slur = Ok s' -> s_logs s' = s_logs s.
Proof. unfold exec_note; destr_lets; intros E; apply logs_emit_note in E; exact E. Qed.
Lemma logs_exec_note_n s no len qlen vel timing slur s' :
  exec_note_n s no len qlen vel timing slur = Ok s' -> s_logs s' = s_logs s.
Proof. unfold exec_note_n; destr_lets; intros E; apply logs_emit_note in E; exact E. Qed.
Lemma li_song_with_ls s ls : zlen (lx_logs ls) <= SAKURA_MAX_LOGS -> logs_inv (song_with_ls s ls).
Proof. intros H. unfold logs_inv. rewrite song_with_ls_logs. exact H. Qed.

(* ---- every arm of step_song, relative to exec_children ---- *)
Lemma li_exec_play ec s args ln s2 : ec_keeps logs_inv ec -> logs_inv s -> exec_play ec s args ln = Ok s2 -> logs_inv s2.
Proof.
  intros Hec H E. apply exec_play_ok in E. destruct E as (Hn & _ & s4 & last & Hp & ->).
  apply (li_same s4); [rewrite logs_change_cur_track; reflexivity|].
  change (logs_inv (fst (s4, last))).
  apply (play_parts_inv logs_inv ec ln (tr_timepos (cur_track s))) in Hp; [exact Hp| | | |exact H].
  - intros s0 i _ H0. unfold play_enter. apply (li_same s0); [|exact H0].
    change (s_logs (upd_cur (change_cur_track s0 i) (fun t => tr_set_timepos t (tr_timepos (cur_track s))))) with (s_logs (change_cur_track s0 i)).
    apply logs_change_cur_track.
  - intros sa txt toks lsa sb H2 L E3. apply Hec in E3; [exact E3|]. apply li_song_with_ls.
    apply (lex_log_ok _ _ _ _ _ L). exact H2.
  - unfold zlen in Hn. lia.
Qed.

Lemma step_song_logs_inv ec : ec_keeps logs_inv ec ->
  forall t s s2, logs_inv s -> step_song ec t s = Ok s2 -> logs_inv s2.
Proof.
  intros Hec t s s2 H. destruct t; cbn [step_song];
  try (intros E; injection E as <-;
       first [ exact H
             | apply (li_same s); [first [reflexivity | apply logs_exec_voice | apply logs_harmony_end]|exact H]
             | apply li_time_signature, H
             | apply li_rpn_direct, H ]).
  - (* TNote *) intros E. apply logs_exec_note in E. exact (li_same _ _ E H).
  - (* TNoteN *) intros E. apply logs_exec_note_n in E. exact (li_same _ _ E H).
  - (* TVelocity *) destruct (ino >? 0); [discriminate|]. intros E; injection E as <-. exact H.
  - (* TDiv *)
    match goal with |- context [ec ?X (Ok ?x)] => destruct (ec X (Ok x)) as [sa| | |] eqn:E2 end;
      cbn [bind]; try discriminate. intros E; injection E as <-.
    apply Hec in E2; [exact E2|exact H].
  - (* TSub *)
    destruct (ec children (Ok s)) as [sa| | |] eqn:E2; cbn [bind]; try discriminate. intros E; injection E as <-.
    apply Hec in E2; [exact E2|exact H].
  - (* TTrack *) destruct (_ || _); [discriminate|]. intros E; injection E as <-.
    apply (li_same s); [apply logs_change_cur_track|exact H].
  - (* TTime *)
    pose proof (li_get_time s args (zs "TIME") H) as HG.
    destruct (exec_get_time s args (zs "TIME")) as [v s1]. cbn [snd] in HG. intros E; injection E as <-. exact HG.
  - (* TPlayFrom *)
    pose proof (li_get_time s args (zs "PlayFrom") H) as HG.
    destruct (exec_get_time s args (zs "PlayFrom")) as [v s1]. cbn [snd] in HG. intros E; injection E as <-. exact HG.
  - (* TValue *)
    intros E. apply step_value_parts in E. destruct E as (s1 & text & toks & lsa & Hs1 & L & E).
    apply Hec in E; [exact E|]. apply li_song_with_ls. apply (lex_log_ok _ _ _ _ _ L).
    destruct Hs1 as [->|[m ->]]; [exact H|apply li_add_log, H].
  - (* TDecresc *) destruct (_ <? _); [discriminate|]. intros E; injection E as <-. exact H.
  - (* TPlay *) intros E. apply (li_exec_play ec s args lineno s2 Hec H E).
  - (* TMetaText *) destruct (_ && _); [|discriminate]. intros E; injection E as <-. exact H.
  - (* TTempoChange *) intros E. apply (exec_tempo_change_inv logs_inv) in E; [exact E| | |exact H].
    + intros s0 v H0. exact H0.
    + intros s0 f H0. exact H0.
  - (* TSysEx *) intros E. apply exec_sysex_cases in E. destruct E as [[_ [m ->]]|[_ [Hl ->]]]; [apply li_runtime_error, H|exact H].
  - (* TGSEffect *) intros E. apply exec_gs_effect_cases in E. destruct E as (evs & Hg & ->). exact H.
Qed.

(* ---- exec_f, run_source, compile ---- *)
Theorem exec_f_logs_inv steps d toks s s2 : logs_inv s -> exec_f d steps toks (Ok s) = Ok s2 -> logs_inv s2.
Proof. exact (exec_f_keeps logs_inv step_song_logs_inv steps d toks s s2). Qed.

Theorem run_source_logs src s : run_source src = Ok s -> zlen (s_logs s) <= SAKURA_MAX_LOGS.
Proof.
  unfold run_source, run_source_lang. intros E. apply bind_ok in E. destruct E as ([toks ls] & L & E).
  apply (exec_f_logs_inv _ _ _ _ _) in E; [exact E|].
  unfold song_after_lex. apply li_song_with_ls. apply (lex_log_ok _ _ _ _ _ L). unfold zlen. cbn [lx_logs length]. pose proof consts_sane. lia.
Qed.
Theorem compile_log_entries src s : run_source src = Ok s -> (length (s_logs s) <= 100)%nat.
Proof. intros E. pose proof (run_source_logs src s E) as H. unfold zlen in H. change SAKURA_MAX_LOGS with 100 in H. lia. Qed.

(* ---- End / END at command position: what follows it plays no role ---- *)
Lemma lg_prefixb_app p r : prefixb p (p ++ r) = true.
Proof. induction p as [|x p IH]; [reflexivity|]. cbn [app prefixb]. rewrite Z.eqb_refl. exact IH. Qed.
(* the loop *)
Theorem after_end_loop f n ls (c : Z) r t ln h acc : zen2han c = 69 ->
  prefixb (zs "nd") r || prefixb (zs "ND") r = true ->
  LOOP f (S n) ls (c :: r ++ t) ln h acc = Ok (acc, ls) /\ LOOP f (S n) ls (c :: r) ln h acc = Ok (acc, ls).
Proof.
  intros Hc Hp. split; [|apply end_step; assumption]. apply end_step; [exact Hc|].
  apply orb_true_iff in Hp. apply orb_true_iff. destruct Hp as [Hp|Hp]; [left|right];
    apply tp_prefixb_true in Hp; rewrite Hp, <- app_assoc; apply lg_prefixb_app.
Qed.

(* the whole lexer, for a program read command by command (LocalityP.runs) and then End: the answer is the state of the
   isolated runs, whatever text follows the word *)
Lemma runs_det f ls ln h acc p rest ls1 ln1 h1 acc1 :
  runs f ls ln h acc p rest ls1 ln1 h1 acc1 ->
  forall rest' ls2 ln2 h2 acc2, runs f ls ln h acc p rest' ls2 ln2 h2 acc2 ->
  (rest <> [] -> rest' <> [] -> hd 0 rest = hd 0 rest') -> (rest = [] <-> rest' = []) ->
  ls1 = ls2 /\ ln1 = ln2 /\ h1 = h2 /\ acc1 = acc2.
Proof.
  induction 1 as [ls ln h acc rest
                 |ls ln h acc c cmd lsa lna ha acca A1
                 |ls ln h acc c cmd its p rest c0 F lsa lna ha acca ls1 ln1 h1 acc1 HF Hok Hlay Hco Hso A1 Hlog Hr IH];
    intros rest' ls2 ln2 h2 acc2 R2 Hh He.
  - inversion R2; subst. repeat split; reflexivity.
  - inversion R2 as [|? ? ? ? ? ? ? ? ? ? A2|? ? ? ? ? ? ? ? ? c0' F' ? ? ? ? ? ? ? ? HF' ? ? ? ? A2 ? Hr']; subst.
    + rewrite A1 in A2. injection A2 as -> -> -> ->. repeat split; reflexivity.
    + exfalso. cbn [print_items print_cprog app] in HF'. destruct He as [He _]. rewrite (He eq_refl) in HF'. discriminate HF'.
  - inversion R2 as [|? ? ? ? ? ? ? ? ? ? A2|? ? ? ? ? ? ? ? ? c0' F' ? ? ? ? ? ? ? ? HF' ? ? ? ? A2 ? Hr']; subst.
    + exfalso. cbn [print_items print_cprog app] in HF. destruct He as [_ He]. rewrite (He eq_refl) in HF. discriminate HF.
    + assert (Ec : c0 = c0').
      { destruct (print_items its ++ print_cprog p) as [|y q] eqn:Eq.
        - rewrite app_assoc, Eq in HF, HF'. cbn [app] in HF, HF'. destruct rest as [|x r1]; [discriminate HF|]. destruct rest' as [|x' r2]; [discriminate HF'|].
          injection HF as -> _. injection HF' as -> _. apply Hh; discriminate.
        - rewrite app_assoc, Eq in HF, HF'. cbn [app] in HF, HF'. injection HF as <- _. injection HF' as <- _. reflexivity. }
      subst c0'. rewrite A1 in A2. injection A2 as <- <- <- <-.
      exact (IH _ _ _ _ _ Hr' Hh He).
Qed.

Theorem after_end_lex its0 p t ls ln lsA lnA hA accA lsB lnB hB accB :
  forallb litem_ok its0 = true -> forallb is_layout its0 = true ->
  lex_pre (print_items its0 ++ print_cprog p ++ zs "End" ++ t) = false -> lex_pre (print_items its0 ++ print_cprog p ++ zs "End") = false ->
  (forall f, runs f ls (ln + items_lines its0) false ([TLineNo ln] ++ items_toks ln its0) p (zs "End" ++ t) lsA lnA hA accA) ->
  (forall f, runs f ls (ln + items_lines its0) false ([TLineNo ln] ++ items_toks ln its0) p (zs "End") lsB lnB hB accB) ->
  lex ls (print_items its0 ++ print_cprog p ++ zs "End" ++ t) ln = Ok (accA, lsA) /\
  lex ls (print_items its0 ++ print_cprog p ++ zs "End") ln = Ok (accA, lsA).
Proof.
  intros H0 L0 N1 N2 RA RB.
  destruct (runs_det _ _ _ _ _ _ _ _ _ _ _ (RA O) _ _ _ _ _ (RB O)) as (-> & -> & -> & ->).
  { intros _ _. reflexivity. } { split; intros E; [|]; discriminate E. }
  assert (G : forall r, lex_pre (print_items its0 ++ print_cprog p ++ zs "End" ++ r) = false ->
            (forall f, runs f ls (ln + items_lines its0) false ([TLineNo ln] ++ items_toks ln its0) p (zs "End" ++ r) lsB lnB hB accB) ->
            lex ls (print_items its0 ++ print_cprog p ++ zs "End" ++ r) ln = Ok (accB, lsB)).
  { intros r NF HR. rewrite (lex_unfold_plain _ _ _ NF).
    set (src := print_items its0 ++ print_cprog p ++ zs "End" ++ r) in *.
    pose proof (print_items_length its0) as A.
    pose proof (cfuel_length p (runs_nonempty _ _ _ _ _ _ _ _ _ _ _ (HR O))) as B.
    assert (Ls : length src = (length (print_items its0) + length (print_cprog p) + 3 + length r)%nat).
    { unfold src. rewrite !app_length. change (length (zs "End")) with 3%nat. lia. }
    set (k := (length src - length its0 - cfuel p)%nat).
    assert (E : S (length src) = (length its0 + (cfuel p + S k))%nat) by (unfold k; lia).
    rewrite E. unfold src at 2.
    rewrite (items_run (length src) (cfuel p + S k) its0 ls (print_cprog p ++ zs "End" ++ r) ln false [TLineNo ln] H0).
    rewrite (items_ls_layout its0 ls _ ln L0).
    rewrite (runs_loop _ _ _ _ _ _ _ _ _ _ _ (HR (length src)) (S k)).
    apply (end_step (length src) k lsB 69 (zs "nd" ++ r) lnB hB accB eq_refl). reflexivity. }
  split; [apply G; assumption|]. specialize (G [] ). rewrite !app_nil_r in G. apply G; assumption.
Qed.

(* an example: "c d;End" and the same followed by text that would otherwise be read as commands, a bracket, a function *)
Definition end_prog : cprog := [(zs "c ", []); (zs "d", [LSep 59])].
Definition end_tail : list Z := zs " [ x { FUNCTION F(){ } TR(".
Example end_example : exists acc ls',
  lex ls00 (print_cprog end_prog ++ zs "End" ++ end_tail) 0 = Ok (acc, ls') /\
  lex ls00 (print_cprog end_prog ++ zs "End") 0 = Ok (acc, ls') /\ length acc = 3%nat.
Proof.
  assert (RA : exists lsA lnA hA accA, forall f, runs f ls00 (0 + items_lines []) false ([TLineNo 0] ++ items_toks 0 []) end_prog (zs "End" ++ end_tail) lsA lnA hA accA).
  { do 4 eexists. intros f. unfold end_prog. runs_tac. }
  assert (RB : exists lsB lnB hB accB, forall f, runs f ls00 (0 + items_lines []) false ([TLineNo 0] ++ items_toks 0 []) end_prog (zs "End") lsB lnB hB accB).
  { do 4 eexists. intros f. unfold end_prog. runs_tac. }
  destruct RA as (lsA & lnA & hA & accA & RA). destruct RB as (lsB & lnB & hB & accB & RB).
  destruct (after_end_lex [] end_prog end_tail ls00 0 lsA lnA hA accA lsB lnB hB accB eq_refl eq_refl
              ltac:(vm_compute; reflexivity) ltac:(vm_compute; reflexivity) RA RB) as [E1 E2].
  exists accA, lsA. cbn [print_items app] in E1, E2. split; [exact E1|]. split; [exact E2|].
  assert (E : lex ls00 (print_cprog end_prog ++ zs "End") 0 = Ok ([TLineNo 0; TNote 0 0 0 [] 0 (-1) ISIZE_MIN (-1) 0; TNote 2 0 0 [] 0 (-1) ISIZE_MIN (-1) 0], ls00))
    by (vm_compute; reflexivity).
  rewrite E in E2. injection E2 as <- _. reflexivity.
Qed.
