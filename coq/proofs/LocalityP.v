(* C18 - locality: a reader (and one whole iteration of the lexer loop) that stops AT the character that follows a command has
   not looked beyond it.  For a text e whose reading stops at a rest that still ends with the stop character c0, reading e ++ t
   gives the same value and the rest with t appended, whatever t is.  Side conditions, all computable on the command text:
     nolf     the command text holds no line break (a line break inside a length looks ahead for '^');
     psafe    no suffix of (command text ++ [c0]) is a proper prefix of one of the multi-character patterns the readers test
              ("++" "--" "/*" "//" "*/" "0x" "0o" "Add" "2Add" ".onTime" ".T" ".s(" "End" "END" "##" "# " "#-" "///" "/**"):
              such a test would look beyond the end of the text;
     sep_ok   when c0 is a line break, no '^' follows it (after blanks, line breaks and comments): the documented continuation;
     no log   the iteration writes nothing to the log (an error entry quotes the text that follows).
   Proof method: the left run (on e) is taken apart with the tactics of TermP.v, which also give the suffix chain of all
   intermediate texts; the right run (on e ++ t) is then rewritten step by step with the locality lemmas of the sub-readers
   (class Loc) - so a new reader needs one lemma of three lines.  ARMG is a generated copy of one iteration of the loop
   (tools/regen_armg.py, from the LOOPG copy of LayoutP.v: run it after tools/regen_loopg.py when the model changes);
   LOOPG_arm proves that the loop is this iteration followed by the loop. *)
From Coq Require Import String Ascii.
From Sakura.Model Require Import Base Cursor Length Event Song Token LexCore.
From Sakura.Gen Require Import Consts SysFuncRows Messages VarRows.
From Sakura.Proofs Require Import LayoutP TermP.
From Coq Require Import Lia.
Open Scope list_scope.
Open Scope Z_scope.

Lemma suffix_app_r a b t : suffix a b -> suffix (a ++ t) (b ++ t).
Proof. intros [p ->]. exists p. rewrite app_assoc. reflexivity. Qed.
Lemma suffix_nonempty u s : u <> [] -> suffix u s -> s <> [].
Proof. intros Hu [p ->] E. apply app_eq_nil in E. destruct E as [_ E]. exact (Hu E). Qed.

(* a command that leaves the log as it was would have left it so with any other text of the entry *)
Lemma lx_add_log_same ls m m' : lx_logs (lx_add_log ls m) = lx_logs ls -> lx_add_log ls m' = lx_add_log ls m.
Proof.
  unfold lx_add_log. destruct (SAKURA_MAX_LOGS <=? zlen (lx_logs ls)); [reflexivity|]. cbn [lx_logs]. intros H.
  apply (f_equal (@length _)) in H. rewrite app_length in H. cbn [length] in H. lia.
Qed.

(* after a digit get_int has consumed something *)
Lemma take_dec_numeric_lt s acc : is_numeric s = true -> (length (snd (take_dec acc s)) < length s)%nat.
Proof.
  destruct s as [|c r]; [discriminate|]. cbn [is_numeric take_dec]. intros ->.
  pose proof (take_dec_sfx r (sat (acc * 10 + (c - 48)))) as S. unfold sf2 in S. apply suffix_length in S. cbn [length]. lia.
Qed.
Lemma prefixb2_skipn_lt a b s : prefixb [a; b] s = true -> (length (skipn 2 s) < length s)%nat.
Proof. destruct s as [|x [|y r]]; cbn [prefixb]; intros H; try discriminate; [rewrite andb_false_r in H; discriminate|]. cbn [skipn length]. lia. Qed.
Lemma numeric_not c s : is_numeric s = true -> (c <? 48) || (57 <? c) = true -> eq_char s c = false.
Proof. destruct s as [|x r]; [reflexivity|]. cbn [is_numeric eq_char]. unfold is_digit. lia. Qed.
Lemma get_int_numeric_lt d s : is_numeric s = true -> (length (snd (get_int d s)) < length s)%nat.
Proof.
  intros N. pose proof (numeric_not 45 s N eq_refl) as N1. pose proof (numeric_not 36 s N eq_refl) as N2.
  remember (get_int d s) as X eqn:H. symmetry in H. unfold get_int, get_hex in H. unfold c_MINUS, c_DOLLAR in *.
  rewrite N1 in H. cbv beta iota in H. rewrite N2, ?orb_false_r in H. cbv beta iota in H. rewrite ?N1, ?N2 in H. cbv beta iota in H.
  repeat brk H. all: subst X; cbn [snd].
  all: repeat match goal with E : prefixb [_; _] ?x = true |- _ => apply prefixb2_skipn_lt in E end.
  all: try (match goal with E : take_dec 0 ?s0 = _, N0 : is_numeric ?s0 = true |- _ =>
              let Q := fresh "Q" in pose proof (take_dec_numeric_lt s0 0 N0) as Q; rewrite E in Q; cbn [snd] in Q end).
  all: len_facts; try lia.
  all: try (match goal with N0 : is_numeric ?s0 = true, E : negb (is_numeric ?s0) = true |- _ => rewrite N0 in E; discriminate E end).
Qed.
Lemma note_key_tl_lt s k : note_key_index (peek0 s) = Some k -> (length (tl s) < length s)%nat.
Proof. destruct s as [|c r]; [discriminate|]. intros _. cbn [tl length]. lia. Qed.

Lemma lex_error_same ls s s' ln m : lx_logs (lex_error ls s ln m) = lx_logs ls -> lex_error ls s' ln m = lex_error ls s ln m.
Proof.
  unfold lex_error. destruct (zlen (lx_logs ls) =? LEX_MAX_ERROR); [reflexivity|].
  destruct (zlen (lx_logs ls) <? LEX_MAX_ERROR); [|reflexivity]. apply lx_add_log_same.
Qed.

(* the suffix property of the fuel-driven readers for ANY fuel (an exhausted fuel is not an answer) *)
Definition wk3 {A} (s : list Z) (r : res (A * list Z * Z)) : Prop :=
  match r with Ok x => suffix (snd (fst x)) s | _ => True end.
Ltac wk_end H :=
  try harvest H; subst; cbv beta iota delta [wk3 ok3 fst snd] in *; try exact I;
  repeat match goal with |- match ?x with _ => _ end => destruct x end; try exact I; try contradiction; try sfx.
Lemma read_arg_value_wk tb : forall fuel s ln, wk3 s (read_arg_value fuel tb s ln).
Proof.
  induction fuel as [|f IH]; intros s ln; [exact I|].
  assert (IHS : forall s ln, Spec (read_arg_value f tb s ln) (wk3 s (read_arg_value f tb s ln))) by exact IH.
  rd_start. cbn [read_arg_value] in H. repeat brk H. all: wk_end H.
Qed.
Global Instance read_arg_value_wk_spec tb fuel s ln : Spec (read_arg_value fuel tb s ln) (wk3 s (read_arg_value fuel tb s ln)) | 9
  := read_arg_value_wk tb fuel s ln.

Lemma read_args_loop_wk tb : forall fuel s ln, wk3 s (read_args_loop fuel tb s ln).
Proof.
  induction fuel as [|f IH]; intros s ln; [exact I|].
  assert (IHS : forall s ln, Spec (read_args_loop f tb s ln) (wk3 s (read_args_loop f tb s ln))) by exact IH.
  rd_start. cbn [read_args_loop] in H. repeat brk H. all: wk_end H.
Qed.
Global Instance read_args_loop_wk_spec tb fuel s ln : Spec (read_args_loop fuel tb s ln) (wk3 s (read_args_loop fuel tb s ln)) | 9
  := read_args_loop_wk tb fuel s ln.
Lemma read_int_array_loop_wk tb : forall fuel s ln, wk3 s (read_int_array_loop fuel tb s ln).
Proof.
  induction fuel as [|f IH]; intros s ln; [exact I|].
  assert (IHS : forall s ln, Spec (read_int_array_loop f tb s ln) (wk3 s (read_int_array_loop f tb s ln))) by exact IH.
  rd_start. cbn [read_int_array_loop] in H. repeat brk H. all: wk_end H.
Qed.
Global Instance read_int_array_loop_wk_spec tb fuel s ln :
  Spec (read_int_array_loop fuel tb s ln) (wk3 s (read_int_array_loop fuel tb s ln)) | 9 := read_int_array_loop_wk tb fuel s ln.

Lemma read_macro_args_loop_wk tb : forall fuel s ln, wk3 s (read_macro_args_loop fuel tb s ln).
Proof.
  induction fuel as [|f IH]; intros s ln; [exact I|].
  assert (IHS : forall s ln, Spec (read_macro_args_loop f tb s ln) (wk3 s (read_macro_args_loop f tb s ln))) by exact IH.
  rd_start. cbn [read_macro_args_loop] in H. repeat brk H. all: wk_end H.
Qed.
Global Instance read_macro_args_loop_wk_spec tb fuel s ln :
  Spec (read_macro_args_loop fuel tb s ln) (wk3 s (read_macro_args_loop fuel tb s ln)) | 9 := read_macro_args_loop_wk tb fuel s ln.

Lemma read_sysex_loop_wk hex : forall fuel s ln flag, wk3 s (read_sysex_loop fuel hex s ln flag).
Proof.
  induction fuel as [|f IH]; intros s ln flag; [exact I|].
  assert (IHS : forall s ln flag, Spec (read_sysex_loop f hex s ln flag) (wk3 s (read_sysex_loop f hex s ln flag))) by exact IH.
  rd_start. cbn [read_sysex_loop] in H. repeat brk H. all: wk_end H.
Qed.
Global Instance read_sysex_loop_wk_spec hex fuel s ln flag :
  Spec (read_sysex_loop fuel hex s ln flag) (wk3 s (read_sysex_loop fuel hex s ln flag)) | 9 := read_sysex_loop_wk hex fuel s ln flag.

(* ------------------------------------------------------------------------------------------ *)
(* one iteration of the loop of lex_f, with its continuation made explicit                      *)
(* ------------------------------------------------------------------------------------------ *)
Section Arm.
Variable sublex : lexstate -> list ch -> Z -> res lex_out.
Variable R : Type.
Variable ret : res lex_out -> R.
Variable k : lexstate -> list ch -> Z -> bool -> list tok -> R.
Definition bindR {A} (r : res A) (f : A -> R) : R :=
  match r with Ok a => f a | Panic s => ret (Panic s) | OutOfFuel => ret OutOfFuel | Unsupported w => ret (Unsupported w) end.
Local Notation "'do' x <- r ; kk" := (bindR r (fun x => kk)) (at level 200, x pattern, r at level 100, kk at level 200).
Definition ARMG (ls : lexstate) (s : list ch) (ln : Z) (harmony : bool) (acc : list tok) : R :=
(* ---- BEGIN generated copy of one iteration (tools/regen_armg.py, from the LOOPG copy of LayoutP.v) ---- *)
         match s with
         | [] => ret (Ok (acc, ls))
         | c0 :: r =>
           let c := zen2han c0 in
           let tb := lx_timebase ls in
           let push (x : res (tok * list ch * Z)) : R :=
             do y <- x; let '(t, s', ln') := y in k ls s' ln' harmony (acc ++ [t]) in
           let pusho (x : res (option tok * list ch * Z)) : R :=
             do y <- x; let '(ot, s', ln') := y in
             k ls s' ln' harmony (match ot with Some t => acc ++ [t] | None => acc end) in
           if (c =? 32) || (c =? 9) || (c =? 13) || (c =? 124) || (c =? 59) then k ls r ln harmony acc
           else if c =? 10 then k ls r (ln + 1) harmony (acc ++ [TLineNo (ln + 1)])
           else if (c =? 99) || (c =? 100) || (c =? 101) || (c =? 102) || (c =? 103) || (c =? 97) || (c =? 98) then
             push (Ok (read_note c r ln))
           else if c =? 110 then push (read_note_n tb r ln)
           else if c =? 114 then push (Ok (read_rest r ln))
           else if c =? 108 then pusho (read_length tb r ln)
           else if c =? 111 then pusho (read_octave tb r ln)
           else if ((c =? 113) || (c =? 118)) && negb (prefixb (zs "Add") r || ((c =? 113) && prefixb (zs "2Add") r)) then
             (if c =? 113 then pusho (read_qlen tb r ln) else pusho (read_velocity tb r ln))
           else if c =? 116 then pusho (read_timing tb r ln)
           else if c =? 112 then push (read_pitch_bend 0 tb r ln)
           else if c =? 121 then
             do ra <- read_cc ls false r ln;
             let '(ot, s2, ln2, ls') := ra in
             k ls' s2 ln2 harmony (match ot with Some t => acc ++ [t] | None => acc end)
           else if is_upper c || (c =? 95) || (c =? 113) || (c =? 118) then
             (* cur.prev(): the command is re-read from the ORIGINAL character (vAdd / qAdd / q2Add arrive here too) *)
             (* cur.prev(); cur.replace_char(ch): the command is re-read with the converted character *)
             let s := c :: r in
             if true then
               if prefixb (zs "End") s || prefixb (zs "END") s then ret (Ok (acc, ls))
               else
                 let '(word0, s1) := get_word s in
                 (* System. / PlayFrom. prefixes *)
                 let '(word, s1) :=
                   if list_eqb word0 (zs "System") || list_eqb word0 (zs "SYSTEM") then
                     let s2 := if eq_char s1 46 then tl s1 else s1 in
                     let '(w2, s3) := get_word s2 in
                     (zs "System" ++ (if eq_char s1 46 then [46] else []) ++ w2, s3)
                   else if list_eqb word0 (zs "PlayFrom") && eq_char s1 46 then
                     let '(w2, s3) := get_word (tl s1) in (word0 ++ [46] ++ w2, s3)
                   else (word0, s1) in
                 match sysfunc_lookup word sysfunc_rows None with
                 | None =>
                     do cv <- check_variables ls word s1 ln;
                     let '(ot, s2, ln2, ls') := cv in
                     k ls' s2 ln2 harmony (match ot with Some t => acc ++ [t] | None => acc end)
                 | Some (ttype, (argt, (tag1, tag2))) =>
                   if ((argt =? 73) || (argt =? 65)) &&
                      (list_eqb ttype (zs "Time") || list_eqb ttype (zs "PlayFrom") || list_eqb ttype (zs "TimeSignature")
                       || list_eqb ttype (zs "TieMode")) then
                     let '(s2, ln2) := skip_space s1 ln in
                     let s3 := if eq_char s2 61 then tl s2 else s2 in
                     do ra <- read_args_tokens ls s3 ln2;
                     let '(vs, s4, ln4, ls') := ra in
                     let args := map (fun o => match o with Some v => v | None => 0 end) vs in
                     let t := if list_eqb ttype (zs "Time") then TTime args
                              else if list_eqb ttype (zs "PlayFrom") then TPlayFrom args
                              else if list_eqb ttype (zs "TieMode") then TTieMode args else TTimeSignature args in
                     k ls' s4 ln4 harmony (acc ++ [t])
                   else if (argt =? 73) && (list_eqb ttype (zs "Track") || list_eqb ttype (zs "Channel")
                                       || list_eqb ttype (zs "KeyShift") || list_eqb ttype (zs "TrackKey")
                                       || list_eqb ttype (zs "MeasureShift") || list_eqb ttype (zs "Tempo")
                                       || list_eqb ttype (zs "SongVelocityAdd") || list_eqb ttype (zs "SongQAdd")) then
                     let '(s2, ln2) := skip_space s1 ln in
                     let s3 := if eq_char s2 61 then tl s2 else s2 in
                     do ra <- read_args_tokens ls s3 ln2;
                     let '(vs, s4, ln4, ls') := ra in
                     match vs with
                     | [_] =>
                       let v := last_arg vs in
                       let t := if list_eqb ttype (zs "Track") then TTrack v
                                else if list_eqb ttype (zs "Channel") then TChannel v
                                else if list_eqb ttype (zs "KeyShift") then TKeyShift v
                                else if list_eqb ttype (zs "MeasureShift") then TMeasureShift v
                                else if list_eqb ttype (zs "Tempo") then TTempo v
                                else if list_eqb ttype (zs "SongVelocityAdd") then TVAdd v
                                else if list_eqb ttype (zs "SongQAdd") then TQAdd v else TTrackKey v in
                       k ls' s4 ln4 harmony (acc ++ [t])
                     | _ => ret (Unsupported U_UPPER)
                     end
                   else if (argt =? 95) && list_eqb ttype (zs "TrackSync") then k ls s1 ln harmony (acc ++ [TTrackSync])
                   else if list_eqb ttype (zs "KeyFlag") then push (Ok (read_key_flag s1 ln))
                   else if list_eqb ttype (zs "TimeBase") then
                     (* read_timebase: the time base is set at lex time, clamped to 48..32767; Empty token *)
                     do ra <- read_arg_value (arg_fuel s1) tb s1 ln;
                     let '(v, s2, ln2) := ra in
                     let t0 := aval_to_i v in
                     let t1 := if t0 <=? 48 then 48 else t0 in
                     let t2 := if t1 >? 32767 then 32767 else t1 in
                     k (mkLex t2 (lx_logs ls) (lx_vars ls) (lx_rhythm ls) (lx_ja ls)) s2 ln2 harmony acc
                   else if list_eqb ttype (zs "Rhythm") then
                     let '(s2, ln2) := skip_space s1 ln in
                     let '(block, s3, ln3) := get_token_nest s2 ln2 123 125 in
                     do sub <- sublex ls (rhythm_expand (S (length block)) (lx_rhythm ls) block) ln2;
                     let '(toks, ls') := sub in
                     k ls' s3 ln3 harmony (acc ++ toks)
                   else if list_eqb ttype (zs "Sub") then
                     let '(s2, ln2) := skip_space s1 ln in
                     let '(block, s3, ln3) := get_token_nest s2 ln2 123 125 in
                     do sub <- sublex ls block ln2;      (* the block is lexed from the line it starts on *)
                     let '(toks, ls') := sub in
                     k ls' s3 ln3 harmony (acc ++ [TSub toks])
                   else if list_eqb ttype (zs "Div") then
                     let '(s2, ln2) := skip_space s1 ln in
                     let '(block, s3, ln3) := get_token_nest s2 ln2 123 125 in
                     let '(len, s4, ln4) := get_note_length s3 ln3 in
                     do sub <- sublex ls block ln2;
                     let '(toks, ls') := sub in
                     k ls' s4 ln4 harmony (acc ++ [TDiv (div_count toks) len toks])
                   else
                     do ra <- read_ext_command ls ttype argt tag1 tag2 s1 ln;
                     let '(ot, s2, ln2, ls') := ra in
                     k ls' s2 ln2 harmony (match ot with Some t => acc ++ [t] | None => acc end)
                 end
             else ret (Unsupported U_CHAR)   (* a full-width capital: prev() re-reads the unconverted character *)
           else if c =? 35 then
             let s := c :: r in
             if true then
               if prefixb [35; 35] s || prefixb [35; 32] s || prefixb [35; 45] s then
                 let '(_, s1, ln1) := get_token_ch c_NL s ln in k ls s1 ln1 harmony acc
               else
                 let '(word, s1) := get_word s in
                 do cv <- check_variables ls word s1 ln;
                 let '(ot, s2, ln2, ls') := cv in
                 k ls' s2 ln2 harmony (match ot with Some t => acc ++ [t] | None => acc end)
             else ret (Unsupported U_CHAR)
           else if c =? 64 then
             do ra <- read_args_tokens ls r ln;
             let '(vs, s1, ln1, ls') := ra in
             k ls' s1 ln1 harmony (acc ++ [TVoice (map (fun o => match o with Some v => v | None => 0 end) vs)])
           else if c =? 62 then k ls r ln harmony (acc ++ [TOctaveRel 1])
           else if c =? 60 then k ls r ln harmony (acc ++ [TOctaveRel (-1)])
           else if c =? 41 then k ls r ln harmony (acc ++ [TVelocityRel 1])
           else if c =? 40 then k ls r ln harmony (acc ++ [TVelocityRel (-1)])
           else if c =? 47 then
             let s := c :: r in
             if true then
               if prefixb [47; 47; 47] s then
                 let '(_, s1, ln1) := get_token_ch c_NL s ln in k ls s1 ln1 harmony (acc ++ [TComment])
               else if prefixb [47; 47] s then
                 let '(_, s1, ln1) := get_token_ch c_NL s ln in k ls s1 ln1 harmony acc
               else if prefixb [47; 42; 42] s then
                 let '(_, s1, ln1) := get_token_s [42; 47] s ln in k ls s1 ln1 harmony (acc ++ [TComment])
               else if prefixb [47; 42] s then
                 let '(_, s1, ln1) := get_token_s [42; 47] s ln in k ls s1 ln1 harmony acc
               else
                 k (lex_error ls r ln (zs "Could not parse flag '" ++ [c] ++ zs "'")) r ln harmony acc
             else ret (Unsupported U_CHAR)
           else if c =? 91 then push (read_loop tb r ln)
           else if c =? 58 then k ls r ln harmony (acc ++ [TLoopBreak])
           else if c =? 93 then k ls r ln harmony (acc ++ [TLoopEnd])
           else if c =? 39 then
             if harmony then
               let '(t, s1, ln1) := read_harmony_end r ln in k ls s1 ln1 false (acc ++ [t])
             else k ls r ln true (acc ++ [THarmonyBegin])
           else if c =? 36 then
             (* read_def_rhythm_macro: $x{...} *)
             match r with
             | [] => k (lx_add_log ls (zs "[ERROR](" ++ show_int ln ++ zs ") could not define Rhythm macro '" ++ [0] ++ zs "' ")) r ln harmony acc
             | mc :: r1 =>
                 let '(s2, ln2) := skip_space r1 ln in
                 let s3 := if eq_char s2 61 then tl s2 else s2 in
                 let '(s4, ln4) := skip_space s3 ln2 in
                 let '(body, s5, ln5) := get_token_nest s4 ln4 123 125 in
                 if (64 <=? mc) && (mc <=? 127) then
                   k (mkLex (lx_timebase ls) (lx_logs ls) (lx_vars ls) ((mc, body) :: lx_rhythm ls) (lx_ja ls)) s5 ln5 harmony acc
                 else
                   k (lx_add_log ls (zs "[ERROR](" ++ show_int ln5 ++ zs ") could not define Rhythm macro '" ++ [mc] ++ zs "' ")) s5 ln5 harmony acc
             end
           else if c =? 123 then
             let s := c :: r in
             if true then
               let '(block, s3, ln3) := get_token_nest s ln 123 125 in
               let '(len, s4, ln4) := get_note_length s3 ln3 in
               do sub <- sublex ls block ln;
               let '(toks, ls') := sub in
               k ls' s4 ln4 harmony (acc ++ [TDiv (div_count toks) len toks])
             else ret (Unsupported U_CHAR)
           else if c =? 96 then k ls r ln harmony (acc ++ [TOctaveOnce 1])
           else if c =? 34 then k ls r ln harmony (acc ++ [TOctaveOnce (-1)])
           else if c =? 63 then k ls r ln harmony (acc ++ [TPlayFromHere])
           else if c =? 38 then k ls r ln harmony acc       (* read_tie_error: an Empty token *)
           else k (lex_error ls r ln [c]) r ln harmony acc
         end
(* ---- END generated copy ---- *)
         .
End Arm.

(* the loop is this iteration followed by the loop *)
Lemma LOOPG_ARMG sublex n ls s ln h acc :
  LOOPG sublex (S n) ls s ln h acc = ARMG sublex (res lex_out) (fun x => x) (LOOPG sublex n) ls s ln h acc.
Proof. cbn [LOOPG]. unfold ARMG, bindR. Timeout 120 reflexivity. Qed.

(* the iteration on its own: it ends the lexer with an answer, or hands the loop a new configuration *)
Inductive astep := Done (r : res lex_out) | Next (ls : lexstate) (s : list ch) (ln : Z) (h : bool) (acc : list tok).
Definition arm (sublex : lexstate -> list ch -> Z -> res lex_out) := ARMG sublex astep Done Next.
Definition after {R} (ret : res lex_out -> R) (k : lexstate -> list ch -> Z -> bool -> list tok -> R) (a : astep) : R :=
  match a with Done r => ret r | Next ls s ln h acc => k ls s ln h acc end.
Ltac gbrk :=
  cbv beta iota zeta delta [bindR after];
  lazymatch goal with
  | |- ?L = _ => let x := head_scrut L in tryif constr_eq x L then fail else destruct x
  end.
Lemma ARMG_arm sublex R ret k ls s ln h acc :
  ARMG sublex R ret k ls s ln h acc = after ret k (arm sublex ls s ln h acc).
Proof. unfold arm, ARMG. repeat gbrk. all: reflexivity. Qed.
Theorem LOOPG_arm sublex n ls s ln h acc :
  LOOPG sublex (S n) ls s ln h acc = after (fun x => x) (LOOPG sublex n) (arm sublex ls s ln h acc).
Proof. rewrite LOOPG_ARMG. apply ARMG_arm. Qed.

(* the multi-character patterns the readers and the loop test with prefixb *)
Definition PATS : list (list Z) :=
  [[43; 43]; [45; 45]; zs "Add"; zs "2Add"; zs ".onTime"; zs ".T"; [47; 42]; [47; 47]; [48; 120]; [48; 111]; [42; 47]; zs ".s(";
   zs "End"; zs "END"; [35; 35]; [35; 32]; [35; 45]; [47; 47; 47]; [47; 42; 42];
   (* `l` gives the dot and the word after it back when the word is no reservation (read_length): the test of these words looks ahead *)
   zs ".Random"; zs ".onNote"; zs ".N"; zs ".onCycle"; zs ".C"].
(* e is a proper prefix of p: a test of p on e would look beyond the end of e *)
Definition pprefix (e p : list Z) : bool := (length e <? length p)%nat && prefixb e p.
Fixpoint tails (s : list Z) : list (list Z) := match s with [] => [] | c :: r => s :: tails r end.
(* no test of a pattern anywhere in the text s looks beyond its end *)
Definition psafeb (s : list Z) : bool := forallb (fun e => forallb (fun p => negb (pprefix e p)) PATS) (tails s).
Definition psafe (s : list Z) : Prop := forall e, e <> [] -> suffix e s -> forall p, In p PATS -> pprefix e p = false.
Lemma suffix_tails e : e <> [] -> forall s, suffix e s -> In e (tails s).
Proof.
  intros Ne. induction s as [|c r IH]; intros [q Hq].
  - symmetry in Hq. apply app_eq_nil in Hq. destruct Hq as [_ Hq]. contradiction.
  - destruct q as [|d q]; [cbn [app] in Hq; subst e; left; reflexivity|].
    cbn [app] in Hq. injection Hq as _ ->. right. apply IH. exists q. reflexivity.
Qed.
Lemma psafeb_psafe s : psafeb s = true -> psafe s.
Proof.
  intros H e Ne He p Hp. unfold psafeb in H. rewrite forallb_forall in H. specialize (H e (suffix_tails e Ne s He)).
  rewrite forallb_forall in H. specialize (H p Hp). apply negb_true_iff in H. exact H.
Qed.
Lemma psafe_suffix s e : psafe s -> suffix e s -> psafe e.
Proof. intros H S e' Ne He'. apply H; [exact Ne|]. exact (suffix_trans _ _ _ He' S). Qed.
(* unless e is a proper prefix of p, the test of p sees the same in e and in e ++ t *)
Lemma prefixb_app_or p : forall e t, prefixb p (e ++ t) = prefixb p e \/ pprefix e p = true.
Proof.
  induction p as [|x p IH]; intros e t; [left; reflexivity|].
  destruct e as [|d r].
  - right. reflexivity.
  - cbn [app prefixb]. destruct (x =? d) eqn:E; [|left; reflexivity]. cbn [andb].
    destruct (IH r t) as [H|H]; [left; exact H|right].
    unfold pprefix in *. cbn [length prefixb]. apply andb_true_iff in H. destruct H as [H1 H2].
    apply Nat.ltb_lt in H1. apply andb_true_iff. split; [apply Nat.ltb_lt; lia|].
    rewrite Z.eqb_sym, E. exact H2.
Qed.

Section Loc.
Variable c0 : Z.
Variable t : list Z.
Notation u := [c0].
(* c0 occurs in none of the patterns *)
Hypothesis Hlf : c0 = 10 -> forall ln, eq_char (fst (skip_space_ret t ln)) 94 = false.

(* the part in front of the stop text holds no line break *)
Definition nolf (a : list Z) : bool := forallb (fun c => negb (c =? 10)) a.
Definition pre (s : list Z) : Prop := (exists a, s = a ++ u /\ nolf a = true) /\ psafe s.

Lemma sfx_u_split s : suffix u s -> exists a, s = a ++ u.
Proof. intros [p ->]. exists p. reflexivity. Qed.
Lemma pre_suffix s e : pre s -> suffix e s -> suffix u e -> pre e.
Proof.
  intros [[a [-> Ha]] Hs] S [q ->]. split; [|exact (psafe_suffix _ _ Hs S)]. exists q. split; [reflexivity|].
  destruct S as [p Hp]. rewrite app_assoc in Hp. apply app_inv_tail in Hp. subst a. unfold nolf in *. rewrite forallb_app in Ha.
  apply andb_true_iff in Ha. tauto.
Qed.
Lemma pre_sfx e : pre e -> suffix u e.
Proof. intros [[a [-> _]] _]. exists a. reflexivity. Qed.

(* ---- texts: e ++ t behaves like e as long as e still ends with u ---- *)
Lemma tl_app_t e : suffix u (tl e) -> tl (e ++ t) = tl e ++ t.
Proof. destruct e as [|c r]; [intros [p Hp]; destruct p; discriminate|reflexivity]. Qed.
Lemma skipn_app_t k e : suffix u (skipn k e) -> skipn k (e ++ t) = skipn k e ++ t.
Proof.
  revert e. induction k as [|k IH]; intros e H; [reflexivity|].
  destruct e as [|c r]; [cbn [skipn] in H; destruct H as [p Hp]; destruct p; discriminate|]. cbn [skipn app]. apply IH, H.
Qed.
Lemma eq_char_app_t e c : suffix u e -> eq_char (e ++ t) c = eq_char e c.
Proof. destruct e as [|d r]; [intros [p Hp]; destruct p; discriminate|reflexivity]. Qed.
Lemma peek0_app_t e : suffix u e -> peek0 (e ++ t) = peek0 e.
Proof. destruct e as [|d r]; [intros [p Hp]; destruct p; discriminate|reflexivity]. Qed.
Lemma is_numeric_app_t e : suffix u e -> is_numeric (e ++ t) = is_numeric e.
Proof. destruct e as [|d r]; [intros [p Hp]; destruct p; discriminate|reflexivity]. Qed.
Lemma nil_app_t e : suffix u e -> match e ++ t with [] => true | _ => false end = match e with [] => true | _ => false end.
Proof. destruct e as [|d r]; [intros [p Hp]; destruct p; discriminate|reflexivity]. Qed.

(* a pattern of the list sees the same in e and in e ++ t *)
Lemma prefixb_app_t p : In p PATS -> forall e, pre e -> prefixb p (e ++ t) = prefixb p e.
Proof.
  intros Hp e [[a [E _]] Hs]. destruct (prefixb_app_or p e t) as [H|H]; [exact H|].
  rewrite (Hs e ltac:(subst e; destruct a; discriminate) (suffix_refl e) p Hp) in H. discriminate H.
Qed.
Ltac in_pats := unfold PATS, c_0, c_x, c_o, c_SLASH, c_STAR; repeat (first [left; reflexivity | right]).
(* ---- what a reader's answer becomes when t is appended to the text ---- *)
Definition ext2 {A} (x : A * list Z) : A * list Z := (fst x, snd x ++ t).
Definition ext3 {A} (x : A * list Z * Z) : A * list Z * Z := (fst (fst x), snd (fst x) ++ t, snd x).
Definition exts (x : list Z * Z) : list Z * Z := (fst x ++ t, snd x).
Definition ext4 {A} (x : A * list Z * Z * lexstate) : A * list Z * Z * lexstate :=
  (fst (fst (fst x)), snd (fst (fst x)) ++ t, snd (fst x), snd x).
Definition extr3 {A} (r : res (A * list Z * Z)) : res (A * list Z * Z) :=
  match r with Ok x => Ok (ext3 x) | Panic s => Panic s | OutOfFuel => OutOfFuel | Unsupported w => Unsupported w end.
Definition extr4 {A} (r : res (A * list Z * Z * lexstate)) : res (A * list Z * Z * lexstate) :=
  match r with Ok x => Ok (ext4 x) | Panic s => Panic s | OutOfFuel => OutOfFuel | Unsupported w => Unsupported w end.
(* the answer still ends with u (the reader has not eaten into the stop text) *)
Definition k2 {A} (x : A * list Z) : Prop := suffix u (snd x).
Definition k3 {A} (x : A * list Z * Z) : Prop := suffix u (snd (fst x)).
Definition ks (x : list Z * Z) : Prop := suffix u (fst x).
Definition kr3 {A} (r : res (A * list Z * Z)) : Prop := match r with Ok x => suffix u (snd (fst x)) | _ => False end.
Definition kr4 {A} (r : res (A * list Z * Z * lexstate)) : Prop := match r with Ok x => suffix u (snd (fst (fst x))) | _ => False end.
(* ... and the command has written nothing to the log (an error entry quotes the text that follows) *)
Definition kr4n {A} (ls : lexstate) (r : res (A * list Z * Z * lexstate)) : Prop :=
  match r with Ok x => suffix u (snd (fst (fst x))) /\ lx_logs (snd x) = lx_logs ls | _ => False end.

(* x on the text e, x' on e ++ t *)
Class Loc {A : Type} (x x' : A) (C : A -> Prop) (E : A -> A) : Prop := loc_pf : forall X, x = X -> C X -> x' = E X.

(* ---- the driver ---- *)
(* TermP.brk, but a test that stands inside an argument of the head scrutinee is decided first (innermost first) *)
Ltac lbrk H :=
  cbv beta iota zeta delta [bind] in H;
  lazymatch type of H with
  | ?L = _ =>
      let x := head_scrut L in
      tryif constr_eq x L then fail
      else first
        [ match x with
          | context [if ?b then _ else _] =>
              lazymatch type of b with bool => idtac | _ => fail end;
              lazymatch b with
              | context [if _ then _ else _] => fail
              | _ => let E := fresh "E" in destruct b eqn:E
              end
          end
        | tryif is_var x then destruct x else (let E := fresh "E" in destruct x eqn:E; harvest E) ]
  end.
Ltac more_len_facts :=
  repeat match goal with
         | E : get_int ?d ?s = (_, ?r), N : is_numeric ?s = true |- _ =>
             lazymatch goal with
             | _ : (length r < length s)%nat |- _ => fail
             | _ => let Q := fresh "Q" in pose proof (get_int_numeric_lt d s N) as Q; rewrite E in Q; cbn [snd] in Q
             end
         | E : note_key_index (peek0 ?s) = Some ?k |- _ =>
             lazymatch goal with
             | _ : (length (tl s) < length s)%nat |- _ => fail
             | _ => pose proof (note_key_tl_lt s k E)
             end
         end.
Ltac side_len := more_len_facts; len_facts; cbn [length app] in *; rewrite ?app_length in *; cbn [length] in *; lia.
Ltac side_pre := match goal with P : pre ?s |- pre _ => apply (pre_suffix s); [exact P|sfx|sfx] end.
Ltac side_sfx := first [ assumption | sfx | side_pre | side_len ].
(* bring every text of the goal to the form  e ++ t *)
Ltac norm_step :=
  match goal with
  | |- context [tl (?e ++ t)] => rewrite (tl_app_t e) by side_sfx
  | |- context [skipn ?k (?e ++ t)] => rewrite (skipn_app_t k e) by side_sfx
  | |- context [eq_char (?e ++ t) ?c] => rewrite (eq_char_app_t e c) by side_sfx
  | |- context [peek0 (?e ++ t)] => rewrite (peek0_app_t e) by side_sfx
  | |- context [is_numeric (?e ++ t)] => rewrite (is_numeric_app_t e) by side_sfx
  | |- context [match ?e ++ t with [] => true | _ :: _ => false end] => rewrite (nil_app_t e) by side_sfx
  | |- context [prefixb ?p (?e ++ t)] => rewrite (prefixb_app_t p ltac:(in_pats) e) by side_sfx
  | |- context [prefixb ?p (?x :: ?r ++ t)] =>
      change (prefixb p (x :: r ++ t)) with (prefixb p ((x :: r) ++ t));
      rewrite (prefixb_app_t p ltac:(in_pats) (x :: r)) by side_sfx
  end.
Ltac use_bool y :=
  match goal with
  | E : y = _ |- _ => rewrite E
  | E : ?b = true |- context [if ?b then _ else _] => rewrite E
  | E : ?b = false |- context [if ?b then _ else _] => rewrite E
  end.
Ltac use_loc y :=
  match goal with
  | E : ?x = ?X |- _ =>
      let Q := fresh "Q" in
      pose proof (@loc_pf _ x y _ _ _ X E) as Q;
      cbv beta iota delta [k2 k3 ks kr3 kr4 kr4n fst snd] in Q; cbn [app] in Q;
      rewrite Q by (repeat match goal with |- _ /\ _ => split end; side_sfx); clear Q
  end.
Ltac drive_step :=
  cbv beta iota zeta delta [bind ext2 ext3 exts ext4 extr3 extr4 fst snd]; cbn [app];
  lazymatch goal with
  | |- ?L = _ =>
      let y := head_scrut L in
      tryif constr_eq y L then first [ progress (repeat norm_step) | use_bool y | use_loc y ]
      else first [ progress (repeat norm_step) | use_bool y | use_loc y ]
  end.
Lemma sfx_u_nil : suffix u [] -> False.
Proof. intros [p Hp]. destruct p; discriminate. Qed.
Ltac drive := try (exfalso; apply sfx_u_nil; sfx); repeat drive_step; cbv beta iota zeta delta [bind ext2 ext3 exts ext4 extr3 extr4 fst snd]; try reflexivity;
  try solve [unfold read_error_cmd in *;
             match goal with |- Ok (?a, ?b, ?c, ?x) = Ok (?a, ?b, ?c, ?y) => apply (f_equal (fun q => Ok (a, b, c, q))) end;
             apply lx_add_log_same; assumption].

(* ---- source_cursor.rs ---- *)
Lemma take_dec_loc : forall e acc X, take_dec acc e = X -> k2 X -> take_dec acc (e ++ t) = ext2 X.
Proof.
  induction e as [|c r IH]; intros acc X H K; subst X; cbn [take_dec] in *.
  - destruct K as [p Hp]. destruct p; discriminate.
  - cbn [app take_dec]. destruct (is_digit c); [apply IH; [reflexivity|exact K]|reflexivity].
Qed.
Global Instance take_dec_Loc acc e : Loc (take_dec acc e) (take_dec acc (e ++ t)) (fun X => pre e /\ k2 X) ext2 := fun X H K => take_dec_loc e acc X H (proj2 K).
Lemma take_oct_loc : forall e acc X, take_oct acc e = X -> k2 X -> take_oct acc (e ++ t) = ext2 X.
Proof.
  induction e as [|c r IH]; intros acc X H K; subst X; cbn [take_oct] in *.
  - destruct K as [p Hp]. destruct p; discriminate.
  - cbn [app take_oct]. destruct (is_oct_digit c); [apply IH; [reflexivity|exact K]|reflexivity].
Qed.
Global Instance take_oct_Loc acc e : Loc (take_oct acc e) (take_oct acc (e ++ t)) (fun X => pre e /\ k2 X) ext2 := fun X H K => take_oct_loc e acc X H (proj2 K).
Lemma take_hex_loc : forall e acc X, take_hex acc e = X -> k2 X -> take_hex acc (e ++ t) = ext2 X.
Proof.
  induction e as [|c r IH]; intros acc X H K; subst X; cbn [take_hex] in *.
  - destruct K as [p Hp]. destruct p; discriminate.
  - cbn [app take_hex]. destruct (hex_val c); [apply IH; [reflexivity|exact K]|reflexivity].
Qed.
Global Instance take_hex_Loc acc e : Loc (take_hex acc e) (take_hex acc (e ++ t)) (fun X => pre e /\ k2 X) ext2 := fun X H K => take_hex_loc e acc X H (proj2 K).

(* the proof of  F e = X -> pre e -> k X -> F (e ++ t) = ext X  for a reader F that is a composition of readers *)
(* a reader call in tail position is given a name too *)
Ltac tail_call H :=
  cbv beta iota in H;
  lazymatch type of H with
  | ?L = _ =>
      lazymatch L with
      | Ok _ => idtac | Unsupported _ => idtac | OutOfFuel => idtac | Panic _ => idtac | (_, _) => idtac
      | context [if ?b then _ else _] =>
          lazymatch type of b with bool => idtac | _ => fail end;
          let E := fresh "E" in destruct b eqn:E; cbv beta iota in H; tail_call H
      | _ => let E := fresh "E" in destruct L eqn:E; harvest E;
             repeat match type of E with _ = (?p, _) => is_var p; destruct p end;
             repeat match type of E with _ = Ok ?p => is_var p; destruct p end;
             repeat match type of E with _ = Ok (?p, _) => is_var p; destruct p end;
             repeat match type of E with _ = Ok (?p, _, _) => is_var p; destruct p end
      end
  end.
Ltac loc_comp H K :=
  repeat lbrk H; tail_call H; subst; cbv beta iota delta [wk3 fst snd] in *;
  cbv beta iota delta [k2 k3 ks kr3 kr4 kr4n fst snd] in K; try contradiction;
  repeat match type of K with _ /\ _ => let K2 := fresh "KL" in destruct K as [K K2] end;
  repeat match type of K with
         | context [if ?b then _ else _] =>
             lazymatch type of b with bool => idtac | _ => fail end; let E := fresh "E" in destruct b eqn:E
         end; cbv beta iota delta [k2 k3 ks kr3 kr4 fst snd] in K; try contradiction; drive.

Lemma get_hex_loc def flag e X : get_hex def flag e = X -> pre e -> k2 X -> get_hex def flag (e ++ t) = ext2 X.
Proof. intros H P K. unfold get_hex in H |- *. loc_comp H K. Qed.
Global Instance get_hex_Loc def flag e : Loc (get_hex def flag e) (get_hex def flag (e ++ t)) (fun X => pre e /\ k2 X) ext2
  := fun X H K => get_hex_loc def flag e X H (proj1 K) (proj2 K).
Lemma get_int_loc def e X : get_int def e = X -> pre e -> k2 X -> get_int def (e ++ t) = ext2 X.
Proof. intros H P K. unfold get_int in H |- *. loc_comp H K. Qed.
Global Instance get_int_Loc def e : Loc (get_int def e) (get_int def (e ++ t)) (fun X => pre e /\ k2 X) ext2
  := fun X H K => get_int_loc def e X H (proj1 K) (proj2 K).

(* get_token_s: the scan for the splitter *)
Lemma pre_tl c r : pre (c :: r) -> suffix u r -> pre r.
Proof. intros P S. apply (pre_suffix (c :: r)); [exact P|apply suffix_cons, suffix_refl|exact S]. Qed.
Lemma get_token_s_loc sp : In sp PATS ->
  forall e ln X, get_token_s sp e ln = X -> pre e -> k3 X -> get_token_s sp (e ++ t) ln = ext3 X.
Proof.
  intros Hsp. induction e as [|c r IH]; intros ln X H P K; subst X.
  - cbn [get_token_s] in K. destruct K as [p Hp]. destruct p; discriminate.
  - change ((c :: r) ++ t) with (c :: r ++ t). cbn [get_token_s].
    change (c :: r ++ t) with ((c :: r) ++ t). rewrite (prefixb_app_t sp Hsp (c :: r) P).
    destruct (prefixb sp (c :: r)) eqn:E.
    + unfold ext3. cbn [fst snd]. rewrite skipn_app_t; [reflexivity|]. unfold k3 in K. cbn [get_token_s] in K. rewrite E in K. exact K.
    + unfold k3 in K. cbn [get_token_s] in K. rewrite E in K.
      specialize (IH (if c =? c_NL then ln + 1 else ln)).
      destruct (get_token_s sp r (if c =? c_NL then ln + 1 else ln)) as [[t0 r'] l'] eqn:E2. cbn [fst snd] in K.
      assert (Sr : suffix u r).
      { pose proof (get_token_s_sfx sp r (if c =? c_NL then ln + 1 else ln)) as S. unfold sf3 in S. rewrite E2 in S. cbn [fst snd] in S.
        exact (suffix_trans _ _ _ K S). }
      rewrite (IH _ eq_refl (pre_tl c r P Sr) K). reflexivity.
Qed.
Lemma in_pats_close : In [c_STAR; c_SLASH] PATS. Proof. in_pats. Qed.
Lemma in_pats_open : In [c_SLASH; c_STAR] PATS. Proof. in_pats. Qed.
Global Instance get_token_s_Loc e ln :
  Loc (get_token_s [c_STAR; c_SLASH] e ln) (get_token_s [c_STAR; c_SLASH] (e ++ t) ln) (fun X => pre e /\ k3 X) ext3
  := fun X H K => get_token_s_loc [c_STAR; c_SLASH] in_pats_close e ln X H (proj1 K) (proj2 K).
Lemma get_token_ch_loc sp : forall e ln X, get_token_ch sp e ln = X -> k3 X -> get_token_ch sp (e ++ t) ln = ext3 X.
Proof.
  induction e as [|c r IH]; intros ln X H K; subst X.
  - cbn [get_token_ch] in K. destruct K as [p Hp]. destruct p; discriminate.
  - cbn [app get_token_ch] in K |- *. unfold k3 in K. destruct (c =? sp); [reflexivity|].
    destruct (get_token_ch sp r (if c =? c_NL then ln + 1 else ln)) as [[t0 r'] l'] eqn:G. cbn [fst snd] in K.
    rewrite (IH _ _ G K). reflexivity.
Qed.
Global Instance get_token_ch_Loc sp e ln : Loc (get_token_ch sp e ln) (get_token_ch sp (e ++ t) ln) (fun X => pre e /\ k3 X) ext3
  := fun X H K => get_token_ch_loc sp e ln X H (proj2 K).

Lemma sfx_u_nonempty e : suffix u e -> e <> [].
Proof. apply suffix_nonempty. discriminate. Qed.

(* skip_space: any sufficient fuels *)
Lemma skip_space_f_loc : forall f f' e ln X,
  skip_space_f f e ln = X -> pre e -> ks X -> (length e < f)%nat -> (length (e ++ t) < f')%nat ->
  skip_space_f f' (e ++ t) ln = exts X.
Proof.
  induction f as [|f IH]; intros f' e ln X H P K Lf Lf'; [lia|]. destruct f' as [|f']; [lia|].
  subst X. destruct e as [|c r]; [cbn [skip_space_f] in K; destruct K as [p Hp]; destruct p; discriminate|].
  assert (Hrec : forall r' ln', suffix r' r -> pre (c :: r) -> ks (skip_space_f f r' ln') ->
            skip_space_f f' (r' ++ t) ln' = exts (skip_space_f f r' ln')).
  { intros r' ln' S P0 K'.
    assert (Su : suffix u r').
    { pose proof (skip_space_f_sfx f r' ln') as Q. unfold sfs in Q. exact (suffix_trans _ _ _ K' Q). }
    apply (IH f' r' ln' _ eq_refl); [|exact K'| |].
    - apply (pre_suffix (c :: r)); [exact P0|apply suffix_cons, S|exact Su].
    - apply suffix_length in S. cbn [length] in Lf. lia.
    - apply suffix_length in S. cbn [length app] in Lf'. rewrite !app_length in *. lia. }
  change ((c :: r) ++ t) with (c :: r ++ t). unfold ks in K. cbn [skip_space_f] in K |- *.
  destruct ((c =? c_TAB) || (c =? c_SP)); [apply Hrec; [apply suffix_refl|exact P|exact K]|].
  destruct (c =? c_SLASH); [|reflexivity].
  change (c :: r ++ t) with ((c :: r) ++ t).
  destruct (prefixb [c_SLASH; c_STAR] (c :: r)) eqn:E.
  - destruct (get_token_s [c_STAR; c_SLASH] (c :: r) ln) as [[t0 r'] l'] eqn:G.
    pose proof (get_token_s_cons c_STAR [c_SLASH] c r ln) as S. unfold sf3 in S. rewrite G in S. cbn [fst snd] in S.
    assert (Su : suffix u r').
    { pose proof (skip_space_f_sfx f r' l') as Q. unfold sfs in Q. exact (suffix_trans _ _ _ K Q). }
    assert (Se : suffix u (c :: r)) by exact (suffix_cons _ _ _ (suffix_trans _ _ _ Su S)).
    rewrite (prefixb_app_t [c_SLASH; c_STAR] in_pats_open (c :: r) P), E.
    rewrite (get_token_s_loc [c_STAR; c_SLASH] in_pats_close (c :: r) ln _ G P Su).
    unfold ext3. cbn [fst snd]. apply Hrec; [exact S|exact P|exact K].
  - rewrite (prefixb_app_t [c_SLASH; c_STAR] in_pats_open (c :: r) P), E. reflexivity.
Qed.
Lemma skip_space_loc e ln X : skip_space e ln = X -> pre e -> ks X -> skip_space (e ++ t) ln = exts X.
Proof. intros H P K. unfold skip_space in *. apply (skip_space_f_loc _ _ e ln X H P K); lia. Qed.
Global Instance skip_space_Loc e ln : Loc (skip_space e ln) (skip_space (e ++ t) ln) (fun X => pre e /\ ks X) exts
  := fun X H K => skip_space_loc e ln X H (proj1 K) (proj2 K).

(* get_note_length: any sufficient fuels; a line break can only be the stop character itself *)
Lemma pre_lf r : pre (10 :: r) -> c0 = 10 /\ r = [].
Proof.
  intros [[a [E Ha]] _]. destruct a as [|d a].
  - cbn [app] in E. injection E as <- <-. split; reflexivity.
  - cbn [app] in E. injection E as <- _. cbn [nolf forallb] in Ha. discriminate Ha.
Qed.
Lemma get_note_length_f_loc : forall f f' e ln X,
  get_note_length_f f e ln = X -> pre e -> k3 X -> (length e < f)%nat -> (length (e ++ t) < f')%nat ->
  get_note_length_f f' (e ++ t) ln = ext3 X.
Proof.
  induction f as [|f IH]; intros f' e ln X H P K Lf Lf'; [lia|]. destruct f' as [|f']; [lia|].
  subst X. destruct e as [|c r]; [cbn [get_note_length_f] in K; destruct K as [p Hp]; destruct p; discriminate|].
  assert (Hrec : forall ln', k3 (get_note_length_f f r ln') ->
            get_note_length_f f' (r ++ t) ln' = ext3 (get_note_length_f f r ln')).
  { intros ln' K'.
    assert (Su : suffix u r).
    { pose proof (get_note_length_f_sfx f r ln') as Q. unfold sf3 in Q. exact (suffix_trans _ _ _ K' Q). }
    apply (IH f' r ln' _ eq_refl); [apply (pre_tl c r P Su)|exact K'| |].
    - cbn [length] in Lf. lia.
    - cbn [length app] in Lf'. lia. }
  change ((c :: r) ++ t) with (c :: r ++ t). unfold k3 in K. cbn [get_note_length_f] in K |- *.
  destruct (is_len_char c).
  - destruct (get_note_length_f f r ln) as [[t1 r'] ln'] eqn:G. cbn [fst snd] in K.
    rewrite Hrec by (rewrite G; exact K). rewrite G. reflexivity.
  - destruct (is_len_blank c); [apply Hrec; exact K|].
    destruct (c =? c_NL) eqn:E; [|reflexivity].
    apply Z.eqb_eq in E. subst c. destruct (pre_lf r P) as [C R]. subst r. cbn [app].
    change (skip_space_ret [] (ln + 1)) with (([] : list Z), ln + 1) in K |- *. cbn [eq_char] in K |- *.
    pose proof (Hlf C (ln + 1)) as L. destruct (skip_space_ret t (ln + 1)) as [r2 ln2]. cbn [fst] in L. unfold c_HAT. rewrite L. reflexivity.
Qed.
Lemma get_note_length_loc e ln X : get_note_length e ln = X -> pre e -> k3 X -> get_note_length (e ++ t) ln = ext3 X.
Proof. intros H P K. unfold get_note_length in *. apply (get_note_length_f_loc _ _ e ln X H P K); lia. Qed.
Global Instance get_note_length_Loc e ln : Loc (get_note_length e ln) (get_note_length (e ++ t) ln) (fun X => pre e /\ k3 X) ext3
  := fun X H K => get_note_length_loc e ln X H (proj1 K) (proj2 K).

(* ---- lexer.rs: words, accidentals ---- *)
Lemma take_word_loc : forall e X, take_word e = X -> k2 X -> take_word (e ++ t) = ext2 X.
Proof.
  induction e as [|c r IH]; intros X H K; subst X; cbn [take_word] in *.
  - destruct K as [p Hp]. destruct p; discriminate.
  - cbn [app take_word]. destruct (is_word_char c); [|reflexivity].
    destruct (take_word r) as [w r'] eqn:G. unfold k2 in K. cbn [snd] in K. rewrite (IH _ eq_refl K). reflexivity.
Qed.
Global Instance take_word_Loc e : Loc (take_word e) (take_word (e ++ t)) (fun X => pre e /\ k2 X) ext2
  := fun X H K => take_word_loc e X H (proj2 K).
Lemma get_word_not35 c r : c <> 35 -> get_word (c :: r) = take_word (c :: r).
Proof. intros N. unfold get_word. destruct c as [|q|q]; try reflexivity. do 6 (destruct q as [q|q|]; try reflexivity). contradiction. Qed.
Lemma get_word_loc e X : get_word e = X -> pre e -> k2 X -> get_word (e ++ t) = ext2 X.
Proof.
  intros H P K. subst X. destruct e as [|c r]; [destruct K as [p Hp]; destruct p; discriminate|].
  change ((c :: r) ++ t) with (c :: r ++ t).
  destruct (Z.eq_dec c 35) as [->|N].
  - unfold get_word in *. destruct (take_word r) as [w r'] eqn:G. unfold k2 in K. cbn [snd] in K.
    rewrite (take_word_loc r _ G K). reflexivity.
  - rewrite (get_word_not35 c r N) in K |- *. rewrite (get_word_not35 c (r ++ t) N).
    change (c :: r ++ t) with ((c :: r) ++ t). apply (take_word_loc (c :: r) _ eq_refl K).
Qed.
Global Instance get_word_Loc e : Loc (get_word e) (get_word (e ++ t)) (fun X => pre e /\ k2 X) ext2
  := fun X H K => get_word_loc e X H (proj1 K) (proj2 K).
Lemma read_note_flags_loc : forall e flag nat X, read_note_flags e flag nat = X -> k2 X -> read_note_flags (e ++ t) flag nat = ext2 X.
Proof.
  induction e as [|c r IH]; intros flag nat X H K; subst X; cbn [read_note_flags] in *.
  - destruct K as [p Hp]. destruct p; discriminate.
  - cbn [app read_note_flags].
    destruct ((c =? 43) || (c =? 35)); [apply IH; [reflexivity|exact K]|].
    destruct (c =? 45); [apply IH; [reflexivity|exact K]|].
    destruct (c =? 42); [apply IH; [reflexivity|exact K]|]. reflexivity.
Qed.
Global Instance read_note_flags_Loc e flag nat :
  Loc (read_note_flags e flag nat) (read_note_flags (e ++ t) flag nat) (fun X => pre e /\ k2 X) ext2
  := fun X H K => read_note_flags_loc e flag nat X H (proj2 K).

(* ---- the readers that are compositions ---- *)
Lemma read_int_after_comma_loc def sp e ln X :
  read_int_after_comma def sp e ln = X -> pre e -> k3 X -> read_int_after_comma def sp (e ++ t) ln = ext3 X.
Proof. intros H P K. unfold read_int_after_comma in H |- *. loc_comp H K. Qed.
Global Instance read_int_after_comma_Loc def sp e ln :
  Loc (read_int_after_comma def sp e ln) (read_int_after_comma def sp (e ++ t) ln) (fun X => pre e /\ k3 X) ext3
  := fun X H K => read_int_after_comma_loc def sp e ln X H (proj1 K) (proj2 K).
Lemma read_note_loc c e ln X : read_note c e ln = X -> pre e -> k3 X -> read_note c (e ++ t) ln = ext3 X.
Proof. intros H P K. unfold read_note in H |- *. loc_comp H K. Qed.
Global Instance read_note_Loc c e ln : Loc (read_note c e ln) (read_note c (e ++ t) ln) (fun X => pre e /\ k3 X) ext3
  := fun X H K => read_note_loc c e ln X H (proj1 K) (proj2 K).
Lemma read_rest_loc e ln X : read_rest e ln = X -> pre e -> k3 X -> read_rest (e ++ t) ln = ext3 X.
Proof. intros H P K. unfold read_rest in H |- *. loc_comp H K. Qed.
Global Instance read_rest_Loc e ln : Loc (read_rest e ln) (read_rest (e ++ t) ln) (fun X => pre e /\ k3 X) ext3
  := fun X H K => read_rest_loc e ln X H (proj1 K) (proj2 K).

Lemma read_arg_value_loc tb : forall f f' e ln X,
  read_arg_value f tb e ln = X -> pre e -> kr3 X -> (length e < f)%nat -> (length (e ++ t) < f')%nat ->
  read_arg_value f' tb (e ++ t) ln = extr3 X.
Proof.
  induction f as [|f IH]; intros f' e ln X H P K Lf Lf'; [lia|]. destruct f' as [|f']; [lia|].
  assert (IHL : forall e ln, Loc (read_arg_value f tb e ln) (read_arg_value f' tb (e ++ t) ln)
                  (fun X => pre e /\ kr3 X /\ (length e < f)%nat /\ (length (e ++ t) < f')%nat) extr3).
  { intros e1 ln1 X1 H1 [P1 [K1 [L1 L1']]]. exact (IH f' e1 ln1 X1 H1 P1 K1 L1 L1'). }
  cbn [read_arg_value] in H |- *. loc_comp H K.
Qed.
Global Instance read_arg_value_Loc tb e ln :
  Loc (read_arg_value (arg_fuel e) tb e ln) (read_arg_value (arg_fuel (e ++ t)) tb (e ++ t) ln) (fun X => pre e /\ kr3 X) extr3.
Proof. intros X H [P K]. unfold arg_fuel in *. apply (read_arg_value_loc tb _ _ e ln X H P K); lia. Qed.

Lemma read_note_n_loc tb e ln X : read_note_n tb e ln = X -> pre e -> kr3 X -> read_note_n tb (e ++ t) ln = extr3 X.
Proof. intros H P K. unfold read_note_n in H |- *. loc_comp H K. Qed.
Global Instance read_note_n_Loc tb e ln : Loc (read_note_n tb e ln) (read_note_n tb (e ++ t) ln) (fun X => pre e /\ kr3 X) extr3
  := fun X H K => read_note_n_loc tb e ln X H (proj1 K) (proj2 K).
Lemma read_calc_literal_loc tb e ln X : read_calc_literal tb e ln = X -> pre e -> kr3 X -> read_calc_literal tb (e ++ t) ln = extr3 X.
Proof. intros H P K. unfold read_calc_literal in H |- *. loc_comp H K. Qed.
Global Instance read_calc_literal_Loc tb e ln :
  Loc (read_calc_literal tb e ln) (read_calc_literal tb (e ++ t) ln) (fun X => pre e /\ kr3 X) extr3
  := fun X H K => read_calc_literal_loc tb e ln X H (proj1 K) (proj2 K).

Lemma read_args_loop_loc tb : forall f f' e ln X,
  read_args_loop f tb e ln = X -> pre e -> kr3 X -> (length e < f)%nat -> (length (e ++ t) < f')%nat ->
  read_args_loop f' tb (e ++ t) ln = extr3 X.
Proof.
  induction f as [|f IH]; intros f' e ln X H P K Lf Lf'; [lia|]. destruct f' as [|f']; [lia|].
  assert (IHL : forall e ln, Loc (read_args_loop f tb e ln) (read_args_loop f' tb (e ++ t) ln)
                  (fun X => pre e /\ kr3 X /\ (length e < f)%nat /\ (length (e ++ t) < f')%nat) extr3).
  { intros e1 ln1 X1 H1 [P1 [K1 [L1 L1']]]. exact (IH f' e1 ln1 X1 H1 P1 K1 L1 L1'). }
  cbn [read_args_loop] in H |- *. loc_comp H K.
Qed.
Global Instance read_args_loop_Loc tb e ln :
  Loc (read_args_loop (S (length e)) tb e ln) (read_args_loop (S (length (e ++ t))) tb (e ++ t) ln) (fun X => pre e /\ kr3 X) extr3.
Proof. intros X H [P K]. apply (read_args_loop_loc tb _ _ e ln X H P K); lia. Qed.
Lemma read_args_tokens_loc ls e ln X : read_args_tokens ls e ln = X -> pre e -> kr4 X -> read_args_tokens ls (e ++ t) ln = extr4 X.
Proof. intros H P K. unfold read_args_tokens in H |- *. loc_comp H K. Qed.
Global Instance read_args_tokens_Loc ls e ln :
  Loc (read_args_tokens ls e ln) (read_args_tokens ls (e ++ t) ln) (fun X => pre e /\ kr4 X) extr4
  := fun X H K => read_args_tokens_loc ls e ln X H (proj1 K) (proj2 K).

Lemma read_int_array_loop_loc tb : forall f f' e ln X,
  read_int_array_loop f tb e ln = X -> pre e -> kr3 X -> (length e < f)%nat -> (length (e ++ t) < f')%nat ->
  read_int_array_loop f' tb (e ++ t) ln = extr3 X.
Proof.
  induction f as [|f IH]; intros f' e ln X H P K Lf Lf'; [lia|]. destruct f' as [|f']; [lia|].
  assert (IHL : forall e ln, Loc (read_int_array_loop f tb e ln) (read_int_array_loop f' tb (e ++ t) ln)
                  (fun X => pre e /\ kr3 X /\ (length e < f)%nat /\ (length (e ++ t) < f')%nat) extr3).
  { intros e1 ln1 X1 H1 [P1 [K1 [L1 L1']]]. exact (IH f' e1 ln1 X1 H1 P1 K1 L1 L1'). }
  cbn [read_int_array_loop] in H |- *. loc_comp H K.
Qed.
(* as called by read_arg_int_array: fuel from the text before the bracket, on the text after it *)
Global Instance read_int_array_loop_Loc tb e ln :
  Loc (read_int_array_loop (S (length e)) tb (tl e) ln) (read_int_array_loop (S (length (e ++ t))) tb (tl e ++ t) ln)
      (fun X => pre (tl e) /\ kr3 X) extr3.
Proof.
  intros X H [P K]. apply (read_int_array_loop_loc tb _ _ (tl e) ln X H P K).
  - destruct e; cbn [tl length]; lia.
  - rewrite !app_length. destruct e; cbn [tl length]; lia.
Qed.
Lemma read_arg_int_array_loc tb e ln X : read_arg_int_array tb e ln = X -> pre e -> kr3 X -> read_arg_int_array tb (e ++ t) ln = extr3 X.
Proof. intros H P K. unfold read_arg_int_array in H |- *. loc_comp H K. Qed.
Global Instance read_arg_int_array_Loc tb e ln : Loc (read_arg_int_array tb e ln) (read_arg_int_array tb (e ++ t) ln) (fun X => pre e /\ kr3 X) extr3
  := fun X H K => read_arg_int_array_loc tb e ln X H (proj1 K) (proj2 K).
Lemma read_plain_value_loc tb e ln X : read_plain_value tb e ln = X -> pre e -> kr3 X -> read_plain_value tb (e ++ t) ln = extr3 X.
Proof. intros H P K. unfold read_plain_value in H |- *. loc_comp H K. Qed.
Global Instance read_plain_value_Loc tb e ln : Loc (read_plain_value tb e ln) (read_plain_value tb (e ++ t) ln) (fun X => pre e /\ kr3 X) extr3
  := fun X H K => read_plain_value_loc tb e ln X H (proj1 K) (proj2 K).
Lemma read_dot_res_loc w ot tb e ln X : read_dot_res w ot tb e ln = X -> pre e -> kr3 X -> read_dot_res w ot tb (e ++ t) ln = extr3 X.
Proof. intros H P K. unfold read_dot_res in H |- *. loc_comp H K. Qed.
Global Instance read_dot_res_Loc w ot tb e ln : Loc (read_dot_res w ot tb e ln) (read_dot_res w ot tb (e ++ t) ln) (fun X => pre e /\ kr3 X) extr3
  := fun X H K => read_dot_res_loc w ot tb e ln X H (proj1 K) (proj2 K).
(* `l.` + a word that is no reservation: the reader goes back to the dot.  The word read in e ++ t is a reservation word only
   if the word read in e is one - unless '.' + the text is a proper prefix of '.' + that word, which pre e excludes *)
Lemma take_word_kw : forall kw r, pprefix r kw = false -> fst (take_word (r ++ t)) = kw -> fst (take_word r) = kw.
Proof.
  induction kw as [|k kw IH]; intros r PP H.
  - destruct r as [|c r']; [reflexivity|]. cbn [app take_word] in H |- *. destruct (is_word_char c); [|reflexivity].
    destruct (take_word (r' ++ t)). discriminate H.
  - destruct r as [|c r']; [discriminate PP|]. cbn [app take_word] in H |- *. destruct (is_word_char c); [|discriminate H].
    destruct (take_word (r' ++ t)) as [w x] eqn:G. cbn [fst] in H. injection H as -> Hw.
    assert (PP' : pprefix r' kw = false).
    { unfold pprefix in PP |- *. cbn [length prefixb] in PP. rewrite Z.eqb_refl in PP. exact PP. }
    specialize (IH r' PP'). rewrite G in IH. cbn [fst] in IH. specialize (IH Hw).
    destruct (take_word r') as [w' x']. cbn [fst] in IH |- *. rewrite IH. reflexivity.
Qed.
Lemma loc_list_eqb_eq : forall a b, list_eqb a b = true -> a = b.
Proof.
  induction a as [|x a IH]; intros [|y b] H; cbn [list_eqb] in H; try discriminate; [reflexivity|].
  apply andb_true_iff in H. destruct H as [H1 H2]. apply Z.eqb_eq in H1. subst y. rewrite (IH b H2). reflexivity.
Qed.
Lemma list_eqb_false_of a b : (a = b -> False) -> list_eqb a b = false.
Proof. intros H. destruct (list_eqb a b) eqn:E; [|reflexivity]. exfalso. apply H. apply loc_list_eqb_eq, E. Qed.
Lemma get_word_kw kw e : In (46 :: kw) PATS -> hd 0 kw <> 35 -> list_eqb kw kw = true -> pre e -> eq_char e 46 = true ->
  list_eqb (fst (get_word (tl e))) kw = false -> list_eqb (fst (get_word (tl (e ++ t)))) kw = false.
Proof.
  intros HP H35 Hrefl P E N. apply list_eqb_false_of. intros W.
  destruct e as [|d r]; [discriminate E|]. cbn [eq_char] in E. apply Z.eqb_eq in E. subst d. cbn [app tl] in *.
  destruct P as [[a [Ea _]] PS].
  assert (PP : pprefix r kw = false).
  { pose proof (PS (46 :: r) ltac:(discriminate) (suffix_refl _) (46 :: kw) HP) as Q.
    unfold pprefix in Q |- *. cbn [length prefixb] in Q. exact Q. }
  destruct r as [|c r']; [destruct kw; [discriminate N | discriminate PP]|].
  destruct (Z.eq_dec c 35) as [->|N35].
  - cbn [app] in W. unfold get_word in W. destruct (take_word (r' ++ t)). cbn [fst] in W. rewrite <- W in H35. apply H35. reflexivity.
  - change ((c :: r') ++ t) with (c :: r' ++ t) in W. rewrite (get_word_not35 c (r' ++ t) N35) in W. rewrite (get_word_not35 c r' N35) in N.
    change (c :: r' ++ t) with ((c :: r') ++ t) in W. rewrite (take_word_kw kw (c :: r') PP W) in N. rewrite Hrefl in N. discriminate N.
Qed.

Lemma read_length_loc tb e ln X : read_length tb e ln = X -> pre e -> kr3 X -> read_length tb (e ++ t) ln = extr3 X.
Proof.
  intros H P K. unfold read_length, guard3 in H |- *. loc_comp H K.
  (* the branch that goes back to the dot *)
  unfold c_DOT in *.
  apply orb_false_elim in E1. destruct E1 as [E1a E1b]. unfold is_w in *.
  apply orb_false_elim in E1b. destruct E1b as [E1b E1c]. apply orb_false_elim in E2. destruct E2 as [E2a E2b].
  apply orb_false_elim in E3. destruct E3 as [E3a E3b].
  assert (G : forall kw, In (46 :: kw) PATS -> hd 0 kw <> 35 -> list_eqb kw kw = true ->
               list_eqb (fst (get_word (tl e))) kw = false -> list_eqb (fst (get_word (tl (e ++ t)))) kw = false).
  { intros kw A B C D. exact (get_word_kw kw e A B C P E D). }
  rewrite E0 in G. cbn [fst] in G.
  pose proof (G (zs "Random") ltac:(in_pats) ltac:(vm_compute; discriminate) eq_refl E1a) as G1.
  pose proof (G (zs "onTime") ltac:(in_pats) ltac:(vm_compute; discriminate) eq_refl E1b) as G2.
  pose proof (G (zs "T") ltac:(in_pats) ltac:(vm_compute; discriminate) eq_refl E1c) as G3.
  pose proof (G (zs "onNote") ltac:(in_pats) ltac:(vm_compute; discriminate) eq_refl E2a) as G4.
  pose proof (G (zs "N") ltac:(in_pats) ltac:(vm_compute; discriminate) eq_refl E2b) as G5.
  pose proof (G (zs "onCycle") ltac:(in_pats) ltac:(vm_compute; discriminate) eq_refl E3a) as G6.
  pose proof (G (zs "C") ltac:(in_pats) ltac:(vm_compute; discriminate) eq_refl E3b) as G7.
  destruct (get_word (tl (e ++ t))) as [cmd' s1']. cbn [fst] in G1, G2, G3, G4, G5, G6, G7.
  rewrite G1, G2, G3, G4, G5, G6, G7. cbn [orb].
  rewrite (get_note_length_loc e ln _ E4 P K). cbv beta iota delta [ext3 fst snd]. rewrite E5. reflexivity.
Qed.
Global Instance read_length_Loc tb e ln : Loc (read_length tb e ln) (read_length tb (e ++ t) ln) (fun X => pre e /\ kr3 X) extr3
  := fun X H K => read_length_loc tb e ln X H (proj1 K) (proj2 K).
Lemma read_res_or_value_loc w ot mk tb e ln X : read_res_or_value w ot mk tb e ln = X -> pre e -> kr3 X -> read_res_or_value w ot mk tb (e ++ t) ln = extr3 X.
Proof. intros H P K. unfold read_res_or_value, guard3 in H |- *. loc_comp H K. Qed.
Global Instance read_res_or_value_Loc w ot mk tb e ln : Loc (read_res_or_value w ot mk tb e ln) (read_res_or_value w ot mk tb (e ++ t) ln) (fun X => pre e /\ kr3 X) extr3
  := fun X H K => read_res_or_value_loc w ot mk tb e ln X H (proj1 K) (proj2 K).
Lemma read_octave_loc tb e ln X : read_octave tb e ln = X -> pre e -> kr3 X -> read_octave tb (e ++ t) ln = extr3 X.
Proof. intros H P K. unfold read_octave in H |- *. loc_comp H K. Qed.
Global Instance read_octave_Loc tb e ln : Loc (read_octave tb e ln) (read_octave tb (e ++ t) ln) (fun X => pre e /\ kr3 X) extr3
  := fun X H K => read_octave_loc tb e ln X H (proj1 K) (proj2 K).
Lemma read_qlen_loc tb e ln X : read_qlen tb e ln = X -> pre e -> kr3 X -> read_qlen tb (e ++ t) ln = extr3 X.
Proof. intros H P K. unfold read_qlen in H |- *. loc_comp H K. Qed.
Global Instance read_qlen_Loc tb e ln : Loc (read_qlen tb e ln) (read_qlen tb (e ++ t) ln) (fun X => pre e /\ kr3 X) extr3
  := fun X H K => read_qlen_loc tb e ln X H (proj1 K) (proj2 K).
Lemma read_velocity_loc tb e ln X : read_velocity tb e ln = X -> pre e -> kr3 X -> read_velocity tb (e ++ t) ln = extr3 X.
Proof. intros H P K. unfold read_velocity in H |- *. loc_comp H K. Qed.
Global Instance read_velocity_Loc tb e ln : Loc (read_velocity tb e ln) (read_velocity tb (e ++ t) ln) (fun X => pre e /\ kr3 X) extr3
  := fun X H K => read_velocity_loc tb e ln X H (proj1 K) (proj2 K).
Lemma read_timing_loc tb e ln X : read_timing tb e ln = X -> pre e -> kr3 X -> read_timing tb (e ++ t) ln = extr3 X.
Proof. intros H P K. unfold read_timing in H |- *. loc_comp H K. Qed.
Global Instance read_timing_Loc tb e ln : Loc (read_timing tb e ln) (read_timing tb (e ++ t) ln) (fun X => pre e /\ kr3 X) extr3
  := fun X H K => read_timing_loc tb e ln X H (proj1 K) (proj2 K).
Lemma read_loop_loc tb e ln X : read_loop tb e ln = X -> pre e -> kr3 X -> read_loop tb (e ++ t) ln = extr3 X.
Proof. intros H P K. unfold read_loop in H |- *. loc_comp H K. Qed.
Global Instance read_loop_Loc tb e ln : Loc (read_loop tb e ln) (read_loop tb (e ++ t) ln) (fun X => pre e /\ kr3 X) extr3
  := fun X H K => read_loop_loc tb e ln X H (proj1 K) (proj2 K).
Lemma read_harmony_end_loc  e ln X : read_harmony_end e ln = X -> pre e -> k3 X -> read_harmony_end (e ++ t) ln = ext3 X.
Proof. intros H P K. unfold read_harmony_end in H |- *. loc_comp H K. Qed.
Global Instance read_harmony_end_Loc  e ln : Loc (read_harmony_end e ln) (read_harmony_end (e ++ t) ln) (fun X => pre e /\ k3 X) ext3
  := fun X H K => read_harmony_end_loc  e ln X H (proj1 K) (proj2 K).

Lemma key_flag_loop_loc : forall f f' e ln flag kf idx X,
  key_flag_loop f e ln flag kf idx = X -> pre e -> k3 X -> (length e < f)%nat -> (length (e ++ t) < f')%nat ->
  key_flag_loop f' (e ++ t) ln flag kf idx = ext3 X.
Proof.
  induction f as [|f IH]; intros f' e ln flag kf idx X H P K Lf Lf'; [lia|]. destruct f' as [|f']; [lia|].
  assert (IHL : forall e ln flag kf idx, Loc (key_flag_loop f e ln flag kf idx) (key_flag_loop f' (e ++ t) ln flag kf idx)
                  (fun X => pre e /\ k3 X /\ (length e < f)%nat /\ (length (e ++ t) < f')%nat) ext3).
  { intros e1 ln1 fl1 kf1 i1 X1 H1 [P1 [K1 [L1 L1']]]. exact (IH f' e1 ln1 fl1 kf1 i1 X1 H1 P1 K1 L1 L1'). }
  cbn [key_flag_loop] in H |- *. loc_comp H K.
Qed.
Global Instance key_flag_loop_Loc e ln flag kf idx :
  Loc (key_flag_loop (S (S (length e))) e ln flag kf idx) (key_flag_loop (S (S (length (e ++ t)))) (e ++ t) ln flag kf idx)
      (fun X => pre e /\ k3 X) ext3.
Proof. intros X H [P K]. apply (key_flag_loop_loc _ _ e ln flag kf idx X H P K); lia. Qed.
Lemma read_key_flag_loc  e ln X : read_key_flag e ln = X -> pre e -> k3 X -> read_key_flag (e ++ t) ln = ext3 X.
Proof. intros H P K. unfold read_key_flag in H |- *. loc_comp H K. Qed.
Global Instance read_key_flag_Loc  e ln : Loc (read_key_flag e ln) (read_key_flag (e ++ t) ln) (fun X => pre e /\ k3 X) ext3
  := fun X H K => read_key_flag_loc  e ln X H (proj1 K) (proj2 K).

(* get_token_nest: the body is the same, the rest gets t *)
Lemma token_nest_loop_loc opn cls : forall e ln level X,
  token_nest_loop e ln opn cls level = X -> k3 X -> token_nest_loop (e ++ t) ln opn cls level = ext3 X.
Proof.
  induction e as [|c r IH]; intros ln level X H K; subst X.
  - cbn [token_nest_loop] in K. destruct K as [p Hp]. destruct p; discriminate.
  - cbn [app token_nest_loop] in K |- *. unfold k3 in K.
    set (ln' := if c =? c_NL then ln + 1 else ln) in *.
    destruct (c =? opn).
    + destruct (token_nest_loop r ln' opn cls (S level)) as [[t0 r'] l'] eqn:G. cbn [fst snd] in K.
      rewrite (IH ln' (S level) _ G K). reflexivity.
    + destruct (c =? cls).
      * destruct (Nat.pred level) as [|k]; [reflexivity|].
        destruct (token_nest_loop r ln' opn cls (S k)) as [[t0 r'] l'] eqn:G. cbn [fst snd] in K.
        rewrite (IH ln' (S k) _ G K). reflexivity.
      * destruct (token_nest_loop r ln' opn cls level) as [[t0 r'] l'] eqn:G. cbn [fst snd] in K.
        rewrite (IH ln' level _ G K). reflexivity.
Qed.
Lemma get_token_nest_loc e ln opn cls X :
  get_token_nest e ln opn cls = X -> pre e -> k3 X -> get_token_nest (e ++ t) ln opn cls = ext3 X.
Proof.
  intros H P K. unfold get_token_nest in *.
  assert (Se : suffix u e).
  { subst X. destruct (eq_char e opn).
    - pose proof (token_nest_loop_pc opn cls (tl e) ln 1) as [_ S]. exact (suffix_trans _ _ _ (suffix_trans _ _ _ K S) (suffix_tl e)).
    - pose proof (token_nest_loop_pc opn cls e ln 0) as [_ S]. exact (suffix_trans _ _ _ K S). }
  rewrite (eq_char_app_t e opn Se). destruct (eq_char e opn) eqn:E.
  - assert (St : suffix u (tl e)).
    { subst X. pose proof (token_nest_loop_pc opn cls (tl e) ln 1) as [_ S]. exact (suffix_trans _ _ _ K S). }
    rewrite (tl_app_t e St). apply (token_nest_loop_loc opn cls (tl e) ln 1 X H K).
  - apply (token_nest_loop_loc opn cls e ln 0 X H K).
Qed.
Global Instance get_token_nest_Loc e ln opn cls :
  Loc (get_token_nest e ln opn cls) (get_token_nest (e ++ t) ln opn cls) (fun X => pre e /\ k3 X) ext3
  := fun X H K => get_token_nest_loc e ln opn cls X H (proj1 K) (proj2 K).
Lemma read_macro_arg_loc tb e ln X : read_macro_arg tb e ln = X -> pre e -> kr3 X -> read_macro_arg tb (e ++ t) ln = extr3 X.
Proof. intros H P K. unfold read_macro_arg in H |- *. loc_comp H K. Qed.
Global Instance read_macro_arg_Loc tb e ln : Loc (read_macro_arg tb e ln) (read_macro_arg tb (e ++ t) ln) (fun X => pre e /\ kr3 X) extr3
  := fun X H K => read_macro_arg_loc tb e ln X H (proj1 K) (proj2 K).

Lemma read_macro_args_loop_loc tb : forall f f' e ln X,
  read_macro_args_loop f tb e ln = X -> pre e -> kr3 X -> (length e < f)%nat -> (length (e ++ t) < f')%nat ->
  read_macro_args_loop f' tb (e ++ t) ln = extr3 X.
Proof.
  induction f as [|f IH]; intros f' e ln X H P K Lf Lf'; [lia|]. destruct f' as [|f']; [lia|].
  assert (IHL : forall e ln, Loc (read_macro_args_loop f tb e ln) (read_macro_args_loop f' tb (e ++ t) ln)
                  (fun X => pre e /\ kr3 X /\ (length e < f)%nat /\ (length (e ++ t) < f')%nat) extr3).
  { intros e1 ln1 X1 H1 [P1 [K1 [L1 L1']]]. exact (IH f' e1 ln1 X1 H1 P1 K1 L1 L1'). }
  cbn [read_macro_args_loop] in H |- *. loc_comp H K.
Qed.
Global Instance read_macro_args_loop_Loc tb e ln :
  Loc (read_macro_args_loop (S (length e)) tb e ln) (read_macro_args_loop (S (length (e ++ t))) tb (e ++ t) ln) (fun X => pre e /\ kr3 X) extr3.
Proof. intros X H [P K]. apply (read_macro_args_loop_loc tb _ _ e ln X H P K); lia. Qed.
Lemma read_macro_args_loc ls e ln X : read_macro_args ls e ln = X -> pre e -> kr4 X -> read_macro_args ls (e ++ t) ln = extr4 X.
Proof. intros H P K. unfold read_macro_args in H |- *. loc_comp H K. Qed.
Global Instance read_macro_args_Loc ls e ln : Loc (read_macro_args ls e ln) (read_macro_args ls (e ++ t) ln) (fun X => pre e /\ kr4 X) extr4
  := fun X H K => read_macro_args_loc ls e ln X H (proj1 K) (proj2 K).
Lemma check_variables_loc ls cmd e ln X : check_variables ls cmd e ln = X -> pre e -> kr4n ls X -> check_variables ls cmd (e ++ t) ln = extr4 X.
Proof. intros H P K. unfold check_variables in H |- *. loc_comp H K. Qed.
Global Instance check_variables_Loc ls cmd e ln : Loc (check_variables ls cmd e ln) (check_variables ls cmd (e ++ t) ln) (fun X => pre e /\ kr4n ls X) extr4
  := fun X H K => check_variables_loc ls cmd e ln X H (proj1 K) (proj2 K).
Lemma read_command_cc_loc ls no e ln X : read_command_cc ls no e ln = X -> pre e -> kr4 X -> read_command_cc ls no (e ++ t) ln = extr4 X.
Proof. intros H P K. unfold read_command_cc in H |- *. loc_comp H K. Qed.
Global Instance read_command_cc_Loc ls no e ln : Loc (read_command_cc ls no e ln) (read_command_cc ls no (e ++ t) ln) (fun X => pre e /\ kr4 X) extr4
  := fun X H K => read_command_cc_loc ls no e ln X H (proj1 K) (proj2 K).
Lemma read_cc_raw_loc ls is_c e ln X : read_cc_raw ls is_c e ln = X -> pre e -> kr4n ls X -> read_cc_raw ls is_c (e ++ t) ln = extr4 X.
Proof. intros H P K. unfold read_cc_raw in H |- *. loc_comp H K. Qed.
Global Instance read_cc_raw_Loc ls is_c e ln : Loc (read_cc_raw ls is_c e ln) (read_cc_raw ls is_c (e ++ t) ln) (fun X => pre e /\ kr4n ls X) extr4
  := fun X H K => read_cc_raw_loc ls is_c e ln X H (proj1 K) (proj2 K).
Lemma read_cc_loc ls is_c e ln X : read_cc ls is_c e ln = X -> pre e -> kr4n ls X -> read_cc ls is_c (e ++ t) ln = extr4 X.
Proof. intros H P K. unfold read_cc, guard_out in H |- *. loc_comp H K. Qed.
Global Instance read_cc_Loc ls is_c e ln : Loc (read_cc ls is_c e ln) (read_cc ls is_c (e ++ t) ln) (fun X => pre e /\ kr4n ls X) extr4
  := fun X H K => read_cc_loc ls is_c e ln X H (proj1 K) (proj2 K).
Lemma read_pitch_bend_loc big tb e ln X : read_pitch_bend big tb e ln = X -> pre e -> kr3 X -> read_pitch_bend big tb (e ++ t) ln = extr3 X.
Proof. intros H P K. unfold read_pitch_bend, guard_tok in H |- *. loc_comp H K. Qed.
Global Instance read_pitch_bend_Loc big tb e ln : Loc (read_pitch_bend big tb e ln) (read_pitch_bend big tb (e ++ t) ln) (fun X => pre e /\ kr3 X) extr3
  := fun X H K => read_pitch_bend_loc big tb e ln X H (proj1 K) (proj2 K).
Lemma read_fadein_loc dir tb e ln X : read_fadein dir tb e ln = X -> pre e -> kr3 X -> read_fadein dir tb (e ++ t) ln = extr3 X.
Proof. intros H P K. unfold read_fadein in H |- *. loc_comp H K. Qed.
Global Instance read_fadein_Loc dir tb e ln : Loc (read_fadein dir tb e ln) (read_fadein dir tb (e ++ t) ln) (fun X => pre e /\ kr3 X) extr3
  := fun X H K => read_fadein_loc dir tb e ln X H (proj1 K) (proj2 K).
Lemma read_decres_loc dir tb e ln X : read_decres dir tb e ln = X -> pre e -> kr3 X -> read_decres dir tb (e ++ t) ln = extr3 X.
Proof. intros H P K. unfold read_decres in H |- *. loc_comp H K. Qed.
Global Instance read_decres_Loc dir tb e ln : Loc (read_decres dir tb e ln) (read_decres dir tb (e ++ t) ln) (fun X => pre e /\ kr3 X) extr3
  := fun X H K => read_decres_loc dir tb e ln X H (proj1 K) (proj2 K).
Lemma read_rpn_command_loc ls nrpn msb lsb e ln X : read_rpn_command ls nrpn msb lsb e ln = X -> pre e -> kr4 X -> read_rpn_command ls nrpn msb lsb (e ++ t) ln = extr4 X.
Proof. intros H P K. unfold read_rpn_command in H |- *. loc_comp H K. Qed.
Global Instance read_rpn_command_Loc ls nrpn msb lsb e ln : Loc (read_rpn_command ls nrpn msb lsb e ln) (read_rpn_command ls nrpn msb lsb (e ++ t) ln) (fun X => pre e /\ kr4 X) extr4
  := fun X H K => read_rpn_command_loc ls nrpn msb lsb e ln X H (proj1 K) (proj2 K).
Lemma read_play_loc ls e ln X : read_play ls e ln = X -> pre e -> kr4 X -> read_play ls (e ++ t) ln = extr4 X.
Proof. intros H P K. unfold read_play in H |- *. loc_comp H K. Qed.
Global Instance read_play_Loc ls e ln : Loc (read_play ls e ln) (read_play ls (e ++ t) ln) (fun X => pre e /\ kr4 X) extr4
  := fun X H K => read_play_loc ls e ln X H (proj1 K) (proj2 K).
Lemma read_def_str_loc ls e ln X : read_def_str ls e ln = X -> pre e -> kr4n ls X -> read_def_str ls (e ++ t) ln = extr4 X.
Proof. intros H P K. unfold read_def_str in H |- *. loc_comp H K. Qed.
Global Instance read_def_str_Loc ls e ln : Loc (read_def_str ls e ln) (read_def_str ls (e ++ t) ln) (fun X => pre e /\ kr4n ls X) extr4
  := fun X H K => read_def_str_loc ls e ln X H (proj1 K) (proj2 K).
Lemma skip_char_loc c e X : skip_char c e = X -> pre e -> k2 X -> skip_char c (e ++ t) = ext2 X.
Proof. intros H P K. unfold skip_char in H |- *. loc_comp H K. Qed.
Global Instance skip_char_Loc c e : Loc (skip_char c e) (skip_char c (e ++ t)) (fun X => pre e /\ k2 X) ext2
  := fun X H K => skip_char_loc c e X H (proj1 K) (proj2 K).
Lemma read_sysex_value_loc hex e ln X : read_sysex_value hex e ln = X -> pre e -> kr3 X -> read_sysex_value hex (e ++ t) ln = extr3 X.
Proof. intros H P K. unfold read_sysex_value in H |- *. loc_comp H K. Qed.
Global Instance read_sysex_value_Loc hex e ln : Loc (read_sysex_value hex e ln) (read_sysex_value hex (e ++ t) ln) (fun X => pre e /\ kr3 X) extr3
  := fun X H K => read_sysex_value_loc hex e ln X H (proj1 K) (proj2 K).
Lemma read_sysex_loop_loc hex : forall f f' e ln flag X,
  read_sysex_loop f hex e ln flag = X -> pre e -> kr3 X -> (length e < f)%nat -> (length (e ++ t) < f')%nat ->
  read_sysex_loop f' hex (e ++ t) ln flag = extr3 X.
Proof.
  induction f as [|f IH]; intros f' e ln flag X H P K Lf Lf'; [lia|]. destruct f' as [|f']; [lia|].
  assert (IHL : forall e ln flag, Loc (read_sysex_loop f hex e ln flag) (read_sysex_loop f' hex (e ++ t) ln flag)
                  (fun X => pre e /\ kr3 X /\ (length e < f)%nat /\ (length (e ++ t) < f')%nat) extr3).
  { intros e1 ln1 fl1 X1 H1 [P1 [K1 [L1 L1']]]. exact (IH f' e1 ln1 fl1 X1 H1 P1 K1 L1 L1'). }
  cbn [read_sysex_loop] in H |- *. loc_comp H K.
Qed.
Global Instance read_sysex_loop_Loc hex e ln flag :
  Loc (read_sysex_loop (S (length e)) hex e ln flag) (read_sysex_loop (S (length (e ++ t))) hex (e ++ t) ln flag) (fun X => pre e /\ kr3 X) extr3.
Proof. intros X H [P K]. apply (read_sysex_loop_loc hex _ _ e ln flag X H P K); lia. Qed.
Lemma read_sysex_loc e ln X : read_sysex e ln = X -> pre e -> kr3 X -> read_sysex (e ++ t) ln = extr3 X.
Proof. intros H P K. unfold read_sysex in H |- *. loc_comp H K. Qed.
Global Instance read_sysex_Loc e ln : Loc (read_sysex e ln) (read_sysex (e ++ t) ln) (fun X => pre e /\ kr3 X) extr3
  := fun X H K => read_sysex_loc e ln X H (proj1 K) (proj2 K).
Lemma read_int_args_loc ls e ln X : read_int_args ls e ln = X -> pre e -> kr4 X -> read_int_args ls (e ++ t) ln = extr4 X.
Proof. intros H P K. unfold read_int_args in H |- *. loc_comp H K. Qed.
Global Instance read_int_args_Loc ls e ln : Loc (read_int_args ls e ln) (read_int_args ls (e ++ t) ln) (fun X => pre e /\ kr4 X) extr4
  := fun X H K => read_int_args_loc ls e ln X H (proj1 K) (proj2 K).
Lemma read_int_command_loc ls ty t1 e ln X : read_int_command ls ty t1 e ln = X -> pre e -> kr4 X -> read_int_command ls ty t1 (e ++ t) ln = extr4 X.
Proof. intros H P K. unfold read_int_command in H |- *. loc_comp H K. Qed.
Global Instance read_int_command_Loc ls ty t1 e ln : Loc (read_int_command ls ty t1 e ln) (read_int_command ls ty t1 (e ++ t) ln) (fun X => pre e /\ kr4 X) extr4
  := fun X H K => read_int_command_loc ls ty t1 e ln X H (proj1 K) (proj2 K).
Lemma read_ext_command_raw_loc ls ty argt t1 t2 e ln X : read_ext_command_raw ls ty argt t1 t2 e ln = X -> pre e -> kr4n ls X -> read_ext_command_raw ls ty argt t1 t2 (e ++ t) ln = extr4 X.
Proof. intros H P K. unfold read_ext_command_raw in H |- *. loc_comp H K. Qed.
Global Instance read_ext_command_raw_Loc ls ty argt t1 t2 e ln : Loc (read_ext_command_raw ls ty argt t1 t2 e ln) (read_ext_command_raw ls ty argt t1 t2 (e ++ t) ln) (fun X => pre e /\ kr4n ls X) extr4
  := fun X H K => read_ext_command_raw_loc ls ty argt t1 t2 e ln X H (proj1 K) (proj2 K).
Lemma read_ext_command_loc ls ty argt t1 t2 e ln X : read_ext_command ls ty argt t1 t2 e ln = X -> pre e -> kr4n ls X -> read_ext_command ls ty argt t1 t2 (e ++ t) ln = extr4 X.
Proof. intros H P K. unfold read_ext_command, guard_out in H |- *. loc_comp H K. Qed.
Global Instance read_ext_command_Loc ls ty argt t1 t2 e ln : Loc (read_ext_command ls ty argt t1 t2 e ln) (read_ext_command ls ty argt t1 t2 (e ++ t) ln) (fun X => pre e /\ kr4n ls X) extr4
  := fun X H K => read_ext_command_loc ls ty argt t1 t2 e ln X H (proj1 K) (proj2 K).


(* ------------------------------------------------------------------------------------------ *)
(* one iteration of the loop                                                                     *)
(* ------------------------------------------------------------------------------------------ *)
Lemma zen2han_lf c : (zen2han c =? 10) = (c =? 10).
Proof. unfold zen2han. repeat match goal with |- context [if ?b then _ else _] => destruct b eqn:? end; lia. Qed.
Lemma pre_zen c r : pre (c :: r) -> psafe (zen2han c :: r) -> suffix u r -> pre (zen2han c :: r).
Proof.
  intros [[a [E Ha]] _] Hs [q ->]. split; [|exact Hs]. destruct a as [|d a]; [destruct q; discriminate|].
  cbn [app] in E. injection E as <- E. apply app_inv_tail in E. subst a.
  exists (zen2han c :: q). split; [reflexivity|]. cbn [nolf forallb] in *. rewrite zen2han_lf. exact Ha.
Qed.

Ltac abrk H :=
  cbv beta iota zeta delta [bind bindR] in H;
  lazymatch type of H with
  | ?L = _ =>
      let x := head_scrut L in
      tryif constr_eq x L then fail
      else first
        [ match x with
          | context [if ?b then _ else _] =>
              lazymatch type of b with bool => idtac | _ => fail end;
              lazymatch b with
              | context [if _ then _ else _] => fail
              | _ => let E := fresh "E" in destruct b eqn:E
              end
          end
        | tryif is_var x then destruct x else (let E := fresh "E" in destruct x eqn:E; harvest E) ]
  end.
Ltac adrive_step :=
  cbv beta iota zeta delta [bind bindR ext2 ext3 exts ext4 extr3 extr4 fst snd]; cbn [app];
  lazymatch goal with
  | |- ?L = _ =>
      let y := head_scrut L in
      first [ progress (repeat norm_step) | use_bool y | use_loc y ]
  end.

(* a word read at a word character / at '#': the text after it is a suffix of the text after that character *)
Ltac prep_word :=
  repeat match goal with
         | Q : (is_word_char ?c = true \/ ?c = 35) -> _ |- _ =>
             first [ let W := fresh "W" in
                     assert (W : is_word_char c = true \/ c = 35)
                       by (first [ left; apply upperish_word_char; assumption | right; apply Z.eqb_eq; assumption ]);
                     specialize (Q W); clear W;
                     let w' := fresh "w'" in let HW := fresh "HW" in destruct Q as [[w' HW] Q]
                   | clear Q ]
         end.

(* a block that starts at the brace just taken *)
Ltac prep_brace :=
  try match goal with
      | E1 : (zen2han ?c0 =? 123) = true, E2 : get_token_nest (zen2han ?c0 :: ?r) ?ln 123 125 = _ |- _ =>
          let P := fresh "PB" in let P2 := fresh "PS" in
          pose proof (get_token_nest_open _ r ln 123 125 E1) as P; rewrite E2 in P; cbv beta iota delta [pc3 fst snd] in P;
          destruct P as [P P2]
      end.

Theorem arm_loc sublex ls c r ln h acc ls1 r1 ln1 h1 acc1 :
  arm sublex ls (c :: r) ln h acc = Next ls1 r1 ln1 h1 acc1 ->
  pre (c :: r) -> psafe (zen2han c :: r) -> suffix u r1 -> lx_logs ls1 = lx_logs ls ->
  arm sublex ls ((c :: r) ++ t) ln h acc = Next ls1 (r1 ++ t) ln1 h1 acc1.
Proof.
  intros H P PZ K KL. unfold arm, ARMG in H |- *. cbn [app].
  repeat abrk H.
  all: try discriminate H.
  all: injection H as <- <- <- <- <-.
  all: cbv beta iota delta [wk3 fst snd] in *.
  all: prep_word; prep_brace.
  all: cbn [app] in *.
  all: try solve [exfalso; apply sfx_u_nil; sfx].
  all: try (assert (Sr : suffix u r) by sfx; pose proof (pre_zen c r P PZ Sr) as Pz).
  all: repeat adrive_step.
  all: cbv beta iota zeta delta [bind bindR ext2 ext3 exts ext4 extr3 extr4 fst snd]; try reflexivity.
  all: try solve [rewrite (lex_error_same _ _ (r ++ t) _ _ KL); reflexivity].
  all: try solve [f_equal; refine (lex_error_same _ _ _ _ _ _); exact KL].
Qed.
End Loc.

(* ------------------------------------------------------------------------------------------ *)
(* the loop: a command that is read completely when only its first separator character follows  *)
(* is read the same, and the loop goes on at that separator, whatever follows it                *)
(* ------------------------------------------------------------------------------------------ *)
(* the look-ahead of a length at a line break does not depend on the line counter *)
Lemma get_token_ch_rest_ln sp : forall s ln ln', snd (fst (get_token_ch sp s ln)) = snd (fst (get_token_ch sp s ln')).
Proof.
  induction s as [|c r IH]; intros ln ln'; cbn [get_token_ch]; [reflexivity|]. destruct (c =? sp); [reflexivity|].
  specialize (IH (if c =? c_NL then ln + 1 else ln) (if c =? c_NL then ln' + 1 else ln')).
  destruct (get_token_ch sp r (if c =? c_NL then ln + 1 else ln)) as [[a b] d].
  destruct (get_token_ch sp r (if c =? c_NL then ln' + 1 else ln')) as [[a' b'] d']. exact IH.
Qed.
Lemma get_token_s_rest_ln sp : forall s ln ln', snd (fst (get_token_s sp s ln)) = snd (fst (get_token_s sp s ln')).
Proof.
  induction s as [|c r IH]; intros ln ln'; cbn [get_token_s]; [reflexivity|]. destruct (prefixb sp (c :: r)); [reflexivity|].
  specialize (IH (if c =? c_NL then ln + 1 else ln) (if c =? c_NL then ln' + 1 else ln')).
  destruct (get_token_s sp r (if c =? c_NL then ln + 1 else ln)) as [[a b] d].
  destruct (get_token_s sp r (if c =? c_NL then ln' + 1 else ln')) as [[a' b'] d']. exact IH.
Qed.
Lemma skip_space_ret_f_ln : forall f s ln ln', fst (skip_space_ret_f f s ln) = fst (skip_space_ret_f f s ln').
Proof.
  induction f as [|f IH]; intros s ln ln'; [reflexivity|]. cbn [skip_space_ret_f]. destruct s as [|c r]; [reflexivity|].
  destruct ((c =? c_CR) || (c =? c_TAB) || (c =? c_SP)); [apply IH|]. destruct (c =? c_NL); [apply IH|].
  destruct (c =? c_SLASH); [|reflexivity].
  destruct (prefixb [c_SLASH; c_SLASH] (c :: r)).
  - pose proof (get_token_ch_rest_ln c_NL (c :: r) ln ln') as Q.
    destruct (get_token_ch c_NL (c :: r) ln) as [[a b] d]. destruct (get_token_ch c_NL (c :: r) ln') as [[a' b'] d'].
    cbn [fst snd] in Q. subst b'. apply IH.
  - destruct (prefixb [c_SLASH; c_STAR] (c :: r)); [|reflexivity].
    pose proof (get_token_s_rest_ln [c_STAR; c_SLASH] (c :: r) ln ln') as Q.
    destruct (get_token_s [c_STAR; c_SLASH] (c :: r) ln) as [[a b] d]. destruct (get_token_s [c_STAR; c_SLASH] (c :: r) ln') as [[a' b'] d'].
    cbn [fst snd] in Q. subst b'. apply IH.
Qed.

(* the separator after a command: not a character of a multi-character pattern; a line break only if no '^' follows it
   (after blanks, line breaks and comments) *)
Definition sep_ok (c0 : Z) (t : list Z) : bool := (negb (c0 =? 10)) || negb (eq_char (fst (skip_space_ret t 0)) 94).
(* the text of a command with its first separator: no line break inside, no pattern test that would look beyond its end
   (also when the first character is read in its ASCII form) *)
Definition cmd_ok (c : Z) (cmd : list Z) (c0 : Z) : bool :=
  nolf (c :: cmd) && psafeb (c :: cmd ++ [c0]) && psafeb (zen2han c :: cmd ++ [c0]).

Theorem loop_cmd_local f n ls (c : Z) (cmd : list Z) (c0 : Z) (t : list Z) ln h acc ls1 ln1 h1 acc1 :
  arm (lex_f f) ls (c :: cmd ++ [c0]) ln h acc = Next ls1 [c0] ln1 h1 acc1 ->
  cmd_ok c cmd c0 = true -> sep_ok c0 t = true -> lx_logs ls1 = lx_logs ls ->
  LOOP f (S n) ls (c :: cmd ++ c0 :: t) ln h acc = LOOP f n ls1 (c0 :: t) ln1 h1 acc1.
Proof.
  intros H CO HL KL. unfold cmd_ok in CO. apply andb_true_iff in CO. destruct CO as [CO P2]. apply andb_true_iff in CO. destruct CO as [NL P1].
  assert (Hlf : c0 = 10 -> forall ln0, eq_char (fst (skip_space_ret t ln0)) 94 = false).
  { intros E ln0. subst c0. unfold sep_ok in HL. cbn [Z.eqb negb orb] in HL. apply negb_true_iff in HL.
    unfold skip_space_ret in *. rewrite (skip_space_ret_f_ln _ t ln0 0). exact HL. }
  unfold LOOP. rewrite LOOPG_arm.
  pose proof (arm_loc c0 t Hlf (lex_f f) ls c (cmd ++ [c0]) ln h acc ls1 [c0] ln1 h1 acc1 H) as Q.
  replace ((c :: cmd ++ [c0]) ++ t) with (c :: cmd ++ c0 :: t) in Q by (cbn [app]; rewrite <- app_assoc; reflexivity).
  rewrite Q; [reflexivity| |apply psafeb_psafe, P2|apply suffix_refl|exact KL].
  split; [|apply psafeb_psafe, P1]. exists (c :: cmd). split; [reflexivity|exact NL].
Qed.

(* ------------------------------------------------------------------------------------------ *)
(* the reader lemmas in the form of the property: the command text, its first separator, any rest *)
(* ------------------------------------------------------------------------------------------ *)
Definition text_ok (cmd : list Z) (c0 : Z) : bool := nolf cmd && psafeb (cmd ++ [c0]).
Lemma text_ok_pre cmd c0 : text_ok cmd c0 = true -> pre c0 (cmd ++ [c0]).
Proof.
  unfold text_ok. intros H. apply andb_true_iff in H. destruct H as [N P]. split; [|apply psafeb_psafe, P].
  exists cmd. split; [reflexivity|exact N].
Qed.
Lemma sep_ok_lf c0 t : sep_ok c0 t = true -> c0 = 10 -> forall ln, eq_char (fst (skip_space_ret t ln)) 94 = false.
Proof.
  intros HL E ln0. subst c0. unfold sep_ok in HL. cbn [Z.eqb negb orb] in HL. apply negb_true_iff in HL.
  unfold skip_space_ret in *. rewrite (skip_space_ret_f_ln _ t ln0 0). exact HL.
Qed.
Lemma app_cons_assoc (cmd : list Z) c0 t : (cmd ++ [c0]) ++ t = cmd ++ c0 :: t.
Proof. rewrite <- app_assoc. reflexivity. Qed.

Section Wrap.
  Variable A : Type.
  (* a reader that cannot fail *)
  Variable F : list Z -> Z -> A * list Z * Z.
  Hypothesis Floc : forall c0 t, (c0 = 10 -> forall ln, eq_char (fst (skip_space_ret t ln)) 94 = false) ->
    forall e ln X, F e ln = X -> pre c0 e -> k3 c0 X -> F (e ++ t) ln = ext3 t X.
  Lemma local3 cmd c0 t ln v ln1 :
    F (cmd ++ [c0]) ln = (v, [c0], ln1) -> text_ok cmd c0 = true -> sep_ok c0 t = true ->
    F (cmd ++ c0 :: t) ln = (v, c0 :: t, ln1).
  Proof.
    intros H T S. rewrite <- app_cons_assoc.
    rewrite (Floc c0 t (sep_ok_lf c0 t S) _ ln _ H (text_ok_pre cmd c0 T)); [reflexivity|apply suffix_refl].
  Qed.
  (* a reader with an outcome *)
  Variable G : list Z -> Z -> res (A * list Z * Z).
  Hypothesis Gloc : forall c0 t, (c0 = 10 -> forall ln, eq_char (fst (skip_space_ret t ln)) 94 = false) ->
    forall e ln X, G e ln = X -> pre c0 e -> kr3 c0 X -> G (e ++ t) ln = extr3 t X.
  Lemma localr3 cmd c0 t ln v ln1 :
    G (cmd ++ [c0]) ln = Ok (v, [c0], ln1) -> text_ok cmd c0 = true -> sep_ok c0 t = true ->
    G (cmd ++ c0 :: t) ln = Ok (v, c0 :: t, ln1).
  Proof.
    intros H T S. rewrite <- app_cons_assoc.
    rewrite (Gloc c0 t (sep_ok_lf c0 t S) _ ln _ H (text_ok_pre cmd c0 T)); [reflexivity|apply suffix_refl].
  Qed.
End Wrap.

Theorem readers_local : forall (tb : Z) (cmd : list Z) (c0 : Z) (t : list Z) (ln : Z), text_ok cmd c0 = true -> sep_ok c0 t = true ->
  (forall tk ln1, read_note_n tb (cmd ++ [c0]) ln = Ok (tk, [c0], ln1) -> read_note_n tb (cmd ++ c0 :: t) ln = Ok (tk, c0 :: t, ln1)) /\
  (forall tk ln1, read_length tb (cmd ++ [c0]) ln = Ok (tk, [c0], ln1) -> read_length tb (cmd ++ c0 :: t) ln = Ok (tk, c0 :: t, ln1)) /\
  (forall tk ln1, read_octave tb (cmd ++ [c0]) ln = Ok (tk, [c0], ln1) -> read_octave tb (cmd ++ c0 :: t) ln = Ok (tk, c0 :: t, ln1)) /\
  (forall tk ln1, read_velocity tb (cmd ++ [c0]) ln = Ok (tk, [c0], ln1) -> read_velocity tb (cmd ++ c0 :: t) ln = Ok (tk, c0 :: t, ln1)) /\
  (forall tk ln1, read_qlen tb (cmd ++ [c0]) ln = Ok (tk, [c0], ln1) -> read_qlen tb (cmd ++ c0 :: t) ln = Ok (tk, c0 :: t, ln1)) /\
  (forall tk ln1, read_timing tb (cmd ++ [c0]) ln = Ok (tk, [c0], ln1) -> read_timing tb (cmd ++ c0 :: t) ln = Ok (tk, c0 :: t, ln1)) /\
  (forall tk ln1, read_loop tb (cmd ++ [c0]) ln = Ok (tk, [c0], ln1) -> read_loop tb (cmd ++ c0 :: t) ln = Ok (tk, c0 :: t, ln1)) /\
  (forall big tk ln1, read_pitch_bend big tb (cmd ++ [c0]) ln = Ok (tk, [c0], ln1) -> read_pitch_bend big tb (cmd ++ c0 :: t) ln = Ok (tk, c0 :: t, ln1)).
Proof.
  intros tb cmd c0 t ln T S.
  repeat split; intros.
  - exact (localr3 tok (read_note_n tb) (fun c0 t H => read_note_n_loc c0 t H tb) cmd c0 t ln _ _ H T S).
  - exact (localr3 (option tok) (read_length tb) (fun c0 t H => read_length_loc c0 t H tb) cmd c0 t ln _ _ H T S).
  - exact (localr3 (option tok) (read_octave tb) (fun c0 t H => read_octave_loc c0 t H tb) cmd c0 t ln _ _ H T S).
  - exact (localr3 (option tok) (read_velocity tb) (fun c0 t H => read_velocity_loc c0 t H tb) cmd c0 t ln _ _ H T S).
  - exact (localr3 (option tok) (read_qlen tb) (fun c0 t H => read_qlen_loc c0 t H tb) cmd c0 t ln _ _ H T S).
  - exact (localr3 (option tok) (read_timing tb) (fun c0 t H => read_timing_loc c0 t H tb) cmd c0 t ln _ _ H T S).
  - exact (localr3 tok (read_loop tb) (fun c0 t H => read_loop_loc c0 t H tb) cmd c0 t ln _ _ H T S).
  - exact (localr3 tok (read_pitch_bend big tb) (fun c0 t H => read_pitch_bend_loc c0 t H big tb) cmd c0 t ln _ _ H T S).
Qed.

(* ------------------------------------------------------------------------------------------ *)
(* programs: complete commands, each followed by a (possibly empty) layout                       *)
(* ------------------------------------------------------------------------------------------ *)
Definition cprog := list (list Z * list litem).
Fixpoint print_cprog (p : cprog) : list Z :=
  match p with [] => [] | (cmd, its) :: p' => cmd ++ print_items its ++ print_cprog p' end.
Fixpoint cfuel (p : cprog) : nat := match p with [] => O | (_, its) :: p' => S (length its + cfuel p') end.

(* the commands are read one by one, each IN ISOLATION: one iteration of the loop is run on the text of the command followed
   by nothing but the ONE character that follows it in the program (the first character of its layout, or of the next
   command), from the state the commands before it have led to; it must stop exactly at that character and write nothing
   to the log.  The last command of a text is followed by nothing. *)
Inductive runs (f : nat) : lexstate -> Z -> bool -> list tok -> cprog -> list Z -> lexstate -> Z -> bool -> list tok -> Prop :=
| runs_nil ls ln h acc rest : runs f ls ln h acc [] rest ls ln h acc
| runs_last ls ln h acc c cmd ls1 ln1 h1 acc1 :
    arm (lex_f f) ls (c :: cmd) ln h acc = Next ls1 [] ln1 h1 acc1 ->
    runs f ls ln h acc [(c :: cmd, [])] [] ls1 ln1 h1 acc1
| runs_cons ls ln h acc c cmd its p rest c0 F ls1 ln1 h1 acc1 ls' ln' h' acc' :
    print_items its ++ print_cprog p ++ rest = c0 :: F ->
    forallb litem_ok its = true -> forallb is_layout its = true ->
    cmd_ok c cmd c0 = true -> sep_ok c0 F = true ->
    arm (lex_f f) ls (c :: cmd ++ [c0]) ln h acc = Next ls1 [c0] ln1 h1 acc1 -> lx_logs ls1 = lx_logs ls ->
    runs f ls1 (ln1 + items_lines its) h1 (acc1 ++ items_toks ln1 its) p rest ls' ln' h' acc' ->
    runs f ls ln h acc ((c :: cmd, its) :: p) rest ls' ln' h' acc'.

Theorem runs_loop f ls ln h acc p rest ls' ln' h' acc' :
  runs f ls ln h acc p rest ls' ln' h' acc' ->
  forall n, LOOP f (cfuel p + n) ls (print_cprog p ++ rest) ln h acc = LOOP f n ls' rest ln' h' acc'.
Proof.
  induction 1 as [|ls ln h acc c cmd ls1 ln1 h1 acc1 Harm
                  |ls ln h acc c cmd its p rest c0 F ls1 ln1 h1 acc1 ls' ln' h' acc' HF Hok Hlay Hco Hso Harm Hlog Hr IH]; intros n.
  - reflexivity.
  - cbn [cfuel print_cprog print_items length Nat.add app]. rewrite !app_nil_r. unfold LOOP. rewrite LOOPG_arm, Harm. reflexivity.
  - cbn [cfuel print_cprog Nat.add]. rewrite <- !app_assoc. cbn [app]. rewrite HF.
    rewrite (loop_cmd_local f _ ls c cmd c0 F ln h acc ls1 ln1 h1 acc1 Harm Hco Hso Hlog).
    rewrite <- HF. rewrite <- Nat.add_assoc.
    rewrite (items_run f (cfuel p + n) its ls1 (print_cprog p ++ rest) ln1 h1 acc1 Hok).
    rewrite (items_ls_layout its ls1 _ ln1 Hlay). apply IH.
Qed.

Lemma cfuel_length p : (forall cmd its, In (cmd, its) p -> cmd <> []) -> (cfuel p <= length (print_cprog p))%nat.
Proof.
  induction p as [|[cmd its] p IH]; intros H; cbn [cfuel print_cprog]; [lia|].
  rewrite !app_length. pose proof (print_items_length its). specialize (IH (fun c i Hin => H c i (or_intror Hin))).
  assert (cmd <> []) by (apply (H cmd its); left; reflexivity). destruct cmd; [contradiction|]. cbn [length]. lia.
Qed.
Lemma runs_nonempty f ls ln h acc p rest ls' ln' h' acc' :
  runs f ls ln h acc p rest ls' ln' h' acc' -> forall cmd its, In (cmd, its) p -> cmd <> [].
Proof.
  induction 1; intros cmd0 its0 Hin; [destruct Hin| |].
  - destruct Hin as [E|[]]. injection E as <- _. discriminate.
  - destruct Hin as [E|Hin]; [injection E as <- _; discriminate|]. eapply IHruns. exact Hin.
Qed.

(* the whole lexer: a leading layout, then the program; the tokens and the lexer state are those of the isolated runs *)
Theorem lex_cprog its0 p ls ln ls' ln' h' acc' :
  forallb litem_ok its0 = true -> forallb is_layout its0 = true ->
  lex_pre (print_items its0 ++ print_cprog p) = false ->
  runs (length (print_items its0 ++ print_cprog p)) ls (ln + items_lines its0) false ([TLineNo ln] ++ items_toks ln its0) p [] ls' ln' h' acc' ->
  lex ls (print_items its0 ++ print_cprog p) ln = Ok (acc', ls').
Proof.
  intros H0 L0 NF HR. rewrite (lex_unfold_plain _ _ _ NF).
  set (src := print_items its0 ++ print_cprog p) in *.
  pose proof (print_items_length its0) as A. pose proof (cfuel_length p (runs_nonempty _ _ _ _ _ _ _ _ _ _ _ HR)) as B.
  set (k := S (length src - length its0 - cfuel p)).
  assert (E : S (length src) = (length its0 + (cfuel p + k))%nat) by (unfold k, src; rewrite app_length; lia).
  rewrite E. unfold src at 2.
  rewrite (items_run (length src) (cfuel p + k) its0 ls (print_cprog p) ln false [TLineNo ln] H0).
  rewrite (items_ls_layout its0 ls _ ln L0).
  rewrite <- (app_nil_r (print_cprog p)). rewrite (runs_loop _ _ _ _ _ _ _ _ _ _ _ HR k).
  unfold k. cbn [LOOP LOOPG]. reflexivity.
Qed.

(* ---- an example: the same sixteen commands in two layouts ---- *)
Ltac runs_tac :=
  repeat first
    [ apply runs_nil
    | eapply runs_last; vm_compute; reflexivity
    | eapply runs_cons;
        [ vm_compute; reflexivity | vm_compute; reflexivity | reflexivity | vm_compute; reflexivity | vm_compute; reflexivity
        | vm_compute; reflexivity | reflexivity | ] ].
Definition ex_A : cprog :=
  [(zs "o5", [LSep 59]); (zs "l8", [LNewline]); (zs "c4,50 ", []); (zs "d", [LNewline]); (zs "TR(2)", [LSep 32]);
   (zs "[3", [LSep 32]); (zs "e", []); (zs "]", [LSep 32]); (zs "'", []); (zs "c", []); (zs "e", []); (zs "'4 ", []);
   (zs "@5", [LSep 59]); (zs "Sub{c}", [LSep 32]); (zs "v100", [LSep 32]); (zs "r", [])].
Definition ex_B : cprog :=
  [(zs "o5", [LSep 13; LNewline]); (zs "l8", [LSep 59; LSep 59]); (zs "c4,50 ", []); (zs "d|", []); (zs "TR(2)", [LNewline]);
   (zs "[3", [LSep 9]); (zs "e", []); (zs "]", [LSep 32]); (zs "'", []); (zs "c", []); (zs "e", []); (zs "'4 ", []);
   (zs "@5", [LSep 59]); (zs "Sub{c}", [LSep 32; LBlock (zs "x")]); (zs "v100", [LSep 32; LLine (zs " end")]); (zs "r", [])].
Definition ls00 : lexstate := mkLex 96 [] [] rhythm_rows false.
Example ex_texts :
  print_cprog ex_A = zs "o5;l8" ++ [10] ++ zs "c4,50 d" ++ [10] ++ zs "TR(2) [3 e] 'ce'4 @5;Sub{c} v100 r" /\
  print_cprog ex_B = zs "o5" ++ [13; 10] ++ zs "l8;;c4,50 d|TR(2)" ++ [10] ++ zs "[3" ++ [9] ++ zs "e] 'ce'4 @5;Sub{c} /*x*/v100 // end" ++ [10] ++ zs "r".
Proof. split; vm_compute; reflexivity. Qed.
Example ex_runs_A : exists ls' ln' h' acc',
  runs (length (print_cprog ex_A)) ls00 0 false [TLineNo 0] ex_A [] ls' ln' h' acc'.
Proof. do 4 eexists. unfold ex_A. runs_tac. Qed.
Example ex_runs_B : exists ls' ln' h' acc',
  runs (length (print_cprog ex_B)) ls00 0 false [TLineNo 0] ex_B [] ls' ln' h' acc'.
Proof. do 4 eexists. unfold ex_B. runs_tac. Qed.
(* hence both texts lex, and to the same tokens up to the line-number tokens *)
Example ex_same :
  exists tA tB lsA lsB, lex ls00 (print_cprog ex_A) 0 = Ok (tA, lsA) /\ lex ls00 (print_cprog ex_B) 0 = Ok (tB, lsB) /\
    erase_lineno tA = erase_lineno tB /\ (length (erase_lineno tA) = 16)%nat.
Proof.
  eexists. eexists. eexists. eexists. split; [vm_compute; reflexivity|]. split; [vm_compute; reflexivity|]. split; vm_compute; reflexivity.
Qed.
(* the theorem at work: the answer of the whole lexer follows from the sixteen isolated runs *)
Example ex_by_theorem : exists acc' ls', lex ls00 (print_cprog ex_B) 0 = Ok (acc', ls').
Proof.
  destruct ex_runs_B as (ls' & ln' & h' & acc' & HR). exists acc', ls'.
  apply (lex_cprog [] ex_B ls00 0 ls' ln' h' acc'); [reflexivity|reflexivity|vm_compute; reflexivity|exact HR].
Qed.
