(* C10: the expression reader (precedence climbing) builds, for every rendering of a syntax tree, a
   token tree whose evaluation is the tree's denotation; literal readers; built-in functions. *)
From Sakura.Model Require Import Base Cursor Length Expr.
From Sakura.Gen Require Import ExprConsts.
From Sakura.Spec Require Import ExprSpec.
From Sakura.Gen Require Import Consts.
From Sakura.Proofs Require Import NumeralP.
From Coq Require Import Lia.
Open Scope Z_scope.

(* ================================================================================================ *)
(* 0. skip_space                                                                                      *)
(* ================================================================================================ *)
Definition stop_pt (s : list Z) : Prop :=
  match s with
  | [] => True
  | c :: _ => c <> 9 /\ c <> 32 /\ prefixb [c_SLASH; c_STAR] s = false
  end.

Lemma skip_space_f_stop f s ln : stop_pt s -> skip_space_f (S f) s ln = (s, ln).
Proof.
  destruct s as [|c r]; [reflexivity|]. intros (H9 & H32 & Hc).
  cbn [skip_space_f]. unfold c_TAB, c_SP.
  replace (c =? 9) with false by lia. replace (c =? 32) with false by lia. cbn [orb].
  rewrite Hc. destruct (c =? c_SLASH); reflexivity.
Qed.

Lemma get_token_s_len sp : forall s ln t r ln', get_token_s sp s ln = (t, r, ln') -> (length r <= length s)%nat.
Proof.
  induction s as [|c s IH]; intros ln t r ln' H.
  - cbn in H. inversion H. cbn. lia.
  - cbn [get_token_s] in H. destruct (prefixb sp (c :: s)).
    + inversion H. subst. rewrite skipn_length. lia.
    + destruct (get_token_s sp s (if c =? c_NL then ln + 1 else ln)) as [[t1 r1] l1] eqn:E.
      inversion H. subst. apply IH in E. cbn [length]. lia.
Qed.

Lemma skip_space_f_reaches_stop : forall f s ln, (length s < f)%nat -> stop_pt (fst (skip_space_f f s ln)).
Proof.
  induction f as [|f IH]; intros s ln Hl; [lia|].
  destruct s as [|c r]; [exact I|].
  cbn [skip_space_f].
  destruct ((c =? c_TAB) || (c =? c_SP)) eqn:Eb.
  - apply IH. cbn [length] in Hl. lia.
  - destruct (c =? c_SLASH) eqn:Es.
    + destruct (prefixb [c_SLASH; c_STAR] (c :: r)) eqn:Ep.
      * assert (Hc : c = 47) by (unfold c_SLASH in Es; lia). subst c.
        cbn [get_token_s].
        replace (prefixb [c_STAR; c_SLASH] (47 :: r)) with false by reflexivity.
        destruct (get_token_s [c_STAR; c_SLASH] r (if 47 =? c_NL then ln + 1 else ln)) as [[t r'] ln'] eqn:Eg.
        apply IH. apply get_token_s_len in Eg. cbn [length] in Hl. lia.
      * cbn [fst]. unfold stop_pt. unfold c_TAB, c_SP in Eb. repeat split; try lia. exact Ep.
    + cbn [fst]. unfold stop_pt. unfold c_TAB, c_SP in Eb. repeat split; try lia.
      cbn [prefixb]. rewrite Z.eqb_sym. rewrite Es. reflexivity.
Qed.

Lemma sksp_stop s : stop_pt s -> sksp s = s.
Proof. intros H. unfold sksp, skip_space. rewrite skip_space_f_stop by assumption. reflexivity. Qed.

Lemma sksp_is_stop s : stop_pt (sksp s).
Proof. unfold sksp, skip_space. apply skip_space_f_reaches_stop. lia. Qed.

Lemma sksp_idem s : sksp (sksp s) = sksp s.
Proof. apply sksp_stop, sksp_is_stop. Qed.

Lemma sksp_blanks ws : forall r, blanks ws -> sksp (ws ++ r) = sksp r.
Proof.
  unfold blanks, sksp, skip_space. induction ws as [|c ws IH]; intros r H; [reflexivity|].
  cbn [forallb] in H. apply andb_prop in H. destruct H as [Hc Hws].
  cbn [app length skip_space_f]. unfold is_blank in Hc. unfold c_TAB, c_SP.
  replace ((c =? 9) || (c =? 32)) with true by lia.
  apply IH. assumption.
Qed.

Lemma sksp_nil : sksp [] = [].
Proof. reflexivity. Qed.

(* a character at which skip_space stays: not a blank and not '/' *)
Definition solid (c : Z) : Prop := c <> 9 /\ c <> 32 /\ c <> 47.
Lemma sksp_solid c r : solid c -> sksp (c :: r) = c :: r.
Proof.
  intros (H1 & H2 & H3). apply sksp_stop. cbn [stop_pt]. repeat split; try assumption.
  cbn [prefixb]. unfold c_SLASH. replace (47 =? c) with false by lia. reflexivity.
Qed.
Lemma sksp_slash c r : c <> 42 -> sksp (47 :: c :: r) = 47 :: c :: r.
Proof.
  intros H. apply sksp_stop. cbn [stop_pt]. repeat split; try lia.
  cbn [prefixb]. unfold c_STAR. replace (42 =? c) with false by lia. rewrite andb_false_r. reflexivity.
Qed.

(* ================================================================================================ *)
(* 1. operators                                                                                       *)
(* ================================================================================================ *)
Definition opch (o : op) : Z :=
  match o with
  | OMul => 42 | ODiv => 47 | OMod => 37 | OAdd => 43 | OSub => 45
  | OEq | OEq2 => 61 | ONe | ONe2 => c_NE | OLt => 60 | OLe => c_LE | OGt => 62 | OGe => c_GE
  | OAnd => 38 | OOr => 124
  end.
Definition prio (o : op) : Z := op_priority (opch o).
(* the largest priority value of an operator of level <= l = the least of an operator of level >= l *)
Definition P (l : nat) : Z :=
  match l with O => 0 | 1%nat => LEX_MUL_DIV | 2%nat => LEX_PLUS_MINUS | 3%nat => LEX_COMPARE | _ => LEX_OR_AND end.

(* the regenerated table of read_operator gives the four levels of the specification *)
Lemma prio_lvl o : prio o = P (lvl o).
Proof. destruct o; reflexivity. Qed.
Lemma P_mono a b : (a <= b)%nat -> P a <= P b.
Proof.
  intros H. destruct a as [|[|[|[|a]]]]; destruct b as [|[|[|[|b]]]]; try lia; vm_compute; congruence.
Qed.
Lemma P_pred o : P (lvl o - 1) <= prio o - 1.
Proof. destruct o; vm_compute; congruence. Qed.
Lemma P_top : P 4 = LEX_OR_AND.
Proof. reflexivity. Qed.
Lemma lvl_pos o : (1 <= lvl o)%nat.
Proof. destruct o; cbn; lia. Qed.

Definition operand_start (c : Z) : bool :=
  is_digit c || (c =? 36) || is_letter c || (c =? 45) || (c =? 40) || (c =? 123).
Definition first_ok (s : list Z) : Prop :=
  match s with c :: _ => is_blank c || operand_start c = true | [] => False end.

Lemma first_ok_facts c : is_blank c || operand_start c = true ->
  c <> 61 /\ c <> 62 /\ c <> 42 /\ c <> 47 /\ c <> 43 /\ c <> 33 /\ c <> 60 /\ c <> 38 /\ c <> 124 /\ c <> 37 /\ c <> 0
  /\ c <> c_GE /\ c <> c_LE /\ c <> c_NE.
Proof.
  unfold is_blank, operand_start, is_digit, is_letter, in_range, c_GE, c_LE, c_NE. lia.
Qed.

Lemma read_operator_opstr o ws rest : blanks ws -> first_ok rest ->
  read_operator (ws ++ opstr o ++ rest) = Some (opch o, prio o, rest).
Proof.
  intros Hws Hf. destruct rest as [|c rest]; [destruct Hf|]. cbn [first_ok] in Hf.
  apply first_ok_facts in Hf. unfold c_GE, c_LE, c_NE in Hf.
  destruct Hf as (F1 & F2 & F3 & F4 & F5 & F6 & F7 & F8 & F9 & F10 & F11 & F12 & F13 & F14).
  unfold read_operator. rewrite sksp_blanks by assumption.
  assert (Hs : sksp (opstr o ++ c :: rest) = opstr o ++ c :: rest).
  { destruct o; cbn [opstr app]; try (apply sksp_solid; unfold solid; lia).
    apply sksp_slash. assumption. }
  rewrite Hs. unfold prio.
  destruct o; cbn [opstr app peek0 opch];
    match goal with |- context [is_operator_char ?k] => change (is_operator_char k) with true end;
    cbn [negb prefixb skipn tl]; unfold c_GE, c_LE, c_NE;
    repeat match goal with
    | |- context [?a =? c] => replace (a =? c) with false by lia
    end;
    reflexivity.
Qed.

(* ================================================================================================ *)
(* 2. literals                                                                                        *)
(* ================================================================================================ *)
Definition dg (d : Z) : Z := 48 + d.
(* what may follow a number or a name: nothing, or a character that is not a letter, digit or '_' *)
Definition nw (r : list Z) : Prop := match r with [] => True | c :: _ => is_word_ch c = false end.

Lemma nw_facts c : is_word_ch c = false ->
  is_digit c = false /\ is_oct_digit c = false /\ hex_val c = None /\ c <> 120 /\ c <> 111 /\ c <> 48.
Proof.
  unfold is_word_ch, is_upper, is_lower, is_digit, is_oct_digit, hex_val, is_digit. intros H.
  repeat split; try lia.
  replace ((48 <=? c) && (c <=? 57)) with false by lia.
  replace ((97 <=? c) && (c <=? 102)) with false by lia.
  replace ((65 <=? c) && (c <=? 70)) with false by lia. reflexivity.
Qed.

Lemma numeral_cap_is_code : numeral_cap = NUMERAL_MAX.
Proof. reflexivity. Qed.

Lemma value_in_horner base ds : forall acc, value_in base acc ds = horner base acc ds.
Proof. induction ds as [|d ds IH]; intros acc; cbn [value_in horner]; [reflexivity|apply IH]. Qed.

Lemma range_nonneg lo hi ds : 0 <= lo -> forallb (in_range lo hi) ds = true -> Forall (fun d => 0 <= d) ds.
Proof.
  intros Hlo H. rewrite forallb_forall in H. apply Forall_forall. intros x Hx. specialize (H x Hx).
  unfold in_range in H. lia.
Qed.

(* capping each digit step = the value in the base, capped once *)
Lemma sat_value base ds : 1 <= base -> Forall (fun d => 0 <= d) ds ->
  horner_sat base 0 ds = Z.min (value_in base 0 ds) numeral_cap.
Proof.
  intros Hb Hd. rewrite horner_sat_min; [|assumption|assumption|pose proof numeral_max_pos; lia].
  reflexivity.
Qed.

Lemma hex_nonneg (ds : list (Z * bool)) :
  forallb (fun d => in_range 0 15 (fst d)) ds = true -> Forall (fun d => 0 <= d) (map fst ds).
Proof.
  intros H. rewrite forallb_forall in H. apply Forall_forall. intros x Hx. apply in_map_iff in Hx.
  destruct Hx as (y & <- & Hy). specialize (H y Hy). unfold in_range in H. lia.
Qed.

Lemma take_dec_digits ds : forall acc r,
  forallb (in_range 0 9) ds = true -> nw r ->
  take_dec acc (map (fun d => 48 + d) ds ++ r) = (horner_sat 10 acc ds, r).
Proof.
  induction ds as [|d ds IH]; intros acc r Hd Hr.
  - cbn [map app horner_sat]. destruct r as [|c r]; [reflexivity|].
    cbn [take_dec]. cbn [nw] in Hr. apply nw_facts in Hr. destruct Hr as (H & _). rewrite H. reflexivity.
  - cbn [forallb] in Hd. apply andb_prop in Hd. destruct Hd as [Hd Hds].
    cbn [map app take_dec horner_sat]. unfold in_range in Hd.
    replace (is_digit (48 + d)) with true by (unfold is_digit; lia).
    replace (acc * 10 + (48 + d - 48)) with (acc * 10 + d) by lia.
    apply IH; assumption.
Qed.

(* the code's "octal" digits are 0..8 *)
Lemma take_oct_digits ds : forall acc r,
  forallb (in_range 0 8) ds = true -> nw r ->
  take_oct acc (map (fun d => 48 + d) ds ++ r) = (horner_sat 8 acc ds, r).
Proof.
  induction ds as [|d ds IH]; intros acc r Hd Hr.
  - cbn [map app horner_sat]. destruct r as [|c r]; [reflexivity|].
    cbn [take_oct]. cbn [nw] in Hr. apply nw_facts in Hr. destruct Hr as (_ & H & _). rewrite H. reflexivity.
  - cbn [forallb] in Hd. apply andb_prop in Hd. destruct Hd as [Hd Hds].
    cbn [map app take_oct horner_sat]. unfold in_range in Hd.
    replace (is_oct_digit (48 + d)) with true by (unfold is_oct_digit; lia).
    replace (acc * 8 + (48 + d - 48)) with (acc * 8 + d) by lia.
    apply IH; assumption.
Qed.

Lemma hex_val_char d : in_range 0 15 (fst d) = true -> hex_val (hex_char d) = Some (fst d).
Proof.
  unfold in_range, hex_char, hex_val, is_digit. intros H. destruct d as [v u]. cbn [fst snd] in *.
  destruct (v <? 10) eqn:E.
  - replace ((48 <=? 48 + v) && (48 + v <=? 57)) with true by lia. f_equal. lia.
  - destruct u.
    + replace ((48 <=? 65 + (v - 10)) && (65 + (v - 10) <=? 57)) with false by lia.
      replace ((97 <=? 65 + (v - 10)) && (65 + (v - 10) <=? 102)) with false by lia.
      replace ((65 <=? 65 + (v - 10)) && (65 + (v - 10) <=? 70)) with true by lia. f_equal. lia.
    + replace ((48 <=? 97 + (v - 10)) && (97 + (v - 10) <=? 57)) with false by lia.
      replace ((97 <=? 97 + (v - 10)) && (97 + (v - 10) <=? 102)) with true by lia. f_equal. lia.
Qed.

Lemma take_hex_digits ds : forall acc r,
  forallb (fun d => in_range 0 15 (fst d)) ds = true -> nw r ->
  take_hex acc (map hex_char ds ++ r) = (horner_sat 16 acc (map fst ds), r).
Proof.
  induction ds as [|d ds IH]; intros acc r Hd Hr.
  - cbn [map app horner_sat]. destruct r as [|c r]; [reflexivity|].
    cbn [take_hex]. cbn [nw] in Hr. apply nw_facts in Hr. destruct Hr as (_ & _ & H & _). rewrite H. reflexivity.
  - cbn [forallb] in Hd. apply andb_prop in Hd. destruct Hd as [Hd Hds].
    cbn [map app take_hex horner_sat]. rewrite hex_val_char by assumption.
    apply IH; assumption.
Qed.

Lemma hex_char_facts d : in_range 0 15 (fst d) = true ->
  hex_char d <> 120 /\ hex_char d <> 111 /\ hex_char d <> 36 /\ hex_char d <> 45 /\ is_word_ch (hex_char d) = true.
Proof.
  unfold in_range, hex_char, is_word_ch, is_upper, is_lower, is_digit. destruct d as [v u]. cbn [fst snd].
  intros H. destruct (v <? 10) eqn:E; [|destruct u]; lia.
Qed.

(* "0x" / "0o" is not seen at the start of a digit string followed by a non-word character *)
Lemma no_zero_prefix k cs r :
  (forall c, In c cs -> c <> k) -> (forall c, is_word_ch c = false -> c <> k) -> nw r -> k <> 48 ->
  prefixb [48; k] (cs ++ r) = false \/ exists c2 cs2, cs = 48 :: c2 :: cs2 /\ False.
Proof.
  intros Hcs Hk Hr Hk0. left.
  destruct cs as [|c1 cs]; cbn [app].
  - destruct r as [|c r]; [reflexivity|]. cbn [prefixb]. cbn [nw] in Hr.
    destruct (nw_facts c Hr) as (_ & _ & _ & _ & _ & H48). replace (48 =? c) with false by lia. reflexivity.
  - cbn [prefixb]. destruct (48 =? c1); [|reflexivity]. cbn [andb].
    destruct cs as [|c2 cs]; cbn [app].
    + destruct r as [|c r]; [reflexivity|]. cbn [prefixb nw] in *. specialize (Hk c Hr).
      replace (k =? c) with false by lia. reflexivity.
    + cbn [prefixb]. assert (c2 <> k) by (apply Hcs; right; left; reflexivity).
      replace (k =? c2) with false by lia. reflexivity.
Qed.

Lemma nw_not_x c : is_word_ch c = false -> c <> 120.
Proof. intros H. apply nw_facts in H. lia. Qed.
Lemma nw_not_o c : is_word_ch c = false -> c <> 111.
Proof. intros H. apply nw_facts in H. lia. Qed.

Lemma eq_char_cons c r k : eq_char (c :: r) k = (c =? k).
Proof. reflexivity. Qed.

Lemma get_int_lit n r def : lit_ok n = true -> nw r -> get_int def (lit_text n ++ r) = (lit_value n, r).
Proof.
  intros Hok Hr. destruct n as [ds | dollar ds | ds]; cbn [lit_ok] in Hok; apply andb_prop in Hok; destruct Hok as [Hne Hd].
  - (* decimal *)
    destruct ds as [|d ds]; [discriminate|]. clear Hne. cbn [lit_text lit_value].
    set (cs := map (fun d0 => 48 + d0) (d :: ds)).
    assert (Hin : forall c, In c cs -> 48 <= c <= 57).
    { intros c Hc. unfold cs in Hc. apply in_map_iff in Hc. destruct Hc as (x & <- & Hx).
      rewrite forallb_forall in Hd. specialize (Hd x Hx). unfold in_range in Hd. lia. }
    assert (Hx : prefixb [48; 120] (cs ++ r) = false).
    { destruct (no_zero_prefix 120 cs r) as [H | (? & ? & _ & [])]; auto; try lia.
      - intros c Hc. apply Hin in Hc. lia. - exact nw_not_x. }
    assert (Ho : prefixb [48; 111] (cs ++ r) = false).
    { destruct (no_zero_prefix 111 cs r) as [H | (? & ? & _ & [])]; auto; try lia.
      - intros c Hc. apply Hin in Hc. lia. - exact nw_not_o. }
    unfold get_int. unfold c_0, c_x, c_o, c_MINUS, c_DOLLAR.
    assert (Hhd : exists c0 t0, cs ++ r = c0 :: t0 /\ 48 <= c0 <= 57).
    { unfold cs. cbn [map app]. eexists. eexists. split; [reflexivity|].
      cbn [forallb] in Hd. apply andb_prop in Hd. unfold in_range in Hd. lia. }
    destruct Hhd as (c0 & t0 & E0 & R0).
    replace (eq_char (cs ++ r) 45) with false by (rewrite E0; cbn [eq_char]; lia).
    rewrite Hx. replace (eq_char (cs ++ r) 36) with false by (rewrite E0; cbn [eq_char]; lia).
    cbn [orb]. rewrite Ho.
    replace (is_numeric (cs ++ r)) with true by (rewrite E0; cbn [is_numeric]; unfold is_digit; lia).
    cbn [negb]. unfold cs. rewrite take_dec_digits by assumption.
    rewrite sat_value by first [lia | apply (range_nonneg 0 9); [lia|assumption]]. f_equal. unfold lit_value. lia.
  - (* hex *)
    destruct ds as [|d ds]; [discriminate|]. clear Hne. cbn [lit_value].
    pose proof Hd as Hd'. cbn [forallb] in Hd'. apply andb_prop in Hd'. destruct Hd' as [Hd1 _].
    destruct (hex_char_facts d Hd1) as (Nx & No & Nd & Nm & _).
    assert (Hhv : hex_val (hex_char d) = Some (fst d)) by (apply hex_val_char; assumption).
    assert (Hx0 : prefixb [48; 120] (map hex_char (d :: ds) ++ r) = false).
    { destruct (no_zero_prefix 120 (map hex_char (d :: ds)) r) as [H | (? & ? & _ & [])]; auto; try lia.
      - intros c Hc. apply in_map_iff in Hc. destruct Hc as (x & <- & Hxin).
        rewrite forallb_forall in Hd. specialize (Hd x Hxin). apply hex_char_facts in Hd. lia.
      - exact nw_not_x. }
    destruct dollar; cbn [lit_text app].
    + (* $.. *)
      unfold get_int. unfold c_0, c_x, c_o, c_MINUS, c_DOLLAR. cbn [eq_char prefixb].
      replace (36 =? 45) with false by reflexivity. replace (48 =? 36) with false by reflexivity.
      replace (36 =? 36) with true by reflexivity. cbn [andb orb].
      cbv beta iota zeta.
      unfold get_hex. unfold c_0, c_x, c_MINUS, c_DOLLAR.
      do 3 (rewrite ?eq_char_cons; change (36 =? 45) with false; change (36 =? 36) with true;
            cbv beta iota zeta; cbn [tl]).
      rewrite Hx0. cbn [map app peek0]. rewrite Hhv.
      change (hex_char d :: map hex_char ds ++ r) with (map hex_char (d :: ds) ++ r).
      rewrite take_hex_digits by assumption. cbv beta iota zeta.
      rewrite sat_value by first [lia | apply hex_nonneg; assumption].
      rewrite wrap_sign_lt by (unfold numeral_cap; lia). f_equal. unfold lit_value. cbn [map]. lia.
    + (* 0x.. *)
      unfold get_int. unfold c_0, c_x, c_o, c_MINUS, c_DOLLAR. cbn [eq_char prefixb].
      replace (48 =? 45) with false by reflexivity. replace (48 =? 48) with true by reflexivity.
      replace (120 =? 120) with true by reflexivity. cbn [andb orb].
      cbv beta iota zeta.
      unfold get_hex. unfold c_0, c_x, c_MINUS, c_DOLLAR.
      do 3 (rewrite ?eq_char_cons; change (48 =? 45) with false; change (48 =? 36) with false;
            cbv beta iota zeta; cbn [tl]).
      cbn [prefixb]. change (48 =? 48) with true. change (120 =? 120) with true.
      cbn [andb]. cbv beta iota zeta. cbn [skipn map app peek0]. rewrite Hhv.
      change (hex_char d :: map hex_char ds ++ r) with (map hex_char (d :: ds) ++ r).
      rewrite take_hex_digits by assumption. cbv beta iota zeta.
      rewrite sat_value by first [lia | apply hex_nonneg; assumption].
      rewrite wrap_sign_lt by (unfold numeral_cap; lia). f_equal. unfold lit_value. cbn [map]. lia.
  - (* octal *)
    destruct ds as [|d ds]; [discriminate|]. clear Hne. cbn [lit_text lit_value app].
    assert (Hd8 : forallb (in_range 0 8) (d :: ds) = true).
    { rewrite forallb_forall in *. intros x Hx. specialize (Hd x Hx). unfold in_range in *. lia. }
    pose proof Hd as Hd'. cbn [forallb] in Hd'. apply andb_prop in Hd'. destruct Hd' as [Hd1 _]. unfold in_range in Hd1.
    unfold get_int. unfold c_0, c_x, c_o, c_MINUS, c_DOLLAR. cbn [eq_char prefixb].
    do 3 (rewrite ?eq_char_cons; change (48 =? 45) with false; change (48 =? 36) with false; cbv beta iota zeta).
    cbn [prefixb].
    change (48 =? 48) with true. change (120 =? 111) with false. change (111 =? 111) with true.
    cbn [andb orb skipn map app peek0].
    replace (is_oct_digit (48 + d)) with true by (unfold is_oct_digit; lia). cbn [andb negb].
    change ((48 + d) :: map (fun d0 => 48 + d0) ds ++ r) with (map (fun d0 => 48 + d0) (d :: ds) ++ r).
    rewrite take_oct_digits by assumption. cbv beta iota zeta.
    rewrite sat_value by first [lia | apply (range_nonneg 0 8); [lia|assumption]]. f_equal. unfold lit_value. lia.
Qed.

(* what the code does with the digit 8 after "0o": it is accepted with the value 8 *)
Lemma get_int_octal_8 ds r def : ds <> [] -> forallb (in_range 0 8) ds = true -> nw r ->
  get_int def (48 :: 111 :: map (fun d => 48 + d) ds ++ r) = (Z.min (value_in 8 0 ds) numeral_cap, r).
Proof.
  intros Hne Hd Hr. destruct ds as [|d ds]; [congruence|].
  pose proof Hd as Hd'. cbn [forallb] in Hd'. apply andb_prop in Hd'. destruct Hd' as [Hd1 _]. unfold in_range in Hd1.
  unfold get_int. unfold c_0, c_x, c_o, c_MINUS, c_DOLLAR. cbn [eq_char prefixb].
  do 3 (rewrite ?eq_char_cons; change (48 =? 45) with false; change (48 =? 36) with false; cbv beta iota zeta).
  cbn [prefixb].
  change (48 =? 48) with true. change (120 =? 111) with false. change (111 =? 111) with true.
  cbn [andb orb skipn map app peek0].
  replace (is_oct_digit (48 + d)) with true by (unfold is_oct_digit; lia). cbn [andb negb].
  change ((48 + d) :: map (fun d0 => 48 + d0) ds ++ r) with (map (fun d0 => 48 + d0) (d :: ds) ++ r).
  rewrite take_oct_digits by assumption. cbv beta iota zeta.
  rewrite sat_value by first [lia | apply (range_nonneg 0 8); [lia|assumption]]. f_equal. unfold lit_value. lia.
Qed.

(* ================================================================================================ *)
(* 3. names and string constants                                                                      *)
(* ================================================================================================ *)
Lemma is_word_char_ch c : is_word_char c = is_word_ch c.
Proof. unfold is_word_char, is_letter, in_range, is_word_ch, is_upper, is_lower, is_digit. lia. Qed.

Lemma take_word_name x : forall r, forallb is_word_char x = true -> nw r -> take_word (x ++ r) = (x, r).
Proof.
  induction x as [|c x IH]; intros r Hx Hr.
  - cbn [app]. destruct r as [|c r]; [reflexivity|]. cbn [take_word nw] in *. rewrite Hr. reflexivity.
  - cbn [forallb] in Hx. apply andb_prop in Hx. destruct Hx as [Hc Hx].
    cbn [app take_word]. rewrite is_word_char_ch in Hc. rewrite Hc. rewrite IH by assumption. reflexivity.
Qed.

Lemma name_ok_inv x : name_ok x = true ->
  exists c x', x = c :: x' /\ is_letter c = true /\ forallb is_word_char x = true.
Proof.
  destruct x as [|c x']; [discriminate|]. cbn [name_ok]. intros H. apply andb_prop in H. destruct H as [H1 H2].
  exists c, x'. repeat split; try assumption. cbn [forallb]. rewrite H2. unfold is_word_char. rewrite H1. reflexivity.
Qed.

Lemma get_word_name x r : name_ok x = true -> nw r -> get_word (x ++ r) = (x, r).
Proof.
  intros Hx Hr. destruct (name_ok_inv x Hx) as (c & x' & -> & Hc & Hall).
  unfold get_word. cbn [app eq_char].
  replace (c =? 35) with false by (unfold is_letter, in_range in Hc; lia).
  change (c :: x' ++ r) with ((c :: x') ++ r). apply take_word_name; assumption.
Qed.

Lemma nest_str s : forall r, str_ok s = true -> nest_loop 123 125 1 (s ++ 125 :: r) = (s, r).
Proof.
  induction s as [|x s IH]; intros r H.
  - reflexivity.
  - cbn [str_ok forallb] in H. apply andb_prop in H. destruct H as [Hx Hs].
    cbn [app nest_loop].
    replace (x =? 123) with false by lia. replace (x =? 125) with false by lia.
    rewrite IH by assumption. reflexivity.
Qed.

(* ================================================================================================ *)
(* 4. the reader as a big-step relation with explicit fuel bounds                                     *)
(* ================================================================================================ *)
Section Reader.
Variable tb : Z.
Variable lexvars : list (list Z).
Notation rv := (read_value tb lexvars).
Notation rcp := (read_calc_priority tb lexvars).
Notation cloop := (calc_loop tb lexvars).

Definition rv_ok (n : nat) (s : list Z) (k : tok) (s' : list Z) : Prop :=
  forall f, (n <= f)%nat -> rv f s = Ok (Some k, s').
Definition rcp_ok (n : nat) (M : Z) (s : list Z) (k : tok) (s' : list Z) : Prop :=
  forall f, (n <= f)%nat -> rcp f M s = Ok (Some k, s').
Definition loop_ok (n : nat) (M : Z) (left : tok) (s : list Z) (k : tok) (s' : list Z) : Prop :=
  forall f, (n <= f)%nat -> cloop f M left s = Ok (k, s').

Lemma rcp_intro n m M s k s1 k' s2 :
  rv_ok n s k s1 -> loop_ok m M k s1 k' s2 -> rcp_ok (S (n + m)) M s k' s2.
Proof.
  intros Hv Hl f Hf. destruct f as [|f]; [lia|].
  cbn [read_calc_priority]. rewrite Hv by lia. cbn [bind]. rewrite Hl by lia. reflexivity.
Qed.

(* where the loop stops: end of input, no operator, or an operator looser than max_priority *)
Definition stops (M : Z) (r : list Z) : Prop :=
  r = [] \/ read_operator r = None \/ exists c p s1, read_operator r = Some (c, p, s1) /\ M < p.
Definition rest_of (r : list Z) : list Z :=
  match r with
  | [] => []
  | _ => match read_operator r with None => sksp r | Some _ => r end
  end.

Lemma loop_stop M left r : stops M r -> loop_ok 1 M left r left (rest_of r).
Proof.
  intros H f Hf. destruct f as [|f]; [lia|]. cbn [calc_loop]. unfold rest_of.
  destruct r as [|c r]; [reflexivity|].
  destruct H as [H | [H | (c1 & p & s1 & H & Hp)]]; [discriminate| |]; rewrite H; [reflexivity|].
  replace (p >? M) with true by lia. reflexivity.
Qed.

Lemma loop_step n m M left s c p s1 kr s2 k' s3 :
  s <> [] -> read_operator s = Some (c, p, s1) -> p <= M ->
  rcp_ok n (p - 1) s1 kr s2 -> loop_ok m M (TCalc c p left kr) s2 k' s3 ->
  loop_ok (S (n + m)) M left s k' s3.
Proof.
  intros Hne Hop Hp Hr Hl f Hf. destruct f as [|f]; [lia|]. cbn [calc_loop].
  destruct s as [|c0 s]; [congruence|]. rewrite Hop.
  replace (p >? M) with false by lia. rewrite Hr by lia. cbn [bind]. apply Hl. lia.
Qed.

Lemma read_operator_sksp r : read_operator (sksp r) = read_operator r.
Proof. unfold read_operator. rewrite sksp_idem. reflexivity. Qed.

(* the loop behaves the same on r and on what an inner reader leaves of r *)
Lemma loop_rest_of n M left r k' s' : loop_ok n M left r k' s' -> loop_ok (S n) M left (rest_of r) k' s'.
Proof.
  intros H. unfold rest_of. destruct r as [|c r]; [intros f Hf; apply H; lia|].
  destruct (read_operator (c :: r)) eqn:E; [intros f Hf; apply H; lia|].
  intros f Hf. destruct f as [|f]; [lia|].
  specialize (H (S f) ltac:(lia)). cbn [calc_loop] in H. rewrite E in H.
  cbn [calc_loop]. destruct (sksp (c :: r)) as [|c' r'] eqn:Es; [exact H|].
  rewrite <- Es in H |- *. rewrite read_operator_sksp, E, sksp_idem. exact H.
Qed.


Lemma rcp_ok_mono n n' M s k s' : rcp_ok n M s k s' -> (n <= n')%nat -> rcp_ok n' M s k s'.
Proof. intros H Hn f Hf. apply H. lia. Qed.
Lemma rv_ok_mono n n' s k s' : rv_ok n s k s' -> (n <= n')%nat -> rv_ok n' s k s'.
Proof. intros H Hn f Hf. apply H. lia. Qed.

(* ---- unfolding equations of the mutual fixpoint (the bodies are copied from model/Expr.v) ---- *)
Lemma read_value_S f s : read_value tb lexvars (S f) s =
    match sksp s with
    | [] => Ok (None, [])
    | c :: r =>
      let s0 := c :: r in
      if c =? 40 then                                   (* '(' *)
        do p <- read_calc_priority tb lexvars f LEX_OR_AND r;
        let '(t, s1) := p in
        let s2 := sksp s1 in
        if eq_char s2 44 then                           (* ',' : array *)
          do q <- array_loop tb lexvars f (tl s2) [opt_or_zero t];
          let '(items, s3) := q in
          if eq_char s3 41 then Ok (Some (TMakeArray items), tl s3) else Unsupported U_PAREN
        else if eq_char s2 41 then Ok (t, tl s2)
        else Unsupported U_PAREN
      else if c =? 45 then                              (* '-' *)
        if is_numeric r then
          let '(num, s1) := get_int 0 r in Ok (Some (TConstInt (-1 * num)), s1)
        else
          do p <- read_value tb lexvars f r;
          let '(t, s1) := p in
          Ok (Some (TCalc 42 0 (TConstInt (-1)) (opt_or_zero t)), s1)
      else if is_digit c || (c =? 36) then              (* '0'..'9', '$' *)
        let '(num, s1) := get_int 0 s0 in Ok (Some (TConstInt num), s1)
      else if c =? 33 then                              (* '!' length literal *)
        let '(len_str, s1, _) := get_note_length r 0 in
        Ok (Some (TConstInt (calc_length len_str tb tb)), s1)
      else if c =? 123 then                             (* '{' *)
        let '(str, s1) := get_token_nest 123 125 s0 in Ok (Some (TConstStr str), s1)
      else if c =? 34 then                              (* double quote *)
        let '(str, s1, _) := get_token_ch 34 r 0 in Ok (Some (TConstStr str), s1)
      else if is_upper c || is_lower c || (c =? 95) || (c =? 35) then
        (* read_value_word *)
        let '(name, s1) := get_word s0 in
        if eq_char s1 40 then
          let '(arg_str, s2) := get_token_nest 40 41 s1 in
          do args <- lex_calc_loop tb lexvars f arg_str [];
          Ok (Some (TCall (mem_name name lexvars) name args), s2)
        else if prefixb [43; 43] s1 then Ok (Some (TValueInc name 1), skipn 2 s1)
        else if prefixb [45; 45] s1 then Ok (Some (TValueInc name (-1)), skipn 2 s1)
        else Ok (Some (TGetVar name), s1)
      else Ok (None, s0)
    end.
Proof. reflexivity. Qed.

Lemma read_calc_priority_S f max_priority s : read_calc_priority tb lexvars (S f) max_priority s =
    do p <- read_value tb lexvars f s;
    match p with
    | (None, s1) => Ok (None, s1)
    | (Some left_val, s1) =>
        do q <- calc_loop tb lexvars f max_priority left_val s1;
        let '(t, s2) := q in Ok (Some t, s2)
    end.
Proof. reflexivity. Qed.

Lemma calc_loop_S f max_priority left_val s : calc_loop tb lexvars (S f) max_priority left_val s =
    match s with
    | [] => Ok (left_val, [])
    | _ =>
      match read_operator s with
      | None => Ok (left_val, sksp s)
      | Some (c, p, s1) =>
          if p >? max_priority then Ok (left_val, s)      (* roll back, the caller reads it *)
          else
            do q <- read_calc_priority tb lexvars f (p - 1) s1;
            match q with
            | (None, _) => Unsupported U_MISSING
            | (Some right_val, s2) => calc_loop tb lexvars f max_priority (TCalc c p left_val right_val) s2
            end
      end
    end.
Proof. reflexivity. Qed.

(* ---- one lemma per branch of read_value ---- *)
Lemma rv_paren f s r0 t s1 s2 :
  sksp s = 40 :: r0 -> rcp f LEX_OR_AND r0 = Ok (Some t, s1) -> sksp s1 = 41 :: s2 ->
  rv (S f) s = Ok (Some t, s2).
Proof.
  intros Hs Hr H2. rewrite read_value_S. rewrite Hs. change (40 =? 40) with true. cbv beta iota zeta.
  rewrite Hr. cbn [bind]. rewrite H2. reflexivity.
Qed.

Lemma rv_minus_num f s r0 :
  sksp s = 45 :: r0 -> is_numeric r0 = true ->
  rv (S f) s = let '(num, s1) := get_int 0 r0 in Ok (Some (TConstInt (-1 * num)), s1).
Proof.
  intros Hs Hn. rewrite read_value_S. rewrite Hs. change (45 =? 40) with false. change (45 =? 45) with true.
  cbv beta iota zeta. rewrite Hn. reflexivity.
Qed.

Lemma rv_minus_val f s r0 k s1 :
  sksp s = 45 :: r0 -> is_numeric r0 = false -> rv f r0 = Ok (Some k, s1) ->
  rv (S f) s = Ok (Some (TCalc 42 0 (TConstInt (-1)) k), s1).
Proof.
  intros Hs Hn Hv. rewrite read_value_S. rewrite Hs. change (45 =? 40) with false. change (45 =? 45) with true.
  cbv beta iota zeta. rewrite Hn, Hv. reflexivity.
Qed.

Lemma rv_num f s c r0 :
  sksp s = c :: r0 -> is_digit c || (c =? 36) = true ->
  rv (S f) s = let '(num, s1) := get_int 0 (c :: r0) in Ok (Some (TConstInt num), s1).
Proof.
  intros Hs Hc. rewrite read_value_S. rewrite Hs.
  replace (c =? 40) with false by (unfold is_digit in Hc; lia).
  replace (c =? 45) with false by (unfold is_digit in Hc; lia).
  cbv beta iota zeta. rewrite Hc. reflexivity.
Qed.

Lemma rv_str f s r0 :
  sksp s = 123 :: r0 ->
  rv (S f) s = let '(str, s1) := get_token_nest 123 125 (123 :: r0) in Ok (Some (TConstStr str), s1).
Proof. intros Hs. rewrite read_value_S. rewrite Hs. reflexivity. Qed.

Lemma rv_word f s c r0 x s1 :
  sksp s = c :: r0 -> is_letter c = true -> get_word (c :: r0) = (x, s1) ->
  eq_char s1 40 = false -> prefixb [43; 43] s1 = false -> prefixb [45; 45] s1 = false ->
  rv (S f) s = Ok (Some (TGetVar x), s1).
Proof.
  intros Hs Hc Hw H1 H2 H3. rewrite read_value_S. rewrite Hs.
  unfold is_letter, in_range in Hc.
  replace (c =? 40) with false by lia. replace (c =? 45) with false by lia.
  replace (is_digit c || (c =? 36)) with false by (unfold is_digit; lia).
  replace (c =? 33) with false by lia. replace (c =? 123) with false by lia. replace (c =? 34) with false by lia.
  replace (is_upper c || is_lower c || (c =? 95) || (c =? 35)) with true by (unfold is_upper, is_lower; lia).
  cbv beta iota zeta. rewrite Hw. rewrite H1, H2, H3. reflexivity.
Qed.

(* ---- the token tree of a syntax tree ("-3" is read as the constant -3, "- 3" and "-(3)" as -1 * 3) ---- *)
Inductive rep : expr -> tok -> Prop :=
| R_lit n : rep (Lit n) (TConstInt (lit_value n))
| R_str s : rep (Str s) (TConstStr s)
| R_var x : rep (Var x) (TGetVar x)
| R_neglit n : rep (Neg (Lit n)) (TConstInt (-1 * lit_value n))
| R_neg e k : rep e k -> rep (Neg e) (TCalc 42 0 (TConstInt (-1)) k)
| R_bin o a b ka kb : rep a ka -> rep b kb -> rep (Bin o a b) (TCalc (opch o) (prio o) ka kb).

(* what may follow an operand *)
Definition follow_ok (r : list Z) : Prop :=
  nw r /\ eq_char r 40 = false /\ prefixb [43; 43] r = false /\ prefixb [45; 45] r = false.
(* the next operator, if any, has level >= l *)
Definition nextop_ok (l : nat) (r : list Z) : Prop :=
  r = [] \/ read_operator r = None \/ exists c p s1, read_operator r = Some (c, p, s1) /\ P l <= p.

Lemma nextop_stops l M r : nextop_ok l r -> M < P l -> stops M r.
Proof.
  intros [H | [H | (c & p & s1 & H & Hp)]] HM; [left; assumption | right; left; assumption|].
  right. right. exists c, p, s1. split; [assumption | lia].
Qed.
Lemma nextop_mono l l' r : nextop_ok l r -> (l' <= l)%nat -> nextop_ok l' r.
Proof.
  intros [H | [H | (c & p & s1 & H & Hp)]] Hl; [left; assumption | right; left; assumption|].
  right. right. exists c, p, s1. split; [assumption|]. pose proof (P_mono l' l Hl). lia.
Qed.

Lemma prints_head l e t : prints l e t -> exists c t', t = c :: t' /\ operand_start c = true.
Proof.
  induction 1.
  - destruct n as [ds | dollar ds | ds]; cbn [lit_ok] in H; apply andb_prop in H; destruct H as [Hne Hd];
      (destruct ds as [|d ds]; [discriminate|]); cbn [lit_text map].
    + cbn [forallb] in Hd. apply andb_prop in Hd. destruct Hd as [Hd _]. unfold in_range in Hd.
      eexists. eexists. split; [reflexivity|]. unfold operand_start, is_digit. lia.
    + destruct dollar; eexists; eexists; (split; [reflexivity|]); reflexivity.
    + eexists. eexists. split; [reflexivity|]. reflexivity.
  - eexists. eexists. split; [reflexivity|]. reflexivity.
  - destruct (name_ok_inv x H) as (c & x' & -> & Hc & _). exists c, x'. split; [reflexivity|].
    unfold operand_start. rewrite Hc. rewrite !orb_true_r. reflexivity.
  - eexists. eexists. split; [reflexivity|]. reflexivity.
  - eexists. eexists. split; [reflexivity|]. reflexivity.
  - destruct IHprints1 as (c & t' & -> & Hc). exists c. eexists. split; [reflexivity|]. assumption.
Qed.

Lemma blanks_cons c ws : blanks (c :: ws) -> is_blank c = true /\ blanks ws.
Proof. unfold blanks. cbn [forallb]. intros H. apply andb_prop in H. exact H. Qed.

Lemma first_ok_operand l e t ws r : prints l e t -> blanks ws -> first_ok (ws ++ t ++ r).
Proof.
  intros Hp Hws. destruct ws as [|c ws].
  - destruct (prints_head _ _ _ Hp) as (c & t' & -> & Hc). cbn [app first_ok]. rewrite Hc. apply orb_true_r.
  - apply blanks_cons in Hws. destruct Hws as [Hc _]. cbn [app first_ok]. rewrite Hc. reflexivity.
Qed.

Lemma blank_facts c : is_blank c = true -> is_word_ch c = false /\ c <> 40 /\ c <> 43 /\ c <> 45.
Proof. unfold is_blank, is_word_ch, is_upper, is_lower, is_digit. lia. Qed.

Lemma follow_ok_blank c r : is_blank c = true -> follow_ok (c :: r).
Proof.
  intros H. apply blank_facts in H. destruct H as (H1 & H2 & H3 & H4). unfold follow_ok. cbn [nw eq_char prefixb].
  repeat split; try assumption; lia.
Qed.

(* after an operand: blanks, the operator, blanks, the right operand *)
Lemma follow_ok_op o ws1 ws2 tb0 l b r :
  blanks ws1 -> blanks ws2 -> prints l b tb0 -> clash o ws2 tb0 = false ->
  follow_ok (ws1 ++ opstr o ++ ws2 ++ tb0 ++ r).
Proof.
  intros H1 H2 Hb Hc. destruct ws1 as [|c ws1].
  - cbn [app].
    pose proof (first_ok_operand _ _ _ ws2 r Hb H2) as Hf.
    destruct (ws2 ++ tb0 ++ r) as [|c rest] eqn:E; [destruct Hf|]. cbn [first_ok] in Hf.
    pose proof (first_ok_facts c Hf) as F.
    assert (Hm : o = OSub -> c <> 45).
    { intros ->. destruct ws2 as [|w ws2].
      - cbn [clash] in Hc. cbn [app] in E. destruct tb0 as [|c0 t0]; [cbn in E|].
        + destruct (prints_head _ _ _ Hb) as (? & ? & ? & _). discriminate.
        + cbn [app] in E. inversion E. subst. cbn [starts_minus] in Hc. lia.
      - cbn [app] in E. inversion E. subst. apply blanks_cons in H2. destruct H2 as [Hw _].
        apply blank_facts in Hw. lia. }
    unfold follow_ok. destruct o; cbn [opstr app nw eq_char prefixb]; unfold is_word_ch, is_upper, is_lower, is_digit;
      repeat split; try reflexivity; try lia.
    specialize (Hm eq_refl). lia.
  - apply blanks_cons in H1. destruct H1 as [Hc1 _]. cbn [app]. apply follow_ok_blank. assumption.
Qed.

Lemma follow_ok_close ws r : blanks ws -> follow_ok (ws ++ 41 :: r).
Proof.
  intros H. destruct ws as [|c ws].
  - cbn [app]. unfold follow_ok. cbn. repeat split; reflexivity.
  - apply blanks_cons in H. destruct H as [Hc _]. cbn [app]. apply follow_ok_blank. assumption.
Qed.

Lemma read_operator_close ws r : blanks ws -> read_operator (ws ++ 41 :: r) = None.
Proof.
  intros H. unfold read_operator. rewrite sksp_blanks by assumption.
  rewrite sksp_solid by (unfold solid; lia). reflexivity.
Qed.

Lemma rest_of_close ws r : blanks ws -> rest_of (ws ++ 41 :: r) = 41 :: r.
Proof.
  intros H. unfold rest_of. rewrite read_operator_close by assumption.
  rewrite sksp_blanks by assumption. rewrite sksp_solid by (unfold solid; lia).
  destruct (ws ++ 41 :: r) eqn:E; [|reflexivity]. destruct ws; discriminate.
Qed.

Lemma lit_text_head n : lit_ok n = true ->
  exists c t', lit_text n = c :: t' /\ (is_digit c || (c =? 36)) = true /\ solid c.
Proof.
  intros H. destruct n as [ds | dollar ds | ds]; cbn [lit_ok] in H; apply andb_prop in H; destruct H as [Hne Hd];
    (destruct ds as [|d ds]; [discriminate|]); cbn [lit_text map].
  - cbn [forallb] in Hd. apply andb_prop in Hd. destruct Hd as [Hd _]. unfold in_range in Hd.
    eexists. eexists. split; [reflexivity|]. unfold is_digit, solid. split; lia.
  - destruct dollar; eexists; eexists; (split; [reflexivity|]); unfold solid; split; try reflexivity; lia.
  - eexists. eexists. split; [reflexivity|]. unfold solid. split; try reflexivity; lia.
Qed.

(* an operand text starting with a digit is a literal *)
Lemma prints0_numeric e t ws r : prints 0 e t -> blanks ws -> is_numeric (ws ++ t ++ r) = true ->
  ws = [] /\ exists n, e = Lit n /\ t = lit_text n /\ lit_ok n = true.
Proof.
  intros Hp Hws Hn. destruct ws as [|c ws].
  2:{ apply blanks_cons in Hws. destruct Hws as [Hc _]. cbn [app is_numeric] in Hn.
      unfold is_blank in Hc. unfold is_digit in Hn. lia. }
  split; [reflexivity|]. cbn [app] in Hn.
  inversion Hp; subst; cbn [app is_numeric] in Hn.
  - eexists. repeat split. assumption.
  - unfold is_digit in Hn. lia.
  - match goal with H : name_ok ?x = true |- _ => destruct (name_ok_inv x H) as (c & x' & -> & Hc & _) end.
    cbn [app is_numeric] in Hn. unfold is_letter, in_range in Hc. unfold is_digit in Hn. lia.
  - unfold is_digit in Hn. lia.
  - unfold is_digit in Hn. lia.
  - match goal with H : (lvl ?o <= 0)%nat |- _ => pose proof (lvl_pos o); lia end.
Qed.

Lemma prints_nonempty l e t : prints l e t -> (1 <= length t)%nat.
Proof. intros H. destruct (prints_head _ _ _ H) as (c & t' & -> & _). cbn [length]. lia. Qed.

Definition parse_claim (l : nat) (e : expr) (t r : list Z) (k : tok) : Prop :=
  rep e k /\
  (l = 0%nat -> forall ws, blanks ws -> rv_ok (4 * length t) (ws ++ t ++ r) k r) /\
  (forall ws M n k' s', blanks ws -> P l <= M -> nextop_ok l r -> loop_ok n M k r k' s' ->
     rcp_ok (n + 4 * length t + 1) M (ws ++ t ++ r) k' s').

Lemma atom_pack l e t r k :
  rep e k -> (forall ws, blanks ws -> rv_ok (4 * length t) (ws ++ t ++ r) k r) -> parse_claim l e t r k.
Proof.
  intros Hr HA. split; [assumption|]. split; [intros _; assumption|].
  intros ws M n k' s' Hws _ _ Hl.
  eapply rcp_ok_mono; [eapply rcp_intro; [apply HA; assumption | exact Hl] | lia].
Qed.

(* The precedence-climbing lemma.  For a rendering t of e at level l, followed by r:
   - if l = 0 (an operand), read_value consumes exactly t;
   - read_calc_priority M, for any M admitting the operators of level <= l, behaves on t ++ r like its
     loop started on r with the tree of e as left value, provided the next operator in r (if any) has
     level >= l - so nothing of r is pulled into e's tree, and nothing of t is left. *)
Lemma parse_gen l e t : prints l e t -> forall r, follow_ok r -> exists k, parse_claim l e t r k.
Proof.
  induction 1 as [l n Hn | l s Hs | l x Hx | l e ws0 t Hws0 Hp IH | l e ws1 t ws2 Hws1 Hws2 Hp IH
                 | l o a b ta ws1 ws2 tb0 Hl Hpa IHa Hpb IHb Hws1 Hws2 Hclash]; intros r Hr.
  - (* literal *)
    exists (TConstInt (lit_value n)). apply atom_pack; [constructor|].
    intros ws Hws f Hf.
    destruct (lit_text_head n Hn) as (c & t' & E & Hc & Hsol).
    destruct f as [|f]; [rewrite E in Hf; cbn [length] in Hf; lia|].
    rewrite (rv_num f _ c (t' ++ r)); [| | assumption].
    + change (c :: t' ++ r) with ((c :: t') ++ r). rewrite <- E.
      rewrite get_int_lit; [reflexivity | assumption | apply Hr].
    + rewrite sksp_blanks by assumption. rewrite E. cbn [app]. apply sksp_solid. assumption.
  - (* string constant *)
    exists (TConstStr s). apply atom_pack; [constructor|].
    intros ws Hws f Hf. destruct f as [|f]; [cbn [length] in Hf; lia|].
    rewrite (rv_str f _ ((s ++ [125]) ++ r)).
    + unfold get_token_nest. cbn [eq_char]. change (123 =? 123) with true. cbn [tl].
      rewrite <- app_assoc. cbn [app]. rewrite nest_str by assumption. reflexivity.
    + rewrite sksp_blanks by assumption. cbn [app]. apply sksp_solid. unfold solid. lia.
  - (* variable *)
    exists (TGetVar x). apply atom_pack; [constructor|].
    intros ws Hws f Hf. destruct (name_ok_inv x Hx) as (c & x' & E & Hc & _).
    destruct f as [|f]; [rewrite E in Hf; cbn [length] in Hf; lia|].
    destruct Hr as (R1 & R2 & R3 & R4).
    rewrite (rv_word f _ c (x' ++ r) x r); try assumption; [reflexivity | |].
    + rewrite sksp_blanks by assumption. rewrite E. cbn [app]. apply sksp_solid.
      unfold is_letter, in_range in Hc. unfold solid. lia.
    + change (c :: x' ++ r) with ((c :: x') ++ r). rewrite <- E. apply get_word_name; assumption.
  - (* unary minus *)
    destruct (IH r Hr) as (k0 & Hrep0 & HA0 & _). specialize (HA0 eq_refl).
    pose proof (prints_nonempty _ _ _ Hp) as Hlen.
    destruct (is_numeric (ws0 ++ t ++ r)) eqn:En.
    + (* "-" directly followed by a digit: a negative constant *)
      destruct (prints0_numeric e t ws0 r Hp Hws0 En) as (-> & n & -> & -> & Hn).
      exists (TConstInt (-1 * lit_value n)). apply atom_pack; [constructor|].
      intros ws Hws f Hf. destruct f as [|f]; [cbn [length] in Hf; lia|].
      rewrite (rv_minus_num f _ (lit_text n ++ r)).
      * rewrite get_int_lit; [reflexivity | assumption | apply Hr].
      * rewrite sksp_blanks by assumption. cbn [app]. apply sksp_solid. unfold solid. lia.
      * exact En.
    + exists (TCalc 42 0 (TConstInt (-1)) k0). apply atom_pack; [constructor; assumption|].
      intros ws Hws f Hf. destruct f as [|f]; [cbn [length] in Hf; lia|].
      rewrite (rv_minus_val f _ (ws0 ++ t ++ r) k0 r); [reflexivity | | exact En |].
      * rewrite sksp_blanks by assumption. cbn [app]. rewrite <- app_assoc. apply sksp_solid. unfold solid. lia.
      * apply HA0; [assumption|]. cbn [length] in Hf. rewrite app_length in Hf. lia.
  - (* parentheses *)
    destruct (IH (ws2 ++ 41 :: r) (follow_ok_close ws2 r Hws2)) as (k0 & Hrep0 & _ & HB0).
    exists k0. apply atom_pack; [assumption|].
    intros ws Hws f Hf. destruct f as [|f]; [cbn [length] in Hf; lia|].
    apply (rv_paren f _ (ws1 ++ t ++ ws2 ++ 41 :: r) k0 (41 :: r) r).
    + rewrite sksp_blanks by assumption. cbn [app].
      replace ((ws1 ++ t ++ ws2 ++ [41]) ++ r) with (ws1 ++ t ++ ws2 ++ 41 :: r)
        by (rewrite <- !app_assoc; reflexivity).
      apply sksp_solid. unfold solid. lia.
    + assert (Hstop : loop_ok 1 LEX_OR_AND k0 (ws2 ++ 41 :: r) k0 (41 :: r)).
      { pose proof (loop_stop LEX_OR_AND k0 (ws2 ++ 41 :: r)) as Hst. rewrite rest_of_close in Hst by assumption.
        apply Hst. right. left. apply read_operator_close. assumption. }
      apply (HB0 ws1 LEX_OR_AND 1%nat k0 (41 :: r) Hws1).
      * rewrite P_top. lia.
      * right. left. apply read_operator_close. assumption.
      * exact Hstop.
      * cbn [length] in Hf. rewrite !app_length in Hf. cbn [length] in Hf. lia.
    + apply sksp_solid. unfold solid. lia.
  - (* binary operator *)
    destruct (IHb r Hr) as (kb & Hrepb & _ & HBb).
    set (r1 := ws1 ++ opstr o ++ ws2 ++ tb0 ++ r).
    assert (Hr1 : follow_ok r1) by (eapply follow_ok_op; eassumption).
    destruct (IHa r1 Hr1) as (ka & Hrepa & _ & HBa).
    exists (TCalc (opch o) (prio o) ka kb). split; [constructor; assumption|].
    split; [intros ->; pose proof (lvl_pos o); lia|].
    intros ws M n k' s' Hws HM Hnext Hloop.
    assert (Hop : read_operator r1 = Some (opch o, prio o, ws2 ++ tb0 ++ r)).
    { apply read_operator_opstr; [assumption|]. eapply first_ok_operand; eassumption. }
    assert (HPl : P (lvl o) <= P l) by (apply P_mono; assumption).
    assert (Hright : rcp_ok (1 + 4 * length tb0 + 1) (prio o - 1) (ws2 ++ tb0 ++ r) kb (rest_of r)).
    { apply HBb; [assumption | apply P_pred | eapply nextop_mono; [eassumption | lia] |].
      apply loop_stop. eapply nextop_stops; [eassumption|]. rewrite prio_lvl. lia. }
    assert (Hl1 : loop_ok (S ((1 + 4 * length tb0 + 1) + S n)) M ka r1 k' s').
    { eapply loop_step; [| exact Hop | rewrite prio_lvl; lia | exact Hright | apply loop_rest_of; exact Hloop].
      unfold r1. destruct ws1; [destruct o|]; discriminate. }
    replace (ws ++ (ta ++ ws1 ++ opstr o ++ ws2 ++ tb0) ++ r) with (ws ++ ta ++ r1)
      by (unfold r1; rewrite <- !app_assoc; reflexivity).
    eapply rcp_ok_mono.
    + apply (HBa ws M (S ((1 + 4 * length tb0 + 1) + S n)) k' s' Hws); [lia | | exact Hl1].
      right. right. exists (opch o), (prio o), (ws2 ++ tb0 ++ r). split; [exact Hop | rewrite prio_lvl; lia].
    + rewrite !app_length. assert (1 <= length (opstr o))%nat by (destruct o; cbn; lia). lia.
Qed.

(* ---- the whole expression, up to a terminator ---- *)
Definition is_stop_char (c : Z) : bool :=
  negb (is_blank c) && negb (is_operator_char c) && negb (is_word_ch c) && negb (c =? 40).
(* blanks, then the end of the text or a character that is no blank, operator character, letter,
   digit, '_' or '(' - for instance ')' ';' ',' or a line break *)
Definition stop_tail (r : list Z) : Prop :=
  exists ws r', r = ws ++ r' /\ blanks ws /\ match r' with [] => True | c :: _ => is_stop_char c = true end.

Lemma stop_char_facts c : is_stop_char c = true ->
  is_blank c = false /\ is_operator_char c = false /\ is_word_ch c = false /\ c <> 40 /\ c <> 43 /\ c <> 45 /\ c <> 47.
Proof.
  intros H. unfold is_stop_char in H.
  apply andb_prop in H. destruct H as [H H4]. apply andb_prop in H. destruct H as [H H3].
  apply andb_prop in H. destruct H as [H1 H2].
  apply negb_true_iff in H1. apply negb_true_iff in H2. apply negb_true_iff in H3. apply negb_true_iff in H4.
  pose proof H2 as Ho. unfold is_operator_char, operator_chars, mem_z in Ho.
  repeat split; try assumption; lia.
Qed.

Lemma stop_tail_follow r : stop_tail r -> follow_ok r.
Proof.
  intros (ws & r' & -> & Hws & Hr'). destruct ws as [|c ws].
  - cbn [app]. destruct r' as [|c r']; [unfold follow_ok; cbn; auto|].
    apply stop_char_facts in Hr'. destruct Hr' as (_ & _ & Hw & H40 & H43 & H45 & _).
    unfold follow_ok. cbn [nw eq_char prefixb]. repeat split; try assumption; lia.
  - apply blanks_cons in Hws. destruct Hws as [Hc _]. apply follow_ok_blank. assumption.
Qed.

Lemma stop_tail_noop r : stop_tail r -> read_operator r = None.
Proof.
  intros (ws & r' & -> & Hws & Hr'). unfold read_operator. rewrite sksp_blanks by assumption.
  destruct r' as [|c r']; [reflexivity|].
  apply stop_char_facts in Hr'. destruct Hr' as (Hb & Ho & _ & _ & _ & _ & H47).
  rewrite sksp_solid by (unfold is_blank in Hb; unfold solid; lia).
  cbn [peek0]. rewrite Ho. reflexivity.
Qed.

Lemma parse_top e t ws0 r : prints 4 e t -> blanks ws0 -> stop_tail r ->
  exists k s', rep e k /\ read_calc tb lexvars (ws0 ++ t ++ r) = Ok (Some k, s').
Proof.
  intros Hp Hws Hr.
  destruct (parse_gen 4 e t Hp r (stop_tail_follow r Hr)) as (k & Hrep & _ & HB).
  exists k, (rest_of r). split; [assumption|].
  unfold read_calc. apply (HB ws0 LEX_OR_AND 1%nat k (rest_of r) Hws).
  - rewrite P_top. lia.
  - right. left. apply stop_tail_noop. assumption.
  - apply loop_stop. right. left. apply stop_tail_noop. assumption.
  - unfold calc_fuel. rewrite !app_length. lia.
Qed.
End Reader.

(* ================================================================================================ *)
(* 5. evaluation                                                                                      *)
(* ================================================================================================ *)
Definition inj (v : value) : sval :=
  match v with VI z => SInt z | VS s => SStr s | VB b => SBool b end.
Definition menv (en : env) : venv := map (fun p => (fst p, inj (snd p))) en.

Lemma list_eqb_text a : forall b, list_eqb a b = text_eqb a b.
Proof. induction a as [|x a IH]; destruct b as [|y b]; cbn [list_eqb text_eqb]; try reflexivity; rewrite IH; reflexivity. Qed.

Lemma var_get_menv en x : var_get (menv en) x = option_map inj (lookup en x).
Proof.
  induction en as [|[y v] en IH]; [reflexivity|].
  cbn [menv map var_get lookup fst snd]. rewrite list_eqb_text. destruct (text_eqb x y); [reflexivity|]. exact IH.
Qed.

Lemma eval_calc en flag p l r : eval en (TCalc flag p l r) =
  if flag =? 0 then Unsupported U_STATE else do a <- eval en l; do b <- eval en r; calc flag a b.
Proof. reflexivity. Qed.

Ltac calc_reduce :=
  unfold calc, c_NE, c_GE, c_LE;
  repeat match goal with
  | |- context [Z.eqb (Zpos ?a) (Zpos ?b)] =>
      let v := eval vm_compute in (Z.eqb (Zpos a) (Zpos b)) in change (Z.eqb (Zpos a) (Zpos b)) with v
  end; cbv beta iota.

Lemma eqb_cmp a b : (a =? b) = match a ?= b with Eq => true | _ => false end.
Proof. destruct (Z.compare_spec a b); [subst; apply Z.eqb_refl | apply Z.eqb_neq; lia | apply Z.eqb_neq; lia]. Qed.

Lemma calc_int o a b v : binop o (VI a) (VI b) = Some v -> calc (opch o) (SInt a) (SInt b) = Ok (inj v).
Proof.
  intros H. destruct o; cbn [binop] in H; inversion H; subst; clear H; cbn [opch inj]; calc_reduce;
    unfold sv_ne; unfold sv_add, sv_div, sv_eq, sv_gt, sv_gteq, sv_lt, sv_lteq, quot0, rem0;
    cbn [to_i is_s orb cmp_holds]; cbv zeta;
    try reflexivity;
    try (destruct (b =? 0); reflexivity);
    try (rewrite eqb_cmp; destruct (a ?= b); reflexivity);
    try (unfold Z.ltb, Z.leb, Z.gtb, Z.geb; destruct (a ?= b); reflexivity).
Qed.

Lemma calc_bool o a b v : binop o (VB a) (VB b) = Some v -> calc (opch o) (SBool a) (SBool b) = Ok (inj v).
Proof.
  intros H. destruct o; cbn [binop] in H; inversion H; subst; clear H; cbn [opch inj]; calc_reduce;
    unfold to_b; cbn [to_i]; destruct a, b; reflexivity.
Qed.

Lemma denote_int_or_bool en e : int_env en -> no_str e = true ->
  forall v, denote en e = Some v -> (exists z, v = VI z) \/ (exists b, v = VB b).
Proof.
  intros Hen. induction e as [n | s | x | a IH | o a IHa b IHb]; intros Hns v Hv; cbn [denote no_str] in *.
  - inversion Hv. left. eexists. reflexivity.
  - discriminate.
  - left. eapply Hen. eassumption.
  - destruct (denote en a) as [[z | s | b0]|]; try discriminate. inversion Hv. left. eexists. reflexivity.
  - apply andb_prop in Hns. destruct Hns as [Ha Hb].
    destruct (denote en a) as [va|]; [|discriminate]. destruct (denote en b) as [vb|]; [|discriminate].
    destruct (IHa Ha va eq_refl) as [(za & ->) | (ba & ->)]; destruct (IHb Hb vb eq_refl) as [(zb & ->) | (bb & ->)];
      destruct o; cbn [binop] in Hv; inversion Hv; eauto.
Qed.

Lemma eval_rep en e k : int_env en -> rep e k -> no_str e = true ->
  forall v, denote en e = Some v -> eval (menv en) k = Ok (inj v).
Proof.
  intros Hen Hrep. induction Hrep as [n | s | x | n | e k Hrep IH | o a b ka kb Ha IHa Hb IHb]; intros Hns v Hv;
    cbn [denote no_str] in *.
  - inversion Hv. reflexivity.
  - discriminate.
  - cbn [eval]. rewrite var_get_menv, Hv. reflexivity.
  - inversion Hv. cbn [eval inj]. do 2 f_equal; try lia.
  - destruct (denote en e) as [[z | s | b0]|] eqn:E; try discriminate. inversion Hv. subst.
    rewrite eval_calc. change (42 =? 0) with false. cbv beta iota.
    rewrite (IH Hns _ eq_refl). cbn [eval bind inj]. calc_reduce. cbn [to_i]. do 2 f_equal; try lia.
  - apply andb_prop in Hns. destruct Hns as [Hna Hnb].
    destruct (denote en a) as [va|] eqn:Ea; [|discriminate]. destruct (denote en b) as [vb|] eqn:Eb; [|discriminate].
    rewrite eval_calc. replace (opch o =? 0) with false by (destruct o; reflexivity).
    rewrite (IHa Hna _ eq_refl), (IHb Hnb _ eq_refl). cbn [bind].
    destruct (denote_int_or_bool en a Hen Hna va Ea) as [(za & ->) | (ba & ->)];
      destruct (denote_int_or_bool en b Hen Hnb vb Eb) as [(zb & ->) | (bb & ->)]; cbn [inj].
    + apply calc_int. assumption.
    + destruct o; discriminate.
    + destruct o; discriminate.
    + apply calc_bool. assumption.
Qed.

(* ================================================================================================ *)
(* 6. main theorem                                                                                    *)
(* ================================================================================================ *)
Theorem parse_eval tb lexvars en e t v ws0 r :
  prints 4 e t -> no_str e = true -> int_env en -> denote en e = Some v -> blanks ws0 -> stop_tail r ->
  eval_text tb lexvars (menv en) (ws0 ++ t ++ r) = Ok (inj v).
Proof.
  intros Hp Hns Hen Hv Hws Hr.
  destruct (parse_top tb lexvars e t ws0 r Hp Hws Hr) as (k & s' & Hrep & Hread).
  unfold eval_text. rewrite Hread. cbn [bind fst]. eapply eval_rep; eassumption.
Qed.

(* ================================================================================================ *)
(* 7. the printers produce renderings                                                                 *)
(* ================================================================================================ *)
Lemma prints_mono l e t : prints l e t -> forall l', (l <= l')%nat -> prints l' e t.
Proof.
  induction 1; intros l' Hl; try (constructor; assumption).
  apply P_bin; try assumption. lia.
Qed.

Lemma clash_nonempty o c ws t : clash o (c :: ws) t = false.
Proof. destruct o; reflexivity. Qed.
Lemma lvl_le4 o : (lvl o <= 4)%nat.
Proof. destruct o; cbn; lia. Qed.
Lemma blanks_nil : blanks [].
Proof. reflexivity. Qed.

Lemma print_at_prints e : expr_ok e = true -> forall l, prints l e (print_at l e).
Proof.
  induction e as [n | s | x | a IH | o a IHa b IHb]; intros Hok l; cbn [expr_ok print_at] in *.
  - constructor. assumption.
  - constructor. assumption.
  - constructor. assumption.
  - apply (P_neg l a [] (print_at 0 a) blanks_nil). apply IH. assumption.
  - apply andb_prop in Hok. destruct Hok as [Ha Hb].
    set (tb0 := print_at (lvl o - 1) b). set (ta := print_at (lvl o) a).
    assert (Ht : forall l', (lvl o <= l')%nat -> prints l' (Bin o a b) (ta ++ opstr o ++ sep o tb0 ++ tb0)).
    { intros l' Hl'. apply (P_bin l' o a b ta [] (sep o tb0) tb0 Hl'); try (apply IHa || apply IHb); try assumption.
      - reflexivity.
      - unfold sep. destruct (clash o [] tb0); reflexivity.
      - unfold sep. destruct (clash o [] tb0) eqn:E; [apply clash_nonempty | exact E]. }
    destruct (lvl o <=? l)%nat eqn:E.
    + apply Ht. apply Nat.leb_le. assumption.
    + unfold paren. apply (P_paren l (Bin o a b) [] _ [] blanks_nil blanks_nil). apply Ht. apply lvl_le4.
Qed.

Lemma blanks_of_blanks c : blanks (blanks_of c).
Proof.
  unfold blanks, blanks_of. destruct (Nat.even (c / 3)); induction (c mod 3)%nat as [|k IH]; cbn [repeat forallb]; auto.
Qed.

Lemma top_level_le4 e : (top_level e <= 4)%nat.
Proof. destruct e; cbn [top_level]; try lia. apply lvl_le4. Qed.

Lemma lay_finish l e t (w : bool) cs :
  (forall l', (top_level e <= l')%nat -> prints l' e t) ->
  prints l e (fst (if w || negb (top_level e <=? l)%nat
                   then let '(c3, cs1) := nextc cs in let '(c4, cs2) := nextc cs1 in
                        (40 :: blanks_of c3 ++ t ++ blanks_of c4 ++ [41], cs2)
                   else (t, cs))).
Proof.
  intros H. destruct (w || negb (top_level e <=? l)%nat) eqn:E.
  - destruct (nextc cs) as [c3 cs1]. destruct (nextc cs1) as [c4 cs2]. cbn [fst].
    apply P_paren; try apply blanks_of_blanks. apply H. apply top_level_le4.
  - cbn [fst]. apply H. apply orb_false_elim in E. destruct E as [_ E].
    apply negb_false_iff in E. apply Nat.leb_le. assumption.
Qed.

Lemma print_lay_prints e : expr_ok e = true -> forall l cs, prints l e (fst (print_lay l e cs)).
Proof.
  induction e as [n | s | x | a IH | o a IHa b IHb]; intros Hok l cs; cbn [expr_ok] in Hok; cbn [print_lay].
  - destruct (nextc cs) as [c0 cs0]. apply (lay_finish l (Lit n)). intros l' _. constructor. assumption.
  - destruct (nextc cs) as [c0 cs0]. apply (lay_finish l (Str s)). intros l' _. constructor. assumption.
  - destruct (nextc cs) as [c0 cs0]. apply (lay_finish l (Var x)). intros l' _. constructor. assumption.
  - destruct (nextc cs) as [c0 cs0]. destruct (nextc cs0) as [c1 cs1].
    pose proof (IH Hok 0%nat cs1) as Ha. destruct (print_lay 0 a cs1) as [ta cs2]. cbn [fst] in Ha.
    apply (lay_finish l (Neg a)). intros l' _. apply P_neg; [apply blanks_of_blanks | assumption].
  - apply andb_prop in Hok. destruct Hok as [Hoka Hokb].
    destruct (nextc cs) as [c0 cs0]. destruct (nextc cs0) as [c1 cs1]. destruct (nextc cs1) as [c2 cs2].
    pose proof (IHa Hoka (lvl o) cs2) as Ha. destruct (print_lay (lvl o) a cs2) as [ta cs3]. cbn [fst] in Ha.
    pose proof (IHb Hokb (lvl o - 1)%nat cs3) as Hb. destruct (print_lay (lvl o - 1) b cs3) as [tb0 cs4]. cbn [fst] in Hb.
    apply (lay_finish l (Bin o a b)). intros l' Hl'. cbn [top_level] in Hl'.
    apply P_bin; try assumption; try apply blanks_of_blanks.
    + destruct (clash o (blanks_of c2) tb0); [reflexivity | apply blanks_of_blanks].
    + destruct (clash o (blanks_of c2) tb0) eqn:E; [apply clash_nonempty | exact E].
Qed.

(* ================================================================================================ *)
(* 8. total division, built-in functions                                                              *)
(* ================================================================================================ *)
Lemma calc_div_mod_zero a b : to_i b = 0 -> calc 47 a b = Ok (SInt 0) /\ calc 37 a b = Ok (SInt 0).
Proof.
  intros H. split; calc_reduce; [unfold sv_div|]; rewrite H; reflexivity.
Qed.

Definition isize_ok (z : Z) : Prop := - 2 ^ 63 <= z < 2 ^ 63.

Lemma firstn_min_length {A} (l : list A) a : firstn (Nat.min a (length l)) l = firstn a l.
Proof.
  destruct (Nat.le_gt_cases a (length l)).
  - rewrite Nat.min_l by assumption. reflexivity.
  - rewrite Nat.min_r by lia. rewrite firstn_all. rewrite firstn_all2 by lia. reflexivity.
Qed.

Lemma mid_spec_eq s i n : mid s i n = firstn (Z.to_nat n) (skipn (Z.to_nat (i - 1)) s).
Proof.
  unfold mid. set (L := length s).
  assert (E1 : skipn (Z.to_nat (Z.min (i - 1) (Z.of_nat L))) s = skipn (Z.to_nat (i - 1)) s).
  { destruct (Z_lt_le_dec (i - 1) (Z.of_nat L)).
    - rewrite Z.min_l by lia. reflexivity.
    - rewrite Z.min_r by lia. rewrite Nat2Z.id. rewrite !skipn_all2; try reflexivity; unfold L; lia. }
  rewrite E1. set (l := skipn (Z.to_nat (i - 1)) s).
  assert (Hl : (length l <= L)%nat) by (unfold l; rewrite skipn_length; lia).
  destruct (Z_lt_le_dec n (Z.of_nat L)).
  - rewrite Z.min_l by lia. reflexivity.
  - rewrite Z.min_r by lia. rewrite Nat2Z.id. rewrite !firstn_all2; try reflexivity; lia.
Qed.

Lemma vb_mid_spec s i n : 0 <= i -> 0 <= n -> zlen s < 2 ^ 63 ->
  vb_mid s i n = firstn (Z.to_nat n) (skipn (Z.to_nat (i - 1)) s).
Proof.
  intros Hi Hn Hlen. unfold vb_mid, zlen in *. set (L := length s) in *.
  set (k := Z.to_nat (i - 1)).
  assert (Hst0 : (if i >=? 1 then i - 1 else 0) = Z.of_nat k) by (unfold k; destruct (i >=? 1) eqn:E; lia).
  rewrite Hst0.
  destruct (Z.of_nat k >=? Z.of_nat L) eqn:E.
  - (* the position is past the end *)
    rewrite Nat2Z.id. rewrite !skipn_all2 by lia. rewrite !firstn_nil. reflexivity.
  - rewrite Nat2Z.id. set (l := skipn k s).
    assert (Hl : length l = (L - k)%nat) by (unfold l; rewrite skipn_length; reflexivity).
    assert (Hp : 2 ^ 63 < 2 ^ 64 - 1) by (vm_compute; reflexivity).
    set (e0 := Z.min (Z.of_nat k + n) (2 ^ 64 - 1)).
    assert (He : (if e0 >=? Z.of_nat L then Z.of_nat L else e0) - Z.of_nat k
                 = Z.of_nat (Nat.min (Z.to_nat n) (length l))).
    { unfold e0. destruct (Z.min (Z.of_nat k + n) (2 ^ 64 - 1) >=? Z.of_nat L) eqn:E2; lia. }
    rewrite He. rewrite Nat2Z.id. apply firstn_min_length.
Qed.

Lemma sys_function_mid name args : In name n_MID ->
  sys_function name args =
  if (3 <=? length args)%nat then
    Ok (SStr (vb_mid (to_s (arg args 0)) (as_usize (Z.max (to_i (arg args 1)) 0)) (as_usize (Z.max (to_i (arg args 2)) 0))))
  else Ok (SStr t_MID_ERROR).
Proof. intros [<- | [<- | []]]; reflexivity. Qed.

Lemma as_usize_small z : 0 <= z < 2 ^ 64 -> as_usize z = z.
Proof. intros H. unfold as_usize. apply Z.mod_small. assumption. Qed.

Lemma sys_mid name s i n : In name n_MID -> isize_ok i -> isize_ok n -> zlen s < 2 ^ 63 ->
  sys_function name [SStr s; SInt i; SInt n] = Ok (SStr (mid s i n)).
Proof.
  intros Hname Hi Hn Hlen. rewrite sys_function_mid by assumption. cbn [length Nat.leb arg nth to_s to_i].
  unfold isize_ok in *.
  assert (Hp : 2 ^ 63 < 2 ^ 64) by (vm_compute; reflexivity).
  rewrite !as_usize_small by lia. rewrite vb_mid_spec by lia. rewrite mid_spec_eq.
  replace (Z.to_nat (Z.max n 0)) with (Z.to_nat n) by lia.
  replace (Z.to_nat (Z.max i 0 - 1)) with (Z.to_nat (i - 1)) by lia. reflexivity.
Qed.

Lemma sys_sizeof name (v : sval) : In name n_SizeOf ->
  sys_function name [v] = Ok (SInt (match v with SArr a => size_of a | SStr s => size_of s | _ => 0 end)).
Proof. intros [<- | [<- | []]]; destruct v; reflexivity. Qed.

Lemma sys_chr name n : In name n_CHR -> is_scalar n = true -> sys_function name [SInt n] = Ok (SStr (chr n)).
Proof.
  intros Hname Hn.
  assert (E : sys_function name [SInt n] = Ok (SStr (chr_of n))) by (destruct Hname as [<- | [<- | []]]; reflexivity).
  rewrite E. unfold chr_of, as_u32, chr. unfold is_scalar, in_range in Hn.
  assert (Hp : 1114111 < 2 ^ 32) by (vm_compute; reflexivity).
  rewrite Z.mod_small by lia.
  replace ((n <? 55296) || ((57344 <=? n) && (n <=? 1114111))) with true by lia. reflexivity.
Qed.

Lemma prefixb_is_prefix p : forall s, prefixb p s = is_prefix p s.
Proof. induction p as [|x p IH]; destruct s as [|y s]; cbn [prefixb is_prefix]; try reflexivity; rewrite IH; reflexivity. Qed.

Lemma replace_loop_spec f : forall s a b, replace_loop f s a b = replace_all_f f s a b.
Proof.
  induction f as [|f IH]; intros s a b; [reflexivity|].
  cbn [replace_loop replace_all_f]. destruct s as [|c r]; [reflexivity|].
  rewrite prefixb_is_prefix. rewrite !IH. reflexivity.
Qed.

Lemma sys_replace name s a b : In name n_REPLACE -> a <> [] ->
  sys_function name [SStr s; SStr a; SStr b] = Ok (SStr (replace_all s a b)).
Proof.
  intros Hname Ha.
  assert (E : sys_function name [SStr s; SStr a; SStr b] = Ok (SStr (str_replace s a b)))
    by (destruct Hname as [<- | [<- | []]]; reflexivity).
  rewrite E. unfold str_replace, replace_all. destruct a as [|x a]; [congruence|].
  rewrite replace_loop_spec. reflexivity.
Qed.

Lemma eval_array_index en x k (a : list sval) i v :
  var_get en x = Some (SArr a) -> eval en k = Ok (SInt i) -> isize_ok i -> array_get a i = Some v ->
  eval en (TCall true x [k]) = Ok v.
Proof.
  intros Hx Hk Hi Hget. unfold array_get in Hget. destruct (i <? 0) eqn:E; [discriminate|].
  assert (Hlt : (Z.to_nat i < length a)%nat) by (apply nth_error_Some; congruence).
  cbn [eval]. rewrite Hx. rewrite Hk. cbn [bind to_i].
  assert (Hp : 2 ^ 63 < 2 ^ 64) by (vm_compute; reflexivity). unfold isize_ok in Hi.
  rewrite as_usize_small by lia. unfold zlen.
  replace (Z.of_nat (length a) <=? i) with false by lia.
  f_equal. apply nth_error_nth. assumption.
Qed.

(* ================================================================================================ *)
(* 9. corollaries for the canonical printer                                                           *)
(* ================================================================================================ *)
Theorem parse_eval_print tb lexvars en e v r :
  expr_ok e = true -> no_str e = true -> int_env en -> denote en e = Some v -> stop_tail r ->
  eval_text tb lexvars (menv en) (print e ++ r) = Ok (inj v).
Proof.
  intros Hok Hns Hen Hv Hr.
  apply (parse_eval tb lexvars en e (print e) v [] r); try assumption; [|reflexivity].
  apply print_at_prints. assumption.
Qed.

Theorem parse_eval_layout tb lexvars en e v cs r :
  expr_ok e = true -> no_str e = true -> int_env en -> denote en e = Some v -> stop_tail r ->
  eval_text tb lexvars (menv en) (fst (print_lay 4 e cs) ++ r) = Ok (inj v).
Proof.
  intros Hok Hns Hen Hv Hr.
  apply (parse_eval tb lexvars en e _ v [] r); try assumption; [|reflexivity].
  apply print_lay_prints. assumption.
Qed.

Definition zero_lit : expr := Lit (Dec [0]).
Theorem div_mod_zero_expr tb lexvars en e z r :
  expr_ok e = true -> no_str e = true -> int_env en -> denote en e = Some (VI z) -> stop_tail r ->
  eval_text tb lexvars (menv en) (print (Bin ODiv e zero_lit) ++ r) = Ok (SInt 0) /\
  eval_text tb lexvars (menv en) (print (Bin OMod e zero_lit) ++ r) = Ok (SInt 0).
Proof.
  intros Hok Hns Hen Hv Hr.
  split; [apply (parse_eval_print tb lexvars en (Bin ODiv e zero_lit) (VI 0) r)
         | apply (parse_eval_print tb lexvars en (Bin OMod e zero_lit) (VI 0) r)];
    try assumption; cbn [expr_ok no_str denote zero_lit]; rewrite ?Hok, ?Hns, ?Hv; reflexivity.
Qed.

(* ================================================================================================ *)
(* 10. "+" on strings, what booleans and strings print as                                             *)
(* ================================================================================================ *)
Lemma calc_plus a b :
  calc 43 a b = Ok (if is_s a || is_s b then SStr (to_s a ++ to_s b) else SInt (to_i a + to_i b)).
Proof. calc_reduce. unfold sv_add. destruct (is_s a || is_s b); reflexivity. Qed.

Lemma shown_bool_str v : (forall z, v <> VI z) -> to_s (inj v) = show v.
Proof. destruct v as [z | s | [|]]; intros H; [exfalso; apply (H z); reflexivity | reflexivity ..]. Qed.
