(* C10: the expression reader (precedence climbing) builds, for every rendering of a syntax tree, a
   token tree whose evaluation is the tree's denotation; literal readers; built-in functions. *)
From Sakura.Model Require Import Base Cursor Length Expr.
From Sakura.Gen Require Import ExprConsts.
From Sakura.Spec Require Import ExprSpec.
From Coq Require Import Lia.
Open Scope Z_scope.

(* ================================================================================================ *)
(* 0. skip_space                                                                                      *)
(* ================================================================================================ *)
Definition stop_pt (s : list Z) : Prop :=
  match s with
  | [] => True
  | c :: _ => c <> 9 /\ c <> 32 /\ prefixb [c_SLASH; c_STAR] s = false
  end.

Lemma skip_space_f_stop f s ln : stop_pt s -> skip_space_f (S f) s ln = (s, ln).
Proof.
  destruct s as [|c r]; [reflexivity|]. intros (H9 & H32 & Hc).
  cbn [skip_space_f]. unfold c_TAB, c_SP.
  replace (c =? 9) with false by lia. replace (c =? 32) with false by lia. cbn [orb].
  rewrite Hc. destruct (c =? c_SLASH); reflexivity.
Qed.

Lemma get_token_s_len sp : forall s ln t r ln', get_token_s sp s ln = (t, r, ln') -> (length r <= length s)%nat.
Proof.
  induction s as [|c s IH]; intros ln t r ln' H.
  - cbn in H. inversion H. cbn. lia.
  - cbn [get_token_s] in H. destruct (prefixb sp (c :: s)).
    + inversion H. subst. rewrite skipn_length. lia.
    + destruct (get_token_s sp s (if c =? c_NL then ln + 1 else ln)) as [[t1 r1] l1] eqn:E.
      inversion H. subst. apply IH in E. cbn [length]. lia.
Qed.

Lemma skip_space_f_reaches_stop : forall f s ln, (length s < f)%nat -> stop_pt (fst (skip_space_f f s ln)).
Proof.
  induction f as [|f IH]; intros s ln Hl; [lia|].
  destruct s as [|c r]; [exact I|].
  cbn [skip_space_f].
  destruct ((c =? c_TAB) || (c =? c_SP)) eqn:Eb.
  - apply IH. cbn [length] in Hl. lia.
  - destruct (c =? c_SLASH) eqn:Es.
    + destruct (prefixb [c_SLASH; c_STAR] (c :: r)) eqn:Ep.
      * assert (Hc : c = 47) by (unfold c_SLASH in Es; lia). subst c.
        cbn [get_token_s].
        replace (prefixb [c_STAR; c_SLASH] (47 :: r)) with false by reflexivity.
        destruct (get_token_s [c_STAR; c_SLASH] r (if 47 =? c_NL then ln + 1 else ln)) as [[t r'] ln'] eqn:Eg.
        apply IH. apply get_token_s_len in Eg. cbn [length] in Hl. lia.
      * cbn [fst]. unfold stop_pt. unfold c_TAB, c_SP in Eb. repeat split; try lia. exact Ep.
    + cbn [fst]. unfold stop_pt. unfold c_TAB, c_SP in Eb. repeat split; try lia.
      cbn [prefixb]. rewrite Z.eqb_sym. rewrite Es. reflexivity.
Qed.

Lemma sksp_stop s : stop_pt s -> sksp s = s.
Proof. intros H. unfold sksp, skip_space. rewrite skip_space_f_stop by assumption. reflexivity. Qed.

Lemma sksp_is_stop s : stop_pt (sksp s).
Proof. unfold sksp, skip_space. apply skip_space_f_reaches_stop. lia. Qed.

Lemma sksp_idem s : sksp (sksp s) = sksp s.
Proof. apply sksp_stop, sksp_is_stop. Qed.

Lemma sksp_blanks ws : forall r, blanks ws -> sksp (ws ++ r) = sksp r.
Proof.
  unfold blanks, sksp, skip_space. induction ws as [|c ws IH]; intros r H; [reflexivity|].
  cbn [forallb] in H. apply andb_prop in H. destruct H as [Hc Hws].
  cbn [app length skip_space_f]. unfold is_blank in Hc. unfold c_TAB, c_SP.
  replace ((c =? 9) || (c =? 32)) with true by lia.
  apply IH. assumption.
Qed.

Lemma sksp_nil : sksp [] = [].
Proof. reflexivity. Qed.

(* a character at which skip_space stays: not a blank and not '/' *)
Definition solid (c : Z) : Prop := c <> 9 /\ c <> 32 /\ c <> 47.
Lemma sksp_solid c r : solid c -> sksp (c :: r) = c :: r.
Proof.
  intros (H1 & H2 & H3). apply sksp_stop. cbn [stop_pt]. repeat split; try assumption.
  cbn [prefixb]. unfold c_SLASH. replace (47 =? c) with false by lia. reflexivity.
Qed.
Lemma sksp_slash c r : c <> 42 -> sksp (47 :: c :: r) = 47 :: c :: r.
Proof.
  intros H. apply sksp_stop. cbn [stop_pt]. repeat split; try lia.
  cbn [prefixb]. unfold c_STAR. replace (42 =? c) with false by lia. rewrite andb_false_r. reflexivity.
Qed.

(* ================================================================================================ *)
(* 1. operators                                                                                       *)
(* ================================================================================================ *)
Definition opch (o : op) : Z :=
  match o with
  | OMul => 42 | ODiv => 47 | OMod => 37 | OAdd => 43 | OSub => 45
  | OEq | OEq2 => 61 | ONe | ONe2 => c_NE | OLt => 60 | OLe => c_LE | OGt => 62 | OGe => c_GE
  | OAnd => 38 | OOr => 124
  end.
Definition prio (o : op) : Z := op_priority (opch o).
(* the largest priority value of an operator of level <= l = the least of an operator of level >= l *)
Definition P (l : nat) : Z :=
  match l with O => 0 | 1%nat => LEX_MUL_DIV | 2%nat => LEX_PLUS_MINUS | 3%nat => LEX_COMPARE | _ => LEX_OR_AND end.

(* the regenerated table of read_operator gives the four levels of the specification *)
Lemma prio_lvl o : prio o = P (lvl o).
Proof. destruct o; reflexivity. Qed.
Lemma P_mono a b : (a <= b)%nat -> P a <= P b.
Proof.
  intros H. destruct a as [|[|[|[|a]]]]; destruct b as [|[|[|[|b]]]]; try lia; vm_compute; congruence.
Qed.
Lemma P_pred o : P (lvl o - 1) <= prio o - 1.
Proof. destruct o; vm_compute; congruence. Qed.
Lemma P_top : P 4 = LEX_OR_AND.
Proof. reflexivity. Qed.
Lemma lvl_pos o : (1 <= lvl o)%nat.
Proof. destruct o; cbn; lia. Qed.

Definition operand_start (c : Z) : bool :=
  is_digit c || (c =? 36) || is_letter c || (c =? 45) || (c =? 40) || (c =? 123).
Definition first_ok (s : list Z) : Prop :=
  match s with c :: _ => is_blank c || operand_start c = true | [] => False end.

Lemma first_ok_facts c : is_blank c || operand_start c = true ->
  c <> 61 /\ c <> 62 /\ c <> 42 /\ c <> 47 /\ c <> 43 /\ c <> 33 /\ c <> 60 /\ c <> 38 /\ c <> 124 /\ c <> 37 /\ c <> 0
  /\ c <> c_GE /\ c <> c_LE /\ c <> c_NE.
Proof.
  unfold is_blank, operand_start, is_digit, is_letter, in_range, c_GE, c_LE, c_NE. lia.
Qed.

Lemma read_operator_opstr o ws rest : blanks ws -> first_ok rest ->
  read_operator (ws ++ opstr o ++ rest) = Some (opch o, prio o, rest).
Proof.
  intros Hws Hf. destruct rest as [|c rest]; [destruct Hf|]. cbn [first_ok] in Hf.
  apply first_ok_facts in Hf. unfold c_GE, c_LE, c_NE in Hf.
  destruct Hf as (F1 & F2 & F3 & F4 & F5 & F6 & F7 & F8 & F9 & F10 & F11 & F12 & F13 & F14).
  unfold read_operator. rewrite sksp_blanks by assumption.
  assert (Hs : sksp (opstr o ++ c :: rest) = opstr o ++ c :: rest).
  { destruct o; cbn [opstr app]; try (apply sksp_solid; unfold solid; lia).
    apply sksp_slash. assumption. }
  rewrite Hs. unfold prio.
  destruct o; cbn [opstr app peek0 opch];
    match goal with |- context [is_operator_char ?k] => change (is_operator_char k) with true end;
    cbn [negb prefixb skipn tl]; unfold c_GE, c_LE, c_NE;
    repeat match goal with
    | |- context [?a =? c] => replace (a =? c) with false by lia
    end;
    reflexivity.
Qed.
