(* C10: the expression reader (precedence climbing) builds, for every rendering of a syntax tree, a
   token tree whose evaluation is the tree's denotation; literal readers; built-in functions. *)
From Sakura.Model Require Import Base Cursor Length Expr.
From Sakura.Gen Require Import ExprConsts.
From Sakura.Spec Require Import ExprSpec.
From Coq Require Import Lia.
Open Scope Z_scope.

(* ================================================================================================ *)
(* 0. skip_space                                                                                      *)
(* ================================================================================================ *)
Definition stop_pt (s : list Z) : Prop :=
  match s with
  | [] => True
  | c :: _ => c <> 9 /\ c <> 32 /\ prefixb [c_SLASH; c_STAR] s = false
  end.

Lemma skip_space_f_stop f s ln : stop_pt s -> skip_space_f (S f) s ln = (s, ln).
Proof.
  destruct s as [|c r]; [reflexivity|]. intros (H9 & H32 & Hc).
  cbn [skip_space_f]. unfold c_TAB, c_SP.
  replace (c =? 9) with false by lia. replace (c =? 32) with false by lia. cbn [orb].
  rewrite Hc. destruct (c =? c_SLASH); reflexivity.
Qed.

Lemma get_token_s_len sp : forall s ln t r ln', get_token_s sp s ln = (t, r, ln') -> (length r <= length s)%nat.
Proof.
  induction s as [|c s IH]; intros ln t r ln' H.
  - cbn in H. inversion H. cbn. lia.
  - cbn [get_token_s] in H. destruct (prefixb sp (c :: s)).
    + inversion H. subst. rewrite skipn_length. lia.
    + destruct (get_token_s sp s (if c =? c_NL then ln + 1 else ln)) as [[t1 r1] l1] eqn:E.
      inversion H. subst. apply IH in E. cbn [length]. lia.
Qed.

Lemma skip_space_f_reaches_stop : forall f s ln, (length s < f)%nat -> stop_pt (fst (skip_space_f f s ln)).
Proof.
  induction f as [|f IH]; intros s ln Hl; [lia|].
  destruct s as [|c r]; [exact I|].
  cbn [skip_space_f].
  destruct ((c =? c_TAB) || (c =? c_SP)) eqn:Eb.
  - apply IH. cbn [length] in Hl. lia.
  - destruct (c =? c_SLASH) eqn:Es.
    + destruct (prefixb [c_SLASH; c_STAR] (c :: r)) eqn:Ep.
      * assert (Hc : c = 47) by (unfold c_SLASH in Es; lia). subst c.
        cbn [get_token_s].
        replace (prefixb [c_STAR; c_SLASH] (47 :: r)) with false by reflexivity.
        destruct (get_token_s [c_STAR; c_SLASH] r (if 47 =? c_NL then ln + 1 else ln)) as [[t r'] ln'] eqn:Eg.
        apply IH. apply get_token_s_len in Eg. cbn [length] in Hl. lia.
      * cbn [fst]. unfold stop_pt. unfold c_TAB, c_SP in Eb. repeat split; try lia. exact Ep.
    + cbn [fst]. unfold stop_pt. unfold c_TAB, c_SP in Eb. repeat split; try lia.
      cbn [prefixb]. rewrite Z.eqb_sym. rewrite Es. reflexivity.
Qed.

Lemma sksp_stop s : stop_pt s -> sksp s = s.
Proof. intros H. unfold sksp, skip_space. rewrite skip_space_f_stop by assumption. reflexivity. Qed.

Lemma sksp_is_stop s : stop_pt (sksp s).
Proof. unfold sksp, skip_space. apply skip_space_f_reaches_stop. lia. Qed.

Lemma sksp_idem s : sksp (sksp s) = sksp s.
Proof. apply sksp_stop, sksp_is_stop. Qed.

Lemma sksp_blanks ws : forall r, blanks ws -> sksp (ws ++ r) = sksp r.
Proof.
  unfold blanks, sksp, skip_space. induction ws as [|c ws IH]; intros r H; [reflexivity|].
  cbn [forallb] in H. apply andb_prop in H. destruct H as [Hc Hws].
  cbn [app length skip_space_f]. unfold is_blank in Hc. unfold c_TAB, c_SP.
  replace ((c =? 9) || (c =? 32)) with true by lia.
  apply IH. assumption.
Qed.

Lemma sksp_nil : sksp [] = [].
Proof. reflexivity. Qed.

(* a character at which skip_space stays: not a blank and not '/' *)
Definition solid (c : Z) : Prop := c <> 9 /\ c <> 32 /\ c <> 47.
Lemma sksp_solid c r : solid c -> sksp (c :: r) = c :: r.
Proof.
  intros (H1 & H2 & H3). apply sksp_stop. cbn [stop_pt]. repeat split; try assumption.
  cbn [prefixb]. unfold c_SLASH. replace (47 =? c) with false by lia. reflexivity.
Qed.
Lemma sksp_slash c r : c <> 42 -> sksp (47 :: c :: r) = 47 :: c :: r.
Proof.
  intros H. apply sksp_stop. cbn [stop_pt]. repeat split; try lia.
  cbn [prefixb]. unfold c_STAR. replace (42 =? c) with false by lia. rewrite andb_false_r. reflexivity.
Qed.

(* ================================================================================================ *)
(* 1. operators                                                                                       *)
(* ================================================================================================ *)
Definition opch (o : op) : Z :=
  match o with
  | OMul => 42 | ODiv => 47 | OMod => 37 | OAdd => 43 | OSub => 45
  | OEq | OEq2 => 61 | ONe | ONe2 => c_NE | OLt => 60 | OLe => c_LE | OGt => 62 | OGe => c_GE
  | OAnd => 38 | OOr => 124
  end.
Definition prio (o : op) : Z := op_priority (opch o).
(* the largest priority value of an operator of level <= l = the least of an operator of level >= l *)
Definition P (l : nat) : Z :=
  match l with O => 0 | 1%nat => LEX_MUL_DIV | 2%nat => LEX_PLUS_MINUS | 3%nat => LEX_COMPARE | _ => LEX_OR_AND end.

(* the regenerated table of read_operator gives the four levels of the specification *)
Lemma prio_lvl o : prio o = P (lvl o).
Proof. destruct o; reflexivity. Qed.
Lemma P_mono a b : (a <= b)%nat -> P a <= P b.
Proof.
  intros H. destruct a as [|[|[|[|a]]]]; destruct b as [|[|[|[|b]]]]; try lia; vm_compute; congruence.
Qed.
Lemma P_pred o : P (lvl o - 1) <= prio o - 1.
Proof. destruct o; vm_compute; congruence. Qed.
Lemma P_top : P 4 = LEX_OR_AND.
Proof. reflexivity. Qed.
Lemma lvl_pos o : (1 <= lvl o)%nat.
Proof. destruct o; cbn; lia. Qed.

Definition operand_start (c : Z) : bool :=
  is_digit c || (c =? 36) || is_letter c || (c =? 45) || (c =? 40) || (c =? 123).
Definition first_ok (s : list Z) : Prop :=
  match s with c :: _ => is_blank c || operand_start c = true | [] => False end.

Lemma first_ok_facts c : is_blank c || operand_start c = true ->
  c <> 61 /\ c <> 62 /\ c <> 42 /\ c <> 47 /\ c <> 43 /\ c <> 33 /\ c <> 60 /\ c <> 38 /\ c <> 124 /\ c <> 37 /\ c <> 0
  /\ c <> c_GE /\ c <> c_LE /\ c <> c_NE.
Proof.
  unfold is_blank, operand_start, is_digit, is_letter, in_range, c_GE, c_LE, c_NE. lia.
Qed.

Lemma read_operator_opstr o ws rest : blanks ws -> first_ok rest ->
  read_operator (ws ++ opstr o ++ rest) = Some (opch o, prio o, rest).
Proof.
  intros Hws Hf. destruct rest as [|c rest]; [destruct Hf|]. cbn [first_ok] in Hf.
  apply first_ok_facts in Hf. unfold c_GE, c_LE, c_NE in Hf.
  destruct Hf as (F1 & F2 & F3 & F4 & F5 & F6 & F7 & F8 & F9 & F10 & F11 & F12 & F13 & F14).
  unfold read_operator. rewrite sksp_blanks by assumption.
  assert (Hs : sksp (opstr o ++ c :: rest) = opstr o ++ c :: rest).
  { destruct o; cbn [opstr app]; try (apply sksp_solid; unfold solid; lia).
    apply sksp_slash. assumption. }
  rewrite Hs. unfold prio.
  destruct o; cbn [opstr app peek0 opch];
    match goal with |- context [is_operator_char ?k] => change (is_operator_char k) with true end;
    cbn [negb prefixb skipn tl]; unfold c_GE, c_LE, c_NE;
    repeat match goal with
    | |- context [?a =? c] => replace (a =? c) with false by lia
    end;
    reflexivity.
Qed.

(* ================================================================================================ *)
(* 2. literals                                                                                        *)
(* ================================================================================================ *)
Definition dg (d : Z) : Z := 48 + d.
(* what may follow a number or a name: nothing, or a character that is not a letter, digit or '_' *)
Definition nw (r : list Z) : Prop := match r with [] => True | c :: _ => is_word_ch c = false end.

Lemma nw_facts c : is_word_ch c = false ->
  is_digit c = false /\ is_oct_digit c = false /\ hex_val c = None /\ c <> 120 /\ c <> 111 /\ c <> 48.
Proof.
  unfold is_word_ch, is_upper, is_lower, is_digit, is_oct_digit, hex_val, is_digit. intros H.
  repeat split; try lia.
  replace ((48 <=? c) && (c <=? 57)) with false by lia.
  replace ((97 <=? c) && (c <=? 102)) with false by lia.
  replace ((65 <=? c) && (c <=? 70)) with false by lia. reflexivity.
Qed.

Lemma take_dec_digits ds : forall acc r,
  forallb (in_range 0 9) ds = true -> nw r ->
  take_dec acc (map (fun d => 48 + d) ds ++ r) = (value_in 10 acc ds, r).
Proof.
  induction ds as [|d ds IH]; intros acc r Hd Hr.
  - cbn [map app value_in]. destruct r as [|c r]; [reflexivity|].
    cbn [take_dec]. cbn [nw] in Hr. apply nw_facts in Hr. destruct Hr as (H & _). rewrite H. reflexivity.
  - cbn [forallb] in Hd. apply andb_prop in Hd. destruct Hd as [Hd Hds].
    cbn [map app take_dec value_in]. unfold in_range in Hd.
    replace (is_digit (48 + d)) with true by (unfold is_digit; lia).
    replace (acc * 10 + (48 + d - 48)) with (acc * 10 + d) by lia.
    apply IH; assumption.
Qed.

(* the code's "octal" digits are 0..8 *)
Lemma take_oct_digits ds : forall acc r,
  forallb (in_range 0 8) ds = true -> nw r ->
  take_oct acc (map (fun d => 48 + d) ds ++ r) = (value_in 8 acc ds, r).
Proof.
  induction ds as [|d ds IH]; intros acc r Hd Hr.
  - cbn [map app value_in]. destruct r as [|c r]; [reflexivity|].
    cbn [take_oct]. cbn [nw] in Hr. apply nw_facts in Hr. destruct Hr as (_ & H & _). rewrite H. reflexivity.
  - cbn [forallb] in Hd. apply andb_prop in Hd. destruct Hd as [Hd Hds].
    cbn [map app take_oct value_in]. unfold in_range in Hd.
    replace (is_oct_digit (48 + d)) with true by (unfold is_oct_digit; lia).
    replace (acc * 8 + (48 + d - 48)) with (acc * 8 + d) by lia.
    apply IH; assumption.
Qed.

Lemma hex_val_char d : in_range 0 15 (fst d) = true -> hex_val (hex_char d) = Some (fst d).
Proof.
  unfold in_range, hex_char, hex_val, is_digit. intros H. destruct d as [v u]. cbn [fst snd] in *.
  destruct (v <? 10) eqn:E.
  - replace ((48 <=? 48 + v) && (48 + v <=? 57)) with true by lia. f_equal. lia.
  - destruct u.
    + replace ((48 <=? 65 + (v - 10)) && (65 + (v - 10) <=? 57)) with false by lia.
      replace ((97 <=? 65 + (v - 10)) && (65 + (v - 10) <=? 102)) with false by lia.
      replace ((65 <=? 65 + (v - 10)) && (65 + (v - 10) <=? 70)) with true by lia. f_equal. lia.
    + replace ((48 <=? 97 + (v - 10)) && (97 + (v - 10) <=? 57)) with false by lia.
      replace ((97 <=? 97 + (v - 10)) && (97 + (v - 10) <=? 102)) with true by lia. f_equal. lia.
Qed.

Lemma take_hex_digits ds : forall acc r,
  forallb (fun d => in_range 0 15 (fst d)) ds = true -> nw r ->
  take_hex acc (map hex_char ds ++ r) = (value_in 16 acc (map fst ds), r).
Proof.
  induction ds as [|d ds IH]; intros acc r Hd Hr.
  - cbn [map app value_in]. destruct r as [|c r]; [reflexivity|].
    cbn [take_hex]. cbn [nw] in Hr. apply nw_facts in Hr. destruct Hr as (_ & _ & H & _). rewrite H. reflexivity.
  - cbn [forallb] in Hd. apply andb_prop in Hd. destruct Hd as [Hd Hds].
    cbn [map app take_hex value_in]. rewrite hex_val_char by assumption.
    apply IH; assumption.
Qed.

Lemma hex_char_facts d : in_range 0 15 (fst d) = true ->
  hex_char d <> 120 /\ hex_char d <> 111 /\ hex_char d <> 36 /\ hex_char d <> 45 /\ is_word_ch (hex_char d) = true.
Proof.
  unfold in_range, hex_char, is_word_ch, is_upper, is_lower, is_digit. destruct d as [v u]. cbn [fst snd].
  intros H. destruct (v <? 10) eqn:E; [|destruct u]; lia.
Qed.

(* "0x" / "0o" is not seen at the start of a digit string followed by a non-word character *)
Lemma no_zero_prefix k cs r :
  (forall c, In c cs -> c <> k) -> (forall c, is_word_ch c = false -> c <> k) -> nw r -> k <> 48 ->
  prefixb [48; k] (cs ++ r) = false \/ exists c2 cs2, cs = 48 :: c2 :: cs2 /\ False.
Proof.
  intros Hcs Hk Hr Hk0. left.
  destruct cs as [|c1 cs]; cbn [app].
  - destruct r as [|c r]; [reflexivity|]. cbn [prefixb]. cbn [nw] in Hr.
    destruct (nw_facts c Hr) as (_ & _ & _ & _ & _ & H48). replace (48 =? c) with false by lia. reflexivity.
  - cbn [prefixb]. destruct (48 =? c1); [|reflexivity]. cbn [andb].
    destruct cs as [|c2 cs]; cbn [app].
    + destruct r as [|c r]; [reflexivity|]. cbn [prefixb nw] in *. specialize (Hk c Hr).
      replace (k =? c) with false by lia. reflexivity.
    + cbn [prefixb]. assert (c2 <> k) by (apply Hcs; right; left; reflexivity).
      replace (k =? c2) with false by lia. reflexivity.
Qed.

Lemma nw_not_x c : is_word_ch c = false -> c <> 120.
Proof. intros H. apply nw_facts in H. lia. Qed.
Lemma nw_not_o c : is_word_ch c = false -> c <> 111.
Proof. intros H. apply nw_facts in H. lia. Qed.

Lemma eq_char_cons c r k : eq_char (c :: r) k = (c =? k).
Proof. reflexivity. Qed.

Lemma get_int_lit n r def : lit_ok n = true -> nw r -> get_int def (lit_text n ++ r) = (lit_value n, r).
Proof.
  intros Hok Hr. destruct n as [ds | dollar ds | ds]; cbn [lit_ok] in Hok; apply andb_prop in Hok; destruct Hok as [Hne Hd].
  - (* decimal *)
    destruct ds as [|d ds]; [discriminate|]. clear Hne. cbn [lit_text lit_value].
    set (cs := map (fun d0 => 48 + d0) (d :: ds)).
    assert (Hin : forall c, In c cs -> 48 <= c <= 57).
    { intros c Hc. unfold cs in Hc. apply in_map_iff in Hc. destruct Hc as (x & <- & Hx).
      rewrite forallb_forall in Hd. specialize (Hd x Hx). unfold in_range in Hd. lia. }
    assert (Hx : prefixb [48; 120] (cs ++ r) = false).
    { destruct (no_zero_prefix 120 cs r) as [H | (? & ? & _ & [])]; auto; try lia.
      - intros c Hc. apply Hin in Hc. lia. - exact nw_not_x. }
    assert (Ho : prefixb [48; 111] (cs ++ r) = false).
    { destruct (no_zero_prefix 111 cs r) as [H | (? & ? & _ & [])]; auto; try lia.
      - intros c Hc. apply Hin in Hc. lia. - exact nw_not_o. }
    unfold get_int. unfold c_0, c_x, c_o, c_MINUS, c_DOLLAR.
    assert (Hhd : exists c0 t0, cs ++ r = c0 :: t0 /\ 48 <= c0 <= 57).
    { unfold cs. cbn [map app]. eexists. eexists. split; [reflexivity|].
      cbn [forallb] in Hd. apply andb_prop in Hd. unfold in_range in Hd. lia. }
    destruct Hhd as (c0 & t0 & E0 & R0).
    replace (eq_char (cs ++ r) 45) with false by (rewrite E0; cbn [eq_char]; lia).
    rewrite Hx. replace (eq_char (cs ++ r) 36) with false by (rewrite E0; cbn [eq_char]; lia).
    cbn [orb]. rewrite Ho.
    replace (is_numeric (cs ++ r)) with true by (rewrite E0; cbn [is_numeric]; unfold is_digit; lia).
    cbn [negb]. unfold cs. rewrite take_dec_digits by assumption. f_equal. lia.
  - (* hex *)
    destruct ds as [|d ds]; [discriminate|]. clear Hne. cbn [lit_value].
    pose proof Hd as Hd'. cbn [forallb] in Hd'. apply andb_prop in Hd'. destruct Hd' as [Hd1 _].
    destruct (hex_char_facts d Hd1) as (Nx & No & Nd & Nm & _).
    assert (Hhv : hex_val (hex_char d) = Some (fst d)) by (apply hex_val_char; assumption).
    assert (Hx0 : prefixb [48; 120] (map hex_char (d :: ds) ++ r) = false).
    { destruct (no_zero_prefix 120 (map hex_char (d :: ds)) r) as [H | (? & ? & _ & [])]; auto; try lia.
      - intros c Hc. apply in_map_iff in Hc. destruct Hc as (x & <- & Hxin).
        rewrite forallb_forall in Hd. specialize (Hd x Hxin). apply hex_char_facts in Hd. lia.
      - exact nw_not_x. }
    destruct dollar; cbn [lit_text app].
    + (* $.. *)
      unfold get_int. unfold c_0, c_x, c_o, c_MINUS, c_DOLLAR. cbn [eq_char prefixb].
      replace (36 =? 45) with false by reflexivity. replace (48 =? 36) with false by reflexivity.
      replace (36 =? 36) with true by reflexivity. cbn [andb orb].
      cbv beta iota zeta.
      unfold get_hex. unfold c_0, c_x, c_MINUS, c_DOLLAR.
      do 3 (rewrite ?eq_char_cons; change (36 =? 45) with false; change (36 =? 36) with true;
            cbv beta iota zeta; cbn [tl]).
      rewrite Hx0. cbn [map app peek0]. rewrite Hhv.
      change (hex_char d :: map hex_char ds ++ r) with (map hex_char (d :: ds) ++ r).
      rewrite take_hex_digits by assumption. cbv beta iota zeta. f_equal. cbn [map]. lia.
    + (* 0x.. *)
      unfold get_int. unfold c_0, c_x, c_o, c_MINUS, c_DOLLAR. cbn [eq_char prefixb].
      replace (48 =? 45) with false by reflexivity. replace (48 =? 48) with true by reflexivity.
      replace (120 =? 120) with true by reflexivity. cbn [andb orb].
      cbv beta iota zeta.
      unfold get_hex. unfold c_0, c_x, c_MINUS, c_DOLLAR.
      do 3 (rewrite ?eq_char_cons; change (48 =? 45) with false; change (48 =? 36) with false;
            cbv beta iota zeta; cbn [tl]).
      cbn [prefixb]. change (48 =? 48) with true. change (120 =? 120) with true.
      cbn [andb]. cbv beta iota zeta. cbn [skipn map app peek0]. rewrite Hhv.
      change (hex_char d :: map hex_char ds ++ r) with (map hex_char (d :: ds) ++ r).
      rewrite take_hex_digits by assumption. cbv beta iota zeta. f_equal. cbn [map]. lia.
  - (* octal *)
    destruct ds as [|d ds]; [discriminate|]. clear Hne. cbn [lit_text lit_value app].
    assert (Hd8 : forallb (in_range 0 8) (d :: ds) = true).
    { rewrite forallb_forall in *. intros x Hx. specialize (Hd x Hx). unfold in_range in *. lia. }
    pose proof Hd as Hd'. cbn [forallb] in Hd'. apply andb_prop in Hd'. destruct Hd' as [Hd1 _]. unfold in_range in Hd1.
    unfold get_int. unfold c_0, c_x, c_o, c_MINUS, c_DOLLAR. cbn [eq_char prefixb].
    do 3 (rewrite ?eq_char_cons; change (48 =? 45) with false; change (48 =? 36) with false; cbv beta iota zeta).
    cbn [prefixb].
    change (48 =? 48) with true. change (120 =? 111) with false. change (111 =? 111) with true.
    cbn [andb orb skipn map app peek0].
    replace (is_oct_digit (48 + d)) with true by (unfold is_oct_digit; lia). cbn [andb negb].
    change ((48 + d) :: map (fun d0 => 48 + d0) ds ++ r) with (map (fun d0 => 48 + d0) (d :: ds) ++ r).
    rewrite take_oct_digits by assumption. cbv beta iota zeta. f_equal. lia.
Qed.

(* what the code does with the digit 8 after "0o": it is accepted with the value 8 *)
Lemma get_int_octal_8 ds r def : ds <> [] -> forallb (in_range 0 8) ds = true -> nw r ->
  get_int def (48 :: 111 :: map (fun d => 48 + d) ds ++ r) = (value_in 8 0 ds, r).
Proof.
  intros Hne Hd Hr. destruct ds as [|d ds]; [congruence|].
  pose proof Hd as Hd'. cbn [forallb] in Hd'. apply andb_prop in Hd'. destruct Hd' as [Hd1 _]. unfold in_range in Hd1.
  unfold get_int. unfold c_0, c_x, c_o, c_MINUS, c_DOLLAR. cbn [eq_char prefixb].
  do 3 (rewrite ?eq_char_cons; change (48 =? 45) with false; change (48 =? 36) with false; cbv beta iota zeta).
  cbn [prefixb].
  change (48 =? 48) with true. change (120 =? 111) with false. change (111 =? 111) with true.
  cbn [andb orb skipn map app peek0].
  replace (is_oct_digit (48 + d)) with true by (unfold is_oct_digit; lia). cbn [andb negb].
  change ((48 + d) :: map (fun d0 => 48 + d0) ds ++ r) with (map (fun d0 => 48 + d0) (d :: ds) ++ r).
  rewrite take_oct_digits by assumption. cbv beta iota zeta. f_equal. lia.
Qed.

(* ================================================================================================ *)
(* 3. names and string constants                                                                      *)
(* ================================================================================================ *)
Lemma is_word_char_ch c : is_word_char c = is_word_ch c.
Proof. unfold is_word_char, is_letter, in_range, is_word_ch, is_upper, is_lower, is_digit. lia. Qed.

Lemma take_word_name x : forall r, forallb is_word_char x = true -> nw r -> take_word (x ++ r) = (x, r).
Proof.
  induction x as [|c x IH]; intros r Hx Hr.
  - cbn [app]. destruct r as [|c r]; [reflexivity|]. cbn [take_word nw] in *. rewrite Hr. reflexivity.
  - cbn [forallb] in Hx. apply andb_prop in Hx. destruct Hx as [Hc Hx].
    cbn [app take_word]. rewrite is_word_char_ch in Hc. rewrite Hc. rewrite IH by assumption. reflexivity.
Qed.

Lemma name_ok_inv x : name_ok x = true ->
  exists c x', x = c :: x' /\ is_letter c = true /\ forallb is_word_char x = true.
Proof.
  destruct x as [|c x']; [discriminate|]. cbn [name_ok]. intros H. apply andb_prop in H. destruct H as [H1 H2].
  exists c, x'. repeat split; try assumption. cbn [forallb]. rewrite H2. unfold is_word_char. rewrite H1. reflexivity.
Qed.

Lemma get_word_name x r : name_ok x = true -> nw r -> get_word (x ++ r) = (x, r).
Proof.
  intros Hx Hr. destruct (name_ok_inv x Hx) as (c & x' & -> & Hc & Hall).
  unfold get_word. cbn [app eq_char].
  replace (c =? 35) with false by (unfold is_letter, in_range in Hc; lia).
  change (c :: x' ++ r) with ((c :: x') ++ r). apply take_word_name; assumption.
Qed.

Lemma nest_str s : forall r, str_ok s = true -> nest_loop 123 125 1 (s ++ 125 :: r) = (s, r).
Proof.
  induction s as [|x s IH]; intros r H.
  - reflexivity.
  - cbn [str_ok forallb] in H. apply andb_prop in H. destruct H as [Hx Hs].
    cbn [app nest_loop].
    replace (x =? 123) with false by lia. replace (x =? 125) with false by lia.
    rewrite IH by assumption. reflexivity.
Qed.

(* ================================================================================================ *)
(* 4. the reader as a big-step relation with explicit fuel bounds                                     *)
(* ================================================================================================ *)
Section Reader.
Variable tb : Z.
Variable lexvars : list (list Z).
Notation rv := (read_value tb lexvars).
Notation rcp := (read_calc_priority tb lexvars).
Notation cloop := (calc_loop tb lexvars).

Definition rv_ok (n : nat) (s : list Z) (k : tok) (s' : list Z) : Prop :=
  forall f, (n <= f)%nat -> rv f s = Ok (Some k, s').
Definition rcp_ok (n : nat) (M : Z) (s : list Z) (k : tok) (s' : list Z) : Prop :=
  forall f, (n <= f)%nat -> rcp f M s = Ok (Some k, s').
Definition loop_ok (n : nat) (M : Z) (left : tok) (s : list Z) (k : tok) (s' : list Z) : Prop :=
  forall f, (n <= f)%nat -> cloop f M left s = Ok (k, s').

Lemma rcp_intro n m M s k s1 k' s2 :
  rv_ok n s k s1 -> loop_ok m M k s1 k' s2 -> rcp_ok (S (n + m)) M s k' s2.
Proof.
  intros Hv Hl f Hf. destruct f as [|f]; [lia|].
  cbn [read_calc_priority]. rewrite Hv by lia. cbn [bind]. rewrite Hl by lia. reflexivity.
Qed.

(* where the loop stops: end of input, no operator, or an operator looser than max_priority *)
Definition stops (M : Z) (r : list Z) : Prop :=
  r = [] \/ read_operator r = None \/ exists c p s1, read_operator r = Some (c, p, s1) /\ M < p.
Definition rest_of (r : list Z) : list Z :=
  match r with
  | [] => []
  | _ => match read_operator r with None => sksp r | Some _ => r end
  end.

Lemma loop_stop M left r : stops M r -> loop_ok 1 M left r left (rest_of r).
Proof.
  intros H f Hf. destruct f as [|f]; [lia|]. cbn [calc_loop]. unfold rest_of.
  destruct r as [|c r]; [reflexivity|].
  destruct H as [H | [H | (c1 & p & s1 & H & Hp)]]; [discriminate| |]; rewrite H; [reflexivity|].
  replace (p >? M) with true by lia. reflexivity.
Qed.

Lemma loop_step n m M left s c p s1 kr s2 k' s3 :
  s <> [] -> read_operator s = Some (c, p, s1) -> p <= M ->
  rcp_ok n (p - 1) s1 kr s2 -> loop_ok m M (TCalc c p left kr) s2 k' s3 ->
  loop_ok (S (n + m)) M left s k' s3.
Proof.
  intros Hne Hop Hp Hr Hl f Hf. destruct f as [|f]; [lia|]. cbn [calc_loop].
  destruct s as [|c0 s]; [congruence|]. rewrite Hop.
  replace (p >? M) with false by lia. rewrite Hr by lia. cbn [bind]. apply Hl. lia.
Qed.

Lemma read_operator_sksp r : read_operator (sksp r) = read_operator r.
Proof. unfold read_operator. rewrite sksp_idem. reflexivity. Qed.

(* the loop behaves the same on r and on what an inner reader leaves of r *)
Lemma loop_rest_of n M left r k' s' : loop_ok n M left r k' s' -> loop_ok (S n) M left (rest_of r) k' s'.
Proof.
  intros H. unfold rest_of. destruct r as [|c r]; [intros f Hf; apply H; lia|].
  destruct (read_operator (c :: r)) eqn:E; [intros f Hf; apply H; lia|].
  intros f Hf. destruct f as [|f]; [lia|].
  specialize (H (S f) ltac:(lia)). cbn [calc_loop] in H. rewrite E in H.
  cbn [calc_loop]. destruct (sksp (c :: r)) as [|c' r'] eqn:Es; [exact H|].
  rewrite <- Es in H |- *. rewrite read_operator_sksp, E, sksp_idem. exact H.
Qed.


Lemma rcp_ok_mono n n' M s k s' : rcp_ok n M s k s' -> (n <= n')%nat -> rcp_ok n' M s k s'.
Proof. intros H Hn f Hf. apply H. lia. Qed.
Lemma rv_ok_mono n n' s k s' : rv_ok n s k s' -> (n <= n')%nat -> rv_ok n' s k s'.
Proof. intros H Hn f Hf. apply H. lia. Qed.

(* ---- one lemma per branch of read_value ---- *)
Lemma rv_paren f s r0 t s1 s2 :
  sksp s = 40 :: r0 -> rcp f LEX_OR_AND r0 = Ok (Some t, s1) -> sksp s1 = 41 :: s2 ->
  rv (S f) s = Ok (Some t, s2).
Proof.
  intros Hs Hr H2. cbn [read_value]. rewrite Hs. change (40 =? 40) with true. cbv beta iota zeta.
  rewrite Hr. cbn [bind]. rewrite H2. reflexivity.
Qed.

Lemma rv_minus_num f s r0 :
  sksp s = 45 :: r0 -> is_numeric r0 = true ->
  rv (S f) s = let '(num, s1) := get_int 0 r0 in Ok (Some (TConstInt (-1 * num)), s1).
Proof.
  intros Hs Hn. cbn [read_value]. rewrite Hs. change (45 =? 40) with false. change (45 =? 45) with true.
  cbv beta iota zeta. rewrite Hn. reflexivity.
Qed.

Lemma rv_minus_val f s r0 k s1 :
  sksp s = 45 :: r0 -> is_numeric r0 = false -> rv f r0 = Ok (Some k, s1) ->
  rv (S f) s = Ok (Some (TCalc 42 0 (TConstInt (-1)) k), s1).
Proof.
  intros Hs Hn Hv. cbn [read_value]. rewrite Hs. change (45 =? 40) with false. change (45 =? 45) with true.
  cbv beta iota zeta. rewrite Hn, Hv. reflexivity.
Qed.

Lemma rv_num f s c r0 :
  sksp s = c :: r0 -> is_digit c || (c =? 36) = true ->
  rv (S f) s = let '(num, s1) := get_int 0 (c :: r0) in Ok (Some (TConstInt num), s1).
Proof.
  intros Hs Hc. cbn [read_value]. rewrite Hs.
  replace (c =? 40) with false by (unfold is_digit in Hc; lia).
  replace (c =? 45) with false by (unfold is_digit in Hc; lia).
  cbv beta iota zeta. rewrite Hc. reflexivity.
Qed.

Lemma rv_str f s r0 :
  sksp s = 123 :: r0 ->
  rv (S f) s = let '(str, s1) := get_token_nest 123 125 (123 :: r0) in Ok (Some (TConstStr str), s1).
Proof. intros Hs. cbn [read_value]. rewrite Hs. reflexivity. Qed.

Lemma rv_word f s c r0 x s1 :
  sksp s = c :: r0 -> is_letter c = true -> get_word (c :: r0) = (x, s1) ->
  eq_char s1 40 = false -> prefixb [43; 43] s1 = false -> prefixb [45; 45] s1 = false ->
  rv (S f) s = Ok (Some (TGetVar x), s1).
Proof.
  intros Hs Hc Hw H1 H2 H3. cbn [read_value]. rewrite Hs.
  unfold is_letter, in_range in Hc.
  replace (c =? 40) with false by lia. replace (c =? 45) with false by lia.
  replace (is_digit c || (c =? 36)) with false by (unfold is_digit; lia).
  replace (c =? 33) with false by lia. replace (c =? 123) with false by lia. replace (c =? 34) with false by lia.
  replace (is_upper c || is_lower c || (c =? 95) || (c =? 35)) with true by (unfold is_upper, is_lower; lia).
  cbv beta iota zeta. rewrite Hw. rewrite H1, H2, H3. reflexivity.
Qed.
