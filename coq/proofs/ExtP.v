(* Small facts about the arms the pipeline model gained after the first build (controllers, bends, RPN/NRPN, ...),
   shared by the proof files that analyse step_song arm by arm. *)
From Sakura.Model Require Import Base Cursor Length Event Song Token LoopMachine LexCore RunCore.
From Sakura.Model Require Cmd.
Open Scope Z_scope.

Lemma add_events_eq s f :
  add_events s f = upd_cur s (fun t => tr_push_events t (f (tr_timepos (cur_track s)) (tr_channel (cur_track s)))).
Proof. reflexivity. Qed.

(* RPN(..) / NRPN(..): three controller events, or a runtime error entry and nothing else *)
Lemma exec_rpn_direct_cases s nrpn args :
  (exists f, exec_rpn_direct s nrpn args = add_events s f) \/ (exists m, exec_rpn_direct s nrpn args = runtime_error s m).
Proof.
  unfold exec_rpn_direct. destruct args as [|a [|b [|c [|d l]]]];
    try (right; eexists; reflexivity). left. eexists. reflexivity.
Qed.

(* every event of these arms is a channel event without payload *)
Definition plain_ev (e : event) : Prop := e_data e = None /\ match e_type e with Meta | SysEx | DirectSMF => False | _ => True end.
Lemma cmd_cc_plain tp ch no v : Forall plain_ev (Cmd.cmd_cc tp ch no v).
Proof. repeat constructor. Qed.
Lemma cmd_pitch_bend_plain tp ch b v : Forall plain_ev (Cmd.cmd_pitch_bend tp ch b v).
Proof. repeat constructor. Qed.
Lemma cmd_rpn_plain tp ch m l v : Forall plain_ev (Cmd.cmd_rpn tp ch m l v).
Proof. repeat constructor. Qed.
Lemma cmd_nrpn_plain tp ch m l v : Forall plain_ev (Cmd.cmd_nrpn tp ch m l v).
Proof. repeat constructor. Qed.
Lemma cmd_rpn_direct_plain tp ch args : Forall plain_ev (Cmd.cmd_rpn_direct tp ch args).
Proof. unfold Cmd.cmd_rpn_direct. destruct args as [|a [|b [|c [|d l]]]]; repeat constructor. Qed.
Lemma cmd_nrpn_direct_plain tp ch args : Forall plain_ev (Cmd.cmd_nrpn_direct tp ch args).
Proof. unfold Cmd.cmd_nrpn_direct. destruct args as [|a [|b [|c [|d l]]]]; repeat constructor. Qed.

Ltac ext_plain :=
  intros;
  repeat match goal with |- context [if ?b then _ else _] => destruct b end;
  first [ apply cmd_cc_plain | apply cmd_pitch_bend_plain | apply cmd_rpn_plain | apply cmd_nrpn_plain
        | apply cmd_rpn_direct_plain | apply cmd_nrpn_direct_plain ].

(* exec_rpn_direct: the events it may add are plain *)
Lemma exec_rpn_direct_cases_plain s nrpn args :
  (exists f, exec_rpn_direct s nrpn args = add_events s f /\ forall tp ch, Forall plain_ev (f tp ch))
  \/ (exists m, exec_rpn_direct s nrpn args = runtime_error s m).
Proof.
  unfold exec_rpn_direct. destruct args as [|a [|b [|c [|d l]]]];
    try (right; eexists; reflexivity). left. eexists. split; [reflexivity|]. ext_plain.
Qed.

(* take apart the `let '(a, b) := x in` and `if` of a goal *)
Ltac destr_lets :=
  repeat match goal with
         | |- context [match ?x with (_, _) => _ end] => destruct x
         | |- context [if ?b then _ else _] => destruct b
         end.
Ltac destr_pairs :=
  repeat match goal with |- context [match ?x with (_, _) => _ end] => destruct x end.
