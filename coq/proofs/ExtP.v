(* Small facts about the arms the pipeline model gained after the first build (controllers, bends, RPN/NRPN, ...),
   shared by the proof files that analyse step_song arm by arm. *)
From Sakura.Model Require Import Base Cursor Length Event Song Token LoopMachine LexCore RunCore.
From Sakura.Model Require Cmd.
Open Scope Z_scope.

Lemma add_events_eq s f :
  add_events s f = upd_cur s (fun t => tr_push_events t (f (tr_timepos (cur_track s)) (tr_channel (cur_track s)))).
Proof. reflexivity. Qed.

(* RPN(..) / NRPN(..): three controller events, or a runtime error entry and nothing else *)
Lemma exec_rpn_direct_cases s nrpn args :
  (exists f, exec_rpn_direct s nrpn args = add_events s f) \/ (exists m, exec_rpn_direct s nrpn args = runtime_error s m).
Proof.
  unfold exec_rpn_direct. destruct args as [|a [|b [|c [|d l]]]];
    try (right; eexists; reflexivity). left. eexists. reflexivity.
Qed.

(* every event of these arms is a channel event without payload *)
Definition plain_ev (e : event) : Prop := e_data e = None /\ match e_type e with Meta | SysEx | DirectSMF => False | _ => True end.
Lemma cmd_cc_plain tp ch no v : Forall plain_ev (Cmd.cmd_cc tp ch no v).
Proof. repeat constructor. Qed.
Lemma cmd_pitch_bend_plain tp ch b v : Forall plain_ev (Cmd.cmd_pitch_bend tp ch b v).
Proof. repeat constructor. Qed.
Lemma cmd_rpn_plain tp ch m l v : Forall plain_ev (Cmd.cmd_rpn tp ch m l v).
Proof. repeat constructor. Qed.
Lemma cmd_nrpn_plain tp ch m l v : Forall plain_ev (Cmd.cmd_nrpn tp ch m l v).
Proof. repeat constructor. Qed.
Lemma cmd_rpn_direct_plain tp ch args : Forall plain_ev (Cmd.cmd_rpn_direct tp ch args).
Proof. unfold Cmd.cmd_rpn_direct. destruct args as [|a [|b [|c [|d l]]]]; repeat constructor. Qed.
Lemma cmd_nrpn_direct_plain tp ch args : Forall plain_ev (Cmd.cmd_nrpn_direct tp ch args).
Proof. unfold Cmd.cmd_nrpn_direct. destruct args as [|a [|b [|c [|d l]]]]; repeat constructor. Qed.

Ltac ext_plain :=
  intros;
  repeat match goal with |- context [if ?b then _ else _] => destruct b end;
  first [ apply cmd_cc_plain | apply cmd_pitch_bend_plain | apply cmd_rpn_plain | apply cmd_nrpn_plain
        | apply cmd_rpn_direct_plain | apply cmd_nrpn_direct_plain ].

(* exec_rpn_direct: the events it may add are plain *)
Lemma exec_rpn_direct_cases_plain s nrpn args :
  (exists f, exec_rpn_direct s nrpn args = add_events s f /\ forall tp ch, Forall plain_ev (f tp ch))
  \/ (exists m, exec_rpn_direct s nrpn args = runtime_error s m).
Proof.
  unfold exec_rpn_direct. destruct args as [|a [|b [|c [|d l]]]];
    try (right; eexists; reflexivity). left. eexists. split; [reflexivity|]. ext_plain.
Qed.

(* take apart the `let '(a, b) := x in` and `if` of a goal *)
Ltac destr_lets :=
  repeat match goal with
         | |- context [match ?x with (_, _) => _ end] => destruct x
         | |- context [if ?b then _ else _] => destruct b
         end.
Ltac destr_pairs :=
  repeat match goal with |- context [match ?x with (_, _) => _ end] => destruct x end.

(* ---- PLAY: one part, and invariants carried through all parts ---- *)
Lemma x_bind_ok {A B} (r : res A) (f : A -> res B) b : bind r f = Ok b -> exists a, r = Ok a /\ f a = Ok b.
Proof. destruct r; cbn [bind]; try discriminate. intros H. eexists; split; [reflexivity|exact H]. Qed.

Definition play_enter (s : song) (i : nat) (sp : Z) : song :=
  upd_cur (change_cur_track s i) (fun t => tr_set_timepos t sp).
Definition play_last (s3 : song) (last : Z) : Z :=
  if tr_timepos (cur_track s3) >? last then tr_timepos (cur_track s3) else last.

Lemma play_parts_cons ec ln sp a r i s last res :
  play_parts ec ln sp (a :: r) i s last = Ok res ->
  exists toks ls' s3,
    lex (ls_of_song (play_enter s i sp)) (play_text a) ln = Ok (toks, ls') /\
    ec toks (Ok (song_with_ls (play_enter s i sp) ls')) = Ok s3 /\
    play_parts ec ln sp r (S i) s3 (play_last s3 last) = Ok res.
Proof.
  cbn [play_parts]. fold (play_enter s i sp). intros H.
  apply x_bind_ok in H. destruct H as ([toks ls'] & L & H).
  apply x_bind_ok in H. destruct H as (s3 & E & H).
  exists toks, ls', s3. split; [exact L|]. split; [exact E|exact H].
Qed.

(* an invariant kept by entering a part (track numbers up to 999) and by lexing + executing a part is kept by PLAY's loop *)
Lemma play_parts_inv (P : song -> Prop) ec ln sp :
  (forall s i, (i <= 999)%nat -> P s -> P (play_enter s i sp)) ->
  (forall s2 txt toks ls' s3, P s2 -> lex (ls_of_song s2) txt ln = Ok (toks, ls') ->
     ec toks (Ok (song_with_ls s2 ls')) = Ok s3 -> P s3) ->
  forall args i s last res, (i + length args <= 1000)%nat -> P s ->
    play_parts ec ln sp args i s last = Ok res -> P (fst res).
Proof.
  intros Henter Hpart. induction args as [|a r IH]; intros i s last res Hb HP H.
  - cbn [play_parts] in H. injection H as <-. exact HP.
  - cbn [length] in Hb. apply play_parts_cons in H. destruct H as (toks & ls' & s3 & L & E & H).
    apply (IH (S i) s3 (play_last s3 last) res); [lia| |exact H].
    apply (Hpart _ _ _ _ _ (Henter s i ltac:(lia) HP) L E).
Qed.

Lemma exec_play_ok ec s args ln s' : exec_play ec s args ln = Ok s' ->
  (zlen args <= 999) /\ (s_cur s <= 999)%nat /\
  exists s4 last,
    play_parts ec ln (tr_timepos (cur_track s)) args 1 s (tr_timepos (cur_track s)) = Ok (s4, last) /\
    s' = change_cur_track (track_sync (upd_cur s4 (fun t => tr_set_timepos t last))) (s_cur s).
Proof.
  unfold exec_play. destruct (999 <? zlen args) eqn:E1; [discriminate|]. destruct (999 <? Z.of_nat (s_cur s)) eqn:E2; [discriminate|].
  cbn [orb]. intros H. apply x_bind_ok in H. destruct H as ([s4 last] & Hp & H). injection H as <-.
  split; [lia|]. split; [lia|]. exists s4, last. split; [exact Hp|reflexivity].
Qed.

(* ---- TempoChange: an invariant kept by tempo_change and by moving the pointer of the current track is kept by the ramp ---- *)
Section TempoChangeInv.
  Variable P : song -> Prop.
  Hypothesis P_tempo : forall s v, P s -> P (tempo_change s v).
  Hypothesis P_move : forall s (f : track -> Z), P s -> P (upd_cur s (fun t => tr_set_timepos t (f t))).

  Lemma tempo_ramp_loop_inv a w st n : forall idx s, P s -> P (tempo_ramp_loop s a w st n idx).
  Proof.
    induction idx as [|i r IH]; intros s H; [exact H|]. cbn [tempo_ramp_loop].
    apply IH. apply (P_move _ (fun t => tr_timepos t + st)). apply P_tempo, H.
  Qed.
  Lemma tempo_change_a_to_b_inv s a b len s' : P s -> tempo_change_a_to_b s a b len = Ok s' -> P s'.
  Proof.
    intros H. unfold tempo_change_a_to_b. destruct (_ =? 0); [discriminate|]. destruct (RAMP_MAX <? len); [discriminate|].
    intros E; injection E as <-.
    apply (P_move _ (fun _ => tr_timepos (cur_track s))). apply P_tempo.
    apply (P_move _ (fun _ => tr_timepos (cur_track s) + len)). apply tempo_ramp_loop_inv, H.
  Qed.
  Lemma exec_tempo_change_inv s a rest s' : P s -> exec_tempo_change s a rest = Ok s' -> P s'.
  Proof.
    intros H. unfold exec_tempo_change. destruct rest as [|b [|len [|x r]]].
    - intros E; injection E as <-. apply P_tempo, H.
    - apply tempo_change_a_to_b_inv, H.
    - apply tempo_change_a_to_b_inv, H.
    - intros E; injection E as <-. apply P_tempo, H.
  Qed.
End TempoChangeInv.

(* ---- SysEx: a runtime error entry and nothing else, or one event; GSEffect: the events of Cmd.cmd_gs_effect ---- *)
Lemma exec_sysex_cases s cs args s' : exec_sysex s cs args = Ok s' ->
  (args = [] /\ exists m, s' = runtime_error s m) \/
  (args <> [] /\ zlen args <= SYSEX_MAX /\ s' = add_events s (fun tp _ => Cmd.cmd_sysex tp args (cs =? 1))).
Proof.
  unfold exec_sysex. destruct args as [|a r].
  - intros E; injection E as <-. left. split; [reflexivity|]. eexists; reflexivity.
  - destruct (SYSEX_MAX <? _) eqn:G; [discriminate|]. intros E; injection E as <-. right.
    split; [discriminate|]. split; [lia|reflexivity].
Qed.
Lemma exec_gs_effect_cases s tag a rest s' : exec_gs_effect s tag a rest = Ok s' ->
  exists evs, Cmd.cmd_gs_effect (tr_timepos (cur_track s)) (as_u8 (s_device s)) (tr_channel (cur_track s)) tag (a :: rest) = Ok evs
              /\ s' = add_events s (fun _ _ => evs).
Proof.
  unfold exec_gs_effect. destruct (Cmd.cmd_gs_effect _ _ _ _ _) as [evs| | |]; cbn [bind]; try discriminate.
  intros E; injection E as <-. eexists; split; reflexivity.
Qed.
